#!/bin/bash
# Build the framework from files on disk only (offline): translator output + full .vo build.
set -e
cd "$(dirname "$0")"
export PYTHONPATH=/verif/harness:/repo PYTHONHASHSEED=0
if [ -f harness/translate.py ]; then /venv/bin/python harness/translate.py || true; fi
cd coq
coq_makefile -f _CoqProject -o Makefile > /dev/null 2>&1
timeout 3000 make -j16 2>&1 | grep -v '^Warning\|Closed under\|^COQ' | tail -20 || true
