#!/bin/bash
# Build the framework from files on disk only (offline): translator output + full .vo build.
cd "$(dirname "$0")"
D="$(pwd)"
export PYTHONPATH=$D/harness:${POLAR_REPO:-/repo} PYTHONHASHSEED=0
/venv/bin/python $D/harness/build_all.py 2>&1 | grep -v 'WARNING conda'
exit 0
