(* C13 — a concrete model of the hypotheses of FuncThm (non-vacuity, and an executable instance):
   the Gaussian rationals Q(i) with e m = i^m, i.e. the "angle" is pi/2 instead of 1 radian:
   sin(v pi/2), cos(v pi/2) are rational, 2 and i are units.  The theorems of FuncThm hold in
   EVERY commutative ring with such e, sn, cs (in particular in C with e m = exp(i m)); this
   instance shows that the hypotheses are satisfiable and lets the kernel run the generated
   definitions. *)
From Coq Require Import List ZArith Lia Arith Bool String Ring QArith Qcanon.
From Polar Require Import Qcx CRing Stats Func.
Import ListNotations.

Definition G : cring := quad_cring Qc_cring (- (1))%Qc.
Definition gi : G := (0%Qc, 1%Qc).
Definition gq (q : Qc) : G := (q, 0%Qc).

Definition e4 (m : Z) : G :=
  match (m mod 4)%Z with
  | 0%Z => (1%Qc, 0%Qc) | 1%Z => (0%Qc, 1%Qc) | 2%Z => ((- (1))%Qc, 0%Qc) | _ => (0%Qc, (- (1))%Qc)
  end.
(* sin(v pi/2), cos(v pi/2) *)
Definition sn4 (v : Z) : G :=
  match (v mod 4)%Z with 1%Z => (1%Qc, 0%Qc) | 3%Z => ((- (1))%Qc, 0%Qc) | _ => (0%Qc, 0%Qc) end.
Definition cs4 (v : Z) : G :=
  match (v mod 4)%Z with 0%Z => (1%Qc, 0%Qc) | 2%Z => ((- (1))%Qc, 0%Qc) | _ => (0%Qc, 0%Qc) end.

Lemma mod4_cases m : (m mod 4 = 0 \/ m mod 4 = 1 \/ m mod 4 = 2 \/ m mod 4 = 3)%Z.
Proof. pose proof (Z.mod_pos_bound m 4 ltac:(lia)). lia. Qed.

Lemma gi_sq : rmul gi gi = ropp (@r1 G).
Proof. apply (reqb_eq G). vm_compute. reflexivity. Qed.
Lemma e4_0 : e4 0%Z = @r1 G.
Proof. reflexivity. Qed.
Lemma e4_add m n : e4 (m + n)%Z = rmul (e4 m) (e4 n).
Proof.
  unfold e4. rewrite Zplus_mod.
  destruct (mod4_cases m) as [H|[H|[H|H]]], (mod4_cases n) as [K|[K|[K|K]]]; rewrite H, K;
    apply (reqb_eq G); vm_compute; reflexivity.
Qed.
Lemma mod4_opp v r : (v mod 4 = r -> (- v) mod 4 = (4 - r) mod 4)%Z.
Proof.
  intros H. pose proof (Z.div_mod v 4 ltac:(lia)) as D.
  replace (- v)%Z with ((4 - r) + (- (v / 4) - 1) * 4)%Z by lia.
  rewrite Z.mod_add by lia. reflexivity.
Qed.

(* Euler's formulas hold in the model *)
Lemma sn4_def v : rmul (rmul (zr (R:=G) 2) gi) (sn4 v) = rsub (e4 v) (e4 (- v)%Z).
Proof.
  unfold sn4, e4. destruct (mod4_cases v) as [H|[H|[H|H]]]; rewrite (mod4_opp v _ H), H;
    apply (reqb_eq G); vm_compute; reflexivity.
Qed.
Lemma cs4_def v : rmul (zr (R:=G) 2) (cs4 v) = radd (e4 v) (e4 (- v)%Z).
Proof.
  unfold cs4, e4. destruct (mod4_cases v) as [H|[H|[H|H]]]; rewrite (mod4_opp v _ H), H;
    apply (reqb_eq G); vm_compute; reflexivity.
Qed.
(* 2 and i are units of the model: the divisor of get_trig_moment is invertible *)
Lemma two_unit : rmul (zr (R:=G) 2) (gq (mkq 1 2)) = @r1 G.
Proof. apply (reqb_eq G). vm_compute. reflexivity. Qed.
Lemma gi_unit : rmul gi (ropp gi) = @r1 G.
Proof. apply (reqb_eq G). vm_compute. reflexivity. Qed.
