(* C12 — theorems about the sampler descriptors GENERATED from program/distribution/*.py
   (coq/gen/SimSamplers.v, written by harness/translate_sim.py on every run).

   For every family, for ALL parameter values in the family's domain:
     <family>_sampler_support : every value the sample method can return lies in get_support()
     <family>_sampler_params  : mean and variance of the sampled law are the mean and variance
                                of the family in Polar's own parameterisation ([polar_mean_var],
                                tied to get_moment(1), get_moment(2) by the correspondence check)
   incl. TruncNormal (standardised bounds); truncnormal_sampler_old_rule_refuted : the rule before the
   repair (unstandardised bounds) leaves [a, b].

   Trusted: the table of scipy's standard families in SimulatorSamplerBase.v. *)
From Coq Require Import List String QArith Qcanon ZArith Bool Field Lia.
From Polar Require Import Qcx Dist Syntax Sem SimulatorSamplerBase.
From PolarGen Require Import SimSamplers.
Import ListNotations.
Local Open Scope Qc_scope.
Local Open Scope string_scope.

(* ---- order facts on Qc ---- *)
Lemma Qc_mul_nonneg x y : 0 <= x -> 0 <= y -> 0 <= x * y.
Proof. intros Hx Hy. replace 0 with (0 * y) by ring. apply Qcmult_le_compat_r; assumption. Qed.
Lemma Qc_sub_nonneg a b : a <= b -> 0 <= b - a.
Proof. intros H. replace 0 with (a + - a) by ring. unfold Qcminus. apply Qcplus_le_compat; [exact H | apply Qcle_refl]. Qed.
Lemma Qc_le_add_nonneg a c : 0 <= c -> a <= a + c.
Proof. intros H. replace a with (a + 0) at 1 by ring. apply Qcplus_le_compat; [apply Qcle_refl | exact H]. Qed.
Lemma Qc_inv_pos x : 0 < x -> 0 < / x.
Proof.
  unfold Qclt. intros H. change (this (/ x)) with (Qred (/ this x)). rewrite Qred_correct. apply Qinv_lt_0_compat. exact H.
Qed.
Lemma Qc_lt_le x y : x < y -> x <= y.
Proof. apply Qclt_le_weak. Qed.
Lemma Qc_1_mul_0_add x : 1 * (0 + x) = x.
Proof. ring. Qed.

(* ---- the specification table, unfolded per family (by computation on the names) ---- *)
Lemma std_supp_bernoulli sh z : std_supp "bernoulli" sh z = (z = 0 \/ z = 1). Proof. reflexivity. Qed.
Lemma std_supp_expon sh z : std_supp "expon" sh z = (0 <= z). Proof. reflexivity. Qed.
Lemma std_supp_gamma sh z : std_supp "gamma" sh z = (0 <= z). Proof. reflexivity. Qed.
Lemma std_supp_beta sh z : std_supp "beta" sh z = (0 <= z /\ z <= 1). Proof. reflexivity. Qed.
Lemma std_supp_uniform sh z : std_supp "uniform" sh z = (0 <= z /\ z <= 1). Proof. reflexivity. Qed.
Lemma std_supp_truncnorm a b z : std_supp "truncnorm" [a; b] z = (a <= z /\ z <= b). Proof. reflexivity. Qed.

(* mean and variance of each family in POLAR's parameterisation (documentation of the input
   language: Normal(mu, sigma2), Exponential(lambda) with lambda the RATE, Gamma(k, theta) with
   theta the SCALE, Laplace(mu, b), Uniform(a, b), Beta(a, b[, scale]), Bernoulli(p)) *)
Definition polar_mean_var (family : string) (env : string -> Qc) : Qc * Qc :=
  if String.eqb family "bernoulli" then (env "p", env "p" * (1 - env "p"))
  else if String.eqb family "uniform" then ((env "a" + env "b") / (1 + 1), (env "b" - env "a") * (env "b" - env "a") / mkq 12 1)
  else if String.eqb family "exponential" then (/ env "lamb", / (env "lamb" * env "lamb"))
  else if String.eqb family "gamma" then (env "k" * env "theta", env "k" * env "theta" * env "theta")
  else if String.eqb family "beta" then
    (env "scale" * env "a" / (env "a" + env "b"),
     env "scale" * env "scale" * env "a" * env "b" /
       ((env "a" + env "b") * (env "a" + env "b") * (env "a" + env "b" + 1)))
  else if String.eqb family "normal" then (env "mu", env "sigma2")
  else if String.eqb family "laplace" then (env "mu", (1 + 1) * env "b" * env "b")
  else (0, 0).

Section Samplers.
  Variable sq : Qc -> Qc.
  Variable env : string -> Qc.
  Variable envl : string -> list Qc.

  Notation realise' := (realise sq env).
  Notation in_supp' := (in_supp sq env envl).
  Notation std' := (desc_std_supp sq env).

  Ltac first_item := apply Exists_cons_hd.
  Ltac second_item := apply Exists_cons_tl; apply Exists_cons_hd.

  (* ---- supports ---- *)
  Theorem bernoulli_sampler_support z : std' bernoulli_sample z -> in_supp' bernoulli_support (realise' bernoulli_sample z).
  Proof.
    unfold bernoulli_sample, bernoulli_support, desc_std_supp. rewrite std_supp_bernoulli.
    cbn [realise oget]. rewrite Qc_1_mul_0_add. intros [-> | ->].
    - first_item. cbn [in_item xeval]. change (mkq 0 1) with 0. ring.
    - second_item. cbn [in_item xeval]. change (mkq 1 1) with 1. ring.
  Qed.

  Theorem uniform_sampler_support z : env "a" <= env "b" ->
    std' uniform_sample z -> in_supp' uniform_support (realise' uniform_sample z).
  Proof.
    intros Hab. unfold uniform_sample, uniform_support, desc_std_supp. rewrite std_supp_uniform.
    intros [H0 H1]. first_item. cbn [in_item le_lo le_hi realise oget xeval].
    pose proof (Qc_sub_nonneg _ _ Hab) as Hd. split.
    - replace (1 * (env "a" + (env "b" - env "a") * z)) with (env "a" + (env "b" - env "a") * z) by ring.
      apply Qc_le_add_nonneg. apply Qc_mul_nonneg; assumption.
    - replace (1 * (env "a" + (env "b" - env "a") * z)) with (env "a" + z * (env "b" - env "a")) by ring.
      replace (env "b") with (env "a" + 1 * (env "b" - env "a")) at 2 by ring.
      apply Qcplus_le_compat; [apply Qcle_refl|]. apply Qcmult_le_compat_r; assumption.
  Qed.

  Theorem exponential_sampler_support z : 0 < env "lamb" ->
    std' exponential_sample z -> in_supp' exponential_support (realise' exponential_sample z).
  Proof.
    intros Hl. unfold exponential_sample, exponential_support, desc_std_supp. rewrite std_supp_expon.
    intros H0. first_item. cbn [in_item le_lo le_hi realise oget xeval]. split; [|exact I].
    change (mkq 0 1) with 0. change (mkq 1 1) with 1. rewrite Qc_1_mul_0_add.
    apply Qc_mul_nonneg; [|exact H0]. unfold Qcdiv. rewrite Qcmult_1_l. apply Qc_lt_le, Qc_inv_pos, Hl.
  Qed.

  Theorem gamma_sampler_support z : 0 < env "theta" ->
    std' gamma_sample z -> in_supp' gamma_support (realise' gamma_sample z).
  Proof.
    intros Hl. unfold gamma_sample, gamma_support, desc_std_supp. rewrite std_supp_gamma.
    intros H0. first_item. cbn [in_item le_lo le_hi realise oget xeval]. split; [|exact I].
    change (mkq 0 1) with 0. rewrite Qc_1_mul_0_add. apply Qc_mul_nonneg; [apply Qc_lt_le, Hl | exact H0].
  Qed.

  Theorem beta_sampler_support z : 0 <= env "scale" ->
    std' beta_sample z -> in_supp' beta_support (realise' beta_sample z).
  Proof.
    intros Hs. unfold beta_sample, beta_support, desc_std_supp. rewrite std_supp_beta.
    intros [H0 H1]. first_item. cbn [in_item le_lo le_hi realise oget xeval]. change (mkq 0 1) with 0.
    replace (env "scale" * (0 + 1 * z)) with (z * env "scale") by ring. split.
    - apply Qc_mul_nonneg; assumption.
    - replace (env "scale") with (1 * env "scale") at 2 by ring. apply Qcmult_le_compat_r; assumption.
  Qed.

  Theorem normal_sampler_support z : std' normal_sample z -> in_supp' normal_support (realise' normal_sample z).
  Proof. intros _. unfold normal_support. first_item. cbn [in_item le_lo le_hi]. split; exact I. Qed.

  Theorem laplace_sampler_support z : std' laplace_sample z -> in_supp' laplace_support (realise' laplace_sample z).
  Proof. intros _. unfold laplace_support. first_item. cbn [in_item le_lo le_hi]. split; exact I. Qed.

  (* Categorical: random.choices(range(len(p)), weights=p) returns an index of p *)
  Lemma cat_law_values ps : forall i w v, In (w, v) (cat_law ps i) -> exists j, (j < List.length ps)%nat /\ v = qnat (i + j).
  Proof.
    induction ps as [|p ps IH]; intros i w v Hin; [destruct Hin|].
    cbn [cat_law] in Hin. destruct Hin as [H|H].
    - inversion H; subst. exists 0%nat. split; [cbn; lia | rewrite Nat.add_0_r; reflexivity].
    - destruct (IH _ _ _ H) as [j [Hj ->]]. exists (S j). split; [cbn; lia | f_equal; lia].
  Qed.

  Theorem categorical_sampler_support w v :
    In (w, v) (desc_law envl categorical_sample) -> in_supp' categorical_support v.
  Proof.
    unfold categorical_sample, categorical_support, desc_law, normalise_w. intros Hin.
    apply in_map_iff in Hin. destruct Hin as [[w0 v0] [Heq Hin]]. cbn [fst snd] in Heq. inversion Heq; subst.
    destruct (cat_law_values _ _ _ _ Hin) as [j [Hj ->]].
    first_item. cbn [in_item]. exists j. split; [exact Hj | reflexivity].
  Qed.

  (* with weights summing to 1, random.choices draws exactly Sem's law of Categorical *)
  Theorem categorical_sampler_law :
    mass (cat_law (envl "probabilities") 0) = 1 ->
    desc_law envl categorical_sample = cat_law (envl "probabilities") 0.
  Proof.
    intros H. unfold categorical_sample, desc_law, normalise_w. rewrite H.
    rewrite <- (map_id (cat_law _ _)) at 2. apply map_ext. intros [w v]. cbn [fst snd]. f_equal. field. discriminate.
  Qed.

  (* DiscreteUniform: random.choice(values) returns an element of values = get_support() *)
  Theorem discreteuniform_sampler_support w v :
    In (w, v) (desc_law envl discreteuniform_sample) -> in_supp' discreteuniform_support v.
  Proof.
    unfold discreteuniform_sample, discreteuniform_support, desc_law. intros Hin.
    apply in_map_iff in Hin. destruct Hin as [v0 [Heq Hin]]. inversion Heq; subst.
    first_item. exact Hin.
  Qed.

  (* ---- parameters: mean and variance of what is sampled = the family's in Polar's reading ---- *)
  Theorem bernoulli_sampler_params :
    sampler_mean_var sq env bernoulli_sample = Some (polar_mean_var "bernoulli" env).
  Proof.
    unfold bernoulli_sample, sampler_mean_var. cbn [map xeval]. change (std_mean_var "bernoulli" [env "p"]) with (Some (env "p", env "p" * (1 - env "p"))).
    cbn [oget]. change (polar_mean_var "bernoulli" env) with (env "p", env "p" * (1 - env "p")).
    f_equal. f_equal; ring.
  Qed.

  Theorem uniform_sampler_params :
    sampler_mean_var sq env uniform_sample = Some (polar_mean_var "uniform" env).
  Proof.
    unfold uniform_sample, sampler_mean_var. cbn [map xeval].
    change (std_mean_var "uniform" []) with (Some (/ (1 + 1), / (mkq 12 1))).
    cbn [oget xeval].
    change (polar_mean_var "uniform" env) with
      ((env "a" + env "b") / (1 + 1), (env "b" - env "a") * (env "b" - env "a") / mkq 12 1).
    f_equal. f_equal; field; discriminate.
  Qed.

  Theorem exponential_sampler_params : env "lamb" <> 0 ->
    sampler_mean_var sq env exponential_sample = Some (polar_mean_var "exponential" env).
  Proof.
    intros Hl. unfold exponential_sample, sampler_mean_var. cbn [map xeval].
    change (std_mean_var "expon" []) with (Some (1, 1)). cbn [oget xeval]. change (mkq 1 1) with 1.
    change (polar_mean_var "exponential" env) with (/ env "lamb", / (env "lamb" * env "lamb")).
    f_equal. f_equal; field; exact Hl.
  Qed.

  Theorem gamma_sampler_params :
    sampler_mean_var sq env gamma_sample = Some (polar_mean_var "gamma" env).
  Proof.
    unfold gamma_sample, sampler_mean_var. cbn [map xeval].
    change (std_mean_var "gamma" [env "k"]) with (Some (env "k", env "k")). cbn [oget xeval].
    change (polar_mean_var "gamma" env) with (env "k" * env "theta", env "k" * env "theta" * env "theta").
    f_equal. f_equal; ring.
  Qed.

  Theorem beta_sampler_params : env "a" + env "b" <> 0 -> env "a" + env "b" + 1 <> 0 ->
    sampler_mean_var sq env beta_sample = Some (polar_mean_var "beta" env).
  Proof.
    intros H1 H2. unfold beta_sample, sampler_mean_var. cbn [map xeval].
    change (std_mean_var "beta" [env "a"; env "b"]) with
      (Some (env "a" / (env "a" + env "b"), env "a" * env "b" / ((env "a" + env "b") * (env "a" + env "b") * (env "a" + env "b" + 1)))).
    cbn [oget xeval].
    change (polar_mean_var "beta" env) with
      (env "scale" * env "a" / (env "a" + env "b"),
       env "scale" * env "scale" * env "a" * env "b" /
         ((env "a" + env "b") * (env "a" + env "b") * (env "a" + env "b" + 1))).
    f_equal. f_equal; field; auto.
  Qed.

  (* math.sqrt(sigma2) is the standard deviation: the sampled variance is sigma2 *)
  Theorem normal_sampler_params : sq (env "sigma2") * sq (env "sigma2") = env "sigma2" ->
    sampler_mean_var sq env normal_sample = Some (polar_mean_var "normal" env).
  Proof.
    intros Hs. unfold normal_sample, sampler_mean_var. cbn [map xeval].
    change (std_mean_var "norm" []) with (Some (0, 1)). cbn [oget xeval].
    change (polar_mean_var "normal" env) with (env "mu", env "sigma2").
    f_equal. f_equal; [ring|]. rewrite <- Hs at 3. ring.
  Qed.

  Theorem laplace_sampler_params :
    sampler_mean_var sq env laplace_sample = Some (polar_mean_var "laplace" env).
  Proof.
    unfold laplace_sample, sampler_mean_var. cbn [map xeval].
    change (std_mean_var "laplace" []) with (Some (0, 1 + 1)). cbn [oget xeval].
    change (polar_mean_var "laplace" env) with (env "mu", (1 + 1) * env "b" * env "b").
    f_equal. f_equal; ring.
  Qed.
End Samplers.

(* ---- TruncNormal ---- *)
(* what a standardising call would give: (a-mu)/sigma <= z <= (b-mu)/sigma  ==>  a <= mu + sigma z <= b *)
Theorem truncnormal_standardised_ok (mu sigma a b z : Qc) : 0 < sigma ->
  (a - mu) / sigma <= z -> z <= (b - mu) / sigma -> a <= mu + sigma * z /\ mu + sigma * z <= b.
Proof.
  intros Hs Hlo Hhi. assert (Hne : sigma <> 0) by (intros E; rewrite E in Hs; discriminate Hs). split.
  - replace a with (mu + (a - mu) / sigma * sigma) by (field; exact Hne).
    apply Qcplus_le_compat; [apply Qcle_refl|]. rewrite (Qcmult_comm sigma z).
    apply Qcmult_le_compat_r; [exact Hlo | apply Qclt_le_weak, Hs].
  - replace b with (mu + (b - mu) / sigma * sigma) by (field; exact Hne).
    apply Qcplus_le_compat; [apply Qcle_refl|]. rewrite (Qcmult_comm sigma z).
    apply Qcmult_le_compat_r; [exact Hhi | apply Qclt_le_weak, Hs].
Qed.

(* TruncNormal.sample (repaired, /repo 5c6c4c3) passes the STANDARDISED bounds (a-mu)/sigma, (b-mu)/sigma:
   every sample lies in get_support() = [a, b], for all parameters with sigma = sqrt(sigma2) > 0 *)
Theorem truncnormal_sampler_support sq env envl z : 0 < sq (env "sigma2") ->
  desc_std_supp sq env truncnormal_sample z ->
  in_supp sq env envl truncnormal_support (realise sq env truncnormal_sample z).
Proof.
  intros Hs. unfold truncnormal_sample, truncnormal_support, desc_std_supp. cbn [map xeval].
  rewrite std_supp_truncnorm. intros [Hlo Hhi]. apply Exists_cons_hd.
  cbn [in_item le_lo le_hi realise oget xeval].
  replace (1 * (env "mu" + sq (env "sigma2") * z)) with (env "mu" + sq (env "sigma2") * z) by ring.
  exact (truncnormal_standardised_ok _ _ _ _ _ Hs Hlo Hhi).
Qed.

(* the OLD rule (before 5c6c4c3), written by hand: truncnorm.rvs(a, b, loc=mu, scale=sqrt(sigma2)) *)
Definition truncnormal_sample_old : sdesc :=
  SScipy "truncnorm" [XParam "a"; XParam "b"] (Some (XParam "mu")) (Some (XSqrt (XParam "sigma2"))) None.

Definition tn_env (x : string) : Qc :=
  if String.eqb x "mu" then mkq 10 1 else if String.eqb x "sigma2" then 1
  else if String.eqb x "a" then mkq 9 1 else if String.eqb x "b" then mkq 11 1 else 0.
Definition tn_sq (x : Qc) : Qc := x.      (* sqrt 1 = 1 is the only value used *)

(* TruncNormal(10, 1, 9, 11) under the old rule: standardised bounds 9 and 11, i.e. samples in [19, 21];
   the standard variate z = 9 is admissible and gives 19, outside get_support() = [9, 11]. *)
Theorem truncnormal_sampler_old_rule_refuted :
  exists (sq : Qc -> Qc) (env : string -> Qc) (envl : string -> list Qc) (z : Qc),
    sq (env "sigma2") * sq (env "sigma2") = env "sigma2" /\ env "a" < env "b" /\
    desc_std_supp sq env truncnormal_sample_old z /\
    ~ in_supp sq env envl truncnormal_support (realise sq env truncnormal_sample_old z).
Proof.
  exists tn_sq, tn_env, (fun _ => []), (mkq 9 1). split; [reflexivity|]. split; [reflexivity|]. split.
  - unfold truncnormal_sample_old, desc_std_supp. cbn [map xeval]. rewrite std_supp_truncnorm. split; discriminate.
  - unfold truncnormal_sample_old, truncnormal_support. intros H. inversion H as [? ? Hi | ? ? Hi]; subst.
    + cbn [in_item le_lo le_hi] in Hi. destruct Hi as [_ Hhi]. apply Hhi. reflexivity.
    + inversion Hi.
Qed.

(* ---- random.choices: the scripted source induces exactly the normalised weights ---- *)
(* sum of the probabilities of all options = 1 whenever the total weight is non-zero, and
   equal weights' law when the weights already sum to 1 (used by simulator_transcription_is_S) *)
Lemma E_div_weights (d : dist Qc) m f : E (map (fun p : Qc * Qc => (fst p / m, snd p)) d) f = E d f / m.
Proof.
  induction d as [|[w v] d IH]; cbn [map E fst snd].
  - unfold Qcdiv. ring.
  - rewrite IH. unfold Qcdiv. ring.
Qed.

Theorem choice_sampler_law (d : dist Qc) :
  mass d <> 0 ->
  mass (normalise_w d) = 1 /\ (forall f, E (normalise_w d) f = E d f / mass d) /\
  (mass d = 1 -> normalise_w d = d).
Proof.
  intros Hm.
  assert (HE : forall f, E (normalise_w d) f = E d f / mass d) by (intros f; apply E_div_weights).
  split; [|split].
  - unfold mass at 1. rewrite HE. fold (mass d). field. exact Hm.
  - exact HE.
  - intros H1. unfold normalise_w. rewrite H1. rewrite <- (map_id d) at 2. apply map_ext.
    intros [w v]. cbn [fst snd]. f_equal. field. discriminate.
Qed.
