(* C12 — Gallina transcription of Polar's simulator (simulation/simulator.py) as a
   path-indexed DETERMINISTIC executor, and the theorem that summing over all scripts of
   random choices gives the monadic law.

   What is transcribed (file : function -> definition here):
     simulation/simulator.py : Simulator.execute(list)      -> sim_block
                               Simulator.execute(IfStatem)  -> sim_stmt (PIf ..) / sim_branches
                               Simulator.execute(Assignment)-> sim_stmt (PAssign ..)
                               Simulator.simulate           -> sim_loop / sim_run
     program/assignment/assignment.py : Assignment.evaluate -> sim_assign
     program/assignment/poly_assignment.py : evaluate_right_side (random.choices)
     program/distribution/*.py : sample (random.choices / random.choice / scipy rvs)
                                                            -> [pick] on the option list
                                                               given by the sampler
   The simulator runs on the PARSED program: a list of Assignment objects (variable,
   condition, default, right side) and IfStatem objects (conditions, branches, optional
   else branch).  [pstmt] is that structure; SimulatorParse.v transcribes the parser's
   desugaring of Syntax.stmt into it.

   A script is the list of indices returned by the random sources, one entry per call
   (a deterministic PolyAssignment also calls random.choices, with one option).  *)
From Coq Require Import List String QArith Qcanon ZArith Bool Lia.
From Polar Require Import Qcx Dist Syntax Sem.
Import ListNotations.
Local Open Scope Qc_scope.

(* ---- the parsed program ---- *)
Inductive pstmt :=
| PAssign (g : gassign)                          (* Assignment: variable, condition, default, rhs *)
| PIf (bs : pbranches) (els : pblock)            (* IfStatem: conditions/branches, else_branch (None and [] are both
                                                    falsy in `if else_branch:` and both mean: return state -> PNil) *)
with pblock :=
| PNil
| PCons (s : pstmt) (b : pblock)
with pbranches :=
| PBrNil
| PBrCons (c : cond) (b : pblock) (bs : pbranches).

Scheme pstmt_mut := Induction for pstmt Sort Prop
with pblock_mut := Induction for pblock Sort Prop
with pbranches_mut := Induction for pbranches Sort Prop.
Combined Scheme pstmt_pblock_pbranches_ind from pstmt_mut, pblock_mut, pbranches_mut.

Record pprog := { pp_init : pblock; pp_guard : cond; pp_body : pblock }.

Fixpoint pblock_app (b1 b2 : pblock) : pblock :=
  match b1 with PNil => b2 | PCons s b => PCons s (pblock_app b b2) end.

Definition script := list nat.
Definition outcome := (Qc * state * script)%type.      (* probability, state, rest of the script *)

(* one entry of the enumerated law: the script consumed, its probability, the end state *)
Definition path := (script * (Qc * state))%type.
Definition law_of (ps : list path) : dist state := map snd ps.

Fixpoint indexed {A} (i : nat) (d : list A) : list (nat * A) :=
  match d with [] => [] | a :: d' => (i, a) :: indexed (S i) d' end.

Lemma indexed_in {A} (d : list A) : forall i j a,
  In (j, a) (indexed i d) <-> (i <= j)%nat /\ nth_error d (j - i) = Some a.
Proof.
  induction d as [|b d IH]; intros i j a; cbn [indexed In].
  - split; [intros [] | intros [_ H]; destruct (j - i)%nat; discriminate].
  - rewrite IH. split.
    + intros [H | [Hle Hn]].
      * inversion H; subst. split; [lia|]. rewrite Nat.sub_diag. reflexivity.
      * split; [lia|]. replace (j - i)%nat with (S (j - S i)) by lia. exact Hn.
    + intros [Hle Hn]. destruct (Nat.eq_dec i j) as [->|Hne].
      * left. rewrite Nat.sub_diag in Hn. cbn in Hn. inversion Hn. reflexivity.
      * right. split; [lia|]. replace (j - i)%nat with (S (j - S i)) in Hn by lia. exact Hn.
Qed.

Lemma map_snd_indexed {A} (d : list A) i : map snd (indexed i d) = d.
Proof. revert i; induction d as [|a d IH]; intros i; cbn; [reflexivity | rewrite IH; reflexivity]. Qed.

(* sequential composition of enumerated laws: scripts are concatenated, probabilities multiplied *)
Definition pext (sc1 : script) (w1 : Qc) (ps : list path) : list path :=
  map (fun p => (sc1 ++ fst p, (w1 * fst (snd p), snd (snd p)))) ps.
Fixpoint pbind (ps : list path) (k : state -> list path) : list path :=
  match ps with
  | [] => []
  | (sc1, (w1, s1)) :: ps' => pext sc1 w1 (k s1) ++ pbind ps' k
  end.

Lemma law_of_pext sc w ps : law_of (pext sc w ps) = dscale w (law_of ps).
Proof. unfold law_of, pext, dscale. rewrite !map_map. reflexivity. Qed.
Lemma law_of_pbind ps k : law_of (pbind ps k) = bind (law_of ps) (fun s => law_of (k s)).
Proof.
  induction ps as [|[sc1 [w1 s1]] ps IH]; [reflexivity|].
  cbn [pbind]. unfold law_of at 1. rewrite map_app.
  change (map snd (pext sc1 w1 (k s1))) with (law_of (pext sc1 w1 (k s1))).
  change (map snd (pbind ps k)) with (law_of (pbind ps k)).
  rewrite IH, law_of_pext. reflexivity.
Qed.

Lemma in_pbind ps k sc w s :
  In (sc, (w, s)) (pbind ps k) <->
  exists sc1 w1 s1 sc2 w2, In (sc1, (w1, s1)) ps /\ In (sc2, (w2, s)) (k s1) /\ sc = sc1 ++ sc2 /\ w = w1 * w2.
Proof.
  induction ps as [|[sc1 [w1 s1]] ps IH]; cbn [pbind].
  - split; [intros [] | intros (?&?&?&?&?&[]&_)].
  - rewrite in_app_iff, IH. unfold pext. rewrite in_map_iff. split.
    + intros [[[sc2 [w2 s2]] [Heq Hin]] | (a&b&c&d&e&H1&H2&H3&H4)].
      * cbn in Heq. inversion Heq; subst. exists sc1, w1, s1, sc2, w2.
        repeat split; [left; reflexivity | exact Hin].
      * exists a, b, c, d, e. repeat split; try assumption. right; exact H1.
    + intros (a&b&c&d&e&[H1|H1]&H2&H3&H4).
      * inversion H1; subst. left. exists (d, (e, s)). split; [reflexivity | exact H2].
      * right. exists a, b, c, d, e. repeat split; assumption.
Qed.

Lemma last_cons {A} (tr : list A) : forall a d, last (a :: tr) d = last tr a.
Proof.
  induction tr as [|b tr IH]; intros a d; [reflexivity|].
  change (last (a :: b :: tr) d) with (last (b :: tr) d). rewrite !IH. reflexivity.
Qed.

Lemma bind_ext {A B} (d : dist A) (f g : A -> dist B) : (forall a, f a = g a) -> bind d f = bind d g.
Proof. intros H. induction d as [|[w a] d IH]; [reflexivity|]. cbn [bind]. rewrite IH, H. reflexivity. Qed.

Section Sim.
  (* the options offered by the random source of a right-hand side, in the order of the
     call (values with their probabilities); the script picks one by index *)
  Variable sampler : rhs -> state -> dist Qc.

  (* one call of random.choices / random.choice / <family>.rvs under the scripted source *)
  Definition pick (d : dist Qc) (sc : script) : option (Qc * Qc * script) :=
    match sc with
    | [] => None
    | i :: sc' => match nth_error d i with Some (w, v) => Some (w, v, sc') | None => None end
    end.

  (* Assignment.evaluate: condition ? evaluate_right_side : state[default]; state[variable] = result *)
  Definition sim_assign (g : gassign) (s : state) (sc : script) : option outcome :=
    if holds (ga_cond g) s then
      match pick (sampler (ga_rhs g) s) sc with
      | Some (w, v, sc') => Some (w, upd s (ga_var g) v, sc')
      | None => None
      end
    else Some (1, upd s (ga_var g) (s (ga_default g)), sc).

  (* Simulator.execute *)
  Fixpoint sim_stmt (st : pstmt) (s : state) (sc : script) {struct st} : option outcome :=
    match st with
    | PAssign g => sim_assign g s sc
    | PIf bs els =>
        (* for i in range(len(conditions)): if conditions[i].evaluate(state): return execute(branches[i]) *)
        match sim_branches bs s sc with
        | Some r => r
        | None =>
            (* if else_branch: return execute(else_branch, state);  return state *)
            sim_block els s sc
        end
    end
  with sim_block (b : pblock) (s : state) (sc : script) {struct b} : option outcome :=
    (* for element in program_element: state = self.execute(element, state) *)
    match b with
    | PNil => Some (1, s, sc)
    | PCons st b' =>
        match sim_stmt st s sc with
        | Some (w1, s1, sc1) =>
            match sim_block b' s1 sc1 with
            | Some (w2, s2, sc2) => Some (w1 * w2, s2, sc2)
            | None => None
            end
        | None => None
        end
    end
  with sim_branches (bs : pbranches) (s : state) (sc : script) {struct bs} : option (option outcome) :=
    match bs with
    | PBrNil => None
    | PBrCons c b bs' => if holds c s then Some (sim_block b s sc) else sim_branches bs' s sc
    end.

  (* Simulator.simulate, one sample: states = [execute(initial, {})];
     for _ in range(iterations):
        if not guard(states[-1]): states.append(states[-1].copy())
        else: states.append(execute(loop_body, states[-1].copy()))
     [sim_loop p n s] returns the states appended after [s] *)
  Fixpoint sim_loop (p : pprog) (n : nat) (s : state) (sc : script) : option (Qc * list state * script) :=
    match n with
    | O => Some (1, [], sc)
    | S n' =>
        let step := if holds (pp_guard p) s then sim_block (pp_body p) s sc else Some (1, s, sc) in
        match step with
        | Some (w1, s1, sc1) =>
            match sim_loop p n' s1 sc1 with
            | Some (w2, tr, sc2) => Some (w1 * w2, s1 :: tr, sc2)
            | None => None
            end
        | None => None
        end
    end.

  Definition sim_run (p : pprog) (n : nat) (s0 : state) (sc : script) : option (Qc * list state * script) :=
    match sim_block (pp_init p) s0 sc with
    | Some (w0, s1, sc1) =>
        match sim_loop p n s1 sc1 with
        | Some (w, tr, sc2) => Some (w0 * w, s1 :: tr, sc2)
        | None => None
        end
    | None => None
    end.

  (* ---- enumeration of all scripts ---- *)
  Definition enum_assign (g : gassign) (s : state) : list path :=
    if holds (ga_cond g) s then
      map (fun iwv => ([fst iwv], (fst (snd iwv), upd s (ga_var g) (snd (snd iwv)))))
          (indexed 0 (sampler (ga_rhs g) s))
    else [([], (1, upd s (ga_var g) (s (ga_default g))))].

  Fixpoint enum_stmt (st : pstmt) (s : state) {struct st} : list path :=
    match st with
    | PAssign g => enum_assign g s
    | PIf bs els =>
        match enum_branches bs s with
        | Some r => r
        | None => enum_block els s
        end
    end
  with enum_block (b : pblock) (s : state) {struct b} : list path :=
    match b with
    | PNil => [([], (1, s))]
    | PCons st b' => pbind (enum_stmt st s) (enum_block b')
    end
  with enum_branches (bs : pbranches) (s : state) {struct bs} : option (list path) :=
    match bs with
    | PBrNil => None
    | PBrCons c b bs' => if holds c s then Some (enum_block b s) else enum_branches bs' s
    end.

  Definition enum_iter (p : pprog) (s : state) : list path :=
    if holds (pp_guard p) s then enum_block (pp_body p) s else [([], (1, s))].

  Fixpoint enum_loop (p : pprog) (n : nat) (s : state) : list path :=
    match n with
    | O => [([], (1, s))]
    | S n' => pbind (enum_iter p s) (enum_loop p n')
    end.

  (* the path-enumerated law of the state after n iterations *)
  Definition enum_run (p : pprog) (n : nat) (s0 : state) : list path :=
    pbind (enum_block (pp_init p) s0) (enum_loop p n).

  (* ---- the monadic reading of the same structure ---- *)
  Definition pexec_ga (g : gassign) (s : state) : dist state :=
    if holds (ga_cond g) s
    then bind (sampler (ga_rhs g) s) (fun v => ret (upd s (ga_var g) v))
    else ret (upd s (ga_var g) (s (ga_default g))).

  Fixpoint pexec_stmt (st : pstmt) (s : state) {struct st} : dist state :=
    match st with
    | PAssign g => pexec_ga g s
    | PIf bs els =>
        match pexec_branches bs s with
        | Some d => d
        | None => pexec_block els s
        end
    end
  with pexec_block (b : pblock) (s : state) {struct b} : dist state :=
    match b with
    | PNil => ret s
    | PCons st b' => bind (pexec_stmt st s) (pexec_block b')
    end
  with pexec_branches (bs : pbranches) (s : state) {struct bs} : option (dist state) :=
    match bs with
    | PBrNil => None
    | PBrCons c b bs' => if holds c s then Some (pexec_block b s) else pexec_branches bs' s
    end.

  Definition piter (p : pprog) (s : state) : dist state :=
    if holds (pp_guard p) s then pexec_block (pp_body p) s else ret s.
  Fixpoint ploop (p : pprog) (n : nat) (s : state) : dist state :=
    match n with O => ret s | S n' => bind (piter p s) (ploop p n') end.
  Fixpoint prun (p : pprog) (n : nat) (s0 : state) : dist state :=
    match n with O => pexec_block (pp_init p) s0 | S n' => bind (prun p n' s0) (piter p) end.

  (* ---- 1. the enumeration is entry by entry the monadic law ---- *)
  Lemma law_enum_assign g s : law_of (enum_assign g s) = pexec_ga g s.
  Proof.
    unfold enum_assign, pexec_ga. destruct (holds (ga_cond g) s); [|reflexivity].
    unfold law_of. rewrite map_map. cbn [snd].
    generalize 0%nat. induction (sampler (ga_rhs g) s) as [|[w v] d IH]; intros i; [reflexivity|].
    cbn [indexed map bind ret dscale fst snd app]. rewrite IH.
    f_equal. f_equal. ring.
  Qed.

  Lemma law_enum :
    (forall st s, law_of (enum_stmt st s) = pexec_stmt st s) /\
    (forall b s, law_of (enum_block b s) = pexec_block b s) /\
    (forall bs s, option_map law_of (enum_branches bs s) = pexec_branches bs s).
  Proof.
    apply pstmt_pblock_pbranches_ind.
    - intros g s. apply law_enum_assign.
    - intros bs IHbs els IHels s. cbn [enum_stmt pexec_stmt]. rewrite <- IHbs.
      destruct (enum_branches bs s); cbn [option_map]; [reflexivity|].
      exact (IHels s).
    - intros s. reflexivity.
    - intros st IHst b IHb s. cbn [enum_block pexec_block]. rewrite law_of_pbind, IHst.
      apply bind_ext. exact IHb.
    - intros s. reflexivity.
    - intros c b IHb bs IHbs s. cbn [enum_branches pexec_branches].
      destruct (holds c s); [cbn [option_map]; rewrite IHb; reflexivity | apply IHbs].
  Qed.

  (* ---- 2. first-match: an IfStatem executes exactly the first branch whose condition holds,
          the else branch if none does ---- *)
  Fixpoint first_match (bs : pbranches) (s : state) : option pblock :=
    match bs with
    | PBrNil => None
    | PBrCons c b bs' => if holds c s then Some b else first_match bs' s
    end.
  Definition selected (bs : pbranches) (els : pblock) (s : state) : pblock :=
    match first_match bs s with Some b => b | None => els end.

  Lemma sim_branches_first bs s sc :
    sim_branches bs s sc = option_map (fun b => sim_block b s sc) (first_match bs s).
  Proof. induction bs as [|c b bs IH]; cbn; [reflexivity|]. destruct (holds c s); [reflexivity | exact IH]. Qed.
  Lemma enum_branches_first bs s :
    enum_branches bs s = option_map (fun b => enum_block b s) (first_match bs s).
  Proof. induction bs as [|c b bs IH]; cbn; [reflexivity|]. destruct (holds c s); [reflexivity | exact IH]. Qed.
  Lemma pexec_branches_first bs s :
    pexec_branches bs s = option_map (fun b => pexec_block b s) (first_match bs s).
  Proof. induction bs as [|c b bs IH]; cbn; [reflexivity|]. destruct (holds c s); [reflexivity | exact IH]. Qed.

  Lemma sim_if_first_match bs els s sc : sim_stmt (PIf bs els) s sc = sim_block (selected bs els s) s sc.
  Proof. cbn [sim_stmt]. rewrite sim_branches_first. unfold selected. destruct (first_match bs s); reflexivity. Qed.
  Lemma enum_if_first_match bs els s : enum_stmt (PIf bs els) s = enum_block (selected bs els s) s.
  Proof. cbn [enum_stmt]. rewrite enum_branches_first. unfold selected. destruct (first_match bs s); reflexivity. Qed.
  Lemma pexec_if_first_match bs els s : pexec_stmt (PIf bs els) s = pexec_block (selected bs els s) s.
  Proof. cbn [pexec_stmt]. rewrite pexec_branches_first. unfold selected. destruct (first_match bs s); reflexivity. Qed.

  (* ---- 3. the enumeration lists exactly the scripts on which the executor succeeds ---- *)
  Definition sound_for {X} (en : X -> state -> list path) (ex : X -> state -> script -> option outcome) (x : X) :=
    forall s sc w s', In (sc, (w, s')) (en x s) -> forall rest, ex x s (sc ++ rest) = Some (w, s', rest).
  Definition complete_for {X} (en : X -> state -> list path) (ex : X -> state -> script -> option outcome) (x : X) :=
    forall s sc w s' rest, ex x s sc = Some (w, s', rest) -> exists pre, sc = pre ++ rest /\ In (pre, (w, s')) (en x s).

  Lemma enum_assign_sound g : sound_for enum_assign sim_assign g.
  Proof.
    intros s sc w s' Hin rest. unfold enum_assign in Hin. unfold sim_assign.
    destruct (holds (ga_cond g) s).
    - apply in_map_iff in Hin. destruct Hin as [[i [w0 v]] [Heq Hin]]. cbn in Heq. inversion Heq; subst.
      apply indexed_in in Hin. destruct Hin as [_ Hn]. rewrite Nat.sub_0_r in Hn.
      cbn [app pick]. rewrite Hn. reflexivity.
    - destruct Hin as [Heq|[]]. inversion Heq; subst. reflexivity.
  Qed.

  Lemma enum_assign_complete g : complete_for enum_assign sim_assign g.
  Proof.
    intros s sc w s' rest H. unfold sim_assign in H. unfold enum_assign.
    destruct (holds (ga_cond g) s).
    - destruct sc as [|i sc]; [discriminate|]. cbn [pick] in H.
      destruct (nth_error (sampler (ga_rhs g) s) i) as [[w0 v]|] eqn:Hn; [|discriminate].
      inversion H; subst. exists [i]. split; [reflexivity|].
      apply in_map_iff. exists (i, (w, v)). split; [reflexivity|].
      apply indexed_in. split; [lia|]. rewrite Nat.sub_0_r. exact Hn.
    - inversion H; subst. exists []. split; [reflexivity | left; reflexivity].
  Qed.

  Lemma enum_sound :
    (forall st, sound_for enum_stmt sim_stmt st) /\
    (forall b, sound_for enum_block sim_block b) /\
    (forall bs, forall s b, first_match bs s = Some b -> sound_for enum_block sim_block b).
  Proof.
    apply pstmt_pblock_pbranches_ind.
    - exact enum_assign_sound.
    - intros bs IHbs els IHels s sc w s' Hin rest.
      rewrite sim_if_first_match. rewrite enum_if_first_match in Hin. unfold selected in *.
      destruct (first_match bs s) as [b|] eqn:Hf.
      + exact (IHbs s b Hf s sc w s' Hin rest).
      + exact (IHels s sc w s' Hin rest).
    - intros s sc w s' [Heq|[]] rest. inversion Heq; subst. reflexivity.
    - intros st IHst b IHb s sc w s' Hin rest. cbn [enum_block] in Hin.
      apply in_pbind in Hin. destruct Hin as (sc1 & w1 & s1 & sc2 & w2 & H1 & H2 & -> & ->).
      cbn [sim_block]. rewrite <- app_assoc. rewrite (IHst s sc1 w1 s1 H1 (sc2 ++ rest)).
      rewrite (IHb s1 sc2 w2 s' H2 rest). reflexivity.
    - intros s b H. discriminate H.
    - intros c b IHb bs IHbs s b0 H. cbn [first_match] in H. destruct (holds c s).
      + inversion H; subst. exact IHb.
      + exact (IHbs s b0 H).
  Qed.

  Lemma enum_complete :
    (forall st, complete_for enum_stmt sim_stmt st) /\
    (forall b, complete_for enum_block sim_block b) /\
    (forall bs, forall s b, first_match bs s = Some b -> complete_for enum_block sim_block b).
  Proof.
    apply pstmt_pblock_pbranches_ind.
    - exact enum_assign_complete.
    - intros bs IHbs els IHels s sc w s' rest H.
      rewrite sim_if_first_match in H. rewrite enum_if_first_match. unfold selected in *.
      destruct (first_match bs s) as [b|] eqn:Hf.
      + exact (IHbs s b Hf s sc w s' rest H).
      + exact (IHels s sc w s' rest H).
    - intros s sc w s' rest H. inversion H; subst. exists []. split; [reflexivity | left; reflexivity].
    - intros st IHst b IHb s sc w s' rest H. cbn [sim_block] in H.
      destruct (sim_stmt st s sc) as [[[w1 s1] sc1]|] eqn:H1; [|discriminate].
      destruct (sim_block b s1 sc1) as [[[w2 s2] sc2]|] eqn:H2; [|discriminate].
      inversion H; subst.
      destruct (IHst _ _ _ _ _ H1) as [pre1 [-> Hin1]].
      destruct (IHb _ _ _ _ _ H2) as [pre2 [-> Hin2]].
      exists (pre1 ++ pre2). split; [rewrite app_assoc; reflexivity|].
      cbn [enum_block]. apply in_pbind. exists pre1, w1, s1, pre2, w2. repeat split; assumption.
    - intros s b H. discriminate H.
    - intros c b IHb bs IHbs s b0 H. cbn [first_match] in H. destruct (holds c s).
      + inversion H; subst. exact IHb.
      + exact (IHbs s b0 H).
  Qed.

  (* ---- 4. the loop: guard tested on the last state, copy when false ---- *)
  Definition sim_iter (p : pprog) (s : state) (sc : script) : option outcome :=
    if holds (pp_guard p) s then sim_block (pp_body p) s sc else Some (1, s, sc).

  Lemma enum_iter_sound p s sc w s' :
    In (sc, (w, s')) (enum_iter p s) -> forall rest, sim_iter p s (sc ++ rest) = Some (w, s', rest).
  Proof.
    unfold enum_iter, sim_iter. destruct (holds (pp_guard p) s).
    - intros H rest. exact (proj1 (proj2 enum_sound) _ _ _ _ _ H rest).
    - intros [Heq|[]] rest. inversion Heq; subst. reflexivity.
  Qed.
  Lemma enum_iter_complete p s sc w s' rest :
    sim_iter p s sc = Some (w, s', rest) -> exists pre, sc = pre ++ rest /\ In (pre, (w, s')) (enum_iter p s).
  Proof.
    unfold enum_iter, sim_iter. destruct (holds (pp_guard p) s).
    - intros H. exact (proj1 (proj2 enum_complete) _ _ _ _ _ _ H).
    - intros H. inversion H; subst. exists []. split; [reflexivity | left; reflexivity].
  Qed.

  Lemma enum_loop_sound p n : forall s sc w s',
    In (sc, (w, s')) (enum_loop p n s) ->
    forall rest, exists tr, sim_loop p n s (sc ++ rest) = Some (w, tr, rest) /\ last tr s = s' /\ List.length tr = n.
  Proof.
    induction n as [|n IH]; intros s sc w s' Hin rest.
    - destruct Hin as [Heq|[]]. inversion Heq; subst. exists []. repeat split.
    - cbn [enum_loop] in Hin. apply in_pbind in Hin.
      destruct Hin as (sc1 & w1 & s1 & sc2 & w2 & H1 & H2 & -> & ->).
      pose proof (enum_iter_sound _ _ _ _ _ H1 (sc2 ++ rest)) as E1. unfold sim_iter in E1.
      destruct (IH _ _ _ _ H2 rest) as [tr [E2 [Hl Hn]]].
      exists (s1 :: tr). cbn [sim_loop]. rewrite <- app_assoc, E1, E2. repeat split.
      + rewrite last_cons. exact Hl.
      + cbn. rewrite Hn. reflexivity.
  Qed.

  Lemma enum_loop_complete p n : forall s sc w tr rest,
    sim_loop p n s sc = Some (w, tr, rest) ->
    exists pre, sc = pre ++ rest /\ In (pre, (w, last tr s)) (enum_loop p n s).
  Proof.
    induction n as [|n IH]; intros s sc w tr rest H.
    - inversion H; subst. exists []. split; [reflexivity | left; reflexivity].
    - cbn [sim_loop] in H. fold (sim_iter p s sc) in H.
      destruct (sim_iter p s sc) as [[[w1 s1] sc1]|] eqn:H1; [|discriminate].
      destruct (sim_loop p n s1 sc1) as [[[w2 tr2] sc2]|] eqn:H2; [|discriminate].
      inversion H; subst.
      destruct (enum_iter_complete _ _ _ _ _ _ H1) as [pre1 [-> Hin1]].
      destruct (IH _ _ _ _ _ H2) as [pre2 [-> Hin2]].
      exists (pre1 ++ pre2). split; [rewrite app_assoc; reflexivity|].
      cbn [enum_loop]. apply in_pbind. exists pre1, w1, s1, pre2, w2. repeat split; try assumption.
      rewrite last_cons. exact Hin2.
  Qed.

  (* every enumerated script drives the executor to that end state with that probability;
     the trajectory has the n+1 states  states[0..n]  of Simulator.simulate *)
  Theorem enum_run_sound p n s0 sc w s' :
    In (sc, (w, s')) (enum_run p n s0) ->
    forall rest, exists tr, sim_run p n s0 (sc ++ rest) = Some (w, tr, rest) /\ last tr s0 = s' /\ List.length tr = S n.
  Proof.
    unfold enum_run, sim_run. intros Hin rest. apply in_pbind in Hin.
    destruct Hin as (sc1 & w1 & s1 & sc2 & w2 & H1 & H2 & -> & ->).
    rewrite <- app_assoc. rewrite (proj1 (proj2 enum_sound) _ _ _ _ _ H1 (sc2 ++ rest)).
    destruct (enum_loop_sound _ _ _ _ _ _ H2 rest) as [tr [E2 [Hl Hn]]].
    exists (s1 :: tr). rewrite E2. repeat split.
    - rewrite last_cons. exact Hl.
    - cbn. rewrite Hn. reflexivity.
  Qed.

  (* every script on which the executor succeeds is enumerated (no path is missing) *)
  Theorem enum_run_complete p n s0 sc w tr rest :
    sim_run p n s0 sc = Some (w, tr, rest) ->
    exists pre, sc = pre ++ rest /\ In (pre, (w, last tr s0)) (enum_run p n s0).
  Proof.
    unfold enum_run, sim_run. intros H.
    destruct (sim_block (pp_init p) s0 sc) as [[[w1 s1] sc1]|] eqn:H1; [|discriminate].
    destruct (sim_loop p n s1 sc1) as [[[w2 tr2] sc2]|] eqn:H2; [|discriminate].
    inversion H; subst.
    destruct (proj1 (proj2 enum_complete) _ _ _ _ _ _ H1) as [pre1 [-> Hin1]].
    destruct (enum_loop_complete _ _ _ _ _ _ _ H2) as [pre2 [-> Hin2]].
    exists (pre1 ++ pre2). split; [rewrite app_assoc; reflexivity|].
    apply in_pbind. exists pre1, w1, s1, pre2, w2. repeat split; try assumption.
    rewrite last_cons. exact Hin2.
  Qed.

  (* ---- 5. summing over all scripts gives the monadic law of the parsed program ---- *)
  Lemma law_enum_iter p s : law_of (enum_iter p s) = piter p s.
  Proof. unfold enum_iter, piter. destruct (holds (pp_guard p) s); [apply law_enum | reflexivity]. Qed.
  Lemma law_enum_loop p n : forall s, law_of (enum_loop p n s) = ploop p n s.
  Proof.
    induction n as [|n IH]; intros s; [reflexivity|].
    cbn [enum_loop ploop]. rewrite law_of_pbind, law_enum_iter. apply bind_ext. exact IH.
  Qed.

  Lemma ploop_snoc p n : forall s f, E (ploop p (S n) s) f = E (ploop p n s) (fun a => E (piter p a) f).
  Proof.
    induction n as [|n IH]; intros s f.
    - cbn [ploop]. rewrite E_bind, E_ret. apply E_ext. intros a. rewrite E_ret. reflexivity.
    - change (ploop p (S (S n)) s) with (bind (piter p s) (ploop p (S n))).
      rewrite E_bind. cbn [ploop]. rewrite E_bind. apply E_ext. intros a. apply IH.
  Qed.

  Lemma prun_ploop p n : forall s0 f,
    E (prun p n s0) f = E (pexec_block (pp_init p) s0) (fun s => E (ploop p n s) f).
  Proof.
    induction n as [|n IH]; intros s0 f.
    - cbn [prun ploop]. apply E_ext. intros a. rewrite E_ret. reflexivity.
    - cbn [prun]. rewrite E_bind, IH. apply E_ext. intros a. symmetry. apply ploop_snoc.
  Qed.

  Theorem enum_run_law p n s0 f : E (law_of (enum_run p n s0)) f = E (prun p n s0) f.
  Proof.
    unfold enum_run. rewrite law_of_pbind, E_bind, prun_ploop.
    rewrite (proj1 (proj2 law_enum)). apply E_ext. intros a. rewrite law_enum_loop. reflexivity.
  Qed.

  (* ---- 6. frozen state and prefix determinism ---- *)
  Lemma piter_frozen p s : holds (pp_guard p) s = false -> piter p s = ret s.
  Proof. unfold piter. intros ->. reflexivity. Qed.

  (* once the guard is false on the last state every later state is a copy of it and no
     random source is called any more *)
  Lemma sim_loop_frozen p n : forall s sc,
    holds (pp_guard p) s = false -> sim_loop p n s sc = Some (1, repeat s n, sc).
  Proof.
    induction n as [|n IH]; intros s sc Hg; [reflexivity|].
    cbn [sim_loop]. rewrite Hg. rewrite (IH s sc Hg). cbn [repeat]. replace (1 * 1) with 1 by ring. reflexivity.
  Qed.

  (* the first k iterations of a run of k+m iterations are the run of k iterations on the same script *)
  Lemma sim_loop_split p k m : forall s sc w tr rest,
    sim_loop p (k + m) s sc = Some (w, tr, rest) ->
    exists w1 tr1 mid w2 tr2,
      sim_loop p k s sc = Some (w1, tr1, mid) /\ sim_loop p m (last tr1 s) mid = Some (w2, tr2, rest) /\
      w = w1 * w2 /\ tr = tr1 ++ tr2.
  Proof.
    induction k as [|k IH]; intros s sc w tr rest H.
    - cbn [Nat.add] in H. exists 1, [], sc, w, tr. cbn [sim_loop last app]. repeat split; [exact H | ring].
    - cbn [Nat.add sim_loop] in H |- *.
      destruct (if holds (pp_guard p) s then sim_block (pp_body p) s sc else Some (1, s, sc)) as [[[w1 s1] sc1]|]; [|discriminate].
      destruct (sim_loop p (k + m) s1 sc1) as [[[w2 tr2] sc2]|] eqn:H2; [|discriminate].
      inversion H; subst.
      destruct (IH _ _ _ _ _ H2) as (wa & tra & mid & wb & trb & Ha & Hb & -> & ->).
      rewrite Ha. exists (w1 * wa), (s1 :: tra), mid, wb, trb. repeat split.
      + rewrite last_cons. exact Hb.
      + ring.
  Qed.
End Sim.
