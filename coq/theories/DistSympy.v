(* C08 — hand-written closed formulas for the raw moments that Polar obtains from
   sympy.stats (Gamma, Beta, Normal, Laplace: `EV(x**k)`).  sympy is a CAS and is not
   modelled; these definitions are what its answer is claimed to be, and the claim is
   checked on every run by the correspondence part of ./check C08 (real get_moment(k) vs
   [sympy_moment] evaluated by vm_compute, k <= 12, random rational parameters).
   The translator maps  `x = GammaDist("x", k, theta)`  to  [SGamma k theta]  and
   `EV(x**p)`  to  [sympy_moment x p], so the wiring of Polar's parameters into sympy
   (order, sqrt of the variance, scale**k) is translated, not hand-written. *)
From Coq Require Import List QArith Qcanon ZArith Lia Bool Arith Field.
From Polar Require Import Qcx DistBase.
Import ListNotations.
Local Open Scope Qc_scope.

(* a standard deviation handed to sympy: a rational, or the square root of a rational
   (translation of  sympify(f"({self.sigma2}) ** (1/2)") ) *)
Inductive sqv := Rat (q : Qc) | Sqrt (q : Qc).
Definition sqv_sq (s : sqv) : Qc := match s with Rat q => q * q | Sqrt q => q end.

Inductive srv :=
| SGamma (k theta : Qc)          (* sympy.stats.Gamma(name, k, theta): shape, scale *)
| SBeta (alpha beta : Qc)        (* sympy.stats.Beta(name, alpha, beta) *)
| SNormal (mu : Qc) (sigma : sqv)  (* sympy.stats.Normal(name, mean, std) *)
| SLaplace (mu b : Qc).          (* sympy.stats.Laplace(name, mu, b) *)

(* central moments: Normal 0,  s2, 0, 3 s2^2, ... ;  Laplace 0, 2 b^2, 0, 24 b^4, ... *)
Fixpoint normal_central (s2 : Qc) (j : nat) : Qc :=
  match j with
  | O => 1
  | S O => 0
  | S (S i as i1) => qnat i1 * s2 * normal_central s2 i
  end.

Fixpoint laplace_central (b : Qc) (j : nat) : Qc :=
  match j with
  | O => 1
  | S O => 0
  | S (S i as i1) => qnat (S i1) * qnat i1 * (b * b) * laplace_central b i
  end.

(* [shift_fast] = [shift] (DistBase.shift_fast_eq), evaluated in quadratic time *)
Definition normal_moment (mu s2 : Qc) (k : nat) : Qc := shift_fast mu (normal_central s2) k.
Definition laplace_moment (mu b : Qc) (k : nat) : Qc := shift_fast mu (laplace_central b) k.
Definition gamma_moment (k theta : Qc) (p : nat) : Qc := qpow theta p * rising k p.
Definition beta_moment (a b : Qc) (k : nat) : Qc := rising a k / rising (a + b) k.

Definition sympy_moment (x : srv) (k : nat) : Qc :=
  match x with
  | SGamma a theta => gamma_moment a theta k
  | SBeta a b => beta_moment a b k
  | SNormal mu sigma => normal_moment mu (sqv_sq sigma) k
  | SLaplace mu b => laplace_moment mu b k
  end.

(* ---------- Gamma:  m0 = 1,  m(p+1) = theta (k + p) m(p) ---------- *)
Lemma gamma_moment_0 k theta : gamma_moment k theta 0 = 1.
Proof. unfold gamma_moment. cbn [qpow rising]. ring. Qed.
Lemma gamma_moment_rec k theta p : gamma_moment k theta (S p) = theta * (k + qnat p) * gamma_moment k theta p.
Proof. unfold gamma_moment. cbn [qpow rising]. ring. Qed.

(* ---------- Beta:  m0 = 1,  m(k+1) = (a+k)/(a+b+k) m(k)  (a, b > 0) ---------- *)
Lemma rising_pos x n : 0 < x -> 0 < rising x n.
Proof.
  intros Hx. induction n as [|n IH]; [reflexivity|]. cbn [rising].
  assert (P : 0 < x + qnat n).
  { apply Qclt_le_trans with (y := x + 0); [rewrite Qcplus_0_r; exact Hx|].
    apply Qcplus_le_compat; [apply Qcle_refl | apply qnat_nonneg]. }
  replace 0 with (0 * (x + qnat n)) by ring. apply Qcmult_lt_compat_r; assumption.
Qed.
Lemma rising_neq0 x n : 0 < x -> rising x n <> 0.
Proof. intros Hx E. pose proof (rising_pos x n Hx) as P. rewrite E in P. discriminate P. Qed.

Lemma beta_moment_0 a b : beta_moment a b 0 = 1.
Proof. unfold beta_moment. cbn [rising]. field. discriminate. Qed.
Lemma beta_moment_rec a b k : 0 < a + b ->
  beta_moment a b (S k) = (a + qnat k) / (a + b + qnat k) * beta_moment a b k.
Proof.
  intros Hab. unfold beta_moment. cbn [rising].
  assert (N1 : rising (a + b) k <> 0) by (apply rising_neq0; exact Hab).
  assert (N2 : a + b + qnat k <> 0).
  { intros E. assert (P : 0 < a + b + qnat k).
    { apply Qclt_le_trans with (y := a + b + 0); [rewrite Qcplus_0_r; exact Hab|].
      apply Qcplus_le_compat; [apply Qcle_refl | apply qnat_nonneg]. }
    rewrite E in P. discriminate P. }
  field. split; assumption.
Qed.

(* ---------- Normal:  m0 = 1, m1 = mu, m(k+2) = mu m(k+1) + (k+1) s2 m(k) ---------- *)
Lemma normal_central_succ s2 j : normal_central s2 (S j) = dseq (fun i => s2 * normal_central s2 i) j.
Proof. destruct j as [|j]; [reflexivity|]. cbn [normal_central dseq]. ring. Qed.

Lemma normal_moment_0 mu s2 : normal_moment mu s2 0 = 1.
Proof. reflexivity. Qed.
Lemma normal_moment_1 mu s2 : normal_moment mu s2 1 = mu.
Proof. unfold normal_moment. rewrite shift_fast_eq. cbn [shift normal_central]. ring. Qed.
Lemma normal_moment_rec mu s2 k :
  normal_moment mu s2 (S (S k)) = mu * normal_moment mu s2 (S k) + qnat (S k) * s2 * normal_moment mu s2 k.
Proof.
  unfold normal_moment. rewrite !shift_fast_eq.
  change (shift mu (normal_central s2) (S (S k)))
    with (mu * shift mu (normal_central s2) (S k) + shift mu (fun j => normal_central s2 (S j)) (S k)).
  rewrite (shift_ext mu (fun j => normal_central s2 (S j)) (dseq (fun i => s2 * normal_central s2 i)) (S k)
             (normal_central_succ s2)).
  rewrite shift_dseq, shift_scale. ring.
Qed.
Lemma normal_moment_centred s2 k : normal_moment 0 s2 k = normal_central s2 k.
Proof. unfold normal_moment. rewrite shift_fast_eq. apply shift_zero_loc. Qed.

(* closed form of the central moments: s2^i (2i-1)!! at 2i, 0 at odd orders *)
Fixpoint odd_dfact (i : nat) : Qc := match i with O => 1 | S i' => qnat (S (2 * i')) * odd_dfact i' end.
Lemma normal_central_closed s2 i :
  normal_central s2 (2 * i) = qpow s2 i * odd_dfact i /\ normal_central s2 (S (2 * i)) = 0.
Proof.
  induction i as [|i [IH1 IH2]]; [split; reflexivity|].
  replace (2 * S i)%nat with (S (S (2 * i))) by lia. split.
  - cbn [normal_central qpow odd_dfact]. rewrite IH1. ring.
  - change (normal_central s2 (S (S (S (2 * i))))) with (qnat (S (S (2 * i))) * s2 * normal_central s2 (S (2 * i))).
    rewrite IH2. ring.
Qed.

(* ---------- Laplace:  m0 = 1, m1 = mu, m(k+2) = mu^(k+2) + (k+2)(k+1) b^2 m(k) ---------- *)
Lemma laplace_central_decomp b j :
  laplace_central b j = delta0 j + dseq (dseq (fun i => b * b * laplace_central b i)) j.
Proof.
  destruct j as [|[|j]]; cbn [laplace_central delta0 dseq]; try ring.
Qed.

Lemma laplace_moment_0 mu b : laplace_moment mu b 0 = 1.
Proof. reflexivity. Qed.
Lemma laplace_moment_1 mu b : laplace_moment mu b 1 = mu.
Proof. unfold laplace_moment. rewrite shift_fast_eq. cbn [shift laplace_central]. ring. Qed.
Lemma laplace_moment_rec mu b k :
  laplace_moment mu b (S (S k)) = qpow mu (S (S k)) + qnat (S (S k)) * qnat (S k) * (b * b) * laplace_moment mu b k.
Proof.
  unfold laplace_moment. rewrite !shift_fast_eq.
  rewrite (shift_ext mu (laplace_central b) _ (S (S k)) (laplace_central_decomp b)).
  rewrite shift_add, shift_delta0, !shift_dseq, shift_scale. ring.
Qed.
Lemma laplace_moment_centred b k : laplace_moment 0 b k = laplace_central b k.
Proof. unfold laplace_moment. rewrite shift_fast_eq. apply shift_zero_loc. Qed.

Lemma laplace_central_closed b i :
  laplace_central b (2 * i) = qfact (2 * i) * qpow b (2 * i) /\ laplace_central b (S (2 * i)) = 0.
Proof.
  induction i as [|i [IH1 IH2]]; [split; cbn; ring|].
  replace (2 * S i)%nat with (S (S (2 * i))) by lia. split.
  - change (laplace_central b (S (S (2 * i)))) with (qnat (S (S (2 * i))) * qnat (S (2 * i)) * (b * b) * laplace_central b (2 * i)).
    rewrite IH1. cbn [qfact qpow]. ring.
  - change (laplace_central b (S (S (S (2 * i)))))
      with (qnat (S (S (S (2 * i)))) * qnat (S (S (2 * i))) * (b * b) * laplace_central b (S (2 * i))).
    rewrite IH2. ring.
Qed.

(* ---------- linear forms  l0 + l1 * z  in a fresh draw z (dist_transformer.py) ----------
   Values live in Q(sqrt s) : pairs (rational part, coefficient of the square root). *)
Record lin := mklin { l0 : Qc; l1 : sqv }.

Definition sqv_pow (s : sqv) (j : nat) : Qc * Qc :=
  match s with
  | Rat q => (qpow q j, 0)
  | Sqrt q => if Nat.even j then (qpow q (Nat.div2 j), 0) else (0, qpow q (Nat.div2 j))
  end.

(* E[(l0 + l1 z)^k] by expanding the power and replacing z^j by the j-th moment m j of the
   new draw — what Polar computes after the rewriting *)
Definition lin_moment (l : lin) (m : nat -> Qc) (k : nat) : Qc * Qc :=
  (sumn (fun j => qbinom k j * qpow (l0 l) (k - j) * fst (sqv_pow (l1 l) j) * m j) (S k),
   sumn (fun j => qbinom k j * qpow (l0 l) (k - j) * snd (sqv_pow (l1 l) j) * m j) (S k)).

Lemma sumn_zero f n : (forall j, (j < n)%nat -> f j = 0) -> sumn f n = 0.
Proof. induction n as [|n IH]; intros E; cbn [sumn]; [reflexivity|]. rewrite IH, E by auto. ring. Qed.

Lemma lin_moment_rat a s m k :
  lin_moment (mklin a (Rat s)) m k = (binsum a (fun j => qpow s j * m j) k, 0).
Proof.
  unfold lin_moment, binsum. cbn [l0 l1 sqv_pow fst snd]. f_equal.
  - apply sumn_ext. intros j _. ring.
  - apply sumn_zero. intros j _. ring.
Qed.
