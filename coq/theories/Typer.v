(* C05: executable Gallina model of Polar's type-inference ALGORITHM
   (type_inference/finite_fixed_point_typer.py, class FiniteFixedPointTyper) on flat programs.

   [typer_run P fp D syms implied drops] mirrors [infer_types]:
     _initialize_state ; at most [tp_iters] rounds of _progress until no status changed ;
     the cascade  while not fixedpoint: fail changed; progress  ;  _extract_types.
   Values are rationals or the absorbing token [None] ("not a number": the start symbol
   <v>0 of a never-initialised variable that is read before its assignment, symbolic program
   constants).  Partially substituted expressions are polynomials (Poly.poly), compared as
   polynomials, so that the de-duplication after each substituted variable and the
   more-than-[tp_max]-values test are the ones of _get_values_for_expr.

   The soundness theorem (the result is a post-fixpoint of the transfer function validated by
   Types.check_types) is in TyperSound.v. *)
From Coq Require Import List String QArith Qcanon ZArith Bool Arith.
From Polar Require Import Qcx Dist Syntax Sem Types Poly PassCNBase.
Import ListNotations.
Local Open Scope Qc_scope.

(* ---- values and value sets (lists without duplicates, insertion order) ---- *)
Definition val := option Qc.
Definition val_eqb (a b : val) : bool :=
  match a, b with
  | None, None => true
  | Some x, Some y => Qc_eqb x y
  | _, _ => false
  end.
Fixpoint vmem (v : val) (l : list val) : bool :=
  match l with [] => false | w :: l' => val_eqb v w || vmem v l' end.
Definition vsubset (a b : list val) : bool := forallb (fun v => vmem v b) a.
Definition vadd (acc : list val) (v : val) : list val := if vmem v acc then acc else acc ++ [v].
Definition vunion (a b : list val) : list val := fold_left vadd b a.
Definition is_nil {A} (l : list A) : bool := match l with [] => true | _ => false end.

(* ---- status of one variable (dataclass Status) and the state (a dict) ---- *)
Record status := { s_vals : list val; s_chg : bool; s_fail : bool; s_lock : bool }.
Definition tstate := list (var * status).

(* a variable without entry reads as failed and locked (Python would raise KeyError) *)
Definition st_missing : status := {| s_vals := []; s_chg := false; s_fail := true; s_lock := true |}.
Fixpoint sfind (st : tstate) (x : var) : option status :=
  match st with [] => None | (y, s) :: st' => if var_eqb x y then Some s else sfind st' x end.
Definition sget (st : tstate) (x : var) : status :=
  match sfind st x with Some s => s | None => st_missing end.
Definition shas (st : tstate) (x : var) : bool :=
  match sfind st x with Some _ => true | None => false end.
Fixpoint sset (st : tstate) (x : var) (s : status) : tstate :=
  match st with
  | [] => [(x, s)]
  | (y, t) :: st' => if var_eqb x y then (y, s) :: st' else (y, t) :: sset st' x s
  end.

Record tparams := { tp_iters : nat; tp_max : nat; tp_rev : bool }.
(* Polar's defaults: FiniteFixedPointTyper(iterations=100, max_values_before_fail=25) *)
Definition tp_default : tparams := {| tp_iters := 100; tp_max := 25; tp_rev := false |}.

(* ---- partially substituted expressions ---- *)
Definition pp := option poly.
Definition pp_eqb (a b : pp) : bool :=
  match a, b with
  | None, None => true
  | Some p, Some q => pzero (psub p q)
  | _, _ => false
  end.
Fixpoint pp_mem (p : pp) (l : list pp) : bool :=
  match l with [] => false | q :: l' => pp_eqb p q || pp_mem p l' end.
Definition pp_add (acc : list pp) (p : pp) : list pp := if pp_mem p acc then acc else acc ++ [p].
Definition pp_dedup (l : list pp) : list pp := fold_left pp_add l [].

(* expr.xreplace({x: q}) on a polynomial *)
Definition psubst1 (x : var) (q : Qc) (p : poly) : poly :=
  map (fun t => (fst t * qpow q (mdeg x (snd t)), mrest x (snd t))) p.
Definition pp_subst (x : var) (v : val) (p : pp) : pp :=
  match v, p with Some q, Some p' => Some (pclean (psubst1 x q p')) | _, _ => None end.
(* is_number *)
Definition pp_val (p : pp) : val :=
  match p with
  | None => None
  | Some p' => match pclean p' with
               | [] => Some 0
               | [(c, [])] => Some c
               | _ => None
               end
  end.

Section Model.
  Variable P : tparams.
  (* symbolic constants of the program (program.symbols): never substituted, not numbers *)
  Variable syms : list var.

  Definition st_sym : status := {| s_vals := [None]; s_chg := false; s_fail := false; s_lock := true |}.
  (* the status an expression sees for one of its free symbols *)
  Definition rd (st : tstate) (x : var) : status := if mem_var x syms then st_sym else sget st x.

  (* _get_values_for_expr: one variable after the other; the set is de-duplicated (a Python
     set) before its size is compared with max_values_before_fail *)
  Fixpoint subst_vars (st : tstate) (xs : list var) (res : list pp) : option (list pp) :=
    match xs with
    | [] => Some res
    | x :: xs' =>
        let s := rd st x in
        if s_fail s then None
        else
          let new := pp_dedup (flat_map (fun p => map (fun v => pp_subst x v p) (s_vals s)) res) in
          if Nat.ltb (tp_max P) (List.length new) then None else subst_vars st xs' new
    end.

  Definition var_order (e : expr) : list var :=
    let xs := nodup string_dec (vars_of e) in if tp_rev P then rev xs else xs.

  Definition values_for_expr (st : tstate) (e : expr) : option (list val) :=
    match subst_vars st (var_order e) [Some (of_expr e)] with
    | Some res => let vs := vunion [] (map pp_val res) in if is_nil vs then None else Some vs
    | None => None
    end.

  (* Distribution.get_support: finite supports, or an interval (= failure) *)
  Definition draw_vals (d : draw) : option (list val) :=
    match d with
    | DBern _ => Some [Some 0; Some 1]
    | DCat ps => Some (map Some (cat_vals (List.length ps) 0))
    | DUnif a b => Some (map Some (unif_vals a (Z.to_nat (b - a + 1))))
    | DCont _ _ => None
    end.

  (* Assignment.get_support: the alternatives / the support of the draw, plus the default
     unless the condition is TrueCond or the harness-supplied flag [drop] says Polar left it
     out (condition implied by the loop guard and default = the variable itself) *)
  Definition with_default (g : gassign) (drop : bool) : bool :=
    match ga_cond g with CTrue => false | _ => negb drop end.

  Definition support_parts (st : tstate) (g : gassign) (drop : bool) : list (option (list val)) :=
    match ga_rhs g with
    | RChoice alts => map (fun pe => values_for_expr st (snd pe)) alts
    | RDraw d => [draw_vals d]
    end ++ (if with_default g drop then [values_for_expr st (EVar (ga_default g))] else []).

  Fixpoint union_parts (l : list (option (list val))) (acc : list val) : option (list val) :=
    match l with
    | [] => Some acc
    | None :: _ => None
    | Some vs :: l' => union_parts l' (vunion acc vs)
    end.

  (* _get_values_for_assign; the empty set counts as failure at both call sites *)
  Definition assign_values (st : tstate) (g : gassign) (drop : bool) : option (list val) :=
    match union_parts (support_parts st g drop) [] with
    | Some vs => if Nat.ltb (tp_max P) (List.length vs) || is_nil vs then None else Some vs
    | None => None
    end.

  Definition set_chg (s : status) (b : bool) : status :=
    {| s_vals := s_vals s; s_chg := b; s_fail := s_fail s; s_lock := s_lock s |}.
  (* _fail_variable *)
  Definition failed_of (s : status) : status :=
    {| s_vals := s_vals s; s_chg := true; s_fail := true; s_lock := true |}.

  (* one assignment of _progress (with _update_variable_status) *)
  Definition step (st : tstate) (gd : gassign * bool) : tstate :=
    let g := fst gd in
    let x := ga_var g in
    let s := sget st x in
    if s_lock s then sset st x (set_chg s false)
    else match assign_values st g (snd gd) with
         | None => sset st x (failed_of s)
         | Some new =>
             if vsubset new (s_vals s) then sset st x (set_chg s false)
             else sset st x {| s_vals := vunion (s_vals s) new; s_chg := true; s_fail := s_fail s; s_lock := s_lock s |}
         end.

  Fixpoint zip_drops (l : list gassign) (drops : list bool) : list (gassign * bool) :=
    match l with
    | [] => []
    | g :: l' => (g, hd false drops) :: zip_drops l' (tl drops)
    end.

  Definition progress (body : list (gassign * bool)) (st : tstate) : tstate := fold_left step body st.

  Definition fixedpoint (st : tstate) : bool := forallb (fun xs => negb (s_chg (snd xs))) st.
  Definition fail_changed (st : tstate) : tstate :=
    map (fun xs => (fst xs, if s_chg (snd xs) then failed_of (snd xs) else snd xs)) st.

  (* for i in range(iterations): progress; if fixedpoint: break *)
  Fixpoint phase1 (body : list (gassign * bool)) (n : nat) (st : tstate) : tstate :=
    match n with
    | O => st
    | S n' => let st' := progress body st in if fixedpoint st' then st' else phase1 body n' st'
    end.

  (* while not fixedpoint: fail changed; progress   (explicit fuel; None = fuel exhausted) *)
  Fixpoint cascade (body : list (gassign * bool)) (fuel : nat) (st : tstate) : option tstate :=
    if fixedpoint st then Some st
    else match fuel with
         | O => None
         | S f => cascade body f (progress body (fail_changed st))
         end.
  (* number of cascade rounds actually used (evidence only) *)
  Fixpoint cascade_rounds (body : list (gassign * bool)) (fuel : nat) (st : tstate) : nat :=
    if fixedpoint st then O
    else match fuel with
         | O => O
         | S f => S (cascade_rounds body f (progress body (fail_changed st)))
         end.

  (* ---- _initialize_state ---- *)
  Definition declared_state (D : tenv) : tstate :=
    fold_left (fun st xt => sset st (fst xt) {| s_vals := map Some (snd xt); s_chg := false; s_fail := false; s_lock := true |})
              D [].

  Definition init_step (D : tenv) (st : tstate) (g : gassign) : tstate :=
    if mem_var (ga_var g) (map fst D) then st
    else match assign_values st g false with
         | Some vs => sset st (ga_var g) {| s_vals := vs; s_chg := true; s_fail := false; s_lock := false |}
         | None => sset st (ga_var g) {| s_vals := []; s_chg := true; s_fail := true; s_lock := true |}
         end.

  (* Assignment.get_free_symbols(with_default=False) *)
  Definition free_syms (g : gassign) (implied : bool) : list var :=
    ga_reads g ++ (if implied then [] else [ga_default g]).

  Fixpoint body_init (body : list gassign) (implied : list bool) (running : list var) (st : tstate) : tstate :=
    match body with
    | [] => st
    | g :: body' =>
        let running' := running ++ free_syms g (hd true implied) in
        let st' :=
          if shas st (ga_var g) then st
          else sset st (ga_var g)
                    {| s_vals := if mem_var (ga_var g) running' then [None] else [];
                       s_chg := true; s_fail := false; s_lock := false |} in
        body_init body' (tl implied) running' st'
    end.

  Definition init_state (fp : flatprog) (D : tenv) (implied : list bool) : tstate :=
    body_init (fp_body fp) implied [] (fold_left (init_step D) (fp_init fp) (declared_state D)).

  (* _check_applicability *)
  Definition applicable (fp : flatprog) : bool :=
    forallb (fun g => match ga_cond g with CTrue => true | _ => false end) (fp_init fp).

  (* ---- _extract_types ---- *)
  Definition is_num (v : val) : bool := match v with Some _ => true | None => false end.
  Definition nums (l : list val) : list Qc := flat_map (fun v => match v with Some q => [q] | None => [] end) l.
  Definition s_ok (s : status) : bool := negb (s_fail s) && forallb is_num (s_vals s).
  Definition extract (st : tstate) : tenv :=
    flat_map (fun x => let s := sget st x in if s_ok s then [(x, nums (s_vals s))] else [])
             (nodup string_dec (map fst st)).

  Definition cascade_fuel (st : tstate) : nat := S (S (List.length st)).

  Definition typer_state (fp : flatprog) (D : tenv) (implied drops : list bool) : option tstate :=
    if applicable fp then
      let body := zip_drops (fp_body fp) drops in
      let st1 := phase1 body (tp_iters P) (init_state fp D implied) in
      cascade body (cascade_fuel st1) st1
    else None.

  Definition typer_run (fp : flatprog) (D : tenv) (implied drops : list bool) : option tenv :=
    option_map extract (typer_state fp D implied drops).

  (* did the run need the failure cascade? (evidence only) *)
  Definition typer_cascade_rounds (fp : flatprog) (D : tenv) (implied drops : list bool) : nat :=
    let body := zip_drops (fp_body fp) drops in
    let st1 := phase1 body (tp_iters P) (init_state fp D implied) in
    cascade_rounds body (cascade_fuel st1) st1.
End Model.

(* the rule of the current code (Assignment.get_support): the default is left out only when
   the condition is implied by the loop guard AND the default is the variable itself *)
Definition drops_current (body : list gassign) (implied : list bool) : list bool :=
  map (fun gi : gassign * bool => snd gi && var_eqb (ga_default (fst gi)) (ga_var (fst gi)))
      (combine body implied).
(* the rule before repo commit cee80d2: left out whenever the condition is implied *)
Definition drops_old (body : list gassign) (implied : list bool) : list bool :=
  map (fun gi : gassign * bool => snd gi) (combine body implied).

(* ---- comparison of two type environments: same typed variables, same value SETS ---- *)
Definition tenv_sub (A B : tenv) : bool :=
  forallb (fun xt => match tlookup B (fst xt) with
                     | Some vs => subset (snd xt) vs && subset vs (snd xt)
                     | None => false
                     end) A.
Definition tenv_eqb (A B : tenv) : bool := tenv_sub A B && tenv_sub B A.

Definition typer_matches (P : tparams) (syms : list var) (fp : flatprog) (D : tenv) (implied drops : list bool) (T : tenv) : bool :=
  match typer_run P syms fp D implied drops with
  | Some M => tenv_eqb M T
  | None => false
  end.

(* does the run involve "not a number" values (where the model only approximates symengine:
   distinct symbolic values are identified, 0*symbol is not simplified)? (evidence only) *)
Definition typer_symbolic (P : tparams) (syms : list var) (fp : flatprog) (D : tenv) (implied : list bool) : bool :=
  negb (is_nil syms) ||
  existsb (fun xs : var * status => vmem None (s_vals (snd xs))) (init_state P syms fp D implied).

(* every variable the model types is typed by [T] with the same set ([T] may type more) *)
Definition typer_below (P : tparams) (syms : list var) (fp : flatprog) (D : tenv) (implied drops : list bool) (T : tenv) : bool :=
  match typer_run P syms fp D implied drops with
  | Some M => tenv_sub M T
  | None => false
  end.

(* printable form of a type environment *)
Definition tenv_pairs (T : tenv) : list (var * list (Z * positive)) :=
  map (fun xt => (fst xt, map qpair (snd xt))) T.
