(* C13 — theorems about the GENERATED definitions of gen/FuncGen.v (translated on every run
   from program/assignment/functional_assignment.py and the cf/mgf of the integer-supported
   families) and gen/DistGen.v (mgf_exists_at of every family). *)
From Coq Require Import List ZArith Lia Arith Bool String Ring QArith Qcanon.
From Polar Require Import Qcx CRing Stats Func DistBase DistProofs.
From PolarGen Require Import FuncGen DistGen.
Import ListNotations.
Local Open Scope string_scope.

(* ------------------------------------------------------------------------------------ *)
(** * 1. get_func_moment: which branch answers a request                                *)
(* ------------------------------------------------------------------------------------ *)
Definition has_trig (fp : fdict) : bool := orb (fmem "Sin" fp) (fmem "Cos" fp).
Definition has_exp (fp : fdict) : bool := fmem "Exp" fp.
(* the request E[sin(X) exp(X)] *)
Definition mixed_witness : fdict := [("Sin", 1%nat); ("Exp", 1%nat)].

Ltac dispatch_cases fp :=
  unfold get_func_moment, has_trig, has_exp in *;
  destruct (fmem "Sin" fp), (fmem "Cos" fp), (fmem "Exp" fp), (fmem "Expt" fp);
  cbn in *; try discriminate; try reflexivity; auto.

(* the trig branch is only taken for requests with a Sin or Cos power, the exp branch only for
   requests with an Exp power and no Sin/Cos power, everything else is rejected *)
Lemma dispatch_trig_sound fp : get_func_moment fp = DTrig -> has_trig fp = true.
Proof. intros H. dispatch_cases fp. Qed.
Lemma dispatch_exp_sound fp : get_func_moment fp = DExp -> has_exp fp = true /\ has_trig fp = false.
Proof. intros H. dispatch_cases fp. Qed.
Lemma dispatch_unknown fp : has_trig fp = false -> has_exp fp = false -> is_raise (get_func_moment fp) = true.
Proof. intros H1 H2. dispatch_cases fp. Qed.
Lemma dispatch_exp_complete fp : has_trig fp = false -> has_exp fp = true -> get_func_moment fp = DExp.
Proof. intros H1 H2. dispatch_cases fp. Qed.
Lemma dispatch_trig_complete fp :
  has_trig fp = true -> has_exp fp = false -> fmem "Expt" fp = false -> get_func_moment fp = DTrig.
Proof. intros H1 H2 H3. dispatch_cases fp. Qed.

(* mixed requests (Sin/Cos together with Exp; the docstring: "Exp can be mixed with Id" only):
   whether ALL of them are rejected is decided by the single witness request *)
Lemma dispatch_mixed_decided_by_witness :
  is_raise (get_func_moment mixed_witness) = true ->
  forall fp, has_trig fp = true -> has_exp fp = true -> is_raise (get_func_moment fp) = true.
Proof. intros H fp H1 H2. dispatch_cases fp. Qed.

(* if the witness request is answered by the trig branch, the factor exp(X) is dropped: the answer
   is that of the request without the Exp power *)
Lemma dispatch_refuted_if_witness_trig :
  get_func_moment mixed_witness = DTrig ->
  exists fp, has_trig fp = true /\ has_exp fp = true /\ get_func_moment fp = DTrig /\
    forall (R : cring) (Iu : R) (tn : bool) (mom : nat -> R) (cf : Z -> R) (dcf : nat -> Z -> R),
      get_trig_moment_num R Iu tn mom cf dcf fp = get_trig_moment_num R Iu tn mom cf dcf [("Sin", 1%nat)] /\
      get_trig_moment_den R Iu tn mom cf dcf fp = get_trig_moment_den R Iu tn mom cf dcf [("Sin", 1%nat)].
Proof.
  intros H. exists mixed_witness. split; [reflexivity|]. split; [reflexivity|]. split; [exact H|].
  intros R Iu tn mom cf dcf. split; reflexivity.
Qed.

(* ------------------------------------------------------------------------------------ *)
(** * 2. get_trig_moment                                                                *)
(* ------------------------------------------------------------------------------------ *)
Lemma fget_if k fp : (if fmem k fp then fget k fp else 0%nat) = fget k fp.
Proof. exact (fget_default_eq k fp). Qed.

Section Trig.
  Variable R : cring.
  Add Ring Rr2 : (rth R).
  Local Open Scope cr_scope.
  Notation rpow := (@rpow R).
  Notation zr := (@zr R).

  (* accumulation loop whose step adds a term *)
  Lemma fold_left_step {A} (step : R -> A -> R) (G : A -> R) l init :
    (forall acc x, step acc x = acc + G x) -> fold_left step l init = init + rsum l G.
  Proof.
    intros H. revert init. induction l as [|x l IH]; intros init; cbn [fold_left].
    - rewrite rsum_nil. ring.
    - rewrite IH, H, rsum_cons. ring.
  Qed.

  Variable Iu : R.
  Variable tn : bool.     (* isinstance(dist, TruncNormal): irrelevant for the value *)
  (* e m stands for exp(i m) *)
  Variable e : Z -> R.
  Hypothesis e_0 : e 0%Z = r1.
  Hypothesis e_add : forall m n, e (m + n)%Z = e m * e n.

  (* dist.get_moment(a) of a law *)
  Definition mom_of (L : zlaw R) (a : nat) : R := Ez L (fun v => rpow (zr v) a).

  (* derivatives of a characteristic function at frequency 0: phi(0) = 1 and phi^(a)(0) = i^a E[X^a] *)
  Lemma dtf_mass (L : zlaw R) : Ez L (fun _ => r1) = r1 -> dtf_of e Iu L 0 0%Z = r1.
  Proof.
    intros H. rewrite dtf_of_eq. rewrite <- H. unfold Ez. apply rsum_ext. intros pv _.
    cbn [rpow]. rewrite Z.mul_0_l, e_0. ring.
  Qed.
  Lemma dtf_zero_freq (L : zlaw R) a : dtf_of e Iu L a 0%Z = rpow Iu a * mom_of L a.
  Proof.
    rewrite dtf_of_eq. unfold mom_of, Ez. rewrite <- rsum_scal. apply rsum_ext. intros pv _.
    rewrite Z.mul_0_l, e_0, rpow_mul_base. ring.
  Qed.

  (* what the translated double loop computes for a law L of total mass 1: every term is the
     a-th formal t-derivative of the law's characteristic function at the term's frequency
     (whether the code takes it from dist.cf, from diff(dist.cf(t), t, a) or, at frequency 0, from
     the moment) *)
  Lemma trig_num_as_sum (L : zlaw R) fp :
    Ez L (fun _ => r1) = r1 ->
    get_trig_moment_num R Iu tn (mom_of L) (tf_of e L) (dtf_of e Iu L) fp
    = rsum (seq 0 (S (fget "Cos" fp))) (fun k1 => rsum (seq 0 (S (fget "Sin" fp))) (fun k2 =>
        zr (binom (fget "Cos" fp) k1 * binom (fget "Sin" fp) k2 * (-1) ^ Z.of_nat (fget "Sin" fp - k2))
        * dtf_of e Iu L (fget "Id" fp)
            (2 * (Z.of_nat k1 + Z.of_nat k2) - Z.of_nat (fget "Cos" fp) - Z.of_nat (fget "Sin" fp))%Z)).
  Proof.
    intros Hmass. unfold get_trig_moment_num. rewrite !fget_if. cbv zeta.
    rewrite !pyrange_0, !Nat.add_1_r.
    rewrite (fold_left_step _ (fun k1 => rsum (seq 0 (S (fget "Sin" fp))) (fun k2 =>
        zr (binom (fget "Cos" fp) k1 * binom (fget "Sin" fp) k2 * (-1) ^ Z.of_nat (fget "Sin" fp - k2))
        * dtf_of e Iu L (fget "Id" fp)
            (2 * (Z.of_nat k1 + Z.of_nat k2) - Z.of_nat (fget "Cos" fp) - Z.of_nat (fget "Sin" fp))%Z))).
    - ring.
    - intros acc k1. apply fold_left_step. intros acc2 k2. f_equal. f_equal.
      set (m := (2 * (Z.of_nat k1 + Z.of_nat k2) - Z.of_nat (fget "Cos" fp) - Z.of_nat (fget "Sin" fp))%Z).
      set (a := fget "Id" fp).
      destruct (Z.eqb_spec m 0) as [Hm0|Hm0]; destruct (Nat.eqb_spec a 0) as [Ha|Ha]; destruct tn; cbn [andb negb];
        try (rewrite Hm0); try (rewrite Ha);
        first [reflexivity | symmetry; apply dtf_mass; exact Hmass | symmetry; apply dtf_zero_freq].
  Qed.

  Lemma trig_den_eq (mom : nat -> R) (cf : Z -> R) (dcf : nat -> Z -> R) fp :
    get_trig_moment_den R Iu tn mom cf dcf fp
    = rpow Iu (fget "Id" fp + fget "Sin" fp) * rpow (zr 2) (fget "Cos" fp + fget "Sin" fp).
  Proof. unfold get_trig_moment_den. rewrite !fget_if. cbv zeta. rewrite zr_pow. reflexivity. Qed.

  (* the double sum of get_trig_moment over the frequencies 2(k1+k2)-c-b, evaluated on z^(m v) *)
  Lemma trig_double_sum (b c : nat) (v : Z) :
    rsum (seq 0 (S c)) (fun k1 => rsum (seq 0 (S b)) (fun k2 =>
      zr (binom c k1 * binom b k2 * (-1) ^ Z.of_nat (b - k2))
      * e ((2 * (Z.of_nat k1 + Z.of_nat k2) - Z.of_nat c - Z.of_nat b) * v)%Z))
    = rpow (e v - e (- v)%Z) b * rpow (e v + e (- v)%Z) c.
  Proof.
    rewrite (prod_to_sum_ring R (e v) (e (- v)%Z) b c).
    apply rsum_ext. intros k1 H1. apply rsum_ext. intros k2 H2.
    apply in_seq in H1. apply in_seq in H2.
    rewrite !zr_mul, zr_pow, zr_m1. unfold br.
    replace (2 * (Z.of_nat k1 + Z.of_nat k2) - Z.of_nat c - Z.of_nat b)%Z
      with (Z.of_nat (k1 + k2) - Z.of_nat ((b + c) - (k1 + k2)))%Z by lia.
    rewrite (e_diff R e e_0 e_add). ring.
  Qed.

  (* PRODUCT-TO-SUM, on the generated definition: for the Dirac law at v, whose characteristic
     function is the formal monomial m |-> z^(m v) = e (m v), and no identity power, the double sum
     of get_trig_moment is (z^v - z^-v)^b (z^v + z^-v)^c and its divisor is i^b 2^(c+b): the quotient
     is ((z^v - z^-v)/(2i))^b ((z^v + z^-v)/2)^c = sin^b(v) cos^c(v) written with z = exp(i). *)
  Definition dirac (v : Z) : zlaw R := [(r1, v)].
  Theorem prod_to_sum_gen (b c : nat) (v : Z) :
    get_trig_moment_num R Iu tn (mom_of (dirac v)) (tf_of e (dirac v)) (dtf_of e Iu (dirac v)) [("Sin", b); ("Cos", c)]
    = rpow (e v - e (- v)%Z) b * rpow (e v + e (- v)%Z) c
    /\ get_trig_moment_den R Iu tn (mom_of (dirac v)) (tf_of e (dirac v)) (dtf_of e Iu (dirac v)) [("Sin", b); ("Cos", c)]
       = rpow Iu b * rpow (zr 2) (c + b).
  Proof.
    split.
    - rewrite trig_num_as_sum by (unfold Ez, dirac; cbn [rsum fold_right fst snd]; ring).
      cbn [fget String.eqb Ascii.eqb Bool.eqb].
      rewrite <- trig_double_sum.
      apply rsum_ext. intros k1 _. apply rsum_ext. intros k2 _. f_equal.
      rewrite dtf_of_eq. unfold Ez, dirac. cbn [rsum fold_right fst snd rpow]. ring.
    - rewrite trig_den_eq. cbn [fget String.eqb Ascii.eqb Bool.eqb Nat.add]. reflexivity.
  Qed.

  (* sin and cos of the integer points, characterised by Euler's formulas *)
  Variable sn cs : Z -> R.
  Hypothesis sn_def : forall v, zr 2 * Iu * sn v = e v - e (- v)%Z.
  Hypothesis cs_def : forall v, zr 2 * cs v = e v + e (- v)%Z.

  (* MAIN THEOREM (trigonometric moments of integer-supported finite laws), all a, b, c, all laws:
     with dist.cf and its t-derivatives being those of the law L (formal exponential sums), the
     translated numerator equals the translated divisor times the defining sum
     E[X^a sin^b(X) cos^c(X)] = sum_j p_j v_j^a sin(v_j)^b cos(v_j)^c. *)
  Theorem trig_moment_discrete_exact (L : zlaw R) (fp : fdict) :
    Ez L (fun _ => r1) = r1 ->
    get_trig_moment_num R Iu tn (mom_of L) (tf_of e L) (dtf_of e Iu L) fp
    = get_trig_moment_den R Iu tn (mom_of L) (tf_of e L) (dtf_of e Iu L) fp
      * Ez L (fun v => rpow (zr v) (fget "Id" fp) * rpow (sn v) (fget "Sin" fp) * rpow (cs v) (fget "Cos" fp)).
  Proof.
    intros Hmass. rewrite trig_num_as_sum by exact Hmass. rewrite trig_den_eq.
    set (a := fget "Id" fp). set (b := fget "Sin" fp). set (c := fget "Cos" fp).
    transitivity (rsum (seq 0 (S c)) (fun k1 => rsum (seq 0 (S b)) (fun k2 =>
        zr (binom c k1 * binom b k2 * (-1) ^ Z.of_nat (b - k2))
        * Ez L (fun v => rpow (Iu * zr v) a * e ((2 * (Z.of_nat k1 + Z.of_nat k2) - Z.of_nat c - Z.of_nat b) * v)%Z)))).
    { apply rsum_ext. intros k1 _. apply rsum_ext. intros k2 _. f_equal. apply dtf_of_eq. }
    (* exchange the law's sum with the double sum *)
    unfold Ez.
    transitivity (rsum L (fun pv => fst pv * rpow (Iu * zr (snd pv)) a *
        rsum (seq 0 (S c)) (fun k1 => rsum (seq 0 (S b)) (fun k2 =>
          zr (binom c k1 * binom b k2 * (-1) ^ Z.of_nat (b - k2))
          * e ((2 * (Z.of_nat k1 + Z.of_nat k2) - Z.of_nat c - Z.of_nat b) * snd pv)%Z)))).
    { transitivity (rsum (seq 0 (S c)) (fun k1 => rsum L (fun pv => rsum (seq 0 (S b)) (fun k2 =>
          fst pv * rpow (Iu * zr (snd pv)) a *
          (zr (binom c k1 * binom b k2 * (-1) ^ Z.of_nat (b - k2))
           * e ((2 * (Z.of_nat k1 + Z.of_nat k2) - Z.of_nat c - Z.of_nat b) * snd pv)%Z))))).
      { apply rsum_ext. intros k1 _. rewrite rsum_swap. apply rsum_ext. intros k2 _.
        rewrite <- rsum_scal. apply rsum_ext. intros pv _. ring. }
      rewrite rsum_swap. apply rsum_ext. intros pv _.
      rewrite <- rsum_scal. apply rsum_ext. intros k1 _. rewrite <- rsum_scal. reflexivity. }
    rewrite <- rsum_scal. apply rsum_ext. intros [p v] _. cbn [fst snd].
    rewrite trig_double_sum. rewrite <- sn_def, <- cs_def.
    rewrite !rpow_mul_base, !rpow_add. ring.
  Qed.

  (* Bernoulli(p): the translated cf is the formal exponential sum of the law {0: 1-p, 1: p} *)
  Theorem bernoulli_cf_is_law (p : R) (t : Z) :
    bernoulli_cf R e p t = tf_of e [(r1 - p, 0%Z); (p, 1%Z)] t.
  Proof.
    unfold bernoulli_cf, tf_of, eeval. cbn [rsum fold_right fst snd].
    rewrite Z.mul_0_r, Z.mul_1_r, e_0. ring.
  Qed.

  (* DiscreteUniform(a, a+n-1): the translated closed form num/den is the geometric sum *)
  Lemma geometric_sum (a : Z) (n : nat) (t : Z) :
    (r1 - e t) * rsum (seq 0 n) (fun j => e ((a + Z.of_nat j) * t)%Z) = e (a * t)%Z - e ((a + Z.of_nat n) * t)%Z.
  Proof.
    induction n as [|n IH].
    - cbn [seq]. rewrite rsum_nil. replace (a + Z.of_nat 0)%Z with a by lia. ring.
    - rewrite seq_S, rsum_app, rsum_cons, rsum_nil. cbn [Nat.add].
      replace ((a + Z.of_nat (S n)) * t)%Z with (t + (a + Z.of_nat n) * t)%Z by lia.
      rewrite e_add.
      transitivity ((r1 - e t) * rsum (seq 0 n) (fun j => e ((a + Z.of_nat j) * t)%Z)
                    + (r1 - e t) * e ((a + Z.of_nat n) * t)%Z); [ring|].
      rewrite IH. ring.
  Qed.
  Definition du_law (w : R) (a : Z) (n : nat) : zlaw R := map (fun j => (w, (a + Z.of_nat j)%Z)) (seq 0 n).
  Theorem du_cf_closed_form (w : R) (a : Z) (n : nat) (t : Z) :
    zr (Z.of_nat n) * w = r1 ->       (* w = 1/n, the weight of each of the n values a .. a+n-1 *)
    discreteuniform_cf_den R e a (a + Z.of_nat n - 1)%Z t * tf_of e (du_law w a n) t
    = discreteuniform_cf_num R e a (a + Z.of_nat n - 1)%Z t.
  Proof.
    intros Hw. unfold discreteuniform_cf_den, discreteuniform_cf_num, tf_of, eeval, du_law.
    rewrite rsum_map. cbn [fst snd].
    replace (a + Z.of_nat n - 1 - a + 1)%Z with (Z.of_nat n) by lia.
    replace (a + Z.of_nat n - 1 + 1)%Z with (a + Z.of_nat n)%Z by lia.
    rewrite <- geometric_sum.
    transitivity ((zr (Z.of_nat n) * w) * ((r1 - e t) * rsum (seq 0 n) (fun j => e (t * (a + Z.of_nat j))%Z))).
    { rewrite rsum_scal. ring. }
    rewrite Hw.
    transitivity ((r1 - e t) * rsum (seq 0 n) (fun j => e (t * (a + Z.of_nat j))%Z)); [ring|].
    f_equal. apply rsum_ext. intros j _. f_equal. lia.
  Qed.
  (* ... but at frequency 0 the closed form is 0/0 (removable singularity): Polar evaluates it
     there (e.g. Cos power 2 -> frequency 0), gets nan and dies on `assert im(result) == 0` *)
  Theorem du_cf_zero_over_zero (a b : Z) :
    discreteuniform_cf_num R e a b 0%Z = r0 /\ discreteuniform_cf_den R e a b 0%Z = r0.
  Proof.
    unfold discreteuniform_cf_num, discreteuniform_cf_den. rewrite !Z.mul_0_r, e_0. split; ring.
  Qed.
End Trig.

(* ------------------------------------------------------------------------------------ *)
(** * 3. get_exp_moment                                                                 *)
(* ------------------------------------------------------------------------------------ *)
Section ExpM.
  Variable R : cring.
  Add Ring Rr3 : (rth R).
  Local Open Scope cr_scope.
  Notation rpow := (@rpow R).
  Notation zr := (@zr R).

  Lemma exp_moment_unfold ex (mgf : Z -> R) dmgf conv fp :
    get_exp_moment R ex mgf dmgf conv fp
    = if ex (Z.of_nat (fget "Exp" fp))
      then Some (conv (if (fget "Id" fp =? 0)%nat then mgf (Z.of_nat (fget "Exp" fp))
                       else dmgf (fget "Id" fp) (Z.of_nat (fget "Exp" fp))))
      else None.
  Proof.
    unfold get_exp_moment. rewrite !fget_if. cbv zeta.
    destruct (ex (Z.of_nat (fget "Exp" fp))); reflexivity.
  Qed.

  (* a request outside the domain reported by mgf_exists_at is rejected, one inside is answered *)
  Theorem exp_moment_rejected_iff ex (mgf : Z -> R) dmgf conv fp :
    get_exp_moment R ex mgf dmgf conv fp = None <-> ex (Z.of_nat (fget "Exp" fp)) = false.
  Proof.
    rewrite exp_moment_unfold. destruct (ex (Z.of_nat (fget "Exp" fp))); split; intros H; try discriminate; reflexivity.
  Qed.

  (* ew m stands for exp(m) *)
  Variable ew : Z -> R.
  Hypothesis ew_0 : ew 0%Z = r1.
  Hypothesis ew_add : forall m n, ew (m + n)%Z = ew m * ew n.

  (* exponential moments of integer-supported finite laws, all a, c, all laws: with dist.mgf and
     its t-derivatives those of the law L, the translated get_exp_moment returns (up to
     convert_func_moment) the defining sum E[X^a exp(X)^c] whenever it answers *)
  Theorem exp_moment_discrete_exact ex conv (L : zlaw R) fp :
    get_exp_moment R ex (tf_of ew L) (dtf_of ew r1 L) conv fp
    = if ex (Z.of_nat (fget "Exp" fp))
      then Some (conv (Ez L (fun v => rpow (zr v) (fget "Id" fp) * rpow (ew v) (fget "Exp" fp))))
      else None.
  Proof.
    rewrite exp_moment_unfold. destruct (ex (Z.of_nat (fget "Exp" fp))); [|reflexivity].
    f_equal. f_equal.
    transitivity (dtf_of ew r1 L (fget "Id" fp) (Z.of_nat (fget "Exp" fp))).
    { destruct (Nat.eqb_spec (fget "Id" fp) 0) as [E|E]; [rewrite E; reflexivity | reflexivity]. }
    rewrite dtf_of_eq. unfold Ez. apply rsum_ext. intros [p v] _. cbn [fst snd].
    rewrite (e_natmul R ew ew_0 ew_add). f_equal. f_equal. f_equal. ring.
  Qed.

  Theorem bernoulli_mgf_is_law (p : R) (t : Z) :
    bernoulli_mgf R ew p t = tf_of ew [(r1 - p, 0%Z); (p, 1%Z)] t.
  Proof.
    unfold bernoulli_mgf, tf_of, eeval. cbn [rsum fold_right fst snd].
    rewrite Z.mul_0_r, Z.mul_1_r, ew_0. ring.
  Qed.
  Theorem du_mgf_closed_form (w : R) (a : Z) (n : nat) (t : Z) :
    zr (Z.of_nat n) * w = r1 ->
    discreteuniform_mgf_den R ew a (a + Z.of_nat n - 1)%Z t * tf_of ew (du_law R w a n) t
    = discreteuniform_mgf_num R ew a (a + Z.of_nat n - 1)%Z t.
  Proof. intros Hw. apply (du_cf_closed_form R ew); auto. Qed.
End ExpM.

(* ------------------------------------------------------------------------------------ *)
(** * 4. Existence of exponential moments: mgf_exists_at of every family (gen/DistGen.v) *)
(* ------------------------------------------------------------------------------------ *)
Local Open Scope Qc_scope.

(* the order c of the requested exponential moment E[X^a exp(c X)] as a rational *)
Definition qz (m : Z) : Qc := zq m.

Section Domains.
  Variable R : cring.
  Variables (mgf : Z -> R) (dmgf : nat -> Z -> R) (conv : R -> R).

  Theorem exp_moment_domain_exponential (lamb : Qc) fp :
    get_exp_moment R (fun m => exponential_mgf_exists_at lamb (qz m)) mgf dmgf conv fp = None
    <-> ~ (qz (Z.of_nat (fget "Exp" fp)) < lamb).
  Proof.
    rewrite exp_moment_rejected_iff. destruct mgf_domains as [H _]. rewrite <- H.
    destruct (exponential_mgf_exists_at lamb (qz (Z.of_nat (fget "Exp" fp)))); split; intros; congruence.
  Qed.
  Theorem exp_moment_domain_gamma (k theta : Qc) fp :
    get_exp_moment R (fun m => gamma_mgf_exists_at k theta (qz m)) mgf dmgf conv fp = None
    <-> ~ (qz (Z.of_nat (fget "Exp" fp)) < 1 / theta).
  Proof.
    rewrite exp_moment_rejected_iff. destruct mgf_domains as [_ [H _]]. rewrite <- (H k).
    destruct (gamma_mgf_exists_at k theta (qz (Z.of_nat (fget "Exp" fp)))); split; intros; congruence.
  Qed.
  Theorem exp_moment_domain_laplace (mu b : Qc) fp :
    get_exp_moment R (fun m => laplace_mgf_exists_at mu b (qz m)) mgf dmgf conv fp = None
    <-> ~ (qabs (qz (Z.of_nat (fget "Exp" fp))) < 1 / b).
  Proof.
    rewrite exp_moment_rejected_iff. destruct mgf_domains as [_ [_ [H _]]]. rewrite <- (H mu).
    destruct (laplace_mgf_exists_at mu b (qz (Z.of_nat (fget "Exp" fp)))); split; intros; congruence.
  Qed.
  (* every other family: never rejected *)
  Theorem exp_moment_domain_everywhere fp :
    (forall p, get_exp_moment R (fun m => bernoulli_mgf_exists_at p (qz m)) mgf dmgf conv fp <> None) /\
    (forall a b, get_exp_moment R (fun m => discreteuniform_mgf_exists_at a b (qz m)) mgf dmgf conv fp <> None) /\
    (forall a b, get_exp_moment R (fun m => uniform_mgf_exists_at a b (qz m)) mgf dmgf conv fp <> None) /\
    (forall a b, get_exp_moment R (fun m => beta2_mgf_exists_at a b (qz m)) mgf dmgf conv fp <> None) /\
    (forall a b s, get_exp_moment R (fun m => beta3_mgf_exists_at a b s (qz m)) mgf dmgf conv fp <> None) /\
    (forall m s, get_exp_moment R (fun t => normal_mgf_exists_at m s (qz t)) mgf dmgf conv fp <> None) /\
    (forall m s a b, get_exp_moment R (fun t => truncnormal_mgf_exists_at m s a b (qz t)) mgf dmgf conv fp <> None).
  Proof.
    destruct mgf_domains as [_ [_ [_ [H1 [H2 [H3 [H4 [H5 [H6 H7]]]]]]]]].
    repeat split; intros; rewrite exp_moment_rejected_iff;
      rewrite ?H1, ?H2, ?H3, ?H4, ?H5, ?H6, ?H7; discriminate.
  Qed.
End Domains.

(* ------------------------------------------------------------------------------------ *)
(** * 5. convert_func_moment and get_const_moment                                       *)
(* ------------------------------------------------------------------------------------ *)
Section Const.
  Variables (A V : Type) (fsin fcos fexp : A -> V) (vpow : V -> nat -> V).
  Variables (is_Rational : V -> bool) (round_to : nat -> V -> V).

  Lemma convert_exact m : convert_func_moment true is_Rational round_to m = m.
  Proof. reflexivity. Qed.
  Lemma convert_rational ex m : is_Rational m = true -> convert_func_moment ex is_Rational round_to m = m.
  Proof. intros H. unfold convert_func_moment. rewrite H, orb_true_r. reflexivity. Qed.
  Lemma convert_rounds m :
    is_Rational m = false -> convert_func_moment false is_Rational round_to m = round_to 20%nat m.
  Proof. intros H. unfold convert_func_moment. rewrite H. reflexivity. Qed.

  (* the function named by a functional assignment *)
  Definition func_named (f : string) : option (A -> V) :=
    if String.eqb f "Sin" then Some fsin else if String.eqb f "Cos" then Some fcos
    else if String.eqb f "Exp" then Some fexp else None.

  (* Sin/Cos/Exp of a constant c to the power k is f(c)^k in exact mode (and for rational values),
     its 20-digit rounding otherwise; an unknown function name is rejected *)
  Theorem const_func_moment ex (func : string) (c : A) (k : nat) :
    get_const_moment fsin fcos fexp vpow (convert_func_moment ex is_Rational round_to) func c k
    = match func_named func with
      | Some f => Some (if orb ex (is_Rational (vpow (f c) k)) then vpow (f c) k else round_to 20%nat (vpow (f c) k))
      | None => None
      end.
  Proof.
    unfold get_const_moment, func_named, convert_func_moment.
    destruct (String.eqb func "Sin"); [reflexivity|].
    destruct (String.eqb func "Cos"); [reflexivity|].
    destruct (String.eqb func "Exp"); reflexivity.
  Qed.
End Const.
