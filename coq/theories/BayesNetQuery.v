(* C15 — the query statements appended to the generated loop body (bayesnet/query/*.py):
   exact inference (indicator / product pair) and sampling time (count / continue pair).
   Everything here is over Qc and is closed under the global context (no axioms); the
   real-number limit of the sampling-time count is in BayesNetLimit.v. *)
From Coq Require Import String Arith Bool QArith Qcanon Lia List.
From Polar Require Import Qcx BayesNet BayesNetSem.
Import ListNotations.
Open Scope nat_scope.

(* ------------------------------------------------------------------ the query statements *)
(* exact inference: ind = m := [evidence holds]; inf = S m := X_t * ind *)
Definition qs_exact (m : nat) (c : gcond) (t : nat) : list gstmt :=
  [SIf [(c, ACat m [1] [])] (Some (ACat m [0] [])); SAssign (AMul (S m) t m)].

(* sampling time: continue = S m := 0 once the evidence holds; count = m := count + continue *)
Definition qs_sample (m : nat) (c : gcond) : list gstmt :=
  [SIf [(c, ACat (S m) [0] [])] None; SAssign (AAdd m m (S m))].

Lemma gen_query_exact net tn ev i qs :
  gen_query net (QExact tn ev) = Some (i, qs) ->
  exists t c, qs = qs_exact (length net) c t /\
              resolve_evidence net ev = Some c /\
              find_nvar net tn = Some t /\
              c <> [] /\
              i = [(length net, 0); (S (length net), 0)].
Proof.
  unfold gen_query. destruct (find_nvar net tn) as [t|]; cbn [obind]; [|discriminate].
  destruct (resolve_evidence net ev) as [c|]; cbn [obind]; [|discriminate].
  destruct c as [|xv c]; cbn [length Nat.eqb negb guard obind]; [discriminate|].
  intros H. inversion H; subst. exists t, (xv :: c). repeat split; try reflexivity. discriminate.
Qed.

Lemma gen_query_sample net ev i qs :
  gen_query net (QSample ev) = Some (i, qs) ->
  exists c, qs = qs_sample (length net) c /\
            resolve_evidence net ev = Some c /\
            c <> [] /\
            i = [(length net, 1); (S (length net), 1)].
Proof.
  unfold gen_query.
  destruct (resolve_evidence net ev) as [c|]; cbn [obind]; [|discriminate].
  destruct c as [|xv c]; cbn [length Nat.eqb negb guard obind]; [discriminate|].
  intros H. inversion H; subst. exists (xv :: c). repeat split; try reflexivity. discriminate.
Qed.

(* the side conditions of the lemmas below hold for what gen_query resolves *)
Lemma find_nvar_lt net x t : find_nvar net x = Some t -> t < length net.
Proof.
  revert t. induction net as [|v net IH]; intros t; cbn [find_nvar length]; [discriminate|].
  destruct (String.eqb x (nv_name v)).
  - intros H. inversion H. lia.
  - destruct (find_nvar net x) as [t'|]; cbn [option_map]; [|discriminate].
    intros H. inversion H. specialize (IH t' eq_refl). lia.
Qed.

Lemma resolve_evidence_lt net ev c :
  resolve_evidence net ev = Some c -> forall x v, In (x, v) c -> x < length net.
Proof.
  unfold resolve_evidence. revert c. induction ev as [|e ev IH]; intros c; cbn [omap].
  - intros H. inversion H. intros x v [].
  - destruct (find_nvar net (fst e)) as [i|]; cbn [obind]; [|discriminate].
    destruct (nth_error net i) as [nv|] eqn:En; cbn [obind]; [|discriminate].
    destruct (index_of (snd e) (nv_dom nv)) as [k|]; cbn [obind]; [|discriminate].
    destruct (omap _ ev) as [c'|]; cbn [obind]; [|discriminate].
    intros H. inversion H; subst. intros x v [E|Hin].
    + inversion E; subst. apply nth_error_Some. rewrite En. discriminate.
    + apply (IH c' eq_refl x v Hin).
Qed.

(* ------------------------------------------------------------------ small algebra *)
Lemma upd_same s x v : upd s x v x = v.
Proof. unfold upd. rewrite Nat.eqb_refl. reflexivity. Qed.

Lemma upd_other s x v y : y <> x -> upd s x v y = s y.
Proof. unfold upd. intros H. apply Nat.eqb_neq in H. rewrite H. reflexivity. Qed.

Lemma qnat_add a b : qnat (a + b) = (qnat a + qnat b)%Qc.
Proof. induction a as [|a IH]; cbn [qnat Nat.add]; [ring | rewrite IH; ring]. Qed.

Lemma qnat_mul a b : qnat (a * b) = (qnat a * qnat b)%Qc.
Proof. induction a as [|a IH]; cbn [qnat Nat.mul]; [ring | rewrite qnat_add, IH; ring]. Qed.

Lemma qnat_1 : qnat 1 = 1%Qc.
Proof. cbn [qnat]. ring. Qed.

Lemma ind_negb b : ind (negb b) = (1 - ind b)%Qc.
Proof. destruct b; cbn [negb ind]; ring. Qed.

Lemma qpow_0_S k : qpow 0%Qc (S k) = 0%Qc.
Proof. cbn [qpow]. ring. Qed.

Definition bnat (b : bool) : nat := if b then 1 else 0.

Lemma qnat_bnat b : qnat (bnat b) = ind b.
Proof. destruct b; cbn [bnat ind qnat]; ring. Qed.

(* ------------------------------------------------------------------ A. exact inference *)
(* one execution of the query statements is deterministic: ind := [c], inf := X_t * ind *)
Lemma exec_qs_exact m c t s f :
  expect (exec_body (qs_exact m c t) s) f =
  f (upd (upd s m (bnat (cond_true c s))) (S m)
         (upd s m (bnat (cond_true c s)) t * bnat (cond_true c s))).
Proof.
  unfold qs_exact. cbn [exec_body exec_stmt exec_if].
  destruct (cond_true c s);
    cbn [exec_assign cat_weights combine map app fst snd bnat];
    unfold bind; cbn [flat_map scale map fst snd app exec_assign];
    unfold expect; cbn [map fst snd]; rewrite upd_same;
    unfold qsum; cbn [fold_right]; ring.
Qed.

Section Exact.
  Variables (m : nat) (c : gcond) (t : nat).
  Hypothesis Ht : t < m.

  Lemma exact_inf_state s k :
    expect (exec_body (qs_exact m c t) s) (fun s' => qpow (qnat (s' (S m))) (S k)) =
    (ind (cond_true c s) * qpow (qnat (s t)) (S k))%Qc.
  Proof.
    rewrite exec_qs_exact, upd_same, upd_other by lia.
    destruct (cond_true c s); cbn [bnat ind].
    - rewrite Nat.mul_1_r. ring.
    - rewrite Nat.mul_0_r. cbn [qnat]. rewrite qpow_0_S. ring.
  Qed.

  Lemma exact_ind_state s :
    expect (exec_body (qs_exact m c t) s) (fun s' => qnat (s' m)) = ind (cond_true c s).
  Proof.
    rewrite exec_qs_exact, upd_other, upd_same by lia. apply qnat_bnat.
  Qed.

  (* for every distribution D over states at the point where the query statements start *)
  Theorem exact_inf_expect (D : dist) k :
    expect (bind D (exec_body (qs_exact m c t))) (fun s' => qpow (qnat (s' (S m))) (S k)) =
    expect D (fun s => (ind (cond_true c s) * qpow (qnat (s t)) (S k))%Qc).
  Proof.
    rewrite expect_bind. apply expect_ext. intros ws _. apply exact_inf_state.
  Qed.

  Theorem exact_ind_expect (D : dist) :
    expect (bind D (exec_body (qs_exact m c t))) (fun s' => qnat (s' m)) = mass D (cond_true c).
  Proof.
    rewrite expect_bind. unfold mass. apply expect_ext. intros ws _. apply exact_ind_state.
  Qed.

  (* E[inf^k] / E[ind] = E_D[X_t^k ; evidence] / P_D(evidence) = E_D[X_t^k | evidence] *)
  Theorem exact_inference_identity (D : dist) k :
    let D' := bind D (exec_body (qs_exact m c t)) in
    expect D' (fun s' => qpow (qnat (s' (S m))) (S k)) =
      expect D (fun s => (ind (cond_true c s) * qpow (qnat (s t)) (S k))%Qc) /\
    expect D' (fun s' => qnat (s' m)) = mass D (cond_true c) /\
    (mass D (cond_true c) <> 0%Qc ->
     (expect D' (fun s' => qpow (qnat (s' (S m))) (S k)) / expect D' (fun s' => qnat (s' m)))%Qc =
     (expect D (fun s => (ind (cond_true c s) * qpow (qnat (s t)) (S k))%Qc) / mass D (cond_true c))%Qc).
  Proof.
    cbv zeta. rewrite exact_inf_expect, exact_ind_expect. repeat split.
  Qed.
End Exact.

(* ------------------------------------------------------------------ B. sampling time *)
Fixpoint geom (r : Qc) (n : nat) : Qc :=
  match n with O => 1%Qc | S k => (geom r k + qpow r (S k))%Qc end.

Lemma geom_closed r n : ((1 - r) * geom r n = 1 - qpow r (S n))%Qc.
Proof.
  induction n as [|n IH].
  - cbn [geom qpow]. ring.
  - cbn [geom]. rewrite Qcmult_plus_distr_r, IH. cbn [qpow]. ring.
Qed.

(* one execution of the query statements: continue := continue * [not c]; count += continue *)
Lemma exec_qs_sample m c s f :
  expect (exec_body (qs_sample m c) s) f =
  f (let s1 := if cond_true c s then upd s (S m) 0 else s in upd s1 m (s1 m + s1 (S m))).
Proof.
  unfold qs_sample. cbn [exec_body exec_stmt exec_if]. cbv zeta.
  destruct (cond_true c s);
    cbn [exec_assign cat_weights combine map app fst snd];
    unfold bind; cbn [flat_map scale map fst snd app exec_assign];
    unfold expect; cbn [map fst snd];
    unfold qsum; cbn [fold_right]; ring.
Qed.

Lemma sample_continue_state m c s :
  expect (exec_body (qs_sample m c) s) (fun s' => qnat (s' (S m))) =
  ((1 - ind (cond_true c s)) * qnat (s (S m)))%Qc.
Proof.
  rewrite exec_qs_sample. cbv zeta. rewrite upd_other by lia.
  destruct (cond_true c s); cbn [ind].
  - rewrite upd_same. cbn [qnat]. ring.
  - ring.
Qed.

Lemma sample_count_state m c s :
  expect (exec_body (qs_sample m c) s) (fun s' => qnat (s' m)) =
  (qnat (s m) + (1 - ind (cond_true c s)) * qnat (s (S m)))%Qc.
Proof.
  rewrite exec_qs_sample. cbv zeta. rewrite upd_same, qnat_add.
  destruct (cond_true c s); cbn [ind].
  - rewrite upd_same, upd_other by lia. cbn [qnat]. ring.
  - ring.
Qed.

Section Sampling.
  Variables (body : list gstmt) (m : nat) (c : gcond) (q : Qc).
  (* evidence probability of one body execution, from every start state *)
  Hypothesis Hq : forall s, mass (exec_body body s) (cond_true c) = q.
  Hypothesis Htot : forall s, expect (exec_body body s) (fun _ => 1%Qc) = 1%Qc.
  (* the body does not touch count / continue *)
  Hypothesis Hframe : forall s ws, In ws (exec_body body s) ->
                                   snd ws m = s m /\ snd ws (S m) = s (S m).

  Let loop := body ++ qs_sample m c.

  Lemma body_not_ev s : expect (exec_body body s) (fun s' => (1 - ind (cond_true c s'))%Qc) = (1 - q)%Qc.
  Proof.
    transitivity (expect (exec_body body s) (fun s' => (1 + (-(1)) * ind (cond_true c s'))%Qc)).
    - apply expect_ext. intros; ring.
    - rewrite expect_plus, expect_cmul, Htot. fold (mass (exec_body body s) (cond_true c)).
      rewrite Hq. ring.
  Qed.

  Lemma loop_continue_state s :
    expect (exec_body loop s) (fun s' => qnat (s' (S m))) = ((1 - q) * qnat (s (S m)))%Qc.
  Proof.
    unfold loop. rewrite exec_body_app.
    transitivity (expect (exec_body body s)
                         (fun s' => (qnat (s (S m)) * (1 - ind (cond_true c s')))%Qc)).
    - apply expect_ext. intros ws Hin. rewrite sample_continue_state.
      destruct (Hframe s ws Hin) as [_ E]. rewrite E. ring.
    - rewrite expect_cmul, body_not_ev. ring.
  Qed.

  Lemma loop_count_state s :
    expect (exec_body loop s) (fun s' => qnat (s' m)) =
    (qnat (s m) + (1 - q) * qnat (s (S m)))%Qc.
  Proof.
    unfold loop. rewrite exec_body_app.
    transitivity (expect (exec_body body s)
                         (fun s' => (qnat (s m) * 1 + qnat (s (S m)) * (1 - ind (cond_true c s')))%Qc)).
    - apply expect_ext. intros ws Hin. rewrite sample_count_state.
      destruct (Hframe s ws Hin) as [E1 E2]. rewrite E1, E2. ring.
    - rewrite expect_plus, !expect_cmul, body_not_ev, Htot. ring.
  Qed.

  (* n iterations from an arbitrary start distribution: linear in the start distribution *)
  Lemma sampling_continue_dist (d : dist) n :
    expect (iter_body loop n d) (fun s => qnat (s (S m))) =
    (qpow (1 - q) n * expect d (fun s => qnat (s (S m))))%Qc.
  Proof.
    induction n as [|n IH]; cbn [iter_body qpow].
    - ring.
    - rewrite expect_bind.
      rewrite (expect_ext _ _ (fun s => ((1 - q) * qnat (s (S m)))%Qc))
        by (intros ws _; apply loop_continue_state).
      rewrite expect_cmul, IH. ring.
  Qed.

  Lemma sampling_count_dist (d : dist) n :
    expect (iter_body loop n d) (fun s => qnat (s m)) =
    (expect d (fun s => qnat (s m)) + (geom (1 - q) n - 1) * expect d (fun s => qnat (s (S m))))%Qc.
  Proof.
    induction n as [|n IH]; cbn [iter_body geom].
    - ring.
    - rewrite expect_bind.
      rewrite (expect_ext _ _ (fun s => (qnat (s m) + (1 - q) * qnat (s (S m)))%Qc))
        by (intros ws _; apply loop_count_state).
      rewrite expect_plus, expect_cmul, IH, sampling_continue_dist. cbn [qpow]. ring.
  Qed.

  Section FromInit.
    Variable s0 : state.
    Hypothesis Hcount0 : s0 m = 1.
    Hypothesis Hcont0 : s0 (S m) = 1.

    Theorem sampling_continue_n n :
      expect (iter_body loop n [(1%Qc, s0)]) (fun s => qnat (s (S m))) = qpow (1 - q) n.
    Proof.
      rewrite sampling_continue_dist, expect_single, Hcont0, qnat_1. ring.
    Qed.

    Theorem sampling_count_n n :
      expect (iter_body loop n [(1%Qc, s0)]) (fun s => qnat (s m)) = geom (1 - q) n.
    Proof.
      rewrite sampling_count_dist, !expect_single, Hcount0, Hcont0, qnat_1. ring.
    Qed.
  End FromInit.

  Theorem sampling_closed_form n : (q * geom (1 - q) n = 1 - qpow (1 - q) (S n))%Qc.
  Proof.
    rewrite <- geom_closed. ring.
  Qed.
End Sampling.

(* ------------------------------------------------------------------ link to codegen *)
Lemma init_state_app_two l a va b vb :
  init_state (l ++ [(a, va); (b, vb)]) = upd (upd (init_state l) a va) b vb.
Proof. unfold init_state. rewrite fold_left_app. reflexivity. Qed.

(* the program generated for a sampling-time query has the shape assumed in Section Sampling,
   and its initial state has count = continue = 1 *)
Theorem codegen_sample_shape net ev p :
  codegen net (QSample ev) = Some p ->
  exists body c,
    gen_body net = Some body /\ resolve_evidence net ev = Some c /\ c <> [] /\
    (forall x v, In (x, v) c -> x < length net) /\
    g_body p = body ++ qs_sample (length net) c /\
    init_state (g_init p) (length net) = 1 /\
    init_state (g_init p) (S (length net)) = 1.
Proof.
  unfold codegen. destruct (gen_body net) as [body|]; cbn [obind]; [|discriminate].
  destruct (gen_query net (QSample ev)) as [[i qs]|] eqn:Eq; cbn [obind]; [|discriminate].
  intros H. inversion H; subst; clear H. cbn [g_body g_init fst snd].
  destruct (gen_query_sample _ _ _ _ Eq) as [c [-> [Hc [Hne ->]]]].
  exists body, c. repeat split; try assumption.
  - apply (resolve_evidence_lt _ _ _ Hc).
  - rewrite init_state_app_two, upd_other, upd_same by lia. reflexivity.
  - rewrite init_state_app_two, upd_same. reflexivity.
Qed.

(* same for exact inference: ind = inf = 0 initially, target and evidence variables < m *)
Theorem codegen_exact_shape net tn ev p :
  codegen net (QExact tn ev) = Some p ->
  exists body c t,
    gen_body net = Some body /\ resolve_evidence net ev = Some c /\ c <> [] /\
    find_nvar net tn = Some t /\ t < length net /\
    (forall x v, In (x, v) c -> x < length net) /\
    g_body p = body ++ qs_exact (length net) c t.
Proof.
  unfold codegen. destruct (gen_body net) as [body|]; cbn [obind]; [|discriminate].
  destruct (gen_query net (QExact tn ev)) as [[i qs]|] eqn:Eq; cbn [obind]; [|discriminate].
  intros H. inversion H; subst; clear H. cbn [g_body g_init fst snd].
  destruct (gen_query_exact _ _ _ _ _ Eq) as [t [c [-> [Hc [Ht [Hne ->]]]]]].
  exists body, c, t. repeat split; try assumption.
  - apply (find_nvar_lt _ _ _ Ht).
  - apply (resolve_evidence_lt _ _ _ Hc).
Qed.
