(* C02, first pass: LoopGuardTransformer.  `while G: B`  becomes  `while true: if G': B' end`
   where first-level single-branch ifs of B are collapsed into the condition.  Model and
   proof that it preserves the distribution of every state function at every iteration. *)
From Coq Require Import List String QArith Qcanon ZArith Bool.
From Polar Require Import Qcx Dist Syntax Sem.
Import ListNotations.
Local Open Scope Qc_scope.

(* two distributions are equivalent when they give every function the same expectation *)
Definition deq {A} (d1 d2 : dist A) : Prop := forall f, E d1 f = E d2 f.

Lemma deq_refl {A} (d : dist A) : deq d d.
Proof. intros f; reflexivity. Qed.
Lemma deq_trans {A} (d1 d2 d3 : dist A) : deq d1 d2 -> deq d2 d3 -> deq d1 d3.
Proof. intros H1 H2 f; rewrite H1; apply H2. Qed.
Lemma deq_sym {A} (d1 d2 : dist A) : deq d1 d2 -> deq d2 d1.
Proof. intros H f; symmetry; apply H. Qed.
Lemma deq_bind_ret {A} (d : dist A) : deq (bind d ret) d.
Proof. intros f. rewrite E_bind. apply E_ext. intros a. apply E_ret. Qed.
Lemma deq_bind {A B} (d1 d2 : dist A) (g1 g2 : A -> dist B) :
  deq d1 d2 -> (forall a, deq (g1 a) (g2 a)) -> deq (bind d1 g1) (bind d2 g2).
Proof.
  intros Hd Hg f. rewrite !E_bind. rewrite (E_ext d1 _ (fun a => E (g2 a) f)) by (intros a; apply Hg). apply Hd.
Qed.

Section Guard.
  Variable law : string -> list Qc -> dist Qc.

  (* simplify(): drop literal true conjuncts *)
  Definition and_s (c1 c2 : cond) : cond :=
    match c1, c2 with
    | CTrue, _ => c2
    | _, CTrue => c1
    | _, _ => CAnd c1 c2
    end.
  Lemma holds_and_s c1 c2 s : holds (and_s c1 c2) s = holds c1 s && holds c2 s.
  Proof.
    destruct c1, c2; simpl; try reflexivity; try (rewrite andb_true_r; reflexivity).
  Qed.

  (* _collapse_first_level_ifs: a body that is exactly one if-statement with one branch and
     no else is replaced by its branch, recursively; fuel = nesting depth *)
  Fixpoint collapse (fuel : nat) (b : block) : block * cond :=
    match fuel with
    | O => (b, CTrue)
    | S fuel' =>
        match b with
        | BCons (SIf (BrCons c br BrNil) BNil) BNil =>
            let '(b', c') := collapse fuel' br in (b', and_s c' c)
        | _ => (b, CTrue)
        end
    end.

  Definition guarded (c : cond) (b : block) (s : state) : dist state :=
    if holds c s then exec_block law b s else ret s.

  Lemma collapse_sound fuel b s :
    let '(b', c') := collapse fuel b in deq (exec_block law b s) (guarded c' b' s).
  Proof.
    revert b s; induction fuel as [|fuel IH]; intros b s; cbn [collapse].
    - unfold guarded; simpl. apply deq_refl.
    - destruct b as [|st b2]; [unfold guarded; simpl; apply deq_refl|].
      destruct st as [x r|l|bs els]; try (unfold guarded; simpl; apply deq_refl).
      destruct bs as [|c br bs2]; [unfold guarded; simpl; apply deq_refl|].
      destruct bs2; [|unfold guarded; simpl; apply deq_refl].
      destruct els; [|unfold guarded; simpl; apply deq_refl].
      destruct b2; [|unfold guarded; simpl; apply deq_refl].
      specialize (IH br s). destruct (collapse fuel br) as [b' c'].
      unfold guarded in *. rewrite holds_and_s.
      cbn [exec_block exec_stmt exec_branches].
      destruct (holds c s) eqn:Ec.
      + rewrite andb_true_r. eapply deq_trans; [apply deq_bind_ret|]. exact IH.
      + rewrite andb_false_r. cbn [exec_block]. apply deq_bind_ret.
  Qed.

  (* the pass *)
  Definition loop_guard_pass (fuel : nat) (p : prog) : prog :=
    let '(b', c') := collapse fuel (p_body p) in
    let g := and_s (p_guard p) c' in
    match g with
    | CTrue => {| p_init := p_init p; p_guard := CTrue; p_body := p_body p |}
    | _ => {| p_init := p_init p; p_guard := CTrue;
              p_body := BCons (SIf (BrCons g b' BrNil) BNil) BNil |}
    end.

  Lemma iter_preserved fuel p s : deq (iter law p s) (iter law (loop_guard_pass fuel p) s).
  Proof.
    unfold loop_guard_pass, iter.
    pose proof (collapse_sound fuel (p_body p) s) as Hc.
    destruct (collapse fuel (p_body p)) as [b' c'].
    assert (Hg : holds (and_s (p_guard p) c') s = holds (p_guard p) s && holds c' s) by apply holds_and_s.
    set (g := and_s (p_guard p) c') in *.
    assert (Hmain : deq (if holds (p_guard p) s then exec_block law (p_body p) s else ret s)
                        (exec_block law (BCons (SIf (BrCons g b' BrNil) BNil) BNil) s)).
    { cbn [exec_block exec_stmt exec_branches]. rewrite Hg. unfold guarded in Hc.
      destruct (holds (p_guard p) s); cbn [andb].
      - destruct (holds c' s); (eapply deq_trans; [exact Hc|]); apply deq_sym, deq_bind_ret.
      - cbn [exec_block]. apply deq_sym, deq_bind_ret. }
    destruct g eqn:Eg; cbn [p_guard p_body holds]; try exact Hmain.
    (* the combined condition is literally true: the body is kept unchanged *)
    simpl in Hg. symmetry in Hg. apply andb_true_iff in Hg. destruct Hg as [Hg1 _]. rewrite Hg1. apply deq_refl.
  Qed.

  Theorem loop_guard_preserves fuel p :
    forall n s0, deq (run law p n s0) (run law (loop_guard_pass fuel p) n s0).
  Proof.
    intros n s0; induction n as [|n IH]; cbn [run].
    - unfold loop_guard_pass. destruct (collapse fuel (p_body p)) as [b' c'].
      destruct (and_s (p_guard p) c'); apply deq_refl.
    - apply deq_bind; [exact IH | intros s; apply iter_preserved].
  Qed.
End Guard.
