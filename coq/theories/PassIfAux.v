(* C02, IfTransformer with UNCONDITIONAL auxiliary assignments (proposed_fixes/
   c18_auxiliary_assignments_unconditional.diff): proof that the model [PassIf.if_flatten]
   preserves the semantics.  New with respect to PassIfProof.v (old rule):
   - an auxiliary assignment inside a branch that is not taken is executed: it writes only an
     auxiliary variable ([strengthen_skip]); a probabilistic right-hand side must have total
     mass 1 ([rhs_mass1], and mass 1 of the continuous laws);
   - the source run does not execute it, so afterwards the two runs differ on that auxiliary:
     the simulation relation carries the list Lv of auxiliaries known to be equal, and the
     hypothesis [live_ok] (every auxiliary is assigned before it is read, on every path and in
     every iteration) makes the difference unobservable. *)
From Coq Require Import List String Ascii QArith Qcanon ZArith Bool Arith Lia.
From Polar Require Import Qcx Dist DistBase Syntax Sem Types Poly PassGuard PassIf PassIfProof.
Import ListNotations.
Local Open Scope Qc_scope.

(* ---------- total mass of right-hand sides ---------- *)
Fixpoint esum (l : list expr) : expr :=
  match l with [] => EConst 0 | e :: l' => EAdd e (esum l') end.
Definition sums_to_one (l : list expr) : bool := pzero (psub (of_expr (esum l)) (pconst 1)).
Definition rhs_mass1 (r : rhs) : bool :=
  match r with
  | RChoice alts => sums_to_one (map fst alts)
  | RDraw (DBern _) => true
  | RDraw (DCat ps) => sums_to_one ps
  | RDraw (DUnif a b) => Z.leb a b
  | RDraw (DCont _ _) => true
  end.
Fixpoint mass_stmt (st : stmt) : bool :=
  match st with
  | SAssign x r => negb (is_aux x) || rhs_mass1 r
  | SSimult _ => true
  | SIf bs els => mass_branches bs && mass_block els
  end
with mass_block (b : block) : bool :=
  match b with BNil => true | BCons st b' => mass_stmt st && mass_block b' end
with mass_branches (bs : branches) : bool :=
  match bs with BrNil => true | BrCons _ b bs' => mass_block b && mass_branches bs' end.

(* the boolean hypotheses of the theorem *)
Definition aux_ok (b : block) : bool := wf_block b && mass_block b && live_ok b.
Definition aux_ok_prog (p : prog) : bool := aux_ok (p_init p) && aux_ok (p_body p).

Lemma sums_to_one_sound l : sums_to_one l = true -> forall s, eval (esum l) s = 1.
Proof.
  unfold sums_to_one. intros H s. pose proof (pzero_sound _ H s) as H0.
  rewrite eval_psub, eval_of_expr, eval_pconst in H0.
  assert (H1 : eval (esum l) s = eval (esum l) s - 1 + 1) by ring. rewrite H1, H0. ring.
Qed.

Lemma is_aux_gen x : is_aux x = false -> is_gen x = false.
Proof. unfold is_aux. intros H. apply orb_false_iff in H. destruct H as [H _]. apply orb_false_iff in H. apply H. Qed.
Lemma is_aux_old k : is_aux (old_name k) = true.
Proof. unfold is_aux. rewrite is_gen_old. reflexivity. Qed.

Section Aux.
  Variable law : string -> list Qc -> dist Qc.
  Hypothesis law_mass : forall f args, mass (law f args) = 1.

  Lemma E_choice_const alts s c :
    E (map (fun pe : expr * expr => (eval (fst pe) s, eval (snd pe) s)) alts) (fun _ => c) = eval (esum (map fst alts)) s * c.
  Proof. induction alts as [|[p e] alts IH]; cbn [map E esum eval fst snd]; [ring | rewrite IH; ring]. Qed.
  Lemma E_cat_const ps s c : forall i,
    E (cat_law (map (fun e => eval e s) ps) i) (fun _ => c) = eval (esum ps) s * c.
  Proof. induction ps as [|p ps IH]; intros i; cbn [map cat_law E esum eval]; [ring | rewrite IH; ring]. Qed.
  Lemma E_unif_const w n c : forall a, E (unif_law w a n) (fun _ => c) = qnat n * w * c.
  Proof. induction n as [|n IH]; intros a; cbn [unif_law E]; [cbn [qnat]; ring | rewrite IH, qnat_S; ring]. Qed.

  Lemma mass_sample r : rhs_mass1 r = true -> forall s c, E (sample law r s) (fun _ => c) = c.
  Proof.
    destruct r as [alts|d]; cbn [rhs_mass1 sample]; intros H s c.
    - rewrite E_choice_const, (sums_to_one_sound _ H). ring.
    - destruct d as [p|ps|a b|f args]; cbn [draw_law].
      + cbn [E]. ring.
      + rewrite E_cat_const, (sums_to_one_sound _ H). ring.
      + apply Z.leb_le in H. rewrite E_unif_const.
        destruct (Z.to_nat (b - a + 1)) as [|m] eqn:En; [lia|].
        rewrite (Qcmult_inv_r (qnat (S m))) by apply qnat_S_neq0. ring.
      + rewrite E_const, law_mass. ring.
  Qed.
End Aux.

Section AuxProof.
  Variable law : string -> list Qc -> dist Qc.
  Hypothesis law_mass : forall f args, mass (law f args) = 1.

  (* Lv: auxiliaries that hold the same value in both runs *)
  Definition agreeL (Lv : list var) (s t : state) : Prop :=
    forall x, (is_aux x = false \/ In x Lv) -> t x = s x.
  Definition simL (Lv Lv' : list var) (l : list gassign) (D : state -> dist state) : Prop :=
    forall s t, agreeL Lv s t -> forall g h,
      (forall t' s', agreeL Lv' s' t' -> frame (gvars l) t t' -> g t' = h s') ->
      E (exec_gas law l t) g = E (D s) h.
  Definition auxv (l : list gassign) : list var := filter is_aux (gvars l).
  Definition aux_mass (l : list gassign) : Prop :=
    forall g, In g l -> is_aux (ga_var g) = true -> forall t c, E (sample law (ga_rhs g) t) (fun _ => c) = c.

  Lemma agreeL_sub Lv Lv' s t : (forall x, In x Lv' -> In x Lv) -> agreeL Lv s t -> agreeL Lv' s t.
  Proof. intros Hs H x [Hx|Hx]; apply H; [left; exact Hx | right; apply Hs; exact Hx]. Qed.

  Lemma gvars_strengthen_n e l : gvars (map (strengthen_n e) l) = gvars l.
  Proof.
    unfold gvars. rewrite map_map. apply map_ext. intros g. unfold strengthen_n.
    destruct (is_aux (ga_var g)); reflexivity.
  Qed.

  Lemma auxv_In l y : In y (auxv l) <-> In y (gvars l) /\ is_aux y = true.
  Proof. unfold auxv. apply filter_In. Qed.

  (* (c) the taken block *)
  Lemma strengthen_n_true (I : state -> Prop) e l :
    (forall t, I t -> holds e t = true) ->
    (forall t y v, I t -> In y (gvars l) -> I (upd t y v)) ->
    forall t F, I t -> E (exec_gas law (map (strengthen_n e) l) t) F = E (exec_gas law l t) F.
  Proof.
    intros He. induction l as [|g l IH]; intros Hupd t F Ht; [reflexivity|].
    assert (IH' : forall t', I t' -> E (exec_gas law (map (strengthen_n e) l) t') F = E (exec_gas law l t') F).
    { intros t' Ht'. apply IH; [|exact Ht']. intros t0 y v H0 Hy. apply Hupd; [exact H0 | right; exact Hy]. }
    assert (Hs : strengthen_n e g = if is_aux (ga_var g) then g else strengthen e g) by reflexivity.
    cbn [map]. rewrite Hs. destruct (is_aux (ga_var g)); rewrite !E_exec_gas_cons, !E_exec_ga.
    - destruct (holds (ga_cond g) t).
      + apply E_ext. intros v. apply IH'. apply Hupd; [exact Ht | left; reflexivity].
      + apply IH'. apply Hupd; [exact Ht | left; reflexivity].
    - rewrite holds_strengthen, (He t Ht), andb_true_r. cbn [strengthen ga_rhs ga_var ga_default].
      destruct (holds (ga_cond g) t).
      + apply E_ext. intros v. apply IH'. apply Hupd; [exact Ht | left; reflexivity].
      + apply IH'. apply Hupd; [exact Ht | left; reflexivity].
  Qed.

  (* (b),(d) a block that is not taken: guarded assignments are no-ops, auxiliary assignments
     run and change only auxiliary variables (V), with total mass 1 *)
  Lemma strengthen_skip (I : state -> Prop) (V : list var) e l :
    (forall t, I t -> holds e t = false) ->
    (forall t t', I t -> frame V t t' -> I t') ->
    defaults_ok l -> aux_mass l -> (forall y, In y (auxv l) -> In y V) ->
    forall t, I t -> forall F c, (forall t', I t' -> frame V t t' -> F t' = c) ->
      E (exec_gas law (map (strengthen_n e) l) t) F = c.
  Proof.
    intros He Hcl. induction l as [|g l IH]; intros Hd Hm HV t Ht F c HF.
    - cbn [map exec_gas]. rewrite E_ret. apply HF; [exact Ht | intros y _; reflexivity].
    - assert (Hd' : defaults_ok l) by (intros g' Hg'; apply Hd; right; exact Hg').
      assert (Hm' : aux_mass l) by (intros g' Hg'; apply Hm; right; exact Hg').
      assert (HV' : forall y, In y (auxv l) -> In y V).
      { intros y Hy. apply HV. apply auxv_In in Hy. apply auxv_In. cbn [gvars map]. split; [right; apply Hy | apply Hy]. }
      assert (Hs : strengthen_n e g = if is_aux (ga_var g) then g else strengthen e g) by reflexivity.
      cbn [map]. rewrite Hs. destruct (is_aux (ga_var g)) eqn:Ea; rewrite E_exec_gas_cons, E_exec_ga.
      + assert (HyV : In (ga_var g) V).
        { apply HV. apply auxv_In. split; [left; reflexivity | exact Ea]. }
        assert (Hin : forall v, E (exec_gas law (map (strengthen_n e) l) (upd t (ga_var g) v)) F = c).
        { intros v.
          assert (Hfr : frame V t (upd t (ga_var g) v)).
          { intros y Hy. apply upd_other. intros ->. exact (Hy HyV). }
          apply (IH Hd' Hm' HV' _ (Hcl _ _ Ht Hfr)). intros t' Ht' Hfr'. apply HF; [exact Ht'|].
          intros y Hy. rewrite (Hfr' y Hy). apply Hfr. exact Hy. }
        destruct (holds (ga_cond g) t).
        * rewrite (E_ext _ _ (fun _ => c)) by exact Hin. apply (Hm g (or_introl eq_refl) Ea).
        * apply Hin.
      + rewrite holds_strengthen, (He t Ht), andb_false_r. cbn [strengthen ga_var ga_default].
        assert (Hg : ga_default g = ga_var g) by (apply Hd; left; reflexivity).
        set (t1 := upd t (ga_var g) (t (ga_default g))).
        assert (H1 : forall x, t1 x = t x).
        { intros x. unfold t1, upd. destruct (var_eqb x (ga_var g)) eqn:Ex; [|reflexivity].
          apply var_eqb_eq in Ex. subst x. rewrite Hg. reflexivity. }
        apply (IH Hd' Hm' HV' t1 (Hcl t t1 Ht (fun y _ => H1 y))).
        intros t' Ht' Hfr'. apply HF; [exact Ht'|]. intros y Hy. rewrite (Hfr' y Hy). apply H1.
  Qed.

  Lemma auxv_app l1 l2 : auxv (l1 ++ l2) = auxv l1 ++ auxv l2.
  Proof. unfold auxv. rewrite gvars_app. apply filter_app. Qed.
  Lemma auxv_strengthen_n e l : auxv (map (strengthen_n e) l) = auxv l.
  Proof. unfold auxv. rewrite gvars_strengthen_n. reflexivity. Qed.

  Lemma gvars_emit_n mx CS Rf : forall brs NP R k,
    gvars (emit_n mx CS Rf NP brs R k) = flat_map (fun cl : fbranch => gvars (snd cl)) brs.
  Proof.
    induction brs as [|cl brs IH]; intros NP R k; cbn [emit_n flat_map]; [reflexivity|].
    destruct (extend CS (snd cl) R k) as [R' k']. rewrite gvars_app, gvars_strengthen_n, IH. reflexivity.
  Qed.

  Section OneIfN.
    Variables (mx : bool) (CS : list var) (Rf : rmap) (kf : nat) (s : state) (Lv0 : list var).

    Definition br_okN (cl : fbranch) : Prop :=
      incl (cvars (fst cl)) CS /\ defaults_ok (snd cl) /\ aux_mass (snd cl)
      /\ (forall y x, In y (gvars (snd cl)) -> In x CS -> rn Rf x <> y).

    Lemma good_frame M l t t' :
      (forall y x, In y (gvars l) -> In x CS -> rn Rf x <> y) ->
      (forall y, In y (gvars l) -> In y M) ->
      Good CS Rf s M t -> frame (gvars l) t t' -> Good CS Rf s M t'.
    Proof.
      intros Hdisj HM Hg Hfr x Hx. destruct (Hg x Hx) as [H1 H2]. split.
      - rewrite Hfr; [exact H1|]. intros Hin. exact (Hdisj _ _ Hin Hx eq_refl).
      - intros Hn. rewrite Hfr; [apply H2; exact Hn|]. intros Hin. apply Hn, HM, Hin.
    Qed.

    Lemma frame_sub V V' t t' : (forall y, In y V -> In y V') -> frame V t t' -> frame V' t t'.
    Proof. intros Hs H y Hy. apply H. intros Hin. apply Hy, Hs, Hin. Qed.

    Lemma emit_n_noop : forall brs NP R k M t,
      final_R CS brs R k = (Rf, kf) ->
      (forall cl, In cl brs -> br_okN cl) ->
      incl (cvars NP) CS ->
      (forall x, In x CS -> In x M -> In x (map fst R)) ->
      (mx = false -> holds NP s = false) ->
      (mx = true -> forall cl, In cl brs -> holds (fst cl) s = false) ->
      Good CS Rf s M t ->
      forall F c, (forall t', frame (auxv (emit_n mx CS Rf NP brs R k)) t t' -> F t' = c) ->
        E (exec_gas law (emit_n mx CS Rf NP brs R k) t) F = c.
    Proof.
      induction brs as [|cl brs IH]; intros NP R k M t Hfin Hbrs HNP Hm Hnp Hmx Hg F c HF.
      - cbn [emit_n exec_gas]. rewrite E_ret. apply HF. intros y _; reflexivity.
      - cbn [final_R emit_n] in *. destruct (extend CS (snd cl) R k) as [R' k'] eqn:Ee.
        destruct (Hbrs cl (or_introl eq_refl)) as [Hc [Hd [Hma Hdisj]]].
        destruct (extend_prefix _ _ _ _ _ _ Ee) as [X1 HX1].
        set (M' := M ++ gvars (snd cl)).
        assert (Hm' : forall x, In x CS -> In x M' -> In x (map fst R')).
        { intros x Hx HM. apply in_app_or in HM. destruct HM as [HM|HM].
          - rewrite HX1, map_app. apply in_or_app. left. apply Hm; assumption.
          - eapply extend_complete; eauto. }
        set (cur := if mx then fst cl else CAnd NP (fst cl)) in *.
        assert (Hcur : incl (cvars cur) CS).
        { unfold cur. destruct mx; [exact Hc|]. cbn [cvars]. apply incl_app; assumption. }
        assert (Hfalse : holds cur s = false).
        { unfold cur. destruct mx eqn:Emx.
          - apply Hmx; [reflexivity | left; reflexivity].
          - cbn [holds]. rewrite Hnp by reflexivity. reflexivity. }
        rewrite E_exec_gas_app.
        apply (strengthen_skip (Good CS Rf s M') (auxv (snd cl))).
        + intros t0 H0. rewrite (extra_truth mx CS Rf s M' t0 R' cur H0 (final_prefix _ _ _ _ _ _ Hfin) Hm' Hcur). exact Hfalse.
        + intros t0 t0' H0 Hfr. apply (good_frame M' (snd cl) t0 t0' Hdisj); [|exact H0|].
          * intros y Hy. apply in_or_app. right; exact Hy.
          * eapply frame_sub; [|exact Hfr]. intros y Hy. apply auxv_In in Hy. apply Hy.
        + exact Hd.
        + exact Hma.
        + intros y Hy; exact Hy.
        + eapply good_mono; [|exact Hg]. intros x Hx. apply in_or_app. left; exact Hx.
        + intros t1 Hg1 Hfr1.
          apply (IH (CAnd NP (CNot (fst cl))) R' k' M' t1 Hfin).
          * intros cl' Hin. apply Hbrs. right; exact Hin.
          * cbn [cvars]. apply incl_app; assumption.
          * exact Hm'.
          * intros Emx. cbn [holds]. rewrite Hnp by exact Emx. reflexivity.
          * intros Emx cl' Hin. apply Hmx; [exact Emx | right; exact Hin].
          * exact Hg1.
          * intros t' Hfr'. apply HF. rewrite auxv_app, auxv_strengthen_n.
            intros y Hy. rewrite Hfr', Hfr1; [reflexivity| |]; intros Hin; apply Hy; apply in_or_app; auto.
    Qed.

    Definition item_okN (it : item) : Prop :=
      br_okN (fst it) /\ simL Lv0 Lv0 (snd (fst it)) (snd it)
      /\ (forall x, In x Lv0 -> ~ In x (gvars (snd (fst it)))).

    Lemma emit_n_sim : forall items NP R k M t,
      final_R CS (map fst items) R k = (Rf, kf) ->
      (forall it, In it items -> item_okN it) ->
      incl (cvars NP) CS ->
      (forall x, In x CS -> In x M -> In x (map fst R)) ->
      (mx = false -> holds NP s = true) ->
      (mx = true -> excl s (map (fun it : item => fst (fst it)) items)) ->
      agreeL Lv0 s t -> Good CS Rf s M t ->
      forall g h,
        (forall t' s', agreeL Lv0 s' t' -> frame (gvars (emit_n mx CS Rf NP (map fst items) R k)) t t' -> g t' = h s') ->
        E (exec_gas law (emit_n mx CS Rf NP (map fst items) R k) t) g = E (sem_items items s) h.
    Proof.
      induction items as [|it items IH]; intros NP R k M t Hfin Hok HNP Hm Hnp Hex Hag Hg g h Hgh.
      - cbn [map emit_n exec_gas]. unfold sem_items; cbn [first_match]. rewrite !E_ret.
        apply Hgh; [exact Hag | intros y _; reflexivity].
      - destruct it as [[c l] D]. cbn [map fst snd final_R emit_n] in *.
        destruct (extend CS l R k) as [R' k'] eqn:Ee.
        destruct (Hok _ (or_introl eq_refl)) as [[Hc [Hd [Hma Hdisj]]] [Hsim HLv]]. cbn [fst snd] in *.
        destruct (extend_prefix _ _ _ _ _ _ Ee) as [X1 HX1].
        set (M' := M ++ gvars l).
        assert (Hm' : forall x, In x CS -> In x M' -> In x (map fst R')).
        { intros x Hx HM. apply in_app_or in HM. destruct HM as [HM|HM].
          - rewrite HX1, map_app. apply in_or_app. left. apply Hm; assumption.
          - eapply extend_complete; eauto. }
        set (cur := if mx then c else CAnd NP c) in *.
        set (extra := rename_c R' (if mx then R' else Rf) (csimp cur)) in *.
        set (rest := emit_n mx CS Rf (CAnd NP (CNot c)) (map fst items) R' k') in *.
        assert (Hcur : incl (cvars cur) CS).
        { unfold cur. destruct mx; [exact Hc|]. cbn [cvars]. apply incl_app; assumption. }
        assert (HNP' : incl (cvars (CAnd NP (CNot c))) CS) by (cbn [cvars]; apply incl_app; assumption).
        pose proof (final_prefix _ _ _ _ _ _ Hfin) as Hpre.
        assert (Hok' : forall cl, In cl (map fst items) -> br_okN cl).
        { intros cl Hin. apply in_map_iff in Hin. destruct Hin as [it' [<- Hin']]. apply (Hok it' (or_intror Hin')). }
        assert (HgM' : Good CS Rf s M' t).
        { eapply good_mono; [|exact Hg]. intros x Hx. apply in_or_app. left; exact Hx. }
        assert (HinM' : forall y, In y (gvars l) -> In y M') by (intros y Hy; apply in_or_app; right; exact Hy).
        assert (Hrest_gv : forall y, In y (gvars rest) -> exists it', In it' items /\ In y (gvars (snd (fst it')))).
        { intros y Hy. unfold rest in Hy. rewrite gvars_emit_n in Hy. apply in_flat_map in Hy.
          destruct Hy as [cl [Hcl Hy]]. apply in_map_iff in Hcl. destruct Hcl as [it' [<- Hin']]. exists it'. split; assumption. }
        rewrite E_exec_gas_app.
        destruct (holds c s) eqn:Ec.
        + (* the taken block *)
          assert (Hcurt : holds cur s = true).
          { unfold cur. destruct mx; [exact Ec|]. cbn [holds]. rewrite Hnp, Ec by reflexivity. reflexivity. }
          rewrite (strengthen_n_true (Good CS Rf s M') extra l); [| | |exact HgM'].
          2:{ intros t0 H0. unfold extra. rewrite (extra_truth mx CS Rf s M' t0 R' cur H0 Hpre Hm' Hcur). exact Hcurt. }
          2:{ intros t0 y v H0 Hy. apply (good_frame M' l t0 _ Hdisj HinM' H0).
              intros y' Hy'. apply upd_other. intros ->. exact (Hy' Hy). }
          unfold sem_items; cbn [first_match fst snd]. rewrite Ec.
          apply Hsim; [exact Hag|]. intros t2 s2 Hag2 Hfr2.
          apply (emit_n_noop (map fst items) (CAnd NP (CNot c)) R' k' M' t2 Hfin Hok' HNP' Hm').
          * intros Emx. cbn [holds]. rewrite Ec. apply andb_false_r.
          * intros Emx cl Hin. specialize (Hex Emx). cbn [map excl fst] in Hex. destruct Hex as [Hex _].
            apply Hex; [exact Ec|]. apply in_map_iff in Hin. destruct Hin as [it' [<- Hin']].
            apply in_map_iff. exists it'. split; [reflexivity | exact Hin'].
          * apply (good_frame M' l t t2 Hdisj HinM' HgM' Hfr2).
          * fold rest. intros t3 Hfr3. apply Hgh.
            -- intros x Hx. rewrite Hfr3; [apply Hag2; exact Hx|].
               intros Hin. apply auxv_In in Hin. destruct Hin as [Hin Hax].
               destruct (Hrest_gv x Hin) as [it' [Hit' Hy']].
               destruct Hx as [Hx|Hx]; [congruence|].
               destruct (Hok it' (or_intror Hit')) as [_ [_ HLv']]. exact (HLv' x Hx Hy').
            -- intros y Hy. rewrite gvars_app, gvars_strengthen_n in Hy.
               rewrite Hfr3, Hfr2; [reflexivity| |]; intros Hin; apply Hy; apply in_or_app; [left; exact Hin|].
               right. apply auxv_In in Hin. apply Hin.
        + (* a block before the taken one *)
          assert (Hcurf : holds cur s = false).
          { unfold cur. destruct mx; [exact Ec|]. cbn [holds]. rewrite Ec. apply andb_false_r. }
          unfold sem_items; cbn [first_match fst snd]. rewrite Ec. fold (sem_items items s).
          apply (strengthen_skip (Good CS Rf s M') (auxv l)).
          * intros t0 H0. unfold extra. rewrite (extra_truth mx CS Rf s M' t0 R' cur H0 Hpre Hm' Hcur). exact Hcurf.
          * intros t0 t0' H0 Hfr. apply (good_frame M' l t0 t0' Hdisj HinM' H0).
            eapply frame_sub; [|exact Hfr]. intros y Hy. apply auxv_In in Hy. apply Hy.
          * exact Hd.
          * exact Hma.
          * intros y Hy; exact Hy.
          * exact HgM'.
          * intros t1 Hg1 Hfr1.
            apply (IH (CAnd NP (CNot c)) R' k' M' t1 Hfin).
            -- intros it' Hin. apply Hok. right; exact Hin.
            -- exact HNP'.
            -- exact Hm'.
            -- intros Emx. cbn [holds]. rewrite Hnp, Ec by exact Emx. reflexivity.
            -- intros Emx. specialize (Hex Emx). cbn [map excl] in Hex. apply Hex.
            -- intros x Hx. rewrite Hfr1; [apply Hag; exact Hx|].
               intros Hin. apply auxv_In in Hin. destruct Hin as [Hin Hax].
               destruct Hx as [Hx|Hx]; [congruence | exact (HLv x Hx Hin)].
            -- exact Hg1.
            -- intros t' s' Hag' Hfr'. apply Hgh; [exact Hag'|].
               intros y Hy. rewrite gvars_app, gvars_strengthen_n in Hy.
               rewrite Hfr', Hfr1; [reflexivity| |]; intros Hin; apply Hy; apply in_or_app; [left|right; exact Hin].
               apply auxv_In in Hin. apply Hin.
    Qed.
  End OneIfN.
End AuxProof.
