(* C02, IfTransformer with UNCONDITIONAL auxiliary assignments (proposed_fixes/
   c18_auxiliary_assignments_unconditional.diff): proof that the model [PassIf.if_flatten]
   preserves the semantics.  New with respect to PassIfProof.v (old rule):
   - an auxiliary assignment inside a branch that is not taken is executed: it writes only an
     auxiliary variable ([strengthen_skip]); a probabilistic right-hand side must have total
     mass 1 ([rhs_mass1], and mass 1 of the continuous laws);
   - the source run does not execute it, so afterwards the two runs differ on that auxiliary:
     the simulation relation carries the list Lv of auxiliaries known to be equal, and the
     hypothesis [live_ok] (every auxiliary is assigned before it is read, on every path and in
     every iteration) makes the difference unobservable. *)
From Coq Require Import List String Ascii QArith Qcanon ZArith Bool Arith Lia.
From Polar Require Import Qcx Dist DistBase Syntax Sem Types Poly PassGuard PassIf PassIfProof.
Import ListNotations.
Local Open Scope Qc_scope.

(* ---------- total mass of right-hand sides ---------- *)
Fixpoint esum (l : list expr) : expr :=
  match l with [] => EConst 0 | e :: l' => EAdd e (esum l') end.
Definition sums_to_one (l : list expr) : bool := pzero (psub (of_expr (esum l)) (pconst 1)).
Definition rhs_mass1 (r : rhs) : bool :=
  match r with
  | RChoice alts => sums_to_one (map fst alts)
  | RDraw (DBern _) => true
  | RDraw (DCat ps) => sums_to_one ps
  | RDraw (DUnif a b) => Z.leb a b
  | RDraw (DCont _ _) => true
  end.
Fixpoint mass_stmt (st : stmt) : bool :=
  match st with
  | SAssign x r => negb (is_aux x) || rhs_mass1 r
  | SSimult _ => true
  | SIf bs els => mass_branches bs && mass_block els
  end
with mass_block (b : block) : bool :=
  match b with BNil => true | BCons st b' => mass_stmt st && mass_block b' end
with mass_branches (bs : branches) : bool :=
  match bs with BrNil => true | BrCons _ b bs' => mass_block b && mass_branches bs' end.

(* the boolean hypotheses of the theorem *)
Definition aux_ok (b : block) : bool := wf_block b && mass_block b && live_ok b.
Definition aux_ok_prog (p : prog) : bool := aux_ok (p_init p) && aux_ok (p_body p).

Lemma sums_to_one_sound l : sums_to_one l = true -> forall s, eval (esum l) s = 1.
Proof.
  unfold sums_to_one. intros H s. pose proof (pzero_sound _ H s) as H0.
  rewrite eval_psub, eval_of_expr, eval_pconst in H0.
  assert (H1 : eval (esum l) s = eval (esum l) s - 1 + 1) by ring. rewrite H1, H0. ring.
Qed.

Lemma is_aux_gen x : is_aux x = false -> is_gen x = false.
Proof. unfold is_aux. intros H. apply orb_false_iff in H. destruct H as [H _]. apply orb_false_iff in H. apply H. Qed.
Lemma is_aux_old k : is_aux (old_name k) = true.
Proof. unfold is_aux. rewrite is_gen_old. reflexivity. Qed.

Section Aux.
  Variable law : string -> list Qc -> dist Qc.
  Hypothesis law_mass : forall f args, mass (law f args) = 1.

  Lemma E_choice_const alts s c :
    E (map (fun pe : expr * expr => (eval (fst pe) s, eval (snd pe) s)) alts) (fun _ => c) = eval (esum (map fst alts)) s * c.
  Proof. induction alts as [|[p e] alts IH]; cbn [map E esum eval fst snd]; [ring | rewrite IH; ring]. Qed.
  Lemma E_cat_const ps s c : forall i,
    E (cat_law (map (fun e => eval e s) ps) i) (fun _ => c) = eval (esum ps) s * c.
  Proof. induction ps as [|p ps IH]; intros i; cbn [map cat_law E esum eval]; [ring | rewrite IH; ring]. Qed.
  Lemma E_unif_const w n c : forall a, E (unif_law w a n) (fun _ => c) = qnat n * w * c.
  Proof. induction n as [|n IH]; intros a; cbn [unif_law E]; [cbn [qnat]; ring | rewrite IH, qnat_S; ring]. Qed.

  Lemma mass_sample r : rhs_mass1 r = true -> forall s c, E (sample law r s) (fun _ => c) = c.
  Proof.
    destruct r as [alts|d]; cbn [rhs_mass1 sample]; intros H s c.
    - rewrite E_choice_const, (sums_to_one_sound _ H). ring.
    - destruct d as [p|ps|a b|f args]; cbn [draw_law].
      + cbn [E]. ring.
      + rewrite E_cat_const, (sums_to_one_sound _ H). ring.
      + apply Z.leb_le in H. rewrite E_unif_const.
        destruct (Z.to_nat (b - a + 1)) as [|m] eqn:En; [lia|].
        rewrite (Qcmult_inv_r (qnat (S m))) by apply qnat_S_neq0. ring.
      + rewrite E_const, law_mass. ring.
  Qed.
End Aux.

Section AuxProof.
  Variable law : string -> list Qc -> dist Qc.
  Hypothesis law_mass : forall f args, mass (law f args) = 1.

  (* Lv: auxiliaries that hold the same value in both runs *)
  Definition agreeL (Lv : list var) (s t : state) : Prop :=
    forall x, (is_aux x = false \/ In x Lv) -> t x = s x.
  Definition simL (Lv Lv' : list var) (l : list gassign) (D : state -> dist state) : Prop :=
    forall s t, agreeL Lv s t -> forall g h,
      (forall t' s', agreeL Lv' s' t' -> frame (gvars l) t t' -> g t' = h s') ->
      E (exec_gas law l t) g = E (D s) h.
  Definition auxv (l : list gassign) : list var := filter is_aux (gvars l).
  Definition aux_mass (l : list gassign) : Prop :=
    forall g, In g l -> is_aux (ga_var g) = true -> forall t c, E (sample law (ga_rhs g) t) (fun _ => c) = c.

  Lemma agreeL_sub Lv Lv' s t : (forall x, In x Lv' -> In x Lv) -> agreeL Lv s t -> agreeL Lv' s t.
  Proof. intros Hs H x [Hx|Hx]; apply H; [left; exact Hx | right; apply Hs; exact Hx]. Qed.

  Lemma gvars_strengthen_n e l : gvars (map (strengthen_n e) l) = gvars l.
  Proof.
    unfold gvars. rewrite map_map. apply map_ext. intros g. unfold strengthen_n.
    destruct (is_aux (ga_var g)); reflexivity.
  Qed.

  Lemma auxv_In l y : In y (auxv l) <-> In y (gvars l) /\ is_aux y = true.
  Proof. unfold auxv. apply filter_In. Qed.

  (* (c) the taken block *)
  Lemma strengthen_n_true (I : state -> Prop) e l :
    (forall t, I t -> holds e t = true) ->
    (forall t y v, I t -> In y (gvars l) -> I (upd t y v)) ->
    forall t F, I t -> E (exec_gas law (map (strengthen_n e) l) t) F = E (exec_gas law l t) F.
  Proof.
    intros He. induction l as [|g l IH]; intros Hupd t F Ht; [reflexivity|].
    assert (IH' : forall t', I t' -> E (exec_gas law (map (strengthen_n e) l) t') F = E (exec_gas law l t') F).
    { intros t' Ht'. apply IH; [|exact Ht']. intros t0 y v H0 Hy. apply Hupd; [exact H0 | right; exact Hy]. }
    assert (Hs : strengthen_n e g = if is_aux (ga_var g) then g else strengthen e g) by reflexivity.
    cbn [map]. rewrite Hs. destruct (is_aux (ga_var g)); rewrite !E_exec_gas_cons, !E_exec_ga.
    - destruct (holds (ga_cond g) t).
      + apply E_ext. intros v. apply IH'. apply Hupd; [exact Ht | left; reflexivity].
      + apply IH'. apply Hupd; [exact Ht | left; reflexivity].
    - rewrite holds_strengthen, (He t Ht), andb_true_r. cbn [strengthen ga_rhs ga_var ga_default].
      destruct (holds (ga_cond g) t).
      + apply E_ext. intros v. apply IH'. apply Hupd; [exact Ht | left; reflexivity].
      + apply IH'. apply Hupd; [exact Ht | left; reflexivity].
  Qed.

  (* (b),(d) a block that is not taken: guarded assignments are no-ops, auxiliary assignments
     run and change only auxiliary variables (V), with total mass 1 *)
  Lemma strengthen_skip (I : state -> Prop) (V : list var) e l :
    (forall t, I t -> holds e t = false) ->
    (forall t t', I t -> frame V t t' -> I t') ->
    defaults_ok l -> aux_mass l -> (forall y, In y (auxv l) -> In y V) ->
    forall t, I t -> forall F c, (forall t', I t' -> frame V t t' -> F t' = c) ->
      E (exec_gas law (map (strengthen_n e) l) t) F = c.
  Proof.
    intros He Hcl. induction l as [|g l IH]; intros Hd Hm HV t Ht F c HF.
    - cbn [map exec_gas]. rewrite E_ret. apply HF; [exact Ht | intros y _; reflexivity].
    - assert (Hd' : defaults_ok l) by (intros g' Hg'; apply Hd; right; exact Hg').
      assert (Hm' : aux_mass l) by (intros g' Hg'; apply Hm; right; exact Hg').
      assert (HV' : forall y, In y (auxv l) -> In y V).
      { intros y Hy. apply HV. apply auxv_In in Hy. apply auxv_In. cbn [gvars map]. split; [right; apply Hy | apply Hy]. }
      assert (Hs : strengthen_n e g = if is_aux (ga_var g) then g else strengthen e g) by reflexivity.
      cbn [map]. rewrite Hs. destruct (is_aux (ga_var g)) eqn:Ea; rewrite E_exec_gas_cons, E_exec_ga.
      + assert (HyV : In (ga_var g) V).
        { apply HV. apply auxv_In. split; [left; reflexivity | exact Ea]. }
        assert (Hin : forall v, E (exec_gas law (map (strengthen_n e) l) (upd t (ga_var g) v)) F = c).
        { intros v.
          assert (Hfr : frame V t (upd t (ga_var g) v)).
          { intros y Hy. apply upd_other. intros ->. exact (Hy HyV). }
          apply (IH Hd' Hm' HV' _ (Hcl _ _ Ht Hfr)). intros t' Ht' Hfr'. apply HF; [exact Ht'|].
          intros y Hy. rewrite (Hfr' y Hy). apply Hfr. exact Hy. }
        destruct (holds (ga_cond g) t).
        * rewrite (E_ext _ _ (fun _ => c)) by exact Hin. apply (Hm g (or_introl eq_refl) Ea).
        * apply Hin.
      + rewrite holds_strengthen, (He t Ht), andb_false_r. cbn [strengthen ga_var ga_default].
        assert (Hg : ga_default g = ga_var g) by (apply Hd; left; reflexivity).
        set (t1 := upd t (ga_var g) (t (ga_default g))).
        assert (H1 : forall x, t1 x = t x).
        { intros x. unfold t1, upd. destruct (var_eqb x (ga_var g)) eqn:Ex; [|reflexivity].
          apply var_eqb_eq in Ex. subst x. rewrite Hg. reflexivity. }
        apply (IH Hd' Hm' HV' t1 (Hcl t t1 Ht (fun y _ => H1 y))).
        intros t' Ht' Hfr'. apply HF; [exact Ht'|]. intros y Hy. rewrite (Hfr' y Hy). apply H1.
  Qed.

  Lemma auxv_app l1 l2 : auxv (l1 ++ l2) = auxv l1 ++ auxv l2.
  Proof. unfold auxv. rewrite gvars_app. apply filter_app. Qed.
  Lemma auxv_strengthen_n e l : auxv (map (strengthen_n e) l) = auxv l.
  Proof. unfold auxv. rewrite gvars_strengthen_n. reflexivity. Qed.

  Lemma gvars_emit_n mx CS Rf : forall brs NP R k,
    gvars (emit_n mx CS Rf NP brs R k) = flat_map (fun cl : fbranch => gvars (snd cl)) brs.
  Proof.
    induction brs as [|cl brs IH]; intros NP R k; cbn [emit_n flat_map]; [reflexivity|].
    destruct (extend CS (snd cl) R k) as [R' k']. rewrite gvars_app, gvars_strengthen_n, IH. reflexivity.
  Qed.

  Section OneIfN.
    Variables (mx : bool) (CS : list var) (Rf : rmap) (kf : nat) (s : state) (Lv0 : list var).

    Definition br_okN (cl : fbranch) : Prop :=
      incl (cvars (fst cl)) CS /\ defaults_ok (snd cl) /\ aux_mass (snd cl)
      /\ (forall y x, In y (gvars (snd cl)) -> In x CS -> rn Rf x <> y).

    Lemma good_frame M l t t' :
      (forall y x, In y (gvars l) -> In x CS -> rn Rf x <> y) ->
      (forall y, In y (gvars l) -> In y M) ->
      Good CS Rf s M t -> frame (gvars l) t t' -> Good CS Rf s M t'.
    Proof.
      intros Hdisj HM Hg Hfr x Hx. destruct (Hg x Hx) as [H1 H2]. split.
      - rewrite Hfr; [exact H1|]. intros Hin. exact (Hdisj _ _ Hin Hx eq_refl).
      - intros Hn. rewrite Hfr; [apply H2; exact Hn|]. intros Hin. apply Hn, HM, Hin.
    Qed.

    Lemma frame_sub V V' t t' : (forall y, In y V -> In y V') -> frame V t t' -> frame V' t t'.
    Proof. intros Hs H y Hy. apply H. intros Hin. apply Hy, Hs, Hin. Qed.

    Lemma emit_n_noop : forall brs NP R k M t,
      final_R CS brs R k = (Rf, kf) ->
      (forall cl, In cl brs -> br_okN cl) ->
      incl (cvars NP) CS ->
      (forall x, In x CS -> In x M -> In x (map fst R)) ->
      (mx = false -> holds NP s = false) ->
      (mx = true -> forall cl, In cl brs -> holds (fst cl) s = false) ->
      Good CS Rf s M t ->
      forall F c, (forall t', frame (auxv (emit_n mx CS Rf NP brs R k)) t t' -> F t' = c) ->
        E (exec_gas law (emit_n mx CS Rf NP brs R k) t) F = c.
    Proof.
      induction brs as [|cl brs IH]; intros NP R k M t Hfin Hbrs HNP Hm Hnp Hmx Hg F c HF.
      - cbn [emit_n exec_gas]. rewrite E_ret. apply HF. intros y _; reflexivity.
      - cbn [final_R emit_n] in *. destruct (extend CS (snd cl) R k) as [R' k'] eqn:Ee.
        destruct (Hbrs cl (or_introl eq_refl)) as [Hc [Hd [Hma Hdisj]]].
        destruct (extend_prefix _ _ _ _ _ _ Ee) as [X1 HX1].
        set (M' := M ++ gvars (snd cl)).
        assert (Hm' : forall x, In x CS -> In x M' -> In x (map fst R')).
        { intros x Hx HM. apply in_app_or in HM. destruct HM as [HM|HM].
          - rewrite HX1, map_app. apply in_or_app. left. apply Hm; assumption.
          - eapply extend_complete; eauto. }
        set (cur := if mx then fst cl else CAnd NP (fst cl)) in *.
        assert (Hcur : incl (cvars cur) CS).
        { unfold cur. destruct mx; [exact Hc|]. cbn [cvars]. apply incl_app; assumption. }
        assert (Hfalse : holds cur s = false).
        { unfold cur. destruct mx eqn:Emx.
          - apply Hmx; [reflexivity | left; reflexivity].
          - cbn [holds]. rewrite Hnp by reflexivity. reflexivity. }
        rewrite E_exec_gas_app.
        apply (strengthen_skip (Good CS Rf s M') (auxv (snd cl))).
        + intros t0 H0. rewrite (extra_truth mx CS Rf s M' t0 R' cur H0 (final_prefix _ _ _ _ _ _ Hfin) Hm' Hcur). exact Hfalse.
        + intros t0 t0' H0 Hfr. apply (good_frame M' (snd cl) t0 t0' Hdisj); [|exact H0|].
          * intros y Hy. apply in_or_app. right; exact Hy.
          * eapply frame_sub; [|exact Hfr]. intros y Hy. apply auxv_In in Hy. apply Hy.
        + exact Hd.
        + exact Hma.
        + intros y Hy; exact Hy.
        + eapply good_mono; [|exact Hg]. intros x Hx. apply in_or_app. left; exact Hx.
        + intros t1 Hg1 Hfr1.
          apply (IH (CAnd NP (CNot (fst cl))) R' k' M' t1 Hfin).
          * intros cl' Hin. apply Hbrs. right; exact Hin.
          * cbn [cvars]. apply incl_app; assumption.
          * exact Hm'.
          * intros Emx. cbn [holds]. rewrite Hnp by exact Emx. reflexivity.
          * intros Emx cl' Hin. apply Hmx; [exact Emx | right; exact Hin].
          * exact Hg1.
          * intros t' Hfr'. apply HF. rewrite auxv_app, auxv_strengthen_n.
            intros y Hy. rewrite Hfr', Hfr1; [reflexivity| |]; intros Hin; apply Hy; apply in_or_app; auto.
    Qed.

    Definition item_okN (it : item) : Prop :=
      br_okN (fst it) /\ simL Lv0 Lv0 (snd (fst it)) (snd it)
      /\ (forall x, In x Lv0 -> ~ In x (gvars (snd (fst it)))).

    Lemma emit_n_sim : forall items NP R k M t,
      final_R CS (map fst items) R k = (Rf, kf) ->
      (forall it, In it items -> item_okN it) ->
      incl (cvars NP) CS ->
      (forall x, In x CS -> In x M -> In x (map fst R)) ->
      (mx = false -> holds NP s = true) ->
      (mx = true -> excl s (map (fun it : item => fst (fst it)) items)) ->
      agreeL Lv0 s t -> Good CS Rf s M t ->
      forall g h,
        (forall t' s', agreeL Lv0 s' t' -> frame (gvars (emit_n mx CS Rf NP (map fst items) R k)) t t' -> g t' = h s') ->
        E (exec_gas law (emit_n mx CS Rf NP (map fst items) R k) t) g = E (sem_items items s) h.
    Proof.
      induction items as [|it items IH]; intros NP R k M t Hfin Hok HNP Hm Hnp Hex Hag Hg g h Hgh.
      - cbn [map emit_n exec_gas]. unfold sem_items; cbn [first_match]. rewrite !E_ret.
        apply Hgh; [exact Hag | intros y _; reflexivity].
      - destruct it as [[c l] D]. cbn [map fst snd final_R emit_n] in *.
        destruct (extend CS l R k) as [R' k'] eqn:Ee.
        destruct (Hok _ (or_introl eq_refl)) as [[Hc [Hd [Hma Hdisj]]] [Hsim HLv]]. cbn [fst snd] in *.
        destruct (extend_prefix _ _ _ _ _ _ Ee) as [X1 HX1].
        set (M' := M ++ gvars l).
        assert (Hm' : forall x, In x CS -> In x M' -> In x (map fst R')).
        { intros x Hx HM. apply in_app_or in HM. destruct HM as [HM|HM].
          - rewrite HX1, map_app. apply in_or_app. left. apply Hm; assumption.
          - eapply extend_complete; eauto. }
        set (cur := if mx then c else CAnd NP c) in *.
        set (extra := rename_c R' (if mx then R' else Rf) (csimp cur)) in *.
        set (rest := emit_n mx CS Rf (CAnd NP (CNot c)) (map fst items) R' k') in *.
        assert (Hcur : incl (cvars cur) CS).
        { unfold cur. destruct mx; [exact Hc|]. cbn [cvars]. apply incl_app; assumption. }
        assert (HNP' : incl (cvars (CAnd NP (CNot c))) CS) by (cbn [cvars]; apply incl_app; assumption).
        pose proof (final_prefix _ _ _ _ _ _ Hfin) as Hpre.
        assert (Hok' : forall cl, In cl (map fst items) -> br_okN cl).
        { intros cl Hin. apply in_map_iff in Hin. destruct Hin as [it' [<- Hin']]. apply (Hok it' (or_intror Hin')). }
        assert (HgM' : Good CS Rf s M' t).
        { eapply good_mono; [|exact Hg]. intros x Hx. apply in_or_app. left; exact Hx. }
        assert (HinM' : forall y, In y (gvars l) -> In y M') by (intros y Hy; apply in_or_app; right; exact Hy).
        assert (Hrest_gv : forall y, In y (gvars rest) -> exists it', In it' items /\ In y (gvars (snd (fst it')))).
        { intros y Hy. unfold rest in Hy. rewrite gvars_emit_n in Hy. apply in_flat_map in Hy.
          destruct Hy as [cl [Hcl Hy]]. apply in_map_iff in Hcl. destruct Hcl as [it' [<- Hin']]. exists it'. split; assumption. }
        rewrite E_exec_gas_app.
        destruct (holds c s) eqn:Ec.
        + (* the taken block *)
          assert (Hcurt : holds cur s = true).
          { unfold cur. destruct mx; [exact Ec|]. cbn [holds]. rewrite Hnp, Ec by reflexivity. reflexivity. }
          rewrite (strengthen_n_true (Good CS Rf s M') extra l); [| | |exact HgM'].
          2:{ intros t0 H0. unfold extra. rewrite (extra_truth mx CS Rf s M' t0 R' cur H0 Hpre Hm' Hcur). exact Hcurt. }
          2:{ intros t0 y v H0 Hy. apply (good_frame M' l t0 _ Hdisj HinM' H0).
              intros y' Hy'. apply upd_other. intros ->. exact (Hy' Hy). }
          unfold sem_items; cbn [first_match fst snd]. rewrite Ec.
          apply Hsim; [exact Hag|]. intros t2 s2 Hag2 Hfr2.
          apply (emit_n_noop (map fst items) (CAnd NP (CNot c)) R' k' M' t2 Hfin Hok' HNP' Hm').
          * intros Emx. cbn [holds]. rewrite Ec. apply andb_false_r.
          * intros Emx cl Hin. specialize (Hex Emx). cbn [map excl fst] in Hex. destruct Hex as [Hex _].
            apply Hex; [exact Ec|]. apply in_map_iff in Hin. destruct Hin as [it' [<- Hin']].
            apply in_map_iff. exists it'. split; [reflexivity | exact Hin'].
          * apply (good_frame M' l t t2 Hdisj HinM' HgM' Hfr2).
          * fold rest. intros t3 Hfr3. apply Hgh.
            -- intros x Hx. rewrite Hfr3; [apply Hag2; exact Hx|].
               intros Hin. apply auxv_In in Hin. destruct Hin as [Hin Hax].
               destruct (Hrest_gv x Hin) as [it' [Hit' Hy']].
               destruct Hx as [Hx|Hx]; [congruence|].
               destruct (Hok it' (or_intror Hit')) as [_ [_ HLv']]. exact (HLv' x Hx Hy').
            -- intros y Hy. rewrite gvars_app, gvars_strengthen_n in Hy.
               rewrite Hfr3, Hfr2; [reflexivity| |]; intros Hin; apply Hy; apply in_or_app; [left; exact Hin|].
               right. apply auxv_In in Hin. apply Hin.
        + (* a block before the taken one *)
          assert (Hcurf : holds cur s = false).
          { unfold cur. destruct mx; [exact Ec|]. cbn [holds]. rewrite Ec. apply andb_false_r. }
          unfold sem_items; cbn [first_match fst snd]. rewrite Ec. fold (sem_items items s).
          apply (strengthen_skip (Good CS Rf s M') (auxv l)).
          * intros t0 H0. unfold extra. rewrite (extra_truth mx CS Rf s M' t0 R' cur H0 Hpre Hm' Hcur). exact Hcurf.
          * intros t0 t0' H0 Hfr. apply (good_frame M' l t0 t0' Hdisj HinM' H0).
            eapply frame_sub; [|exact Hfr]. intros y Hy. apply auxv_In in Hy. apply Hy.
          * exact Hd.
          * exact Hma.
          * intros y Hy; exact Hy.
          * exact HgM'.
          * intros t1 Hg1 Hfr1.
            apply (IH (CAnd NP (CNot c)) R' k' M' t1 Hfin).
            -- intros it' Hin. apply Hok. right; exact Hin.
            -- exact HNP'.
            -- exact Hm'.
            -- intros Emx. cbn [holds]. rewrite Hnp, Ec by exact Emx. reflexivity.
            -- intros Emx. specialize (Hex Emx). cbn [map excl] in Hex. apply Hex.
            -- intros x Hx. rewrite Hfr1; [apply Hag; exact Hx|].
               intros Hin. apply auxv_In in Hin. destruct Hin as [Hin Hax].
               destruct Hx as [Hx|Hx]; [congruence | exact (HLv x Hx Hin)].
            -- exact Hg1.
            -- intros t' s' Hag' Hfr'. apply Hgh; [exact Hag'|].
               intros y Hy. rewrite gvars_app, gvars_strengthen_n in Hy.
               rewrite Hfr', Hfr1; [reflexivity| |]; intros Hin; apply Hy; apply in_or_app; [left|right; exact Hin].
               apply auxv_In in Hin. apply Hin.
    Qed.
  End OneIfN.

  (* ---------- one if-statement ---------- *)
  Definition names_okA (A : list var) (k : nat) (l : list gassign) : Prop :=
    forall y, In y (gvars l) -> In y A \/ exists j, (j < k)%nat /\ y = old_name j.
  Lemma names_okA_mono A A' k k' l : (forall y, In y A -> In y A') -> (k <= k')%nat -> names_okA A k l -> names_okA A' k' l.
  Proof.
    intros HA Hk H y Hy. destruct (H y Hy) as [H1|[j [Hj H1]]]; [left; apply HA; exact H1 | right; exists j; split; [lia | exact H1]].
  Qed.

  Lemma emit_n_defaults mx CS Rf : forall brs NP R k,
    (forall cl, In cl brs -> defaults_ok (snd cl)) -> defaults_ok (emit_n mx CS Rf NP brs R k).
  Proof.
    induction brs as [|cl brs IH]; intros NP R k H g Hg; cbn [emit_n] in Hg; [destruct Hg|].
    destruct (extend CS (snd cl) R k) as [R' k']. apply in_app_or in Hg. destruct Hg as [Hg|Hg].
    - apply in_map_iff in Hg. destruct Hg as [g0 [<- Hg0]]. unfold strengthen_n.
      destruct (is_aux (ga_var g0)); [|cbn [strengthen ga_default ga_var]]; apply (H cl (or_introl eq_refl)); exact Hg0.
    - eapply IH; [|exact Hg]. intros cl' Hin. apply H. right; exact Hin.
  Qed.
  Lemma emit_n_aux_mass mx CS Rf : forall brs NP R k,
    (forall cl, In cl brs -> aux_mass (snd cl)) -> aux_mass (emit_n mx CS Rf NP brs R k).
  Proof.
    induction brs as [|cl brs IH]; intros NP R k H g Hg; cbn [emit_n] in Hg; [destruct Hg|].
    destruct (extend CS (snd cl) R k) as [R' k']. apply in_app_or in Hg. destruct Hg as [Hg|Hg].
    - apply in_map_iff in Hg. destruct Hg as [g0 [<- Hg0]]. unfold strengthen_n.
      destruct (is_aux (ga_var g0)) eqn:Ea.
      + apply (H cl (or_introl eq_refl)). exact Hg0.
      + cbn [strengthen ga_var ga_rhs]. intros Hx. congruence.
    - eapply IH; [|exact Hg]. intros cl' Hin. apply H. right; exact Hin.
  Qed.

  Lemma flatten_if_n_sim mx (items : list item) k out kf (Lv Lv0 A : list var) :
    flatten_if_n mx (map fst items) k = (out, kf) ->
    (forall x, In x Lv0 -> In x Lv) ->
    (forall x, In x Lv -> is_gen x = false) ->
    (forall y, In y A -> is_gen y = false /\ ~ In y Lv0) ->
    (forall it, In it items -> wf_vars (cvars (fst (fst it))) = true
        /\ (forall x, In x (cvars (fst (fst it))) -> is_aux x = false \/ In x Lv)
        /\ defaults_ok (snd (fst it)) /\ aux_mass (snd (fst it))
        /\ simL Lv0 Lv0 (snd (fst it)) (snd it) /\ names_okA A k (snd (fst it))) ->
    (mx = true -> forall s, excl s (map (fun it : item => fst (fst it)) items)) ->
    (k <= kf)%nat /\ defaults_ok out /\ aux_mass out /\ names_okA A kf out /\ simL Lv Lv0 out (sem_items items).
  Proof.
    unfold flatten_if_n. set (brs := map fst items). set (CS := flat_map (fun cl : fbranch => cvars (fst cl)) brs).
    destruct (final_R CS brs [] k) as [Rf kf'] eqn:Efin. intros Heq HLsub HLgen HA Hit Hmx.
    change (flat_map (fun cl : cond * list gassign => cvars (fst cl)) brs) with CS in Heq. rewrite Efin in Heq.
    injection Heq as Ho Hkf. subst out kf'.
    assert (Hinv : Rinv CS k Rf kf).
    { eapply final_inv; [|exact Efin]. unfold Rinv. cbn. split; [reflexivity|]. split; [lia | intros x []]. }
    destruct Hinv as [Ht [Hk Hkeys]].
    assert (Hcs : forall x, In x CS -> is_gen x = false).
    { intros x Hx. unfold CS in Hx. apply in_flat_map in Hx. destruct Hx as [cl [Hcl Hx]].
      unfold brs in Hcl. apply in_map_iff in Hcl. destruct Hcl as [it [<- Hin]].
      destruct (Hit it Hin) as [Hw _]. eapply wf_vars_In; eauto. }
    assert (Hcsr : forall x, In x CS -> is_aux x = false \/ In x Lv).
    { intros x Hx. unfold CS in Hx. apply in_flat_map in Hx. destruct Hx as [cl [Hcl Hx]].
      unfold brs in Hcl. apply in_map_iff in Hcl. destruct Hcl as [it [<- Hin]].
      destruct (Hit it Hin) as [_ [Hr _]]. apply Hr. exact Hx. }
    assert (Htg : forall o, In o (map snd Rf) -> exists j, (k <= j < kf)%nat /\ o = old_name j).
    { intros o Ho. rewrite Ht in Ho. apply in_map_iff in Ho. destruct Ho as [j [<- Hj]]. apply in_seq in Hj.
      exists j. split; [lia | reflexivity]. }
    assert (Hnd : NoDup (map snd Rf)).
    { rewrite Ht. apply FinFun.Injective_map_NoDup; [intros a b; apply old_name_inj | apply seq_NoDup]. }
    assert (Hng : forall x, is_gen x = false -> ~ In x (map snd Rf)).
    { intros x Hx Hin. destruct (Htg x Hin) as [j [_ ->]]. rewrite is_gen_old in Hx. discriminate. }
    assert (Hcin : forall it, In it items -> incl (cvars (fst (fst it))) CS).
    { intros it Hin x Hx. unfold CS. apply in_flat_map. exists (fst it). split; [apply in_map; exact Hin | exact Hx]. }
    assert (HLv0gen : forall x, In x Lv0 -> is_gen x = false) by (intros x Hx; apply HLgen, HLsub, Hx).
    assert (Hgv : forall it y, In it items -> In y (gvars (snd (fst it))) ->
              (is_gen y = false /\ ~ In y Lv0) \/ exists j, (j < k)%nat /\ y = old_name j).
    { intros it y Hin Hy. destruct (Hit it Hin) as [_ [_ [_ [_ [_ Hn]]]]]. destruct (Hn y Hy) as [H1|H1]; [left; apply HA; exact H1 | right; exact H1]. }
    split; [lia|]. split; [|split; [|split]].
    - intros g Hg. apply in_app_or in Hg. destruct Hg as [Hg|Hg].
      + apply in_map_iff in Hg. destruct Hg as [xo [<- _]]. reflexivity.
      + eapply emit_n_defaults; [|exact Hg]. intros cl Hcl. apply in_map_iff in Hcl. destruct Hcl as [it [<- Hin]].
        apply (Hit it Hin).
    - intros g Hg. apply in_app_or in Hg. destruct Hg as [Hg|Hg].
      + apply in_map_iff in Hg. destruct Hg as [xo [<- _]]. intros _ t c. cbn [copy_ga ga_rhs].
        apply (E_sample_det law (fst xo) t (fun _ => c)).
      + eapply emit_n_aux_mass; [|exact Hg]. intros cl Hcl. apply in_map_iff in Hcl. destruct Hcl as [it [<- Hin]].
        apply (Hit it Hin).
    - intros y Hy. rewrite gvars_app, gvars_emit_n in Hy. apply in_app_or in Hy. destruct Hy as [Hy|Hy].
      + unfold gvars in Hy. rewrite map_map in Hy. cbn [copy_ga ga_var] in Hy.
        destruct (Htg y Hy) as [j [Hj ->]]. right. exists j. split; [lia | reflexivity].
      + apply in_flat_map in Hy. destruct Hy as [cl [Hcl Hy]]. apply in_map_iff in Hcl. destruct Hcl as [it [<- Hin]].
        destruct (Hit it Hin) as [_ [_ [_ [_ [_ Hn]]]]]. assert (Hkk : (k <= kf)%nat) by lia.
        exact (names_okA_mono A A k kf _ (fun y H => H) Hkk Hn y Hy).
    - intros s t Hag g h Hgh.
      destruct (copies_exec law Rf Hnd) with (t := t) as [t1 [HE1 [Hcp Hfr]]].
      { intros x Hx. apply Hng. apply Hcs. apply Hkeys. exact Hx. }
      assert (Hsx : forall x, In x CS -> t x = s x) by (intros x Hx; apply Hag; apply Hcsr; exact Hx).
      rewrite E_exec_gas_app, HE1.
      apply (emit_n_sim mx CS Rf kf s Lv0 items CTrue [] k [] t1 Efin).
      + intros it Hin. destruct (Hit it Hin) as [Hw [Hr [Hd [Hma [Hs Hn]]]]].
        assert (HLvd : forall x, In x Lv0 -> ~ In x (gvars (snd (fst it)))).
        { intros x Hx Hy. destruct (Hgv it x Hin Hy) as [[_ H1]|[j [_ ->]]]; [exact (H1 Hx)|].
          apply HLv0gen in Hx. rewrite is_gen_old in Hx. discriminate. }
        split; [|split; [exact Hs | exact HLvd]].
        split; [apply Hcin; exact Hin|]. split; [exact Hd|]. split; [exact Hma|].
        intros y x Hy Hx Heq. unfold rn in Heq. destruct (rlookup Rf x) as [o|] eqn:El.
        * subst o. apply rlookup_In in El. apply (in_map snd) in El. cbn [snd] in El.
          destruct (Htg y El) as [j [Hj Hyj]]. destruct (Hgv it y Hin Hy) as [[Hg _]|[j' [Hj' Hyj']]].
          -- rewrite Hyj, is_gen_old in Hg. discriminate.
          -- rewrite Hyj in Hyj'. apply old_name_inj in Hyj'. lia.
        * subst y. apply rlookup_none in El. apply El.
          eapply (final_complete CS brs [] k Rf kf Efin (fst it)); [apply in_map; exact Hin | exact Hx | exact Hy].
      + intros x [].
      + intros x _ [].
      + reflexivity.
      + intros Emx. apply Hmx. exact Emx.
      + intros x Hx. rewrite Hfr.
        * apply Hag. destruct Hx as [Hx|Hx]; [left; exact Hx | right; apply HLsub; exact Hx].
        * apply Hng. destruct Hx as [Hx|Hx]; [apply is_aux_gen; exact Hx | apply HLv0gen; exact Hx].
      + intros x Hx. pose proof (Hcs x Hx) as Hgx.
        assert (Hx1 : t1 x = s x) by (rewrite Hfr by (apply Hng; exact Hgx); apply Hsx; exact Hx).
        split; [|intros _; exact Hx1]. unfold rn. destruct (rlookup Rf x) as [o|] eqn:El; [|exact Hx1].
        apply rlookup_In in El. rewrite (Hcp x o El). apply Hsx. exact Hx.
      + intros t' s' Hag' Hfr'. apply Hgh; [exact Hag'|]. intros y Hy.
        rewrite Hfr'.
        * apply Hfr. intros Hin. apply Hy. rewrite gvars_app. apply in_or_app. left.
          unfold gvars. rewrite map_map. exact Hin.
        * intros Hin. apply Hy. rewrite gvars_app. apply in_or_app. right. exact Hin.
  Qed.

  (* ---------- facts about the syntactic checks ---------- *)
  Lemma assigned_in_vars :
    (forall st, incl (assigned_stmt st) (stmt_vars st)) /\ (forall b, incl (assigned_block b) (block_vars b))
    /\ (forall bs, incl (assigned_branches bs) (branches_vars bs)).
  Proof.
    apply stmt_block_branches_ind.
    - intros x r y [<-|[]]. left; reflexivity.
    - intros l y Hy. cbn [assigned_stmt stmt_vars] in *. apply in_map_iff in Hy. destruct Hy as [[x r] [<- Hin]].
      apply in_flat_map. exists (x, r). split; [exact Hin | left; reflexivity].
    - intros bs IHbs els IHels y Hy. cbn [assigned_stmt stmt_vars] in *. apply in_app_or in Hy. apply in_or_app.
      destruct Hy; [left; apply IHbs | right; apply IHels]; assumption.
    - intros y [].
    - intros st IHst b IHb y Hy. cbn [assigned_block block_vars] in *. apply in_app_or in Hy. apply in_or_app.
      destruct Hy; [left; apply IHst | right; apply IHb]; assumption.
    - intros y [].
    - intros c b IHb bs IHbs y Hy. cbn [assigned_branches branches_vars] in *. apply in_app_or in Hy.
      apply in_or_app. right. apply in_or_app. destruct Hy; [left; apply IHb | right; apply IHbs]; assumption.
  Qed.

  Definition lv_fact (A Lv Lv' : list var) : Prop :=
    (forall x, In x Lv' -> In x Lv \/ In x A) /\ (forall x, In x Lv -> ~ In x A -> In x Lv').

  Lemma lv_if_filter Lv A : lv_fact A Lv (filter (fun x => negb (mem x A)) Lv).
  Proof.
    split.
    - intros x Hx. apply filter_In in Hx. left. apply Hx.
    - intros x Hx Hn. apply filter_In. split; [exact Hx|]. apply negb_true_iff. apply mem_nIn. exact Hn.
  Qed.

  Lemma lv_facts :
    (forall st Lv Lv', lv_stmt Lv st = Some Lv' -> lv_fact (assigned_stmt st) Lv Lv')
    /\ (forall b Lv Lv', lv_block Lv b = Some Lv' -> lv_fact (assigned_block b) Lv Lv')
    /\ (forall bs : branches, True).
  Proof.
    apply stmt_block_branches_ind.
    - intros x r Lv Lv' H. cbn [lv_stmt] in H. destruct (forallb (readable Lv) (rhs_vars r)); [|discriminate].
      inversion H; subst Lv'. cbn [assigned_stmt]. split.
      + intros y Hy. destruct (is_aux x); [destruct Hy as [<-|Hy]; [right; left; reflexivity | left; exact Hy] | left; exact Hy].
      + intros y Hy _. destruct (is_aux x); [right; exact Hy | exact Hy].
    - intros l Lv Lv' H. discriminate.
    - intros bs _ els _ Lv Lv' H. cbn [lv_stmt] in H.
      match type of H with (if ?c then _ else _) = _ => destruct c end; [|discriminate].
      inversion H; subst Lv'. apply lv_if_filter.
    - intros Lv Lv' H. inversion H; subst. split; [intros x Hx; left; exact Hx | intros x Hx _; exact Hx].
    - intros st IHst b IHb Lv Lv' H. cbn [lv_block] in H. destruct (lv_stmt Lv st) as [Lv1|] eqn:E1; [|discriminate].
      destruct (IHst _ _ E1) as [A1 B1]. destruct (IHb _ _ H) as [A2 B2]. cbn [assigned_block]. split.
      + intros x Hx. destruct (A2 x Hx) as [Hx1|Hx1]; [|right; apply in_or_app; right; exact Hx1].
        destruct (A1 x Hx1) as [Hx2|Hx2]; [left; exact Hx2 | right; apply in_or_app; left; exact Hx2].
      + intros x Hx Hn. apply B2; [apply B1; [exact Hx|] |]; intros Hin; apply Hn; apply in_or_app; auto.
    - exact I.
    - intros; exact I.
  Qed.

  (* ---------- nested statements ---------- *)
  Definition res_okN (A : list var) (k : nat) (l : list gassign) (k' : nat) (Lv Lv' : list var) (D : state -> dist state) : Prop :=
    (k <= k')%nat /\ defaults_ok l /\ aux_mass l /\ names_okA A k' l /\ simL Lv Lv' l D.
  Definition PN_stmt (st : stmt) : Prop := forall k l k' Lv Lv',
    fln_stmt k st = Some (l, k') -> wf_vars (stmt_vars st) = true -> mass_stmt st = true ->
    lv_stmt Lv st = Some Lv' -> (forall x, In x Lv -> is_gen x = false) ->
    res_okN (assigned_stmt st) k l k' Lv Lv' (exec_stmt law st).
  Definition PN_block (b : block) : Prop := forall k l k' Lv Lv',
    fln_block k b = Some (l, k') -> wf_vars (block_vars b) = true -> mass_block b = true ->
    lv_block Lv b = Some Lv' -> (forall x, In x Lv -> is_gen x = false) ->
    res_okN (assigned_block b) k l k' Lv Lv' (exec_block law b).
  Definition PN_branches (bs : branches) : Prop := forall k brs k' Lv0,
    fln_branches k bs = Some (brs, k') -> wf_vars (branches_vars bs) = true -> mass_branches bs = true ->
    lvb_branches Lv0 bs = true -> (forall x, In x Lv0 -> is_gen x = false) ->
    (forall x, In x Lv0 -> ~ In x (assigned_branches bs)) ->
    (k <= k')%nat /\ exists items : list item,
      map fst items = brs /\ map (fun it : item => fst (fst it)) items = br_conds bs
      /\ (forall it, In it items -> wf_vars (cvars (fst (fst it))) = true /\ defaults_ok (snd (fst it))
            /\ aux_mass (snd (fst it)) /\ simL Lv0 Lv0 (snd (fst it)) (snd it)
            /\ names_okA (assigned_branches bs) k' (snd (fst it)))
      /\ forall s, first_match items s = exec_branches law bs s.

  Lemma simL_ext Lv Lv' l D D' : (forall s, D s = D' s) -> simL Lv Lv' l D -> simL Lv Lv' l D'.
  Proof. intros He H s t Hag g h Hgh. rewrite <- He. apply H; assumption. Qed.
  Lemma simL_post Lv Lv1 Lv2 l D : (forall x, In x Lv2 -> In x Lv1) -> simL Lv Lv1 l D -> simL Lv Lv2 l D.
  Proof.
    intros Hs H s t Hag g h Hgh. apply H; [exact Hag|]. intros t' s' Hag' Hfr. apply Hgh; [|exact Hfr].
    eapply agreeL_sub; eauto.
  Qed.

  Lemma fln_correct : (forall st, PN_stmt st) /\ (forall b, PN_block b) /\ (forall bs, PN_branches bs).
  Proof.
    destruct assigned_in_vars as [Hav_s [Hav_b Hav_bs]]. destruct lv_facts as [Hlv_s [Hlv_b _]].
    apply stmt_block_branches_ind.
    - (* SAssign *)
      intros x r k l k' Lv Lv' H Hwf Hmass Hlv HLg. cbn [fln_stmt] in H. inversion H; subst l k'. clear H.
      cbn [stmt_vars] in Hwf. cbn [lv_stmt] in Hlv.
      destruct (forallb (readable Lv) (rhs_vars r)) eqn:Er; [|discriminate]. inversion Hlv; subst Lv'. clear Hlv.
      rewrite forallb_forall in Er.
      split; [lia|]. split; [|split; [|split]].
      + intros g [<-|[]]. reflexivity.
      + intros g [<-|[]] Ha. cbn [ga_var ga_rhs] in *. cbn [mass_stmt] in Hmass. rewrite Ha in Hmass. cbn in Hmass.
        intros t c. apply (mass_sample law law_mass r Hmass).
      + intros y [<-|[]]. left. left. reflexivity.
      + intros s t Hag g h Hgh.
        rewrite E_exec_gas_cons, E_exec_ga, exec_stmt_assign. cbn [ga_cond ga_rhs ga_var holds]. rewrite E_bind.
        rewrite (sample_ext law r s t).
        2:{ intros y Hy. apply Hag. specialize (Er y Hy). unfold readable in Er. apply orb_true_iff in Er.
            destruct Er as [Er|Er]; [left; apply negb_true_iff; exact Er | right; apply mem_In; exact Er]. }
        apply E_ext. intros v. cbn [exec_gas]. rewrite !E_ret. apply Hgh.
        * intros y Hy. unfold upd. destruct (var_eqb y x) eqn:Eyx; [reflexivity|]. apply Hag.
          destruct Hy as [Hy|Hy]; [left; exact Hy|]. right. destruct (is_aux x); [|exact Hy].
          destruct Hy as [Hy|Hy]; [|exact Hy]. subst y. rewrite var_eqb_refl in Eyx. discriminate.
        * intros y Hy. apply upd_other. intros ->. apply Hy. left; reflexivity.
    - (* SSimult *)
      intros l k l' k' Lv Lv' H. cbn [fln_stmt] in H. discriminate.
    - (* SIf *)
      intros bs IHbs els IHels k l k' Lv Lv' H Hwf Hmass Hlv HLg. cbn [fln_stmt] in H.
      destruct (fln_branches k bs) as [[brs k1]|] eqn:E1; [|discriminate].
      destruct (fln_block k1 els) as [[le k2]|] eqn:E2; [|discriminate]. inversion H as [Hfl]. clear H.
      cbn [stmt_vars] in Hwf. pose proof Hwf as Hwfall. rewrite wf_vars_app in Hwf. apply andb_true_iff in Hwf. destruct Hwf as [Hwf1 Hwf2].
      cbn [mass_stmt] in Hmass. apply andb_true_iff in Hmass. destruct Hmass as [Hm1 Hm2].
      cbn [lv_stmt] in Hlv.
      set (A := assigned_branches bs ++ assigned_block els) in *.
      set (Lv0 := filter (fun x => negb (mem x A)) Lv) in *.
      destruct (forallb (readable Lv) (flat_map cvars (br_conds bs))) eqn:Erd; [|discriminate].
      destruct (lvb_branches Lv0 bs) eqn:Elb; [|discriminate].
      destruct (lv_block Lv0 els) as [Lve|] eqn:Ele; [|discriminate]. cbn in Hlv. inversion Hlv; subst Lv'. clear Hlv.
      destruct (lv_if_filter Lv A) as [Hf1 Hf2]. fold Lv0 in Hf1, Hf2.
      assert (HL0sub : forall x, In x Lv0 -> In x Lv) by (intros x Hx; apply filter_In in Hx; apply Hx).
      assert (HL0A : forall x, In x Lv0 -> ~ In x A).
      { intros x Hx. apply filter_In in Hx. destruct Hx as [_ Hx]. apply negb_true_iff in Hx. apply mem_nIn. exact Hx. }
      assert (HL0g : forall x, In x Lv0 -> is_gen x = false) by (intros x Hx; apply HLg, HL0sub, Hx).
      destruct (IHbs k brs k1 Lv0 E1 Hwf1 Hm1 Elb HL0g) as [Hk1 [items [Hmap [Hconds [Hitems Hfm]]]]].
      { intros x Hx Hin. apply (HL0A x Hx). apply in_or_app. left; exact Hin. }
      destruct (IHels k1 le k2 Lv0 Lve E2 Hwf2 Hm2 Ele HL0g) as [Hk2 [Hde [Hme [Hne Hse]]]].
      assert (Hse0 : simL Lv0 Lv0 le (exec_block law els)).
      { eapply simL_post; [|exact Hse]. intros x Hx. destruct (Hlv_b _ _ _ Ele) as [_ Hkeep]. apply Hkeep; [exact Hx|].
        intros Hin. apply (HL0A x Hx). apply in_or_app. right; exact Hin. }
      set (items' := match els with BNil => items | _ => items ++ [((CTrue, le), exec_block law els)] end).
      assert (Hmap' : map fst items' = match els with BNil => brs | _ => brs ++ [(CTrue, le)] end).
      { unfold items'. destruct els; [exact Hmap | rewrite map_app; apply f_equal2; [exact Hmap | reflexivity]]. }
      rewrite <- Hmap' in Hfl.
      assert (HA : forall y, In y A -> is_gen y = false /\ ~ In y Lv0).
      { intros y Hy. split.
        - eapply wf_vars_In; [exact Hwfall|]. unfold A in Hy. apply in_app_or in Hy. apply in_or_app.
          destruct Hy; [left; apply Hav_bs | right; apply Hav_b]; assumption.
        - intros Hin. exact (HL0A y Hin Hy). }
      rewrite forallb_forall in Erd.
      destruct (flatten_if_n_sim (mutex_shape bs els) items' k2 l k' Lv Lv0 A Hfl HL0sub HLg HA) as [Hk' [Hd [Hma [Hn Hs]]]].
      + assert (Hold : forall it, In it items -> wf_vars (cvars (fst (fst it))) = true
            /\ (forall x, In x (cvars (fst (fst it))) -> is_aux x = false \/ In x Lv)
            /\ defaults_ok (snd (fst it)) /\ aux_mass (snd (fst it))
            /\ simL Lv0 Lv0 (snd (fst it)) (snd it) /\ names_okA A k2 (snd (fst it))).
        { intros it Hin. destruct (Hitems it Hin) as [H1 [H2 [H3 [H4 H5]]]]. split; [exact H1|]. split.
          - intros x Hx. assert (Hr : readable Lv x = true).
            { apply Erd. apply in_flat_map. exists (fst (fst it)). split; [|exact Hx].
              rewrite <- Hconds. apply in_map_iff. exists it. split; [reflexivity | exact Hin]. }
            unfold readable in Hr. apply orb_true_iff in Hr.
            destruct Hr as [Hr|Hr]; [left; apply negb_true_iff; exact Hr | right; apply mem_In; exact Hr].
          - split; [exact H2|]. split; [exact H3|]. split; [exact H4|].
            eapply names_okA_mono; [|exact Hk2|exact H5]. intros y Hy. apply in_or_app. left; exact Hy. }
        unfold items'. destruct els; [exact Hold|]; intros it Hin; apply in_app_or in Hin;
          (destruct Hin as [Hin|[<-|[]]]; [apply Hold; exact Hin|]). cbn [fst snd].
        split; [reflexivity|]. split; [intros x []|]. split; [exact Hde|]. split; [exact Hme|]. split; [exact Hse0|].
        eapply names_okA_mono; [|apply Nat.le_refl|exact Hne]. intros y Hy. apply in_or_app. right; exact Hy.
      + intros Emx s. unfold mutex_shape in Emx. unfold items'. destruct els; try discriminate.
        rewrite Hconds. apply mutex_conds_excl. exact Emx.
      + split; [lia|]. split; [exact Hd|]. split; [exact Hma|]. split; [exact Hn|].
        eapply simL_ext; [|exact Hs]. intros s. rewrite exec_stmt_if. unfold sem_items, items'.
        destruct els as [|st0 b0].
        * rewrite Hfm, exec_block_nil. reflexivity.
        * rewrite first_match_app, Hfm. cbn [fst snd holds]. destruct (exec_branches law bs s); reflexivity.
    - (* BNil *)
      intros k l k' Lv Lv' H _ _ Hlv _. cbn [fln_block] in H. inversion H; subst l k'. inversion Hlv; subst Lv'.
      split; [lia|]. split; [intros g []|]. split; [intros g []|]. split; [intros y []|].
      intros s t Hag g h Hgh. rewrite exec_block_nil. cbn [exec_gas]. rewrite !E_ret. apply Hgh; [exact Hag | intros y _; reflexivity].
    - (* BCons *)
      intros st IHst b IHb k l k' Lv Lv' H Hwf Hmass Hlv HLg. cbn [fln_block] in H.
      destruct (fln_stmt k st) as [[l1 k1]|] eqn:E1; [|discriminate].
      destruct (fln_block k1 b) as [[l2 k2]|] eqn:E2; [|discriminate]. inversion H; subst l k'. clear H.
      cbn [block_vars] in Hwf. rewrite wf_vars_app in Hwf. apply andb_true_iff in Hwf. destruct Hwf as [Hwf1 Hwf2].
      cbn [mass_block] in Hmass. apply andb_true_iff in Hmass. destruct Hmass as [Hm1 Hm2].
      cbn [lv_block] in Hlv. destruct (lv_stmt Lv st) as [Lv1|] eqn:El1; [|discriminate].
      assert (HLg1 : forall x, In x Lv1 -> is_gen x = false).
      { intros x Hx. destruct (Hlv_s _ _ _ El1) as [Hsrc _]. destruct (Hsrc x Hx) as [H1|H1]; [apply HLg; exact H1|].
        eapply wf_vars_In; [exact Hwf1 | apply Hav_s; exact H1]. }
      destruct (IHst k l1 k1 Lv Lv1 E1 Hwf1 Hm1 El1 HLg) as [Hk1 [Hd1 [Hma1 [Hn1 Hs1]]]].
      destruct (IHb k1 l2 k2 Lv1 Lv' E2 Hwf2 Hm2 Hlv HLg1) as [Hk2 [Hd2 [Hma2 [Hn2 Hs2]]]].
      split; [lia|]. split; [|split; [|split]].
      + intros g Hg. apply in_app_or in Hg. destruct Hg; [apply Hd1 | apply Hd2]; assumption.
      + intros g Hg. apply in_app_or in Hg. destruct Hg; [apply Hma1 | apply Hma2]; assumption.
      + intros y Hy. rewrite gvars_app in Hy. cbn [assigned_block]. apply in_app_or in Hy. destruct Hy as [Hy|Hy].
        * exact (names_okA_mono _ _ k1 k2 _ (fun y H => in_or_app _ _ y (or_introl H)) Hk2 Hn1 y Hy).
        * exact (names_okA_mono _ _ k2 k2 _ (fun y H => in_or_app _ _ y (or_intror H)) (Nat.le_refl _) Hn2 y Hy).
      + intros s t Hag g h Hgh. rewrite E_exec_gas_app, exec_block_cons, E_bind.
        apply Hs1; [exact Hag|]. intros t1 s1 Hag1 Hfr1.
        apply Hs2; [exact Hag1|]. intros t2 s2 Hag2 Hfr2. apply Hgh; [exact Hag2|].
        intros y Hy. rewrite gvars_app in Hy. rewrite Hfr2, Hfr1; [reflexivity| |]; intros Hin; apply Hy; apply in_or_app; auto.
    - (* BrNil *)
      intros k brs k' Lv0 H _ _ _ _ _. cbn [fln_branches] in H. inversion H; subst brs k'.
      split; [lia|]. exists []. split; [reflexivity|]. split; [reflexivity|]. split; [intros it0 [] | intros s; reflexivity].
    - (* BrCons *)
      intros c b IHb bs IHbs k brs k' Lv0 H Hwf Hmass Hlv HLg HLA. cbn [fln_branches] in H.
      destruct (fln_block k b) as [[l k1]|] eqn:E1; [|discriminate].
      destruct (fln_branches k1 bs) as [[brs0 k2]|] eqn:E2; [|discriminate]. inversion H; subst brs k'. clear H.
      cbn [branches_vars] in Hwf. rewrite !wf_vars_app in Hwf. apply andb_true_iff in Hwf. destruct Hwf as [Hwc Hwf].
      apply andb_true_iff in Hwf. destruct Hwf as [Hwb Hwbs].
      cbn [mass_branches] in Hmass. apply andb_true_iff in Hmass. destruct Hmass as [Hm1 Hm2].
      cbn [lvb_branches] in Hlv. apply andb_true_iff in Hlv. destruct Hlv as [Hl1 Hl2].
      destruct (lv_block Lv0 b) as [Lvb|] eqn:Elb; [|discriminate].
      cbn [assigned_branches] in HLA.
      destruct (IHb k l k1 Lv0 Lvb E1 Hwb Hm1 Elb HLg) as [Hk1 [Hd [Hma [Hn Hs]]]].
      destruct (IHbs k1 brs0 k2 Lv0 E2 Hwbs Hm2 Hl2 HLg) as [Hk2 [items [Hmap [Hconds [Hitems Hfm]]]]].
      { intros x Hx Hin. apply (HLA x Hx). apply in_or_app. right; exact Hin. }
      split; [lia|]. exists (((c, l), exec_block law b) :: items).
      split; [cbn [map fst]; rewrite Hmap; reflexivity|].
      split; [cbn [map fst br_conds]; rewrite Hconds; reflexivity|]. split.
      + intros it [<-|Hin].
        * cbn [fst snd]. split; [exact Hwc|]. split; [exact Hd|]. split; [exact Hma|]. split.
          -- eapply simL_post; [|exact Hs]. intros x Hx. destruct (Hlv_b _ _ _ Elb) as [_ Hkeep]. apply Hkeep; [exact Hx|].
             intros Hin. apply (HLA x Hx). apply in_or_app. left; exact Hin.
          -- cbn [assigned_branches]. eapply names_okA_mono; [|exact Hk2|exact Hn]. intros y Hy. apply in_or_app. left; exact Hy.
        * destruct (Hitems it Hin) as [H1 [H2 [H3 [H4 H5]]]]. split; [exact H1|]. split; [exact H2|]. split; [exact H3|].
          split; [exact H4|]. cbn [assigned_branches]. eapply names_okA_mono; [|apply Nat.le_refl|exact H5].
          intros y Hy. apply in_or_app. right; exact Hy.
      + intros s. rewrite exec_branches_cons. cbn [first_match fst snd]. rewrite Hfm. reflexivity.
  Qed.

  (* ---------- the theorems ---------- *)
  Definition agreeA (s t : state) : Prop := forall x, is_aux x = false -> t x = s x.
  Definition blindA (f : state -> Qc) : Prop := forall s t, agreeA s t -> f t = f s.

  Lemma agreeL_nil s t : agreeL [] s t <-> agreeA s t.
  Proof. split; [intros H x Hx; apply H; left; exact Hx | intros H x [Hx|[]]; apply H; exact Hx]. Qed.

  Lemma aux_ok_parts b : aux_ok b = true ->
    wf_vars (block_vars b) = true /\ mass_block b = true /\ exists Lv', lv_block [] b = Some Lv'.
  Proof.
    unfold aux_ok, wf_block, live_ok. intros H. apply andb_true_iff in H. destruct H as [H H3].
    apply andb_true_iff in H. destruct H as [H1 H2]. split; [exact H1|]. split; [exact H2|].
    destruct (lv_block [] b) as [Lv'|]; [exists Lv'; reflexivity | discriminate].
  Qed.

  Lemma if_flatten_simA k b l k' : if_flatten k b = Some (l, k') -> aux_ok b = true ->
    forall s t, agreeA s t -> forall g h, (forall s' t', agreeA s' t' -> g t' = h s') ->
      E (exec_gas law l t) g = E (exec_block law b s) h.
  Proof.
    intros H Hok s t Hag g h Hgh. destruct (aux_ok_parts b Hok) as [Hwf [Hm [Lv' Hlv]]].
    destruct fln_correct as [_ [Hb _]].
    destruct (Hb b k l k' [] Lv' H Hwf Hm Hlv (fun x (F : In x []) => match F with end)) as [_ [_ [_ [_ Hs]]]].
    apply Hs; [apply agreeL_nil; exact Hag|]. intros t' s' Hag' _. apply Hgh.
    intros x Hx. apply Hag'. left; exact Hx.
  Qed.

  Theorem if_flatten_block_preserves k b l k' :
    if_flatten k b = Some (l, k') -> aux_ok b = true ->
    forall s t, agreeA s t -> forall f, blindA f ->
      E (exec_gas law l t) f = E (exec_block law b s) f.
  Proof. intros H Hok s t Hag f Hf. eapply if_flatten_simA; eauto. Qed.

  Theorem if_flatten_preserves k p fp k' :
    if_flatten_prog k p = Some (fp, k') -> aux_ok_prog p = true ->
    forall n s0 t0, agreeA s0 t0 -> forall f, blindA f ->
      E (frun law fp n t0) f = E (run law p n s0) f.
  Proof.
    unfold if_flatten_prog, aux_ok_prog. intros H Hok.
    destruct (p_guard p) eqn:Eg; try discriminate.
    destruct (if_flatten k (p_init p)) as [[li k1]|] eqn:Ei; [|discriminate].
    destruct (if_flatten k1 (p_body p)) as [[lb k2]|] eqn:Eb; [|discriminate]. inversion H; subst fp k'. clear H.
    apply andb_true_iff in Hok. destruct Hok as [Hoi Hob].
    assert (Hrel : forall n s0 t0, agreeA s0 t0 -> forall g h, (forall s t, agreeA s t -> g t = h s) ->
              E (frun law {| fp_init := li; fp_body := lb |} n t0) g = E (run law p n s0) h).
    { induction n as [|n IH]; intros s0 t0 Hag g h Hgh; cbn [frun run fp_init].
      - eapply if_flatten_simA; eauto.
      - rewrite !E_bind. apply IH; [exact Hag|]. intros s t Hst.
        unfold fstep, iter. cbn [fp_body]. rewrite Eg. cbn [holds]. eapply if_flatten_simA; eauto. }
    intros n s0 t0 Hag f Hf. apply Hrel; [exact Hag | exact Hf].
  Qed.
End AuxProof.
