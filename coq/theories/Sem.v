(* Reference semantics S of the loop language, the oracle independent of Polar:
   statements in order, first matching if/elif/else branch, independent draws and
   probabilistic choices, simultaneous assignment reads old values, state frozen once the
   loop guard is false.  Executable ([vm_compute]) for finite discrete programs. *)
From Coq Require Import List String QArith Qcanon ZArith Bool.
From Polar Require Import Qcx Dist Syntax.
Import ListNotations.
Local Open Scope Qc_scope.

Definition state := var -> Qc.
Definition upd (s : state) (x : var) (v : Qc) : state := fun y => if var_eqb y x then v else s y.
Definition st0 : state := fun _ => 0.

Fixpoint eval (e : expr) (s : state) : Qc :=
  match e with
  | EConst q => q
  | EVar x => s x
  | EAdd a b => eval a s + eval b s
  | EMul a b => eval a s * eval b s
  | EPow a k => qpow (eval a s) k
  end.

Definition cop_holds (c : cop) (x y : Qc) : bool :=
  match c with
  | Ceq => Qc_eqb x y
  | Cle => Qc_leb x y
  | Cge => Qc_leb y x
  | Clt => Qc_ltb x y
  | Cgt => Qc_ltb y x
  end.

Fixpoint holds (c : cond) (s : state) : bool :=
  match c with
  | CTrue => true
  | CFalse => false
  | CAtom a o b => cop_holds o (eval a s) (eval b s)
  | CNot c => negb (holds c s)
  | CAnd c1 c2 => holds c1 s && holds c2 s
  | COr c1 c2 => holds c1 s || holds c2 s
  end.

Section WithLaw.
  (* law of a continuous family at evaluated parameters: any finitely supported law *)
  Variable law : string -> list Qc -> dist Qc.

  Fixpoint cat_law (ps : list Qc) (i : nat) : dist Qc :=
    match ps with [] => [] | p :: ps' => (p, qnat i) :: cat_law ps' (S i) end.
  Fixpoint unif_law (w : Qc) (a : Z) (n : nat) : dist Qc :=
    match n with O => [] | S n' => (w, mkq a 1) :: unif_law w (a + 1)%Z n' end.

  Definition draw_law (d : draw) (s : state) : dist Qc :=
    match d with
    | DBern p => let q := eval p s in [(q, 1); (1 - q, 0)]
    | DCat ps => cat_law (map (fun e => eval e s) ps) 0
    | DUnif a b => let n := Z.to_nat (b - a + 1) in unif_law (/ qnat n) a n
    | DCont f args => law f (map (fun e => eval e s) args)
    end.

  Definition sample (r : rhs) (s : state) : dist Qc :=
    match r with
    | RChoice alts => map (fun pe => (eval (fst pe) s, eval (snd pe) s)) alts
    | RDraw d => draw_law d s
    end.

  (* all right-hand sides are sampled in the OLD state [s]; [t] accumulates the writes *)
  Fixpoint exec_simult (l : list (var * rhs)) (s t : state) : dist state :=
    match l with
    | [] => ret t
    | (x, r) :: l' => bind (sample r s) (fun v => exec_simult l' s (upd t x v))
    end.

  Fixpoint exec_stmt (st : stmt) (s : state) : dist state :=
    match st with
    | SAssign x r => bind (sample r s) (fun v => ret (upd s x v))
    | SSimult l => exec_simult l s s
    | SIf bs els => match exec_branches bs s with Some d => d | None => exec_block els s end
    end
  with exec_block (b : block) (s : state) : dist state :=
    match b with
    | BNil => ret s
    | BCons st b' => bind (exec_stmt st s) (exec_block b')
    end
  with exec_branches (bs : branches) (s : state) : option (dist state) :=
    match bs with
    | BrNil => None
    | BrCons c b bs' => if holds c s then Some (exec_block b s) else exec_branches bs' s
    end.

  Lemma exec_stmt_if bs els s :
    exec_stmt (SIf bs els) s = match exec_branches bs s with Some d => d | None => exec_block els s end.
  Proof. reflexivity. Qed.
  Lemma exec_block_cons st b s : exec_block (BCons st b) s = bind (exec_stmt st s) (exec_block b).
  Proof. reflexivity. Qed.
  Lemma exec_branches_cons c b bs s :
    exec_branches (BrCons c b bs) s = if holds c s then Some (exec_block b s) else exec_branches bs s.
  Proof. reflexivity. Qed.

  Definition iter (p : prog) (s : state) : dist state :=
    if holds (p_guard p) s then exec_block (p_body p) s else ret s.

  Fixpoint run (p : prog) (n : nat) (s0 : state) : dist state :=
    match n with
    | O => exec_block (p_init p) s0
    | S n' => bind (run p n' s0) (iter p)
    end.

  (* ---- flat programs ---- *)
  Definition exec_ga (g : gassign) (s : state) : dist state :=
    if holds (ga_cond g) s
    then bind (sample (ga_rhs g) s) (fun v => ret (upd s (ga_var g) v))
    else ret (upd s (ga_var g) (s (ga_default g))).

  Fixpoint exec_gas (l : list gassign) (s : state) : dist state :=
    match l with [] => ret s | g :: l' => bind (exec_ga g s) (exec_gas l') end.

  Definition fstep (fp : flatprog) (s : state) : dist state := exec_gas (fp_body fp) s.

  Fixpoint frun (fp : flatprog) (n : nat) (s0 : state) : dist state :=
    match n with
    | O => exec_gas (fp_init fp) s0
    | S n' => bind (frun fp n' s0) (fstep fp)
    end.
End WithLaw.

(* the executable instance: no continuous families *)
Definition no_law : string -> list Qc -> dist Qc := fun _ _ => [].

(* monomials as association lists var -> exponent *)
Definition mono := list (var * nat).
Fixpoint eval_mono (m : mono) (s : state) : Qc :=
  match m with [] => 1 | (x, k) :: m' => qpow (s x) k * eval_mono m' s end.
