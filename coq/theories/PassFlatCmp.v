(* C02, correspondence side: boolean equality of flat programs UP TO the representation of
   polynomials (Polar's snapshots are read back through sympy's expanded normal form, the
   models build expression trees).  Names, comparison operators, the boolean structure of
   conditions, the order of assignments and of choice alternatives are compared exactly;
   polynomial parts with Poly.pequiv under the empty type environment (= equality of the
   normal forms over Q).  Used only by harness/pass_*.py through vm_compute; no theorem
   depends on it (a wrong [true] here could only hide a mismatch from the correspondence
   check, never make a theorem false). *)
From Coq Require Import List String QArith Qcanon ZArith Bool.
From Polar Require Import Qcx Dist Syntax Sem Types Poly PassCondReduce.
Import ListNotations.

Definition e_eq (a b : expr) : bool := pequiv [] (of_expr a) (of_expr b).

Fixpoint list_eq {A} (eq : A -> A -> bool) (l1 l2 : list A) : bool :=
  match l1, l2 with
  | [], [] => true
  | a :: l1', b :: l2' => eq a b && list_eq eq l1' l2'
  | _, _ => false
  end.

Fixpoint c_eq (c d : cond) : bool :=
  match c, d with
  | CTrue, CTrue => true
  | CFalse, CFalse => true
  | CAtom a o b, CAtom a' o' b' => e_eq a a' && cop_eqb o o' && e_eq b b'
  | CNot c1, CNot d1 => c_eq c1 d1
  | CAnd c1 c2, CAnd d1 d2 => c_eq c1 d1 && c_eq c2 d2
  | COr c1 c2, COr d1 d2 => c_eq c1 d1 && c_eq c2 d2
  | _, _ => false
  end.

Definition d_eq (d e : draw) : bool :=
  match d, e with
  | DBern p, DBern q => e_eq p q
  | DCat ps, DCat qs => list_eq e_eq ps qs
  | DUnif a b, DUnif a' b' => Z.eqb a a' && Z.eqb b b'
  | DCont f args, DCont f' args' => String.eqb f f' && list_eq e_eq args args'
  | _, _ => false
  end.

Definition r_eq (r s : rhs) : bool :=
  match r, s with
  | RChoice l1, RChoice l2 => list_eq (fun x y => e_eq (fst x) (fst y) && e_eq (snd x) (snd y)) l1 l2
  | RDraw d, RDraw e => d_eq d e
  | _, _ => false
  end.

Definition ga_eq (g h : gassign) : bool :=
  String.eqb (ga_var g) (ga_var h) && c_eq (ga_cond g) (ga_cond h)
  && String.eqb (ga_default g) (ga_default h) && r_eq (ga_rhs g) (ga_rhs h).

Definition gas_eq (l1 l2 : list gassign) : bool := list_eq ga_eq l1 l2.

(* index of the first differing assignment (for the report), length l1 if none *)
Fixpoint first_diff (l1 l2 : list gassign) (i : nat) : nat :=
  match l1, l2 with
  | a :: l1', b :: l2' => if ga_eq a b then first_diff l1' l2' (S i) else i
  | _, _ => i
  end.
