(* Stats.v — base for property C11.
   (1) the small "Python runtime" the translated definitions of gen/StatsGen.v are written in
       (dict as insertion-ordered association list, range, int/float conversions, CPython's
       correctly rounded int/int true division modelled exactly over Q);
   (2) finite laws as weighted lists over Qc, expectation, tail probabilities;
   (3) finite sums over index lists, the binomial theorem over Qc, Pascal rows;
   (4) the inequalities behind the tail bounds (Markov, Cauchy-Schwarz second-moment bound).
   Nothing here depends on generated files. *)
From Coq Require Import List ZArith QArith Qcanon Lia Arith Bool Field Lqa.
From Polar Require Import Qcx.
Import ListNotations.
Local Open Scope Qc_scope.

(* ------------------------------------------------------------------------------------ *)
(** * 1. Python runtime model                                                          *)
(* ------------------------------------------------------------------------------------ *)

Definition zq (z : Z) : Qc := Q2Qc (inject_Z z).
Definition fq (x : Q) : Qc := Q2Qc x.

Definition pyrange (lo hi : nat) : list nat := seq lo (hi - lo).

(* dict with int keys and expression values: insertion-ordered association list, one entry
   per key; d[k] of a missing key is 0 here (Python raises KeyError: not modelled) *)
Definition pydict := list (nat * Qc).
Definition dempty : pydict := [].
Fixpoint dget (d : pydict) (k : nat) : Qc :=
  match d with [] => 0 | (k', v) :: d' => if Nat.eqb k' k then v else dget d' k end.
Fixpoint dset (d : pydict) (k : nat) (v : Qc) : pydict :=
  match d with
  | [] => [(k, v)]
  | (k', v') :: d' => if Nat.eqb k' k then (k', v) :: d' else (k', v') :: dset d' k v
  end.
Definition dlen (d : pydict) : nat := length d.
Definition ditems (d : pydict) : list (nat * Qc) := d.

Lemma dget_dset d k v j : dget (dset d k v) j = if Nat.eqb k j then v else dget d j.
Proof.
  induction d as [|[k' v'] d IH]; cbn [dset dget].
  - reflexivity.
  - destruct (Nat.eqb k' k) eqn:E.
    + apply Nat.eqb_eq in E; subst k'. cbn [dget]. destruct (Nat.eqb k j); reflexivity.
    + cbn [dget]. destruct (Nat.eqb k' j) eqn:E2.
      * apply Nat.eqb_eq in E2; subst k'. rewrite Nat.eqb_sym in E. rewrite E. reflexivity.
      * exact IH.
Qed.
Lemma dget_dset_same d k v : dget (dset d k v) k = v.
Proof. rewrite dget_dset, Nat.eqb_refl; reflexivity. Qed.
Lemma dget_dset_other d k v j : k <> j -> dget (dset d k v) j = dget d j.
Proof. intros H. rewrite dget_dset. apply Nat.eqb_neq in H. rewrite H. reflexivity. Qed.

(* math.factorial on Python ints *)
Fixpoint zfact (n : nat) : Z := match n with O => 1%Z | S m => (Z.of_nat (S m) * zfact m)%Z end.

Lemma zfact_pos n : (0 < zfact n)%Z.
Proof. induction n; cbn [zfact]; lia. Qed.

(* CPython's int / int ("true division", Objects/longobject.c long_true_divide): the exact
   quotient correctly rounded (round-half-to-even) to a 53-bit significand.  The float is
   represented by its exact value in Q.  NOT modelled: the exponent range (OverflowError
   when |a/b| >= 2^1024, subnormals) and ZeroDivisionError (b = 0). *)
Definition py_truediv (a b : Z) : Q :=
  if (a =? 0)%Z then 0%Q else
  let s := (Z.sgn a * Z.sgn b)%Z in
  let a := Z.abs a in
  let b := Z.abs b in
  let d := (Z.log2 a - Z.log2 b)%Z in
  let ge := if (0 <=? d)%Z then (b * 2 ^ d <=? a)%Z else (b <=? a * 2 ^ (- d))%Z in
  let e := ((if ge then d else d - 1) - 52)%Z in
  let num := if (0 <=? e)%Z then a else (a * 2 ^ (- e))%Z in
  let den := if (0 <=? e)%Z then (b * 2 ^ e)%Z else b in
  let q := (num / den)%Z in
  let r := (num mod den)%Z in
  let m := if (2 * r <? den)%Z then q
           else if (den <? 2 * r)%Z then (q + 1)%Z
           else if Z.even q then q else (q + 1)%Z in
  if (0 <=? e)%Z then inject_Z (s * m * 2 ^ e) else Qmake (s * m) (Z.to_pos (2 ^ (- e))).

(* int(float): truncation toward zero *)
Definition py_int (x : Q) : Z := Z.quot (Qnum x) (Zpos (Qden x)).

(* ------------------------------------------------------------------------------------ *)
(** * 2. Qc helpers                                                                    *)
(* ------------------------------------------------------------------------------------ *)

(* move a Qc (in)equality to Q, where lra / nra work *)
Lemma Qc_this_plus (x y : Qc) : (this (x + y) == this x + this y)%Q.
Proof. change (this (x + y)) with (Qred (this x + this y)). apply Qred_correct. Qed.
Lemma Qc_this_mult (x y : Qc) : (this (x * y) == this x * this y)%Q.
Proof. change (this (x * y)) with (Qred (this x * this y)). apply Qred_correct. Qed.
Lemma Qc_this_opp (x : Qc) : (this (- x) == - this x)%Q.
Proof. change (this (- x)) with (Qred (- this x)). apply Qred_correct. Qed.
Lemma Qc_this_minus (x y : Qc) : (this (x - y) == this x - this y)%Q.
Proof. unfold Qcminus. rewrite Qc_this_plus, Qc_this_opp. reflexivity. Qed.

Lemma zq_0 : zq 0 = 0. Proof. reflexivity. Qed.
Lemma zq_1 : zq 1 = 1. Proof. reflexivity. Qed.
Lemma zq_add a b : zq (a + b) = zq a + zq b.
Proof.
  apply Qc_is_canon. unfold zq. rewrite Qc_this_plus. cbn [this Q2Qc].
  rewrite !Qred_correct. rewrite inject_Z_plus. reflexivity.
Qed.
Lemma zq_mul a b : zq (a * b) = zq a * zq b.
Proof.
  apply Qc_is_canon. unfold zq. rewrite Qc_this_mult. cbn [this Q2Qc].
  rewrite !Qred_correct. rewrite inject_Z_mult. reflexivity.
Qed.
Lemma zq_opp a : zq (- a) = - zq a.
Proof.
  apply Qc_is_canon. unfold zq. rewrite Qc_this_opp. cbn [this Q2Qc].
  rewrite !Qred_correct. rewrite inject_Z_opp. reflexivity.
Qed.
Lemma zq_inj a b : zq a = zq b -> a = b.
Proof.
  unfold zq. intros H. apply Q2Qc_eq_iff in H. unfold Qeq in H. cbn in H. lia.
Qed.
Lemma zq_m1 : zq (-1) = - (1). Proof. reflexivity. Qed.
Lemma zq_2 : zq 2 = 1 + 1. Proof. apply Qc_is_canon. reflexivity. Qed.

Lemma zq_pow a n : zq (a ^ Z.of_nat n) = qpow (zq a) n.
Proof.
  induction n as [|n IH].
  - reflexivity.
  - rewrite Nat2Z.inj_succ, Z.pow_succ_r by lia. rewrite zq_mul, IH. reflexivity.
Qed.

Lemma qpow_add b n m : qpow b (n + m) = qpow b n * qpow b m.
Proof. induction n as [|n IH]; cbn [qpow Nat.add]; [ring | rewrite IH; ring]. Qed.
Lemma qpow_mul_base a b n : qpow (a * b) n = qpow a n * qpow b n.
Proof. induction n as [|n IH]; cbn [qpow]; [ring | rewrite IH; ring]. Qed.
Lemma qpow_1 n : qpow 1 n = 1.
Proof. induction n as [|n IH]; cbn [qpow]; [reflexivity | rewrite IH; ring]. Qed.
Lemma qpow_S b n : qpow b (S n) = b * qpow b n. Proof. reflexivity. Qed.
Lemma qpow_one b : qpow b 1 = b. Proof. cbn [qpow]. ring. Qed.
Lemma qpow_two b : qpow b 2 = b * b. Proof. cbn [qpow]. ring. Qed.

Lemma Qcle_0_sq x : 0 <= x * x.
Proof.
  unfold Qcle. rewrite Qc_this_mult. change (this 0) with 0%Q. nra.
Qed.
Lemma Qcmult_nonneg x y : 0 <= x -> 0 <= y -> 0 <= x * y.
Proof.
  unfold Qcle. rewrite Qc_this_mult. change (this 0) with 0%Q. intros; nra.
Qed.
Lemma Qcplus_nonneg x y : 0 <= x -> 0 <= y -> 0 <= x + y.
Proof.
  unfold Qcle. rewrite Qc_this_plus. change (this 0) with 0%Q. intros; lra.
Qed.
Lemma Qcmult_pos x y : 0 < x -> 0 < y -> 0 < x * y.
Proof.
  unfold Qclt. rewrite Qc_this_mult. change (this 0) with 0%Q. intros; nra.
Qed.
Lemma Qc_0_le_1 : 0 <= 1. Proof. unfold Qcle. change (this 0) with 0%Q. change (this 1) with 1%Q. lra. Qed.
Lemma Qc_0_lt_1 : 0 < 1. Proof. unfold Qclt. change (this 0) with 0%Q. change (this 1) with 1%Q. lra. Qed.

Lemma qpow_nonneg b n : 0 <= b -> 0 <= qpow b n.
Proof.
  intros H. induction n as [|n IH]; cbn [qpow]; [apply Qc_0_le_1 | apply Qcmult_nonneg; assumption].
Qed.
Lemma qpow_pos b n : 0 < b -> 0 < qpow b n.
Proof.
  intros H. induction n as [|n IH]; cbn [qpow]; [apply Qc_0_lt_1 | apply Qcmult_pos; assumption].
Qed.
Lemma Qcmult_le_compat x y z t : 0 <= x -> x <= y -> 0 <= z -> z <= t -> x * z <= y * t.
Proof.
  unfold Qcle. rewrite !Qc_this_mult. change (this 0) with 0%Q. intros; nra.
Qed.
Lemma qpow_le_compat a b n : 0 <= a -> a <= b -> qpow a n <= qpow b n.
Proof.
  intros Ha Hab. induction n as [|n IH]; cbn [qpow]; [apply Qcle_refl|].
  apply Qcmult_le_compat; try assumption. apply qpow_nonneg; assumption.
Qed.
Lemma Qclt_neq0 x : 0 < x -> x <> 0.
Proof. intros H E. subst x. revert H. unfold Qclt. change (this 0) with 0%Q. lra. Qed.

Lemma Qcle_div_r x y z : 0 < z -> x * z <= y -> x <= y / z.
Proof.
  intros Hz H. apply Qcmult_lt_0_le_reg_r with z; [assumption|].
  replace (y / z * z) with y by (field; apply Qclt_neq0; assumption). exact H.
Qed.
Lemma Qcle_div_l x y z : 0 < z -> x <= y * z -> x / z <= y.
Proof.
  intros Hz H. apply Qcmult_lt_0_le_reg_r with z; [assumption|].
  replace (x / z * z) with x by (field; apply Qclt_neq0; assumption). exact H.
Qed.

Lemma Qc_leb_true x y : Qc_leb x y = true <-> x <= y.
Proof.
  unfold Qc_leb. rewrite Qcle_alt. destruct (x ?= y); split; intros; try discriminate; try reflexivity; congruence.
Qed.
Lemma Qc_ltb_true x y : Qc_ltb x y = true <-> x < y.
Proof.
  unfold Qc_ltb. rewrite Qclt_alt. destruct (x ?= y); split; intros; try discriminate; try reflexivity; congruence.
Qed.
Lemma Qc_ltb_false x y : Qc_ltb x y = false <-> y <= x.
Proof.
  split; intros H.
  - apply Qcnot_lt_le. intros C. apply Qc_ltb_true in C. congruence.
  - destruct (Qc_ltb x y) eqn:E; [|reflexivity]. apply Qc_ltb_true in E.
    exfalso. apply (Qclt_not_le _ _ E H).
Qed.

(* ------------------------------------------------------------------------------------ *)
(** * 3. Finite sums                                                                   *)
(* ------------------------------------------------------------------------------------ *)

Definition sumq (l : list Qc) : Qc := fold_right Qcplus 0 l.
Definition bigsum {A} (l : list A) (f : A -> Qc) : Qc := sumq (map f l).

Lemma bigsum_nil {A} (f : A -> Qc) : bigsum [] f = 0. Proof. reflexivity. Qed.
Lemma bigsum_cons {A} x (l : list A) f : bigsum (x :: l) f = f x + bigsum l f.
Proof. reflexivity. Qed.
Lemma bigsum_app {A} (l1 l2 : list A) f : bigsum (l1 ++ l2) f = bigsum l1 f + bigsum l2 f.
Proof.
  induction l1 as [|x l1 IH]; cbn [app]; rewrite ?bigsum_cons, ?bigsum_nil; [ring | rewrite IH; ring].
Qed.
Lemma bigsum_ext {A} (l : list A) f g : (forall x, In x l -> f x = g x) -> bigsum l f = bigsum l g.
Proof.
  induction l as [|x l IH]; intros H; [reflexivity|]. rewrite !bigsum_cons.
  rewrite H by (left; reflexivity). rewrite IH; [reflexivity|]. intros y Hy. apply H. right. exact Hy.
Qed.
Lemma bigsum_add {A} (l : list A) f g : bigsum l (fun x => f x + g x) = bigsum l f + bigsum l g.
Proof. induction l as [|x l IH]; rewrite ?bigsum_nil, ?bigsum_cons; [ring | rewrite IH; ring]. Qed.
Lemma bigsum_scal {A} (l : list A) c f : bigsum l (fun x => c * f x) = c * bigsum l f.
Proof. induction l as [|x l IH]; rewrite ?bigsum_nil, ?bigsum_cons; [ring | rewrite IH; ring]. Qed.
Lemma bigsum_scal_r {A} (l : list A) c f : bigsum l (fun x => f x * c) = bigsum l f * c.
Proof. induction l as [|x l IH]; rewrite ?bigsum_nil, ?bigsum_cons; [ring | rewrite IH; ring]. Qed.
Lemma bigsum_opp {A} (l : list A) f : bigsum l (fun x => - f x) = - bigsum l f.
Proof. induction l as [|x l IH]; rewrite ?bigsum_nil, ?bigsum_cons; [ring | rewrite IH; ring]. Qed.
Lemma bigsum_zero {A} (l : list A) : bigsum l (fun _ => 0) = 0.
Proof. induction l as [|x l IH]; rewrite ?bigsum_nil, ?bigsum_cons; [ring | rewrite IH; ring]. Qed.
Lemma bigsum_map {A B} (h : A -> B) (l : list A) f : bigsum (map h l) f = bigsum l (fun x => f (h x)).
Proof. unfold bigsum. rewrite map_map. reflexivity. Qed.
Lemma bigsum_swap {A B} (l1 : list A) (l2 : list B) (f : A -> B -> Qc) :
  bigsum l1 (fun x => bigsum l2 (fun y => f x y)) = bigsum l2 (fun y => bigsum l1 (fun x => f x y)).
Proof.
  induction l1 as [|x l1 IH].
  - rewrite bigsum_nil. symmetry. apply bigsum_zero.
  - rewrite bigsum_cons, IH. rewrite <- bigsum_add. apply bigsum_ext. intros y _. rewrite bigsum_cons. reflexivity.
Qed.
Lemma bigsum_nonneg {A} (l : list A) f : (forall x, In x l -> 0 <= f x) -> 0 <= bigsum l f.
Proof.
  induction l as [|x l IH]; intros H; [apply Qcle_refl|]. rewrite bigsum_cons.
  apply Qcplus_nonneg; [apply H; left; reflexivity | apply IH; intros y Hy; apply H; right; exact Hy].
Qed.
Lemma bigsum_le {A} (l : list A) f g : (forall x, In x l -> f x <= g x) -> bigsum l f <= bigsum l g.
Proof.
  induction l as [|x l IH]; intros H; [apply Qcle_refl|]. rewrite !bigsum_cons.
  apply Qcplus_le_compat; [apply H; left; reflexivity | apply IH; intros y Hy; apply H; right; exact Hy].
Qed.
Lemma bigsum_single {A} (l : list A) f : (forall x, In x l -> f x = 0) -> bigsum l f = 0.
Proof. intros H. rewrite (bigsum_ext l f (fun _ => 0) H). apply bigsum_zero. Qed.

(* accumulation loops *)
Lemma fold_left_add {A} (l : list A) (f : A -> Qc) init :
  fold_left (fun acc x => acc + f x) l init = init + bigsum l f.
Proof.
  revert init. induction l as [|x l IH]; intros init; cbn [fold_left]; rewrite ?bigsum_nil, ?bigsum_cons;
    [ring | rewrite IH; ring].
Qed.
Lemma fold_left_sub {A} (l : list A) (f : A -> Qc) init :
  fold_left (fun acc x => acc - f x) l init = init - bigsum l f.
Proof.
  revert init. induction l as [|x l IH]; intros init; cbn [fold_left]; rewrite ?bigsum_nil, ?bigsum_cons;
    [ring | rewrite IH; ring].
Qed.

(* ranges *)
Lemma pyrange_S lo hi : (lo <= hi)%nat -> pyrange lo (S hi) = pyrange lo hi ++ [hi].
Proof.
  intros H. unfold pyrange. replace (S hi - lo)%nat with (S (hi - lo)) by lia.
  rewrite seq_S. f_equal. f_equal. lia.
Qed.
Lemma pyrange_empty lo hi : (hi <= lo)%nat -> pyrange lo hi = [].
Proof. intros H. unfold pyrange. replace (hi - lo)%nat with O by lia. reflexivity. Qed.
Lemma in_pyrange lo hi x : In x (pyrange lo hi) <-> (lo <= x < hi)%nat.
Proof. unfold pyrange. rewrite in_seq. lia. Qed.
Lemma pyrange_0 n : pyrange 0 n = seq 0 n.
Proof. unfold pyrange. rewrite Nat.sub_0_r. reflexivity. Qed.
Lemma pyrange_shift lo hi : pyrange (S lo) (S hi) = map S (pyrange lo hi).
Proof. unfold pyrange. rewrite seq_shift. reflexivity. Qed.

(* a dict-filling loop: for i in range(lo, hi): d[i] = g(d, i) *)
Section DictLoop.
  Variable g : pydict -> nat -> Qc.
  Definition dstep (d : pydict) (i : nat) : pydict := dset d i (g d i).
  Definition dloop lo hi d0 := fold_left dstep (pyrange lo hi) d0.

  Lemma dloop_S lo hi d0 : (lo <= hi)%nat -> dloop lo (S hi) d0 = dstep (dloop lo hi d0) hi.
  Proof. intros H. unfold dloop. rewrite pyrange_S by exact H. rewrite fold_left_app. reflexivity. Qed.

  Lemma dloop_untouched lo hi d0 j : (j < lo \/ hi <= j)%nat -> dget (dloop lo hi d0) j = dget d0 j.
  Proof.
    induction hi as [|hi IH]; intros H.
    - unfold dloop. rewrite pyrange_empty by lia. reflexivity.
    - destruct (le_lt_dec lo hi) as [L|L].
      + rewrite dloop_S by exact L. unfold dstep. rewrite dget_dset_other by lia. apply IH. lia.
      + unfold dloop. rewrite pyrange_empty by lia. reflexivity.
  Qed.

  (* the value stored at key i is the one computed when the loop was at i *)
  Lemma dloop_at lo hi d0 i : (lo <= i < hi)%nat ->
    dget (dloop lo hi d0) i = g (dloop lo i d0) i.
  Proof.
    induction hi as [|hi IH]; intros H; [lia|].
    rewrite dloop_S by lia. unfold dstep. destruct (Nat.eq_dec i hi) as [->|N].
    - apply dget_dset_same.
    - rewrite dget_dset_other by lia. apply IH. lia.
  Qed.

  (* earlier keys keep their value *)
  Lemma dloop_prefix lo hi d0 i k : (i <= hi)%nat -> (k < i)%nat ->
    dget (dloop lo hi d0) k = dget (dloop lo i d0) k.
  Proof.
    induction hi as [|hi IH]; intros H Hk.
    - replace i with O by lia. reflexivity.
    - destruct (Nat.eq_dec i (S hi)) as [->|N]; [reflexivity|].
      destruct (le_lt_dec lo hi) as [L|L].
      + rewrite dloop_S by exact L. unfold dstep. rewrite dget_dset_other by lia. apply IH; lia.
      + unfold dloop. rewrite !pyrange_empty by lia. reflexivity.
  Qed.

  (* if the body at i only reads keys below i, the final dict satisfies the fixed-point
     equation d[i] = g(d, i) *)
  Lemma dloop_fix lo hi d0 :
    (forall d d' i, (forall k, (k < i)%nat -> dget d k = dget d' k) -> g d i = g d' i) ->
    forall i, (lo <= i < hi)%nat -> dget (dloop lo hi d0) i = g (dloop lo hi d0) i.
  Proof.
    intros Hext i H. rewrite dloop_at by exact H. apply Hext. intros k Hk.
    symmetry. apply dloop_prefix; lia.
  Qed.
End DictLoop.

(* ------------------------------------------------------------------------------------ *)
(** * 4. Binomial coefficients                                                         *)
(* ------------------------------------------------------------------------------------ *)

Fixpoint binom (n k : nat) : Z :=
  match n, k with
  | _, O => 1%Z
  | O, S _ => 0%Z
  | S n', S k' => (binom n' k' + binom n' k)%Z
  end.

Lemma binom_0_r n : binom n 0 = 1%Z. Proof. destruct n; reflexivity. Qed.
Lemma binom_S n k : binom (S n) (S k) = (binom n k + binom n (S k))%Z. Proof. reflexivity. Qed.
Lemma binom_gt n : forall k, (n < k)%nat -> binom n k = 0%Z.
Proof.
  induction n as [|n IH]; intros [|k] H; try lia; [reflexivity|].
  rewrite binom_S, !IH by lia. reflexivity.
Qed.
Lemma binom_diag n : binom n n = 1%Z.
Proof. induction n as [|n IH]; [reflexivity|]. rewrite binom_S, IH, binom_gt by lia. reflexivity. Qed.

(* Pascal rows, for computing inside the kernel *)
Fixpoint nextrow (prev : Z) (r : list Z) : list Z :=
  match r with [] => [prev] | x :: r' => (prev + x)%Z :: nextrow x r' end.
Fixpoint prow (n : nat) : list Z := match n with O => [1%Z] | S n' => nextrow 0%Z (prow n') end.

Lemma nth_nextrow r : forall p k, nth k (nextrow p r) 0%Z = (nth k (p :: r) 0 + nth k r 0)%Z.
Proof.
  induction r as [|x r IH]; intros p k.
  - destruct k as [|[|k]]; cbn; lia.
  - destruct k as [|k]; [reflexivity|]. cbn [nextrow nth]. rewrite IH. reflexivity.
Qed.
Lemma prow_binom n : forall k, nth k (prow n) 0%Z = binom n k.
Proof.
  induction n as [|n IH]; intros k.
  - destruct k as [|[|k]]; reflexivity.
  - cbn [prow]. rewrite nth_nextrow. destruct k as [|k].
    + cbn [nth]. rewrite IH, binom_0_r. reflexivity.
    + cbn [nth]. rewrite !IH. reflexivity.
Qed.

(* binomial theorem over Qc *)
Definition bq (n k : nat) : Qc := zq (binom n k).

Lemma bq_S n k : bq (S n) (S k) = bq n k + bq n (S k).
Proof. unfold bq. rewrite binom_S, zq_add. reflexivity. Qed.
Lemma bq_0_r n : bq n 0 = 1. Proof. unfold bq. rewrite binom_0_r. reflexivity. Qed.
Lemma bq_gt n k : (n < k)%nat -> bq n k = 0. Proof. intros H. unfold bq. rewrite binom_gt by exact H. reflexivity. Qed.

Lemma bigsum_seq_first m (f : nat -> Qc) :
  bigsum (seq 0 (S m)) f = f O + bigsum (seq 0 m) (fun j => f (S j)).
Proof. cbn [seq]. rewrite bigsum_cons. rewrite <- seq_shift, bigsum_map. reflexivity. Qed.
Lemma bigsum_seq_last m (f : nat -> Qc) :
  bigsum (seq 0 (S m)) f = bigsum (seq 0 m) f + f m.
Proof. rewrite seq_S, bigsum_app, bigsum_cons, bigsum_nil. cbn [Nat.add]. ring. Qed.

Theorem binomial_theorem x y n :
  qpow (x + y) n = bigsum (seq 0 (S n)) (fun j => bq n j * qpow x j * qpow y (n - j)).
Proof.
  induction n as [|n IH].
  - cbn [seq]. rewrite bigsum_cons, bigsum_nil, bq_0_r. cbn [qpow Nat.sub]. ring.
  - rewrite qpow_S, IH. rewrite (bigsum_seq_first (S n)).
    rewrite bq_0_r, Nat.sub_0_r.
    assert (HS : bigsum (seq 0 (S n)) (fun j => bq (S n) (S j) * qpow x (S j) * qpow y (S n - S j))
                 = x * bigsum (seq 0 (S n)) (fun j => bq n j * qpow x j * qpow y (n - j))
                   + bigsum (seq 0 (S n)) (fun j => bq n (S j) * qpow x (S j) * qpow y (n - j))).
    { rewrite <- bigsum_scal, <- bigsum_add. apply bigsum_ext. intros j _.
      rewrite bq_S. cbn [qpow Nat.sub]. ring. }
    rewrite HS. clear HS.
    rewrite (bigsum_seq_last n (fun j => bq n (S j) * qpow x (S j) * qpow y (n - j))).
    rewrite (bq_gt n (S n)) by lia.
    rewrite (bigsum_seq_first n (fun j => bq n j * qpow x j * qpow y (n - j))).
    rewrite bq_0_r, Nat.sub_0_r.
    assert (HY : bigsum (seq 0 n) (fun j => bq n (S j) * qpow x (S j) * qpow y (n - j))
                 = y * bigsum (seq 0 n) (fun j => bq n (S j) * qpow x (S j) * qpow y (n - S j))).
    { rewrite <- bigsum_scal. apply bigsum_ext. intros j Hj. apply in_seq in Hj.
      replace (n - j)%nat with (S (n - S j)) by lia. cbn [qpow]. ring. }
    rewrite HY. cbn [qpow]. ring.
Qed.

(* ------------------------------------------------------------------------------------ *)
(** * 5. Finite laws                                                                   *)
(* ------------------------------------------------------------------------------------ *)

(* a finite law: list of (weight, value); E f = sum of w * f v *)
Definition law := list (Qc * Qc).
Definition Ex (L : law) (f : Qc -> Qc) : Qc := bigsum L (fun p => fst p * f (snd p)).
Definition mass (L : law) : Qc := Ex L (fun _ => 1).
Definition nonneg_weights (L : law) : Prop := forall p, In p L -> 0 <= fst p.
Definition is_prob (L : law) : Prop := nonneg_weights L /\ mass L = 1.
Definition support_ge (L : law) (c : Qc) : Prop := forall p, In p L -> c <= snd p.
Definition raw (L : law) (k : nat) : Qc := Ex L (fun v => qpow v k).
Definition central (L : law) (i : nat) : Qc := Ex L (fun v => qpow (v - raw L 1) i).
Definition Pge (L : law) (a : Qc) : Qc := Ex L (fun v => if Qc_leb a v then 1 else 0).
Definition Pgt (L : law) (a : Qc) : Qc := Ex L (fun v => if Qc_ltb a v then 1 else 0).

Lemma Ex_ext L f g : (forall p, In p L -> f (snd p) = g (snd p)) -> Ex L f = Ex L g.
Proof. intros H. apply bigsum_ext. intros p Hp. rewrite H by exact Hp. reflexivity. Qed.
Lemma Ex_add L f g : Ex L (fun v => f v + g v) = Ex L f + Ex L g.
Proof. unfold Ex. rewrite <- bigsum_add. apply bigsum_ext. intros; ring. Qed.
Lemma Ex_scal L c f : Ex L (fun v => c * f v) = c * Ex L f.
Proof. unfold Ex. rewrite <- bigsum_scal. apply bigsum_ext. intros; ring. Qed.
Lemma Ex_const L c : Ex L (fun _ => c) = c * mass L.
Proof. unfold mass. rewrite <- Ex_scal. apply Ex_ext. intros; ring. Qed.
Lemma Ex_bigsum {A} L (l : list A) (f : A -> Qc -> Qc) :
  Ex L (fun v => bigsum l (fun j => f j v)) = bigsum l (fun j => Ex L (f j)).
Proof.
  unfold Ex. rewrite bigsum_swap. apply bigsum_ext. intros p _. rewrite <- bigsum_scal. reflexivity.
Qed.
Lemma Ex_le L f g : nonneg_weights L -> (forall p, In p L -> f (snd p) <= g (snd p)) -> Ex L f <= Ex L g.
Proof.
  intros HW H. apply bigsum_le. intros p Hp. rewrite (Qcmult_comm (fst p)), (Qcmult_comm (fst p) (g _)).
  apply Qcmult_le_compat_r; [apply H; exact Hp | apply HW; exact Hp].
Qed.
Lemma Ex_nonneg L f : nonneg_weights L -> (forall p, In p L -> 0 <= f (snd p)) -> 0 <= Ex L f.
Proof.
  intros HW H. apply bigsum_nonneg. intros p Hp. apply Qcmult_nonneg; [apply HW | apply H]; exact Hp.
Qed.
Lemma raw_0 L : raw L 0 = mass L. Proof. reflexivity. Qed.

(* binomial expansion of the i-th central moment in raw moments (raw L 0 = total mass) *)
Theorem central_expansion L i :
  central L i = bigsum (seq 0 (S i)) (fun j => bq i j * raw L j * qpow (- raw L 1) (i - j)).
Proof.
  unfold central. set (mu := raw L 1).
  rewrite (Ex_ext L _ (fun v => bigsum (seq 0 (S i)) (fun j => bq i j * qpow v j * qpow (- mu) (i - j)))).
  2:{ intros p _. unfold Qcminus. apply binomial_theorem. }
  rewrite Ex_bigsum. apply bigsum_ext. intros j _. unfold raw.
  rewrite (Ex_ext L _ (fun v => (bq i j * qpow (- mu) (i - j)) * qpow v j)) by (intros; ring).
  rewrite Ex_scal. ring.
Qed.

(* ---- Markov ---- *)
Theorem markov_core L a k :
  nonneg_weights L -> support_ge L 0 -> 0 < a -> Pge L a <= raw L k / qpow a k.
Proof.
  intros HW HS Ha. apply Qcle_div_r; [apply qpow_pos; exact Ha|].
  unfold Pge, raw. rewrite Qcmult_comm, <- Ex_scal. apply Ex_le; [exact HW|].
  intros p Hp. destruct (Qc_leb a (snd p)) eqn:E.
  - apply Qc_leb_true in E. rewrite Qcmult_1_r. apply qpow_le_compat; [apply Qclt_le_weak; exact Ha | exact E].
  - rewrite Qcmult_0_r. apply qpow_nonneg. apply HS. exact Hp.
Qed.

(* ---- Cauchy-Schwarz for weighted lists, via the discriminant ---- *)
Lemma quad_disc (A B C : Qc) :
  0 <= B -> (forall t, 0 <= C - (1 + 1) * t * A + t * t * B) -> A * A <= C * B.
Proof.
  intros HB H. destruct (Qc_eq_dec B 0) as [EB|NB].
  - subst B. destruct (Qc_eq_dec A 0) as [EA|NA].
    + subst A. replace (0 * 0) with 0 by ring. replace (C * 0) with 0 by ring. apply Qcle_refl.
    + exfalso. specialize (H ((C + 1) / ((1 + 1) * A))).
      replace (C - (1 + 1) * ((C + 1) / ((1 + 1) * A)) * A + (C + 1) / ((1 + 1) * A) * ((C + 1) / ((1 + 1) * A)) * 0)
        with (- (1)) in H.
      2:{ field. split; [exact NA|]. intros E. discriminate E. }
      revert H. unfold Qcle. change (this 0) with 0%Q. change (this (- (1))) with (-1 # 1)%Q. lra.
  - assert (PB : 0 < B).
    { destruct (Qcle_lt_or_eq _ _ HB) as [L|E]; [exact L | exfalso; apply NB; symmetry; exact E]. }
    specialize (H (A / B)).
    replace (C - (1 + 1) * (A / B) * A + A / B * (A / B) * B) with ((C * B - A * A) / B) in H by (field; exact NB).
    apply Qcle_minus_iff. fold (Qcminus (C * B) (A * A)).
    replace (C * B - A * A) with ((C * B - A * A) / B * B) by (field; exact NB).
    apply Qcmult_nonneg; [exact H | apply Qclt_le_weak; exact PB].
Qed.

Theorem cauchy_schwarz L f g :
  nonneg_weights L ->
  Ex L (fun v => f v * g v) * Ex L (fun v => f v * g v) <= Ex L (fun v => f v * f v) * Ex L (fun v => g v * g v).
Proof.
  intros HW. apply quad_disc.
  - apply Ex_nonneg; [exact HW|]. intros; apply Qcle_0_sq.
  - intros t.
    replace (Ex L (fun v => f v * f v) - (1 + 1) * t * Ex L (fun v => f v * g v) + t * t * Ex L (fun v => g v * g v))
      with (Ex L (fun v => (f v - t * g v) * (f v - t * g v))).
    + apply Ex_nonneg; [exact HW|]. intros; apply Qcle_0_sq.
    + rewrite (Ex_ext L _ (fun v => f v * f v + ((- ((1 + 1) * t)) * (f v * g v) + (t * t) * (g v * g v))))
        by (intros; ring).
      rewrite !Ex_add, !Ex_scal. ring.
Qed.

(* ---- second-moment lower bound: Y = X - a >= 0  ==>  (E Y)^2 <= E Y^2 * P(Y > 0) ---- *)
Theorem second_moment_core L a :
  nonneg_weights L -> support_ge L a ->
  Ex L (fun v => v - a) * Ex L (fun v => v - a) <= Ex L (fun v => (v - a) * (v - a)) * Pgt L a.
Proof.
  intros HW HS. unfold Pgt.
  set (g := fun v => if Qc_ltb a v then 1 else 0).
  assert (E1 : Ex L (fun v => v - a) = Ex L (fun v => (v - a) * g v)).
  { apply Ex_ext. intros p Hp. unfold g. destruct (Qc_ltb a (snd p)) eqn:E; [ring|].
    apply Qc_ltb_false in E. assert (snd p = a) as -> by (apply Qcle_antisym; [exact E | apply HS; exact Hp]). ring. }
  assert (E2 : Ex L g = Ex L (fun v => g v * g v)).
  { apply Ex_ext. intros p _. unfold g. destruct (Qc_ltb a (snd p)); ring. }
  rewrite E1, E2. apply cauchy_schwarz. exact HW.
Qed.

Lemma Pgt_nonneg L a : nonneg_weights L -> 0 <= Pgt L a.
Proof.
  intros HW. apply Ex_nonneg; [exact HW|]. intros p _. destruct (Qc_ltb a (snd p)); [apply Qc_0_le_1 | apply Qcle_refl].
Qed.

Lemma Ex_shift1 L a : mass L = 1 -> Ex L (fun v => v - a) = raw L 1 - a.
Proof.
  intros HM. unfold raw, Qcminus. rewrite Ex_add. rewrite Ex_const, HM.
  rewrite (Ex_ext L (fun v => qpow v 1) (fun v => v)) by (intros; apply qpow_one). ring.
Qed.
Lemma Ex_shift2 L a : mass L = 1 ->
  Ex L (fun v => (v - a) * (v - a)) = raw L 2 - (1 + 1) * a * raw L 1 + a * a.
Proof.
  intros HM. unfold raw.
  rewrite (Ex_ext L _ (fun v => qpow v 2 + ((- ((1 + 1) * a)) * qpow v 1 + a * a))) by (intros; cbn [qpow]; ring).
  rewrite !Ex_add, Ex_scal, Ex_const, HM. ring.
Qed.

(* x / y <= p as soon as x <= y * p, 0 <= y, 0 <= p  (Qc: x / 0 = 0) *)
Lemma Qcdiv_le_of_mul x y p : 0 <= y -> 0 <= p -> x <= y * p -> x / y <= p.
Proof.
  intros Hy Hp H. destruct (Qc_eq_dec y 0) as [E|N].
  - subst y. unfold Qcdiv. replace (/ 0) with 0 by reflexivity. rewrite Qcmult_0_r. exact Hp.
  - apply Qcle_div_l.
    + destruct (Qcle_lt_or_eq _ _ Hy) as [L|E]; [exact L | exfalso; apply N; symmetry; exact E].
    + rewrite Qcmult_comm. exact H.
Qed.
