(* Commutative rings with a sound boolean equality test, as records, so that the
   validators can be instantiated at Qc, at quadratic extensions, and at towers of them. *)
From Coq Require Import List Bool Ring Ring_theory QArith Qcanon.
Import ListNotations.

Record cring := {
  car :> Type;
  r0 : car; r1 : car;
  radd : car -> car -> car;
  rmul : car -> car -> car;
  rsub : car -> car -> car;
  ropp : car -> car;
  reqb : car -> car -> bool;
  rth : ring_theory r0 r1 radd rmul rsub ropp (@eq car);
  reqb_eq : forall x y, reqb x y = true -> x = y }.

Arguments r0 {_}. Arguments r1 {_}.
Arguments radd {_} _ _. Arguments rmul {_} _ _. Arguments rsub {_} _ _.
Arguments ropp {_} _. Arguments reqb {_} _ _.

Declare Scope cr_scope.
Delimit Scope cr_scope with cr.
Infix "+" := radd : cr_scope.
Infix "*" := rmul : cr_scope.
Infix "-" := rsub : cr_scope.
Notation "- x" := (ropp x) : cr_scope.

(* ---- Qc ---- *)
Lemma Qc_eqb_eq : forall x y : Qc, Qc_eq_bool x y = true -> x = y.
Proof. intros x y H. apply Qc_eq_bool_correct. exact H. Qed.

Definition Qc_cring : cring :=
  {| car := Qc; r0 := 0%Qc; r1 := 1%Qc; radd := Qcplus; rmul := Qcmult;
     rsub := Qcminus; ropp := Qcopp; reqb := Qc_eq_bool;
     rth := Qcrt; reqb_eq := Qc_eqb_eq |}.

(* ---- quadratic extension R[t]/(t^2 - d), elements a + b t as pairs ---- *)
Section Quad.
  Variable R : cring.
  Variable d : R.
  Add Ring Rring : (rth R).
  Local Open Scope cr_scope.

  Definition qcar : Type := (R * R)%type.
  Definition q0 : qcar := (r0, r0).
  Definition q1 : qcar := (r1, r0).
  Definition qadd (x y : qcar) : qcar := (fst x + fst y, snd x + snd y).
  Definition qmul (x y : qcar) : qcar :=
    (fst x * fst y + d * (snd x * snd y), fst x * snd y + snd x * fst y).
  Definition qopp (x : qcar) : qcar := (- fst x, - snd x).
  Definition qsub (x y : qcar) : qcar := (fst x - fst y, snd x - snd y).
  Definition qeqb (x y : qcar) : bool := reqb (fst x) (fst y) && reqb (snd x) (snd y).

  Lemma quad_rth : ring_theory q0 q1 qadd qmul qsub qopp (@eq qcar).
  Proof.
    constructor; unfold q0, q1, qadd, qmul, qsub, qopp; intros;
      repeat match goal with x : qcar |- _ => destruct x end; simpl; f_equal; ring.
  Qed.

  Lemma qeqb_eq : forall x y, qeqb x y = true -> x = y.
  Proof.
    intros [a b] [a' b']; unfold qeqb; simpl; intros H.
    apply andb_true_iff in H; destruct H as [H1 H2].
    apply reqb_eq in H1; apply reqb_eq in H2; subst; reflexivity.
  Qed.

  Definition quad_cring : cring :=
    {| car := qcar; r0 := q0; r1 := q1; radd := qadd; rmul := qmul; rsub := qsub;
       ropp := qopp; reqb := qeqb; rth := quad_rth; reqb_eq := qeqb_eq |}.

  (* the generator satisfies t^2 = d *)
  Lemma quad_gen_sq : qmul (r0, r1) (r0, r1) = (d, r0).
  Proof. unfold qmul; simpl; f_equal; ring. Qed.
End Quad.
