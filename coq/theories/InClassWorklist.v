(* C18: model of RecBuilder.get_recurrences — the monomial worklist — with explicit fuel.

   Python (recurrences/rec_builder.py):
     to_process = {monomial}; processed = set(); recurrence_dict = {}
     while to_process:
         next_monom = to_process.pop()
         recurrence_dict[next_monom] = self.get_recurrence(next_monom)
         processed.add(next_monom)
         for _, monom in get_monoms(recurrence_dict[next_monom], constant_symbols=self.program.symbols):
             if monom not in processed: to_process.add(monom)
   [to_process] is a SET: adding a monomial that is already waiting is a no-op; the model keeps
   it as a duplicate-free list (pop = head; the pop order of a Python set is unspecified and
   does not matter for any statement below).  get_recurrence is [Wp.wp_gas] (C03).  In the
   model symbolic parameters are ordinary never-assigned variables, so they stay inside the
   monomials instead of the coefficients; this does not change finiteness.

   Theorems (for ALL step functions, hence all flat programs, types and goal monomials):
     worklist_closed / recurrences_closed   every monomial on a right-hand side of a returned
                                            system has its own equation in the system
     recurrences_rows                       every equation is the step function's answer
     recurrences_goal                       the goal monomial has an equation
     refusal_is_error                       the result is None or such a complete system
     recurrences_terminate                  if a finite universe U of monomials contains the
                                            goal and is closed under the step function, fuel
                                            |U| suffices  (explicit bound)
     universe_closedb_sound                 executable test of that hypothesis *)
From Coq Require Import List String QArith Qcanon ZArith Bool Arith Lia.
From Polar Require Import Qcx CRing ExpPoly ClosedForm Dist Syntax Sem Types Poly Pipeline Wp.
Import ListNotations.

Lemma mono_eqb_refl m : mono_eqb m m = true.
Proof.
  induction m as [|[x k] m IH]; simpl; [reflexivity|].
  unfold var_eqb. rewrite String.eqb_refl, Nat.eqb_refl, IH. reflexivity.
Qed.

Definition mono_mem (m : mono) (l : list mono) : bool := existsb (mono_eqb m) l.
Lemma mono_mem_In m l : mono_mem m l = true <-> In m l.
Proof.
  unfold mono_mem. rewrite existsb_exists. split.
  - intros (m' & Hin & He). apply mono_eqb_eq in He. subst. exact Hin.
  - intros H. exists m. split; [exact H | apply mono_eqb_refl].
Qed.
Lemma mono_mem_false m l : mono_mem m l = false <-> ~ In m l.
Proof.
  rewrite <- mono_mem_In. destruct (mono_mem m l); split; intros H.
  - discriminate H.
  - exfalso. apply H. reflexivity.
  - intros H'. discriminate H'.
  - reflexivity.
Qed.

(* get_monoms without the constant term *)
Definition nonconst (m : mono) : bool := match m with [] => false | _ => true end.
Definition rhs_monos (q : poly) : list mono := filter nonconst (map snd q).

Section Worklist.
  (* get_recurrence: None = the refusal (an exception in Polar) *)
  Variable step : mono -> option poly.

  (* to_process.add(m) guarded by "m not in processed" *)
  Definition push (done : list mono) (todo : list mono) (m : mono) : list mono :=
    if mono_mem m done || mono_mem m todo then todo else todo ++ [m].

  Fixpoint worklist (fuel : nat) (todo : list mono) (sys : list (mono * poly)) : option (list (mono * poly)) :=
    match todo with
    | [] => Some sys
    | m :: todo' =>
        match fuel with
        | O => None
        | S f =>
            match step m with
            | None => None
            | Some q =>
                let sys' := (m, q) :: sys in
                worklist f (fold_left (push (map fst sys')) (rhs_monos q) todo') sys'
            end
        end
    end.

  Definition recurrences (fuel : nat) (M : mono) : option (list (mono * poly)) :=
    worklist fuel [mnorm M] [].

  (* ---- push ---- *)
  Lemma push_keeps done todo m x : In x todo -> In x (push done todo m).
  Proof. unfold push; intros H. destruct (_ || _); [exact H | apply in_or_app; left; exact H]. Qed.
  Lemma push_adds done todo m : In m done \/ In m (push done todo m).
  Proof.
    unfold push. destruct (mono_mem m done) eqn:E1; cbn [orb].
    - left. apply mono_mem_In; exact E1.
    - destruct (mono_mem m todo) eqn:E2.
      + right. apply mono_mem_In; exact E2.
      + right. apply in_or_app; right; left; reflexivity.
  Qed.
  Lemma push_only done todo m x : In x (push done todo m) -> In x todo \/ (x = m /\ ~ In m done /\ ~ In m todo).
  Proof.
    unfold push. destruct (mono_mem m done) eqn:E1; cbn [orb]; [auto|].
    destruct (mono_mem m todo) eqn:E2; [auto|].
    intros H. apply in_app_or in H. destruct H as [H|[<-|[]]]; [auto|].
    right. split; [reflexivity|]. split; apply mono_mem_false; assumption.
  Qed.

  Lemma pushes_keep done l todo x : In x todo -> In x (fold_left (push done) l todo).
  Proof. revert todo; induction l as [|m l IH]; intros todo H; cbn [fold_left]; [exact H | apply IH, push_keeps, H]. Qed.
  Lemma pushes_add done l todo m : In m l -> In m done \/ In m (fold_left (push done) l todo).
  Proof.
    revert todo; induction l as [|a l IH]; intros todo H; [destruct H|]. cbn [fold_left].
    destruct H as [->|H]; [|apply IH; exact H].
    destruct (push_adds done todo m) as [Hd|Hp]; [left; exact Hd | right; apply pushes_keep; exact Hp].
  Qed.
  Lemma pushes_only done l todo x :
    In x (fold_left (push done) l todo) -> In x todo \/ (In x l /\ ~ In x done).
  Proof.
    revert todo; induction l as [|a l IH]; intros todo H; cbn [fold_left] in H; [left; exact H|].
    destruct (IH _ H) as [H1|[H1 H2]].
    - destruct (push_only _ _ _ _ H1) as [H3|(-> & H3 & _)]; [left; exact H3 | right; split; [left; reflexivity | exact H3]].
    - right. split; [right; exact H1 | exact H2].
  Qed.
  Lemma pushes_nodup done l todo : NoDup todo -> NoDup (fold_left (push done) l todo).
  Proof.
    revert todo; induction l as [|a l IH]; intros todo H; cbn [fold_left]; [exact H|].
    apply IH. unfold push. destruct (mono_mem a done) eqn:E1; cbn [orb]; [exact H|].
    destruct (mono_mem a todo) eqn:E2; [exact H|].
    apply mono_mem_false in E2.
    clear - H E2. induction todo as [|b todo IHt]; cbn [app].
    - constructor; [intros [] | constructor].
    - inversion H as [|? ? Hb Hnd]; subst. constructor.
      + intros Hin. apply in_app_or in Hin. destruct Hin as [Hin|[<-|[]]]; [exact (Hb Hin)|].
        apply E2; left; reflexivity.
      + apply IHt; [exact Hnd | intros Hin; apply E2; right; exact Hin].
  Qed.

  (* ---- the returned system is closed, its rows are the step function's answers, and the
     goal is one of its rows ---- *)
  Definition closed_sys (sys : list (mono * poly)) : Prop :=
    forall m q, In (m, q) sys -> forall m', In m' (rhs_monos q) -> In m' (map fst sys).
  Definition rows_ok (sys : list (mono * poly)) : Prop :=
    forall m q, In (m, q) sys -> step m = Some q.

  Definition wl_inv (todo : list mono) (sys : list (mono * poly)) : Prop :=
    forall m q, In (m, q) sys -> forall m', In m' (rhs_monos q) -> In m' (map fst sys) \/ In m' todo.

  Lemma worklist_closed fuel : forall todo sys res,
    worklist fuel todo sys = Some res -> wl_inv todo sys -> closed_sys res.
  Proof.
    induction fuel as [|f IH]; intros [|m todo] sys res H Hinv; cbn [worklist] in H; try discriminate.
    - injection H as <-. intros m q Hin m' Hm'. destruct (Hinv m q Hin m' Hm') as [Hd|[]]; exact Hd.
    - injection H as <-. intros m q Hin m' Hm'. destruct (Hinv m q Hin m' Hm') as [Hd|[]]; exact Hd.
    - destruct (step m) as [q|] eqn:Es; [|discriminate].
      apply (IH _ _ _ H). clear H IH.
      intros m1 q1 Hin m' Hm'. cbn [map fst].
      destruct Hin as [Heq|Hin].
      + injection Heq as <- <-.
        destruct (pushes_add (m :: map fst sys) (rhs_monos q) todo m' Hm') as [Hd|Hp]; [left; exact Hd | right; exact Hp].
      + destruct (Hinv m1 q1 Hin m' Hm') as [Hd|[<-|Ht]].
        * left; right; exact Hd.
        * left; left; reflexivity.
        * right. apply pushes_keep. exact Ht.
  Qed.

  Lemma worklist_rows fuel : forall todo sys res,
    worklist fuel todo sys = Some res -> rows_ok sys -> rows_ok res.
  Proof.
    induction fuel as [|f IH]; intros [|m todo] sys res H Hr; cbn [worklist] in H; try discriminate.
    - injection H as <-; exact Hr.
    - injection H as <-; exact Hr.
    - destruct (step m) as [q|] eqn:Es; [|discriminate].
      apply (IH _ _ _ H). intros m1 q1 [Heq|Hin]; [injection Heq as <- <-; exact Es | apply Hr; exact Hin].
  Qed.

  Lemma worklist_keeps fuel : forall todo sys res x,
    worklist fuel todo sys = Some res -> In x (map fst sys) \/ In x todo -> In x (map fst res).
  Proof.
    induction fuel as [|f IH]; intros [|m todo] sys res x H Hx; cbn [worklist] in H; try discriminate.
    - injection H as <-. destruct Hx as [Hx|[]]; exact Hx.
    - injection H as <-. destruct Hx as [Hx|[]]; exact Hx.
    - destruct (step m) as [q|] eqn:Es; [|discriminate].
      apply (IH _ _ _ x H). cbn [map fst].
      destruct Hx as [Hx|[<-|Hx]]; [left; right; exact Hx | left; left; reflexivity | right; apply pushes_keep; exact Hx].
  Qed.

  Theorem recurrences_closed fuel M sys : recurrences fuel M = Some sys -> closed_sys sys.
  Proof. intros H. apply (worklist_closed _ _ _ _ H). intros m q []. Qed.
  Theorem recurrences_rows fuel M sys : recurrences fuel M = Some sys -> rows_ok sys.
  Proof. intros H. apply (worklist_rows _ _ _ _ H). intros m q []. Qed.
  Theorem recurrences_goal fuel M sys : recurrences fuel M = Some sys -> In (mnorm M) (map fst sys).
  Proof. intros H. apply (worklist_keeps _ _ _ _ _ H). right; left; reflexivity. Qed.

  (* a refusal is an error: the answer is None, or a COMPLETE system — never a partial one *)
  Theorem refusal_is_error fuel M :
    recurrences fuel M = None \/
    exists sys, recurrences fuel M = Some sys /\ closed_sys sys /\ rows_ok sys /\ In (mnorm M) (map fst sys).
  Proof.
    destruct (recurrences fuel M) as [sys|] eqn:E; [right | left; reflexivity].
    exists sys. split; [reflexivity|]. split; [eapply recurrences_closed; eauto|].
    split; [eapply recurrences_rows; eauto | eapply recurrences_goal; eauto].
  Qed.
  (* ... and a refusal of any reachable monomial refuses the whole request *)
  Lemma worklist_step_fails fuel m todo sys : step m = None -> worklist fuel (m :: todo) sys = None.
  Proof. intros H. destruct fuel; cbn [worklist]; [reflexivity | rewrite H; reflexivity]. Qed.

  (* ---- termination inside a closed finite universe, explicit fuel ---- *)
  Definition universe_closed (U : list mono) : Prop :=
    forall m, In m U -> exists q, step m = Some q /\ forall m', In m' (rhs_monos q) -> In m' U.

  Lemma worklist_terminates U : universe_closed U ->
    forall (fuel : nat) todo (sys : list (mono * poly)),
      NoDup todo -> incl todo U ->
      NoDup (map fst sys) -> incl (map fst sys) U ->
      (forall x, In x todo -> ~ In x (map fst sys)) ->
      (List.length U <= fuel + List.length sys)%nat ->
      worklist fuel todo sys <> None.
  Proof.
    intros HU. induction fuel as [|f IH]; intros [|m todo] sys Hnd Hin Hnds Hins Hdis Hlen; cbn [worklist]; try discriminate.
    - (* no fuel but a waiting monomial: impossible, m :: done is duplicate-free inside U *)
      exfalso.
      assert (Hn : NoDup (m :: map fst sys)) by (constructor; [apply Hdis; left; reflexivity | exact Hnds]).
      assert (Hi : incl (m :: map fst sys) U) by (intros x [<-|Hx]; [apply Hin; left; reflexivity | apply Hins; exact Hx]).
      pose proof (NoDup_incl_length Hn Hi) as Hl. cbn [List.length] in Hl. rewrite map_length in Hl. lia.
    - destruct (HU m (Hin m (or_introl eq_refl))) as (q & Es & Hq). rewrite Es.
      inversion Hnd as [|? ? Hm Hnd']; subst.
      apply IH.
      + apply pushes_nodup; exact Hnd'.
      + intros x Hx. destruct (pushes_only _ _ _ _ Hx) as [H1|[H1 _]]; [apply Hin; right; exact H1 | apply Hq; exact H1].
      + cbn [map fst]. constructor; [apply Hdis; left; reflexivity | exact Hnds].
      + cbn [map fst]. intros x [<-|Hx]; [apply Hin; left; reflexivity | apply Hins; exact Hx].
      + intros x Hx. cbn [map fst]. destruct (pushes_only _ _ _ _ Hx) as [H1|[_ H2]]; [|exact H2].
        intros [<-|Hs]; [exact (Hm H1) | exact (Hdis x (or_intror H1) Hs)].
      + cbn [List.length]. lia.
  Qed.

  Theorem recurrences_terminate U fuel M :
    universe_closed U -> In (mnorm M) U -> (List.length U <= fuel)%nat ->
    exists sys, recurrences fuel M = Some sys /\ closed_sys sys /\ rows_ok sys /\ In (mnorm M) (map fst sys).
  Proof.
    intros HU HM Hlen.
    destruct (refusal_is_error fuel M) as [Hn|Hs]; [|exact Hs].
    exfalso. revert Hn. apply (worklist_terminates U HU).
    - constructor; [intros [] | constructor].
    - intros x [<-|[]]; exact HM.
    - constructor.
    - intros x [].
    - intros x _ [].
    - cbn [List.length]. lia.
  Qed.

  (* executable test of the hypothesis *)
  Definition universe_closedb (U : list mono) : bool :=
    forallb (fun m => match step m with
                      | Some q => forallb (fun m' => mono_mem m' U) (rhs_monos q)
                      | None => false
                      end) U.
  Lemma universe_closedb_sound U : universe_closedb U = true -> universe_closed U.
  Proof.
    unfold universe_closedb. rewrite forallb_forall. intros H m Hm. specialize (H m Hm).
    destruct (step m) as [q|]; [|discriminate]. exists q. split; [reflexivity|].
    rewrite forallb_forall in H. intros m' Hm'. apply mono_mem_In. apply H; exact Hm'.
  Qed.

  (* a system that was returned once is itself a closed universe: its size bounds the fuel
     for EVERY monomial of the system *)
  Theorem returned_system_is_universe fuel0 M0 sys :
    recurrences fuel0 M0 = Some sys -> universe_closed (map fst sys).
  Proof.
    intros H m Hm. apply in_map_iff in Hm. destruct Hm as ([m1 q] & <- & Hin). cbn [fst].
    exists q. split; [apply (recurrences_rows _ _ _ H); exact Hin|].
    intros m' Hm'. apply (recurrences_closed _ _ _ H m1 q Hin m' Hm').
  Qed.
End Worklist.

(* ---- instance: Polar's get_recurrence on a flat program ---- *)
Definition polar_step (cmom : string -> list Qc -> nat -> Qc) (fp : flatprog) (T : tenv) (m : mono) : option poly :=
  wp_gas cmom T (fp_body fp) [(1%Qc, m)].

Definition recurrences_fp cmom (fuel : nat) (fp : flatprog) (T : tenv) (M : mono) :=
  recurrences (polar_step cmom fp T) fuel M.

(* every returned equation is an exact one-step expectation identity on typed states (C03) *)
Theorem recurrences_fp_exact law cmom fuel fp T M sys :
  cmom_ok law cmom -> forallb (check_ga T) (fp_body fp) = true ->
  recurrences_fp cmom fuel fp T M = Some sys ->
  forall m q, In (m, q) sys -> forall s, typed T s ->
    E (fstep law fp s) (eval_mono m) = eval_poly q s.
Proof.
  intros Hc Hck H m q Hin s Hs.
  pose proof (recurrences_rows _ _ _ _ H m q Hin) as Hq. unfold polar_step in Hq.
  unfold fstep. rewrite <- (wp_gas_exact law cmom T (fp_body fp) Hc Hck [(1%Qc, m)] q s Hs Hq).
  apply E_ext. intros s'. symmetry. apply eval_single.
Qed.

(* ---- the simplest class: all variables finitely typed.  The universe of type-reduced monomials
   (every typed variable with an exponent below the size of its type) is explicit and has
   prod |T x| elements; inside it the worklist needs at most that much fuel.  That the universe
   is closed under get_recurrence is decided by [universe_closedb] (kernel evaluation on Polar's
   own flat programs, ./check C18); a proof for all flat programs whose variables are all typed
   needs two facts about Poly.ptidy that are not proved here: its monomials are in normal form
   with reduced exponents (degree bound of Poly.reduced_power) and mention only variables of the
   program. ---- *)
Fixpoint expvecs (T : tenv) : list mono :=
  match T with
  | [] => [[]]
  | (x, vs) :: T' =>
      flat_map (fun e => map (fun m => match e with O => m | _ => (x, e) :: m end) (expvecs T')) (seq 0 (List.length vs))
  end.
Definition reduced_universe (T : tenv) : list mono := map mnorm (expvecs T).
Fixpoint prod_sizes (T : tenv) : nat :=
  match T with [] => 1%nat | (_, vs) :: T' => (List.length vs * prod_sizes T')%nat end.

Lemma flat_map_const_length {A B} (f : A -> list B) (l : list A) (n : nat) :
  (forall a, In a l -> List.length (f a) = n) -> List.length (flat_map f l) = (List.length l * n)%nat.
Proof.
  induction l as [|a l IH]; intros H; cbn [flat_map List.length]; [reflexivity|].
  rewrite app_length, (H a (or_introl eq_refl)), IH; [lia | intros b Hb; apply H; right; exact Hb].
Qed.
Lemma expvecs_length T : List.length (expvecs T) = prod_sizes T.
Proof.
  induction T as [|[x vs] T IH]; cbn [expvecs prod_sizes]; [reflexivity|].
  rewrite (flat_map_const_length _ _ (prod_sizes T)).
  - rewrite seq_length. reflexivity.
  - intros e _. rewrite map_length. exact IH.
Qed.
Lemma reduced_universe_length T : List.length (reduced_universe T) = prod_sizes T.
Proof. unfold reduced_universe. rewrite map_length. apply expvecs_length. Qed.

Theorem finite_class_terminates cmom fp T M :
  universe_closedb (polar_step cmom fp T) (reduced_universe T) = true ->
  In (mnorm M) (reduced_universe T) ->
  exists sys, recurrences_fp cmom (prod_sizes T) fp T M = Some sys /\
              closed_sys sys /\ rows_ok (polar_step cmom fp T) sys /\ In (mnorm M) (map fst sys).
Proof.
  intros Hc HM. unfold recurrences_fp.
  apply (recurrences_terminate (polar_step cmom fp T) (reduced_universe T)).
  - apply universe_closedb_sound; exact Hc.
  - exact HM.
  - rewrite reduced_universe_length. apply Nat.le_refl.
Qed.
