(* Composition (C01, C03): if the type environment is validated (C05), the linear system is
   an exact one-step identity on typed states (C03) and the closed form is validated against
   the system (C04), then the closed form equals the exact moments at EVERY n. *)
From Coq Require Import List String QArith Qcanon ZArith Bool Ring.
From Polar Require Import Qcx CRing ExpPoly ClosedForm Dist Syntax Sem Types.
Import ListNotations.
Local Open Scope Qc_scope.

Section Pipeline.
  Variable law : string -> list Qc -> dist Qc.

  Notation vecQ := (list Qc).
  Definition dotQ : list Qc -> list Qc -> Qc := @dot Qc_cring.
  Definition mvecQ : list (list Qc) -> list Qc -> list Qc := @mvec Qc_cring.

  Definition mono_vals (ms : list mono) (s : state) : vecQ := map (fun m => eval_mono m s) ms.
  Definition moments_vec (fp : flatprog) (ms : list mono) (n : nat) (s0 : state) : vecQ :=
    map (fun m => E (frun law fp n s0) (eval_mono m)) ms.

  (* C03's statement for one system: on every typed state the expected value of each
     monomial after one execution of the body is its matrix row applied to the monomials *)
  Definition one_step_exact (fp : flatprog) (T : tenv) (ms : list mono) (A : list (list Qc)) : Prop :=
    List.length A = List.length ms /\
    forall s, typed T s -> forall m r, In (m, r) (combine ms A) ->
      E (fstep law fp s) (eval_mono m) = dotQ r (mono_vals ms s).

  Lemma E_dot {X} (d : dist X) (r : list Qc) (fs : list (X -> Qc)) :
    E d (fun a => dotQ r (map (fun f => f a) fs)) = dotQ r (map (fun f => E d f) fs).
  Proof.
    revert fs; induction r as [|c r IH]; intros [|f fs]; simpl; try apply E_zero.
    unfold dotQ in *; simpl. rewrite E_add, E_cmul, IH. reflexivity.
  Qed.

  Lemma mono_vals_as_map ms s : mono_vals ms s = map (fun f => f s) (map eval_mono ms).
  Proof. unfold mono_vals; rewrite map_map; reflexivity. Qed.

  Lemma map_combine_eq {X Y Z} (f : X -> Z) (g : Y -> Z) (l1 : list X) (l2 : list Y) :
    List.length l2 = List.length l1 ->
    (forall a b, In (a, b) (combine l1 l2) -> f a = g b) -> map f l1 = map g l2.
  Proof.
    revert l2; induction l1 as [|a l1 IH]; intros [|b l2]; simpl; intros Hl H; try discriminate; auto.
    f_equal; [apply H; left; reflexivity | apply IH; [congruence | intros; apply H; right; assumption]].
  Qed.

  Lemma moments_step fp T ms A :
    check_types fp T = true -> one_step_exact fp T ms A ->
    forall s0, init_ok fp T s0 ->
    forall n, moments_vec fp ms (S n) s0 = mvecQ A (moments_vec fp ms n s0).
  Proof.
    intros HT [Hlen Hex] s0 H0 n. unfold moments_vec, mvecQ, mvec; simpl.
    set (d := frun law fp n s0).
    assert (Hd : forall w s, In (w, s) d -> typed T s).
    { intros w s Hin. eapply check_types_sound; eauto. exists w; exact Hin. }
    apply map_combine_eq; [exact Hlen|].
    intros m r Hin. rewrite E_bind.
    rewrite (E_ext_in d _ (fun s => dotQ r (mono_vals ms s))).
    - rewrite (E_ext d _ (fun s => dotQ r (map (fun f => f s) (map eval_mono ms)))).
      + rewrite E_dot, map_map. reflexivity.
      + intros s. rewrite mono_vals_as_map. reflexivity.
    - intros w s Hs. apply (Hex s (Hd w s Hs) m r Hin).
  Qed.

  Lemma moments_iter fp T ms A :
    check_types fp T = true -> one_step_exact fp T ms A ->
    forall s0, init_ok fp T s0 ->
    forall n, moments_vec fp ms n s0 = iter_mat (R := Qc_cring) A n (moments_vec fp ms 0 s0).
  Proof.
    intros HT Hex s0 H0 n; induction n as [|n IH]; [reflexivity|].
    rewrite (moments_step fp T ms A HT Hex s0 H0 n), IH. reflexivity.
  Qed.

  (* the composition: validated types + exact system + validated closed form
     => the closed form (with its special cases) IS the vector of exact moments, for all n *)
  Theorem pipeline_flat_sound fp T ms A F sp :
    check_types fp T = true ->
    one_step_exact fp T ms A ->
    forall s0, init_ok fp T s0 ->
    check_solution (R := Qc_cring) A (moments_vec fp ms 0 s0) F sp = true ->
    forall n, pw_eval (R := Qc_cring) F sp n = moments_vec fp ms n s0.
  Proof.
    intros HT Hex s0 H0 Hcs n.
    rewrite (check_solution_sound Qc_cring _ _ _ _ Hcs n).
    symmetry. apply moments_iter with (T := T); assumption.
  Qed.
End Pipeline.
