(* C20, part 2 — process history through caches.  State-passing model of Python's
   functools.lru_cache (and of any dict cache keyed by value): a cache in front of a PURE
   function is transparent for any call sequence, any start content consistent with the
   function, and any eviction / reordering policy.  Purity is the premise: if the function
   changes between two calls (cache keyed by the identity of an object that is mutated
   in between) the stale value is returned — [memo_stale_refuted].
   Part 4 — an Or-chain built by popping a Python set in arbitrary order has the same
   truth value in every state. *)
From Coq Require Import List Bool Arith Lia Permutation String QArith Qcanon.
From Polar Require Import Qcx Dist Syntax Sem.
Import ListNotations.

Section Memo.
  Variables K V : Type.
  Variable keqb : K -> K -> bool.
  (* only soundness of the key test is needed for transparency *)
  Hypothesis keqb_sound : forall x y, keqb x y = true -> x = y.

  Definition table := list (K * V).

  Fixpoint lookup (tbl : table) (x : K) : option V :=
    match tbl with
    | [] => None
    | (k, v) :: t => if keqb x k then Some v else lookup t x
    end.

  Definition memo_call (f : K -> V) (tbl : table) (x : K) : V * table :=
    match lookup tbl x with
    | Some v => (v, tbl)
    | None => (f x, (x, f x) :: tbl)
    end.

  Definition consistent (f : K -> V) (tbl : table) : Prop :=
    forall x v, lookup tbl x = Some v -> v = f x.

  (* [tbl'] may replace [tbl]: every answer of the new table was an answer of the old one.
     Covers eviction of any entries (maxsize), clearing, and LRU reordering. *)
  Definition shrinks (tbl tbl' : table) : Prop :=
    forall x v, lookup tbl' x = Some v -> lookup tbl x = Some v.

  Lemma consistent_nil f : consistent f [].
  Proof. intros x v H; discriminate H. Qed.

  Lemma consistent_shrinks f tbl tbl' : consistent f tbl -> shrinks tbl tbl' -> consistent f tbl'.
  Proof. intros Hc Hs x v H. apply Hc, Hs, H. Qed.

  Lemma memo_call_correct f tbl x :
    consistent f tbl -> fst (memo_call f tbl x) = f x /\ consistent f (snd (memo_call f tbl x)).
  Proof.
    intros Hc. unfold memo_call. destruct (lookup tbl x) as [v|] eqn:E; cbn [fst snd].
    - split; [apply Hc; exact E | exact Hc].
    - split; [reflexivity|]. intros y w. cbn [lookup].
      destruct (keqb y x) eqn:Ey.
      + intros H; inversion H; subst. apply keqb_sound in Ey. subst. reflexivity.
      + apply Hc.
  Qed.

  (* concrete eviction policies satisfy [shrinks] *)
  Lemma shrinks_refl tbl : shrinks tbl tbl.
  Proof. intros x v H; exact H. Qed.
  Lemma shrinks_clear tbl : shrinks tbl [].
  Proof. intros x v H; discriminate H. Qed.
  Lemma shrinks_firstn m tbl : shrinks tbl (firstn m tbl).
  Proof.
    revert tbl; induction m as [|m IH]; intros [|[k w] t] x v; cbn [firstn lookup]; try discriminate; auto.
    destruct (keqb x k); [auto | apply IH].
  Qed.
  Lemma shrinks_filter_keys (p : K -> bool) tbl : shrinks tbl (filter (fun kv => p (fst kv)) tbl).
  Proof.
    induction tbl as [|[k w] t IH]; intros x v; cbn [filter lookup fst]; [auto|].
    destruct (p k) eqn:Ep; cbn [lookup].
    - destruct (keqb x k); [auto | apply IH].
    - intros H. destruct (keqb x k) eqn:Ex.
      + exfalso. apply keqb_sound in Ex. subst k.
        (* x was filtered out: the filtered table cannot answer for it *)
        clear IH. induction t as [|[k' w'] t IHt]; cbn [filter lookup fst] in H; [discriminate|].
        destruct (p k') eqn:Ep'; cbn [lookup] in H; [|auto].
        destruct (keqb x k') eqn:Ex'; [|auto].
        apply keqb_sound in Ex'. subst k'. congruence.
      + apply IH; exact H.
  Qed.

  (* ---- event sequences: calls interleaved with arbitrary table replacements ---- *)
  Inductive event := Call (x : K) | Replace (tbl' : table).

  Fixpoint run (f : K -> V) (tbl : table) (evs : list event) : list V * table :=
    match evs with
    | [] => ([], tbl)
    | Call x :: r =>
        let c := memo_call f tbl x in
        let rr := run f (snd c) r in (fst c :: fst rr, snd rr)
    | Replace t' :: r => run f t' r
    end.

  (* every replacement only forgets / reorders *)
  Fixpoint valid (f : K -> V) (tbl : table) (evs : list event) : Prop :=
    match evs with
    | [] => True
    | Call x :: r => valid f (snd (memo_call f tbl x)) r
    | Replace t' :: r => shrinks tbl t' /\ valid f t' r
    end.

  Fixpoint calls (evs : list event) : list K :=
    match evs with
    | [] => []
    | Call x :: r => x :: calls r
    | Replace _ :: r => calls r
    end.

  Theorem memo_transparent f : forall evs tbl,
    consistent f tbl -> valid f tbl evs ->
    fst (run f tbl evs) = map f (calls evs) /\ consistent f (snd (run f tbl evs)).
  Proof.
    induction evs as [|[x|t'] r IH]; intros tbl Hc Hv; cbn [run calls map fst snd].
    - split; [reflexivity | exact Hc].
    - destruct (memo_call_correct f tbl x Hc) as [H1 H2].
      cbn [valid] in Hv. destruct (IH _ H2 Hv) as [H3 H4].
      split; [rewrite H1, H3; reflexivity | exact H4].
    - cbn [valid] in Hv. destruct Hv as [Hs Hv].
      apply IH; [eapply consistent_shrinks; eauto | exact Hv].
  Qed.

  (* calls only, from any consistent table *)
  Fixpoint run_calls (f : K -> V) (tbl : table) (xs : list K) : list V * table :=
    match xs with
    | [] => ([], tbl)
    | x :: r =>
        let c := memo_call f tbl x in
        let rr := run_calls f (snd c) r in (fst c :: fst rr, snd rr)
    end.

  Theorem memo_calls_transparent f : forall xs tbl,
    consistent f tbl ->
    fst (run_calls f tbl xs) = map f xs /\ consistent f (snd (run_calls f tbl xs)).
  Proof.
    induction xs as [|x r IH]; intros tbl Hc; cbn [run_calls map fst snd].
    - split; [reflexivity | exact Hc].
    - destruct (memo_call_correct f tbl x Hc) as [H1 H2].
      destruct (IH _ H2) as [H3 H4]. split; [rewrite H1, H3; reflexivity | exact H4].
  Qed.

  (* history independence: the results do not depend on the table one starts with *)
  Corollary memo_history_independent f xs tbl1 tbl2 :
    consistent f tbl1 -> consistent f tbl2 ->
    fst (run_calls f tbl1 xs) = fst (run_calls f tbl2 xs).
  Proof.
    intros H1 H2.
    rewrite (proj1 (memo_calls_transparent f xs tbl1 H1)), (proj1 (memo_calls_transparent f xs tbl2 H2)).
    reflexivity.
  Qed.

  (* variant with the membership-based reading of "all entries were in the old table";
     needs the stronger invariant that EVERY entry (also shadowed ones) is correct *)
  Definition all_correct (f : K -> V) (tbl : table) : Prop :=
    forall k v, In (k, v) tbl -> v = f k.

  Lemma lookup_In tbl x v : lookup tbl x = Some v -> In (x, v) tbl.
  Proof.
    induction tbl as [|[k w] t IH]; cbn [lookup]; [discriminate|].
    destruct (keqb x k) eqn:E; intros H.
    - inversion H; subst. apply keqb_sound in E. subst. left; reflexivity.
    - right; apply IH; exact H.
  Qed.

  Lemma all_correct_consistent f tbl : all_correct f tbl -> consistent f tbl.
  Proof. intros H x v L. apply H, lookup_In, L. Qed.

  Fixpoint valid_incl (f : K -> V) (tbl : table) (evs : list event) : Prop :=
    match evs with
    | [] => True
    | Call x :: r => valid_incl f (snd (memo_call f tbl x)) r
    | Replace t' :: r => incl t' tbl /\ valid_incl f t' r
    end.

  Theorem memo_transparent_incl f : forall evs tbl,
    all_correct f tbl -> valid_incl f tbl evs ->
    fst (run f tbl evs) = map f (calls evs) /\ all_correct f (snd (run f tbl evs)).
  Proof.
    induction evs as [|[x|t'] r IH]; intros tbl Hc Hv; cbn [run calls map fst snd].
    - split; [reflexivity | exact Hc].
    - cbn [valid_incl] in Hv.
      destruct (memo_call_correct f tbl x (all_correct_consistent _ _ Hc)) as [H1 _].
      assert (H2 : all_correct f (snd (memo_call f tbl x))).
      { unfold memo_call. destruct (lookup tbl x); cbn [snd]; [exact Hc|].
        intros k v [H|H]; [inversion H; subst; reflexivity | apply Hc; exact H]. }
      destruct (IH _ H2 Hv) as [H3 H4].
      split; [rewrite H1, H3; reflexivity | exact H4].
    - cbn [valid_incl] in Hv. destruct Hv as [Hs Hv].
      apply IH; [|exact Hv]. intros k v Hin. apply Hc, Hs, Hin.
  Qed.
End Memo.

Arguments lookup {K V} _ _ _. Arguments memo_call {K V} _ _ _ _.
Arguments consistent {K V} _ _ _. Arguments shrinks {K V} _ _ _.
Arguments Call {K V} _. Arguments Replace {K V} _.
Arguments run {K V} _ _ _ _. Arguments valid {K V} _ _ _ _. Arguments calls {K V} _.
Arguments run_calls {K V} _ _ _ _.
Arguments all_correct {K V} _ _. Arguments valid_incl {K V} _ _ _ _.

(* Why purity is the premise.  A cache keyed by object identity on a mutable object
   (Distribution.get_moment is lru_cached on self; subs/set_parameters mutate self): the
   function computed from the object is f before and f' after the mutation, the key is
   the same, the second call answers with the value of f. *)
Theorem memo_stale_refuted :
  exists (f f' : nat -> nat) (x : nat),
    fst (memo_call Nat.eqb f' (snd (memo_call Nat.eqb f [] x)) x) <> f' x.
Proof.
  exists (fun _ => 0%nat), (fun _ => 1%nat), 0%nat. vm_compute. discriminate.
Qed.

(* ---- part 4: Or-chains over a set popped in arbitrary order ---- *)
Definition or_chain (x : var) (vs : list Qc) : cond :=
  fold_right (fun v c => COr (CAtom (EVar x) Ceq (EConst v)) c) CFalse vs.

Lemma holds_or_chain x vs s : holds (or_chain x vs) s = existsb (fun v => Qc_eqb (s x) v) vs.
Proof.
  induction vs as [|v vs IH]; [reflexivity|].
  unfold or_chain in *. cbn [fold_right holds existsb eval cop_holds]. rewrite IH. reflexivity.
Qed.

Lemma existsb_perm {A} (p : A -> bool) l l' : Permutation l l' -> existsb p l = existsb p l'.
Proof.
  intros H; induction H as [|a l l' H IH|a b l|l l' l'' H1 IH1 H2 IH2]; cbn [existsb].
  - reflexivity.
  - rewrite IH; reflexivity.
  - destruct (p a), (p b); reflexivity.
  - rewrite IH1; exact IH2.
Qed.

Theorem or_chain_perm_invariant x vs vs' :
  Permutation vs vs' -> forall s, holds (or_chain x vs) s = holds (or_chain x vs') s.
Proof. intros H s. rewrite !holds_or_chain. apply existsb_perm; exact H. Qed.
