(* C06 — reported polynomial invariants hold on the goal sequences.
   Multivariate polynomials over a commutative ring as lists of monomials (coefficient,
   exponent vector over the goal indices).  [poly_eval_ep] evaluates a polynomial at a tuple of
   exponential polynomials INSIDE the exp-poly ring of ExpPoly.v; its evaluation homomorphism
   and [ezero_sound] give the verified validator:
       check_invariant B F = true  ->  forall n, B(F_1(n), ..., F_k(n)) = 0.
   Also: a sound syntactic zero test for polynomials (used by C07 for cofactor identities). *)
From Coq Require Import List Bool Arith Lia Ring.
From Polar Require Import CRing ExpPoly.
Import ListNotations.

Section Inv.
  Variable R : cring.
  Add Ring Rring : (rth R).
  Local Open Scope cr_scope.
  Local Notation z0 := (@r0 R).
  Local Notation z1 := (@r1 R).

  Definition monomial := (R * list nat)%type.
  Definition mpoly := list monomial.

  Fixpoint mon_eval (es : list nat) (xs : list R) : R :=
    match es, xs with
    | e :: es', x :: xs' => rpow x e * mon_eval es' xs'
    | _, _ => z1
    end.
  Fixpoint poly_eval (B : mpoly) (xs : list R) : R :=
    match B with
    | [] => z0
    | m :: B' => fst m * mon_eval (snd m) xs + poly_eval B' xs
    end.

  (* the same, with exponential polynomials for the variables *)
  Fixpoint mon_eval_ep (es : list nat) (F : list (epoly R)) : epoly R :=
    match es, F with
    | e :: es', f :: F' => emul (epow f e) (mon_eval_ep es' F')
    | _, _ => econst z1
    end.
  Fixpoint poly_eval_ep (B : mpoly) (F : list (epoly R)) : epoly R :=
    match B with
    | [] => []
    | m :: B' => eadd (escale (fst m) (mon_eval_ep (snd m) F)) (poly_eval_ep B' F)
    end.

  Definition evalF (F : list (epoly R)) (n : nat) : list R := map (fun f => eeval f n) F.

  Lemma mon_eval_ep_hom es F n : eeval (mon_eval_ep es F) n = mon_eval es (evalF F n).
  Proof.
    revert F; induction es as [|e es IH]; intros [|f F]; cbn [mon_eval_ep mon_eval evalF map];
      try apply eeval_econst.
    rewrite eeval_emul, eeval_epow. fold (evalF F n). rewrite IH. reflexivity.
  Qed.
  Lemma poly_eval_ep_hom B F n : eeval (poly_eval_ep B F) n = poly_eval B (evalF F n).
  Proof.
    induction B as [|m B IH]; cbn [poly_eval_ep poly_eval]; [reflexivity|].
    rewrite eeval_eadd, eeval_escale, mon_eval_ep_hom, IH. reflexivity.
  Qed.

  Definition check_invariant (B : mpoly) (F : list (epoly R)) : bool :=
    forallb (fun m => Nat.eqb (length (snd m)) (length F)) B && ezero (poly_eval_ep B F).

  Theorem check_invariant_sound B F :
    check_invariant B F = true -> forall n, poly_eval B (evalF F n) = z0.
  Proof.
    unfold check_invariant. intros H n. apply andb_true_iff in H. destruct H as [_ H].
    rewrite <- poly_eval_ep_hom. apply ezero_sound. exact H.
  Qed.

  (* the property's wording: sequences that agree with the closed forms from n0 on (the special
     cases Polar lists are the n < n0) satisfy the invariant at every n >= n0 *)
  Corollary check_invariant_past_special B F n0 (s : nat -> list R) :
    check_invariant B F = true ->
    (forall n, n0 <= n -> s n = evalF F n) ->
    forall n, n0 <= n -> poly_eval B (s n) = z0.
  Proof. intros H Hs n Hn. rewrite (Hs n Hn). apply check_invariant_sound; exact H. Qed.

  (* ---- polynomial arithmetic on monomial lists and a sound zero test ---- *)
  Fixpoint eadd_exps (a b : list nat) : list nat :=
    match a, b with
    | [], _ => b
    | _, [] => a
    | x :: a', y :: b' => (x + y)%nat :: eadd_exps a' b'
    end.
  Definition mscale1 (m : monomial) (q : mpoly) : mpoly :=
    map (fun u => (fst m * fst u, eadd_exps (snd m) (snd u))) q.
  Fixpoint mpmul (p q : mpoly) : mpoly :=
    match p with [] => [] | m :: p' => mscale1 m q ++ mpmul p' q end.
  Definition mpscale (c : R) (p : mpoly) : mpoly := map (fun u => (c * fst u, snd u)) p.
  Definition mpneg (p : mpoly) : mpoly := mpscale (ropp z1) p.

  Lemma mon_eval_nil_l xs : mon_eval [] xs = z1.
  Proof. reflexivity. Qed.
  Lemma mon_eval_nil_r es : mon_eval es [] = z1.
  Proof. destruct es; reflexivity. Qed.
  (* exponent vectors are compared up to the variables actually present: we require the
     exponent lists not to be longer than the variable list when adding *)
  Lemma mon_eval_add a : forall b xs, length a <= length xs -> length b <= length xs ->
    mon_eval (eadd_exps a b) xs = mon_eval a xs * mon_eval b xs.
  Proof.
    induction a as [|x a IH]; intros [|y b] xs Ha Hb; cbn [eadd_exps].
    - cbn [mon_eval]. ring.
    - cbn [mon_eval]. ring.
    - rewrite (mon_eval_nil_l xs). ring.
    - destruct xs as [|v xs]; [simpl in Ha; lia|]. simpl in Ha, Hb.
      cbn [mon_eval]. rewrite rpow_add, IH by lia. ring.
  Qed.

  Definition exps_ok (k : nat) (p : mpoly) : bool := forallb (fun m => Nat.leb (length (snd m)) k) p.

  Lemma poly_eval_app p q xs : poly_eval (p ++ q) xs = poly_eval p xs + poly_eval q xs.
  Proof. induction p as [|m p IH]; cbn [app poly_eval]; [ring | rewrite IH; ring]. Qed.
  Lemma poly_eval_mpscale c p xs : poly_eval (mpscale c p) xs = c * poly_eval p xs.
  Proof. induction p as [|m p IH]; cbn [mpscale map poly_eval fst snd]; [ring | fold (mpscale c p); rewrite IH; ring]. Qed.
  Lemma poly_eval_mscale1 m q xs : length (snd m) <= length xs -> exps_ok (length xs) q = true ->
    poly_eval (mscale1 m q) xs = fst m * mon_eval (snd m) xs * poly_eval q xs.
  Proof.
    intros Hm. induction q as [|u q IH]; intros Hq; cbn [mscale1 map poly_eval fst snd]; [ring|].
    cbn [exps_ok forallb] in Hq. apply andb_true_iff in Hq. destruct Hq as [Hu Hq]. apply Nat.leb_le in Hu.
    fold (mscale1 m q). rewrite (IH Hq), mon_eval_add by assumption. ring.
  Qed.
  Lemma poly_eval_mpmul p q xs : exps_ok (length xs) p = true -> exps_ok (length xs) q = true ->
    poly_eval (mpmul p q) xs = poly_eval p xs * poly_eval q xs.
  Proof.
    intros Hp Hq. induction p as [|m p IH]; cbn [mpmul poly_eval]; [ring|].
    cbn [exps_ok forallb] in Hp. apply andb_true_iff in Hp. destruct Hp as [Hm Hp]. apply Nat.leb_le in Hm.
    rewrite poly_eval_app, poly_eval_mscale1, (IH Hp) by assumption. ring.
  Qed.

  (* normalisation: merge monomials with equal exponent vectors *)
  Fixpoint exps_eqb (a b : list nat) : bool :=
    match a, b with
    | [], [] => true
    | x :: a', y :: b' => Nat.eqb x y && exps_eqb a' b'
    | _, _ => false
    end.
  Lemma exps_eqb_eq a b : exps_eqb a b = true -> a = b.
  Proof.
    revert b; induction a as [|x a IH]; intros [|y b] H; simpl in H; try discriminate; [reflexivity|].
    apply andb_true_iff in H. destruct H as [H1 H2]. apply Nat.eqb_eq in H1. subst. f_equal. apply IH; exact H2.
  Qed.
  Fixpoint minsert (m : monomial) (p : mpoly) : mpoly :=
    match p with
    | [] => [m]
    | u :: p' => if exps_eqb (snd m) (snd u) then (fst m + fst u, snd u) :: p' else u :: minsert m p'
    end.
  Fixpoint mnorm (p : mpoly) : mpoly :=
    match p with [] => [] | m :: p' => minsert m (mnorm p') end.
  Definition mpzero (p : mpoly) : bool := forallb (fun m => reqb (fst m) z0) (mnorm p).

  Lemma poly_eval_minsert m p xs : poly_eval (minsert m p) xs = fst m * mon_eval (snd m) xs + poly_eval p xs.
  Proof.
    induction p as [|u p IH]; cbn [minsert poly_eval]; [reflexivity|].
    destruct (exps_eqb (snd m) (snd u)) eqn:E; cbn [poly_eval fst snd].
    - apply exps_eqb_eq in E. rewrite E. ring.
    - rewrite IH. ring.
  Qed.
  Lemma poly_eval_mnorm p xs : poly_eval (mnorm p) xs = poly_eval p xs.
  Proof. induction p as [|m p IH]; cbn [mnorm poly_eval]; [reflexivity | rewrite poly_eval_minsert, IH; reflexivity]. Qed.
  Lemma allzero_poly p xs : forallb (fun m => reqb (fst m) z0) p = true -> poly_eval p xs = z0.
  Proof.
    induction p as [|m p IH]; cbn [forallb poly_eval]; intros H; [reflexivity|].
    apply andb_true_iff in H. destruct H as [Hm Hp]. apply reqb_eq in Hm. rewrite Hm, (IH Hp). ring.
  Qed.
  Theorem mpzero_sound p : mpzero p = true -> forall xs, poly_eval p xs = z0.
  Proof. intros H xs. rewrite <- poly_eval_mnorm. apply allzero_poly; exact H. Qed.

  Definition mpeq (p q : mpoly) : bool := mpzero (p ++ mpneg q).
  Theorem mpeq_sound p q : mpeq p q = true -> forall xs, poly_eval p xs = poly_eval q xs.
  Proof.
    intros H xs. pose proof (mpzero_sound _ H xs) as E.
    rewrite poly_eval_app in E. unfold mpneg in E. rewrite poly_eval_mpscale in E.
    transitivity (poly_eval p xs + ropp z1 * poly_eval q xs + poly_eval q xs); [ring | rewrite E; ring].
  Qed.
End Inv.

Arguments mon_eval {R} _ _. Arguments poly_eval {R} _ _. Arguments poly_eval_ep {R} _ _.
Arguments mon_eval_ep {R} _ _. Arguments evalF {R} _ _. Arguments check_invariant {R} _ _.
Arguments mpmul {R} _ _. Arguments mpscale {R} _ _. Arguments mpneg {R} _. Arguments mpzero {R} _.
Arguments mpeq {R} _ _. Arguments exps_ok {R} _ _. Arguments mnorm {R} _.
