(* Multivariate polynomials over Qc as lists of (coefficient, monomial), evaluation
   homomorphisms, normal forms with a SOUND zero test, and reduction of powers of finitely
   typed variables (the interpolation Polar's Finite.reduce_power performs). *)
From Coq Require Import List String QArith Qcanon ZArith Bool Ring Arith Lia.
From Polar Require Import Qcx CRing ExpPoly Dist Syntax Sem Types.
Import ListNotations.
Local Open Scope Qc_scope.

Definition poly := list (Qc * mono).

Fixpoint eval_poly (p : poly) (s : state) : Qc :=
  match p with [] => 0 | (c, m) :: p' => c * eval_mono m s + eval_poly p' s end.

Definition pconst (c : Qc) : poly := [(c, [])].
Definition pvar (x : var) : poly := [(1, [(x, 1%nat)])].
Definition padd (p q : poly) : poly := p ++ q.
Definition pscale (c : Qc) (p : poly) : poly := map (fun t => (c * fst t, snd t)) p.
Definition pneg (p : poly) : poly := pscale (-(1)) p.
Definition psub (p q : poly) : poly := padd p (pneg q).
Definition pmul1 (t : Qc * mono) (q : poly) : poly := map (fun u => (fst t * fst u, snd t ++ snd u)) q.
Fixpoint pmul (p q : poly) : poly :=
  match p with [] => [] | t :: p' => pmul1 t q ++ pmul p' q end.
Fixpoint ppow (p : poly) (k : nat) : poly :=
  match k with O => pconst 1 | S k' => pmul p (ppow p k') end.
Fixpoint psum (l : list poly) : poly := match l with [] => [] | p :: l' => padd p (psum l') end.

Fixpoint of_expr (e : expr) : poly :=
  match e with
  | EConst q => pconst q
  | EVar x => pvar x
  | EAdd a b => padd (of_expr a) (of_expr b)
  | EMul a b => pmul (of_expr a) (of_expr b)
  | EPow a k => ppow (of_expr a) k
  end.

Lemma qpow_add b n m : qpow b (n + m) = qpow b n * qpow b m.
Proof. induction n; simpl; [ring | rewrite IHn; ring]. Qed.
Lemma qpow_1 n : qpow 1 n = 1.
Proof. induction n; simpl; [reflexivity | rewrite IHn; ring]. Qed.

Lemma eval_mono_app m1 m2 s : eval_mono (m1 ++ m2) s = eval_mono m1 s * eval_mono m2 s.
Proof. induction m1 as [|[x k] m IH]; simpl; [ring | rewrite IH; ring]. Qed.

Lemma eval_padd p q s : eval_poly (padd p q) s = eval_poly p s + eval_poly q s.
Proof. unfold padd; induction p as [|[c m] p IH]; simpl; [ring | rewrite IH; ring]. Qed.
Lemma eval_pscale c p s : eval_poly (pscale c p) s = c * eval_poly p s.
Proof. induction p as [|[a m] p IH]; simpl; [ring | rewrite IH; ring]. Qed.
Lemma eval_pneg p s : eval_poly (pneg p) s = - eval_poly p s.
Proof. unfold pneg; rewrite eval_pscale; ring. Qed.
Lemma eval_psub p q s : eval_poly (psub p q) s = eval_poly p s - eval_poly q s.
Proof. unfold psub; rewrite eval_padd, eval_pneg; ring. Qed.
Lemma eval_pmul1 t q s : eval_poly (pmul1 t q) s = fst t * eval_mono (snd t) s * eval_poly q s.
Proof.
  induction q as [|[a m] q IH]; simpl; [ring|].
  rewrite IH, eval_mono_app; ring.
Qed.
Lemma eval_pmul p q s : eval_poly (pmul p q) s = eval_poly p s * eval_poly q s.
Proof.
  induction p as [|[c m] p IH]; simpl; [ring|].
  fold (padd (pmul1 (c, m) q) (pmul p q)). rewrite eval_padd, eval_pmul1, IH; simpl; ring.
Qed.
Lemma eval_pconst c s : eval_poly (pconst c) s = c.
Proof. simpl; ring. Qed.
Lemma eval_pvar x s : eval_poly (pvar x) s = s x.
Proof. simpl; ring. Qed.
Lemma eval_ppow p k s : eval_poly (ppow p k) s = qpow (eval_poly p s) k.
Proof. induction k as [|k IH]; [apply eval_pconst | cbn [ppow qpow]; rewrite eval_pmul, IH; reflexivity]. Qed.
Lemma eval_psum l s : eval_poly (psum l) s = fold_right (fun p acc => eval_poly p s + acc) 0 l.
Proof. induction l as [|p l IH]; simpl; [reflexivity | fold (padd p (psum l)); rewrite eval_padd, IH; reflexivity]. Qed.

Theorem eval_of_expr e s : eval_poly (of_expr e) s = eval e s.
Proof.
  induction e as [q|x|a IHa b IHb|a IHa b IHb|a IHa k]; cbn [of_expr eval].
  - apply eval_pconst.
  - apply eval_pvar.
  - rewrite eval_padd, IHa, IHb; reflexivity.
  - rewrite eval_pmul, IHa, IHb; reflexivity.
  - rewrite eval_ppow, IHa; reflexivity.
Qed.

(* ---- splitting a monomial at a variable ---- *)
Fixpoint mdeg (x : var) (m : mono) : nat :=
  match m with [] => O | (y, k) :: m' => if var_eqb y x then (k + mdeg x m')%nat else mdeg x m' end.
Fixpoint mrest (x : var) (m : mono) : mono :=
  match m with [] => [] | (y, k) :: m' => if var_eqb y x then mrest x m' else (y, k) :: mrest x m' end.

Lemma eval_mono_split x m s : eval_mono m s = qpow (s x) (mdeg x m) * eval_mono (mrest x m) s.
Proof.
  induction m as [|[y k] m IH]; simpl; [ring|].
  destruct (var_eqb y x) eqn:E; simpl.
  - apply String.eqb_eq in E; subst. rewrite qpow_add, IH; ring.
  - rewrite IH; ring.
Qed.
Lemma eval_mrest_upd x m s v : eval_mono (mrest x m) (upd s x v) = eval_mono (mrest x m) s.
Proof.
  induction m as [|[y k] m IH]; simpl; [reflexivity|].
  destruct (var_eqb y x) eqn:E; simpl; [exact IH|].
  unfold upd at 1. rewrite E, IH. reflexivity.
Qed.
Lemma eval_mono_upd x m s v : eval_mono m (upd s x v) = qpow v (mdeg x m) * eval_mono (mrest x m) s.
Proof.
  rewrite (eval_mono_split x m (upd s x v)), eval_mrest_upd.
  unfold upd at 1. unfold var_eqb. rewrite String.eqb_refl. reflexivity.
Qed.

(* ---- normal forms: monomials sorted by variable with merged exponents ---- *)
Fixpoint minsert (x : var) (k : nat) (m : mono) : mono :=
  match m with
  | [] => [(x, k)]
  | (y, j) :: m' =>
      if var_eqb x y then (y, (k + j)%nat) :: m'
      else if String.ltb x y then (x, k) :: (y, j) :: m'
      else (y, j) :: minsert x k m'
  end.
Fixpoint mnorm (m : mono) : mono :=
  match m with [] => [] | (x, k) :: m' => match k with O => mnorm m' | _ => minsert x k (mnorm m') end end.

Lemma eval_minsert x k m s : eval_mono (minsert x k m) s = qpow (s x) k * eval_mono m s.
Proof.
  induction m as [|[y j] m IH]; simpl; [ring|].
  destruct (var_eqb x y) eqn:E.
  - apply String.eqb_eq in E; subst. simpl. rewrite qpow_add; ring.
  - destruct (String.ltb x y); simpl; [ring | rewrite IH; ring].
Qed.
Lemma eval_mnorm m s : eval_mono (mnorm m) s = eval_mono m s.
Proof.
  induction m as [|[x k] m IH]; simpl; [reflexivity|].
  destruct k as [|k]; [simpl; rewrite IH; ring|].
  rewrite eval_minsert, IH; reflexivity.
Qed.

Fixpoint mono_eqb (m1 m2 : mono) : bool :=
  match m1, m2 with
  | [], [] => true
  | (x, k) :: m1', (y, j) :: m2' => var_eqb x y && Nat.eqb k j && mono_eqb m1' m2'
  | _, _ => false
  end.
Lemma mono_eqb_eq m1 m2 : mono_eqb m1 m2 = true -> m1 = m2.
Proof.
  revert m2; induction m1 as [|[x k] m1 IH]; intros [|[y j] m2]; simpl; intros H; try discriminate; auto.
  apply andb_true_iff in H; destruct H as [H H3]. apply andb_true_iff in H; destruct H as [H1 H2].
  apply String.eqb_eq in H1. apply Nat.eqb_eq in H2. subst. f_equal. auto.
Qed.

(* polynomials: merge terms with equal (normalised) monomials *)
Fixpoint pinsert (c : Qc) (m : mono) (p : poly) : poly :=
  match p with
  | [] => [(c, m)]
  | (a, m') :: p' => if mono_eqb m m' then (c + a, m') :: p' else (a, m') :: pinsert c m p'
  end.
Fixpoint pnorm (p : poly) : poly :=
  match p with [] => [] | (c, m) :: p' => pinsert c (mnorm m) (pnorm p') end.
Definition pzero (p : poly) : bool := forallb (fun t => Qc_eqb (fst t) 0) (pnorm p).

Lemma eval_pinsert c m p s : eval_poly (pinsert c m p) s = c * eval_mono m s + eval_poly p s.
Proof.
  induction p as [|[a m'] p IH]; simpl; [ring|].
  destruct (mono_eqb m m') eqn:E; simpl.
  - apply mono_eqb_eq in E; subst; ring.
  - rewrite IH; ring.
Qed.
Lemma eval_pnorm p s : eval_poly (pnorm p) s = eval_poly p s.
Proof.
  induction p as [|[c m] p IH]; simpl; [reflexivity|].
  rewrite eval_pinsert, eval_mnorm, IH; reflexivity.
Qed.
Lemma allzero_eval p s : forallb (fun t : Qc * mono => Qc_eqb (fst t) 0) p = true -> eval_poly p s = 0.
Proof.
  induction p as [|[c m] p IH]; simpl; intros H; [reflexivity|].
  apply andb_true_iff in H; destruct H as [Hc Hp]. apply Qc_eqb_true in Hc; subst.
  rewrite (IH Hp); ring.
Qed.
Theorem pzero_sound p : pzero p = true -> forall s, eval_poly p s = 0.
Proof. intros H s; rewrite <- eval_pnorm; apply allzero_eval; exact H. Qed.

(* drop zero terms, for readable output of the model *)
Definition pclean (p : poly) : poly := filter (fun t => negb (Qc_eqb (fst t) 0)) (pnorm p).

(* ---- reduction of powers of finitely typed variables ----
   For values vs, P(x) = prod (x - v); x^k mod P is computed by repeated multiplication by x
   and subtraction of lead * P.  Sound for ANY list vs (no distinctness needed). *)
Notation upoly := (list Qc).
Definition upeval : upoly -> Qc -> Qc := @ExpPoly.peval Qc_cring.
Definition upadd : upoly -> upoly -> upoly := @ExpPoly.padd Qc_cring.
Definition upscale : Qc -> upoly -> upoly := @ExpPoly.pscale Qc_cring.
Definition upmul : upoly -> upoly -> upoly := @ExpPoly.pmul Qc_cring.

Fixpoint root_poly (vs : list Qc) : upoly :=
  match vs with [] => [1] | v :: vs' => upmul [- v; 1] (root_poly vs') end.

Lemma root_poly_zero vs v : In v vs -> upeval (root_poly vs) v = 0.
Proof.
  induction vs as [|u vs IH]; intros H; [destruct H|].
  cbn [root_poly]. unfold upeval, upmul. rewrite (ExpPoly.peval_pmul Qc_cring).
  destruct H as [H|H].
  - subst. simpl. ring.
  - fold (upeval (root_poly vs) v). rewrite (IH H). simpl. ring.
Qed.

(* one step: multiply by x, cancel the coefficient at degree n with lead * P *)
Definition xstep (P : upoly) (n : nat) (r : upoly) : upoly :=
  let t := 0 :: r in
  let lead := nth n t 0 in
  upadd t (upscale (- lead) P).
Fixpoint xpow_mod (P : upoly) (n : nat) (k : nat) : upoly :=
  match k with O => [1] | S k' => xstep P n (xpow_mod P n k') end.

Lemma xpow_mod_sound P n k v : upeval P v = 0 -> upeval (xpow_mod P n k) v = qpow v k.
Proof.
  intros HP; induction k as [|k IH]; [simpl; unfold upeval; simpl; ring|].
  cbn [xpow_mod qpow]. unfold xstep, upeval, upadd, upscale in *.
  rewrite (ExpPoly.peval_padd Qc_cring), (ExpPoly.peval_pscale Qc_cring).
  cbn [ExpPoly.peval]. rewrite IH, HP. simpl. ring.
Qed.

(* trailing zero coefficients are dropped (soundly: only when they test equal to 0) *)
Fixpoint utrim (p : upoly) : upoly :=
  match p with
  | [] => []
  | c :: p' => match utrim p' with [] => if Qc_eqb c 0 then [] else [c] | q => c :: q end
  end.
Lemma utrim_eval p v : upeval (utrim p) v = upeval p v.
Proof.
  unfold upeval; induction p as [|c p IH]; simpl; [reflexivity|].
  destruct (utrim p) as [|d q] eqn:E.
  - destruct (Qc_eqb_spec c 0) as [->|_]; simpl in *; rewrite <- IH; simpl; ring.
  - simpl in *. rewrite <- IH. reflexivity.
Qed.

(* x^k as a polynomial in x of low degree, for x ranging over vs *)
Definition reduced_power (vs : list Qc) (k : nat) : upoly :=
  if Nat.ltb k (List.length vs) then repeat 0 k ++ [1]
  else utrim (xpow_mod (root_poly vs) (List.length vs) k).

Lemma upeval_monomial k v : upeval (repeat 0 k ++ [1]) v = qpow v k.
Proof.
  unfold upeval; induction k as [|k IH]; simpl; [ring|]. rewrite IH; ring.
Qed.
Lemma reduced_power_sound vs k v : In v vs -> upeval (reduced_power vs k) v = qpow v k.
Proof.
  intros H. unfold reduced_power. destruct (Nat.ltb k (List.length vs)).
  - apply upeval_monomial.
  - rewrite utrim_eval. apply xpow_mod_sound. apply root_poly_zero; exact H.
Qed.

(* a univariate polynomial in the variable x as a multivariate one *)
Fixpoint upoly_in (x : var) (p : upoly) (j : nat) : poly :=
  match p with [] => [] | c :: p' => (c, [(x, j)]) :: upoly_in x p' (S j) end.
Lemma eval_upoly_in x p j s : eval_poly (upoly_in x p j) s = qpow (s x) j * upeval p (s x).
Proof.
  unfold upeval; revert j; induction p as [|c p IH]; intros j; simpl; [ring|].
  rewrite IH. simpl. ring.
Qed.

Definition reduce_entry (T : tenv) (xk : var * nat) : poly :=
  match tlookup T (fst xk) with
  | Some vs => upoly_in (fst xk) (reduced_power vs (snd xk)) 0
  | None => [(1, [xk])]
  end.
Lemma eval_reduce_entry T x k s : typed T s ->
  eval_poly (reduce_entry T (x, k)) s = qpow (s x) k.
Proof.
  intros HT. unfold reduce_entry; simpl. destruct (tlookup T x) as [vs|] eqn:E.
  - rewrite eval_upoly_in. simpl. rewrite reduced_power_sound; [ring | apply HT; exact E].
  - simpl. ring.
Qed.

Fixpoint reduce_mono (T : tenv) (m : mono) : poly :=
  match m with [] => pconst 1 | xk :: m' => pmul (reduce_entry T xk) (reduce_mono T m') end.
Lemma eval_reduce_mono T m s : typed T s -> eval_poly (reduce_mono T m) s = eval_mono m s.
Proof.
  intros HT; induction m as [|[x k] m IH]; cbn [reduce_mono eval_mono]; [apply eval_pconst|].
  rewrite eval_pmul, eval_reduce_entry, IH by exact HT. reflexivity.
Qed.

(* reduce every monomial (after merging exponents) *)
Fixpoint preduce (T : tenv) (p : poly) : poly :=
  match p with [] => [] | (c, m) :: p' => padd (pscale c (reduce_mono T (mnorm m))) (preduce T p') end.
Lemma eval_preduce T p s : typed T s -> eval_poly (preduce T p) s = eval_poly p s.
Proof.
  intros HT; induction p as [|[c m] p IH]; cbn [preduce eval_poly]; [reflexivity|].
  rewrite eval_padd, eval_pscale, eval_reduce_mono, eval_mnorm, IH by exact HT. reflexivity.
Qed.

(* equality of two polynomials as functions on typed states (sound direction) *)
Definition pequiv (T : tenv) (p q : poly) : bool := pzero (preduce T (psub p q)).
Theorem pequiv_sound T p q : pequiv T p q = true ->
  forall s, typed T s -> eval_poly p s = eval_poly q s.
Proof.
  unfold pequiv; intros H s HT. pose proof (pzero_sound _ H s) as E.
  rewrite eval_preduce, eval_psub in E by exact HT.
  transitivity (eval_poly p s - eval_poly q s + eval_poly q s); [ring | rewrite E; ring].
Qed.

Global Arguments pmul : simpl never.
Global Arguments padd : simpl never.
Global Arguments psub : simpl never.
Global Arguments pneg : simpl never.
Global Arguments pscale : simpl never.
Global Arguments pconst : simpl never.
Global Arguments pvar : simpl never.
Global Arguments ppow : simpl never.
Global Arguments of_expr : simpl never.
Global Arguments preduce : simpl never.
Global Arguments pnorm : simpl never.
