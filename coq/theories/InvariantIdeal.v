(* C06: not only the reported basis polynomials but EVERY member of the ideal they generate
   vanishes on the goal sequences: if each B_i passes [check_invariant] against the closed
   forms F, then sum_i C_i * B_i evaluates to 0 at every n, for arbitrary cofactors C_i over
   the goal variables.  (Polar reports a basis and says "the invariant ideal"; a user may rely
   on any consequence of the basis.) *)
From Coq Require Import List Bool Arith Lia Ring.
From Polar Require Import CRing ExpPoly Invariant.
Import ListNotations.

Section Ideal.
  Variable R : cring.
  Add Ring Rring2 : (rth R).
  Local Open Scope cr_scope.
  Local Notation z0 := (@r0 R).

  Fixpoint ideal_comb (Cs Bs : list (mpoly R)) : mpoly R :=
    match Cs, Bs with
    | c :: Cs', b :: Bs' => mpmul c b ++ ideal_comb Cs' Bs'
    | _, _ => []
    end.

  Lemma check_invariant_exps_ok (B : mpoly R) F : check_invariant B F = true -> exps_ok (length F) B = true.
  Proof.
    unfold check_invariant, exps_ok. intros H. apply andb_true_iff in H. destruct H as [H _].
    rewrite forallb_forall in *. intros m Hm. specialize (H m Hm).
    apply Nat.eqb_eq in H. apply Nat.leb_le. lia.
  Qed.

  Lemma evalF_length (F : list (epoly R)) n : length (evalF F n) = length F.
  Proof. unfold evalF. apply map_length. Qed.

  Theorem ideal_member_invariant (Bs Cs : list (mpoly R)) (F : list (epoly R)) :
    forallb (fun B => check_invariant B F) Bs = true ->
    forallb (exps_ok (length F)) Cs = true ->
    forall n, poly_eval (ideal_comb Cs Bs) (evalF F n) = z0.
  Proof.
    intros HB HC n. revert Bs HB HC.
    induction Cs as [|c Cs IH]; intros [|b Bs] HB HC; cbn [ideal_comb poly_eval]; try reflexivity.
    cbn [forallb] in HB, HC.
    apply andb_true_iff in HB. destruct HB as [Hb HB].
    apply andb_true_iff in HC. destruct HC as [Hc HC].
    rewrite poly_eval_app, poly_eval_mpmul.
    - rewrite (check_invariant_sound R b F Hb n), (IH Bs HB HC). ring.
    - rewrite evalF_length. exact Hc.
    - rewrite evalF_length. apply check_invariant_exps_ok. exact Hb.
  Qed.
End Ideal.

Arguments ideal_comb {R} _ _.
