(* End-to-end validator on SOURCE programs (C01, subsuming the passes for the purpose of the
   moments): finite types for source variables are validated against the source semantics,
   the weakest pre-expectation of a polynomial is computed through if/elif/else statements
   with ARBITRARY comparison conditions over finitely typed variables (indicator polynomials
   by multivariate Lagrange interpolation), proved exact w.r.t. Sem.run, and a linear system
   (Polar's final one) is validated as an exact one-step identity of the source loop. *)
From Coq Require Import List String QArith Qcanon ZArith Bool Ring Field Arith Lia.
From Polar Require Import Qcx CRing ExpPoly ClosedForm Dist Syntax Sem Types Poly Pipeline Wp.
Import ListNotations.
Local Open Scope Qc_scope.

(* ---- conditions depend only on their variables ---- *)
Fixpoint cvars (c : cond) : list var :=
  match c with
  | CTrue | CFalse => []
  | CAtom a _ b => vars_of a ++ vars_of b
  | CNot c1 => cvars c1
  | CAnd c1 c2 | COr c1 c2 => cvars c1 ++ cvars c2
  end.

Lemma holds_ext c s s' : (forall x, In x (cvars c) -> s x = s' x) -> holds c s = holds c s'.
Proof.
  induction c as [| |a o b|c IH|c1 IH1 c2 IH2|c1 IH1 c2 IH2]; cbn [holds cvars]; intros H; try reflexivity.
  - rewrite (eval_ext a s s'), (eval_ext b s s'); [reflexivity| |]; intros x Hx; apply H; apply in_or_app; auto.
  - rewrite IH; [reflexivity | exact H].
  - rewrite IH1, IH2; [reflexivity| |]; intros x Hx; apply H; apply in_or_app; auto.
  - rewrite IH1, IH2; [reflexivity| |]; intros x Hx; apply H; apply in_or_app; auto.
Qed.

Section SrcWp.
  Variable law : string -> list Qc -> dist Qc.
  Variable cmom : string -> list Qc -> nat -> Qc.

  (* ---- general indicator polynomials ---- *)
  Fixpoint qnodup (l : list Qc) : list Qc :=
    match l with [] => [] | v :: l' => if mem v l' then qnodup l' else v :: qnodup l' end.
  Lemma qnodup_In v l : In v (qnodup l) <-> In v l.
  Proof.
    induction l as [|u l IH]; simpl; [tauto|].
    destruct (mem u l) eqn:E.
    - rewrite IH. split; [auto|]. intros [->|H]; [apply mem_In; exact E | exact H].
    - simpl. rewrite IH. tauto.
  Qed.
  Lemma qnodup_NoDup l : NoDup (qnodup l).
  Proof.
    induction l as [|u l IH]; simpl; [constructor|].
    destruct (mem u l) eqn:E; [exact IH|]. constructor; [|exact IH].
    rewrite qnodup_In. apply mem_false. exact E.
  Qed.

  (* sum over the distinct values v of  L_{x,v} * P(v) *)
  Fixpoint lag_sum (x : var) (vs : list Qc) (l : list Qc) (P : Qc -> option poly) : option poly :=
    match l with
    | [] => Some []
    | v :: l' =>
        match P v, lag_sum x vs l' P with
        | Some p, Some q => Some (padd (pmul (lagrange x v vs) p) q)
        | _, _ => None
        end
    end.

  Lemma lag_sum_eval x vs l P q s (F : Qc -> Qc) :
    In (s x) vs -> NoDup l -> (forall v, In v l -> In v vs) ->
    lag_sum x vs l P = Some q ->
    (forall v p, In v l -> P v = Some p -> eval_poly p s = F v) ->
    eval_poly q s = if mem (s x) l then F (s x) else 0.
  Proof.
    intros Hin. revert q; induction l as [|v l IH]; cbn [lag_sum mem]; intros q Hnd Hsub H HF.
    - injection H as <-. reflexivity.
    - destruct (P v) as [p|] eqn:EP; [|discriminate].
      destruct (lag_sum x vs l P) as [q'|] eqn:EL; [|discriminate].
      injection H as <-. inversion Hnd as [|? ? Hnot Hnd']; subst.
      rewrite eval_padd, eval_pmul, (HF v p (or_introl eq_refl) EP).
      rewrite (IH q' Hnd' (fun u Hu => Hsub u (or_intror Hu)) eq_refl (fun u p' Hu => HF u p' (or_intror Hu))).
      destruct (Qc_eqb_spec (s x) v) as [Heq|Hne]; cbn [orb].
      + rewrite (lagrange_at_c x v vs s Heq).
        destruct (mem (s x) l) eqn:Em; [exfalso; apply Hnot; rewrite <- Heq; apply mem_In; exact Em|].
        rewrite Heq. ring.
      + rewrite (lagrange_off x v vs s Hin Hne). ring.
  Qed.

  Fixpoint ind_poly (T : tenv) (xs : list var) (env : list (var * Qc)) (k : list (var * Qc) -> bool) : option poly :=
    match xs with
    | [] => Some (if k env then pconst 1 else pconst 0)
    | x :: xs' =>
        match tlookup T x with
        | None => None
        | Some vs => lag_sum x vs (qnodup vs) (fun v => ind_poly T xs' ((x, v) :: env) k)
        end
    end.

  Lemma In_mem v l : In v l -> mem v l = true.
  Proof.
    induction l as [|u l IH]; simpl; intros H; [destruct H|].
    destruct H as [->|H]; [rewrite Qc_eqb_refl; reflexivity | rewrite (IH H); apply orb_true_r].
  Qed.

  Lemma ind_poly_sound T s xs : typed T s ->
    forall env k p, ind_poly T xs env k = Some p ->
    eval_poly p s = ind (k (rev (map (fun x => (x, s x)) xs) ++ env)).
  Proof.
    intros HT; induction xs as [|x xs IH]; cbn [ind_poly map rev]; intros env k p H.
    - injection H as <-. cbn [app]. destruct (k env); apply eval_pconst.
    - destruct (tlookup T x) as [vs|] eqn:Ex; [|discriminate].
      assert (Hin : In (s x) vs) by (apply HT; exact Ex).
      rewrite (lag_sum_eval x vs (qnodup vs) _ p s
                 (fun v => ind (k (rev (map (fun y => (y, s y)) xs) ++ (x, v) :: env)))
                 Hin (qnodup_NoDup vs) (fun v Hv => proj1 (qnodup_In v vs) Hv) H).
      + rewrite (In_mem _ _ (proj2 (qnodup_In (s x) vs) Hin)). rewrite <- app_assoc. reflexivity.
      + intros v p' _ Hp'. apply (IH _ _ _ Hp').
  Qed.

  Definition arith_gen (T : tenv) (c : cond) : option poly :=
    ind_poly T (nodup string_dec (cvars c)) [] (fun env => holds c (env_state env)).

  Lemma alookup_rev_map s xs y : In y xs -> alookup (rev (map (fun x => (x, s x)) xs)) y = s y.
  Proof.
    induction xs as [|x xs IH]; cbn [map rev]; intros H; [destruct H|].
    assert (G : forall l1 l2, alookup (l1 ++ l2) y =
               (if existsb (fun p : var * Qc => var_eqb y (fst p)) l1 then alookup l1 y else alookup l2 y)).
    { induction l1 as [|[z v] l1 IHl]; intros l2; cbn [app alookup existsb fst]; [reflexivity|].
      destruct (var_eqb y z); cbn [orb]; [reflexivity | apply IHl]. }
    rewrite G. destruct (existsb (fun p : var * Qc => var_eqb y (fst p)) (rev (map (fun x0 => (x0, s x0)) xs))) eqn:E.
    - apply existsb_exists in E. destruct E as [[z v] [Hz Hyz]]. cbn [fst] in Hyz. apply String.eqb_eq in Hyz; subst z.
      apply IH. apply in_rev in Hz. apply in_map_iff in Hz. destruct Hz as [w [Hw Hin]]. injection Hw as -> _. exact Hin.
    - cbn [alookup]. destruct (var_eqb y x) eqn:Eyx; [apply String.eqb_eq in Eyx; subst; reflexivity|].
      destruct H as [->|H]; [unfold var_eqb in Eyx; rewrite String.eqb_refl in Eyx; discriminate|].
      exfalso. assert (Hex : existsb (fun p : var * Qc => var_eqb y (fst p)) (rev (map (fun x0 => (x0, s x0)) xs)) = true).
      { apply existsb_exists. exists (y, s y). split; [|cbn [fst]; apply String.eqb_refl].
        apply -> in_rev. apply in_map_iff. exists y; split; [reflexivity | exact H]. }
      congruence.
  Qed.

  Theorem arith_gen_sound T s c p : typed T s -> arith_gen T c = Some p -> eval_poly p s = ind (holds c s).
  Proof.
    intros HT H. unfold arith_gen in H. rewrite (ind_poly_sound T s _ HT _ _ _ H). rewrite app_nil_r.
    f_equal. apply holds_ext. intros x Hx. unfold env_state. apply alookup_rev_map. apply nodup_In. exact Hx.
  Qed.

  (* ---- types of source blocks (flow-insensitive, conditions ignored) ---- *)
  Definition check_assign_src (T : tenv) (x : var) (r : rhs) : bool :=
    match tlookup T x with
    | None => true
    | Some vs => match rhs_set all_vars T r with Some rs => subset rs vs | None => false end
    end.

  Fixpoint check_stmt_src (T : tenv) (st : stmt) : bool :=
    match st with
    | SAssign x r => check_assign_src T x r
    | SSimult _ => false
    | SIf bs els => check_branches_src T bs && check_block_src T els
    end
  with check_block_src (T : tenv) (b : block) : bool :=
    match b with BNil => true | BCons st b' => check_stmt_src T st && check_block_src T b' end
  with check_branches_src (T : tenv) (bs : branches) : bool :=
    match bs with BrNil => true | BrCons _ b bs' => check_block_src T b && check_branches_src T bs' end.

  Lemma check_src_sound T :
    (forall st, check_stmt_src T st = true -> forall s, typed T s -> forall s', supp (exec_stmt law st s) s' -> typed T s') /\
    (forall b, check_block_src T b = true -> forall s, typed T s -> forall s', supp (exec_block law b s) s' -> typed T s') /\
    (forall bs, check_branches_src T bs = true -> forall s, typed T s -> forall d, exec_branches law bs s = Some d ->
                forall s', supp d s' -> typed T s').
  Proof.
    apply stmt_block_branches_ind.
    - intros x r H s HT s' Hs'. change (check_assign_src T x r = true) in H.
      change (supp (bind (sample law r s) (fun v => ret (upd s x v))) s') in Hs'.
      apply supp_bind in Hs'. destruct Hs' as [v [Hv Hr]]. apply supp_ret in Hr; subst.
      apply typed_upd; [exact HT|]. intros vs Hvs. unfold check_assign_src in H. rewrite Hvs in H.
      destruct (rhs_set all_vars T r) as [rs|] eqn:Er; [|discriminate].
      apply (subset_In _ _ H). eapply rhs_set_sound; eauto. apply typed_all; exact HT.
    - intros l H. discriminate H.
    - intros bs IHbs els IHels H s HT s' Hs'.
      change (check_branches_src T bs && check_block_src T els = true) in H.
      apply andb_true_iff in H; destruct H as [H1 H2].
      rewrite exec_stmt_if in Hs'.
      destruct (exec_branches law bs s) as [d|] eqn:Ed.
      + apply (IHbs H1 s HT d Ed s' Hs').
      + apply (IHels H2 s HT s' Hs').
    - intros _ s HT s' Hs'. apply supp_ret in Hs'; subst; exact HT.
    - intros st IHst b IHb H s HT s' Hs'.
      change (check_stmt_src T st && check_block_src T b = true) in H.
      apply andb_true_iff in H; destruct H as [H1 H2].
      rewrite exec_block_cons in Hs'.
      apply supp_bind in Hs'. destruct Hs' as [s1 [Hs1 Hs2]]. apply (IHb H2 s1 (IHst H1 s HT s1 Hs1) s' Hs2).
    - intros _ s HT d Hd. discriminate Hd.
    - intros c b IHb bs IHbs H s HT d Hd s' Hs'.
      change (check_block_src T b && check_branches_src T bs = true) in H.
      apply andb_true_iff in H; destruct H as [H1 H2].
      rewrite exec_branches_cons in Hd.
      destruct (holds c s); [injection Hd as <-; apply (IHb H1 s HT s' Hs') | apply (IHbs H2 s HT d Hd s' Hs')].
  Qed.

  (* ---- weakest pre-expectation through source statements ---- *)
  Definition ga_of (x : var) (r : rhs) : gassign :=
    {| ga_var := x; ga_cond := CTrue; ga_default := x; ga_rhs := r |}.

  Fixpoint wp_stmt (T : tenv) (st : stmt) (p : poly) : option poly :=
    match st with
    | SAssign x r => wp_ga cmom T (ga_of x r) p
    | SSimult _ => None
    | SIf bs els => wp_branches T bs (wp_block T els p) p
    end
  with wp_block (T : tenv) (b : block) (p : poly) : option poly :=
    match b with
    | BNil => Some p
    | BCons st b' =>
        match wp_block T b' p with
        | Some q => match wp_stmt T st q with Some q' => Some (ptidy T q') | None => None end
        | None => None
        end
    end
  with wp_branches (T : tenv) (bs : branches) (pe : option poly) (p : poly) : option poly :=
    match bs with
    | BrNil => pe
    | BrCons c b bs' =>
        match arith_gen T c, wp_block T b p, wp_branches T bs' pe p with
        | Some a, Some q1, Some q2 => Some (padd (pmul a q1) (pmul (psub (pconst 1) a) q2))
        | _, _, _ => None
        end
    end.

  Lemma exec_assign_as_ga x r s : exec_stmt law (SAssign x r) s = exec_ga law (ga_of x r) s.
  Proof. reflexivity. Qed.

  Lemma wp_src_exact T : cmom_ok law cmom ->
    (forall st, check_stmt_src T st = true -> forall p q s, typed T s -> wp_stmt T st p = Some q ->
        E (exec_stmt law st s) (eval_poly p) = eval_poly q s) /\
    (forall b, check_block_src T b = true -> forall p q s, typed T s -> wp_block T b p = Some q ->
        E (exec_block law b s) (eval_poly p) = eval_poly q s) /\
    (forall bs, check_branches_src T bs = true -> forall pe p q s, typed T s -> wp_branches T bs pe p = Some q ->
        forall dels, (forall qe, pe = Some qe -> E dels (eval_poly p) = eval_poly qe s) ->
        E (match exec_branches law bs s with Some d => d | None => dels end) (eval_poly p) = eval_poly q s).
  Proof.
    intros Hc. apply stmt_block_branches_ind.
    - intros x r _ p q s HT H. change (wp_ga cmom T (ga_of x r) p = Some q) in H. rewrite exec_assign_as_ga.
      apply (wp_ga_exact law cmom T (ga_of x r) s p q Hc HT H).
    - intros l H. discriminate H.
    - intros bs IHbs els IHels H p q s HT Hw.
      change (check_branches_src T bs && check_block_src T els = true) in H.
      change (wp_branches T bs (wp_block T els p) p = Some q) in Hw.
      apply andb_true_iff in H; destruct H as [H1 H2].
      rewrite exec_stmt_if.
      apply (IHbs H1 (wp_block T els p) p q s HT Hw (exec_block law els s)).
      intros qe Hqe. apply (IHels H2 p qe s HT Hqe).
    - intros _ p q s HT H. change (Some p = Some q) in H. injection H as <-. apply E_ret.
    - intros st IHst b IHb H p q s HT Hw.
      change (check_stmt_src T st && check_block_src T b = true) in H.
      change (match wp_block T b p with
              | Some q0 => match wp_stmt T st q0 with Some q' => Some (ptidy T q') | None => None end
              | None => None end = Some q) in Hw.
      apply andb_true_iff in H; destruct H as [H1 H2].
      destruct (wp_block T b p) as [q1|] eqn:E1; [|discriminate].
      destruct (wp_stmt T st q1) as [q2|] eqn:E2; [|discriminate].
      injection Hw as <-. rewrite (eval_ptidy T q2 s HT).
      rewrite exec_block_cons, E_bind. rewrite <- (IHst H1 q1 q2 s HT E2).
      apply E_ext_in. intros w s1 Hin.
      apply (IHb H2 p q1 s1); [|exact E1].
      destruct (check_src_sound T) as [Hs _]. apply (Hs st H1 s HT s1). exists w; exact Hin.
    - intros _ pe p q s HT Hw dels Hd. change (pe = Some q) in Hw. apply Hd; exact Hw.
    - intros c b IHb bs IHbs H pe p q s HT Hw dels Hd.
      change (check_block_src T b && check_branches_src T bs = true) in H.
      change (match arith_gen T c, wp_block T b p, wp_branches T bs pe p with
              | Some a, Some q1, Some q2 => Some (padd (pmul a q1) (pmul (psub (pconst 1) a) q2))
              | _, _, _ => None end = Some q) in Hw.
      apply andb_true_iff in H; destruct H as [H1 H2].
      destruct (arith_gen T c) as [a|] eqn:Ea; [|discriminate].
      destruct (wp_block T b p) as [q1|] eqn:E1; [|discriminate].
      destruct (wp_branches T bs pe p) as [q2|] eqn:E2; [|discriminate].
      injection Hw as <-. rewrite exec_branches_cons.
      rewrite eval_padd, !eval_pmul, eval_psub, eval_pconst, (arith_gen_sound T s c a HT Ea).
      destruct (holds c s); cbn [ind].
      + rewrite (IHb H1 p q1 s HT E1). ring.
      + rewrite (IHbs H2 pe p q2 s HT E2 dels Hd). ring.
  Qed.

  (* ---- one loop iteration, the system validator, the end-to-end theorem ---- *)
  Definition wp_iter (T : tenv) (p : prog) (f : poly) : option poly :=
    match arith_gen T (p_guard p), wp_block T (p_body p) f with
    | Some a, Some q => Some (ptidy T (padd (pmul a q) (pmul (psub (pconst 1) a) f)))
    | _, _ => None
    end.

  Lemma wp_iter_exact T p f q s : cmom_ok law cmom -> check_block_src T (p_body p) = true -> typed T s ->
    wp_iter T p f = Some q -> E (iter law p s) (eval_poly f) = eval_poly q s.
  Proof.
    intros Hc Hck HT H. unfold wp_iter in H.
    destruct (arith_gen T (p_guard p)) as [a|] eqn:Ea; [|discriminate].
    destruct (wp_block T (p_body p) f) as [q1|] eqn:E1; [|discriminate].
    injection H as <-. rewrite (eval_ptidy T _ s HT).
    rewrite eval_padd, !eval_pmul, eval_psub, eval_pconst, (arith_gen_sound T s _ a HT Ea).
    unfold iter. destruct (wp_src_exact T Hc) as [_ [Hb _]].
    destruct (holds (p_guard p) s); cbn [ind].
    - rewrite (Hb (p_body p) Hck f q1 s HT E1). ring.
    - rewrite E_ret. ring.
  Qed.

  (* the initial block as a list of unconditional assignments *)
  Fixpoint init_gas (b : block) : option (list gassign) :=
    match b with
    | BNil => Some []
    | BCons (SAssign x r) b' => match init_gas b' with Some l => Some (ga_of x r :: l) | None => None end
    | _ => None
    end.
  Lemma init_gas_exec b l s : init_gas b = Some l -> exec_block law b s = exec_gas law l s.
  Proof.
    revert l s; induction b as [|st b IH]; cbn [init_gas]; intros l s H.
    - injection H as <-. reflexivity.
    - destruct st as [x r| |]; try discriminate.
      destruct (init_gas b) as [l'|] eqn:El; [|discriminate]. injection H as <-.
      rewrite exec_block_cons. cbn [exec_gas]. rewrite exec_assign_as_ga.
      apply bind_ext. intros s1. apply IH. reflexivity.
  Qed.
End SrcWp.
