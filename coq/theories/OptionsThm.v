(* C17 — program-level theorems: cond2arithm on whole flat programs at every n; closed forms
   validated under two settings agree (declared vs inferred types, cond2arithm on/off, solver
   choice); the dropped conditioned functional assignment; exactness-flag logic; comparators
   that tie the models to the output of the real passes. *)
From Coq Require Import List String QArith Qcanon ZArith Bool Ring Field Arith Lia.
From Polar Require Import Qcx CRing ExpPoly ClosedForm Dist Syntax Sem Types Poly Pipeline Wp PassGuard Options OptionsArith.
Import ListNotations.
Local Open Scope Qc_scope.

Section Program.
  Variable law : string -> list Qc -> dist Qc.

  Definition ndraws (l : list gassign) : nat :=
    List.length (filter (fun g => match ga_rhs g with RDraw _ => true | _ => false end) l).

  (* side conditions of the pass on a flat program: the generated names [us] are fresh (not
     typed, not mentioned by the program), enough of them; weights add up to one *)
  Definition c2a_side (T : tenv) (us : list var) (fp : flatprog) : Prop :=
    (forall u, In u us -> tlookup T u = None) /\
    (forall g, In g (fp_body fp) -> no_touch us g) /\
    (forall g, In g (fp_body fp) -> mass_one law T g) /\
    (ndraws (fp_body fp) <= List.length us)%nat.

  Lemma c2a_init_same l l' : c2a_init l = Some l' -> l' = l.
  Proof.
    unfold c2a_init. destruct (forallb _ l) eqn:Ef; [|discriminate]. intros H. injection H as <-.
    rewrite forallb_forall in Ef.
    induction l as [|g l IH]; [reflexivity|]. cbn [map]. f_equal.
    - specialize (Ef g (or_introl eq_refl)). destruct g as [x c d r]. unfold set_true; cbn [ga_cond ga_var ga_default ga_rhs] in *.
      destruct c; try discriminate. reflexivity.
    - apply IH. intros g0 H0. apply Ef. right. exact H0.
  Qed.

  (* ConditionsToArithm preserves, at EVERY iteration count, the expectation of EVERY function
     of the state that does not read the generated variables *)
  Theorem cond2arithm_preserves : forall fp fp' T us,
    check_types fp T = true -> c2a_fp T us fp = Some fp' -> c2a_side T us fp ->
    forall s0, init_ok fp T s0 ->
    forall n (G : state -> Qc), insens T us G ->
      E (frun law fp n s0) G = E (frun law fp' n s0) G.
  Proof.
    intros fp fp' T us HT Hc (HU & Hnt & Hm & Hlen) s0 H0.
    unfold c2a_fp in Hc.
    destruct (c2a_init (fp_init fp)) as [i|] eqn:Ei; [|discriminate].
    destruct (c2a_gas T us (fp_body fp)) as [b|] eqn:Eb; [|discriminate].
    injection Hc as <-. apply c2a_init_same in Ei. subst i.
    assert (Hb : forallb (check_ga T) (fp_body fp) = true).
    { unfold check_types in HT. apply andb_true_iff in HT. exact (proj2 HT). }
    induction n as [|n IH]; intros G HG; cbn [frun fp_init fp_body]; [reflexivity|].
    rewrite !E_bind. unfold fstep; cbn [fp_body].
    set (K := fun s => E (exec_gas law (fp_body fp) s) G).
    set (K' := fun s => E (exec_gas law b s) G).
    assert (HK : forall t t', typed T t -> agree_off us t t' -> K t = K' t').
    { intros t t' Ht Hat. unfold K, K'.
      apply (c2a_gas_sound law T us HU (fp_body fp) us b Eb Hb Hnt Hm (fun u H => H) Hlen t t' G Ht Hat HG). }
    assert (HK' : insens T us K').
    { intros t t' Ht Hat. rewrite <- (HK t t Ht (agree_refl us t)). apply HK; assumption. }
    rewrite (E_ext_in (frun law fp n s0) K K').
    - apply IH. exact HK'.
    - intros w t Hin. apply HK; [|apply agree_refl].
      eapply check_types_sound; [exact HT | exact H0 | exists w; exact Hin].
  Qed.

  (* monomials over non-generated variables are admissible test functions *)
  Fixpoint mono_vars (m : mono) : list var := match m with [] => [] | (x, _) :: m' => x :: mono_vars m' end.
  Lemma eval_mono_agree U m s s' : (forall x, In x (mono_vars m) -> ~ In x U) -> agree_off U s s' -> eval_mono m s = eval_mono m s'.
  Proof.
    induction m as [|[x k] m IH]; cbn [mono_vars eval_mono]; intros H Ha; [reflexivity|].
    rewrite (Ha x) by (apply H; left; reflexivity). rewrite IH; [reflexivity | | exact Ha].
    intros y Hy. apply H. right. exact Hy.
  Qed.

  Corollary cond2arithm_preserves_moments : forall fp fp' T us,
    check_types fp T = true -> c2a_fp T us fp = Some fp' -> c2a_side T us fp ->
    forall s0, init_ok fp T s0 ->
    forall m, (forall x, In x (mono_vars m) -> ~ In x us) ->
    forall n, E (frun law fp n s0) (eval_mono m) = E (frun law fp' n s0) (eval_mono m).
  Proof.
    intros fp fp' T us HT Hc Hs s0 H0 m Hm n.
    apply (cond2arithm_preserves fp fp' T us HT Hc Hs s0 H0 n).
    intros t t' _ Ha. apply (eval_mono_agree us); assumption.
  Qed.

  (* ---- closed forms computed under two settings ----------------------------------------- *)
  Variable cmom : string -> list Qc -> nat -> Qc.

  Lemma nth_moments fp ms n s0 i m :
    nth_error ms i = Some m ->
    nth_error (moments_vec law fp ms n s0) i = Some (E (frun law fp n s0) (eval_mono m)).
  Proof. intros H. unfold moments_vec. rewrite nth_error_map, H. reflexivity. Qed.

  (* declared instead of inferred types: the SAME flat program analysed under two validated
     type environments (e.g. Polar's inferred types and a declared superset), each with its
     own system, initial values and closed forms, all accepted by the validators.  Then the
     two closed forms of every monomial that occurs in both systems agree at EVERY n. *)
  Theorem explicit_types_same_moments : forall fp T T' ms ms' A A' v v' F F' sp sp',
    cmom_ok law cmom ->
    check_pipeline cmom fp T ms A v F sp = true ->
    check_pipeline cmom fp T' ms' A' v' F' sp' = true ->
    forall s0, init_ok fp T s0 -> init_ok fp T' s0 ->
    forall i j m, nth_error ms i = Some m -> nth_error ms' j = Some m ->
    forall n, nth_error (pw_eval (R := Qc_cring) F sp n) i = nth_error (pw_eval (R := Qc_cring) F' sp' n) j.
  Proof.
    intros fp T T' ms ms' A A' v v' F F' sp sp' Hc H H' s0 H0 H0' i j m Hi Hj n.
    rewrite (check_pipeline_sound law cmom fp T ms A v F sp Hc H s0 H0 n).
    rewrite (check_pipeline_sound law cmom fp T' ms' A' v' F' sp' Hc H' s0 H0' n).
    etransitivity; [exact (nth_moments fp ms n s0 i m Hi)|].
    symmetry. exact (nth_moments fp ms' n s0 j m Hj).
  Qed.

  (* cond2arithm on / off: the flat program and its arithmetised version, each analysed and
     validated on its own; the closed forms of every source monomial agree at EVERY n *)
  Theorem cond2arithm_same_closed_forms : forall fp fp' T T' us ms ms' A A' v v' F F' sp sp',
    cmom_ok law cmom ->
    check_pipeline cmom fp T ms A v F sp = true ->
    check_pipeline cmom fp' T' ms' A' v' F' sp' = true ->
    c2a_fp T us fp = Some fp' -> c2a_side T us fp ->
    forall s0, init_ok fp T s0 -> init_ok fp' T' s0 ->
    forall i j m, nth_error ms i = Some m -> nth_error ms' j = Some m ->
    (forall x, In x (mono_vars m) -> ~ In x us) ->
    forall n, nth_error (pw_eval (R := Qc_cring) F sp n) i = nth_error (pw_eval (R := Qc_cring) F' sp' n) j.
  Proof.
    intros fp fp' T T' us ms ms' A A' v v' F F' sp sp' Hc H H' Hfp Hside s0 H0 H0' i j m Hi Hj Hm n.
    assert (HT : check_types fp T = true).
    { pose proof H as Hp. unfold check_pipeline in Hp.
      apply andb_true_iff in Hp; destruct Hp as [Hp _]. apply andb_true_iff in Hp; destruct Hp as [Hp _].
      apply andb_true_iff in Hp; destruct Hp as [Hp _]. exact Hp. }
    rewrite (check_pipeline_sound law cmom fp T ms A v F sp Hc H s0 H0 n).
    rewrite (check_pipeline_sound law cmom fp' T' ms' A' v' F' sp' Hc H' s0 H0' n).
    etransitivity; [exact (nth_moments fp ms n s0 i m Hi)|].
    etransitivity; [|symmetry; exact (nth_moments fp' ms' n s0 j m Hj)].
    f_equal. apply (cond2arithm_preserves_moments fp fp' T us HT Hfp Hside s0 H0 m Hm n).
  Qed.
End Program.

(* ---- solver choice ----------------------------------------------------------------------- *)
(* two closed forms (acyclic solver / forced cyclic solver) accepted for the same system agree
   at every n, over every coefficient ring (Q, towers of quadratic extensions) *)
Definition solvers_agree := accepted_agree.

(* ---- the conditioned functional assignment ------------------------------------------------- *)
(* classes of assignments as ConditionsToArithm sees them (isinstance tests) *)
Inductive xassign :=
| XPoly (g : gassign)
| XDist (g : gassign)
| XFunc (x : var) (func : string) (arg : var) (c : cond) (d : var).

Definition xvar (a : xassign) : var :=
  match a with XPoly g | XDist g => ga_var g | XFunc x _ _ _ _ => x end.
Definition xcond (a : xassign) : cond :=
  match a with XPoly g | XDist g => ga_cond g | XFunc _ _ _ c _ => c end.

(* the loop of _conditions_to_arithm as it was before /repo 0c1450d, literally: the first test keeps
   any assignment whose arithmetised condition is 1; then ONE if for PolyAssignment, ONE if for
   DistAssignment and nothing else *)
Definition c2ax_old (T : tenv) (u : var) (a : xassign) : option (list xassign) :=
  match arith T (xcond a) with
  | None => None
  | Some p =>
      if is_one p then
        Some [match a with
              | XPoly g => XPoly (set_true g) | XDist g => XDist (set_true g)
              | XFunc x f y _ d => XFunc x f y CTrue d end]
      else match a with
           | XPoly g => match c2a_ga T u g with Some (gs, _) => Some (map XPoly gs) | None => None end
           | XDist g =>
               match c2a_ga T u g with
               | Some ([g1; g2], _) => Some [XDist g1; XPoly g2]
               | _ => None
               end
           | XFunc _ _ _ _ _ => Some []
           end
  end.
Fixpoint c2ax_old_list (T : tenv) (u : var) (l : list xassign) : option (list xassign) :=
  match l with
  | [] => Some []
  | a :: l' => match c2ax_old T u a, c2ax_old_list T u l' with Some r, Some r' => Some (r ++ r') | _, _ => None end
  end.

(* the loop since /repo 0c1450d: if Poly ... elif Dist ... else: keep the assignment unchanged *)
Definition c2ax (T : tenv) (u : var) (a : xassign) : option (list xassign) :=
  match a with
  | XFunc _ _ _ _ _ =>
      match arith T (xcond a) with
      | None => None
      | Some p => if is_one p then c2ax_old T u a else Some [a]
      end
  | _ => c2ax_old T u a
  end.
Fixpoint c2ax_list (T : tenv) (u : var) (l : list xassign) : option (list xassign) :=
  match l with
  | [] => Some []
  | a :: l' => match c2ax T u a, c2ax_list T u l' with Some r, Some r' => Some (r ++ r') | _, _ => None end
  end.

Open Scope string_scope.
(* y = Exp(x) | f == 1 : y   is silently removed from the program *)
Definition drop_T : tenv := [("f", [mkq 0 1; mkq 1 1])].
Definition drop_prog : list xassign :=
  [ XDist {| ga_var := "f"; ga_cond := CTrue; ga_default := "f"; ga_rhs := RDraw (DBern (EConst (mkq 1 2))) |};
    XFunc "y" "Exp" "x" (CAtom (EVar "f") Ceq (EConst (mkq 1 1))) "y" ].

Theorem cond2arithm_drops_functional_old_rule_refuted :
  ~ (forall T u l l', c2ax_old_list T u l = Some l' -> forall x, In x (map xvar l) -> In x (map xvar l')).
Proof.
  intros H.
  assert (Hc : c2ax_old_list drop_T "_u0" drop_prog = Some [XDist {| ga_var := "f"; ga_cond := CTrue; ga_default := "f"; ga_rhs := RDraw (DBern (EConst (mkq 1 2))) |}]).
  { vm_compute. reflexivity. }
  specialize (H drop_T "_u0" drop_prog _ Hc "y"). cbn in H.
  destruct H as [H|[]]; [right; left; reflexivity | discriminate H].
Qed.

(* ... whereas polynomial and draw assignments were always re-emitted *)
Theorem cond2arithm_keeps_poly_and_draws : forall T u a r,
  (match a with XFunc _ _ _ _ _ => False | _ => True end) -> c2ax_old T u a = Some r -> In (xvar a) (map xvar r).
Proof.
  intros T u a r Ha H. unfold c2ax_old in H.
  destruct (arith T (xcond a)) as [p|]; [|discriminate].
  destruct (is_one p) eqn:E1.
  - injection H as <-. destruct a; cbn; auto.
  - destruct a as [g|g|]; [| |destruct Ha].
    + unfold c2a_ga in H. cbn [xcond] in *. destruct (arith T (ga_cond g)) as [q|]; [|discriminate].
      destruct (is_one q); [injection H as <-; cbn; auto|].
      destruct (ga_rhs g); injection H as <-; cbn; auto.
    + unfold c2a_ga in H. cbn [xcond] in *. destruct (arith T (ga_cond g)) as [q|]; [|discriminate].
      destruct (is_one q); [discriminate|].
      destruct (ga_rhs g); [discriminate|]. injection H as <-. cbn. auto.
Qed.

(* the repaired chain re-emits EVERY assignment, for every program *)
Theorem cond2arithm_keeps_every_assignment : forall T u a r, c2ax T u a = Some r -> In (xvar a) (map xvar r).
Proof.
  intros T u a r H. destruct a as [g|g|x f y c d].
  - apply (cond2arithm_keeps_poly_and_draws T u (XPoly g) r I H).
  - apply (cond2arithm_keeps_poly_and_draws T u (XDist g) r I H).
  - unfold c2ax in H. cbn [xcond] in H. destruct (arith T c) as [p|] eqn:Ea; [|discriminate].
    destruct (is_one p) eqn:E1.
    + unfold c2ax_old in H. cbn [xcond] in H. rewrite Ea, E1 in H. injection H as <-. cbn. auto.
    + injection H as <-. cbn. auto.
Qed.
Theorem cond2arithm_list_keeps_every_variable : forall T u l l',
  c2ax_list T u l = Some l' -> forall x, In x (map xvar l) -> In x (map xvar l').
Proof.
  intros T u; induction l as [|a l IH]; intros l' H x Hx; [destruct Hx|].
  cbn [c2ax_list] in H. destruct (c2ax T u a) as [r|] eqn:Ea; [|discriminate].
  destruct (c2ax_list T u l) as [r'|] eqn:El; [|discriminate]. injection H as <-.
  rewrite map_app. apply in_or_app. destruct Hx as [<-|Hx].
  - left. apply (cond2arithm_keeps_every_assignment T u a r Ea).
  - right. apply (IH r' eq_refl x Hx).
Qed.
(* the old witness under the repaired chain: y = Exp(x) | f == 1 : y is kept *)
Example drop_prog_kept : match c2ax_list drop_T "_u0" drop_prog with Some l => map xvar l | None => [] end = ["f"; "y"].
Proof. vm_compute. reflexivity. Qed.
Close Scope string_scope.

(* ---- exactness flag (utils/expressions.py) ------------------------------------------------ *)
(* numeric_roots: isolating intervals (lo, hi) with multiplicities; the midpoint is returned
   and the solution is flagged exact iff every interval is a point *)
Definition midpoint (iv : Qc * Qc) : Qc := (fst iv + snd iv) / (1 + 1).
Definition numeric_roots_model (ivs : list ((Qc * Qc) * nat)) : list (Qc * nat) * bool :=
  (map (fun im => (midpoint (fst im), snd im)) ivs,
   forallb (fun im => Qc_eqb (fst (fst im)) (snd (fst im))) ivs).

Lemma two_neq0 : (1 + 1 : Qc) <> 0.
Proof. discriminate. Qed.

(* flag = true: nothing was rounded — every returned number is the (only) point of its
   isolating interval, hence the root it isolates; flag = false: some interval is not a point *)
Theorem exact_flag_model : forall ivs,
  (snd (numeric_roots_model ivs) = true ->
     forall lo hi m rho, In ((lo, hi), m) ivs -> lo <= rho -> rho <= hi ->
       In (rho, m) (fst (numeric_roots_model ivs))) /\
  (snd (numeric_roots_model ivs) = false -> exists lo hi m, In ((lo, hi), m) ivs /\ lo <> hi).
Proof.
  intros ivs. unfold numeric_roots_model; cbn [fst snd]. split.
  - intros H lo hi m rho Hin Hlo Hhi. rewrite forallb_forall in H.
    pose proof (H _ Hin) as Heq. cbn [fst snd] in Heq. apply Qc_eqb_true in Heq. subst hi.
    assert (rho = lo) by (apply Qcle_antisym; assumption). subst rho.
    apply in_map_iff. exists ((lo, lo), m). split; [|exact Hin]. cbn [fst snd]. f_equal.
    unfold midpoint; cbn [fst snd]. field. exact two_neq0.
  - intros H. induction ivs as [|[[lo hi] m] ivs IH]; cbn [forallb] in H; [discriminate|].
    apply andb_false_iff in H. cbn [fst snd] in H. destruct H as [H|H].
    + exists lo, hi, m. split; [left; reflexivity|]. intros ->. rewrite Qc_eqb_refl in H. discriminate.
    + destruct (IH H) as (lo' & hi' & m' & Hin & Hne). exists lo', hi', m'. split; [right; exact Hin | exact Hne].
Qed.

(* numeric_croots: every ComplexRootOf leaf of a root expression is replaced by a float and
   the result is flagged exact iff no leaf was replaced *)
Inductive rexpr :=
| RNum (q : Qc)
| RCroot (k : nat)        (* an implicit algebraic number (sympy ComplexRootOf) *)
| RFloat (k : nat)        (* its floating-point approximation *)
| RBin (op : nat) (a b : rexpr).
Fixpoint numerify (e : rexpr) : rexpr * bool :=
  match e with
  | RCroot k => (RFloat k, false)
  | RBin op a b => let '(a', ea) := numerify a in let '(b', eb) := numerify b in (RBin op a' b', ea && eb)
  | _ => (e, true)
  end.
Fixpoint has_float (e : rexpr) : bool :=
  match e with RFloat _ => true | RBin _ a b => has_float a || has_float b | _ => false end.
Fixpoint has_croot (e : rexpr) : bool :=
  match e with RCroot _ => true | RBin _ a b => has_croot a || has_croot b | _ => false end.

Theorem exact_flag_croots_model : forall e,
  has_float e = false ->
  (snd (numerify e) = true -> fst (numerify e) = e) /\
  (snd (numerify e) = negb (has_croot e)) /\
  (has_float (fst (numerify e)) = has_croot e).
Proof.
  induction e as [q|k|k|op a IHa b IHb]; cbn [numerify has_float has_croot fst snd negb]; intros Hf.
  - repeat split; reflexivity.
  - repeat split; try reflexivity. intros H; discriminate H.
  - discriminate Hf.
  - apply orb_false_iff in Hf. destruct Hf as [Ha Hb].
    destruct (IHa Ha) as (A1 & A2 & A3). destruct (IHb Hb) as (B1 & B2 & B3).
    destruct (numerify a) as [a' ea]. destruct (numerify b) as [b' eb]. cbn [fst snd] in *.
    repeat split.
    + intros H. apply andb_true_iff in H. destruct H as [H1 H2]. rewrite (A1 H1), (B1 H2). reflexivity.
    + rewrite A2, B2. destruct (has_croot a), (has_croot b); reflexivity.
    + cbn [has_float]. rewrite A3, B3. reflexivity.
Qed.

(* ---- comparators used by the harness (ties; no theorem depends on them) -------------------- *)
Definition expr_sim (a b : expr) : bool := pzero (psub (of_expr a) (of_expr b)).
Lemma expr_sim_sound a b : expr_sim a b = true -> forall s, eval a s = eval b s.
Proof.
  unfold expr_sim. intros H s. pose proof (pzero_sound _ H s) as Hz.
  rewrite eval_psub, !eval_of_expr in Hz. transitivity (eval a s - eval b s + eval b s); [ring | rewrite Hz; ring].
Qed.

Definition cop_eqb (a b : cop) : bool :=
  match a, b with Ceq, Ceq | Cle, Cle | Cge, Cge | Clt, Clt | Cgt, Cgt => true | _, _ => false end.
Fixpoint cond_sim (a b : cond) : bool :=
  match a, b with
  | CTrue, CTrue | CFalse, CFalse => true
  | CAtom a1 o a2, CAtom b1 o' b2 => expr_sim a1 b1 && cop_eqb o o' && expr_sim a2 b2
  | CNot a1, CNot b1 => cond_sim a1 b1
  | CAnd a1 a2, CAnd b1 b2 | COr a1 a2, COr b1 b2 => cond_sim a1 b1 && cond_sim a2 b2
  | _, _ => false
  end.
Fixpoint list_sim {A} (f : A -> A -> bool) (l1 l2 : list A) : bool :=
  match l1, l2 with
  | [], [] => true
  | a :: l1', b :: l2' => f a b && list_sim f l1' l2'
  | _, _ => false
  end.
Definition draw_sim (a b : draw) : bool :=
  match a, b with
  | DBern p, DBern q => expr_sim p q
  | DCat ps, DCat qs => list_sim expr_sim ps qs
  | DUnif a1 b1, DUnif a2 b2 => Z.eqb a1 a2 && Z.eqb b1 b2
  | DCont f xs, DCont g ys => String.eqb f g && list_sim expr_sim xs ys
  | _, _ => false
  end.
Definition rhs_sim (a b : rhs) : bool :=
  match a, b with
  | RChoice l1, RChoice l2 => list_sim (fun x y => expr_sim (fst x) (fst y) && expr_sim (snd x) (snd y)) l1 l2
  | RDraw d1, RDraw d2 => draw_sim d1 d2
  | _, _ => false
  end.
(* flat assignments after ConditionsToArithm: same variable, condition true on both sides,
   right-hand sides equal as polynomials *)
Definition ga_sim (a b : gassign) : bool :=
  var_eqb (ga_var a) (ga_var b) && cond_sim (ga_cond a) (ga_cond b) && rhs_sim (ga_rhs a) (ga_rhs b)
  && match ga_cond a with CTrue => true | _ => var_eqb (ga_default a) (ga_default b) end.
Definition c2a_matches (T : tenv) (us : list var) (before after : list gassign) : bool :=
  match c2a_gas T us before with Some l => list_sim ga_sim l after | None => false end.

Fixpoint stmt_sim (a b : stmt) {struct a} : bool :=
  match a, b with
  | SAssign x r, SAssign y r' => var_eqb x y && rhs_sim r r'
  | SSimult l, SSimult l' => list_sim (fun p q => var_eqb (fst p) (fst q) && rhs_sim (snd p) (snd q)) l l'
  | SIf bs els, SIf bs' els' => branches_sim bs bs' && block_sim els els'
  | _, _ => false
  end
with block_sim (a b : block) {struct a} : bool :=
  match a, b with
  | BNil, BNil => true
  | BCons s a', BCons t b' => stmt_sim s t && block_sim a' b'
  | _, _ => false
  end
with branches_sim (a b : branches) {struct a} : bool :=
  match a, b with
  | BrNil, BrNil => true
  | BrCons c x a', BrCons d y b' => cond_sim c d && block_sim x y && branches_sim a' b'
  | _, _ => false
  end.

(* transform_categoricals over a whole block, in parse order; [cs] are the generated names.
   A choice with at least two alternatives is what the grammar calls categorical. *)
Fixpoint catx_stmt (cs : list var) (s : stmt) {struct s} : block * list var :=
  match s with
  | SAssign x (RChoice (a1 :: a2 :: alts)) =>
      (cat_expand x (hd ""%string cs) (a1 :: a2 :: alts), tl cs)
  | SIf bs els =>
      let '(bs', cs1) := catx_branches cs bs in
      let '(els', cs2) := catx_block cs1 els in
      (BCons (SIf bs' els') BNil, cs2)
  | _ => (BCons s BNil, cs)
  end
with catx_block (cs : list var) (b : block) {struct b} : block * list var :=
  match b with
  | BNil => (BNil, cs)
  | BCons s b' =>
      let '(b1, cs1) := catx_stmt cs s in
      let '(b2, cs2) := catx_block cs1 b' in
      (block_app b1 b2, cs2)
  end
with catx_branches (cs : list var) (bs : branches) {struct bs} : branches * list var :=
  match bs with
  | BrNil => (BrNil, cs)
  | BrCons c b bs' =>
      let '(b1, cs1) := catx_block cs b in
      let '(bs1, cs2) := catx_branches cs1 bs' in
      (BrCons c b1 bs1, cs2)
  end.
Definition catx_matches (cs : list var) (before after : block) : bool :=
  block_sim (fst (catx_block cs before)) after.
