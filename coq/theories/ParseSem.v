(* C19 — meaning of the surface syntax: values of arithmetic ASTs (Python semantics of
   + - * / ** and unary minus over Q), translation of the polynomial fragment to
   Syntax.expr, decimal literals (model of float_to_rational = Rational(str(x))), and the
   token-level model of the parser's implicit last probability "1-p1-...-pk". *)
From Coq Require Import String List NArith ZArith QArith Qcanon Arith Bool Lia Field.
From Polar Require Import Qcx Syntax Sem Parse ParseCond.
Import ListNotations.
Local Open Scope Qc_scope.

(* ---- numbers ---------------------------------------------------------------------------- *)
Fixpoint pow10 (k : nat) : positive := match k with O => 1%positive | S k' => (10 * pow10 k')%positive end.
Definition numval (m : N) (k : nat) : Qc := mkq (Z.of_N m) (pow10 k).

Lemma Q2Qc_plus a b : Q2Qc a + Q2Qc b = Q2Qc (a + b)%Q.
Proof. unfold Qcplus. apply Q2Qc_eq_iff. simpl. rewrite !Qred_correct. reflexivity. Qed.
Lemma Q2Qc_mult a b : Q2Qc a * Q2Qc b = Q2Qc (a * b)%Q.
Proof. unfold Qcmult. apply Q2Qc_eq_iff. simpl. rewrite !Qred_correct. reflexivity. Qed.
Lemma Q2Qc_inv a : / Q2Qc a = Q2Qc (/ a)%Q.
Proof. unfold Qcinv. apply Q2Qc_eq_iff. simpl. rewrite !Qred_correct. reflexivity. Qed.
Lemma Q2Qc_div a b : Q2Qc a / Q2Qc b = Q2Qc (a / b)%Q.
Proof. unfold Qcdiv. rewrite Q2Qc_inv, Q2Qc_mult. reflexivity. Qed.

Definition q10 : Qc := mkq 10 1.
Lemma q10_nz : q10 <> 0.
Proof. intros H. apply (f_equal this) in H. vm_compute in H. discriminate H. Qed.

Lemma mkq_tenth z p : mkq z (10 * p) = mkq z p / q10.
Proof.
  unfold q10, mkq. rewrite Q2Qc_div. apply Q2Qc_eq_iff.
  unfold Qeq, Qdiv, Qmult, Qinv. simpl. lia.
Qed.
Lemma mkq_add a b : mkq a 1 + mkq b 1 = mkq (a + b) 1.
Proof. unfold mkq. rewrite Q2Qc_plus. apply Q2Qc_eq_iff. unfold Qeq, Qplus. simpl. lia. Qed.
Lemma mkq_mul a b : mkq a 1 * mkq b 1 = mkq (a * b) 1.
Proof. unfold mkq. rewrite Q2Qc_mult. apply Q2Qc_eq_iff. unfold Qeq, Qmult. simpl. lia. Qed.

(* decimal literal  d1..dj . e1..ek  read positionally *)
Definition dstep (a : N) (d : nat) : N := (10 * a + N.of_nat d)%N.
Definition digits_val (ds : list nat) : N := fold_left dstep ds 0%N.
Fixpoint frac_val (ds : list nat) : Qc :=
  match ds with [] => 0 | d :: ds' => (mkq (Z.of_nat d) 1 + frac_val ds') / q10 end.
Definition dec_value (ip fp : list nat) : Qc := mkq (Z.of_N (digits_val ip)) 1 + frac_val fp.

Lemma frac_fold : forall fp acc,
  mkq (Z.of_N (fold_left dstep fp acc)) (pow10 (length fp)) = mkq (Z.of_N acc) 1 + frac_val fp.
Proof.
  induction fp as [|d fp IH]; intros acc; cbn [fold_left length frac_val].
  - change (pow10 0) with 1%positive. ring.
  - change (pow10 (S (length fp))) with (10 * pow10 (length fp))%positive.
    rewrite mkq_tenth, IH. unfold dstep.
    replace (Z.of_N (10 * acc + N.of_nat d)) with (10 * Z.of_N acc + Z.of_nat d)%Z by lia.
    rewrite <- mkq_add, <- mkq_mul. fold q10. field. apply q10_nz.
Qed.

(* the token the lexer makes of a decimal literal denotes its positional value: this is
   what Rational("d1..dj.e1..ek") is *)
Theorem decimal_literal_value : forall ip fp,
  numval (digits_val (ip ++ fp)) (length fp) = dec_value ip fp.
Proof. intros ip fp. unfold numval, digits_val, dec_value. rewrite fold_left_app. apply frac_fold. Qed.

(* ---- values of surface expressions -------------------------------------------------------- *)
Definition as_int (v : Qc) : option Z := if Pos.eqb (qden v) 1 then Some (qnum v) else None.
Definition pow_val (u v : Qc) : option Qc :=
  match as_int v with
  | None => None
  | Some z => if (0 <=? z)%Z then Some (qpow u (Z.to_nat z))
              else if Qc_eqb u 0 then None else Some (/ qpow u (Z.to_nat (- z)))
  end.
Definition div_val (u v : Qc) : option Qc := if Qc_eqb v 0 then None else Some (u / v).
Definition bind2 (f : Qc -> Qc -> option Qc) (a b : option Qc) : option Qc :=
  match a, b with Some u, Some v => f u v | _, _ => None end.

Fixpoint sx_eval (e : sx) (s : state) : option Qc :=
  match e with
  | XNum m k => Some (numval m k)
  | XVar x => Some (s x)
  | XNeg a => option_map Qcopp (sx_eval a s)
  | XAdd a b => bind2 (fun u v => Some (u + v)) (sx_eval a s) (sx_eval b s)
  | XSub a b => bind2 (fun u v => Some (u - v)) (sx_eval a s) (sx_eval b s)
  | XMul a b => bind2 (fun u v => Some (u * v)) (sx_eval a s) (sx_eval b s)
  | XDiv a b => bind2 div_val (sx_eval a s) (sx_eval b s)
  | XPow a b => bind2 pow_val (sx_eval a s) (sx_eval b s)
  end.

(* decimal versus fraction notation: the literal d1..dj.e1..ek and the quotient of the
   integer literals d1..dj e1..ek and 1 0..0 (k zeros) have the same value *)
Lemma numval_pow10_nz k : numval (Npos (pow10 k)) 0 <> 0.
Proof.
  unfold numval, mkq. intros H. apply Q2Qc_eq_iff in H. unfold Qeq in H. simpl in H. lia.
Qed.

Lemma numval_ratio m k : numval m k = numval m 0 / numval (Npos (pow10 k)) 0.
Proof.
  unfold numval, mkq. rewrite Q2Qc_div. apply Q2Qc_eq_iff.
  unfold Qeq, Qdiv, Qmult, Qinv. simpl. lia.
Qed.

Theorem decimal_fraction_same : forall ip fp s,
  let m := digits_val (ip ++ fp) in
  sx_eval (XNum m (length fp)) s = sx_eval (XDiv (XNum m 0) (XNum (Npos (pow10 (length fp))) 0)) s
  /\ sx_eval (XNum m (length fp)) s = Some (dec_value ip fp).
Proof.
  intros ip fp s m. split.
  - simpl. unfold div_val.
    destruct (Qc_eqb_spec (numval (N.pos (pow10 (length fp))) 0) 0) as [E|_].
    + exfalso. exact (numval_pow10_nz _ E).
    + rewrite <- numval_ratio. reflexivity.
  - simpl. unfold m. rewrite decimal_literal_value. reflexivity.
Qed.

(* ---- the polynomial fragment as Syntax.expr ------------------------------------------------ *)
Fixpoint cval (e : sx) : option Qc :=      (* value of a closed expression *)
  match e with
  | XNum m k => Some (numval m k)
  | XVar _ => None
  | XNeg a => option_map Qcopp (cval a)
  | XAdd a b => bind2 (fun u v => Some (u + v)) (cval a) (cval b)
  | XSub a b => bind2 (fun u v => Some (u - v)) (cval a) (cval b)
  | XMul a b => bind2 (fun u v => Some (u * v)) (cval a) (cval b)
  | XDiv a b => bind2 div_val (cval a) (cval b)
  | XPow a b => bind2 pow_val (cval a) (cval b)
  end.

Lemma cval_eval : forall e v, cval e = Some v -> forall s, sx_eval e s = Some v.
Proof.
  induction e; simpl; intros v H s; try exact H; try discriminate H.
  - destruct (cval e) as [u|]; [|discriminate H]. rewrite (IHe u eq_refl s). exact H.
  - destruct (cval e1) as [u|], (cval e2) as [w|]; try discriminate H. rewrite (IHe1 u eq_refl s), (IHe2 w eq_refl s). exact H.
  - destruct (cval e1) as [u|], (cval e2) as [w|]; try discriminate H. rewrite (IHe1 u eq_refl s), (IHe2 w eq_refl s). exact H.
  - destruct (cval e1) as [u|], (cval e2) as [w|]; try discriminate H. rewrite (IHe1 u eq_refl s), (IHe2 w eq_refl s). exact H.
  - destruct (cval e1) as [u|], (cval e2) as [w|]; try discriminate H. rewrite (IHe1 u eq_refl s), (IHe2 w eq_refl s). exact H.
  - destruct (cval e1) as [u|], (cval e2) as [w|]; try discriminate H. rewrite (IHe1 u eq_refl s), (IHe2 w eq_refl s). exact H.
Qed.

Definition as_nat (v : Qc) : option nat :=
  match as_int v with Some z => if (0 <=? z)%Z then Some (Z.to_nat z) else None | None => None end.

Fixpoint to_expr (e : sx) : option expr :=
  match e with
  | XNum m k => Some (EConst (numval m k))
  | XVar x => Some (EVar x)
  | XNeg a => option_map ENeg (to_expr a)
  | XAdd a b => match to_expr a, to_expr b with Some p, Some q => Some (EAdd p q) | _, _ => None end
  | XSub a b => match to_expr a, to_expr b with Some p, Some q => Some (ESub p q) | _, _ => None end
  | XMul a b => match to_expr a, to_expr b with Some p, Some q => Some (EMul p q) | _, _ => None end
  | XDiv a b => match to_expr a, cval b with
                | Some p, Some v => if Qc_eqb v 0 then None else Some (EMul p (EConst (/ v)))
                | _, _ => None end
  | XPow a b => match to_expr a, cval b with
                | Some p, Some v => match as_nat v with Some n => Some (EPow p n) | None => None end
                | _, _ => None end
  end.

Lemma mkq_m1 : mkq (-1) 1 = - (1).
Proof. apply Qc_is_canon. reflexivity. Qed.

Theorem to_expr_sound : forall e p, to_expr e = Some p -> forall s, sx_eval e s = Some (eval p s).
Proof.
  induction e; simpl; intros p H s.
  - inversion H; reflexivity.
  - inversion H; reflexivity.
  - destruct (to_expr e) as [q|]; [|discriminate H]. inversion H; subst.
    rewrite (IHe q eq_refl s). simpl. rewrite mkq_m1. f_equal; try ring.
  - destruct (to_expr e1) as [q1|], (to_expr e2) as [q2|]; try discriminate H. inversion H; subst.
    rewrite (IHe1 q1 eq_refl s), (IHe2 q2 eq_refl s). reflexivity.
  - destruct (to_expr e1) as [q1|], (to_expr e2) as [q2|]; try discriminate H. inversion H; subst.
    rewrite (IHe1 q1 eq_refl s), (IHe2 q2 eq_refl s). simpl. rewrite mkq_m1. f_equal; try ring.
  - destruct (to_expr e1) as [q1|], (to_expr e2) as [q2|]; try discriminate H. inversion H; subst.
    rewrite (IHe1 q1 eq_refl s), (IHe2 q2 eq_refl s). reflexivity.
  - destruct (to_expr e1) as [q1|]; [|discriminate H].
    destruct (cval e2) as [v|] eqn:Ev; [|discriminate H].
    destruct (Qc_eqb v 0) eqn:Ez; [discriminate H|]. inversion H; subst.
    rewrite (IHe1 q1 eq_refl s), (cval_eval _ _ Ev s). simpl. unfold div_val. rewrite Ez. reflexivity.
  - destruct (to_expr e1) as [q1|]; [|discriminate H].
    destruct (cval e2) as [v|] eqn:Ev; [|discriminate H].
    unfold as_nat in H. destruct (as_int v) as [z|] eqn:Ei; [|discriminate H].
    destruct (0 <=? z)%Z eqn:Ep; [|discriminate H]. inversion H; subst.
    rewrite (IHe1 q1 eq_refl s), (cval_eval _ _ Ev s). simpl. unfold pow_val. rewrite Ei, Ep. reflexivity.
Qed.

Definition to_cop (o : scop) : option cop :=
  match o with Oeq => Some Ceq | Ole => Some Cle | Oge => Some Cge | Olt => Some Clt | Ogt => Some Cgt | One => None end.

Fixpoint to_cond (c : sc) : option cond :=
  match c with
  | KTrue => Some CTrue
  | KFalse => Some CFalse
  | KAtom a o b => match to_expr a, to_cop o, to_expr b with
                   | Some p, Some o', Some q => Some (CAtom p o' q) | _, _, _ => None end
  | KNot c => option_map CNot (to_cond c)
  | KAnd c1 c2 => match to_cond c1, to_cond c2 with Some a, Some b => Some (CAnd a b) | _, _ => None end
  | KOr c1 c2 => match to_cond c1, to_cond c2 with Some a, Some b => Some (COr a b) | _, _ => None end
  end.

(* ---- the implicit last probability as the parser builds it ---------------------------------
   (a) structure_transformer._assign_categorical since /repo commit 1ab34b4: every listed
       probability text is handed to the CAS parser ON ITS OWN and the last one is 1 - sum(given). *)
Fixpoint parse_all (ts : list (list tok)) : option (list sx) :=
  match ts with
  | [] => Some []
  | t :: r => match parse_expr t, parse_all r with Some e, Some es => Some (e :: es) | _, _ => None end
  end.
Definition sum_sx (ps : list sx) : sx := fold_right XAdd (XNum 0 0) ps.
Definition implicit_fixed (ts : list (list tok)) : option sx :=
  option_map (fun ps => XSub (XNum 1 0) (sum_sx ps)) (parse_all ts).

Lemma parse_all_spellings : forall ps ts, Forall2 (pr 0) ps ts -> parse_all ts = Some ps.
Proof.
  induction 1 as [|p t ps ts Hp Hps IH]; [reflexivity|].
  cbn [parse_all]. rewrite (parse_spelling _ _ Hp), IH. reflexivity.
Qed.

Lemma numval_0 : numval 0 0 = 0.
Proof. apply Qc_is_canon. reflexivity. Qed.
Lemma numval_1 : numval 1 0 = 1.
Proof. apply Qc_is_canon. reflexivity. Qed.

Lemma sum_sx_eval : forall ps s vs, Forall2 (fun p v => sx_eval p s = Some v) ps vs ->
  sx_eval (sum_sx ps) s = Some (fold_right Qcplus 0 vs).
Proof.
  induction 1 as [|p v ps vs Hp Hps IH]; cbn [sum_sx fold_right sx_eval].
  - rewrite numval_0. reflexivity.
  - fold (sum_sx ps). rewrite Hp, IH. reflexivity.
Qed.

(* for EVERY spelling of the listed probabilities (sums, differences, any parentheses) the
   omitted probability is 1 - (p1 + ... + pk) *)
Theorem implicit_last_parsed_separately : forall ps ts, Forall2 (pr 0) ps ts ->
  implicit_fixed ts = Some (XSub (XNum 1 0) (sum_sx ps)) /\
  forall s vs, Forall2 (fun p v => sx_eval p s = Some v) ps vs ->
    sx_eval (XSub (XNum 1 0) (sum_sx ps)) s = Some (1 - fold_right Qcplus 0 vs).
Proof.
  intros ps ts H. split.
  - unfold implicit_fixed. rewrite (parse_all_spellings _ _ H). reflexivity.
  - intros s vs Hv. cbn [sx_eval]. rewrite (sum_sx_eval _ _ _ Hv), numval_1. reflexivity.
Qed.

(* (b) the construction used before that commit: last_param = "1-" + "-".join(probabilities),
   i.e. the token list  1 - <p1> - <p2> ... of the probability texts AS WRITTEN.  Kept as the
   regression witness the check uses to recognise that defect. *)
Definition implicit_tokens (ps : list (list tok)) : list tok :=
  TNum 1 0 :: concat (map (fun t => TMinus :: t) ps).
Definition implicit_sx (ps : list sx) : sx := fold_left XSub ps (XNum 1 0).

Lemma implicit_pr : forall ps ts, Forall2 (pr 1) ps ts ->
  forall acc tacc, pr 0 acc tacc ->
  pr 0 (fold_left XSub ps acc) (tacc ++ concat (map (fun t => TMinus :: t) ts)).
Proof.
  induction 1 as [|p t ps ts Hp Hps IH]; intros acc tacc Hacc; simpl.
  - rewrite app_nil_r. exact Hacc.
  - replace (tacc ++ TMinus :: t ++ concat (map (fun t0 => TMinus :: t0) ts))
      with ((tacc ++ TMinus :: t) ++ concat (map (fun t0 => TMinus :: t0) ts))
      by (rewrite <- app_assoc; reflexivity).
    apply IH. apply (pr_addop 0 TMinus XSub); auto.
Qed.

(* if every listed probability is spelled as a TERM (no top-level + or -, or parenthesised)
   the parser's text denotes 1 - p1 - ... - pk *)
Theorem implicit_last_tokens : forall ps ts, Forall2 (pr 1) ps ts ->
  parse_expr (implicit_tokens ts) = Some (implicit_sx ps).
Proof.
  intros ps ts H. apply parse_spelling. unfold implicit_tokens, implicit_sx.
  apply (implicit_pr ps ts H (XNum 1 0) [TNum 1 0]). constructor.
Qed.

Lemma implicit_sx_eval : forall ps s vs, Forall2 (fun p v => sx_eval p s = Some v) ps vs ->
  forall acc a, sx_eval acc s = Some a ->
  sx_eval (fold_left XSub ps acc) s = Some (fold_left Qcminus vs a).
Proof.
  induction 1 as [|p v ps vs Hp Hps IH]; intros acc a Ha; simpl; [exact Ha|].
  apply IH. simpl. rewrite Ha, Hp. reflexivity.
Qed.

Lemma fold_minus_sum : forall vs a, fold_left Qcminus vs a = a - fold_right Qcplus 0 vs.
Proof. induction vs as [|v vs IH]; intros a; simpl; [ring | rewrite IH; ring]. Qed.

Theorem implicit_last_value : forall ps s vs, Forall2 (fun p v => sx_eval p s = Some v) ps vs ->
  sx_eval (implicit_sx ps) s = Some (1 - fold_right Qcplus 0 vs).
Proof.
  intros ps s vs H. unfold implicit_sx.
  rewrite (implicit_sx_eval ps s vs H (XNum 1 0) 1); [rewrite fold_minus_sum; reflexivity|].
  simpl. f_equal; try (apply Qc_is_canon; reflexivity).
Qed.

(* ... and it does NOT for a probability written as an unparenthesised sum: the faithful
   token model of the parser reads  1 {1/4+1/4} 2  as last probability 1-1/4+1/4 = 1 *)
Lemma some_qc_eq (o : option Qc) (q : Qc) : option_map this o = Some (this q) -> o = Some q.
Proof.
  destruct o as [v|]; simpl; intros H; [|discriminate H].
  inversion H as [H1]. f_equal. apply Qc_is_canon. rewrite H1. reflexivity.
Qed.

Definition quarter_plus_quarter : sx := XAdd (XDiv (XNum 1 0) (XNum 4 0)) (XDiv (XNum 1 0) (XNum 4 0)).
Theorem implicit_last_unparenthesised_refuted :
  exists p tp e', pr 0 p tp /\ parse_expr (implicit_tokens [tp]) = Some e' /\
    sx_eval p st0 = Some (mkq 1 2) /\ sx_eval e' st0 = Some (mkq 1 1) /\ mkq 1 1 <> 1 - mkq 1 2.
Proof.
  exists quarter_plus_quarter, (print_min quarter_plus_quarter).
  eexists. split; [eapply pr_weaken; [apply print_min_pr | simpl; lia]|].
  split; [vm_compute; reflexivity|].
  split; [apply some_qc_eq; vm_compute; reflexivity|].
  split; [apply some_qc_eq; vm_compute; reflexivity|].
  intros H. apply (f_equal this) in H. vm_compute in H. discriminate H.
Qed.
