(* Exponential polynomials  sum_j b_j^n * P_j(n)  over a commutative ring, with the
   operations the validators need (shift n -> n+1, sum, scaling, product, a sound zero
   test) and their evaluation lemmas.  Everything is executable. *)
From Coq Require Import List Bool Arith Lia Ring.
From Polar Require Import CRing.
Import ListNotations.

Section EP.
  Variable R : cring.
  Add Ring Rring : (rth R).
  Local Open Scope cr_scope.
  Notation "0" := (@r0 R).
  Notation "1" := (@r1 R).

  (* ---- nat injection and powers ---- *)
  Fixpoint rnat (n : nat) : R := match n with O => 0 | S n => rnat n + 1 end.
  Fixpoint rpow (b : R) (n : nat) : R := match n with O => 1 | S n => b * rpow b n end.

  Lemma rpow_add b n m : rpow b (n + m) = rpow b n * rpow b m.
  Proof. induction n; simpl; [ring | rewrite IHn; ring]. Qed.
  Lemma rpow_mul_base a b n : rpow (a * b) n = rpow a n * rpow b n.
  Proof. induction n; simpl; [ring | rewrite IHn; ring]. Qed.
  Lemma rpow_1 n : rpow 1 n = 1.
  Proof. induction n; simpl; [reflexivity | rewrite IHn; ring]. Qed.

  (* ---- univariate polynomials, coefficient lists low -> high ---- *)
  Definition upoly := list R.
  Fixpoint peval (p : upoly) (x : R) : R :=
    match p with [] => 0 | c :: p' => c + x * peval p' x end.
  Fixpoint padd (p q : upoly) : upoly :=
    match p, q with
    | [], _ => q
    | _, [] => p
    | a :: p', b :: q' => (a + b) :: padd p' q'
    end.
  Definition pscale (c : R) (p : upoly) : upoly := map (fun a => c * a) p.
  Fixpoint pmul (p q : upoly) : upoly :=
    match p with [] => [] | a :: p' => padd (pscale a q) (0 :: pmul p' q) end.
  (* p(x+1) *)
  Fixpoint pshift (p : upoly) : upoly :=
    match p with
    | [] => []
    | c :: p' => let s := pshift p' in padd [c] (padd (0 :: s) s)
    end.
  Definition pzero (p : upoly) : bool := forallb (fun c => reqb c 0) p.

  Lemma peval_padd p q x : peval (padd p q) x = peval p x + peval q x.
  Proof.
    revert q; induction p as [|a p IH]; intros [|b q]; simpl; try ring.
    rewrite IH; ring.
  Qed.
  Lemma peval_pscale c p x : peval (pscale c p) x = c * peval p x.
  Proof. induction p as [|a p IH]; simpl; [ring | rewrite IH; ring]. Qed.
  Lemma peval_pmul p q x : peval (pmul p q) x = peval p x * peval q x.
  Proof.
    induction p as [|a p IH]; [simpl; ring|].
    cbn [pmul]; rewrite peval_padd, peval_pscale; cbn [peval]; rewrite IH; ring.
  Qed.
  Lemma peval_pshift p x : peval (pshift p) x = peval p (x + 1).
  Proof.
    induction p as [|c p IH]; [reflexivity|].
    cbn [pshift]; rewrite !peval_padd; cbn [peval]; rewrite IH; ring.
  Qed.
  Lemma pzero_sound p : pzero p = true -> forall x, peval p x = 0.
  Proof.
    induction p as [|c p IH]; simpl; intros H x; [reflexivity|].
    apply andb_true_iff in H; destruct H as [Hc Hp].
    apply reqb_eq in Hc; subst c; rewrite (IH Hp x); ring.
  Qed.

  (* ---- exponential polynomials ---- *)
  Definition epoly := list (R * upoly).
  Definition eterm (t : R * upoly) (n : nat) : R := rpow (fst t) n * peval (snd t) (rnat n).
  Fixpoint eeval (f : epoly) (n : nat) : R :=
    match f with [] => 0 | t :: f' => eterm t n + eeval f' n end.

  Definition eadd (f g : epoly) : epoly := f ++ g.
  Definition escale (c : R) (f : epoly) : epoly := map (fun t => (fst t, pscale c (snd t))) f.
  Definition eshift (f : epoly) : epoly :=
    map (fun t => (fst t, pscale (fst t) (pshift (snd t)))) f.
  Definition econst (c : R) : epoly := [(1, [c])].
  Definition emul1 (t : R * upoly) (g : epoly) : epoly :=
    map (fun u => (fst t * fst u, pmul (snd t) (snd u))) g.
  Fixpoint emul (f g : epoly) : epoly :=
    match f with [] => [] | t :: f' => emul1 t g ++ emul f' g end.
  Fixpoint epow (f : epoly) (k : nat) : epoly :=
    match k with O => econst 1 | S k => emul f (epow f k) end.

  Lemma eeval_app f g n : eeval (f ++ g) n = eeval f n + eeval g n.
  Proof. induction f as [|t f IH]; simpl; [ring | rewrite IH; ring]. Qed.
  Lemma eeval_eadd f g n : eeval (eadd f g) n = eeval f n + eeval g n.
  Proof. apply eeval_app. Qed.
  Lemma eeval_escale c f n : eeval (escale c f) n = c * eeval f n.
  Proof.
    induction f as [|[b p] f IH]; simpl; [ring|].
    rewrite IH; unfold eterm; simpl; rewrite peval_pscale; ring.
  Qed.
  Lemma eeval_eshift f n : eeval (eshift f) n = eeval f (S n).
  Proof.
    induction f as [|[b p] f IH]; simpl; [reflexivity|].
    rewrite IH; unfold eterm; simpl; rewrite peval_pscale, peval_pshift; ring.
  Qed.
  Lemma eeval_econst c n : eeval (econst c) n = c.
  Proof. unfold econst; simpl; unfold eterm; simpl; rewrite rpow_1; ring. Qed.
  Lemma eeval_emul1 t g n : eeval (emul1 t g) n = eterm t n * eeval g n.
  Proof.
    induction g as [|[b p] g IH]; simpl; [ring|].
    rewrite IH; unfold eterm; simpl; rewrite rpow_mul_base, peval_pmul; ring.
  Qed.
  Lemma eeval_emul f g n : eeval (emul f g) n = eeval f n * eeval g n.
  Proof.
    induction f as [|t f IH]; simpl; [ring|].
    rewrite eeval_app, eeval_emul1, IH; ring.
  Qed.
  Lemma eeval_epow f k n : eeval (epow f k) n = rpow (eeval f n) k.
  Proof.
    induction k as [|k IH]; simpl epow; [apply eeval_econst|].
    rewrite eeval_emul, IH; reflexivity.
  Qed.

  (* merge terms with (provably) equal bases; sound whatever reqb answers *)
  Fixpoint einsert (t : R * upoly) (f : epoly) : epoly :=
    match f with
    | [] => [t]
    | u :: f' => if reqb (fst t) (fst u) then (fst u, padd (snd t) (snd u)) :: f'
                 else u :: einsert t f'
    end.
  Fixpoint enorm (f : epoly) : epoly :=
    match f with [] => [] | t :: f' => einsert t (enorm f') end.
  Definition ezero (f : epoly) : bool := forallb (fun t => pzero (snd t)) (enorm f).

  Lemma eeval_einsert t f n : eeval (einsert t f) n = eterm t n + eeval f n.
  Proof.
    induction f as [|u f IH]; simpl; [reflexivity|].
    destruct (reqb (fst t) (fst u)) eqn:E; simpl.
    - apply reqb_eq in E. unfold eterm; simpl. rewrite peval_padd, E; ring.
    - rewrite IH; ring.
  Qed.
  Lemma eeval_enorm f n : eeval (enorm f) n = eeval f n.
  Proof. induction f as [|t f IH]; simpl; [reflexivity | rewrite eeval_einsert, IH; reflexivity]. Qed.
  Lemma allzero_eval f : forallb (fun t => pzero (snd t)) f = true -> forall n, eeval f n = 0.
  Proof.
    induction f as [|t f IH]; simpl; intros H n; [reflexivity|].
    apply andb_true_iff in H; destruct H as [Ht Hf].
    unfold eterm; rewrite (pzero_sound _ Ht), (IH Hf n); ring.
  Qed.
  Theorem ezero_sound f : ezero f = true -> forall n, eeval f n = 0.
  Proof. intros H n; rewrite <- eeval_enorm; apply allzero_eval; exact H. Qed.

  Definition esub (f g : epoly) : epoly := eadd f (escale (ropp 1) g).
  Lemma eeval_esub f g n : eeval (esub f g) n = eeval f n - eeval g n.
  Proof. unfold esub; rewrite eeval_eadd, eeval_escale; ring. Qed.
  Definition eeq (f g : epoly) : bool := ezero (esub f g).
  Theorem eeq_sound f g : eeq f g = true -> forall n, eeval f n = eeval g n.
  Proof.
    intros H n; pose proof (ezero_sound _ H n) as E; rewrite eeval_esub in E.
    transitivity (eeval f n - eeval g n + eeval g n); [ring | rewrite E; ring].
  Qed.
End EP.

Arguments rnat {R} _. Arguments rpow {R} _ _.
Arguments peval {R} _ _. Arguments eeval {R} _ _.
Arguments eadd {R} _ _. Arguments escale {R} _ _. Arguments eshift {R} _.
Arguments emul {R} _ _. Arguments epow {R} _ _. Arguments econst {R} _.
Arguments esub {R} _ _. Arguments ezero {R} _. Arguments eeq {R} _ _. Arguments enorm {R} _.
