(* C16, rational case: unique factorisation turns multiplicative relations among non-zero
   rationals into a linear system over Z.

   Input (produced by the untrusted harness, re-multiplied here): distinct primes ps and
   for every base a sign bit and the vector of p-adic valuations, b = (+-1) * prod p_j^{v_j}.
     rational_relation_iff :  prod b_i^{e_i} = 1  <->  sum_i e_i v_i = 0  /\  sum_{neg i} e_i even
   and with the generation certificate of Lattice.v for the extended system (one extra
   unknown y for the parity, exactly the system compute_basis_rational sets up):
     rational_basis_complete : EVERY relation vector is an integer combination of the rows. *)
From Coq Require Import List Bool Arith Lia Ring Field ZArith Znumtheory Zpow_facts QArith Qcanon.
From Polar Require Import Qcx CRing ExpPoly Lattice LatticeRel.
Import ListNotations.

Local Open Scope Z_scope.

(* ---- trial-division primality test ---- *)
Definition is_prime (p : Z) : bool :=
  (1 <? p) && forallb (fun d => negb (p mod (Z.of_nat d) =? 0)) (seq 2 (Z.to_nat p - 2)).

Lemma is_prime_sound p : is_prime p = true -> prime p.
Proof.
  unfold is_prime. intros H. apply andb_true_iff in H. destruct H as [H1 H2].
  apply Z.ltb_lt in H1. apply prime_alt. split; [exact H1|].
  intros n Hn Hd. rewrite forallb_forall in H2.
  assert (Hin : In (Z.to_nat n) (seq 2 (Z.to_nat p - 2))) by (apply in_seq; lia).
  specialize (H2 _ Hin). apply negb_true_iff in H2. apply Z.eqb_neq in H2.
  apply H2. rewrite Z2Nat.id by lia. apply Z.mod_divide; [lia | exact Hd].
Qed.

Fixpoint nodupb (l : list Z) : bool :=
  match l with [] => true | x :: l' => negb (existsb (Z.eqb x) l') && nodupb l' end.
Lemma nodupb_sound l : nodupb l = true -> NoDup l.
Proof.
  induction l as [|x l IH]; intros H; constructor.
  - cbn [nodupb] in H. apply andb_true_iff in H. destruct H as [H _].
    apply negb_true_iff in H. intros Hin.
    assert (E : existsb (Z.eqb x) l = true) by (apply existsb_exists; exists x; split; [exact Hin | apply Z.eqb_refl]).
    congruence.
  - cbn [nodupb] in H. apply andb_true_iff in H. destruct H as [_ H]. apply IH; exact H.
Qed.

(* ---- products of prime powers in Z ---- *)
Fixpoint ppz (ps ns : list Z) : Z :=
  match ps, ns with p :: ps', n :: ns' => p ^ n * ppz ps' ns' | _, _ => 1 end.
Definition posp (a : list Z) := map (Z.max 0) a.
Definition negp (a : list Z) := map (fun x => Z.max 0 (- x)) a.

Lemma ppz_pos ps ns : Forall (fun p => 0 < p) ps -> Forall (fun n => 0 <= n) ns -> 0 < ppz ps ns.
Proof.
  revert ns; induction ps as [|p ps IH]; intros [|n ns] H Hn; cbn [ppz]; try lia.
  inversion H; subst. inversion Hn; subst.
  apply Z.mul_pos_pos; [apply Z.pow_pos_nonneg; assumption | apply IH; assumption].
Qed.
Lemma posp_nonneg a : Forall (fun n => 0 <= n) (posp a).
Proof. unfold posp. apply Forall_forall. intros x Hx. apply in_map_iff in Hx. destruct Hx as [y [<- _]]. lia. Qed.
Lemma negp_nonneg a : Forall (fun n => 0 <= n) (negp a).
Proof. unfold negp. apply Forall_forall. intros x Hx. apply in_map_iff in Hx. destruct Hx as [y [<- _]]. lia. Qed.

Lemma prime_not_div_ppz p ps : prime p -> Forall prime ps -> ~ In p ps ->
  forall ns, Forall (fun n => 0 <= n) ns -> ~ (p | ppz ps ns).
Proof.
  intros Hp. induction ps as [|q ps IH]; intros Hps Hnin ns Hns Hd.
  - cbn [ppz] in Hd. destruct ns; apply Z.divide_1_r in Hd; pose proof (prime_ge_2 p Hp); lia.
  - destruct ns as [|n ns].
    + cbn [ppz] in Hd. apply Z.divide_1_r in Hd. pose proof (prime_ge_2 p Hp); lia.
    + cbn [ppz] in Hd. inversion Hps; subst. inversion Hns; subst.
      apply prime_mult in Hd; [|exact Hp]. destruct Hd as [Hd|Hd].
      * apply (prime_power_prime p q n) in Hd; try assumption.
        apply Hnin. left. symmetry; exact Hd.
      * apply (IH H2 (fun Hin => Hnin (or_intror Hin)) ns H4 Hd).
Qed.

(* unique factorisation in the form needed: equal "positive part" and "negative part" products
   over distinct primes force all exponents to be 0 *)
Lemma ppz_unique ps : Forall prime ps -> NoDup ps ->
  forall a, ppz ps (posp a) = ppz ps (negp a) -> forall i, (i < length ps)%nat -> nth i a 0 = 0.
Proof.
  induction ps as [|p ps IH]; intros Hps Hnd a E i Hi; [simpl in Hi; lia|].
  destruct a as [|x a]; [destruct i; reflexivity|].
  inversion Hps; subst. inversion Hnd; subst.
  cbn [posp negp map ppz] in E. fold (posp a) in E. fold (negp a) in E.
  assert (Hx : x = 0).
  { destruct (Z.lt_trichotomy x 0) as [Hneg|[H0|Hpos]]; [|exact H0|].
    - exfalso. replace (Z.max 0 x) with 0 in E by lia. rewrite Z.pow_0_r, Z.mul_1_l in E.
      apply (prime_not_div_ppz p ps H1 H2 H3 (posp a) (posp_nonneg a)).
      rewrite E. apply Z.divide_mul_l. replace (Z.max 0 (- x)) with (Z.succ (- x - 1)) by lia.
      rewrite Z.pow_succ_r by lia. apply Z.divide_mul_l. apply Z.divide_refl.
    - exfalso. replace (Z.max 0 (- x)) with 0 in E by lia. rewrite Z.pow_0_r, Z.mul_1_l in E.
      apply (prime_not_div_ppz p ps H1 H2 H3 (negp a) (negp_nonneg a)).
      rewrite <- E. apply Z.divide_mul_l. replace (Z.max 0 x) with (Z.succ (x - 1)) by lia.
      rewrite Z.pow_succ_r by lia. apply Z.divide_mul_l. apply Z.divide_refl. }
  subst x. destruct i as [|i]; [reflexivity|]. cbn [nth].
  apply IH; try assumption; [|simpl in Hi; lia].
  replace (Z.max 0 0) with 0 in E by lia. replace (Z.max 0 (- 0)) with 0 in E by lia.
  rewrite Z.pow_0_r, !Z.mul_1_l in E. exact E.
Qed.

(* ---- Z inside Qc ---- *)
Local Open Scope Qc_scope.
Definition zq (z : Z) : Qc := Q2Qc (inject_Z z).

Lemma zq_mul x y : zq (x * y) = zq x * zq y.
Proof.
  unfold zq. apply Qc_is_canon. unfold Qcmult, Q2Qc. cbn [this]. rewrite !Qred_correct. rewrite inject_Z_mult. reflexivity.
Qed.
Lemma zq_opp x : zq (- x) = - zq x.
Proof.
  unfold zq. apply Qc_is_canon. unfold Qcopp, Q2Qc. cbn [this]. rewrite !Qred_correct. rewrite inject_Z_opp. reflexivity.
Qed.
Lemma zq_1 : zq 1 = 1.
Proof. apply Qc_is_canon. reflexivity. Qed.
Lemma zq_0 : zq 0 = 0.
Proof. apply Qc_is_canon. reflexivity. Qed.
Lemma zq_inj x y : zq x = zq y -> x = y.
Proof.
  unfold zq. intros H. apply Q2Qc_eq_iff in H.
  unfold Qeq, inject_Z in H. simpl in H. lia.
Qed.
Lemma zq_nonzero x : x <> 0%Z -> zq x <> 0.
Proof. intros H E. rewrite <- zq_0 in E. apply zq_inj in E. contradiction. Qed.

Lemma Qc_inv_unique (x y : Qc) : x * y = 1 -> / x = y.
Proof.
  intros H. assert (Hx : x <> 0).
  { intros E. rewrite E in H. assert (E0 : 0 * y = 0) by ring. rewrite E0 in H. discriminate. }
  transitivity (/ x * (x * y)); [rewrite H; ring | field; exact Hx].
Qed.
Lemma Qc_mul_inv (x : Qc) : x <> 0 -> x * / x = 1.
Proof. intros H. field; exact H. Qed.

(* ---- integer powers in Qc with the field inverse ---- *)
Definition qbase (b : Qc) : Qc * Qc := (b, / b).
Definition zpowq (b : Qc) (e : Z) : Qc := zpow (R := Qc_cring) b (/ b) e.
Definition qrelation (bs : list Qc) (e : list Z) : Prop := is_relation (R := Qc_cring) (map qbase bs) e.

Lemma zpowq_add b x y : b <> 0 -> zpowq b (x + y) = zpowq b x * zpowq b y.
Proof. intros H. unfold zpowq. apply (zpow_add Qc_cring). apply Qc_mul_inv; exact H. Qed.
Lemma zpowq_nonzero_inv b a : b <> 0 -> / zpowq b a = zpow (R := Qc_cring) (/ b) b a.
Proof.
  intros H. apply Qc_inv_unique. unfold zpowq.
  apply (zpow_inv Qc_cring b (/ b) a). apply Qc_mul_inv; exact H.
Qed.
Lemma zpowq_zpowq b a x : b <> 0 -> zpowq (zpowq b a) x = zpowq b (a * x).
Proof.
  intros H. unfold zpowq at 1. rewrite (zpowq_nonzero_inv b a H). unfold zpowq.
  apply (zpow_zpow Qc_cring).
Qed.
Lemma zpowq_mul_base u w x : u <> 0 -> w <> 0 -> zpowq (u * w) x = zpowq u x * zpowq w x.
Proof.
  intros Hu Hw. unfold zpowq.
  replace (/ (u * w)) with (/ u * / w) by (field; split; assumption).
  apply (zpow_mul_base Qc_cring).
Qed.

Lemma zq_rpow p n : rpow (R := Qc_cring) (zq p) n = zq (p ^ Z.of_nat n).
Proof.
  induction n as [|n IH]; [symmetry; apply zq_1|].
  rewrite Nat2Z.inj_succ, Z.pow_succ_r by lia. rewrite zq_mul, <- IH. reflexivity.
Qed.

(* ---- factored rationals ---- *)
Definition pbases (ps : list Z) : list (Qc * Qc) := map (fun p => qbase (zq p)) ps.
Definition pp (ps a : list Z) : Qc := prodpow (R := Qc_cring) (pbases ps) a.
Definition tz (t : bool) : Z := if t then 1%Z else 0%Z.
Definition psi (ps : list Z) (n : Z) (a : list Z) : Qc := zpowq (- (1)) n * pp ps a.
Definition qfact (ps : list Z) (f : bool * list Z) : Qc := psi ps (tz (fst f)) (snd f).

Lemma pbases_ok ps : Forall (fun p => 0 < p)%Z ps -> inverses_ok (R := Qc_cring) (pbases ps).
Proof.
  intros H q Hq. unfold pbases in Hq. apply in_map_iff in Hq. destruct Hq as [p [<- Hp]].
  cbn [qbase fst snd]. rewrite Forall_forall in H. specialize (H p Hp).
  apply (Qc_mul_inv (zq p)). apply zq_nonzero. lia.
Qed.

Lemma m1_nonzero : - (1) <> 0.
Proof. intros E. discriminate. Qed.

Lemma pp_ND ps : Forall (fun p => 0 < p)%Z ps -> forall a,
  pp ps a * zq (ppz ps (negp a)) = zq (ppz ps (posp a)).
Proof.
  induction ps as [|p ps IH]; intros H [|x a];
    try (unfold pp; cbn [pbases map prodpow negp posp ppz qbase]; rewrite zq_1; cbn [r1 Qc_cring]; ring).
  inversion H; subst.
  unfold pp in *. cbn [pbases map prodpow negp posp ppz qbase].
  fold (pbases ps). fold (negp a). fold (posp a).
  rewrite !zq_mul.
  transitivity ((zpow (R := Qc_cring) (zq p) (/ zq p) x * zq (p ^ Z.max 0 (- x))) *
                (prodpow (R := Qc_cring) (pbases ps) a * zq (ppz ps (negp a)))).
  { cbn [rmul Qc_cring]. ring. }
  rewrite (IH H3 a). f_equal.
  assert (Hp : zq p <> 0) by (apply zq_nonzero; lia).
  destruct x as [|q|q]; cbn [zpow Z.opp].
  - replace (Z.max 0 0) with 0%Z by lia. rewrite Z.pow_0_r, zq_1. cbn [r1 Qc_cring]. ring.
  - replace (Z.max 0 (Z.neg q)) with 0%Z by lia. replace (Z.max 0 (Z.pos q)) with (Z.pos q) by lia.
    rewrite Z.pow_0_r, zq_1, zq_rpow, positive_nat_Z. ring.
  - replace (Z.max 0 (Z.neg q)) with 0%Z by lia. replace (Z.max 0 (Z.pos q)) with (Z.pos q) by lia.
    rewrite Z.pow_0_r, zq_1, <- (positive_nat_Z q), <- zq_rpow.
    apply (rpow_inv Qc_cring (/ zq p) (zq p)).
    exact (eq_trans (Qcmult_comm _ _) (Qc_mul_inv _ Hp)).
Qed.

(* sign part *)
Lemma rpow_m1 n : rpow (R := Qc_cring) (- (1)) n = if Nat.even n then 1 else - (1).
Proof.
  induction n as [|n IH]; [reflexivity|].
  rewrite Nat.even_succ, <- Nat.negb_even. cbn [rpow]. rewrite IH.
  destruct (Nat.even n); cbn [negb rmul car Qc_cring]; ring.
Qed.
Lemma inv_m1 : / - (1) = - (1).
Proof. apply Qc_inv_unique. ring. Qed.
Lemma zpowq_1 x : zpowq 1 x = 1.
Proof.
  unfold zpowq. replace (/ 1) with 1 by (symmetry; apply Qc_inv_unique; ring).
  apply (zpow_one Qc_cring).
Qed.
Lemma zpowq_m1_sq h : zpowq (- (1)) h * zpowq (- (1)) h = 1.
Proof.
  rewrite <- (zpowq_mul_base (- (1)) (- (1)) h m1_nonzero m1_nonzero).
  replace (- (1) * - (1)) with 1 by ring. apply zpowq_1.
Qed.
Lemma zpowq_m1_even n : Z.Even n -> zpowq (- (1)) n = 1.
Proof.
  intros [h ->]. replace (2 * h)%Z with (h + h)%Z by lia.
  rewrite (zpowq_add _ h h m1_nonzero). apply zpowq_m1_sq.
Qed.
Lemma zpowq_m1_odd n : Z.Odd n -> zpowq (- (1)) n = - (1).
Proof.
  intros [h ->]. rewrite (zpowq_add _ (2 * h) 1 m1_nonzero).
  rewrite (zpowq_m1_even (2 * h)) by (exists h; reflexivity).
  unfold zpowq. cbn [zpow]. change (Pos.to_nat 1) with 1%nat. cbn [rpow rmul r1 car Qc_cring]. ring.
Qed.
Lemma zpowq_m1_nonzero n : zpowq (- (1)) n <> 0.
Proof.
  intros E. pose proof (zpowq_m1_sq n) as H. rewrite E in H.
  assert (E0 : 0 * 0 = 0) by ring. rewrite E0 in H. discriminate.
Qed.

Lemma pp_swap_inv ps a : Forall (fun p => 0 < p)%Z ps ->
  pp ps a * prodpow (R := Qc_cring) (swap_bases (R := Qc_cring) (pbases ps)) a = 1.
Proof. intros H. apply (prodpow_inv Qc_cring). apply pbases_ok; exact H. Qed.
Lemma pp_nonzero ps a : Forall (fun p => 0 < p)%Z ps -> pp ps a <> 0.
Proof.
  intros H E. pose proof (pp_swap_inv ps a H) as Hi. rewrite E in Hi.
  assert (E0 : forall y : Qc, 0 * y = 0) by (intros; ring). rewrite E0 in Hi. discriminate.
Qed.

Lemma psi_add ps n n' a a' : Forall (fun p => 0 < p)%Z ps ->
  psi ps (n + n') (vadd (R := Z_cring) a a') = psi ps n a * psi ps n' a'.
Proof.
  intros H. unfold psi, pp.
  rewrite (zpowq_add _ n n' m1_nonzero), (prodpow_vadd Qc_cring _ (pbases_ok ps H)).
  cbn [rmul car Qc_cring]. ring.
Qed.
Lemma psi_scale ps n a x : Forall (fun p => 0 < p)%Z ps ->
  zpowq (psi ps n a) x = psi ps (n * x) (vscale (R := Z_cring) x a).
Proof.
  intros H. unfold psi.
  rewrite (zpowq_mul_base _ _ x (zpowq_m1_nonzero n) (pp_nonzero ps a H)).
  rewrite (zpowq_zpowq _ n x m1_nonzero). f_equal.
  unfold zpowq at 1. rewrite (Qc_inv_unique _ _ (pp_swap_inv ps a H)).
  unfold pp. symmetry. apply (prodpow_vscale Qc_cring).
Qed.
Lemma psi_zero ps m : psi ps 0 (zeros (R := Z_cring) m) = 1.
Proof.
  unfold psi, pp. rewrite (prodpow_zeros Qc_cring). unfold zpowq. cbn [zpow r1 car Qc_cring]. ring.
Qed.

Definition signs (facts : list (bool * list Z)) : list Z := map (fun f => tz (fst f)) facts.
Definition valrows (facts : list (bool * list Z)) : list (list Z) := map snd facts.

(* the product of powers of factored rationals, computed in the exponents *)
Lemma prodpow_facts ps m facts : Forall (fun p => 0 < p)%Z ps -> forall e,
  prodpow (R := Qc_cring) (map qbase (map (qfact ps) facts)) e
  = psi ps (vdot (R := Z_cring) e (signs facts)) (lincomb (R := Z_cring) m e (valrows facts)).
Proof.
  intros H. induction facts as [|[t v] fs IH]; intros e.
  - cbn [map prodpow signs valrows]. rewrite (vdot_nil_r Z_cring).
    destruct e; cbn [lincomb]; symmetry; apply psi_zero.
  - destruct e as [|x e].
    + cbn [map prodpow qbase signs valrows vdot lincomb]. symmetry; apply psi_zero.
    + cbn [map prodpow qbase signs valrows vdot lincomb fst snd].
      fold (signs fs). fold (valrows fs). rewrite IH.
      change (zpow (R := Qc_cring) (qfact ps (t, v)) (/ qfact ps (t, v)) x) with (zpowq (qfact ps (t, v)) x).
      unfold qfact. cbn [fst snd]. rewrite (psi_scale ps _ v x H).
      rewrite <- (psi_add ps _ _ _ _ H). f_equal.
      cbn [rmul radd car Z_cring]. ring.
Qed.

Lemma prime_pos_all ps : Forall prime ps -> Forall (fun p => 0 < p)%Z ps.
Proof.
  intros H. apply Forall_forall. intros p Hp. rewrite Forall_forall in H.
  pose proof (prime_ge_2 p (H p Hp)). lia.
Qed.

(* unique factorisation: (+-1) * prod p_j^{a_j} = 1 forces the sign exponent even, all a_j = 0 *)
Lemma psi_one ps n a : Forall prime ps -> NoDup ps -> psi ps n a = 1 ->
  Z.Even n /\ forall i, (i < length ps)%nat -> nth i a 0%Z = 0%Z.
Proof.
  intros Hp Hnd H. pose proof (prime_pos_all ps Hp) as Hpos.
  pose proof (pp_ND ps Hpos a) as HND.
  pose proof (ppz_pos ps (negp a) Hpos (negp_nonneg a)) as HD.
  pose proof (ppz_pos ps (posp a) Hpos (posp_nonneg a)) as HN.
  unfold psi in H. destruct (Z.Even_or_Odd n) as [He|Ho].
  - split; [exact He|]. rewrite (zpowq_m1_even n He) in H.
    assert (E : pp ps a = 1) by (rewrite <- H; ring).
    rewrite E in HND. assert (E2 : zq (ppz ps (negp a)) = zq (ppz ps (posp a))) by (rewrite <- HND; ring).
    apply zq_inj in E2. apply (ppz_unique ps Hp Hnd a). symmetry; exact E2.
  - exfalso. rewrite (zpowq_m1_odd n Ho) in H.
    assert (E : pp ps a = - (1)) by (transitivity (- (- (1) * pp ps a)); [ring | rewrite H; ring]).
    rewrite E in HND.
    assert (E2 : zq (- ppz ps (negp a)) = zq (ppz ps (posp a))) by (rewrite zq_opp, <- HND; ring).
    apply zq_inj in E2. lia.
Qed.

Definition facts_wf (ps : list Z) (facts : list (bool * list Z)) : Prop :=
  forall f, In f facts -> length (snd f) = length ps.

Lemma valrows_len ps facts : facts_wf ps facts -> Forall (fun b => length b = length ps) (valrows facts).
Proof.
  intros H. apply Forall_forall. intros b Hb. unfold valrows in Hb. apply in_map_iff in Hb.
  destruct Hb as [f [<- Hf]]. apply H; exact Hf.
Qed.

(* ---- the characterisation ---- *)
Theorem rational_relation_iff ps facts :
  Forall prime ps -> NoDup ps -> facts_wf ps facts ->
  forall e : list Z,
    qrelation (map (qfact ps) facts) e <->
    (lincomb (R := Z_cring) (length ps) e (valrows facts) = zeros (R := Z_cring) (length ps)
     /\ Z.Even (vdot (R := Z_cring) e (signs facts))).
Proof.
  intros Hp Hnd Hwf e. pose proof (prime_pos_all ps Hp) as Hpos.
  unfold qrelation, is_relation. rewrite (prodpow_facts ps (length ps) facts Hpos e). split.
  - intros H. apply psi_one in H; try assumption. destruct H as [He Hz]. split; [|exact He].
    apply (veq_eq Z_cring).
    + rewrite (length_lincomb Z_cring) by (apply valrows_len; exact Hwf).
      symmetry; apply (length_zeros Z_cring).
    + intros i. rewrite (nz_zeros Z_cring).
      destruct (Nat.lt_ge_cases i (length ps)) as [Hi|Hi]; [apply Hz; exact Hi|].
      apply (nz_beyond Z_cring). rewrite (length_lincomb Z_cring) by (apply valrows_len; exact Hwf). exact Hi.
  - intros [Hz He]. rewrite Hz. unfold psi. rewrite (zpowq_m1_even _ He).
    unfold pp. rewrite (prodpow_zeros Qc_cring). cbn [r1 car Qc_cring]. ring.
Qed.

(* ---- executable check of the factorisation data ---- *)
Definition check_factorisation (ps : list Z) (facts : list (bool * list Z)) (bs : list Qc) : bool :=
  forallb is_prime ps && nodupb ps &&
  forallb (fun f => Nat.eqb (length (snd f)) (length ps)) facts &&
  vec_eqb (R := Qc_cring) (map (qfact ps) facts) bs.

Lemma check_factorisation_sound ps facts bs : check_factorisation ps facts bs = true ->
  Forall prime ps /\ NoDup ps /\ facts_wf ps facts /\ bs = map (qfact ps) facts.
Proof.
  unfold check_factorisation. intros H.
  apply andb_true_iff in H; destruct H as [H Hb].
  apply andb_true_iff in H; destruct H as [H Hf].
  apply andb_true_iff in H; destruct H as [Hp Hn].
  repeat split.
  - apply Forall_forall. intros p Hin. rewrite forallb_forall in Hp. apply is_prime_sound. apply Hp; exact Hin.
  - apply nodupb_sound; exact Hn.
  - intros f Hin. rewrite forallb_forall in Hf. apply Nat.eqb_eq. apply Hf; exact Hin.
  - symmetry. apply (vec_eqb_eq Qc_cring); exact Hb.
Qed.

(* ---- the extended linear system: unknowns (y, e), parity column first ---- *)
Definition vals_ext (m : nat) (facts : list (bool * list Z)) : list (list Z) :=
  (2%Z :: zeros (R := Z_cring) m) :: map (fun f => tz (fst f) :: snd f) facts.

Lemma ext_kernel m facts e y :
  lincomb (R := Z_cring) m e (valrows facts) = zeros (R := Z_cring) m ->
  (2 * y + vdot (R := Z_cring) e (signs facts) = 0)%Z ->
  veq (R := Z_cring) (lincomb (R := Z_cring) (S m) (y :: e) (vals_ext m facts)) [].
Proof.
  intros Hz Hy i. rewrite (nz_lincomb Z_cring), (nz_nil Z_cring).
  unfold vals_ext. cbn [col map vdot]. fold (col (R := Z_cring) i (map (fun f => tz (fst f) :: snd f) facts)).
  destruct i as [|j].
  - rewrite (nz_cons_0 Z_cring).
    replace (col (R := Z_cring) 0 (map (fun f => tz (fst f) :: snd f) facts)) with (signs facts).
    + cbn [rmul radd r0 car Z_cring]. lia.
    + unfold col, signs. rewrite map_map. apply map_ext. intros f. reflexivity.
  - rewrite (nz_cons_S Z_cring), (nz_zeros Z_cring).
    replace (col (R := Z_cring) (S j) (map (fun f => tz (fst f) :: snd f) facts))
      with (col (R := Z_cring) j (valrows facts)).
    + rewrite <- (nz_lincomb Z_cring m), Hz, (nz_zeros Z_cring). cbn [rmul radd r0 car Z_cring]. lia.
    + unfold col, valrows. rewrite !map_map. apply map_ext. intros f. reflexivity.
Qed.

Lemma tl_vadd (u v : list Z) : tl (vadd (R := Z_cring) u v) = vadd (R := Z_cring) (tl u) (tl v).
Proof. destruct u as [|a u], v as [|b v]; cbn [vadd tl]; try reflexivity. destruct u; reflexivity. Qed.
Lemma tl_lincomb k c B : tl (lincomb (R := Z_cring) (S k) c B) = lincomb (R := Z_cring) k c (map (@tl Z) B).
Proof.
  revert B; induction c as [|a c IH]; intros [|b B]; cbn [lincomb map]; try reflexivity.
  rewrite tl_vadd, IH. f_equal. destruct b; reflexivity.
Qed.

Definition check_rational_generates (ps : list Z) (facts : list (bool * list Z)) (bs : list Qc)
           (B' V1 Wa Wc Rt : list (list Z)) (d : Z) : bool :=
  check_factorisation ps facts bs &&
  check_generates_Z (S (length bs)) (vals_ext (length ps) facts) B' V1 Wa Wc Rt d.

(* EVERY multiplicative relation among the rationals bs is an integer combination of the rows
   (parity coordinate dropped) of the certified basis *)
Theorem rational_basis_complete ps facts bs B' V1 Wa Wc Rt d :
  check_rational_generates ps facts bs B' V1 Wa Wc Rt d = true ->
  forall e : list Z, length e = length bs -> qrelation bs e ->
    exists c : list Z, length c = length B' /\ e = zlincomb (length bs) c (map (@tl Z) B').
Proof.
  unfold check_rational_generates. intros H e He Hrel.
  apply andb_true_iff in H; destruct H as [Hf Hg].
  apply check_factorisation_sound in Hf. destruct Hf as [Hp [Hnd [Hwf Hbs]]].
  rewrite Hbs in Hrel. apply (rational_relation_iff ps facts Hp Hnd Hwf e) in Hrel.
  destruct Hrel as [Hz [h Hh]].
  unfold check_generates_Z in Hg. apply andb_true_iff in Hg; destruct Hg as [Hd Hg].
  apply negb_true_iff in Hd. apply Z.eqb_neq in Hd.
  assert (L1 : length ((- h)%Z :: e) = S (length bs)) by (cbn [length]; rewrite He; reflexivity).
  assert (K1 : veq (R := Z_cring) (lincomb (R := Z_cring) (S (length ps)) ((- h)%Z :: e) (vals_ext (length ps) facts)) [])
    by (apply ext_kernel; [exact Hz | lia]).
  destruct (generates_cert_sound Z_cring (S (length bs)) (vals_ext (length ps) facts) B' V1 Wa Wc Rt d
                (Z_cancel d Hd) Hg ((- h)%Z :: e) (S (length ps)) L1 K1) as [Hlen Heq].
  exists (lincomb (R := Z_cring) (length B') ((- h)%Z :: e) Wc). split; [exact Hlen|].
  apply (f_equal (@tl Z)) in Heq. cbn [tl] in Heq. rewrite tl_lincomb in Heq. exact Heq.
Qed.

(* ---- the three validators together: the rows are a BASIS of the relation lattice ---- *)
Theorem rational_basis_correct ps facts bs B' Rb d2 V1 Wa Wc Rt d :
  check_relations (R := Qc_cring) (map qbase bs) (map (@tl Z) B') = true ->
  check_independent_Z (map (@tl Z) B') Rb d2 = true ->
  check_rational_generates ps facts bs B' V1 Wa Wc Rt d = true ->
  (forall row, In row (map (@tl Z) B') -> length row = length bs /\ qrelation bs row) /\
  (forall c : list Z, length c = length B' ->
     forall k, zlincomb k c (map (@tl Z) B') = zeros (R := Z_cring) k -> Forall (fun x => x = 0%Z) c) /\
  (forall e : list Z, length e = length bs ->
     (qrelation bs e <-> exists c : list Z, length c = length B' /\ e = zlincomb (length bs) c (map (@tl Z) B'))).
Proof.
  intros Hrel Hind Hgen.
  apply (check_relations_sound Qc_cring) in Hrel. destruct Hrel as [Hok Hrows].
  split; [|split].
  - intros row Hrow. destruct (Hrows row Hrow) as [HL HR]. rewrite map_length in HL. split; assumption.
  - intros c Hc k Hz. apply (check_independent_Z_sound _ _ _ Hind c) with (k := k); [rewrite map_length; exact Hc | exact Hz].
  - intros e He. split.
    + apply (rational_basis_complete ps facts bs B' V1 Wa Wc Rt d Hgen e He).
    + intros [c [_ ->]]. unfold qrelation, zlincomb.
      apply (relations_closed Qc_cring _ _ Hok). intros r Hr. apply (Hrows r Hr).
Qed.

(* any ring (quadratic towers): soundness, independence, and the whole Z-span consists of
   relations.  PARTIAL: that the span is ALL relations is not proved for non-rational bases. *)
Theorem general_basis_partial (R : cring) (bs : list (R * R)) (B Rb : list (list Z)) (d : Z) :
  check_relations bs B = true ->
  check_independent_Z B Rb d = true ->
  inverses_ok bs /\
  (forall row, In row B -> length row = length bs /\ is_relation bs row) /\
  (forall c : list Z, length c = length B ->
     forall k, zlincomb k c B = zeros (R := Z_cring) k -> Forall (fun x => x = 0%Z) c) /\
  (forall k c, is_relation bs (zlincomb k c B)).
Proof.
  intros Hrel Hind. apply (check_relations_sound R) in Hrel. destruct Hrel as [Hok Hrows].
  split; [exact Hok|]. split; [exact Hrows|]. split.
  - intros c Hc k Hz. apply (check_independent_Z_sound _ _ _ Hind c Hc k Hz).
  - intros k c. apply (relations_closed R _ _ Hok). intros r Hr. apply (Hrows r Hr).
Qed.
