(* C15 — the limit of the sampling-time count: E[count after n iterations] = geom (1 - q) n
   (BayesNetQuery.sampling_count_n) converges to 1 / q, the expected number of samples until
   the evidence is observed.  All real-number material (Reals, Coquelicot) is confined to this
   file; BayesNetQuery.v stays axiom-free. *)
From Coq Require Import QArith Qcanon Qreals Reals Lra.
From Coquelicot Require Import Coquelicot.
From Polar Require Import Qcx BayesNetQuery.

(* Qc -> R through the canonical representative *)
Definition QcR (x : Qc) : R := Q2R (this x).

Lemma QcR_plus x y : QcR (x + y) = (QcR x + QcR y)%R.
Proof.
  unfold QcR. rewrite <- Q2R_plus. apply Qeq_eqR. unfold Qcplus, Q2Qc. cbn [this]. apply Qred_correct.
Qed.

Lemma QcR_mult x y : QcR (x * y) = (QcR x * QcR y)%R.
Proof.
  unfold QcR. rewrite <- Q2R_mult. apply Qeq_eqR. unfold Qcmult, Q2Qc. cbn [this]. apply Qred_correct.
Qed.

Lemma QcR_opp x : QcR (- x) = (- QcR x)%R.
Proof.
  unfold QcR. rewrite <- Q2R_opp. apply Qeq_eqR. unfold Qcopp, Q2Qc. cbn [this]. apply Qred_correct.
Qed.

Lemma QcR_minus x y : QcR (x - y) = (QcR x - QcR y)%R.
Proof. unfold Qcminus. rewrite QcR_plus, QcR_opp. reflexivity. Qed.

Lemma QcR_0 : QcR 0 = 0%R.
Proof. unfold QcR. cbn [this Q2Qc]. unfold Q2R. cbn. lra. Qed.

Lemma QcR_1 : QcR 1 = 1%R.
Proof. unfold QcR. cbn [this Q2Qc]. unfold Q2R. cbn. lra. Qed.

Lemma QcR_lt x y : (x < y)%Qc -> (QcR x < QcR y)%R.
Proof. unfold Qclt, QcR. apply Qlt_Rlt. Qed.

Lemma QcR_le x y : (x <= y)%Qc -> (QcR x <= QcR y)%R.
Proof. unfold Qcle, QcR. apply Qle_Rle. Qed.

Lemma QcR_qpow r n : QcR (qpow r n) = (QcR r ^ n)%R.
Proof.
  induction n as [|n IH]; cbn [qpow pow].
  - apply QcR_1.
  - rewrite QcR_mult, IH. reflexivity.
Qed.

(* the closed form over R *)
Lemma geom_real (q : Qc) n :
  (0 < q)%Qc -> QcR (geom (1 - q) n) = ((1 - (1 - QcR q) ^ S n) / QcR q)%R.
Proof.
  intros Hq. apply QcR_lt in Hq. rewrite QcR_0 in Hq.
  assert (E : (QcR q * QcR (geom (1 - q) n) = 1 - (1 - QcR q) ^ S n)%R).
  { rewrite <- QcR_mult, sampling_closed_form, QcR_minus, QcR_qpow, QcR_minus, QcR_1. reflexivity. }
  rewrite <- E. field. lra.
Qed.

Theorem sampling_time_limit : forall q : Qc, (0 < q)%Qc -> (q <= 1)%Qc ->
  is_lim_seq (fun n => Q2R (geom (1 - q) n)) (/ Q2R q)%R.
Proof.
  intros q Hq0 Hq1. fold (QcR q).
  apply (is_lim_seq_ext (fun n => ((1 - (1 - QcR q) ^ S n) / QcR q)%R)).
  { intros n. symmetry. apply (geom_real q n Hq0). }
  pose proof (QcR_lt _ _ Hq0) as H0. rewrite QcR_0 in H0.
  pose proof (QcR_le _ _ Hq1) as H1. rewrite QcR_1 in H1.
  assert (Hpow : is_lim_seq (fun n => ((1 - QcR q) ^ S n)%R) 0%R).
  { apply (is_lim_seq_incr_1 (fun n => ((1 - QcR q) ^ n)%R)).
    apply is_lim_seq_geom. rewrite Rabs_pos_eq; lra. }
  replace (Finite (/ QcR q)%R) with (Rbar_mult (Rbar_minus 1%R 0%R) (Finite (/ QcR q)%R)).
  - unfold Rdiv. apply is_lim_seq_mult'.
    + apply is_lim_seq_minus'; [apply is_lim_seq_const | exact Hpow].
    + apply is_lim_seq_const.
  - cbn. f_equal. ring.
Qed.

(* combined with BayesNetQuery.sampling_count_n: the expected count of the generated loop
   body ++ qs_sample m c after n iterations converges to 1 / q *)
Theorem sampling_time_program_limit :
  forall (body : list BayesNet.gstmt) (m : nat) (c : BayesNet.gcond) (q : Qc),
    (forall s, BayesNetSem.mass (BayesNetSem.exec_body body s) (BayesNetSem.cond_true c) = q) ->
    (forall s, BayesNetSem.expect (BayesNetSem.exec_body body s) (fun _ => 1%Qc) = 1%Qc) ->
    (forall s ws, List.In ws (BayesNetSem.exec_body body s) ->
                  snd ws m = s m /\ snd ws (S m) = s (S m)) ->
    forall s0 : BayesNetSem.state, s0 m = 1%nat -> s0 (S m) = 1%nat ->
    (0 < q)%Qc -> (q <= 1)%Qc ->
    is_lim_seq (fun n => Q2R (BayesNetSem.expect
                                (BayesNetSem.iter_body (body ++ qs_sample m c) n (cons (1%Qc, s0) nil))
                                (fun s => qnat (s m))))
               (/ Q2R q)%R.
Proof.
  intros body m c q Hq Htot Hframe s0 Hm HSm Hq0 Hq1.
  apply (is_lim_seq_ext (fun n => Q2R (geom (1 - q) n))).
  - intros n. rewrite (sampling_count_n body m c q Hq Htot Hframe s0 Hm HSm n). reflexivity.
  - apply sampling_time_limit; assumption.
Qed.
