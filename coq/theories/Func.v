(* C13 — algebra behind FunctionalAssignment.get_trig_moment / get_exp_moment.
   Everything here is over an arbitrary commutative ring [R : cring] (so in particular over
   the complex numbers, over Q(i)[z, 1/z], ...): powers, the integer embedding, finite sums,
   the binomial theorem, the product-to-sum identity, finite integer-supported laws with their
   characteristic / moment generating functions as FORMAL exponential sums (lists of
   (coefficient, frequency)) with formal t-derivatives, the "Python runtime" used by the
   generated file gen/FuncGen.v (string-keyed dicts, the dispatch result type). *)
From Coq Require Import List ZArith Lia Arith Bool String Ring Ring_theory InitialRing.
From Polar Require Import CRing Stats.
Import ListNotations.

(* ------------------------------------------------------------------------------------ *)
(** * 1. Python runtime of the translated functions                                     *)
(* ------------------------------------------------------------------------------------ *)

(* func_powers : Dict[str, int] with non-negative powers *)
Definition fdict := list (string * nat).
Fixpoint fmem (k : string) (d : fdict) : bool :=
  match d with [] => false | (k', _) :: d' => if String.eqb k k' then true else fmem k d' end.
Fixpoint fget (k : string) (d : fdict) : nat :=
  match d with [] => O | (k', v) :: d' => if String.eqb k k' then v else fget k d' end.
(* func_powers[k] if k in func_powers else 0 *)
Definition fget_default (k : string) (d : fdict) : nat := if fmem k d then fget k d else O.

Lemma fget_default_eq k d : fget_default k d = fget k d.
Proof.
  unfold fget_default. induction d as [|[k' v] d IH]; [reflexivity|]. cbn [fmem fget].
  destruct (String.eqb k k'); [reflexivity | exact IH].
Qed.

(* what get_func_moment does with a request *)
Inductive dispatch : Type :=
| DRaise (msg : string)          (* raise FunctionalAssignmentException(msg) *)
| DTrig                          (* return cls.get_trig_moment(dist, func_powers) *)
| DExp.                          (* return cls.get_exp_moment(dist, func_powers) *)
Definition is_raise (d : dispatch) : bool := match d with DRaise _ => true | _ => false end.

(* ------------------------------------------------------------------------------------ *)
(** * 2. Commutative-ring algebra                                                       *)
(* ------------------------------------------------------------------------------------ *)
Section FuncRing.
  Variable R : cring.
  Add Ring Rr : (rth R).
  Local Open Scope cr_scope.

  Fixpoint rpow (x : R) (n : nat) : R := match n with O => r1 | S n => x * rpow x n end.
  Definition zr (z : Z) : R := gen_phiZ (@r0 R) r1 radd rmul ropp z.

  Let zmorph := gen_phiZ_morph (@Eqsth R) (Eq_ext _ _ _) (rth R).
  Lemma zr_add x y : zr (x + y) = zr x + zr y. Proof. exact (morph_add zmorph x y). Qed.
  Lemma zr_mul x y : zr (x * y) = zr x * zr y. Proof. exact (morph_mul zmorph x y). Qed.
  Lemma zr_opp x : zr (- x) = - zr x. Proof. exact (morph_opp zmorph x). Qed.
  Lemma zr_sub x y : zr (x - y) = zr x - zr y. Proof. exact (morph_sub zmorph x y). Qed.
  Lemma zr_0 : zr 0 = r0. Proof. exact (morph0 zmorph). Qed.
  Lemma zr_1 : zr 1 = r1. Proof. exact (morph1 zmorph). Qed.
  Lemma zr_m1 : zr (-1) = - r1. Proof. change (-1)%Z with (- (1))%Z. rewrite zr_opp, zr_1. reflexivity. Qed.

  Lemma rpow_S x n : rpow x (S n) = x * rpow x n. Proof. reflexivity. Qed.
  Lemma rpow_add x n m : rpow x (n + m) = rpow x n * rpow x m.
  Proof. induction n as [|n IH]; cbn [rpow Nat.add]; [ring | rewrite IH; ring]. Qed.
  Lemma rpow_mul_base x y n : rpow (x * y) n = rpow x n * rpow y n.
  Proof. induction n as [|n IH]; cbn [rpow]; [ring | rewrite IH; ring]. Qed.
  Lemma rpow_1 n : rpow r1 n = r1.
  Proof. induction n as [|n IH]; cbn [rpow]; [reflexivity | rewrite IH; ring]. Qed.
  Lemma rpow_opp x n : rpow (- x) n = rpow (- r1) n * rpow x n.
  Proof. rewrite <- rpow_mul_base. f_equal. ring. Qed.
  Lemma zr_pow a n : zr (a ^ Z.of_nat n) = rpow (zr a) n.
  Proof.
    induction n as [|n IH]; [exact zr_1|].
    rewrite Nat2Z.inj_succ, Z.pow_succ_r by lia. rewrite zr_mul, IH. reflexivity.
  Qed.

  (* finite sums *)
  Definition rsum {A} (l : list A) (f : A -> R) : R := fold_right (fun a acc => f a + acc) r0 l.
  Lemma rsum_nil {A} (f : A -> R) : rsum [] f = r0. Proof. reflexivity. Qed.
  Lemma rsum_cons {A} x (l : list A) f : rsum (x :: l) f = f x + rsum l f. Proof. reflexivity. Qed.
  Lemma rsum_app {A} (l1 l2 : list A) f : rsum (l1 ++ l2) f = rsum l1 f + rsum l2 f.
  Proof. induction l1 as [|x l1 IH]; cbn [app]; rewrite ?rsum_cons, ?rsum_nil; [ring | rewrite IH; ring]. Qed.
  Lemma rsum_ext {A} (l : list A) f g : (forall x, In x l -> f x = g x) -> rsum l f = rsum l g.
  Proof.
    induction l as [|x l IH]; intros H; [reflexivity|]. rewrite !rsum_cons.
    rewrite H by (left; reflexivity). rewrite IH; [reflexivity|]. intros y Hy. apply H. right. exact Hy.
  Qed.
  Lemma rsum_add {A} (l : list A) f g : rsum l (fun x => f x + g x) = rsum l f + rsum l g.
  Proof. induction l as [|x l IH]; rewrite ?rsum_nil, ?rsum_cons; [ring | rewrite IH; ring]. Qed.
  Lemma rsum_scal {A} (l : list A) c f : rsum l (fun x => c * f x) = c * rsum l f.
  Proof. induction l as [|x l IH]; rewrite ?rsum_nil, ?rsum_cons; [ring | rewrite IH; ring]. Qed.
  Lemma rsum_scal_r {A} (l : list A) c f : rsum l (fun x => f x * c) = rsum l f * c.
  Proof. induction l as [|x l IH]; rewrite ?rsum_nil, ?rsum_cons; [ring | rewrite IH; ring]. Qed.
  Lemma rsum_zero {A} (l : list A) : rsum l (fun _ => r0) = r0.
  Proof. induction l as [|x l IH]; rewrite ?rsum_nil, ?rsum_cons; [ring | rewrite IH; ring]. Qed.
  Lemma rsum_map {A B} (h : A -> B) (l : list A) f : rsum (map h l) f = rsum l (fun x => f (h x)).
  Proof. induction l as [|x l IH]; cbn [map]; rewrite ?rsum_nil, ?rsum_cons; [reflexivity | rewrite IH; reflexivity]. Qed.
  Lemma rsum_swap {A B} (l1 : list A) (l2 : list B) (f : A -> B -> R) :
    rsum l1 (fun x => rsum l2 (fun y => f x y)) = rsum l2 (fun y => rsum l1 (fun x => f x y)).
  Proof.
    induction l1 as [|x l1 IH].
    - rewrite rsum_nil. symmetry. apply rsum_zero.
    - rewrite rsum_cons, IH. rewrite <- rsum_add. apply rsum_ext. intros y _. rewrite rsum_cons. reflexivity.
  Qed.
  Lemma rsum_mul {A B} (l1 : list A) (l2 : list B) f g :
    rsum l1 f * rsum l2 g = rsum l1 (fun x => rsum l2 (fun y => f x * g y)).
  Proof.
    rewrite <- rsum_scal_r. apply rsum_ext. intros x _. rewrite <- rsum_scal. reflexivity.
  Qed.
  (* accumulation loops  result = result + f x *)
  Lemma fold_left_radd {A} (l : list A) (f : A -> R) init :
    fold_left (fun acc x => acc + f x) l init = init + rsum l f.
  Proof.
    revert init. induction l as [|x l IH]; intros init; cbn [fold_left]; rewrite ?rsum_nil, ?rsum_cons;
      [ring | rewrite IH; ring].
  Qed.
  Lemma rsum_seq_first m (f : nat -> R) :
    rsum (seq 0 (S m)) f = f O + rsum (seq 0 m) (fun j => f (S j)).
  Proof. cbn [seq]. rewrite rsum_cons. rewrite <- seq_shift, rsum_map. reflexivity. Qed.
  Lemma rsum_seq_last m (f : nat -> R) : rsum (seq 0 (S m)) f = rsum (seq 0 m) f + f m.
  Proof. rewrite seq_S, rsum_app, rsum_cons, rsum_nil. cbn [Nat.add]. ring. Qed.

  (* binomial theorem in any commutative ring *)
  Definition br (n k : nat) : R := zr (binom n k).
  Lemma br_S n k : br (S n) (S k) = br n k + br n (S k).
  Proof. unfold br. rewrite binom_S, zr_add. reflexivity. Qed.
  Lemma br_0_r n : br n 0 = r1. Proof. unfold br. rewrite binom_0_r. exact zr_1. Qed.
  Lemma br_gt n k : (n < k)%nat -> br n k = r0.
  Proof. intros H. unfold br. rewrite binom_gt by exact H. exact zr_0. Qed.

  Theorem binomial_theorem_ring x y n :
    rpow (x + y) n = rsum (seq 0 (S n)) (fun j => br n j * rpow x j * rpow y (n - j)).
  Proof.
    induction n as [|n IH].
    - cbn [seq]. rewrite rsum_cons, rsum_nil, br_0_r. cbn [rpow Nat.sub]. ring.
    - rewrite rpow_S, IH. rewrite (rsum_seq_first (S n)).
      rewrite br_0_r, Nat.sub_0_r.
      assert (HS : rsum (seq 0 (S n)) (fun j => br (S n) (S j) * rpow x (S j) * rpow y (S n - S j))
                   = x * rsum (seq 0 (S n)) (fun j => br n j * rpow x j * rpow y (n - j))
                     + rsum (seq 0 (S n)) (fun j => br n (S j) * rpow x (S j) * rpow y (n - j))).
      { rewrite <- rsum_scal, <- rsum_add. apply rsum_ext. intros j _.
        rewrite br_S. cbn [rpow Nat.sub]. ring. }
      rewrite HS. clear HS.
      rewrite (rsum_seq_last n (fun j => br n (S j) * rpow x (S j) * rpow y (n - j))).
      rewrite (br_gt n (S n)) by lia.
      rewrite (rsum_seq_first n (fun j => br n j * rpow x j * rpow y (n - j))).
      rewrite br_0_r, Nat.sub_0_r.
      assert (HY : rsum (seq 0 n) (fun j => br n (S j) * rpow x (S j) * rpow y (n - j))
                   = y * rsum (seq 0 n) (fun j => br n (S j) * rpow x (S j) * rpow y (n - S j))).
      { rewrite <- rsum_scal. apply rsum_ext. intros j Hj. apply in_seq in Hj.
        replace (n - j)%nat with (S (n - S j)) by lia. cbn [rpow]. ring. }
      rewrite HY. cbn [rpow]. ring.
  Qed.

  Corollary binomial_theorem_minus x y n :
    rpow (x - y) n
    = rsum (seq 0 (S n)) (fun j => br n j * rpow (- r1) (n - j) * rpow x j * rpow y (n - j)).
  Proof.
    replace (x - y) with (x + - y) by ring. rewrite binomial_theorem_ring.
    apply rsum_ext. intros j _. rewrite (rpow_opp y). ring.
  Qed.

  (* the product-to-sum identity, as a pure ring identity (no hypothesis on z, zb):
     (z - zb)^b (z + zb)^c = sum_{k1<=c} sum_{k2<=b} C(c,k1) C(b,k2) (-1)^(b-k2) z^(k1+k2) zb^((b+c)-(k1+k2)) *)
  Theorem prod_to_sum_ring (z zb : R) (b c : nat) :
    rpow (z - zb) b * rpow (z + zb) c
    = rsum (seq 0 (S c)) (fun k1 => rsum (seq 0 (S b)) (fun k2 =>
        br c k1 * br b k2 * rpow (- r1) (b - k2) * (rpow z (k1 + k2) * rpow zb ((b + c) - (k1 + k2))))).
  Proof.
    rewrite binomial_theorem_minus, binomial_theorem_ring.
    rewrite rsum_mul. rewrite rsum_swap. apply rsum_ext. intros k1 H1. apply rsum_ext. intros k2 H2.
    apply in_seq in H1. apply in_seq in H2.
    replace ((b + c) - (k1 + k2))%nat with ((b - k2) + (c - k1))%nat by lia.
    rewrite !rpow_add. ring.
  Qed.

  (* -------------------------------------------------------------------------------- *)
  (** ** Exponentials of integer multiples: a homomorphism e from (Z,+) to (R,x) *)
  (* e m stands for exp(i m) (trigonometric case) or exp(m) (exponential case).        *)
  Section Hom.
    Variable e : Z -> R.
    Hypothesis e_0 : e 0%Z = r1.
    Hypothesis e_add : forall m n, e (m + n)%Z = e m * e n.

    Lemma e_inv m : e m * e (- m)%Z = r1.
    Proof. rewrite <- e_add. replace (m + - m)%Z with 0%Z by lia. exact e_0. Qed.
    Lemma e_natmul k v : e (Z.of_nat k * v)%Z = rpow (e v) k.
    Proof.
      induction k as [|k IH]; [exact e_0|].
      replace (Z.of_nat (S k) * v)%Z with (v + Z.of_nat k * v)%Z by lia.
      rewrite e_add, IH. reflexivity.
    Qed.
    (* e((k - l) v) = e(v)^k e(-v)^l *)
    Lemma e_diff k l v : e ((Z.of_nat k - Z.of_nat l) * v)%Z = rpow (e v) k * rpow (e (- v)%Z) l.
    Proof.
      replace ((Z.of_nat k - Z.of_nat l) * v)%Z with (Z.of_nat k * v + Z.of_nat l * (- v))%Z by lia.
      rewrite e_add, !e_natmul. reflexivity.
    Qed.
    Lemma e_pow_mul c v : e (Z.of_nat c * v)%Z = rpow (e v) c.
    Proof. exact (e_natmul c v). Qed.
  End Hom.

  (* -------------------------------------------------------------------------------- *)
  (** ** Formal exponential sums  t |-> sum_j c_j E^(u t v_j)  and their t-derivatives  *)
  (* u is the unit in the exponent: the imaginary unit for a characteristic function,
     1 for a moment generating function.  d/dt (c E^(u t v)) = (c u v) E^(u t v).       *)
  Definition esum := list (R * Z).
  Definition ederiv (u : R) (s : esum) : esum := map (fun cv => (fst cv * (u * zr (snd cv)), snd cv)) s.
  Fixpoint ederivn (u : R) (a : nat) (s : esum) : esum :=
    match a with O => s | S a' => ederiv u (ederivn u a' s) end.
  (* value at the integer point t = m, e m standing for E^(u m) *)
  Definition eeval (e : Z -> R) (s : esum) (m : Z) : R := rsum s (fun cv => fst cv * e (m * snd cv)%Z).

  (* ederivn in closed form: coefficient c becomes c (u v)^a *)
  Lemma ederivn_map u a s :
    ederivn u a s = map (fun cv => (fst cv * rpow (u * zr (snd cv)) a, snd cv)) s.
  Proof.
    induction a as [|a IH]; cbn [ederivn].
    - rewrite <- (map_id s) at 1. apply map_ext. intros [c v]. cbn [fst snd rpow]. f_equal. ring.
    - rewrite IH. unfold ederiv. rewrite map_map. apply map_ext. intros [c v]. cbn [fst snd rpow].
      f_equal. ring.
  Qed.
  Lemma eeval_ederivn e u a s m :
    eeval e (ederivn u a s) m = rsum s (fun cv => fst cv * rpow (u * zr (snd cv)) a * e (m * snd cv)%Z).
  Proof. rewrite ederivn_map. unfold eeval. rewrite rsum_map. reflexivity. Qed.

  (* -------------------------------------------------------------------------------- *)
  (** ** Finite integer-supported laws                                                 *)
  (* a law is a list of (probability, integer value); as a formal exponential sum it IS its
     characteristic function  t |-> sum_j p_j E^(i t v_j)  (and its mgf with u = 1).     *)
  Definition zlaw := list (R * Z).
  (* the defining expectation  E[g(X)] = sum_j p_j g(v_j) *)
  Definition Ez (L : zlaw) (g : Z -> R) : R := rsum L (fun pv => fst pv * g (snd pv)).
  (* dist.cf(m) / dist.mgf(m) and diff(dist.cf(t), t, a).xreplace({t: m}) *)
  Definition tf_of (e : Z -> R) (L : zlaw) (m : Z) : R := eeval e L m.
  Definition dtf_of (e : Z -> R) (u : R) (L : zlaw) (a : nat) (m : Z) : R := eeval e (ederivn u a L) m.

  Lemma dtf_of_0 e u L m : dtf_of e u L 0 m = tf_of e L m. Proof. reflexivity. Qed.
  Lemma dtf_of_eq e u L a m :
    dtf_of e u L a m = Ez L (fun v => rpow (u * zr v) a * e (m * v)%Z).
  Proof. unfold dtf_of, Ez. rewrite eeval_ederivn. apply rsum_ext. intros pv _. ring. Qed.

End FuncRing.

Arguments rpow {R} _ _.
Arguments zr {R} _.
Arguments rsum {R A} _ _.
Arguments br {R} _ _.
Arguments Ez {R} _ _.
Arguments tf_of {R} _ _ _.
Arguments dtf_of {R} _ _ _ _ _.
Arguments eeval {R} _ _ _.
Arguments ederivn {R} _ _ _.
Arguments ederiv {R} _ _.
