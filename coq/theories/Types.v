(* C05: verified validator for finite types of flat programs.
   [check_types fp T = true] says T is a post-fixpoint of the cartesian value-set transfer
   function in which the value of the default variable is always included (unless the
   condition is literally true).  [check_types_sound]: then every state reachable in any
   iteration, at every program point, is typed — including iterations in which the folded
   loop guard is false. *)
From Coq Require Import List String QArith Qcanon ZArith Bool.
From Polar Require Import Qcx Dist Syntax Sem.
Import ListNotations.
Local Open Scope Qc_scope.

Definition tenv := list (var * list Qc).

Fixpoint tlookup (T : tenv) (x : var) : option (list Qc) :=
  match T with
  | [] => None
  | (y, vs) :: T' => if var_eqb x y then Some vs else tlookup T' x
  end.

Definition typed (T : tenv) (s : state) : Prop :=
  forall x vs, tlookup T x = Some vs -> In (s x) vs.

Fixpoint mem (q : Qc) (vs : list Qc) : bool :=
  match vs with [] => false | v :: vs' => Qc_eqb q v || mem q vs' end.
Lemma mem_In q vs : mem q vs = true -> In q vs.
Proof.
  induction vs as [|v vs IH]; simpl; intros H; [discriminate|].
  apply orb_true_iff in H; destruct H as [H|H]; [left; symmetry; apply Qc_eqb_true; exact H | right; auto].
Qed.
Definition subset (a b : list Qc) : bool := forallb (fun q => mem q b) a.
Lemma subset_In a b : subset a b = true -> forall q, In q a -> In q b.
Proof.
  unfold subset; intros H q Hq. rewrite forallb_forall in H. apply mem_In, H, Hq.
Qed.

(* possible values of an expression: every typed valuation of its variables (each variable
   gets ONE value for all its occurrences, as Polar's typer substitutes); [R] says which
   variables may be read *)
Fixpoint vars_of (e : expr) : list var :=
  match e with
  | EConst _ => []
  | EVar x => [x]
  | EAdd a b | EMul a b => vars_of a ++ vars_of b
  | EPow a _ => vars_of a
  end.

Fixpoint alookup (env : list (var * Qc)) (x : var) : Qc :=
  match env with [] => 0 | (y, v) :: env' => if var_eqb x y then v else alookup env' x end.
Definition env_state (env : list (var * Qc)) : state := alookup env.

Fixpoint valuations (R : var -> bool) (T : tenv) (xs : list var) : option (list (list (var * Qc))) :=
  match xs with
  | [] => Some [[]]
  | x :: xs' =>
      if R x then
        match tlookup T x, valuations R T xs' with
        | Some vs, Some envs => Some (flat_map (fun v => map (fun env => (x, v) :: env) envs) vs)
        | _, _ => None
        end
      else None
  end.

Definition eval_set (R : var -> bool) (T : tenv) (e : expr) : option (list Qc) :=
  match valuations R T (nodup string_dec (vars_of e)) with
  | Some envs => Some (map (fun env => eval e (env_state env)) envs)
  | None => None
  end.

Definition typed_on (R : var -> bool) (T : tenv) (s : state) : Prop :=
  forall x vs, R x = true -> tlookup T x = Some vs -> In (s x) vs.

Lemma eval_ext e s s' : (forall x, In x (vars_of e) -> s x = s' x) -> eval e s = eval e s'.
Proof.
  induction e as [q|x|a IHa b IHb|a IHa b IHb|a IHa k]; simpl; intros H.
  - reflexivity.
  - apply H; left; reflexivity.
  - rewrite IHa, IHb; [reflexivity| |]; intros x Hx; apply H; apply in_or_app; auto.
  - rewrite IHa, IHb; [reflexivity| |]; intros x Hx; apply H; apply in_or_app; auto.
  - rewrite IHa; [reflexivity|]. exact H.
Qed.

Lemma valuations_complete R T s xs envs :
  typed_on R T s -> valuations R T xs = Some envs -> In (map (fun x => (x, s x)) xs) envs.
Proof.
  intros HT; revert envs; induction xs as [|x xs IH]; simpl; intros envs H.
  - inversion H; left; reflexivity.
  - destruct (R x) eqn:ER; [|discriminate].
    destruct (tlookup T x) as [vs|] eqn:Ex; [|discriminate].
    destruct (valuations R T xs) as [envs'|]; [|discriminate].
    inversion H; subst. apply in_flat_map. exists (s x); split; [apply (HT x vs ER Ex)|].
    apply (in_map (fun env => (x, s x) :: env)). apply IH; reflexivity.
Qed.

Lemma alookup_map s xs y : In y xs -> alookup (map (fun x => (x, s x)) xs) y = s y.
Proof.
  induction xs as [|x xs IH]; simpl; intros H; [destruct H|].
  destruct (var_eqb y x) eqn:E.
  - apply String.eqb_eq in E; subst; reflexivity.
  - destruct H as [H|H]; [subst; rewrite String.eqb_refl in E; discriminate | apply IH; exact H].
Qed.

Lemma eval_set_sound R T s e vs :
  typed_on R T s -> eval_set R T e = Some vs -> In (eval e s) vs.
Proof.
  unfold eval_set; intros HT H.
  destruct (valuations R T (nodup string_dec (vars_of e))) as [envs|] eqn:Ev; [|discriminate].
  inversion H; subst.
  pose proof (valuations_complete R T s _ _ HT Ev) as Hin.
  apply (in_map (fun env => eval e (env_state env))) in Hin.
  rewrite (eval_ext e s (env_state (map (fun x => (x, s x)) (nodup string_dec (vars_of e))))); [exact Hin|].
  intros x Hx. unfold env_state. symmetry. apply alookup_map. apply nodup_In. exact Hx.
Qed.

Fixpoint cat_vals (n : nat) (i : nat) : list Qc :=
  match n with O => [] | S n' => qnat i :: cat_vals n' (S i) end.
Fixpoint unif_vals (a : Z) (n : nat) : list Qc :=
  match n with O => [] | S n' => mkq a 1 :: unif_vals (a + 1)%Z n' end.

(* all values a right-hand side can produce, whatever the probabilities *)
Fixpoint choice_set (R : var -> bool) (T : tenv) (alts : list (expr * expr)) : option (list Qc) :=
  match alts with
  | [] => Some []
  | (_, e) :: alts' =>
      match eval_set R T e, choice_set R T alts' with
      | Some v, Some vs => Some (v ++ vs) | _, _ => None end
  end.

Definition rhs_set (R : var -> bool) (T : tenv) (r : rhs) : option (list Qc) :=
  match r with
  | RChoice alts => choice_set R T alts
  | RDraw (DBern _) => Some [1; 0]
  | RDraw (DCat ps) => Some (cat_vals (List.length ps) 0)
  | RDraw (DUnif a b) => Some (unif_vals a (Z.to_nat (b - a + 1)))
  | RDraw (DCont _ _) => None
  end.

Section Sound.
  Variable law : string -> list Qc -> dist Qc.

  Lemma cat_law_vals ps i w v : In (w, v) (cat_law ps i) -> In v (cat_vals (List.length ps) i).
  Proof.
    revert i; induction ps as [|p ps IH]; simpl; intros i H; [destruct H|].
    destruct H as [H|H]; [inversion H; left; reflexivity | right; apply IH; exact H].
  Qed.
  Lemma unif_law_vals c a n w v : In (w, v) (unif_law c a n) -> In v (unif_vals a n).
  Proof.
    revert a; induction n as [|n IH]; simpl; intros a H; [destruct H|].
    destruct H as [H|H]; [inversion H; left; reflexivity | right; apply IH; exact H].
  Qed.

  Lemma rhs_set_sound R T s r vs :
    typed_on R T s -> rhs_set R T r = Some vs -> forall v, supp (sample law r s) v -> In v vs.
  Proof.
    intros HT H v [w Hin]. destruct r as [alts|d]; simpl in *.
    - revert vs H Hin. induction alts as [|[p e] alts IH]; simpl; intros vs H Hin; [destruct Hin|].
      destruct (eval_set R T e) as [ve|] eqn:Ee; [|discriminate].
      destruct (choice_set R T alts) as [vr|] eqn:Er; [|discriminate].
      inversion H; subst. apply in_or_app. destruct Hin as [Hin|Hin].
      + left. inversion Hin; subst. eapply eval_set_sound; eauto.
      + right. apply (IH vr eq_refl Hin).
    - destruct d as [p|ps|a b|f args]; simpl in *; try discriminate.
      + inversion H; subst. destruct Hin as [Hin|[Hin|[]]]; inversion Hin; subst; simpl; auto.
      + inversion H; subst. rewrite <- (map_length (fun e => eval e s) ps). eapply cat_law_vals; eauto.
      + inversion H; subst. eapply unif_law_vals; eauto.
  Qed.

  Definition all_vars : var -> bool := fun _ => true.

  (* one guarded assignment keeps the type environment *)
  Definition check_ga (T : tenv) (g : gassign) : bool :=
    match tlookup T (ga_var g) with
    | None => true
    | Some vs =>
        match rhs_set all_vars T (ga_rhs g) with
        | None => false
        | Some rs =>
            subset rs vs &&
            match ga_cond g with
            | CTrue => true
            | _ => match tlookup T (ga_default g) with Some ds => subset ds vs | None => false end
            end
        end
    end.

  Lemma typed_all T s : typed T s <-> typed_on all_vars T s.
  Proof. unfold typed, typed_on, all_vars; split; intros H x vs; auto. Qed.

  Lemma typed_upd T s x v :
    typed T s -> (forall vs, tlookup T x = Some vs -> In v vs) -> typed T (upd s x v).
  Proof.
    intros HT Hv y vs Hy. unfold upd. destruct (var_eqb y x) eqn:E.
    - apply String.eqb_eq in E; subst. auto.
    - auto.
  Qed.

  Lemma check_ga_sound T g s :
    check_ga T g = true -> typed T s -> forall s', supp (exec_ga law g s) s' -> typed T s'.
  Proof.
    unfold check_ga, exec_ga. intros H HT s' Hs'.
    destruct (tlookup T (ga_var g)) as [vs|] eqn:Ex.
    - destruct (rhs_set all_vars T (ga_rhs g)) as [rs|] eqn:Er; [|discriminate].
      apply andb_true_iff in H; destruct H as [Hsub Hdef].
      destruct (holds (ga_cond g) s) eqn:Eh.
      + apply supp_bind in Hs'. destruct Hs' as [v [Hv Hs']]. apply supp_ret in Hs'; subst.
        apply typed_upd; [exact HT|]. intros vs' Hvs'. rewrite Ex in Hvs'; inversion Hvs'; subst.
        apply (subset_In _ _ Hsub). eapply rhs_set_sound; eauto. apply typed_all; exact HT.
      + apply supp_ret in Hs'; subst. apply typed_upd; [exact HT|].
        intros vs' Hvs'. rewrite Ex in Hvs'; inversion Hvs'; subst.
        destruct (ga_cond g); try (simpl in Eh; discriminate);
          (destruct (tlookup T (ga_default g)) as [ds|] eqn:Ed; [|discriminate];
           apply (subset_In _ _ Hdef); apply HT; exact Ed).
    - destruct (holds (ga_cond g) s).
      + apply supp_bind in Hs'. destruct Hs' as [v [Hv Hs']]. apply supp_ret in Hs'; subst.
        apply typed_upd; [exact HT|]. intros vs' Hvs'. rewrite Ex in Hvs'; discriminate.
      + apply supp_ret in Hs'; subst. apply typed_upd; [exact HT|].
        intros vs' Hvs'. rewrite Ex in Hvs'; discriminate.
  Qed.

  Lemma check_gas_sound T l s :
    forallb (check_ga T) l = true -> typed T s ->
    forall s', supp (exec_gas law l s) s' -> typed T s'.
  Proof.
    revert s; induction l as [|g l IH]; simpl; intros s H HT s' Hs'.
    - apply supp_ret in Hs'; subst; exact HT.
    - apply andb_true_iff in H; destruct H as [Hg Hl].
      apply supp_bind in Hs'. destruct Hs' as [s1 [H1 H2]].
      apply (IH s1 Hl); [|exact H2]. eapply check_ga_sound; eauto.
  Qed.

  (* ---- initial block: assignments are unconditional; value sets are tracked flow-
     sensitively in a local environment L (the typer also evaluates the initial block in
     order), declared types of variables not initialised there are taken as given ---- *)
  Definition mem_var (x : var) (l : list var) : bool := existsb (var_eqb x) l.
  Definition declared (initvars : list var) (T : tenv) : tenv :=
    filter (fun xt => negb (mem_var (fst xt) initvars)) T.
  Definition remove_var (x : var) (L : tenv) : tenv := filter (fun yt => negb (var_eqb (fst yt) x)) L.

  Fixpoint init_env (D : tenv) (L : tenv) (l : list gassign) : option tenv :=
    match l with
    | [] => Some L
    | g :: l' =>
        match ga_cond g with
        | CTrue =>
            match rhs_set all_vars (L ++ D) (ga_rhs g) with
            | Some rs => init_env D ((ga_var g, rs) :: L) l'
            | None => init_env D (remove_var (ga_var g) L) l'
            end
        | _ => None
        end
    end.

  Definition check_init (T : tenv) (l : list gassign) : bool :=
    let initvars := map ga_var l in
    match init_env (declared initvars T) [] l with
    | Some L =>
        forallb (fun xt => if mem_var (fst xt) initvars
                           then match tlookup L (fst xt) with Some rs => subset rs (snd xt) | None => false end
                           else true) T
    | None => false
    end.

  Lemma tlookup_app L D x :
    tlookup (L ++ D) x = match tlookup L x with Some v => Some v | None => tlookup D x end.
  Proof.
    induction L as [|[y vs] L IH]; simpl; [reflexivity|]. destruct (var_eqb x y); [reflexivity | exact IH].
  Qed.
  Lemma tlookup_remove_same x L : tlookup (remove_var x L) x = None.
  Proof.
    induction L as [|[y vs] L IH]; simpl; [reflexivity|].
    destruct (var_eqb y x) eqn:E; simpl; [exact IH|].
    destruct (var_eqb x y) eqn:E2; [|exact IH].
    apply String.eqb_eq in E2; subst. unfold var_eqb in E. rewrite String.eqb_refl in E. discriminate.
  Qed.
  Lemma tlookup_remove_other x y L : var_eqb y x = false -> tlookup (remove_var x L) y = tlookup L y.
  Proof.
    intros Hyx; induction L as [|[z vs] L IH]; simpl; [reflexivity|].
    destruct (var_eqb z x) eqn:E; simpl.
    - apply String.eqb_eq in E; subst. rewrite Hyx. exact IH.
    - destruct (var_eqb y z); [reflexivity | exact IH].
  Qed.
  Lemma tlookup_declared_init initvars T x :
    mem_var x initvars = true -> tlookup (declared initvars T) x = None.
  Proof.
    intros Hx; induction T as [|[y vs] T IH]; simpl; [reflexivity|].
    destruct (mem_var y initvars) eqn:Ey; simpl; [exact IH|].
    destruct (var_eqb x y) eqn:E; [|exact IH].
    apply String.eqb_eq in E; subst. congruence.
  Qed.
  Lemma tlookup_declared_other initvars T x :
    mem_var x initvars = false -> tlookup (declared initvars T) x = tlookup T x.
  Proof.
    intros Hx; induction T as [|[y vs] T IH]; simpl; [reflexivity|].
    destruct (mem_var y initvars) eqn:Ey; simpl.
    - destruct (var_eqb x y) eqn:E; [|exact IH]. apply String.eqb_eq in E; subst. congruence.
    - destruct (var_eqb x y); [reflexivity | exact IH].
  Qed.

  Lemma mem_var_In x l : In x l -> mem_var x l = true.
  Proof.
    unfold mem_var; intros H. apply existsb_exists. exists x; split; [exact H | apply String.eqb_refl].
  Qed.

  Lemma init_env_sound D initvars l : (forall g, In g l -> mem_var (ga_var g) initvars = true) ->
    (forall x, mem_var x initvars = true -> tlookup D x = None) ->
    forall L L' s, init_env D L l = Some L' -> typed (L ++ D) s ->
    forall s', supp (exec_gas law l s) s' -> typed (L' ++ D) s'.
  Proof.
    intros Hin HD. induction l as [|g l IH]; simpl; intros L L' s H HT s' Hs'.
    - injection H as <-. apply supp_ret in Hs'; subst; exact HT.
    - apply supp_bind in Hs'. destruct Hs' as [s1 [H1 H2]].
      assert (Hl : forall g0, In g0 l -> mem_var (ga_var g0) initvars = true) by (intros; apply Hin; right; assumption).
      unfold exec_ga in H1. destruct (ga_cond g); try discriminate. simpl in H1.
      apply supp_bind in H1. destruct H1 as [v [Hv Hs1]]. apply supp_ret in Hs1; subst s1.
      destruct (rhs_set all_vars (L ++ D) (ga_rhs g)) as [rs|] eqn:Er.
      + apply (IH Hl _ _ (upd s (ga_var g) v) H); [|exact H2].
        intros y vs Hy. simpl in Hy. unfold upd. destruct (var_eqb y (ga_var g)) eqn:E.
        * injection Hy as <-. eapply rhs_set_sound; eauto. apply typed_all; exact HT.
        * apply HT; exact Hy.
      + apply (IH Hl _ _ (upd s (ga_var g) v) H); [|exact H2].
        intros y vs Hy. rewrite tlookup_app in Hy. unfold upd. destruct (var_eqb y (ga_var g)) eqn:E.
        * apply String.eqb_eq in E; subst y. rewrite tlookup_remove_same in Hy.
          rewrite HD in Hy; [discriminate | apply Hin; left; reflexivity].
        * rewrite (tlookup_remove_other _ _ _ E) in Hy. apply HT. rewrite tlookup_app. exact Hy.
  Qed.

  Definition check_types (fp : flatprog) (T : tenv) : bool :=
    check_init T (fp_init fp) && forallb (check_ga T) (fp_body fp).

  (* what is assumed of the state before the initial block: variables that are typed but
     not initialised there (declared types) hold a value of their type *)
  Definition init_ok (fp : flatprog) (T : tenv) (s0 : state) : Prop :=
    typed (declared (map ga_var (fp_init fp)) T) s0.

  Lemma after_init_typed fp T s0 s :
    check_types fp T = true -> init_ok fp T s0 ->
    supp (exec_gas law (fp_init fp) s0) s -> typed T s.
  Proof.
    unfold check_types, init_ok, check_init. intros H H0 Hs.
    apply andb_true_iff in H; destruct H as [Hi _].
    set (iv := map ga_var (fp_init fp)) in *.
    destruct (init_env (declared iv T) [] (fp_init fp)) as [L|] eqn:EL; [|discriminate].
    assert (HT : typed (L ++ declared iv T) s).
    { eapply (init_env_sound (declared iv T) iv (fp_init fp)); eauto.
      - intros g Hg. apply mem_var_In. unfold iv. apply in_map; exact Hg.
      - intros x Hx. apply tlookup_declared_init; exact Hx. }
    intros x vs Hx. rewrite forallb_forall in Hi.
    assert (Hin : In (x, vs) T).
    { clear - Hx. induction T as [|[y ws] T IH]; simpl in Hx; [discriminate|].
      destruct (var_eqb x y) eqn:E; [apply String.eqb_eq in E; subst; injection Hx as <-; left; reflexivity | right; auto]. }
    specialize (Hi (x, vs) Hin). cbn [fst snd] in Hi.
    destruct (mem_var x iv) eqn:Em.
    - destruct (tlookup L x) as [rs|] eqn:ELx; [|discriminate].
      apply (subset_In _ _ Hi). apply HT. rewrite tlookup_app, ELx. reflexivity.
    - apply HT. rewrite tlookup_app.
      destruct (tlookup L x) as [rs|] eqn:ELx.
      + (* L only mentions initialised variables *)
        exfalso. clear - EL ELx Em.
        assert (G : forall l L0 L1, init_env (declared iv T) L0 l = Some L1 ->
                     (forall g, In g l -> mem_var (ga_var g) iv = true) ->
                     (forall y r, tlookup L0 y = Some r -> mem_var y iv = true) ->
                     forall y r, tlookup L1 y = Some r -> mem_var y iv = true).
        { induction l as [|g l IHl]; simpl; intros L0 L1 H Hl H0 y r Hy.
          - injection H as <-. eapply H0; eauto.
          - destruct (ga_cond g); try discriminate.
            destruct (rhs_set all_vars (L0 ++ declared iv T) (ga_rhs g)).
            + eapply (IHl _ _ H); eauto. intros z rz Hz. simpl in Hz.
              destruct (var_eqb z (ga_var g)) eqn:E; [apply String.eqb_eq in E; subst; apply Hl; left; reflexivity | eapply H0; eauto].
            + eapply (IHl _ _ H); eauto. intros z rz Hz.
              destruct (var_eqb z (ga_var g)) eqn:E.
              * apply String.eqb_eq in E; subst. rewrite tlookup_remove_same in Hz. discriminate.
              * rewrite (tlookup_remove_other _ _ _ E) in Hz. eapply H0; eauto. }
        assert (mem_var x iv = true); [|congruence].
        eapply (G (fp_init fp) [] L EL); eauto.
        * intros g Hg. apply mem_var_In. unfold iv. apply in_map; exact Hg.
        * intros y r Hy. discriminate Hy.
      + rewrite tlookup_declared_other by exact Em. exact Hx.
  Qed.

  Theorem check_types_sound fp T :
    check_types fp T = true ->
    forall s0, init_ok fp T s0 ->
    forall n s, supp (frun law fp n s0) s -> typed T s.
  Proof.
    intros H s0 H0 n. induction n as [|n IH]; simpl; intros s Hs.
    - eapply after_init_typed; eauto.
    - apply supp_bind in Hs. destruct Hs as [s1 [H1 H2]].
      unfold check_types in H. apply andb_true_iff in H; destruct H as [_ Hb].
      eapply check_gas_sound; eauto.
  Qed.

  (* every program point inside an iteration: after any prefix of the body *)
  Theorem check_types_sound_pointwise fp T :
    check_types fp T = true ->
    forall s0, init_ok fp T s0 ->
    forall n pre post, fp_body fp = pre ++ post ->
    forall s, supp (bind (frun law fp n s0) (exec_gas law pre)) s -> typed T s.
  Proof.
    intros H s0 H0 n pre post Hsplit s Hs.
    apply supp_bind in Hs. destruct Hs as [s1 [H1 H2]].
    pose proof (check_types_sound fp T H s0 H0 n s1 H1) as HT1.
    unfold check_types in H. apply andb_true_iff in H; destruct H as [_ Hb].
    rewrite Hsplit, forallb_app in Hb. apply andb_true_iff in Hb; destruct Hb as [Hpre _].
    eapply check_gas_sound; eauto.
  Qed.
End Sound.
