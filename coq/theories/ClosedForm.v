(* Verified validator for closed forms of linear recurrence systems (C04, used by C01,
   C06, C09, C10, C14, C17):  x(n+1) = A x(n),  x(0) = v.
   The candidate is a vector F of exponential polynomials, a cut-off n0 and the listed
   special values for n < n0.  [check_solution] is executable; [check_solution_sound]
   says acceptance implies equality with A^n v for EVERY n. *)
From Coq Require Import List Bool Arith Lia Ring.
From Polar Require Import CRing ExpPoly.
Import ListNotations.

Section CF.
  Variable R : cring.
  Add Ring Rring : (rth R).
  Local Open Scope cr_scope.
  Notation "0" := (@r0 R).

  Definition vec := list R.
  Definition mat := list (list R).

  Fixpoint dot (r : list R) (x : vec) : R :=
    match r, x with a :: r', b :: x' => a * b + dot r' x' | _, _ => 0 end.
  Definition mvec (A : mat) (x : vec) : vec := map (fun r => dot r x) A.
  Fixpoint iter_mat (A : mat) (n : nat) (v : vec) : vec :=
    match n with O => v | S n => mvec A (iter_mat A n v) end.

  Fixpoint vec_eqb (x y : vec) : bool :=
    match x, y with
    | [], [] => true
    | a :: x', b :: y' => reqb a b && vec_eqb x' y'
    | _, _ => false
    end.
  Lemma vec_eqb_eq x y : vec_eqb x y = true -> x = y.
  Proof.
    revert y; induction x as [|a x IH]; intros [|b y]; simpl; intros H; try discriminate; auto.
    apply andb_true_iff in H; destruct H as [H1 H2].
    apply reqb_eq in H1; subst; f_equal; auto.
  Qed.

  (* sum_j a_j * F_j as an exponential polynomial *)
  Fixpoint edot (r : list R) (F : list (epoly R)) : epoly R :=
    match r, F with a :: r', f :: F' => eadd (escale a f) (edot r' F') | _, _ => [] end.
  Definition evalF (F : list (epoly R)) (n : nat) : vec := map (fun f => eeval f n) F.

  Lemma eeval_edot r F n : eeval (edot r F) n = dot r (evalF F n).
  Proof.
    revert F; induction r as [|a r IH]; intros [|f F]; simpl; try reflexivity.
    fold (eadd (escale a f) (edot r F)). rewrite eeval_eadd, eeval_escale, IH. reflexivity.
  Qed.

  (* rows of A against components of F: shift F_i = sum_j A_ij F_j *)
  Fixpoint check_rec (A : mat) (Fi F : list (epoly R)) : bool :=
    match A, Fi with
    | [], [] => true
    | r :: A', f :: Fi' => eeq (eshift f) (edot r F) && check_rec A' Fi' F
    | _, _ => false
    end.

  Lemma check_rec_sound A Fi F : check_rec A Fi F = true ->
    forall n, evalF Fi (S n) = mvec A (evalF F n).
  Proof.
    revert Fi; induction A as [|r A IH]; intros [|f Fi]; simpl; intros H n; try discriminate; auto.
    apply andb_true_iff in H; destruct H as [H1 H2].
    f_equal; [| apply IH; exact H2].
    pose proof (eeq_sound _ _ _ H1 n) as E.
    rewrite eeval_eshift, eeval_edot in E. exact E.
  Qed.

  (* special values: sp_i = A^i v for i = 0 .. length sp - 1 *)
  Fixpoint check_special (A : mat) (cur : vec) (sp : list vec) : bool :=
    match sp with
    | [] => true
    | s :: sp' => vec_eqb s cur && check_special A (mvec A cur) sp'
    end.

  Lemma iter_mat_shift A n v : iter_mat A n (mvec A v) = mvec A (iter_mat A n v).
  Proof. induction n; simpl; [reflexivity | rewrite IHn; reflexivity]. Qed.

  Lemma check_special_sound A sp : forall cur, check_special A cur sp = true ->
    forall i, i < length sp -> nth i sp [] = iter_mat A i cur.
  Proof.
    induction sp as [|s sp IH]; simpl; intros cur H i Hi; [lia|].
    apply andb_true_iff in H; destruct H as [H1 H2]. apply vec_eqb_eq in H1.
    destruct i as [|i]; [exact H1|].
    rewrite (IH _ H2 i) by lia. simpl. apply iter_mat_shift.
  Qed.

  Definition check_solution (A : mat) (v : vec) (F : list (epoly R)) (sp : list vec) : bool :=
    check_special A v sp
    && check_rec A F F
    && vec_eqb (evalF F (length sp)) (iter_mat A (length sp) v).

  (* the function of n that Polar's  Piecewise((s0, n<=0), ..., (general, True))  denotes *)
  Definition pw_eval (F : list (epoly R)) (sp : list vec) (n : nat) : vec :=
    if n <? length sp then nth n sp [] else evalF F n.

  Theorem check_solution_sound A v F sp :
    check_solution A v F sp = true -> forall n, pw_eval F sp n = iter_mat A n v.
  Proof.
    unfold check_solution, pw_eval; intros H n.
    apply andb_true_iff in H; destruct H as [H H3].
    apply andb_true_iff in H; destruct H as [H1 H2].
    apply vec_eqb_eq in H3.
    destruct (n <? length sp) eqn:E.
    - apply Nat.ltb_lt in E. apply check_special_sound; assumption.
    - apply Nat.ltb_ge in E.
      induction E as [|m Hm IH]; [exact H3|].
      rewrite (check_rec_sound _ _ _ H2 m), IH. reflexivity.
  Qed.

  (* two accepted closed forms for the same system agree at every n (C04 "both solvers
     denote the same sequence", C17) *)
  Corollary accepted_agree A v F sp F' sp' :
    check_solution A v F sp = true -> check_solution A v F' sp' = true ->
    forall n, pw_eval F sp n = pw_eval F' sp' n.
  Proof.
    intros H H' n. rewrite (check_solution_sound _ _ _ _ H n), (check_solution_sound _ _ _ _ H' n).
    reflexivity.
  Qed.
End CF.

Arguments dot {R} _ _. Arguments mvec {R} _ _. Arguments iter_mat {R} _ _ _.
Arguments evalF {R} _ _. Arguments check_solution {R} _ _ _ _. Arguments pw_eval {R} _ _ _.
Arguments vec_eqb {R} _ _.
