(* Model of invariants/lattice_ideal.py:LatticeIdeal.compute_basis (C06, C16): soundness of the
   generator equations and of everything in the ideal they generate.
   Variables: x_1..x_k (one per base) followed by c_1..c_k (the "inverse symbols").
     row generator      prod_{e_i>0} x_i^{e_i} * prod_{e_i<0} c_i^{-e_i} - 1      for a lattice row e
     inverse generator  x_i * c_i - 1
   At  x_i = b_i^n, c_i = (1/b_i)^n  every generator vanishes for EVERY n when the rows are
   multiplicative relations of the bases; hence every member of the generated ideal does, and a
   member without inverse symbols (what the elimination returns) vanishes on x_i = b_i^n alone.
   Polar creates inverse symbols only for bases with a negative exponent; the model has all k of
   them (a superset of generators that are all sound).  Groebner elimination is not modelled: its
   outputs enter through an ideal-membership certificate (cofactors), hypothesis of the theorem. *)
From Coq Require Import List Bool Arith Lia Ring ZArith.
From Polar Require Import CRing ExpPoly Lattice LatticeRel Invariant InvariantIdeal.
Import ListNotations.

Section LI.
  Variable R : cring.
  Add Ring Rring3 : (rth R).
  Local Open Scope cr_scope.
  Local Notation z0 := (@r0 R).
  Local Notation z1 := (@r1 R).

  Definition pos_part (e : list Z) : list nat := map Z.to_nat e.
  Definition neg_part (e : list Z) : list nat := map (fun x => Z.to_nat (- x)) e.

  Definition row_gen (e : list Z) : mpoly R := [(z1, pos_part e ++ neg_part e); (ropp z1, [])].

  Fixpoint onehot (k i : nat) : list nat :=
    match k with
    | O => []
    | S k' => match i with O => 1%nat :: repeat 0%nat k' | S i' => 0%nat :: onehot k' i' end
    end.
  Definition inv_gen (k i : nat) : mpoly R := [(z1, onehot k i ++ onehot k i); (ropp z1, [])].

  Definition generators (k : nat) (B : list (list Z)) : list (mpoly R) :=
    map row_gen B ++ map (inv_gen k) (seq 0 k).

  Definition xval (bs : list (R * R)) (n : nat) : list R := map (fun p => rpow (fst p) n) bs.
  Definition cval (bs : list (R * R)) (n : nat) : list R := map (fun p => rpow (snd p) n) bs.
  Definition val (bs : list (R * R)) (n : nat) : list R := xval bs n ++ cval bs n.

  (* ---- monomial evaluation ---- *)
  Lemma mon_eval_app es1 : forall es2 (xs1 xs2 : list R), length es1 = length xs1 ->
    mon_eval (es1 ++ es2) (xs1 ++ xs2) = mon_eval es1 xs1 * mon_eval es2 xs2.
  Proof.
    induction es1 as [|e es1 IH]; intros es2 [|x xs1] xs2 H; cbn [length] in H; try discriminate.
    - cbn [app mon_eval]. ring.
    - cbn [app mon_eval]. rewrite IH by lia. ring.
  Qed.

  Lemma mon_eval_short es : forall (xs ys : list R), length es <= length xs ->
    mon_eval es (xs ++ ys) = mon_eval es xs.
  Proof.
    induction es as [|e es IH]; intros [|x xs] ys H; cbn [length] in H; cbn [app mon_eval]; try reflexivity; try lia.
    rewrite IH by lia. reflexivity.
  Qed.

  Lemma mon_eval_repeat0 k : forall xs : list R, mon_eval (repeat 0%nat k) xs = z1.
  Proof.
    induction k as [|k IH]; intros [|x xs]; cbn [repeat mon_eval rpow]; try reflexivity.
    rewrite IH. ring.
  Qed.

  Lemma mon_eval_onehot k : forall i (xs : list R), i < k -> length xs = k -> mon_eval (onehot k i) xs = nth i xs z1.
  Proof.
    induction k as [|k IH]; intros i xs Hi Hl; [lia|].
    destruct xs as [|x xs]; [discriminate|]. cbn [length] in Hl.
    destruct i as [|i]; cbn [onehot mon_eval nth rpow].
    - rewrite mon_eval_repeat0. ring.
    - rewrite IH by lia. ring.
  Qed.

  (* ---- the relation at the n-th powers ---- *)
  Lemma rpow_swap (b : R) n m : rpow (rpow b n) m = rpow (rpow b m) n.
  Proof. rewrite !rpow_rpow, Nat.mul_comm. reflexivity. Qed.

  Lemma zpow_pow (b bi : R) e n : zpow (rpow b n) (rpow bi n) e = rpow (zpow b bi e) n.
  Proof.
    destruct e as [|p|p]; cbn [zpow]; [symmetry; apply rpow_1 | apply rpow_swap | apply rpow_swap].
  Qed.

  Lemma prodpow_pow (bs : list (R * R)) n : forall e,
    prodpow (map (fun p => (rpow (fst p) n, rpow (snd p) n)) bs) e = rpow (prodpow bs e) n.
  Proof.
    induction bs as [|[b bi] bs IH]; intros [|x e]; cbn [map prodpow fst snd]; try (symmetry; apply rpow_1).
    rewrite IH, zpow_pow, rpow_mul_base. reflexivity.
  Qed.

  Lemma mon_eval_parts (bs : list (R * R)) : forall e,
    mon_eval (pos_part e) (map fst bs) * mon_eval (neg_part e) (map snd bs) = prodpow bs e.
  Proof.
    induction bs as [|[b bi] bs IH]; intros [|x e];
      cbn [pos_part neg_part map mon_eval prodpow fst snd]; try ring.
    fold (pos_part e) (neg_part e). rewrite <- IH, zpow_split. ring.
  Qed.

  Lemma xval_as_fst (bs : list (R * R)) n : xval bs n = map fst (map (fun p => (rpow (fst p) n, rpow (snd p) n)) bs).
  Proof. unfold xval. rewrite map_map. reflexivity. Qed.
  Lemma cval_as_snd (bs : list (R * R)) n : cval bs n = map snd (map (fun p => (rpow (fst p) n, rpow (snd p) n)) bs).
  Proof. unfold cval. rewrite map_map. reflexivity. Qed.

  Theorem row_gen_vanishes (bs : list (R * R)) e n :
    length e = length bs -> is_relation bs e -> poly_eval (row_gen e) (val bs n) = z0.
  Proof.
    intros HL HR. unfold row_gen, val. cbn [poly_eval fst snd].
    rewrite mon_eval_app by (unfold pos_part, xval; rewrite !map_length; exact HL).
    rewrite xval_as_fst, cval_as_snd, mon_eval_parts, prodpow_pow.
    unfold is_relation in HR. rewrite HR, rpow_1. cbn [mon_eval]. ring.
  Qed.

  Theorem inv_gen_vanishes (bs : list (R * R)) i n :
    inverses_ok bs -> i < length bs -> poly_eval (inv_gen (length bs) i) (val bs n) = z0.
  Proof.
    intros HI Hi. unfold inv_gen, val. cbn [poly_eval fst snd].
    assert (Lx : length (xval bs n) = length bs) by (unfold xval; apply map_length).
    assert (Lc : length (cval bs n) = length bs) by (unfold cval; apply map_length).
    assert (Lo : forall k j, length (onehot k j) = k).
    { induction k as [|k IHk]; intros j; [reflexivity|]. destruct j; cbn [onehot length];
        [rewrite repeat_length | rewrite IHk]; reflexivity. }
    rewrite mon_eval_app by (rewrite Lo, Lx; reflexivity).
    rewrite !mon_eval_onehot by assumption.
    unfold xval, cval.
    set (d := (z1, z1) : R * R).
    rewrite (nth_indep (map (fun p : R * R => rpow (fst p) n) bs) z1 ((fun p : R * R => rpow (fst p) n) d))
      by (rewrite map_length; exact Hi).
    rewrite (nth_indep (map (fun p : R * R => rpow (snd p) n) bs) z1 ((fun p : R * R => rpow (snd p) n) d))
      by (rewrite map_length; exact Hi).
    pose proof (map_nth (fun p : R * R => rpow (fst p) n) bs d i) as E1. cbv beta in E1. rewrite E1.
    pose proof (map_nth (fun p : R * R => rpow (snd p) n) bs d i) as E2. cbv beta in E2. rewrite E2.
    assert (HP : fst (nth i bs d) * snd (nth i bs d) = z1) by (apply HI; apply nth_In; exact Hi).
    pose proof (rpow_inv R _ _ n HP) as E. cbn [mon_eval].
    transitivity (rpow (fst (nth i bs d)) n * rpow (snd (nth i bs d)) n + ropp z1); [ring | rewrite E; ring].
  Qed.

  (* ---- ideal closure at a point ---- *)
  Lemma ideal_comb_vanishes (xs : list R) : forall (Cs Gs : list (mpoly R)),
    (forall G, In G Gs -> poly_eval G xs = z0) ->
    forallb (exps_ok (length xs)) Gs = true -> forallb (exps_ok (length xs)) Cs = true ->
    poly_eval (ideal_comb Cs Gs) xs = z0.
  Proof.
    induction Cs as [|c Cs IH]; intros [|g Gs] HG HE HC; cbn [ideal_comb poly_eval]; try reflexivity.
    cbn [forallb] in HE, HC.
    apply andb_true_iff in HE. destruct HE as [He HE].
    apply andb_true_iff in HC. destruct HC as [Hc HC].
    rewrite poly_eval_app, poly_eval_mpmul by assumption.
    rewrite (HG g (or_introl eq_refl)), IH; [ring | | assumption | assumption].
    intros G HGin. apply HG. right. exact HGin.
  Qed.

  Lemma generators_vanish (bs : list (R * R)) B n :
    inverses_ok bs -> (forall e, In e B -> length e = length bs /\ is_relation bs e) ->
    forall G, In G (generators (length bs) B) -> poly_eval G (val bs n) = z0.
  Proof.
    intros HI HB G HG. unfold generators in HG. apply in_app_or in HG. destruct HG as [HG|HG].
    - apply in_map_iff in HG. destruct HG as [e [<- He]]. destruct (HB e He) as [HL HR].
      apply row_gen_vanishes; assumption.
    - apply in_map_iff in HG. destruct HG as [i [<- Hi]]. apply in_seq in Hi.
      apply inv_gen_vanishes; [exact HI | lia].
  Qed.

  Lemma poly_eval_short (q : mpoly R) xs ys :
    exps_ok (length xs) q = true -> poly_eval q (xs ++ ys) = poly_eval q xs.
  Proof.
    induction q as [|m q IH]; intros H; cbn [poly_eval]; [reflexivity|].
    cbn [exps_ok forallb] in H. apply andb_true_iff in H. destruct H as [Hm H]. apply Nat.leb_le in Hm.
    rewrite mon_eval_short by exact Hm. rewrite IH by exact H. reflexivity.
  Qed.

  (* exponent vectors of q (over x_1..x_k) padded with zeros for the inverse symbols, so that the
     syntactic comparison [mpeq] with a combination over all 2k variables is meaningful *)
  Definition padq (m : nat) (q : mpoly R) : mpoly R :=
    map (fun u => (fst u, snd u ++ repeat 0%nat (m - length (snd u)))) q.
  Lemma mon_eval_pad es m : forall xs : list R, mon_eval (es ++ repeat 0%nat m) xs = mon_eval es xs.
  Proof.
    induction es as [|e es IH]; intros xs; cbn [app].
    - rewrite mon_eval_repeat0. reflexivity.
    - destruct xs as [|x xs]; cbn [mon_eval]; [reflexivity|]. rewrite IH. reflexivity.
  Qed.
  Lemma poly_eval_padq m (q : mpoly R) xs : poly_eval (padq m q) xs = poly_eval q xs.
  Proof.
    induction q as [|u q IH]; cbn [padq map poly_eval fst snd]; [reflexivity|].
    fold (padq m q). rewrite IH, mon_eval_pad. reflexivity.
  Qed.

  (* the lattice ideal is sound: a polynomial q in the x_i alone that is (certified to be) a
     member of the ideal generated by the row and inverse generators of accepted relation rows
     vanishes on x_i = b_i^n at EVERY n *)
  Theorem lattice_ideal_sound (bs : list (R * R)) (B : list (list Z)) (Cs : list (mpoly R)) (q : mpoly R) :
    check_relations bs B = true ->
    exps_ok (length bs) q = true ->
    forallb (exps_ok (length bs + length bs)%nat) (generators (length bs) B) = true ->
    forallb (exps_ok (length bs + length bs)%nat) Cs = true ->
    mpeq (padq (length bs + length bs)%nat q) (ideal_comb Cs (generators (length bs) B)) = true ->
    forall n, poly_eval q (xval bs n) = z0.
  Proof.
    intros HR Hq HG HC HE n.
    destruct (check_relations_sound R bs B HR) as [HI HB].
    assert (Lx : length (xval bs n) = length bs) by (unfold xval; apply map_length).
    assert (Lv : length (val bs n) = (length bs + length bs)%nat).
    { unfold val. rewrite app_length, Lx. unfold cval. rewrite map_length. reflexivity. }
    rewrite <- (poly_eval_short q (xval bs n) (cval bs n)) by (rewrite Lx; exact Hq).
    fold (val bs n). rewrite <- (poly_eval_padq (length bs + length bs)%nat q (val bs n)).
    rewrite (mpeq_sound R _ _ HE (val bs n)).
    apply ideal_comb_vanishes.
    - apply generators_vanish; assumption.
    - rewrite Lv. exact HG.
    - rewrite Lv. exact HC.
  Qed.
End LI.

Arguments row_gen {R} _. Arguments inv_gen {R} _ _. Arguments generators {R} _ _.
Arguments xval {R} _ _. Arguments val {R} _ _. Arguments padq {R} _ _.
