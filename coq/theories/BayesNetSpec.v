(* C15 — specification-level definitions: well-formed networks, the joint law written as the
   product of conditional probabilities (no reference to the topological order or to the
   generated program), the enumeration of all value assignments. *)
From Coq Require Import String Arith Bool QArith Qcanon Lia List.
From Polar Require Import Qcx BayesNet BayesNetSem.
Import ListNotations.
Open Scope nat_scope.

(* what NetworkTransformer guarantees about an accepted network (BayesNetCpt.assemble_wf) *)
Definition wf_network (net : network) : Prop :=
  forall x v, nth_error net x = Some v ->
    1 <= length (nv_dom v) /\
    (forall p, In p (nv_par v) -> p < length net) /\
    map fst (nv_cpt v) = net_keys net (nv_par v) /\
    (forall k r, In (k, r) (nv_cpt v) -> length r = length (nv_dom v)).

Definition rows_valid (tol : Qc) (net : network) : Prop :=
  forall x v k r, nth_error net x = Some v -> In (k, r) (nv_cpt v) -> sum_valid tol r = true.

(* the values of the m network variables in a state, in declaration order *)
Definition read (m : nat) (s : state) : list nat := map s (seq 0 m).

(* all assignments of in-domain value positions to the variables (declaration order) *)
Definition all_assignments (net : network) : list (list nat) :=
  product (map (fun v => seq 0 (length (nv_dom v))) net).

(* The law a generated choice "x = 0 {r0} 1 {r1} ... d-1" denotes for the CPT row r of a
   variable with d values: the listed probabilities for the first d-1 values and the
   remainder 1 - (r0 + ... + r(d-2)) for the last one.  This IS r when r sums to 1
   (row_law_exact) and differs from r only in the last entry, by 1 - sum r, otherwise. *)
Definition row_law (d : nat) (r : row) : list Qc := cat_weights (firstn (d - 1) r).

(* P(X_x = a_x | parents of x = a_parents), values by domain position *)
Definition cond_prob (net : network) (a : list nat) (x : nat) : Qc :=
  match nth_error net x with
  | Some v =>
      match cpt_lookup (map (fun p => nth p a 0) (nv_par v)) (nv_cpt v) with
      | Some r => nth (nth x a 0) (row_law (length (nv_dom v)) r) 0%Qc
      | None => 0%Qc
      end
  | None => 0%Qc
  end.

Definition qprod (l : list Qc) : Qc := fold_right Qcmult 1%Qc l.

(* the joint law of the network: product over all variables, in declaration order *)
Definition joint_prob (net : network) (a : list nat) : Qc :=
  qprod (map (cond_prob net a) (seq 0 (length net))).

Definition nats_eqb : list nat -> list nat -> bool := list_eqb Nat.eqb.

(* expectation of a function of the network variables under the joint law, by enumeration *)
Definition joint_expect (net : network) (g : list nat -> Qc) : Qc :=
  qsum (map (fun a => (joint_prob net a * g a)%Qc) (all_assignments net)).

(* an evidence conjunction evaluated on an assignment *)
Definition ev_holds (c : gcond) (a : list nat) : bool :=
  forallb (fun xv => Nat.eqb (nth (fst xv) a 0) (snd xv)) c.

(* parents-first orders, DAGs *)
Definition wf_pars (pars : list (list nat)) : Prop :=
  forall i ps, nth_error pars i = Some ps -> NoDup ps /\ forall p, In p ps -> p < length pars.
Definition parents_first (pars : list (list nat)) (ord : list nat) : Prop :=
  forall l1 x l2, ord = l1 ++ x :: l2 -> forall p, In p (nth x pars []) -> In p l1.
Definition acyclic (pars : list (list nat)) : Prop :=
  exists rank : nat -> nat, forall x p, x < length pars -> In p (nth x pars []) -> rank p < rank x.
