(* C10 — sensitivity analysis, part 2: the model of Polar's sensitivity recurrences
   (recurrences/diff_rec_builder.py, sensitivity_analysis/sensitivity_analyzer.py) at the
   level of recurrence systems, and the validators run on Polar's actual output.

   * [check_sub]: a system (S, s) over a subset of the unknowns of a system (B, b), given
     by an index map iota, is a closed sub-system of (B, b) modulo a set Z of unknowns that
     are identically zero; acceptance => S^n s = (B^n b) restricted to iota, for all n.
   * [diff_row]/[model_ext]: the summand-wise rules of DiffRecBuilder.get_recurrence
     (skip p-independent summands; c'.m + c.(delta m) when both parts depend on p; c'.m when
     only the constant part does; c.(delta m) when only the monomial does) and of
     get_initial_value (derivative of the initial value).
   * [dep_closed]: what SensivitiyAnalyzer.get_dependent_variables must guarantee for the
     monomials it classifies p-independent (their rows and initial values are p-free and
     closed).  [dep_closure_sound]: then their moments have zero p-derivative at every n.
   * [diffrec_model_correct]: under [dep_closed] the model's system iterates to the value
     and the formal p-derivative of A(p)^n v(p), for all systems, parameter values and n.
   * [check_sens_model], [check_sens_direct]: executable validators for one instance of
     Polar's output, with soundness theorems concluding the same statement. *)
From Coq Require Import List Bool Arith Lia Ring.
From Polar Require Import CRing ExpPoly ClosedForm Sens.
Import ListNotations.

Section Sub.
  Variable R : cring.
  Add Ring Rring5 : (rth R).
  Local Open Scope cr_scope.
  Notation "0" := (@r0 R).
  Notation "1" := (@r1 R).

  (* ---- vectors that vanish on a set of positions ---- *)
  Definition zero_on (Z : list bool) (y : list R) : Prop :=
    Forall2 (fun z a => z = true -> a = 0) Z y.

  Lemma zero_on_length Z y : zero_on Z y -> length Z = length y.
  Proof. intros H; induction H; simpl; congruence. Qed.

  Fixpoint rows_agree (Z : list bool) (r1 r2 : list R) : bool :=
    match Z, r1, r2 with
    | [], [], [] => true
    | z :: Z', a :: r1', b :: r2' => (z || reqb a b) && rows_agree Z' r1' r2'
    | _, _, _ => false
    end.

  Lemma rows_agree_dot Z : forall r1 r2, rows_agree Z r1 r2 = true ->
    forall y, zero_on Z y -> dot r1 y = dot r2 y.
  Proof.
    induction Z as [|z Z IH]; intros [|a r1] [|b r2] H y Hy; simpl in H; try discriminate.
    - reflexivity.
    - inversion Hy as [|z0 c Z0 y0 Hc Hy0]; subst.
      apply andb_true_iff in H. destruct H as [H1 H2]. simpl.
      rewrite (IH _ _ H2 _ Hy0).
      apply orb_true_iff in H1. destruct H1 as [H1|H1].
      + rewrite (Hc H1). ring.
      + apply reqb_eq in H1. subst. reflexivity.
  Qed.

  Fixpoint mats_agree (Z : list bool) (M B : list (list R)) : bool :=
    match M, B with
    | [], [] => true
    | r1 :: M', r2 :: B' => rows_agree Z r1 r2 && mats_agree Z M' B'
    | _, _ => false
    end.

  Lemma mats_agree_mvec Z : forall M B, mats_agree Z M B = true ->
    forall y, zero_on Z y -> mvec M y = mvec B y.
  Proof.
    induction M as [|r1 M IH]; intros [|r2 B] H y Hy; simpl in H; try discriminate; [reflexivity|].
    apply andb_true_iff in H. destruct H as [H1 H2]. simpl.
    rewrite (rows_agree_dot _ _ _ H1 _ Hy). f_equal. apply IH; assumption.
  Qed.

  Fixpoint zero_vec (Z : list bool) (b : list R) : bool :=
    match Z, b with
    | [], [] => true
    | z :: Z', a :: b' => (negb z || reqb a 0) && zero_vec Z' b'
    | _, _ => false
    end.

  Lemma zero_vec_sound Z : forall b, zero_vec Z b = true -> zero_on Z b.
  Proof.
    induction Z as [|z Z IH]; intros [|a b] H; simpl in H; try discriminate; constructor.
    - apply andb_true_iff in H. destruct H as [H1 _]. intros Hz. subst z. simpl in H1.
      apply reqb_eq in H1. exact H1.
    - apply andb_true_iff in H. destruct H as [_ H2]. apply IH. exact H2.
  Qed.

  Fixpoint zero_rows (Z Zf : list bool) (B : list (list R)) : bool :=
    match Zf, B with
    | [], [] => true
    | z :: Zf', r :: B' => (negb z || rows_agree Z r (zeros Z)) && zero_rows Z Zf' B'
    | _, _ => false
    end.

  Lemma zero_rows_sound Z : forall Zf B, zero_rows Z Zf B = true ->
    forall y, zero_on Z y -> zero_on Zf (mvec B y).
  Proof.
    induction Zf as [|z Zf IH]; intros [|r B] H y Hy; simpl in H; try discriminate; simpl; constructor.
    - apply andb_true_iff in H. destruct H as [H1 _]. intros Hz. subst z. simpl in H1.
      rewrite (rows_agree_dot _ _ _ H1 _ Hy). apply dot_zeros.
    - apply andb_true_iff in H. destruct H as [_ H2]. apply IH; assumption.
  Qed.

  Lemma zero_invariant Z B b :
    (forall y, zero_on Z y -> zero_on Z (mvec B y)) -> zero_on Z b ->
    forall n, zero_on Z (iter_mat B n b).
  Proof. intros H Hb n. induction n as [|n IH]; simpl; auto. Qed.

  (* ---- gathering / scattering along an index map ---- *)
  Definition gather (iota : list nat) (y : list R) : list R := map (fun c => nth c y 0) iota.
  Definition ind (c c' : nat) : R := if Nat.eqb c' c then 1 else 0.
  Definition scatter (r : list R) (iota : list nat) (K : nat) : list R :=
    map (fun c => dot r (map (ind c) iota)) (seq 0 K).

  Lemma dot_map_add (f g : nat -> R) l : forall y,
    dot (map (fun c => f c + g c) l) y = dot (map f l) y + dot (map g l) y.
  Proof.
    induction l as [|a l IH]; intros [|b y]; simpl; try ring. rewrite IH. ring.
  Qed.
  Lemma dot_map_scale a (f : nat -> R) l : forall y,
    dot (map (fun c => a * f c) l) y = a * dot (map f l) y.
  Proof.
    induction l as [|c l IH]; intros [|b y]; simpl; try ring. rewrite IH. ring.
  Qed.
  Lemma dot_map_zero l : forall y : list R, dot (map (fun _ : nat => 0) l) y = 0.
  Proof. intros y. exact (dot_zeros R l y). Qed.

  Lemma dot_unit_aux c0 : forall (y : list R) s,
    dot (map (fun c => ind c c0) (seq s (length y))) y = if (c0 <? s)%nat then 0 else nth (c0 - s)%nat y 0.
  Proof.
    induction y as [|b y IH]; intros s.
    - simpl. destruct (c0 <? s)%nat; [reflexivity | destruct (c0 - s)%nat; reflexivity].
    - cbn [length seq map dot]. rewrite IH. unfold ind.
      destruct (Nat.eqb_spec c0 s) as [E|E].
      + subst. rewrite Nat.ltb_irrefl. replace (s <? S s)%nat with true by (symmetry; apply Nat.ltb_lt; lia).
        rewrite Nat.sub_diag. simpl. ring.
      + destruct (Nat.ltb_spec c0 s) as [L|L].
        * replace (c0 <? S s)%nat with true by (symmetry; apply Nat.ltb_lt; lia). ring.
        * replace (c0 <? S s)%nat with false by (symmetry; apply Nat.ltb_ge; lia).
          replace (c0 - s)%nat with (S (c0 - S s))%nat by lia. simpl. ring.
  Qed.
  Lemma dot_unit c0 K (y : list R) : length y = K ->
    dot (map (fun c => ind c c0) (seq 0 K)) y = nth c0 y 0.
  Proof. intros <-. rewrite dot_unit_aux. simpl. rewrite Nat.sub_0_r. reflexivity. Qed.

  Lemma scatter_dot K (y : list R) : length y = K ->
    forall r iota, dot (scatter r iota K) y = dot r (gather iota y).
  Proof.
    intros HK. induction r as [|a r IH]; intros iota.
    - unfold scatter. simpl. apply dot_map_zero.
    - destruct iota as [|c0 iota].
      + unfold scatter. simpl. apply dot_map_zero.
      + change (scatter (a :: r) (c0 :: iota) K)
          with (map (fun c => a * ind c c0 + dot r (map (ind c) iota)) (seq 0 K)).
        rewrite dot_map_add, dot_map_scale, (dot_unit c0 K y HK).
        change (map (fun c => dot r (map (ind c) iota)) (seq 0 K)) with (scatter r iota K).
        rewrite IH. reflexivity.
  Qed.

  (* rows of S against the rows of B they claim to be *)
  Fixpoint sub_rows (Z : list bool) (B : list (list R)) (K : nat) (iall : list nat)
           (S : list (list R)) (iota : list nat) : bool :=
    match S, iota with
    | [], [] => true
    | r :: S', c :: iota' =>
        rows_agree Z (nth c B []) (scatter r iall K) && sub_rows Z B K iall S' iota'
    | _, _ => false
    end.

  Lemma sub_rows_sound Z B K iall : forall S iota, sub_rows Z B K iall S iota = true ->
    forall y, length y = K -> zero_on Z y ->
    map (fun r => dot r (gather iall y)) S = map (fun c => dot (nth c B []) y) iota.
  Proof.
    induction S as [|r S IH]; intros [|c iota] H y HK Hy; simpl in H; try discriminate; [reflexivity|].
    apply andb_true_iff in H. destruct H as [H1 H2]. simpl. f_equal.
    - rewrite (rows_agree_dot _ _ _ H1 _ Hy). rewrite scatter_dot by exact HK. reflexivity.
    - apply IH; assumption.
  Qed.

  Definition check_sub (B : list (list R)) (b : list R) (S : list (list R)) (s : list R)
             (iota : list nat) (Z : list bool) : bool :=
    let K := length b in
    Nat.eqb (length B) K && zero_vec Z b && zero_rows Z Z B
    && vec_eqb s (gather iota b) && sub_rows Z B K iota S iota.

  Lemma gather_mvec B (y : list R) iota :
    gather iota (mvec B y) = map (fun c => dot (nth c B []) y) iota.
  Proof.
    unfold gather, mvec. apply map_ext. intros c.
    change 0 with (dot (@nil R) y). apply (map_nth (fun r => dot r y)).
  Qed.

  Theorem check_sub_sound B b S s iota Z : check_sub B b S s iota Z = true ->
    forall n, iter_mat S n s = gather iota (iter_mat B n b) /\ zero_on Z (iter_mat B n b).
  Proof.
    unfold check_sub. intros H.
    repeat (apply andb_true_iff in H; destruct H as [H ?]).
    rename H0 into Hrows, H1 into Hs, H2 into Hzr, H3 into Hzv.
    apply Nat.eqb_eq in H. apply vec_eqb_eq in Hs. apply zero_vec_sound in Hzv.
    assert (Hz : forall n, zero_on Z (iter_mat B n b)).
    { apply zero_invariant; [|exact Hzv]. intros y Hy. eapply zero_rows_sound; eauto. }
    assert (Hl : forall n, length (iter_mat B n b) = length b).
    { intros [|n]; simpl; [reflexivity | rewrite mvec_length; exact H]. }
    intros n. split; [|apply Hz].
    induction n as [|n IH]; [exact Hs|].
    cbn [iter_mat]. rewrite IH, gather_mvec. unfold mvec.
    apply sub_rows_sound with (Z := Z) (K := length b); auto.
  Qed.
End Sub.

Arguments zero_on {R} _ _. Arguments gather {R} _ _. Arguments check_sub {R} _ _ _ _ _ _.
Arguments rows_agree {R} _ _ _.

(* ------------------------------------------------------------------------------------ *)
Section Model.
  Variable R : cring.
  Add Ring Rring6 : (rth R).
  Local Open Scope cr_scope.
  Notation "0" := (@r0 R).
  Notation "1" := (@r1 R).
  Notation D := (dual_cring R).
  Notation poly := (list R).

  (* ---- the model ----
     An original system is given row-wise: entry j of row i is the coefficient polynomial
     (in the parameter) of monomial j in the recurrence of monomial i, i.e. the list of
     summands  c_ij(p) * M_j ; [dep] flags the monomials Polar classifies as p-dependent
     (monomials containing a variable of get_dependent_variables). *)
  Definition sel (d : bool) (c : poly) : poly := if d then c else [].

  (* DiffRecBuilder.get_recurrence(delta * M_i): per summand c*M_j
       coefficient of M_j        : c'  if p occurs in c                       (else nothing)
       coefficient of delta*M_j  : c   if M_j is p-dependent                  (else nothing)
     which is exactly: skipped when neither holds; product rule when both hold; only c'.M_j
     when only the constant part depends on p; only c.delta M_j when only the monomial does *)
  Definition diff_row (dep : list bool) (row : list poly) : list poly :=
    map (fun c => if mentions c then pderiv c else []) row
    ++ map (fun cd => sel (snd cd) (fst cd)) (combine row dep).

  (* unknowns: M_0..M_{k-1}, delta M_0 .. delta M_{k-1} *)
  Definition model_ext (dep : list bool) (PA : list (list poly)) : list (list poly) :=
    map (fun r => r ++ map (fun _ => []) r) PA ++ map (diff_row dep) PA.
  (* DiffRecBuilder.get_initial_value: d/dp of the initial value *)
  Definition model_init (Pv : list poly) : list poly := Pv ++ derivV Pv.

  (* ---- what the dependency analysis has to guarantee ---- *)
  Definition row_closed (dep : list bool) (row : list poly) : bool :=
    forallb (fun cd => negb (mentions (fst cd)) && (negb (snd cd) || pzero R (fst cd))) (combine row dep).
  Fixpoint dep_closed_aux (dep dall : list bool) (PA : list (list poly)) (Pv : list poly) : bool :=
    match dep, PA, Pv with
    | [], [], [] => true
    | d :: dep', row :: PA', v0 :: Pv' =>
        (d || (negb (mentions v0) && row_closed dall row)) && dep_closed_aux dep' dall PA' Pv'
    | _, _, _ => false
    end.
  Definition dep_closed (dep : list bool) (PA : list (list poly)) (Pv : list poly) : bool :=
    dep_closed_aux dep dep PA Pv.

  (* ---- evaluation at x + eps ---- *)
  Variable x : R.
  Definition evD (P : poly) : D := peval (R := D) (map dinj P) (x, 1).
  Lemma evD_pair P : evD P = (peval P x, peval (pderiv P) x).
  Proof. apply peval_dual. Qed.

  Definition indep_ok (dep : list bool) (y : list D) : Prop :=
    Forall2 (fun d (a : D) => d = false -> snd a = 0) dep y.

  Lemma dot_snd_zero : forall (row : list poly) dep (y : list D),
    row_closed dep row = true -> indep_ok dep y ->
    dot (map fst (map evD row)) (map snd y) = 0 /\ dot (map snd (map evD row)) (map fst y) = 0.
  Proof.
    induction row as [|c row IH]; intros dep y H Hy; [split; reflexivity|].
    destruct dep as [|d dep]; [inversion Hy; subst; split; reflexivity|].
    inversion Hy as [|d0 a dep0 y0 Ha Hy0]; subst.
    unfold row_closed in H. cbn [combine forallb fst snd] in H.
    apply andb_true_iff in H. destruct H as [H1 H2].
    apply andb_true_iff in H1. destruct H1 as [Hm Hd].
    apply negb_true_iff in Hm.
    destruct (IH dep y0 H2 Hy0) as [E1 E2].
    cbn [map dot]. rewrite E1, E2, evD_pair. cbn [fst snd].
    rewrite (pderiv_const R c x Hm). split; [|ring].
    destruct d; simpl in Hd.
    - rewrite (pzero_sound R c Hd x). ring.
    - rewrite (Ha eq_refl). ring.
  Qed.

  Lemma step_indep dep : forall da PA Pv (y : list D),
    dep_closed_aux da dep PA Pv = true -> indep_ok dep y ->
    indep_ok da (mvec (map (map evD) PA) y).
  Proof.
    induction da as [|d da IH]; intros [|row PA] [|v0 Pv] y H Hy; simpl in H; try discriminate;
      cbn [mvec map]; constructor.
    - apply andb_true_iff in H. destruct H as [H _]. intros ->. simpl in H.
      apply andb_true_iff in H. destruct H as [_ H].
      rewrite dot_dual. cbn [snd].
      destruct (dot_snd_zero row dep y H Hy) as [E1 E2]. rewrite E1, E2. ring.
    - apply andb_true_iff in H. destruct H as [_ H]. eapply IH; eauto.
  Qed.

  Lemma init_indep : forall da dall PA Pv,
    dep_closed_aux da dall PA Pv = true -> indep_ok da (map evD Pv).
  Proof.
    induction da as [|d da IH]; intros dall [|row PA] [|v0 Pv] H; simpl in H; try discriminate;
      simpl; constructor.
    - apply andb_true_iff in H. destruct H as [H _]. intros ->. simpl in H.
      apply andb_true_iff in H. destruct H as [H _]. apply negb_true_iff in H.
      rewrite evD_pair. cbn [snd]. apply pderiv_const. exact H.
    - apply andb_true_iff in H. destruct H as [_ H]. eapply IH; eauto.
  Qed.

  Theorem indep_invariant dep PA Pv : dep_closed dep PA Pv = true ->
    forall n, indep_ok dep (iter_mat (map (map evD) PA) n (map evD Pv)).
  Proof.
    intros H n. induction n as [|n IH]; simpl.
    - eapply init_indep; exact H.
    - eapply step_indep; eauto.
  Qed.

  (* ---- the model's delta-row against the true derivative row ---- *)
  Lemma sel_dot : forall (row : list poly) dep (y : list D), indep_ok dep y ->
    length row = length y ->
    dot (evalV (map (fun cd => sel (snd cd) (fst cd)) (combine row dep)) x) (map snd y)
    = dot (map fst (map evD row)) (map snd y).
  Proof.
    unfold evalV.
    induction row as [|c row IH]; intros dep y Hy Hl; [reflexivity|].
    destruct y as [|a y]; [discriminate|].
    simpl in Hl. injection Hl as Hl.
    inversion Hy as [|d0 a0 dep0 y0 Ha Hy0]; subst.
    cbn [combine map dot fst snd].
    rewrite (IH dep0 y Hy0 Hl).
    rewrite evD_pair. cbn [fst]. destruct d0; simpl.
    - reflexivity.
    - rewrite (Ha eq_refl). ring.
  Qed.

  Lemma diff_row_dot dep (row : list poly) (y : list D) : indep_ok dep y ->
    length row = length y ->
    dot (evalV (diff_row dep row) x) (map fst y ++ map snd y) = snd (dot (map evD row) y).
  Proof.
    intros Hy Hl. unfold diff_row, evalV. rewrite map_app.
    rewrite dot_app by (rewrite !map_length; exact Hl).
    rewrite dot_dual. cbn [snd].
    fold (evalV (R := R)).
    change (map (fun P => peval P x) (map (fun cd => sel (snd cd) (fst cd)) (combine row dep)))
      with (evalV (map (fun cd => sel (snd cd) (fst cd)) (combine row dep)) x).
    rewrite (sel_dot row dep y Hy Hl).
    transitivity (dot (map snd (map evD row)) (map fst y) + dot (map fst (map evD row)) (map snd y));
      [|ring].
    f_equal. f_equal.
    rewrite !map_map. apply map_ext. intros c. rewrite evD_pair. cbn [snd].
    destruct (mentions c) eqn:E; [reflexivity|]. rewrite (pderiv_const R c x E). reflexivity.
  Qed.

  Lemma model_step dep (PA : list (list poly)) (y : list D) : indep_ok dep y ->
    Forall (fun r => length r = length y) PA ->
    mvec (evalM (model_ext dep PA) x) (map fst y ++ map snd y)
    = map fst (mvec (map (map evD) PA) y) ++ map snd (mvec (map (map evD) PA) y).
  Proof.
    intros Hy HF. unfold model_ext, evalM, mvec. rewrite !map_app, !map_map. f_equal.
    - apply map_ext_Forall. revert HF. apply Forall_impl. intros r Hr.
      unfold evalV. rewrite map_app.
      rewrite dot_app by (rewrite !map_length; exact Hr).
      rewrite map_map. cbn [peval].
      pose proof (dot_zeros R r (map snd y)) as Ez. unfold zeros in Ez. rewrite Ez. clear Ez.
      rewrite dot_dual. cbn [fst].
      rewrite (Radd_comm (rth R)), (Radd_0_l (rth R)).
      f_equal. rewrite map_map. apply map_ext. intros c. rewrite evD_pair. reflexivity.
    - apply map_ext_Forall. revert HF. apply Forall_impl. intros r Hr.
      apply diff_row_dot; assumption.
  Qed.

  Lemma evD_fst l : map fst (map evD l) = evalV l x.
  Proof. unfold evalV. rewrite map_map. apply map_ext. intros P. rewrite evD_pair. reflexivity. Qed.
  Lemma evD_snd l : map snd (map evD l) = evalV (derivV l) x.
  Proof. unfold evalV, derivV. rewrite !map_map. apply map_ext. intros P. rewrite evD_pair. reflexivity. Qed.

  Lemma dual_piter PA n Pv :
    map evD (piter PA n Pv) = iter_mat (map (map evD) PA) n (map evD Pv).
  Proof.
    exact (ev_piter R D (map dinj) eq_refl (map_dinj_padd R) (map_dinj_pmul R) (x, 1) PA n Pv).
  Qed.

  (* [diffrec_model_correct] *)
  Theorem diffrec_model_correct dep PA Pv k :
    wfM k PA -> length Pv = k -> dep_closed dep PA Pv = true ->
    forall n, iter_mat (evalM (model_ext dep PA) x) n (evalV (model_init Pv) x)
              = evalV (piter PA n Pv) x ++ evalV (derivV (piter PA n Pv)) x.
  Proof.
    intros [HA HR] Hv Hc n.
    assert (G : iter_mat (evalM (model_ext dep PA) x) n (evalV (model_init Pv) x)
                = map fst (iter_mat (map (map evD) PA) n (map evD Pv))
                  ++ map snd (iter_mat (map (map evD) PA) n (map evD Pv))).
    { induction n as [|n IH].
      - cbn [iter_mat]. rewrite evD_fst, evD_snd. unfold model_init, evalV. apply map_app.
      - cbn [iter_mat]. rewrite IH. apply model_step.
        + apply indep_invariant. exact Hc.
        + rewrite iter_mat_length by (rewrite !map_length; congruence).
          rewrite map_length, Hv. exact HR. }
    rewrite G, <- dual_piter, evD_fst, evD_snd. reflexivity.
  Qed.

  (* [dep_closure_sound]: monomials classified independent have zero derivative, all n *)
  Theorem dep_closure_sound dep PA Pv : dep_closed dep PA Pv = true ->
    forall n, Forall2 (fun d a => d = false -> a = 0) dep (evalV (derivV (piter PA n Pv)) x).
  Proof.
    intros Hc n. pose proof (indep_invariant dep PA Pv Hc n) as H.
    rewrite <- dual_piter in H. rewrite <- evD_snd. revert H.
    generalize (map evD (piter PA n Pv)). intros y H. clear Hc.
    induction H as [|d a dep' y' Ha H IH]; simpl; constructor; auto.
  Qed.
End Model.

Arguments diff_row {R} _ _. Arguments model_ext {R} _ _. Arguments model_init {R} _.
Arguments dep_closed {R} _ _ _.

(* ------------------------------------------------------------------------------------ *)
(* Validators for one instance of Polar's output at one parameter value x. *)
Section Validators.
  Variable R : cring.
  Notation poly := (list R).

  Definition shape_ok (k : nat) (PA : list (list poly)) (Pv : list poly) : bool :=
    Nat.eqb (length PA) k && forallb (fun r => Nat.eqb (length r) k) PA && Nat.eqb (length Pv) k.

  Lemma shape_ok_sound k PA Pv : shape_ok k PA Pv = true -> wfM k PA /\ length Pv = k.
  Proof.
    unfold shape_ok. intros H.
    apply andb_true_iff in H. destruct H as [H H3].
    apply andb_true_iff in H. destruct H as [H1 H2].
    apply Nat.eqb_eq in H1. apply Nat.eqb_eq in H3. split; [split|]; auto.
    apply Forall_forall. intros r Hr. rewrite forallb_forall in H2.
    apply Nat.eqb_eq. apply H2. exact Hr.
  Qed.

  (* the statement both validators establish: Polar's closed forms F (with special cases sp)
     for the unknowns of ITS system are, at every n, the value (index < k) resp. the formal
     p-derivative (index k + j) of the polynomial vector A(p)^n v(p), at p = x *)
  Definition sens_spec (PA : list (list poly)) (Pv : list poly) (x : R) (iota : list nat)
             (F : list (epoly R)) (sp : list (list R)) : Prop :=
    forall n, pw_eval F sp n
              = gather iota (evalV (piter PA n Pv) x ++ evalV (derivV (piter PA n Pv)) x).

  (* (B) through the model of DiffRecBuilder: Polar's system is the model's system restricted
     to the unknowns Polar generated, and the classification is closed *)
  Definition check_sens_model (dep : list bool) PA Pv (x : R) (S : list (list R)) (s : list R)
             (iota : list nat) (F : list (epoly R)) (sp : list (list R)) : bool :=
    shape_ok (length dep) PA Pv && dep_closed dep PA Pv
    && check_sub (evalM (model_ext dep PA) x) (evalV (model_init Pv) x) S s iota
                 (map (fun _ => false) (model_init Pv))
    && check_solution S s F sp.

  Theorem check_sens_model_sound dep PA Pv x S s iota F sp :
    check_sens_model dep PA Pv x S s iota F sp = true -> sens_spec PA Pv x iota F sp.
  Proof.
    unfold check_sens_model. intros H.
    apply andb_true_iff in H; destruct H as [H Hsol].
    apply andb_true_iff in H; destruct H as [H Hsub].
    apply andb_true_iff in H; destruct H as [H Hc].
    apply shape_ok_sound in H. destruct H as [HA Hv].
    intros n. rewrite (check_solution_sound R _ _ _ _ Hsol n).
    destruct (check_sub_sound R _ _ _ _ _ _ Hsub n) as [E _]. rewrite E.
    rewrite (diffrec_model_correct R x dep PA Pv _ HA Hv Hc n). reflexivity.
  Qed.

  (* (A) directly against the extended system of [deriv_system], independent of the model;
     Z flags the unknowns (of the 2k) claimed to vanish identically *)
  Definition check_sens_direct (k : nat) PA Pv (x : R) (S : list (list R)) (s : list R)
             (iota : list nat) (Z : list bool) (F : list (epoly R)) (sp : list (list R)) : bool :=
    shape_ok k PA Pv
    && check_sub (block (evalM PA x) (evalM (derivM PA) x)) (evalV Pv x ++ evalV (derivV Pv) x)
                 S s iota Z
    && check_solution S s F sp.

  Theorem check_sens_direct_sound k PA Pv x S s iota Z F sp :
    check_sens_direct k PA Pv x S s iota Z F sp = true -> sens_spec PA Pv x iota F sp.
  Proof.
    unfold check_sens_direct. intros H.
    apply andb_true_iff in H; destruct H as [H Hsol].
    apply andb_true_iff in H; destruct H as [H Hsub].
    apply shape_ok_sound in H. destruct H as [HA Hv].
    intros n. rewrite (check_solution_sound R _ _ _ _ Hsol n).
    destruct (check_sub_sound R _ _ _ _ _ _ Hsub n) as [E _]. rewrite E.
    rewrite (deriv_system R PA Pv k HA Hv x n). reflexivity.
  Qed.

  (* differentiated closed forms (method "-sens_diff"): a full vector of closed forms for
     (M_j, d/dp M_j) validated against the extended system *)
  Definition check_diffcf (k : nat) PA Pv (x : R) (F : list (epoly R)) (sp : list (list R)) : bool :=
    shape_ok k PA Pv
    && check_solution (block (evalM PA x) (evalM (derivM PA) x)) (evalV Pv x ++ evalV (derivV Pv) x) F sp.

  Theorem check_diffcf_sound k PA Pv x F sp : check_diffcf k PA Pv x F sp = true ->
    forall n, pw_eval F sp n = evalV (piter PA n Pv) x ++ evalV (derivV (piter PA n Pv)) x.
  Proof.
    unfold check_diffcf. intros H. apply andb_true_iff in H. destruct H as [H Hsol].
    apply shape_ok_sound in H. destruct H as [HA Hv].
    intros n. rewrite (check_solution_sound R _ _ _ _ Hsol n).
    apply (deriv_system R PA Pv k HA Hv x n).
  Qed.

  (* [methods_agree]: wherever both methods are validated they agree at every n *)
  Theorem methods_agree k dep PA Pv x S s iota F sp F' sp' :
    check_sens_model dep PA Pv x S s iota F sp = true ->
    check_diffcf k PA Pv x F' sp' = true ->
    forall n, pw_eval F sp n = gather iota (pw_eval F' sp' n).
  Proof.
    intros H H' n. rewrite (check_sens_model_sound _ _ _ _ _ _ _ _ _ H n).
    rewrite (check_diffcf_sound _ _ _ _ _ _ H' n). reflexivity.
  Qed.
End Validators.

Arguments check_sens_model {R} _ _ _ _ _ _ _ _ _. Arguments check_sens_direct {R} _ _ _ _ _ _ _ _ _ _.
Arguments check_diffcf {R} _ _ _ _ _ _. Arguments sens_spec {R} _ _ _ _ _ _.
