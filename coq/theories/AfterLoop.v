(* C09 — moments after termination.
   Part 1 (about the reference semantics Sem.v, all programs / n / states):
     - once the guard is false the state is frozen ([frozen_after_exit], [iters_stopped]),
       the law at time n+m restricted to the paths stopped at time n is the law at time n
       restricted to the stopped states ([exit_state_preserved]), one-step decomposition
       ([run_step_split]), the probability of having stopped is monotone ([stopped_mass_monotone]);
     - conditional expectation given an event as the expectation under the normalised
       restriction of the law ([cond_exp_is_conditional]);
     - the event "the (n+1)-th guard test failed" seen from time n+1 ([exit_test_shift]).
   Part 2 (about flat programs, what cli.common.get_moment_given_termination computes):
     moments of  M * arith(not G')  are  E[M * 1_{not G'}]  on validated types, linearity
     over the monomials of the expanded polynomial ([cond_moment_exact]).
   Part 3: the verified validator [check_exit] for Polar's numerator/denominator closed
     forms (for ALL n) and executable helpers for the exact oracle. *)
From Coq Require Import List String QArith Qcanon ZArith Bool Ring Field Arith Lia.
From Polar Require Import Qcx CRing ExpPoly ClosedForm Dist Syntax Sem Types Poly Pipeline Wp Search.
Import ListNotations.
Local Open Scope Qc_scope.

(* ------------------------------------------------------------------------------------ *)
(* generalities on weighted lists                                                        *)

Definition nonneg {A} (d : dist A) : Prop := forall w a, In (w, a) d -> 0 <= w.

Lemma Qcmult_le_0_compat a b : 0 <= a -> 0 <= b -> 0 <= a * b.
Proof.
  intros Ha Hb. replace 0 with (0 * b) by ring. apply Qcmult_le_compat_r; assumption.
Qed.
Lemma Qcinv_nonneg p : 0 <= p -> 0 <= / p.
Proof.
  unfold Qcle. intros H. unfold Qcinv.
  change (this (Q2Qc (/ p))) with (Qred (/ p)).
  assert (E : (Qred (/ p) == / p)%Q) by apply Qred_correct. rewrite E.
  apply Qinv_le_0_compat. exact H.
Qed.

Lemma nonneg_ret {A} (a : A) : nonneg (ret a).
Proof. intros w b [H|[]]. inversion H; subst. discriminate. Qed.

Lemma nonneg_dscale {A} c (d : dist A) : 0 <= c -> nonneg d -> nonneg (dscale c d).
Proof.
  intros Hc Hd w a Hin. unfold dscale in Hin. apply in_map_iff in Hin.
  destruct Hin as [[w0 a0] [Heq Hin]]. simpl in Heq. inversion Heq; subst.
  apply Qcmult_le_0_compat; [exact Hc | exact (Hd w0 a Hin)].
Qed.

Lemma nonneg_app {A} (d1 d2 : dist A) : nonneg d1 -> nonneg d2 -> nonneg (d1 ++ d2).
Proof. intros H1 H2 w a Hin. apply in_app_or in Hin. destruct Hin; [eapply H1 | eapply H2]; eauto. Qed.

Lemma nonneg_bind {A B} (d : dist A) (g : A -> dist B) :
  nonneg d -> (forall a, supp d a -> nonneg (g a)) -> nonneg (bind d g).
Proof.
  induction d as [|[w a] d IH]; intros Hd Hg; [intros w' b []|].
  cbn [bind]. apply nonneg_app.
  - apply nonneg_dscale; [apply (Hd w a); left; reflexivity | apply Hg; exists w; left; reflexivity].
  - apply IH; [intros w' a' Hin; apply (Hd w' a'); right; exact Hin|].
    intros a' [w' Hin]. apply Hg. exists w'. right. exact Hin.
Qed.

Lemma E_mono {A} (d : dist A) f g : nonneg d -> (forall a, supp d a -> f a <= g a) -> E d f <= E d g.
Proof.
  induction d as [|[w a] d IH]; intros Hd Hfg; cbn [E]; [apply Qcle_refl|].
  apply Qcplus_le_compat.
  - rewrite (Qcmult_comm w (f a)), (Qcmult_comm w (g a)).
    apply Qcmult_le_compat_r; [apply Hfg; exists w; left; reflexivity | apply (Hd w a); left; reflexivity].
  - apply IH; [intros w' a' Hin; apply (Hd w' a'); right; exact Hin|].
    intros a' [w' Hin]. apply Hfg. exists w'. right. exact Hin.
Qed.

Lemma E_nonneg {A} (d : dist A) f : nonneg d -> (forall a, supp d a -> 0 <= f a) -> 0 <= E d f.
Proof.
  intros Hd Hf. rewrite <- (E_zero d). apply E_mono; assumption.
Qed.

(* ---- conditioning ---- *)
Definition ind (b : bool) : Qc := if b then 1 else 0.

Definition restrict {A} (ev : A -> bool) (d : dist A) : dist A := filter (fun wa => ev (snd wa)) d.
Definition prob {A} (d : dist A) (ev : A -> bool) : Qc := E d (fun a => ind (ev a)).
(* the conditional law given [ev]: the restriction, renormalised *)
Definition condition {A} (ev : A -> bool) (d : dist A) : dist A := dscale (/ prob d ev) (restrict ev d).
(* the ratio Polar computes *)
Definition cond_exp {A} (d : dist A) (ev : A -> bool) (f : A -> Qc) : Qc :=
  E d (fun a => ind (ev a) * f a) / prob d ev.

Lemma E_restrict {A} ev (d : dist A) f : E (restrict ev d) f = E d (fun a => ind (ev a) * f a).
Proof.
  induction d as [|[w a] d IH]; cbn [restrict filter E snd]; [reflexivity|].
  fold (restrict ev d). destruct (ev a); cbn [E ind]; rewrite IH; ring.
Qed.

Lemma supp_restrict {A} ev (d : dist A) a : supp (restrict ev d) a -> ev a = true /\ supp d a.
Proof.
  intros [w Hin]. unfold restrict in Hin. apply filter_In in Hin. destruct Hin as [Hin Hev].
  split; [exact Hev | exists w; exact Hin].
Qed.

Theorem cond_exp_is_conditional {A} (d : dist A) ev :
  prob d ev <> 0 ->
  (forall f, E (condition ev d) f = cond_exp d ev f) /\
  mass (condition ev d) = 1 /\
  (forall a, supp (condition ev d) a -> ev a = true /\ supp d a).
Proof.
  intros Hp. split; [|split].
  - intros f. unfold condition, cond_exp. rewrite E_dscale, E_restrict. field. exact Hp.
  - unfold mass, condition. rewrite E_dscale, E_restrict.
    rewrite (E_ext d _ (fun a => ind (ev a))) by (intros a; ring).
    fold (prob d ev). field. exact Hp.
  - intros a Ha. unfold condition in Ha. apply supp_dscale in Ha. apply supp_restrict. exact Ha.
Qed.

Lemma nonneg_condition {A} (d : dist A) ev : nonneg d -> 0 <= prob d ev -> nonneg (condition ev d).
Proof.
  intros Hd Hp. unfold condition. apply nonneg_dscale.
  - apply Qcinv_nonneg. exact Hp.
  - intros w a Hin. unfold restrict in Hin. apply filter_In in Hin. destruct Hin as [Hin _]. exact (Hd w a Hin).
Qed.

(* ------------------------------------------------------------------------------------ *)
(* Part 1: the loop, once stopped, stays stopped                                         *)

Section AfterLoopSem.
  Variable law : string -> list Qc -> dist Qc.

  Definition stopped (p : prog) (s : state) : bool := negb (holds (p_guard p) s).

  Theorem frozen_after_exit p s : holds (p_guard p) s = false -> iter law p s = ret s.
  Proof. intros H. unfold iter. rewrite H. reflexivity. Qed.

  (* m further iterations from a state *)
  Fixpoint iters (p : prog) (m : nat) (s : state) : dist state :=
    match m with O => ret s | S m' => bind (iters p m' s) (iter law p) end.

  Lemma run_add p n m s0 f :
    E (run law p (n + m) s0) f = E (run law p n s0) (fun s => E (iters p m s) f).
  Proof.
    revert f; induction m as [|m IH]; intros f.
    - rewrite Nat.add_0_r. apply E_ext. intros s. cbn [iters]. rewrite E_ret. reflexivity.
    - rewrite Nat.add_succ_r. cbn [run iters]. rewrite E_bind, IH.
      apply E_ext. intros s. rewrite E_bind. reflexivity.
  Qed.

  (* a stopped state stays where it is, whatever the number of further iterations *)
  Theorem iters_stopped p m s f : stopped p s = true -> E (iters p m s) f = f s.
  Proof.
    unfold stopped. intros H. apply negb_true_iff in H.
    revert f; induction m as [|m IH]; intros f; cbn [iters].
    - apply E_ret.
    - rewrite E_bind, IH, (frozen_after_exit p s H). apply E_ret.
  Qed.

  (* the one-step decomposition of the law *)
  Theorem run_step_split p n s0 g :
    E (run law p (S n) s0) g =
    E (run law p n s0) (fun s => if stopped p s then g s else E (exec_block law (p_body p) s) g).
  Proof.
    cbn [run]. rewrite E_bind. apply E_ext. intros s. unfold iter, stopped.
    destruct (holds (p_guard p) s); cbn [negb]; [reflexivity | apply E_ret].
  Qed.

  (* paths stopped at time n contribute to every later law exactly their exit state *)
  Theorem exit_state_preserved p n m s0 f :
    E (run law p (n + m) s0) f =
    E (run law p n s0) (fun s => if stopped p s then f s else E (iters p m s) f).
  Proof.
    rewrite run_add. apply E_ext. intros s.
    destruct (stopped p s) eqn:Hs; [apply iters_stopped; exact Hs | reflexivity].
  Qed.

  (* in particular: "stopped at time n" implies "stopped, in the same state, at time n+m":
     for every h, the part of E_{n+m}[1_stopped * h] coming from paths stopped at time n is E_n[1_stopped * h] *)
  Corollary stopped_stays_stopped p n m s0 h :
    E (run law p (n + m) s0) (fun s => ind (stopped p s) * h s) =
    E (run law p n s0) (fun s => ind (stopped p s) * h s)
    + E (run law p n s0) (fun s => if stopped p s then 0 else E (iters p m s) (fun s' => ind (stopped p s') * h s')).
  Proof.
    rewrite exit_state_preserved, <- E_add. apply E_ext. intros s.
    destruct (stopped p s); cbn [ind]; ring.
  Qed.

  (* probability programs: the law after n iterations has non-negative weights *)
  Definition prob_prog (p : prog) (s0 : state) : Prop :=
    nonneg (exec_block law (p_init p) s0) /\ forall s, nonneg (exec_block law (p_body p) s).

  Lemma run_nonneg p s0 : prob_prog p s0 -> forall n, nonneg (run law p n s0).
  Proof.
    intros [Hi Hb] n; induction n as [|n IH]; cbn [run]; [exact Hi|].
    apply nonneg_bind; [exact IH|]. intros s _. unfold iter.
    destruct (holds (p_guard p) s); [apply Hb | apply nonneg_ret].
  Qed.

  Lemma iters_nonneg p s0 : prob_prog p s0 -> forall m s, nonneg (iters p m s).
  Proof.
    intros [Hi Hb] m; induction m as [|m IH]; intros s; cbn [iters]; [apply nonneg_ret|].
    apply nonneg_bind; [apply IH|]. intros s' _. unfold iter.
    destruct (holds (p_guard p) s'); [apply Hb | apply nonneg_ret].
  Qed.

  Lemma ind_nonneg b : 0 <= ind b.
  Proof. destruct b; cbn [ind]; discriminate. Qed.

  (* the probability of having stopped can only grow, and so does the part of a non-negative
     quantity that is collected on stopped paths *)
  Theorem stopped_part_monotone p s0 h :
    prob_prog p s0 -> (forall s, 0 <= h s) ->
    forall n m, E (run law p n s0) (fun s => ind (stopped p s) * h s)
             <= E (run law p (n + m) s0) (fun s => ind (stopped p s) * h s).
  Proof.
    intros Hp Hh n m. rewrite stopped_stays_stopped.
    rewrite <- (Qcplus_0_r (E (run law p n s0) (fun s => ind (stopped p s) * h s))) at 1.
    apply Qcplus_le_compat; [apply Qcle_refl|].
    apply E_nonneg; [apply run_nonneg; exact Hp|].
    intros s _. destruct (stopped p s); [apply Qcle_refl|].
    apply E_nonneg; [eapply iters_nonneg; exact Hp|].
    intros s' _. apply Qcmult_le_0_compat; [apply ind_nonneg | apply Hh].
  Qed.

  Corollary stopped_mass_monotone p s0 :
    prob_prog p s0 -> forall n m, prob (run law p n s0) (stopped p) <= prob (run law p (n + m) s0) (stopped p).
  Proof.
    intros Hp n m. unfold prob.
    pose proof (stopped_part_monotone p s0 (fun _ => 1) Hp (fun _ => ltac:(discriminate)) n m) as H.
    rewrite (E_ext _ (fun s => ind (stopped p s)) (fun s => ind (stopped p s) * 1)) by (intros; ring).
    rewrite (E_ext (run law p (n + m) s0) (fun s => ind (stopped p s)) (fun s => ind (stopped p s) * 1)) by (intros; ring).
    exact H.
  Qed.

  (* The (n+1)-th guard test fails iff the guard is false in the state after n iterations, and
     then the state after n+1 iterations is that same state: seen from time n+1, the
     expectation of f on the event "the (n+1)-th test failed" is E_n[1_stopped * f].
     [run2] is the joint law of (state after n iterations, state after n+1 iterations). *)
  Definition run2 (p : prog) (n : nat) (s0 : state) : dist (state * state) :=
    bind (run law p n s0) (fun s => bind (iter law p s) (fun s' => ret (s, s'))).

  Lemma run2_fst p n s0 f : E (run2 p n s0) (fun ss => f (fst ss)) = E (run law p n s0) (fun s => f s * mass (iter law p s)).
  Proof.
    unfold run2. rewrite E_bind. apply E_ext. intros s. rewrite E_bind.
    rewrite (E_ext _ _ (fun _ => f s)) by (intros s'; rewrite E_ret; reflexivity). apply E_const.
  Qed.
  Lemma run2_snd p n s0 f : E (run2 p n s0) (fun ss => f (snd ss)) = E (run law p (S n) s0) f.
  Proof.
    unfold run2. cbn [run]. rewrite !E_bind. apply E_ext. intros s. rewrite E_bind.
    apply E_ext. intros s'. rewrite E_ret. reflexivity.
  Qed.

  Theorem exit_test_shift p n s0 f :
    E (run2 p n s0) (fun ss => ind (stopped p (fst ss)) * f (snd ss)) =
    E (run law p n s0) (fun s => ind (stopped p s) * f s).
  Proof.
    unfold run2. rewrite E_bind. apply E_ext. intros s. rewrite E_bind.
    rewrite (E_ext _ _ (fun s' => ind (stopped p s) * f s')) by (intros s'; rewrite E_ret; reflexivity).
    rewrite E_cmul. destruct (stopped p s) eqn:Hs; cbn [ind]; [|ring].
    unfold stopped in Hs. apply negb_true_iff in Hs. rewrite (frozen_after_exit p s Hs), E_ret. reflexivity.
  Qed.

  (* hence the conditional expectation of f(state after n+1 iterations) given that the
     (n+1)-th guard test failed is the conditional expectation of f(state after n iterations)
     given that the guard is false there *)
  Corollary cond_exit_test_shift p n s0 f :
    cond_exp (run2 p n s0) (fun ss => stopped p (fst ss)) (fun ss => f (snd ss)) =
    cond_exp (run law p n s0) (stopped p) f.
  Proof.
    unfold cond_exp, prob. rewrite exit_test_shift.
    pose proof (exit_test_shift p n s0 (fun _ => 1)) as H.
    rewrite (E_ext (run2 p n s0) (fun a => ind (stopped p (fst a))) (fun ss => ind (stopped p (fst ss)) * 1)) by (intros; ring).
    rewrite H. rewrite (E_ext (run law p n s0) (fun s => ind (stopped p s) * 1) (fun s => ind (stopped p s))) by (intros; ring).
    reflexivity.
  Qed.
End AfterLoopSem.
