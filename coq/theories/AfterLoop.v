(* C09 — moments after termination.
   Part 1 (about the reference semantics Sem.v, all programs / n / states):
     - once the guard is false the state is frozen ([frozen_after_exit], [iters_stopped]),
       the law at time n+m restricted to the paths stopped at time n is the law at time n
       restricted to the stopped states ([exit_state_preserved]), one-step decomposition
       ([run_step_split]), the probability of having stopped is monotone ([stopped_mass_monotone]);
     - conditional expectation given an event as the expectation under the normalised
       restriction of the law ([cond_exp_is_conditional]);
     - the event "the (n+1)-th guard test failed" seen from time n+1 ([exit_test_shift]).
   Part 2 (about flat programs, what cli.common.get_moment_given_termination computes):
     moments of  M * arith(not G')  are  E[M * 1_{not G'}]  on validated types, linearity
     over the monomials of the expanded polynomial ([cond_moment_exact]).
   Part 3: the verified validator [check_exit] for Polar's numerator/denominator closed
     forms (for ALL n) and executable helpers for the exact oracle. *)
From Coq Require Import List String QArith Qcanon ZArith Bool Ring Field Arith Lia.
From Polar Require Import Qcx CRing ExpPoly ClosedForm Dist Syntax Sem Types Poly Pipeline Wp Search.
Import ListNotations.
Local Open Scope Qc_scope.

(* ------------------------------------------------------------------------------------ *)
(* generalities on weighted lists                                                        *)

Definition nonneg {A} (d : dist A) : Prop := forall w a, In (w, a) d -> 0 <= w.

Lemma Qcmult_le_0_compat a b : 0 <= a -> 0 <= b -> 0 <= a * b.
Proof.
  intros Ha Hb. replace 0 with (0 * b) by ring. apply Qcmult_le_compat_r; assumption.
Qed.
Lemma Qcinv_nonneg p : 0 <= p -> 0 <= / p.
Proof.
  unfold Qcle. intros H. unfold Qcinv.
  change (this (Q2Qc (/ p))) with (Qred (/ p)).
  assert (E : (Qred (/ p) == / p)%Q) by apply Qred_correct. rewrite E.
  apply Qinv_le_0_compat. exact H.
Qed.

Lemma nonneg_ret {A} (a : A) : nonneg (ret a).
Proof. intros w b [H|[]]. inversion H; subst. discriminate. Qed.

Lemma nonneg_dscale {A} c (d : dist A) : 0 <= c -> nonneg d -> nonneg (dscale c d).
Proof.
  intros Hc Hd w a Hin. unfold dscale in Hin. apply in_map_iff in Hin.
  destruct Hin as [[w0 a0] [Heq Hin]]. simpl in Heq. inversion Heq; subst.
  apply Qcmult_le_0_compat; [exact Hc | exact (Hd w0 a Hin)].
Qed.

Lemma nonneg_app {A} (d1 d2 : dist A) : nonneg d1 -> nonneg d2 -> nonneg (d1 ++ d2).
Proof. intros H1 H2 w a Hin. apply in_app_or in Hin. destruct Hin; [eapply H1 | eapply H2]; eauto. Qed.

Lemma nonneg_bind {A B} (d : dist A) (g : A -> dist B) :
  nonneg d -> (forall a, supp d a -> nonneg (g a)) -> nonneg (bind d g).
Proof.
  induction d as [|[w a] d IH]; intros Hd Hg; [intros w' b []|].
  cbn [bind]. apply nonneg_app.
  - apply nonneg_dscale; [apply (Hd w a); left; reflexivity | apply Hg; exists w; left; reflexivity].
  - apply IH; [intros w' a' Hin; apply (Hd w' a'); right; exact Hin|].
    intros a' [w' Hin]. apply Hg. exists w'. right. exact Hin.
Qed.

Lemma E_mono {A} (d : dist A) f g : nonneg d -> (forall a, supp d a -> f a <= g a) -> E d f <= E d g.
Proof.
  induction d as [|[w a] d IH]; intros Hd Hfg; cbn [E]; [apply Qcle_refl|].
  apply Qcplus_le_compat.
  - rewrite (Qcmult_comm w (f a)), (Qcmult_comm w (g a)).
    apply Qcmult_le_compat_r; [apply Hfg; exists w; left; reflexivity | apply (Hd w a); left; reflexivity].
  - apply IH; [intros w' a' Hin; apply (Hd w' a'); right; exact Hin|].
    intros a' [w' Hin]. apply Hfg. exists w'. right. exact Hin.
Qed.

Lemma E_nonneg {A} (d : dist A) f : nonneg d -> (forall a, supp d a -> 0 <= f a) -> 0 <= E d f.
Proof.
  intros Hd Hf. rewrite <- (E_zero d). apply E_mono; assumption.
Qed.

(* ---- conditioning ([ind] is Wp.ind : bool -> Qc) ---- *)

Definition restrict {A} (ev : A -> bool) (d : dist A) : dist A := filter (fun wa => ev (snd wa)) d.
Definition prob {A} (d : dist A) (ev : A -> bool) : Qc := E d (fun a => ind (ev a)).
(* the conditional law given [ev]: the restriction, renormalised *)
Definition condition {A} (ev : A -> bool) (d : dist A) : dist A := dscale (/ prob d ev) (restrict ev d).
(* the ratio Polar computes *)
Definition cond_exp {A} (d : dist A) (ev : A -> bool) (f : A -> Qc) : Qc :=
  E d (fun a => ind (ev a) * f a) / prob d ev.

Lemma E_restrict {A} ev (d : dist A) f : E (restrict ev d) f = E d (fun a => ind (ev a) * f a).
Proof.
  induction d as [|[w a] d IH]; cbn [restrict filter E snd]; [reflexivity|].
  fold (restrict ev d). destruct (ev a); cbn [E ind]; rewrite IH; ring.
Qed.

Lemma supp_restrict {A} ev (d : dist A) a : supp (restrict ev d) a -> ev a = true /\ supp d a.
Proof.
  intros [w Hin]. unfold restrict in Hin. apply filter_In in Hin. destruct Hin as [Hin Hev].
  split; [exact Hev | exists w; exact Hin].
Qed.

Theorem cond_exp_is_conditional {A} (d : dist A) ev :
  prob d ev <> 0 ->
  (forall f, E (condition ev d) f = cond_exp d ev f) /\
  mass (condition ev d) = 1 /\
  (forall a, supp (condition ev d) a -> ev a = true /\ supp d a).
Proof.
  intros Hp. split; [|split].
  - intros f. unfold condition, cond_exp. rewrite E_dscale, E_restrict. field. exact Hp.
  - unfold mass, condition. rewrite E_dscale, E_restrict.
    rewrite (E_ext d _ (fun a => ind (ev a))) by (intros a; ring).
    fold (prob d ev). field. exact Hp.
  - intros a Ha. unfold condition in Ha. apply supp_dscale in Ha. apply supp_restrict. exact Ha.
Qed.

Lemma nonneg_condition {A} (d : dist A) ev : nonneg d -> 0 <= prob d ev -> nonneg (condition ev d).
Proof.
  intros Hd Hp. unfold condition. apply nonneg_dscale.
  - apply Qcinv_nonneg. exact Hp.
  - intros w a Hin. unfold restrict in Hin. apply filter_In in Hin. destruct Hin as [Hin _]. exact (Hd w a Hin).
Qed.

(* ------------------------------------------------------------------------------------ *)
(* Part 1: the loop, once stopped, stays stopped                                         *)

Section AfterLoopSem.
  Variable law : string -> list Qc -> dist Qc.

  Definition stopped (p : prog) (s : state) : bool := negb (holds (p_guard p) s).

  Theorem frozen_after_exit p s : holds (p_guard p) s = false -> iter law p s = ret s.
  Proof. intros H. unfold iter. rewrite H. reflexivity. Qed.

  (* m further iterations from a state *)
  Fixpoint iters (p : prog) (m : nat) (s : state) : dist state :=
    match m with O => ret s | S m' => bind (iters p m' s) (iter law p) end.

  Lemma run_add p n m s0 f :
    E (run law p (n + m) s0) f = E (run law p n s0) (fun s => E (iters p m s) f).
  Proof.
    revert f; induction m as [|m IH]; intros f.
    - rewrite Nat.add_0_r. apply E_ext. intros s. cbn [iters]. rewrite E_ret. reflexivity.
    - rewrite Nat.add_succ_r. cbn [run iters]. rewrite E_bind, IH.
      apply E_ext. intros s. rewrite E_bind. reflexivity.
  Qed.

  (* a stopped state stays where it is, whatever the number of further iterations *)
  Theorem iters_stopped p m s f : stopped p s = true -> E (iters p m s) f = f s.
  Proof.
    unfold stopped. intros H. apply negb_true_iff in H.
    revert f; induction m as [|m IH]; intros f; cbn [iters].
    - apply E_ret.
    - rewrite E_bind, IH, (frozen_after_exit p s H). apply E_ret.
  Qed.

  (* the one-step decomposition of the law *)
  Theorem run_step_split p n s0 g :
    E (run law p (S n) s0) g =
    E (run law p n s0) (fun s => if stopped p s then g s else E (exec_block law (p_body p) s) g).
  Proof.
    cbn [run]. rewrite E_bind. apply E_ext. intros s. unfold iter, stopped.
    destruct (holds (p_guard p) s); cbn [negb]; [reflexivity | apply E_ret].
  Qed.

  (* paths stopped at time n contribute to every later law exactly their exit state *)
  Theorem exit_state_preserved p n m s0 f :
    E (run law p (n + m) s0) f =
    E (run law p n s0) (fun s => if stopped p s then f s else E (iters p m s) f).
  Proof.
    rewrite run_add. apply E_ext. intros s.
    destruct (stopped p s) eqn:Hs; [apply iters_stopped; exact Hs | reflexivity].
  Qed.

  (* in particular: "stopped at time n" implies "stopped, in the same state, at time n+m":
     for every h, the part of E_{n+m}[1_stopped * h] coming from paths stopped at time n is E_n[1_stopped * h] *)
  Corollary stopped_stays_stopped p n m s0 h :
    E (run law p (n + m) s0) (fun s => ind (stopped p s) * h s) =
    E (run law p n s0) (fun s => ind (stopped p s) * h s)
    + E (run law p n s0) (fun s => if stopped p s then 0 else E (iters p m s) (fun s' => ind (stopped p s') * h s')).
  Proof.
    rewrite exit_state_preserved, <- E_add. apply E_ext. intros s.
    destruct (stopped p s); cbn [ind]; ring.
  Qed.

  (* probability programs: the law after n iterations has non-negative weights *)
  Definition prob_prog (p : prog) (s0 : state) : Prop :=
    nonneg (exec_block law (p_init p) s0) /\ forall s, nonneg (exec_block law (p_body p) s).

  Lemma run_nonneg p s0 : prob_prog p s0 -> forall n, nonneg (run law p n s0).
  Proof.
    intros [Hi Hb] n; induction n as [|n IH]; cbn [run]; [exact Hi|].
    apply nonneg_bind; [exact IH|]. intros s _. unfold iter.
    destruct (holds (p_guard p) s); [apply Hb | apply nonneg_ret].
  Qed.

  Lemma iters_nonneg p s0 : prob_prog p s0 -> forall m s, nonneg (iters p m s).
  Proof.
    intros [Hi Hb] m; induction m as [|m IH]; intros s; cbn [iters]; [apply nonneg_ret|].
    apply nonneg_bind; [apply IH|]. intros s' _. unfold iter.
    destruct (holds (p_guard p) s'); [apply Hb | apply nonneg_ret].
  Qed.

  Lemma ind_nonneg b : 0 <= ind b.
  Proof. destruct b; cbn [ind]; discriminate. Qed.

  (* the probability of having stopped can only grow, and so does the part of a non-negative
     quantity that is collected on stopped paths *)
  Theorem stopped_part_monotone p s0 h :
    prob_prog p s0 -> (forall s, 0 <= h s) ->
    forall n m, E (run law p n s0) (fun s => ind (stopped p s) * h s)
             <= E (run law p (n + m) s0) (fun s => ind (stopped p s) * h s).
  Proof.
    intros Hp Hh n m. rewrite stopped_stays_stopped.
    rewrite <- (Qcplus_0_r (E (run law p n s0) (fun s => ind (stopped p s) * h s))) at 1.
    apply Qcplus_le_compat; [apply Qcle_refl|].
    apply E_nonneg; [apply run_nonneg; exact Hp|].
    intros s _. destruct (stopped p s); [apply Qcle_refl|].
    apply E_nonneg; [eapply iters_nonneg; exact Hp|].
    intros s' _. apply Qcmult_le_0_compat; [apply ind_nonneg | apply Hh].
  Qed.

  Corollary stopped_mass_monotone p s0 :
    prob_prog p s0 -> forall n m, prob (run law p n s0) (stopped p) <= prob (run law p (n + m) s0) (stopped p).
  Proof.
    intros Hp n m. unfold prob.
    pose proof (stopped_part_monotone p s0 (fun _ => 1) Hp (fun _ => ltac:(discriminate)) n m) as H.
    rewrite (E_ext _ (fun s => ind (stopped p s)) (fun s => ind (stopped p s) * 1)) by (intros; ring).
    rewrite (E_ext (run law p (n + m) s0) (fun s => ind (stopped p s)) (fun s => ind (stopped p s) * 1)) by (intros; ring).
    exact H.
  Qed.

  (* The (n+1)-th guard test fails iff the guard is false in the state after n iterations, and
     then the state after n+1 iterations is that same state: seen from time n+1, the
     expectation of f on the event "the (n+1)-th test failed" is E_n[1_stopped * f].
     [run2] is the joint law of (state after n iterations, state after n+1 iterations). *)
  Definition run2 (p : prog) (n : nat) (s0 : state) : dist (state * state) :=
    bind (run law p n s0) (fun s => bind (iter law p s) (fun s' => ret (s, s'))).

  Lemma run2_fst p n s0 f : E (run2 p n s0) (fun ss => f (fst ss)) = E (run law p n s0) (fun s => f s * mass (iter law p s)).
  Proof.
    unfold run2. rewrite E_bind. apply E_ext. intros s. rewrite E_bind.
    rewrite (E_ext _ _ (fun _ => f s)) by (intros s'; rewrite E_ret; reflexivity). apply E_const.
  Qed.
  Lemma run2_snd p n s0 f : E (run2 p n s0) (fun ss => f (snd ss)) = E (run law p (S n) s0) f.
  Proof.
    unfold run2. cbn [run]. rewrite !E_bind. apply E_ext. intros s. rewrite E_bind.
    apply E_ext. intros s'. rewrite E_ret. reflexivity.
  Qed.

  Theorem exit_test_shift p n s0 f :
    E (run2 p n s0) (fun ss => ind (stopped p (fst ss)) * f (snd ss)) =
    E (run law p n s0) (fun s => ind (stopped p s) * f s).
  Proof.
    unfold run2. rewrite E_bind. apply E_ext. intros s. rewrite E_bind.
    rewrite (E_ext _ _ (fun s' => ind (stopped p s) * f s')) by (intros s'; rewrite E_ret; reflexivity).
    rewrite E_cmul. destruct (stopped p s) eqn:Hs; cbn [ind]; [|ring].
    unfold stopped in Hs. apply negb_true_iff in Hs. rewrite (frozen_after_exit p s Hs), E_ret. reflexivity.
  Qed.

  (* hence the conditional expectation of f(state after n+1 iterations) given that the
     (n+1)-th guard test failed is the conditional expectation of f(state after n iterations)
     given that the guard is false there *)
  Corollary cond_exit_test_shift p n s0 f :
    cond_exp (run2 p n s0) (fun ss => stopped p (fst ss)) (fun ss => f (snd ss)) =
    cond_exp (run law p n s0) (stopped p) f.
  Proof.
    unfold cond_exp, prob. rewrite exit_test_shift.
    pose proof (exit_test_shift p n s0 (fun _ => 1)) as H.
    rewrite (E_ext (run2 p n s0) (fun a => ind (stopped p (fst a))) (fun ss => ind (stopped p (fst ss)) * 1)) by (intros; ring).
    rewrite H. rewrite (E_ext (run law p n s0) (fun s => ind (stopped p s) * 1) (fun s => ind (stopped p s))) by (intros; ring).
    reflexivity.
  Qed.
End AfterLoopSem.

(* ------------------------------------------------------------------------------------ *)
(* Part 2: what get_moment_given_termination computes, on the flat program               *)

Section AfterLoopFlat.
  Variable law : string -> list Qc -> dist Qc.
  Variable cmom : string -> list Qc -> nat -> Qc.

  (* get_moment_poly: the moment of a polynomial is assembled from the moments of its monomials *)
  Definition moment_poly (d : dist state) (p : poly) : Qc :=
    fold_right (fun t acc => fst t * E d (eval_mono (snd t)) + acc) 0 p.

  Theorem moment_poly_linear d p : moment_poly d p = E d (eval_poly p).
  Proof.
    induction p as [|[c m] p IH]; cbn [moment_poly fold_right eval_poly fst snd].
    - symmetry. apply E_zero.
    - fold (moment_poly d p). rewrite IH, E_add, E_cmul. reflexivity.
  Qed.

  (* on validated types, the moments of  M * to_arithm(c)  are the moments of M on the event c *)
  Theorem indicator_moment_exact fp T c q M :
    check_types fp T = true -> forall s0, init_ok fp T s0 -> arith T c = Some q ->
    forall n, E (frun law fp n s0) (eval_poly (pmul M q)) =
              E (frun law fp n s0) (fun s => ind (holds c s) * eval_poly M s).
  Proof.
    intros HT s0 H0 Hq n. apply E_ext_in. intros w s Hin.
    rewrite eval_pmul, (arith_sound T s c q); [ring | | exact Hq].
    eapply check_types_sound; eauto. exists w; exact Hin.
  Qed.

  (* C09, finite n: the ratio of the two solved moment polynomials is the conditional
     expectation of M given that the stored guard G' is false in the state after n iterations *)
  Theorem cond_moment_exact fp T G' q M :
    check_types fp T = true -> forall s0, init_ok fp T s0 -> arith T (CNot G') = Some q ->
    forall n, let d := frun law fp n s0 in
      moment_poly d (pmul M q) / moment_poly d q =
      cond_exp d (fun s => negb (holds G' s)) (eval_poly M).
  Proof.
    intros HT s0 H0 Hq n d. unfold cond_exp, prob. rewrite !moment_poly_linear. unfold d.
    rewrite (indicator_moment_exact fp T (CNot G') q M HT s0 H0 Hq n).
    assert (ED : E (frun law fp n s0) (eval_poly q) = E (frun law fp n s0) (fun s => ind (negb (holds G' s)))).
    { apply E_ext_in. intros w s Hin.
      rewrite (arith_sound T s (CNot G') q); [reflexivity | | exact Hq].
      eapply check_types_sound; eauto. exists w; exact Hin. }
    rewrite ED. reflexivity.
  Qed.

  (* ---- total mass one (the constant term of an indicator polynomial is kept as it is) ---- *)
  Definition fp_mass_one (fp : flatprog) : bool :=
    forallb (fun g => mass_oneb cmom (ga_rhs g)) (fp_init fp) && forallb (fun g => mass_oneb cmom (ga_rhs g)) (fp_body fp).

  Lemma exec_ga_mass g s : cmom_ok law cmom -> mass_oneb cmom (ga_rhs g) = true -> mass (exec_ga law g s) = 1.
  Proof.
    intros Hc Hm. unfold mass, exec_ga. destruct (holds (ga_cond g) s).
    - rewrite E_bind. rewrite (E_ext _ _ (fun _ => 1)) by (intros v; rewrite E_ret; reflexivity).
      apply (mass_oneb_sound law cmom _ s Hc Hm).
    - rewrite E_ret. reflexivity.
  Qed.

  Lemma exec_gas_mass l : cmom_ok law cmom -> forallb (fun g => mass_oneb cmom (ga_rhs g)) l = true ->
    forall s, mass (exec_gas law l s) = 1.
  Proof.
    intros Hc; induction l as [|g l IH]; cbn [forallb exec_gas]; intros H s; [unfold mass; rewrite E_ret; reflexivity|].
    apply andb_true_iff in H; destruct H as [Hg Hl]. unfold mass. rewrite E_bind.
    rewrite (E_ext _ _ (fun _ => 1)) by (intros s'; apply (IH Hl s')).
    apply (exec_ga_mass g s Hc Hg).
  Qed.

  Lemma frun_mass fp : cmom_ok law cmom -> fp_mass_one fp = true -> forall n s0, mass (frun law fp n s0) = 1.
  Proof.
    intros Hc H. unfold fp_mass_one in H. apply andb_true_iff in H; destruct H as [Hi Hb].
    intros n s0; induction n as [|n IH]; cbn [frun]; [apply exec_gas_mass; assumption|].
    unfold mass. rewrite E_bind. rewrite (E_ext _ _ (fun _ => 1)); [exact IH|].
    intros s. apply (exec_gas_mass (fp_body fp) Hc Hb s).
  Qed.

  (* ------------------------------------------------------------------------------------ *)
  (* Part 3: validator for Polar's numerator / denominator closed forms                    *)

  Record sysd := { s_ms : list mono; s_A : list (list Qc); s_v : list Qc;
                   s_F : list (epoly Qc_cring); s_sp : list (list Qc) }.
  (* a term of an expanded polynomial: coefficient, monomial, (index of the system that solved
     it, index of the monomial inside that system) *)
  Definition term : Type := ((Qc * mono) * (nat * nat))%type.

  Definition sys_ok (fp : flatprog) (T : tenv) (sd : sysd) : bool :=
    check_pipeline cmom fp T (s_ms sd) (s_A sd) (s_v sd) (s_F sd) (s_sp sd).

  Definition sys_seq (sd : sysd) (k n : nat) : Qc := nth k (pw_eval (R := Qc_cring) (s_F sd) (s_sp sd) n) 0.

  Definition term_seq (Ss : list sysd) (t : term) (n : nat) : Qc :=
    match nth_error Ss (fst (snd t)) with
    | Some sd => fst (fst t) * sys_seq sd (snd (snd t)) n
    | None => 0
    end.
  Fixpoint comb_seq (Ss : list sysd) (ts : list term) (n : nat) : Qc :=
    match ts with [] => 0 | t :: ts' => term_seq Ss t n + comb_seq Ss ts' n end.

  Definition term_ok (Ss : list sysd) (t : term) : bool :=
    match nth_error Ss (fst (snd t)) with
    | Some sd => match nth_error (s_ms sd) (snd (snd t)) with
                | Some m' => mono_eqb (mnorm (snd (fst t))) (mnorm m')
                | None => false
                end
    | None => false
    end.

  Definition terms_poly (c0 : Qc) (ts : list term) : poly := (c0, []) :: map fst ts.

  Lemma sys_seq_exact fp T sd s0 k m n :
    cmom_ok law cmom -> sys_ok fp T sd = true -> init_ok fp T s0 ->
    nth_error (s_ms sd) k = Some m ->
    sys_seq sd k n = E (frun law fp n s0) (eval_mono m).
  Proof.
    intros Hc HS H0 Hk. unfold sys_seq, sys_ok in *.
    rewrite (check_pipeline_sound law cmom fp T _ _ _ _ _ Hc HS s0 H0 n).
    unfold moments_vec.
    apply nth_error_nth. rewrite (map_nth_error _ _ _ Hk). reflexivity.
  Qed.

  Lemma comb_seq_exact fp T Ss ts s0 n :
    cmom_ok law cmom -> forallb (sys_ok fp T) Ss = true -> init_ok fp T s0 ->
    forallb (term_ok Ss) ts = true ->
    comb_seq Ss ts n = E (frun law fp n s0) (eval_poly (map fst ts)).
  Proof.
    intros Hc HSs H0. induction ts as [|[[c m] [j k]] ts IH]; cbn [forallb comb_seq map eval_poly fst snd]; intros Hts.
    - symmetry. apply E_zero.
    - apply andb_true_iff in Hts; destruct Hts as [Ht Hts].
      rewrite E_add, E_cmul, <- (IH Hts). f_equal.
      unfold term_ok, term_seq in *. cbn [fst snd] in *.
      destruct (nth_error Ss j) as [sd|] eqn:Ej; [|discriminate].
      destruct (nth_error (s_ms sd) k) as [m'|] eqn:Ek; [|discriminate].
      apply mono_eqb_eq in Ht.
      rewrite forallb_forall in HSs. pose proof (HSs sd (nth_error_In _ _ Ej)) as HS.
      rewrite (sys_seq_exact fp T sd s0 k m' n Hc HS H0 Ek). f_equal.
      apply E_ext. intros s. rewrite <- (eval_mnorm m s), <- (eval_mnorm m' s), Ht. reflexivity.
  Qed.

  Lemma terms_poly_exact fp T Ss c0 ts s0 n :
    cmom_ok law cmom -> fp_mass_one fp = true -> forallb (sys_ok fp T) Ss = true -> init_ok fp T s0 ->
    forallb (term_ok Ss) ts = true ->
    c0 + comb_seq Ss ts n = E (frun law fp n s0) (eval_poly (terms_poly c0 ts)).
  Proof.
    intros Hc Hm HSs H0 Hts. unfold terms_poly. cbn [eval_poly eval_mono].
    rewrite E_add, E_const, (frun_mass fp Hc Hm n s0), (comb_seq_exact fp T Ss ts s0 n Hc HSs H0 Hts). ring.
  Qed.

  (* one sequence with listed special values, as Polar's Piecewise((v0, n<=0), ..., (general, True)) *)
  Definition pw1 (f : epoly Qc_cring) (sp : list Qc) (n : nat) : Qc :=
    if n <? List.length sp then nth n sp 0 else eeval f n.

  Definition term_epoly (Ss : list sysd) (t : term) : epoly Qc_cring :=
    match nth_error Ss (fst (snd t)) with
    | Some sd => escale (R := Qc_cring) (fst (fst t)) (nth (snd (snd t)) (s_F sd) [])
    | None => []
    end.
  Fixpoint comb_epoly (Ss : list sysd) (ts : list term) : epoly Qc_cring :=
    match ts with [] => [] | t :: ts' => eadd (term_epoly Ss t) (comb_epoly Ss ts') end.

  Definition max_sp (Ss : list sysd) : nat := fold_right (fun sd acc => Nat.max (List.length (s_sp sd)) acc) O Ss.

  (* the claimed closed form (f, sp) is  c0 + sum of the terms' validated closed forms: equal as
     exponential polynomials, and equal value by value below the largest cut-off *)
  Definition check_comb (Ss : list sysd) (c0 : Qc) (ts : list term) (f : epoly Qc_cring) (sp : list Qc) : bool :=
    eeq (R := Qc_cring) f (eadd (econst (R := Qc_cring) c0) (comb_epoly Ss ts))
    && forallb (fun i => Qc_eqb (pw1 f sp i) (c0 + comb_seq Ss ts i)) (seq 0 (Nat.max (List.length sp) (max_sp Ss))).

  Lemma max_sp_ge Ss sd : In sd Ss -> (List.length (s_sp sd) <= max_sp Ss)%nat.
  Proof.
    induction Ss as [|sd' Ss IH]; intros Hin; [destruct Hin|]. cbn [max_sp fold_right]. fold (max_sp Ss).
    destruct Hin as [->|Hin]; [apply Nat.le_max_l | etransitivity; [apply IH; exact Hin | apply Nat.le_max_r]].
  Qed.

  Lemma comb_epoly_eval Ss ts n : (max_sp Ss <= n)%nat ->
    eeval (comb_epoly Ss ts) n = comb_seq Ss ts n.
  Proof.
    intros Hn. induction ts as [|[[c m] [j k]] ts IH]; cbn [comb_epoly comb_seq]; [reflexivity|].
    rewrite eeval_eadd, IH. unfold term_epoly, term_seq. cbn [fst snd].
    destruct (nth_error Ss j) as [sd|] eqn:Ej; [|reflexivity].
    rewrite eeval_escale. unfold sys_seq, pw_eval.
    pose proof (max_sp_ge Ss sd (nth_error_In _ _ Ej)) as Hle.
    match goal with |- context [Nat.ltb n ?L] =>
      assert (Hlt : Nat.ltb n L = false) by (apply Nat.ltb_ge; exact (Nat.le_trans _ _ _ Hle Hn)) end.
    rewrite Hlt. unfold evalF.
    pose proof (map_nth (fun f : epoly Qc_cring => eeval f n) (s_F sd) [] k) as Hmn.
    apply (f_equal (fun x => Qcplus (Qcmult c x) (comb_seq Ss ts n))). symmetry. exact Hmn.
  Qed.

  Lemma check_comb_sound Ss c0 ts f sp :
    check_comb Ss c0 ts f sp = true -> forall n, pw1 f sp n = c0 + comb_seq Ss ts n.
  Proof.
    unfold check_comb. intros H n. apply andb_true_iff in H; destruct H as [Heq Hsp].
    destruct (Nat.ltb n (Nat.max (List.length sp) (max_sp Ss))) eqn:En.
    - apply Nat.ltb_lt in En. rewrite forallb_forall in Hsp.
      apply Qc_eqb_true. apply Hsp. apply in_seq. lia.
    - apply Nat.ltb_ge in En.
      assert (Hlt : (n <? List.length sp) = false) by (apply Nat.ltb_ge; lia).
      unfold pw1. rewrite Hlt.
      rewrite (eeq_sound Qc_cring _ _ Heq n), eeval_eadd, eeval_econst, comb_epoly_eval by lia.
      reflexivity.
  Qed.

  Definition check_exit (fp : flatprog) (T : tenv) (G' : cond) (M : poly) (Ss : list sysd)
             (c0N : Qc) (tsN : list term) (fN : epoly Qc_cring) (spN : list Qc)
             (c0D : Qc) (tsD : list term) (fD : epoly Qc_cring) (spD : list Qc) : bool :=
    check_types fp T && fp_mass_one fp && forallb (sys_ok fp T) Ss
    && forallb (term_ok Ss) tsN && forallb (term_ok Ss) tsD
    && match arith T (CNot G') with
       | Some q => pequiv T (terms_poly c0D tsD) q && pequiv T (terms_poly c0N tsN) (pmul M q)
       | None => false
       end
    && check_comb Ss c0N tsN fN spN && check_comb Ss c0D tsD fD spD.

  (* acceptance: Polar's numerator and denominator closed forms are, at EVERY n, the expectation
     of M on the event "stored guard false" and the probability of that event, in the flat
     program; their ratio is the conditional expectation *)
  Theorem check_exit_sound fp T G' M Ss c0N tsN fN spN c0D tsD fD spD :
    cmom_ok law cmom ->
    check_exit fp T G' M Ss c0N tsN fN spN c0D tsD fD spD = true ->
    forall s0, init_ok fp T s0 -> forall n,
      let d := frun law fp n s0 in
      pw1 fN spN n = E d (fun s => ind (negb (holds G' s)) * eval_poly M s) /\
      pw1 fD spD n = prob d (fun s => negb (holds G' s)) /\
      pw1 fN spN n / pw1 fD spD n = cond_exp d (fun s => negb (holds G' s)) (eval_poly M).
  Proof.
    intros Hc H s0 H0 n d. unfold check_exit in H.
    apply andb_true_iff in H; destruct H as [H HcD].
    apply andb_true_iff in H; destruct H as [H HcN].
    apply andb_true_iff in H; destruct H as [H Har].
    apply andb_true_iff in H; destruct H as [H HtD].
    apply andb_true_iff in H; destruct H as [H HtN].
    apply andb_true_iff in H; destruct H as [H HSs].
    apply andb_true_iff in H; destruct H as [H Hm].
    destruct (arith T (CNot G')) as [q|] eqn:Eq; [|discriminate].
    apply andb_true_iff in Har; destruct Har as [HpD HpN].
    assert (Htyped : forall w s, In (w, s) d -> typed T s).
    { intros w s Hin. eapply check_types_sound; eauto. exists w; exact Hin. }
    assert (EN : pw1 fN spN n = E d (fun s => ind (negb (holds G' s)) * eval_poly M s)).
    { rewrite (check_comb_sound _ _ _ _ _ HcN n).
      rewrite (terms_poly_exact fp T Ss c0N tsN s0 n Hc Hm HSs H0 HtN). fold d.
      apply E_ext_in. intros w s Hin.
      rewrite (pequiv_sound T _ _ HpN s (Htyped w s Hin)), eval_pmul.
      rewrite (arith_sound T s (CNot G') q (Htyped w s Hin) Eq). cbn [holds]. ring. }
    assert (ED : pw1 fD spD n = prob d (fun s => negb (holds G' s))).
    { rewrite (check_comb_sound _ _ _ _ _ HcD n).
      rewrite (terms_poly_exact fp T Ss c0D tsD s0 n Hc Hm HSs H0 HtD). fold d. unfold prob.
      apply E_ext_in. intros w s Hin.
      rewrite (pequiv_sound T _ _ HpD s (Htyped w s Hin)).
      rewrite (arith_sound T s (CNot G') q (Htyped w s Hin) Eq). reflexivity. }
    split; [exact EN | split; [exact ED|]].
    unfold cond_exp. rewrite EN, ED. reflexivity.
  Qed.

  (* the same test in two pieces, so that the part common to all goals of a program (types,
     masses, systems) is evaluated once *)
  Definition check_base (fp : flatprog) (T : tenv) (Ss : list sysd) : bool :=
    check_types fp T && fp_mass_one fp && forallb (sys_ok fp T) Ss.
  Definition check_part (T : tenv) (G' : cond) (M : poly) (Ss : list sysd)
             (c0N : Qc) (tsN : list term) (fN : epoly Qc_cring) (spN : list Qc)
             (c0D : Qc) (tsD : list term) (fD : epoly Qc_cring) (spD : list Qc) : bool :=
    forallb (term_ok Ss) tsN && forallb (term_ok Ss) tsD
    && match arith T (CNot G') with
       | Some q => pequiv T (terms_poly c0D tsD) q && pequiv T (terms_poly c0N tsN) (pmul M q)
       | None => false
       end
    && check_comb Ss c0N tsN fN spN && check_comb Ss c0D tsD fD spD.

  Lemma check_exit_of_split fp T G' M Ss c0N tsN fN spN c0D tsD fD spD :
    check_base fp T Ss = true -> check_part T G' M Ss c0N tsN fN spN c0D tsD fD spD = true ->
    check_exit fp T G' M Ss c0N tsN fN spN c0D tsD fD spD = true.
  Proof.
    unfold check_base, check_part, check_exit. intros Hb Hp. rewrite Hb. cbn [andb]. exact Hp.
  Qed.

  Theorem check_exit_split_sound fp T G' M Ss c0N tsN fN spN c0D tsD fD spD :
    cmom_ok law cmom ->
    check_base fp T Ss = true -> check_part T G' M Ss c0N tsN fN spN c0D tsD fD spD = true ->
    forall s0, init_ok fp T s0 -> forall n,
      let d := frun law fp n s0 in
      pw1 fN spN n = E d (fun s => ind (negb (holds G' s)) * eval_poly M s) /\
      pw1 fD spD n = prob d (fun s => negb (holds G' s)) /\
      pw1 fN spN n / pw1 fD spD n = cond_exp d (fun s => negb (holds G' s)) (eval_poly M).
  Proof.
    intros Hc Hb Hp. apply (check_exit_sound fp T G' M Ss c0N tsN fN spN c0D tsD fD spD Hc).
    apply check_exit_of_split; assumption.
  Qed.
End AfterLoopFlat.

(* ------------------------------------------------------------------------------------ *)
(* executable oracle: exact  P(guard false after n iterations)  and  E[M ; guard false]  of a
   SOURCE program under Sem.run (compacted as in Search.run_c; the harness cross-checks the
   compacted computation against the plain one for small n) *)
Definition exit_row (p : prog) (ms : list mono) (d : dist state) : list (Z * positive) :=
  qpair (prob d (stopped p)) :: map (fun m => qpair (E d (fun s => ind (stopped p s) * eval_mono m s))) ms.
Fixpoint exit_moments_aux (vs : list var) (p : prog) (ms : list mono) (d : dist state) (N : nat)
  : list (list (Z * positive)) :=
  exit_row p ms d ::
  match N with O => [] | S N' => exit_moments_aux vs p ms (compact vs (bind d (iter no_law p))) N' end.
Definition exit_moments (vs : list var) (p : prog) (ms : list mono) (N : nat) : list (list (Z * positive)) :=
  exit_moments_aux vs p ms (compact vs (exec_block no_law (p_init p) st0)) N.
Definition exit_moments_plain (p : prog) (ms : list mono) (N : nat) : list (list (Z * positive)) :=
  map (fun n => exit_row p ms (run no_law p n st0)) (seq 0 (S N)).

(* ------------------------------------------------------------------------------------ *)
(* The guard Polar conditions on.  LoopGuardTransformer turns `while G: B` into
   `while true: if G & C: B' end` where C collects the conditions of first-level single-branch
   ifs of B (_collapse_first_level_ifs).
   Current rule (since /repo 294789f): the SOURCE guard G itself carries the flag
   is_original_loop_guard, and program.original_loop_guard is (the normalised form of) G.
   Old rule: the merged condition G & C was the one found by get_loop_guard. *)
Definition stored_guard (p : prog) : cond := p_guard p.

Theorem stored_guard_is_termination_event p s : negb (holds (stored_guard p) s) = stopped p s.
Proof. reflexivity. Qed.

Definition and_simpl (c1 c2 : cond) : cond :=
  match c1, c2 with
  | CTrue, _ => c2
  | _, CTrue => c1
  | _, _ => CAnd c1 c2
  end.
Fixpoint collapsed_cond (fuel : nat) (b : block) : cond :=
  match fuel with
  | O => CTrue
  | S fuel' =>
      match b with
      | BCons (SIf (BrCons c br BrNil) BNil) BNil => and_simpl (collapsed_cond fuel' br) c
      | _ => CTrue
      end
  end.
Definition stored_guard_old (fuel : nat) (p : prog) : cond := and_simpl (p_guard p) (collapsed_cond fuel (p_body p)).
Definition collapse_free (fuel : nat) (p : prog) : Prop := collapsed_cond fuel (p_body p) = CTrue.

Lemma holds_and_simpl c1 c2 s : holds (and_simpl c1 c2) s = holds c1 s && holds c2 s.
Proof. destruct c1, c2; simpl; try reflexivity; rewrite ?andb_true_r; reflexivity. Qed.

(* the old rule was right exactly for bodies without a collapsed first-level if ... *)
Theorem stored_guard_old_collapse_free fuel p s :
  collapse_free fuel p -> holds (stored_guard_old fuel p) s = holds (p_guard p) s.
Proof.
  unfold collapse_free, stored_guard_old. intros H. rewrite holds_and_simpl, H. cbn [holds]. apply andb_true_r.
Qed.

(* ... in general the old stored guard only implied the source guard: the event conditioned on
   CONTAINED the termination event and was strictly larger on the states G & not C *)
Theorem stored_guard_old_weaker fuel p s :
  stopped p s = true -> negb (holds (stored_guard_old fuel p) s) = true.
Proof.
  unfold stopped, stored_guard_old. rewrite holds_and_simpl. intros H. apply negb_true_iff in H. rewrite H. reflexivity.
Qed.

Local Open Scope string_scope.
(* the witness of DESIGN section 6 (#10):
     x = 0; c = Bernoulli(1/2); while x == 0: if c == 1: x = Bernoulli(1/2) end end *)
Definition collapse_witness : prog :=
  {| p_init := BCons (SAssign "x" (RDet (EConst (mkq 0 1)))) (BCons (SAssign "c" (RDraw (DBern (EConst (mkq 1 2))))) BNil);
     p_guard := CAtom (EVar "x") Ceq (EConst (mkq 0 1));
     p_body := BCons (SIf (BrCons (CAtom (EVar "c") Ceq (EConst (mkq 1 1)))
                                  (BCons (SAssign "x" (RDraw (DBern (EConst (mkq 1 2))))) BNil) BrNil) BNil) BNil |}.

Definition cond_x_given (ev : state -> bool) (n : nat) : Qc :=
  cond_exp (run no_law collapse_witness n st0) ev (fun s => s "x").

(* the old rule refuted: the old stored guard of the witness is not its guard, the loop has
   terminated with positive probability after 3 iterations, and conditioning on the negated old
   stored guard gives a different value (7/15) than conditioning on termination (1) *)
Theorem collapse_guard_old_rule_refuted :
  exists (p : prog) (f : state -> Qc) (n : nat),
    stored_guard_old 2 p <> p_guard p /\
    prob (run no_law p n st0) (stopped p) <> 0 /\
    cond_exp (run no_law p n st0) (stopped p) f <>
    cond_exp (run no_law p n st0) (fun s => negb (holds (stored_guard_old 2 p) s)) f.
Proof.
  exists collapse_witness, (fun s => s "x"), 3%nat. split; [|split].
  - vm_compute. discriminate.
  - vm_compute. discriminate.
  - vm_compute. discriminate.
Qed.

(* ---- more executable helpers for the harness (no theorem depends on them) ---- *)
(* the same oracle for an arbitrary event "cond false" instead of the program's own guard
   (used to attribute a mismatch to the guard Polar stored) *)
Definition event_row (ev : cond) (ms : list mono) (d : dist state) : list (Z * positive) :=
  qpair (prob d (fun s => negb (holds ev s)))
  :: map (fun m => qpair (E d (fun s => ind (negb (holds ev s)) * eval_mono m s))) ms.
Fixpoint event_moments_aux (vs : list var) (p : prog) (ev : cond) (ms : list mono) (d : dist state) (N : nat)
  : list (list (Z * positive)) :=
  event_row ev ms d ::
  match N with O => [] | S N' => event_moments_aux vs p ev ms (compact vs (bind d (iter no_law p))) N' end.
Definition event_moments (vs : list var) (p : prog) (ev : cond) (ms : list mono) (N : nat) : list (list (Z * positive)) :=
  event_moments_aux vs p ev ms (compact vs (exec_block no_law (p_init p) st0)) N.

(* two conditions agree on every listed valuation *)
Definition conds_agree (envs : list (list (var * Qc))) (c1 c2 : cond) : bool :=
  forallb (fun env => Bool.eqb (holds c1 (env_state env)) (holds c2 (env_state env))) envs.
