(* Abstract syntax of Polar's loop language: source programs (statements with
   if/elif/else, probabilistic choice, draws, simultaneous assignment) and flat programs
   (lists of guarded single assignments, the output of normalisation). *)
From Coq Require Import List String QArith Qcanon ZArith Bool.
From Polar Require Import Qcx.
Import ListNotations.

Definition var := string.
Definition var_eqb (x y : var) : bool := String.eqb x y.

Inductive expr :=
| EConst (q : Qc)
| EVar (x : var)
| EAdd (a b : expr)
| EMul (a b : expr)
| EPow (a : expr) (k : nat).

Definition ENeg (a : expr) : expr := EMul (EConst (mkq (-1) 1)) a.
Definition ESub (a b : expr) : expr := EAdd a (ENeg b).

Inductive cop := Ceq | Cle | Cge | Clt | Cgt.

Inductive cond :=
| CTrue
| CFalse
| CAtom (a : expr) (c : cop) (b : expr)
| CNot (c : cond)
| CAnd (c1 c2 : cond)
| COr (c1 c2 : cond).

(* primitive draws; a continuous family is a name with evaluated parameters, its law is a
   parameter of the semantics *)
Inductive draw :=
| DBern (p : expr)
| DCat (ps : list expr)
| DUnif (a b : Z)
| DCont (family : string) (args : list expr).

(* right-hand sides: probabilistic choice  e1 {p1} e2 {p2} ...  as (probability, value)
   pairs with the last probability made explicit, or a draw *)
Inductive rhs :=
| RChoice (alts : list (expr * expr))
| RDraw (d : draw).

Definition RDet (e : expr) : rhs := RChoice [(EConst (mkq 1 1), e)].

Inductive stmt :=
| SAssign (x : var) (r : rhs)
| SSimult (l : list (var * rhs))
| SIf (bs : branches) (els : block)
with block :=
| BNil
| BCons (s : stmt) (b : block)
with branches :=
| BrNil
| BrCons (c : cond) (b : block) (bs : branches).

Scheme stmt_mut := Induction for stmt Sort Prop
with block_mut := Induction for block Sort Prop
with branches_mut := Induction for branches Sort Prop.
Combined Scheme stmt_block_branches_ind from stmt_mut, block_mut, branches_mut.

Fixpoint block_of_list (l : list stmt) : block :=
  match l with [] => BNil | s :: l' => BCons s (block_of_list l') end.
Fixpoint block_app (b1 b2 : block) : block :=
  match b1 with BNil => b2 | BCons s b => BCons s (block_app b b2) end.

Record prog := { p_init : block; p_guard : cond; p_body : block }.

(* flat programs: every assignment  x = rhs | cond : default *)
Record gassign := { ga_var : var; ga_cond : cond; ga_default : var; ga_rhs : rhs }.
Record flatprog := { fp_init : list gassign; fp_body : list gassign }.
