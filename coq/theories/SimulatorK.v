(* C12 — executable entry points for the correspondence check (harness/checks/c12.py):
   everything is returned as lists of integers so that the harness only has to read digits.
   A rational is the two integers  numerator; denominator. *)
From Coq Require Import List String QArith Qcanon ZArith.
From Polar Require Import Qcx Dist Syntax Sem Simulator SimulatorParse.
Import ListNotations.

Definition zq (q : Qc) : list Z := [qnum q; Zpos (qden q)].
Definition zstate (vars : list var) (s : state) : list Z := flat_map (fun x => zq (s x)) vars.

(* the transcription run on ONE script:  1; #unused script entries; probability; the n+1 states
   (program variables in the given order)  — or  0  if the script does not fit the program *)
Definition k_script (p : prog) (N : nat) (vars : list var) (sc : script) : list Z :=
  match sim_run (sim_sample no_law) (parse_prog p 0) N st0 sc with
  | Some (w, tr, rest) => 1%Z :: Z.of_nat (List.length rest) :: (zq w ++ flat_map (zstate vars) tr)
  | None => [0%Z]
  end.
Definition k_scripts (p : prog) (N : nat) (vars : list var) (scs : list script) : list (list Z) :=
  map (k_script p N vars) scs.

(* Sem.run for n = 0..N : per n the flat list of (weight, state) entries *)
Definition k_sem (p : prog) (N : nat) (vars : list var) : list (list Z) :=
  map (fun n => flat_map (fun ws => zq (fst ws) ++ zstate vars (snd ws)) (run no_law p n st0)) (seq 0 (S N)).

(* number of enumerated scripts at horizon N and their total probability *)
Definition k_enum (p : prog) (N : nat) : list Z :=
  let ps := enum_run (sim_sample no_law) (parse_prog p 0) N st0 in
  Z.of_nat (List.length ps) :: zq (mass (law_of ps)).

(* the same three entry points for a program given directly in the parsed form (Assignment
   objects with condition and default): used to exercise  condition ? right side : state[default] *)
Definition k_pscript (p : pprog) (N : nat) (vars : list var) (sc : script) : list Z :=
  match sim_run (sim_sample no_law) p N st0 sc with
  | Some (w, tr, rest) => 1%Z :: Z.of_nat (List.length rest) :: (zq w ++ flat_map (zstate vars) tr)
  | None => [0%Z]
  end.
Definition k_pscripts (p : pprog) (N : nat) (vars : list var) (scs : list script) : list (list Z) :=
  map (k_pscript p N vars) scs.
Definition k_psem (p : pprog) (N : nat) (vars : list var) : list (list Z) :=
  map (fun n => flat_map (fun ws => zq (fst ws) ++ zstate vars (snd ws)) (prun (sim_sample no_law) p n st0)) (seq 0 (S N)).
Definition k_penum (p : pprog) (N : nat) : list Z :=
  let ps := enum_run (sim_sample no_law) p N st0 in
  Z.of_nat (List.length ps) :: zq (mass (law_of ps)).
