(* C02, ConditionsReducer (program/transformer/conditions_reducer.py, Atom.reduce in
   program/condition/atom_cond.py).

   Python:   store = {}                                  # Atom -> alias symbol, per block
             for assign in assignments:
                 aliases = assign.condition.reduce(store)     # And/Or: left then right; Not: child
                 for (new_var, e) in aliases: emit  new_var = e
                 emit assign
                 store = {k: v for k, v in store if assign.variable not in k.free_symbols}
             Atom.reduce(store):  if poly1.is_Symbol and poly2.is_Integer: unchanged
                                  elif self in store: poly1, poly2 = store[self], 0
                                  else: new = _r<counter++>; store[copy of self] = new
                                        alias = poly1 - poly2; poly1, poly2 = new, 0; return [(new, alias)]

   Model [cond_reduce k0] below; k0 is the value of the global name counter.  Theorem: one
   execution of the transformed list, from ANY state that agrees with the source state
   outside the generated alias names, gives every observation that does not read alias names
   the same expectation; lifted to all iterations (initial block and loop body). *)
From Coq Require Import List String QArith Qcanon ZArith Bool Lia Arith Ring.
From Polar Require Import Qcx Dist Syntax Sem Types PassFlat.
Import ListNotations.
Local Open Scope nat_scope.

(* ---- structural equality of atoms (the store is keyed by the atom) ---- *)
Fixpoint expr_eqb (a b : expr) : bool :=
  match a, b with
  | EConst p, EConst q => Qc_eqb p q
  | EVar x, EVar y => var_eqb x y
  | EAdd a1 a2, EAdd b1 b2 => expr_eqb a1 b1 && expr_eqb a2 b2
  | EMul a1 a2, EMul b1 b2 => expr_eqb a1 b1 && expr_eqb a2 b2
  | EPow a1 k, EPow b1 j => expr_eqb a1 b1 && Nat.eqb k j
  | _, _ => false
  end.
Lemma expr_eqb_eq a b : expr_eqb a b = true -> a = b.
Proof.
  revert b; induction a as [p|x|a1 IH1 a2 IH2|a1 IH1 a2 IH2|a1 IH1 k]; intros [q|y|b1 b2|b1 b2|b1 j];
    cbn [expr_eqb]; intros H; try discriminate.
  - apply Qc_eqb_true in H. subst. reflexivity.
  - apply var_eqb_eq in H. subst. reflexivity.
  - apply andb_true_iff in H. destruct H as [H1 H2]. rewrite (IH1 _ H1), (IH2 _ H2). reflexivity.
  - apply andb_true_iff in H. destruct H as [H1 H2]. rewrite (IH1 _ H1), (IH2 _ H2). reflexivity.
  - apply andb_true_iff in H. destruct H as [H1 H2]. rewrite (IH1 _ H1). apply Nat.eqb_eq in H2. subst. reflexivity.
Qed.
Definition cop_eqb (o p : cop) : bool :=
  match o, p with
  | Ceq, Ceq | Cle, Cle | Cge, Cge | Clt, Clt | Cgt, Cgt => true
  | _, _ => false
  end.
Lemma cop_eqb_eq o p : cop_eqb o p = true -> o = p.
Proof. destruct o, p; cbn; intros H; try discriminate; reflexivity. Qed.

Definition atom : Type := expr * cop * expr.
Definition atom_eqb (x y : atom) : bool :=
  let '(a, o, b) := x in let '(a', o', b') := y in expr_eqb a a' && cop_eqb o o' && expr_eqb b b'.
Lemma atom_eqb_eq x y : atom_eqb x y = true -> x = y.
Proof.
  destruct x as [[a o] b], y as [[a' o'] b']. cbn [atom_eqb]. intros H.
  apply andb_true_iff in H. destruct H as [H H3]. apply andb_true_iff in H. destruct H as [H1 H2].
  rewrite (expr_eqb_eq _ _ H1), (cop_eqb_eq _ _ H2), (expr_eqb_eq _ _ H3). reflexivity.
Qed.

Definition store : Type := list (atom * var).
Fixpoint st_lookup (x : atom) (st : store) : option var :=
  match st with
  | [] => None
  | (y, r) :: st' => if atom_eqb x y then Some r else st_lookup x st'
  end.
Lemma st_lookup_In x st r : st_lookup x st = Some r -> In (x, r) st.
Proof.
  induction st as [|[y r'] st IH]; cbn [st_lookup]; intros H; [discriminate|].
  destruct (atom_eqb x y) eqn:E.
  - apply atom_eqb_eq in E. inversion H. subst. left. reflexivity.
  - right. apply IH. exact H.
Qed.

(* Atom.is_reduced: <symbol> cop <integer> *)
Definition is_reduced (a b : expr) : bool :=
  match a, b with
  | EVar _, EConst q => Pos.eqb (qden q) 1
  | _, _ => false
  end.

(* get_unique_var(name="r") *)
Definition rname (k : nat) : var := ("_r" ++ nat_str k)%string.
Lemma rname_inj j k : rname j = rname k -> j = k.
Proof. unfold rname. intros H. apply append_inj_l in H. apply nat_str_inj. exact H. Qed.

Definition EZero : expr := EConst 0%Qc.

(* Condition.reduce: new condition, alias definitions in order, new store, new counter *)
Fixpoint reduce_cond (c : cond) (st : store) (k : nat) : cond * list (var * expr) * store * nat :=
  match c with
  | CTrue | CFalse => (c, [], st, k)
  | CAtom a o b =>
      if is_reduced a b then (c, [], st, k)
      else match st_lookup (a, o, b) st with
           | Some r => (CAtom (EVar r) o EZero, [], st, k)
           | None => let r := rname k in
                     (CAtom (EVar r) o EZero, [(r, ESub a b)], ((a, o, b), r) :: st, S k)
           end
  | CNot c1 => let '(c1', al, st', k') := reduce_cond c1 st k in (CNot c1', al, st', k')
  | CAnd c1 c2 =>
      let '(c1', al1, st1, k1) := reduce_cond c1 st k in
      let '(c2', al2, st2, k2) := reduce_cond c2 st1 k1 in
      (CAnd c1' c2', al1 ++ al2, st2, k2)
  | COr c1 c2 =>
      let '(c1', al1, st1, k1) := reduce_cond c1 st k in
      let '(c2', al2, st2, k2) := reduce_cond c2 st1 k1 in
      (COr c1' c2', al1 ++ al2, st2, k2)
  end.

(* PolyAssignment.deterministic(new_var, e): condition true, default = the variable itself *)
Definition alias_ga (xe : var * expr) : gassign :=
  {| ga_var := fst xe; ga_cond := CTrue; ga_default := fst xe; ga_rhs := RDet (snd xe) |}.

Definition atom_mentions (x : var) (a : atom) : bool :=
  let '(e1, _, e2) := a in smem x (vars_of e1 ++ vars_of e2).
Definition purge (x : var) (st : store) : store := filter (fun ar => negb (atom_mentions x (fst ar))) st.

Definition set_cond (g : gassign) (c : cond) : gassign :=
  {| ga_var := ga_var g; ga_cond := c; ga_default := ga_default g; ga_rhs := ga_rhs g |}.

Fixpoint cr_go (st : store) (k : nat) (l : list gassign) : list gassign * nat :=
  match l with
  | [] => ([], k)
  | g :: l' =>
      let '(c', al, st1, k1) := reduce_cond (ga_cond g) st k in
      let '(out, k2) := cr_go (purge (ga_var g) st1) k1 l' in
      (map alias_ga al ++ set_cond g c' :: out, k2)
  end.

Definition cond_reduce (k0 : nat) (l : list gassign) : list gassign * nat := cr_go [] k0 l.

(* the pass: initial block first, then the loop body, one counter, a fresh store each *)
Definition cr_prog (k0 : nat) (fp : flatprog) : flatprog * nat :=
  let '(i', k1) := cond_reduce k0 (fp_init fp) in
  let '(b', k2) := cond_reduce k1 (fp_body fp) in
  ({| fp_init := i'; fp_body := b' |}, k2).

(* generated names and the boolean hypothesis: no generated alias name occurs in the source *)
Definition rnames (k0 k1 : nat) : list var := map rname (seq k0 (k1 - k0)).
Definition cr_gen (k0 : nat) (l : list gassign) : list var := rnames k0 (snd (cond_reduce k0 l)).
Definition wf_cr (k0 : nat) (l : list gassign) : bool := sdisjoint (cr_gen k0 l) (gas_vars l).
Definition cr_prog_gen (k0 : nat) (fp : flatprog) : list var := rnames k0 (snd (cr_prog k0 fp)).
Definition wf_cr_prog (k0 : nat) (fp : flatprog) : bool :=
  sdisjoint (cr_prog_gen k0 fp) (gas_vars (fp_init fp) ++ gas_vars (fp_body fp)).

Lemma rnames_In k0 k1 j : k0 <= j < k1 -> In (rname j) (rnames k0 k1).
Proof. intros H. unfold rnames. apply in_map. apply in_seq. lia. Qed.

(* ---- e1 cop e2  <->  e1 - e2 cop 0  in the ordered field Qc ---- *)
Local Open Scope Qc_scope.
Lemma Qccompare_sub_0 (x y : Qc) : (x - y ?= 0) = (x ?= y).
Proof.
  destruct (x ?= y) eqn:E.
  - apply Qceq_alt in E. subst. apply Qceq_alt. ring.
  - apply Qclt_alt in E. apply Qclt_alt. apply Qclt_minus_iff. apply Qclt_minus_iff in E.
    replace (0 + - (x - y)) with (y + - x) by ring. exact E.
  - apply Qcgt_alt in E. apply Qcgt_alt. apply Qclt_minus_iff. apply Qclt_minus_iff in E.
    replace (x - y + - 0) with (x + - y) by ring. exact E.
Qed.
Lemma Qccompare_0_sub (x y : Qc) : (0 ?= x - y) = (y ?= x).
Proof.
  destruct (y ?= x) eqn:E.
  - apply Qceq_alt in E. subst. apply Qceq_alt. ring.
  - apply Qclt_alt in E. apply Qclt_alt. apply Qclt_minus_iff. apply Qclt_minus_iff in E.
    replace (x - y + - 0) with (x + - y) by ring. exact E.
  - apply Qcgt_alt in E. apply Qcgt_alt. apply Qclt_minus_iff. apply Qclt_minus_iff in E.
    replace (0 + - (x - y)) with (y + - x) by ring. exact E.
Qed.
Lemma cop_holds_sub o (x y : Qc) : cop_holds o (x - y) 0 = cop_holds o x y.
Proof.
  destruct o; cbn [cop_holds]; unfold Qc_leb, Qc_ltb; rewrite ?Qccompare_sub_0, ?Qccompare_0_sub; try reflexivity.
  destruct (Qc_eqb_spec (x - y) 0) as [E|E], (Qc_eqb_spec x y) as [E'|E']; try reflexivity.
  - exfalso. apply E'. transitivity (x - y + y); [ring | rewrite E; ring].
  - exfalso. apply E. subst. ring.
Qed.
Lemma eval_ESub a b s : eval (ESub a b) s = eval a s - eval b s.
Proof. unfold ESub, ENeg. cbn [eval]. unfold mkq. ring_simplify.
  replace (Q2Qc (-1 # 1)) with (- (1))%Qc by (apply Qc_is_canon; reflexivity). ring. Qed.
Local Close Scope Qc_scope.

(* ---- the store as a fact about a state ---- *)
(* values: every stored alias holds the difference of the two sides of its atom *)
Definition st_val (st : store) (t : state) : Prop :=
  forall a o b r, In ((a, o, b), r) st -> t r = (eval a t - eval b t)%Qc.
(* names: aliases are _r<j> for k0 <= j < k; the atoms only mention non-generated variables *)
Definition st_names (G : var -> Prop) (k0 k : nat) (st : store) : Prop :=
  forall a o b r, In ((a, o, b), r) st ->
    (exists j, k0 <= j < k /\ r = rname j) /\ (forall x, In x (vars_of a ++ vars_of b) -> ~ G x).

(* running the alias definitions *)
Definition run_al (al : list (var * expr)) (t : state) : state :=
  fold_left (fun t xe => upd t (fst xe) (eval (snd xe) t)) al t.
Lemma run_al_app al1 al2 t : run_al (al1 ++ al2) t = run_al al2 (run_al al1 t).
Proof. unfold run_al. apply fold_left_app. Qed.
Lemma run_al_cons x e al t : run_al ((x, e) :: al) t = run_al al (upd t x (eval e t)).
Proof. reflexivity. Qed.

(* (1) the reduced condition is equivalent in every state in which the new store is valid *)
Lemma reduce_cond_holds c : forall st k,
  let '(c', al, st', k') := reduce_cond c st k in
  incl st st' /\ forall t, st_val st' t -> holds c' t = holds c t.
Proof.
  induction c as [| |a o b|c IH|c1 IH1 c2 IH2|c1 IH1 c2 IH2]; intros st k; cbn [reduce_cond].
  - split; [apply incl_refl | reflexivity].
  - split; [apply incl_refl | reflexivity].
  - destruct (is_reduced a b); [split; [apply incl_refl | reflexivity]|].
    destruct (st_lookup (a, o, b) st) as [r|] eqn:El.
    + split; [apply incl_refl|]. intros t Hv. cbn [holds eval]. unfold EZero. cbn [eval].
      rewrite (Hv a o b r (st_lookup_In _ _ _ El)). apply cop_holds_sub.
    + split; [apply incl_tl, incl_refl|]. intros t Hv. cbn [holds eval]. unfold EZero. cbn [eval].
      rewrite (Hv a o b (rname k)) by (left; reflexivity). apply cop_holds_sub.
  - specialize (IH st k). destruct (reduce_cond c st k) as [[[c' al] st'] k']. destruct IH as [Hi Hh].
    split; [exact Hi|]. intros t Hv. cbn [holds]. rewrite (Hh t Hv). reflexivity.
  - specialize (IH1 st k). destruct (reduce_cond c1 st k) as [[[c1' al1] st1] k1]. destruct IH1 as [Hi1 Hh1].
    specialize (IH2 st1 k1). destruct (reduce_cond c2 st1 k1) as [[[c2' al2] st2] k2]. destruct IH2 as [Hi2 Hh2].
    split; [eapply incl_tran; eassumption|]. intros t Hv. cbn [holds].
    rewrite (Hh2 t Hv), (Hh1 t); [reflexivity|]. intros a o b r Hin. apply (Hv a o b r). apply Hi2. exact Hin.
  - specialize (IH1 st k). destruct (reduce_cond c1 st k) as [[[c1' al1] st1] k1]. destruct IH1 as [Hi1 Hh1].
    specialize (IH2 st1 k1). destruct (reduce_cond c2 st1 k1) as [[[c2' al2] st2] k2]. destruct IH2 as [Hi2 Hh2].
    split; [eapply incl_tran; eassumption|]. intros t Hv. cbn [holds].
    rewrite (Hh2 t Hv), (Hh1 t); [reflexivity|]. intros a o b r Hin. apply (Hv a o b r). apply Hi2. exact Hin.
Qed.

(* the counter only grows *)
Lemma reduce_cond_mono c : forall st k, let '(_, _, _, k') := reduce_cond c st k in k <= k'.
Proof.
  induction c as [| |a o b|c IH|c1 IH1 c2 IH2|c1 IH1 c2 IH2]; intros st k; cbn [reduce_cond]; try lia.
  - destruct (is_reduced a b); [lia|]. destruct (st_lookup (a, o, b) st); lia.
  - specialize (IH st k). destruct (reduce_cond c st k) as [[[c' al] st'] k']. exact IH.
  - specialize (IH1 st k). destruct (reduce_cond c1 st k) as [[[c1' al1] st1] k1].
    specialize (IH2 st1 k1). destruct (reduce_cond c2 st1 k1) as [[[c2' al2] st2] k2]. lia.
  - specialize (IH1 st k). destruct (reduce_cond c1 st k) as [[[c1' al1] st1] k1].
    specialize (IH2 st1 k1). destruct (reduce_cond c2 st1 k1) as [[[c2' al2] st2] k2]. lia.
Qed.
Lemma cr_go_mono l : forall st k, k <= snd (cr_go st k l).
Proof.
  induction l as [|g l IH]; intros st k; cbn [cr_go]; [cbn; lia|].
  pose proof (reduce_cond_mono (ga_cond g) st k) as Hm.
  destruct (reduce_cond (ga_cond g) st k) as [[[c' al] st1] k1].
  specialize (IH (purge (ga_var g) st1) k1). destruct (cr_go (purge (ga_var g) st1) k1 l) as [out k2].
  cbn [snd] in *. lia.
Qed.

(* (2) after running the alias definitions the new store is valid, and only generated names
   were written *)
Lemma reduce_cond_run (G : var -> Prop) (k0 kend : nat) :
  (forall j, k0 <= j < kend -> G (rname j)) ->
  forall c st k t,
    let '(c', al, st', k') := reduce_cond c st k in
    k0 <= k -> k' <= kend ->
    (forall x, In x (cond_vars c) -> ~ G x) ->
    st_names G k0 k st -> st_val st t ->
    st_names G k0 k' st' /\ st_val st' (run_al al t) /\ agree G t (run_al al t).
Proof.
  intros HG c. induction c as [| |a o b|c IH|c1 IH1 c2 IH2|c1 IH1 c2 IH2]; intros st k t; cbn [reduce_cond].
  - intros _ _ _ Hn Hv. split; [exact Hn | split; [exact Hv | apply agree_refl]].
  - intros _ _ _ Hn Hv. split; [exact Hn | split; [exact Hv | apply agree_refl]].
  - destruct (is_reduced a b); [intros _ _ _ Hn Hv; split; [exact Hn | split; [exact Hv | apply agree_refl]]|].
    destruct (st_lookup (a, o, b) st) as [r|] eqn:El; [intros _ _ _ Hn Hv; split; [exact Hn | split; [exact Hv | apply agree_refl]]|].
    intros Hk0 Hke Hc Hn Hv. cbn [cond_vars] in Hc.
    assert (HGk : G (rname k)) by (apply HG; lia).
    assert (Hfresh : forall e, (forall x, In x (vars_of e) -> ~ G x) ->
                       eval e (upd t (rname k) (eval (ESub a b) t)) = eval e t).
    { intros e He. apply eval_ext. intros x Hx. apply upd_other. intros ->. exact (He _ Hx HGk). }
    cbn [run_al fold_left fst snd]. split; [|split].
    + intros a' o' b' r [Hin|Hin].
      * inversion Hin; subst. split; [exists k; split; [lia | reflexivity] | exact Hc].
      * destruct (Hn a' o' b' r Hin) as [[j [Hj Er]] Hvars]. split; [exists j; split; [lia | exact Er] | exact Hvars].
    + intros a' o' b' r [Hin|Hin].
      * inversion Hin; subst. rewrite upd_same.
        rewrite !Hfresh by (intros x Hx; apply Hc; apply in_or_app; auto). apply eval_ESub.
      * destruct (Hn a' o' b' r Hin) as [[j [Hj Er]] Hvars].
        rewrite upd_other by (subst r; intros E; apply rname_inj in E; lia).
        rewrite !Hfresh by (intros x Hx; apply Hvars; apply in_or_app; auto).
        apply (Hv a' o' b' r Hin).
    + apply agree_upd_gen; [apply agree_refl | exact HGk].
  - specialize (IH st k t). destruct (reduce_cond c st k) as [[[c' al] st'] k']. exact IH.
  - pose proof (reduce_cond_mono c1 st k) as Hm1.
    specialize (IH1 st k t). destruct (reduce_cond c1 st k) as [[[c1' al1] st1] k1].
    pose proof (reduce_cond_mono c2 st1 k1) as Hm2.
    specialize (IH2 st1 k1 (run_al al1 t)). destruct (reduce_cond c2 st1 k1) as [[[c2' al2] st2] k2].
    intros Hk0 Hke Hc Hn Hv. cbn [cond_vars] in Hc.
    destruct IH1 as [Hn1 [Hv1 Ha1]]; try assumption; try lia.
    { intros x Hx. apply Hc. apply in_or_app. left. exact Hx. }
    destruct IH2 as [Hn2 [Hv2 Ha2]]; try assumption; try lia.
    { intros x Hx. apply Hc. apply in_or_app. right. exact Hx. }
    rewrite run_al_app. split; [exact Hn2 | split; [exact Hv2 | eapply agree_trans; eassumption]].
  - pose proof (reduce_cond_mono c1 st k) as Hm1.
    specialize (IH1 st k t). destruct (reduce_cond c1 st k) as [[[c1' al1] st1] k1].
    pose proof (reduce_cond_mono c2 st1 k1) as Hm2.
    specialize (IH2 st1 k1 (run_al al1 t)). destruct (reduce_cond c2 st1 k1) as [[[c2' al2] st2] k2].
    intros Hk0 Hke Hc Hn Hv. cbn [cond_vars] in Hc.
    destruct IH1 as [Hn1 [Hv1 Ha1]]; try assumption; try lia.
    { intros x Hx. apply Hc. apply in_or_app. left. exact Hx. }
    destruct IH2 as [Hn2 [Hv2 Ha2]]; try assumption; try lia.
    { intros x Hx. apply Hc. apply in_or_app. right. exact Hx. }
    rewrite run_al_app. split; [exact Hn2 | split; [exact Hv2 | eapply agree_trans; eassumption]].
Qed.

Section CR.
  Variable law : string -> list Qc -> dist Qc.

  (* executing the emitted alias assignments = running the definitions *)
  Lemma E_exec_aliases al rest t f :
    E (exec_gas law (map alias_ga al ++ rest) t) f = E (exec_gas law rest (run_al al t)) f.
  Proof.
    revert t. induction al as [|[x e] al IH]; intros t; cbn [map app]; [reflexivity|].
    rewrite E_exec_gas_cons, E_exec_ga. cbn [alias_ga ga_cond ga_rhs ga_var fst snd holds].
    unfold RDet. cbn [sample map fst snd E eval]. rewrite IH, run_al_cons.
    unfold mkq. replace (Q2Qc (1 # 1)) with 1%Qc by (apply Qc_is_canon; reflexivity).
    change (Q2Qc 0) with 0%Qc. ring.
  Qed.

  Lemma purge_In x st a r : In (a, r) (purge x st) -> In (a, r) st /\ atom_mentions x a = false.
  Proof.
    unfold purge. intros H. apply filter_In in H. destruct H as [H1 H2]. cbn [fst] in H2.
    split; [exact H1 | apply negb_true_iff; exact H2].
  Qed.

  Lemma cr_go_sim (G : var -> Prop) (k0 kend : nat) :
    (forall j, k0 <= j < kend -> G (rname j)) ->
    forall l st k,
      k0 <= k -> snd (cr_go st k l) <= kend ->
      (forall x, In x (gas_vars l) -> ~ G x) ->
      forall s s' f,
        st_names G k0 k st -> st_val st s' -> agree G s s' -> respects G f ->
        E (exec_gas law (fst (cr_go st k l)) s') f = E (exec_gas law l s) f.
  Proof.
    intros HG l. induction l as [|g l IH]; intros st k Hk0 Hke Hsrc s s' f Hn Hv Ha Hf.
    - cbn [cr_go fst]. rewrite !E_exec_gas_nil. apply Hf. exact Ha.
    - assert (Hg : forall z, In z (ga_vars g) -> ~ G z).
      { intros z Hz. apply Hsrc. cbn [gas_vars flat_map]. apply in_or_app. left. exact Hz. }
      assert (Hl : forall z, In z (gas_vars l) -> ~ G z).
      { intros z Hz. apply Hsrc. cbn [gas_vars flat_map]. apply in_or_app. right. exact Hz. }
      cbn [cr_go] in Hke |- *.
      pose proof (reduce_cond_holds (ga_cond g) st k) as Hh.
      pose proof (reduce_cond_run G k0 kend HG (ga_cond g) st k s') as Hr.
      pose proof (reduce_cond_mono (ga_cond g) st k) as Hm0.
      destruct (reduce_cond (ga_cond g) st k) as [[[c' al] st1] k1].
      pose proof (cr_go_mono l (purge (ga_var g) st1) k1) as Hm.
      specialize (IH (purge (ga_var g) st1) k1).
      destruct (cr_go (purge (ga_var g) st1) k1 l) as [out k2]. cbn [fst snd] in *.
      destruct Hh as [_ Hh].
      destruct Hr as [Hn1 [Hv1 Ha1]]; try assumption; try lia.
      { intros x Hx. apply Hg. unfold ga_vars. right. right. apply in_or_app. left. exact Hx. }
      set (t := run_al al s') in *.
      assert (Hat : agree G s t) by (eapply agree_trans; eassumption).
      rewrite E_exec_aliases. fold t. rewrite !E_exec_gas_cons.
      apply E_exec_ga_rel; cbn [set_cond ga_cond ga_rhs ga_default ga_var].
      + rewrite (Hh t Hv1). apply holds_ext. intros x Hx. apply Hat, Hg.
        unfold ga_vars. right. right. apply in_or_app. left. exact Hx.
      + apply sample_ext. intros x Hx. apply Hat, Hg. unfold ga_vars. right. right. apply in_or_app. right. exact Hx.
      + apply Hat, Hg. unfold ga_vars. right. left. reflexivity.
      + intros v. apply IH; try assumption; try lia.
        * (* names of the purged store *)
          intros a o b r Hin. apply purge_In in Hin. destruct Hin as [Hin _]. apply (Hn1 a o b r Hin).
        * (* values of the purged store after the assignment *)
          intros a o b r Hin. apply purge_In in Hin. destruct Hin as [Hin Hm']. cbn [atom_mentions] in Hm'.
          destruct (Hn1 a o b r Hin) as [[j [Hj Er]] Hvars].
          assert (HxG : ~ G (ga_var g)) by (apply Hg; left; reflexivity).
          rewrite upd_other by (subst r; intros E; apply HxG; rewrite <- E; apply HG; lia).
          assert (Hfr : forall e, (forall x, In x (vars_of e) -> In x (vars_of a ++ vars_of b)) ->
                          eval e (upd t (ga_var g) v) = eval e t).
          { intros e He. apply eval_ext. intros x Hx. apply upd_other. intros ->.
            apply smem_false in Hm'. apply Hm'. apply He. exact Hx. }
          rewrite !Hfr by (intros x Hx; apply in_or_app; auto). apply (Hv1 a o b r Hin).
        * apply agree_upd. exact Hat.
  Qed.

  Definition in_names (k0 k1 : nat) : var -> Prop := fun x => In x (rnames k0 k1).

  (* any block of the program, any counter window [k0, kend) that contains the names used *)
  Lemma cond_reduce_sim_gen k0 kend k l :
    k0 <= k -> snd (cond_reduce k l) <= kend ->
    (forall x, In x (gas_vars l) -> ~ In x (rnames k0 kend)) ->
    sim_on law (in_names k0 kend) l (fst (cond_reduce k l)).
  Proof.
    intros Hk Hke Hsrc s s' f Ha Hf. unfold cond_reduce.
    apply (cr_go_sim (in_names k0 kend) k0 kend).
    - intros j Hj. apply rnames_In. exact Hj.
    - exact Hk.
    - exact Hke.
    - exact Hsrc.
    - intros a o b r [].
    - intros a o b r [].
    - exact Ha.
    - exact Hf.
  Qed.

  (* one execution of a block *)
  Theorem cond_reduce_step k0 l : wf_cr k0 l = true ->
    forall s s' f,
      (forall x, ~ In x (cr_gen k0 l) -> s' x = s x) ->
      (forall t t', (forall x, ~ In x (cr_gen k0 l) -> t' x = t x) -> f t' = f t) ->
      E (exec_gas law (fst (cond_reduce k0 l)) s') f = E (exec_gas law l s) f.
  Proof.
    intros Hwf s s' f Ha Hf. unfold cr_gen in *.
    apply (cond_reduce_sim_gen k0 (snd (cond_reduce k0 l)) k0 l); try lia.
    - intros x Hx Hg. apply (sdisjoint_spec _ _ Hwf x Hg Hx).
    - exact Ha.
    - exact Hf.
  Qed.

  (* all iterations *)
  Theorem cond_reduce_preserves k0 fp : wf_cr_prog k0 fp = true ->
    forall n s0 s0' f,
      (forall x, ~ In x (cr_prog_gen k0 fp) -> s0' x = s0 x) ->
      (forall t t', (forall x, ~ In x (cr_prog_gen k0 fp) -> t' x = t x) -> f t' = f t) ->
      E (frun law (fst (cr_prog k0 fp)) n s0') f = E (frun law fp n s0) f.
  Proof.
    intros Hwf n s0 s0' f Ha Hf. unfold wf_cr_prog, cr_prog_gen in *. unfold cr_prog in *.
    pose proof (cr_go_mono (fp_init fp) [] k0) as Hm1. fold (cond_reduce k0 (fp_init fp)) in Hm1.
    pose proof (cond_reduce_sim_gen k0) as Hsim_i.
    destruct (cond_reduce k0 (fp_init fp)) as [i' k1] eqn:Ei. cbn [snd] in Hm1.
    pose proof (cr_go_mono (fp_body fp) [] k1) as Hm2. fold (cond_reduce k1 (fp_body fp)) in Hm2.
    pose proof (cond_reduce_sim_gen k0) as Hsim_b.
    destruct (cond_reduce k1 (fp_body fp)) as [b' k2] eqn:Eb. cbn [fst snd] in *.
    apply (frun_lift law (in_names k0 k2) fp {| fp_init := i'; fp_body := b' |}); cbn [fp_init fp_body].
    - specialize (Hsim_i k2 k0 (fp_init fp)). rewrite Ei in Hsim_i. cbn [fst snd] in Hsim_i.
      apply Hsim_i; try lia.
      intros x Hx Hg. apply (sdisjoint_spec _ _ Hwf x Hg). apply in_or_app. left. exact Hx.
    - specialize (Hsim_b k2 k1 (fp_body fp)). rewrite Eb in Hsim_b. cbn [fst snd] in Hsim_b.
      apply Hsim_b; try lia.
      intros x Hx Hg. apply (sdisjoint_spec _ _ Hwf x Hg). apply in_or_app. right. exact Hx.
    - exact Ha.
    - exact Hf.
  Qed.
End CR.

(* ---- the hypothesis is necessary: capture of a user variable named like an alias ---- *)
Open Scope string_scope.
Definition cr_capture_body : list gassign :=
  [ {| ga_var := "x"; ga_cond := CAtom (EMul (EVar "_r1") (EVar "y")) Cgt (EMul (EVar "x") (EVar "_r1"));
       ga_default := "x"; ga_rhs := RDet (EConst (mkq 1 1)) |};
    {| ga_var := "z"; ga_cond := CTrue; ga_default := "z"; ga_rhs := RDet (EVar "_r1") |} ].
Definition cr_capture_state : state := upd (upd st0 "_r1" (mkq 1 1)) "y" (mkq 0 1).
(* with the counter at 1 the alias `_r1 = _r1*y - x*_r1` overwrites the user's `_r1`
   (1 in the source state): z = _r1 is 1 in the source, 0 after the pass *)
Theorem cond_reduce_needs_wf :
  wf_cr 1 cr_capture_body = false /\
  E (exec_gas no_law (fst (cond_reduce 1 cr_capture_body)) cr_capture_state) (fun s => s "z")
  <> E (exec_gas no_law cr_capture_body cr_capture_state) (fun s => s "z").
Proof.
  split; [vm_compute; reflexivity|]. intros H. apply (f_equal qnum) in H. vm_compute in H. discriminate.
Qed.
