(* Finitely supported (signed) distributions as weighted lists, expectation, monad laws at
   the level of expectations.  Weights are not required to be probabilities: the linear
   theorems (C02, C03) do not need it, exactly as Polar's recurrences do not. *)
From Coq Require Import List QArith Qcanon Ring Field.
From Polar Require Import Qcx.
Import ListNotations.
Local Open Scope Qc_scope.

Definition dist (A : Type) := list (Qc * A).
Definition ret {A} (a : A) : dist A := [(1, a)].
Definition dscale {A} (w : Qc) (d : dist A) : dist A := map (fun p => (w * fst p, snd p)) d.
Fixpoint bind {A B} (d : dist A) (f : A -> dist B) : dist B :=
  match d with [] => [] | (w, a) :: d' => dscale w (f a) ++ bind d' f end.
Fixpoint E {A} (d : dist A) (f : A -> Qc) : Qc :=
  match d with [] => 0 | (w, a) :: d' => w * f a + E d' f end.
Definition mass {A} (d : dist A) : Qc := E d (fun _ => 1).

Lemma E_app {A} (d1 d2 : dist A) f : E (d1 ++ d2) f = E d1 f + E d2 f.
Proof. induction d1 as [|[w a] d IH]; simpl; [ring | rewrite IH; ring]. Qed.
Lemma E_dscale {A} w (d : dist A) f : E (dscale w d) f = w * E d f.
Proof. induction d as [|[w' a] d IH]; simpl; [ring | rewrite IH; ring]. Qed.
Lemma E_ret {A} (a : A) f : E (ret a) f = f a.
Proof. simpl; ring. Qed.
Lemma E_bind {A B} (d : dist A) (g : A -> dist B) f :
  E (bind d g) f = E d (fun a => E (g a) f).
Proof. induction d as [|[w a] d IH]; simpl; [reflexivity | rewrite E_app, E_dscale, IH; reflexivity]. Qed.
Lemma E_ext {A} (d : dist A) f g : (forall a, f a = g a) -> E d f = E d g.
Proof. intros H; induction d as [|[w a] d IH]; simpl; [reflexivity | rewrite H, IH; reflexivity]. Qed.
Lemma E_ext_in {A} (d : dist A) f g : (forall w a, In (w, a) d -> f a = g a) -> E d f = E d g.
Proof.
  induction d as [|[w a] d IH]; simpl; intros H; [reflexivity|].
  rewrite (H w a) by (left; reflexivity). rewrite IH; [reflexivity|].
  intros w' a' Hin; apply (H w' a'); right; exact Hin.
Qed.
Lemma E_add {A} (d : dist A) f g : E d (fun a => f a + g a) = E d f + E d g.
Proof. induction d as [|[w a] d IH]; simpl; [ring | rewrite IH; ring]. Qed.
Lemma E_cmul {A} (d : dist A) c f : E d (fun a => c * f a) = c * E d f.
Proof. induction d as [|[w a] d IH]; simpl; [ring | rewrite IH; ring]. Qed.
Lemma E_const {A} (d : dist A) c : E d (fun _ => c) = c * mass d.
Proof. unfold mass; induction d as [|[w a] d IH]; simpl; [ring | rewrite IH; ring]. Qed.
Lemma E_zero {A} (d : dist A) : E d (fun _ => 0) = 0.
Proof. rewrite E_const; ring. Qed.

(* support *)
Definition supp {A} (d : dist A) (a : A) : Prop := exists w, In (w, a) d.
Lemma supp_ret {A} (a b : A) : supp (ret a) b -> b = a.
Proof. intros [w [H|[]]]; inversion H; reflexivity. Qed.
Lemma supp_dscale {A} w (d : dist A) a : supp (dscale w d) a -> supp d a.
Proof.
  intros [w' H]. unfold dscale in H. apply in_map_iff in H. destruct H as [[w0 a0] [Heq Hin]].
  simpl in Heq. inversion Heq; subst. exists w0; exact Hin.
Qed.
Lemma supp_bind {A B} (d : dist A) (g : A -> dist B) b :
  supp (bind d g) b -> exists a, supp d a /\ supp (g a) b.
Proof.
  induction d as [|[w a] d IH]; simpl; intros [w' H]; [destruct H|].
  apply in_app_or in H. destruct H as [H|H].
  - exists a; split; [exists w; left; reflexivity | apply (supp_dscale w); exists w'; exact H].
  - destruct IH as [a' [[w0 Ha] Hb]]; [exists w'; exact H|].
    exists a'; split; [exists w0; right; exact Ha | exact Hb].
Qed.

Lemma bind_ext {A B} (d : dist A) (f g : A -> dist B) : (forall a, f a = g a) -> bind d f = bind d g.
Proof. intros H; induction d as [|[w a] d IH]; simpl; [reflexivity | rewrite H, IH; reflexivity]. Qed.
