(* C08 — specifications (literal pmfs, true supports, defining moment recurrences) and the
   proofs that the definitions TRANSLATED from program/distribution/*.py (gen/DistGen.v)
   satisfy them, for all orders k and all admissible parameters. *)
From Coq Require Import List QArith Qcanon ZArith Lia Bool Arith Field.
From Polar Require Import Qcx DistBase DistSympy.
From PolarGen Require Import DistGen.
Import ListNotations.
Local Open Scope Qc_scope.

(* ---------- small facts on Qc comparisons ---------- *)
Lemma Qc_ltb_iff x y : Qc_ltb x y = true <-> x < y.
Proof.
  unfold Qc_ltb, Qclt, Qccompare. rewrite Qlt_alt.
  destruct (this x ?= this y)%Q; split; intros H; congruence.
Qed.
Lemma Qc_leb_iff x y : Qc_leb x y = true <-> x <= y.
Proof.
  unfold Qc_leb, Qcle, Qccompare. rewrite Qle_alt.
  destruct (this x ?= this y)%Q; split; intros H; congruence.
Qed.

Lemma qz_of_nat n : qz (Z.of_nat n) = qnat n.
Proof.
  induction n as [|n IH]; [reflexivity|].
  rewrite qnat_S, <- IH. unfold qz, mkq. rewrite Nat2Z.inj_succ.
  apply Qc_is_canon. unfold Qcplus, Q2Qc. cbn [this]. rewrite !Qred_correct.
  unfold Qeq, Qplus. simpl. lia.
Qed.
Lemma qz_pos_neq0 z : (0 < z)%Z -> qz z <> 0.
Proof.
  intros H E. unfold qz, mkq in E. apply Q2Qc_eq_iff in E.
  unfold Qeq in E. simpl in E. lia.
Qed.

Lemma qsum_const {A} (l : list A) (c : Qc) : qsum (map (fun _ => c) l) = qnat (length l) * c.
Proof. induction l as [|x l IH]; [cbn; ring|]. cbn [map length]. rewrite qsum_cons, IH, qnat_S. ring. Qed.

(* ====================================================================================
   discrete families: the moment is the defining sum over the literal pmf
   ==================================================================================== *)

(* ---------- Bernoulli ---------- *)
Definition bernoulli_pmf (p : Qc) : pmf := [(1 - p, 0); (p, 1)].

Lemma bernoulli_pmf_total p : pmf_total (bernoulli_pmf p) = 1.
Proof. unfold pmf_total, bernoulli_pmf. cbn [map fst]. rewrite !qsum_cons, qsum_nil. ring. Qed.

Lemma bernoulli_moment_sum p k : (1 <= k)%nat -> bernoulli_get_moment p k = pmf_moment (bernoulli_pmf p) k.
Proof.
  intros Hk. destruct k as [|k]; [lia|].
  unfold bernoulli_get_moment, pmf_moment, bernoulli_pmf. cbv zeta. cbn [Nat.eqb map fst snd].
  rewrite !qsum_cons, qsum_nil, qpow_0_S, qpow_1. ring.
Qed.

(* order 0: the true value is 1.  The code as translated returns p (defect), or 1 after a
   repair; exactly one branch is provable for a given working tree, and the check reports
   which one (with the failing call on the real code in the first case). *)
Definition bernoulli_moment0_defect : Prop :=
  forall p, p <> 1 -> bernoulli_get_moment p 0 <> pmf_moment (bernoulli_pmf p) 0.
Definition bernoulli_moment0_correct : Prop :=
  forall p, bernoulli_get_moment p 0 = pmf_moment (bernoulli_pmf p) 0.

Lemma bernoulli_moment0_status : bernoulli_moment0_defect \/ bernoulli_moment0_correct.
Proof.
  first
    [ left; intros p Hp; rewrite pmf_moment_0, bernoulli_pmf_total;
      unfold bernoulli_get_moment; exact Hp
    | right; intros p; rewrite pmf_moment_0, bernoulli_pmf_total;
      unfold bernoulli_get_moment; cbv zeta; cbn; reflexivity ].
Qed.

Lemma bernoulli_support p x :
  In x (pmf_values (bernoulli_pmf p)) <-> in_support x (bernoulli_get_support p).
Proof.
  unfold in_support, bernoulli_get_support, bernoulli_pmf, pmf_values. cbn [map snd In]. split.
  - intros [H|[H|[]]]; subst x; [exists (SPoint 0) | exists (SPoint 1)]; cbn; auto.
  - intros [s [[H|[H|[]]] Hx]]; subst s; cbn in Hx; auto.
Qed.

(* ---------- Categorical ---------- *)
Definition categorical_pmf (ps : list Qc) : pmf := map (fun ip => (snd ip, qnat (fst ip))) (enumerate ps).

Lemma categorical_moment_sum ps k : categorical_get_moment ps k = pmf_moment (categorical_pmf ps) k.
Proof.
  unfold categorical_get_moment, pmf_moment, categorical_pmf. cbv zeta.
  rewrite (fold_left_acc_sum _ (fun ip : nat * Qc => qpow (qnat (fst ip)) k * snd ip)).
  2:{ intros m [i p]. reflexivity. }
  rewrite map_map, Qcplus_0_l. f_equal. apply map_ext. intros [i p]. cbn [fst snd]. ring.
Qed.

Lemma enumerate_snd {A} (l : list A) : map snd (enumerate l) = l.
Proof.
  unfold enumerate. generalize 0%nat. induction l as [|x l IH]; intros s; [reflexivity|].
  cbn [length seq combine map snd]. rewrite IH. reflexivity.
Qed.
Lemma enumerate_fst {A} (l : list A) : map fst (enumerate l) = seq 0 (length l).
Proof.
  unfold enumerate. generalize 0%nat. induction l as [|x l IH]; intros s; [reflexivity|].
  cbn [length seq combine map fst]. rewrite IH. reflexivity.
Qed.

Lemma categorical_pmf_total ps : pmf_total (categorical_pmf ps) = qsum ps.
Proof. unfold pmf_total, categorical_pmf. rewrite map_map. cbn [fst]. rewrite <- (enumerate_snd ps) at 2. reflexivity. Qed.

(* parameter vectors that set_parameters does not reject are probability vectors in the
   sense "non-empty, sum 1" (non-negativity is NOT checked by the code: see C19) *)
Lemma categorical_admitted ps : categorical_rejects ps = false -> ps <> [] /\ pmf_total (categorical_pmf ps) = 1.
Proof.
  unfold categorical_rejects. intros H. apply orb_false_iff in H. destruct H as [H1 H2]. split.
  - intros ->. discriminate H1.
  - rewrite categorical_pmf_total. apply negb_false_iff in H2. apply Qc_eqb_true. exact H2.
Qed.

Lemma categorical_moment_0 ps : categorical_rejects ps = false -> categorical_get_moment ps 0 = 1.
Proof. intros H. rewrite categorical_moment_sum, pmf_moment_0. apply (categorical_admitted ps H). Qed.

Lemma categorical_support ps x :
  In x (pmf_values (categorical_pmf ps)) <-> in_support x (categorical_get_support ps).
Proof.
  unfold in_support, categorical_get_support, categorical_pmf, pmf_values.
  rewrite map_map. cbn [snd]. rewrite <- (map_map fst qnat), enumerate_fst. split.
  - intros H. apply in_map_iff in H. destruct H as [v [E Hv]]. exists (SPoint (qnat v)). split.
    + apply in_map_iff. exists v. auto.
    + cbn. auto.
  - intros [s [Hs Hx]]. apply in_map_iff in Hs. destruct Hs as [v [E Hv]]. subst s. cbn in Hx. subst x.
    apply in_map_iff. exists v. auto.
Qed.

(* ---------- DiscreteUniform on the integers a..b ---------- *)
Definition du_pmf (a b : Z) : pmf := map (fun z => (1 / qz (b - a + 1), qz z)) (zrange a (b + 1)).

Lemma du_count a b : (a <= b)%Z -> qnat (length (discreteuniform_attr_values a b)) = qz (b - a + 1).
Proof.
  intros H. unfold discreteuniform_attr_values. rewrite map_length, zrange_length, <- qz_of_nat.
  f_equal. lia.
Qed.

Lemma du_moment_sum a b k : (a <= b)%Z -> discreteuniform_get_moment a b k = pmf_moment (du_pmf a b) k.
Proof.
  intros H. unfold discreteuniform_get_moment, pmf_moment, du_pmf. cbv zeta.
  rewrite (fold_left_acc_sum _ (fun v : Qc => qpow v k * (1 / qnat (length (discreteuniform_attr_values a b))))).
  2:{ intros m v. reflexivity. }
  rewrite Qcplus_0_l, du_count by exact H. unfold discreteuniform_attr_values.
  rewrite !map_map. f_equal. apply map_ext. intros z. cbn [fst snd]. ring.
Qed.

Lemma du_pmf_total a b : (a <= b)%Z -> pmf_total (du_pmf a b) = 1.
Proof.
  intros H. unfold pmf_total, du_pmf. rewrite map_map. cbn [fst].
  rewrite qsum_const, zrange_length, <- qz_of_nat.
  replace (Z.of_nat (Z.to_nat (b + 1 - a))) with (b - a + 1)%Z by lia.
  field. apply qz_pos_neq0. lia.
Qed.

Lemma du_moment_0 a b : (a <= b)%Z -> discreteuniform_get_moment a b 0 = 1.
Proof. intros H. rewrite du_moment_sum, pmf_moment_0 by exact H. apply du_pmf_total; exact H. Qed.

Lemma du_support a b x :
  In x (pmf_values (du_pmf a b)) <-> in_support x (discreteuniform_get_support a b).
Proof.
  unfold in_support, discreteuniform_get_support, discreteuniform_attr_values, du_pmf, pmf_values.
  rewrite !map_map. cbn [snd]. split.
  - intros H. apply in_map_iff in H. destruct H as [z [E Hz]]. exists (SPoint x). split; [|reflexivity].
    apply in_map_iff. exists z. split; [f_equal; exact E | exact Hz].
  - intros [s [Hs Hx]]. apply in_map_iff in Hs. destruct Hs as [z [E Hz]]. subst s. cbn in Hx. subst x.
    apply in_map_iff. exists z. auto.
Qed.

(* the support is exactly the integers a..b *)
Lemma du_support_range a b x :
  in_support x (discreteuniform_get_support a b) <-> exists z, (a <= z <= b)%Z /\ x = qz z.
Proof.
  rewrite <- du_support. unfold du_pmf, pmf_values. rewrite map_map. cbn [snd]. rewrite in_map_iff. split.
  - intros [z [E Hz]]. apply in_zrange in Hz. exists z. split; [lia | auto].
  - intros [z [Hz E]]. exists z. split; [auto | apply in_zrange; lia].
Qed.

(* ====================================================================================
   continuous families: m0 = 1 and the defining moment recurrence; supports; MGF domains
   ==================================================================================== *)


(* ====================================================================================
   continuous families: m0 = 1 and the defining moment recurrence; supports; MGF domains
   ==================================================================================== *)

Lemma Qcminus_neq0 a b : a <> b -> b - a <> 0.
Proof. intros H E. apply H. symmetry. rewrite <- (Qcplus_0_r a), <- E. ring. Qed.

Lemma Qcmult_cancel_l c x y : c <> 0 -> c * x = c * y -> x = y.
Proof. intros N E. replace x with (c * x / c) by (field; exact N). rewrite E. field. exact N. Qed.

Lemma shift_pow mu d k : shift mu (qpow d) k = qpow (mu + d) k.
Proof.
  induction k as [|k IH]; [reflexivity|]. cbn [shift qpow].
  rewrite (shift_scale mu d (qpow d) k), IH. ring.
Qed.

(* ---------- Uniform(a, b), a <> b ---------- *)
Lemma uniform_moment_0 a b : a <> b -> uniform_get_moment a b 0 = 1.
Proof.
  intros H. unfold uniform_get_moment. cbn [Nat.add qpow qnat]. field.
  apply Qcminus_neq0. exact H.
Qed.

(* antiderivative form: (k+1)(b-a) m_k = b^(k+1) - a^(k+1) *)
Lemma uniform_moment_ftc a b k : a <> b ->
  qnat (S k) * (b - a) * uniform_get_moment a b k = qpow b (S k) - qpow a (S k).
Proof.
  intros H. unfold uniform_get_moment. replace (k + 1)%nat with (S k) by lia. field.
  split; [apply Qcminus_neq0; exact H | apply qnat_S_neq0].
Qed.

(* E[(a + (b-a) U)^k] with E[U^j] = 1/(j+1): the moment of the rewritten draw *)
Definition unit_uniform_moment (j : nat) : Qc := 1 / qnat (S j).

Lemma uniform_moment_locscale a b k : a <> b ->
  uniform_get_moment a b k = binsum a (fun j => qpow (b - a) j * unit_uniform_moment j) k.
Proof.
  intros H. rewrite <- shift_binomial.
  set (c := fun j => qpow (b - a) j * unit_uniform_moment j).
  assert (D : forall j, (b - a) * dseq c j = qpow (b - a) j + - delta0 j).
  { intros [|j]; cbn [dseq delta0 qpow]; [ring|]. unfold c, unit_uniform_moment. field. apply qnat_S_neq0. }
  assert (E : (b - a) * (qnat (S k) * shift a c k) = qpow b (S k) - qpow a (S k)).
  { rewrite <- shift_dseq, <- shift_scale.
    rewrite (shift_ext a _ _ (S k) D), shift_add.
    rewrite (shift_ext a (fun j => - delta0 j) (fun j => (- (1)) * delta0 j)) by (intros j; ring).
    rewrite shift_scale, shift_delta0, shift_pow. replace (a + (b - a)) with b by ring. ring. }
  pose proof (uniform_moment_ftc a b k H) as F.
  assert (N : qnat (S k) * (b - a) <> 0).
  { intros Z. apply Qcmult_integral in Z. destruct Z as [Z|Z]; [exact (qnat_S_neq0 k Z) | exact (Qcminus_neq0 a b H Z)]. }
  apply (Qcmult_cancel_l _ _ _ N). rewrite F, <- E. ring.
Qed.

Lemma uniform_support a b x : (a <= x /\ x <= b) <-> in_support x (uniform_get_support a b).
Proof.
  unfold in_support, uniform_get_support. split.
  - intros H. exists (SIv (Fin a) (Fin b)). split; [left; reflexivity | exact H].
  - intros [s [[E|[]] H]]. subst s. exact H.
Qed.

(* ---------- Exponential(lambda), lambda <> 0 ---------- *)
Lemma exponential_moment_0 lam : exponential_get_moment lam 0 = 1.
Proof. unfold exponential_get_moment. cbn [qfact qpow]. field. discriminate. Qed.

Lemma exponential_moment_rec lam k : lam <> 0 ->
  exponential_get_moment lam (S k) = qnat (S k) / lam * exponential_get_moment lam k.
Proof.
  intros H. unfold exponential_get_moment. cbn [qfact qpow]. field.
  split; [apply qpow_neq0; exact H | exact H].
Qed.

Lemma exponential_support lam x : 0 <= x <-> in_support x (exponential_get_support lam).
Proof.
  unfold in_support, exponential_get_support. split.
  - intros H. exists (SIv (Fin 0) PosInf). split; [left; reflexivity | split; [exact H | exact I]].
  - intros [s [[E|[]] H]]. subst s. destruct H as [H _]. exact H.
Qed.

Lemma exponential_mgf_domain lam t : exponential_mgf_exists_at lam t = true <-> t < lam.
Proof.
  unfold exponential_mgf_exists_at. cbv zeta. rewrite <- Qc_ltb_iff.
  destruct (Qc_ltb t lam); cbn; split; congruence.
Qed.

(* the rewriting  Exponential(num/den)  ~>  den * Exponential(num) *)
Lemma exponential_locscale num den k : num <> 0 -> den <> 0 ->
  qpow den k * exponential_get_moment num k = exponential_get_moment (num / den) k.
Proof.
  intros Hn Hd. unfold exponential_get_moment.
  assert (E : qpow (num / den) k * qpow den k = qpow num k).
  { rewrite <- qpow_mul. f_equal. field. exact Hd. }
  assert (N1 : qpow num k <> 0) by (apply qpow_neq0; exact Hn).
  assert (N2 : qpow den k <> 0) by (apply qpow_neq0; exact Hd).
  assert (N3 : qpow (num / den) k <> 0).
  { intros Z. rewrite Z in E. apply N1. rewrite <- E. ring. }
  rewrite <- E. field. split; assumption.
Qed.

(* ---------- Gamma(k, theta) ---------- *)
Lemma gamma_get_moment_0 a theta : gamma_get_moment a theta 0 = 1.
Proof. unfold gamma_get_moment. cbv zeta. cbn [sympy_moment]. apply gamma_moment_0. Qed.
Lemma gamma_get_moment_rec a theta p :
  gamma_get_moment a theta (S p) = theta * (a + qnat p) * gamma_get_moment a theta p.
Proof. unfold gamma_get_moment. cbv zeta. cbn [sympy_moment]. apply gamma_moment_rec. Qed.
Lemma gamma_support a theta x : 0 <= x <-> in_support x (gamma_get_support a theta).
Proof.
  unfold in_support, gamma_get_support. split.
  - intros H. exists (SIv (Fin 0) PosInf). split; [left; reflexivity | split; [exact H | exact I]].
  - intros [s [[E|[]] H]]. subst s. destruct H as [H _]. exact H.
Qed.
Lemma gamma_mgf_domain a theta t : gamma_mgf_exists_at a theta t = true <-> t < 1 / theta.
Proof.
  unfold gamma_mgf_exists_at. cbv zeta. rewrite <- Qc_ltb_iff.
  destruct (Qc_ltb t (1 / theta)); cbn; split; congruence.
Qed.
(* Exponential(lambda) has the moments of Gamma(1, 1/lambda) *)
Lemma exponential_is_gamma lam k : lam <> 0 -> exponential_get_moment lam k = gamma_get_moment 1 (1 / lam) k.
Proof.
  intros H. induction k as [|k IH]; [rewrite exponential_moment_0, gamma_get_moment_0; reflexivity|].
  rewrite exponential_moment_rec, gamma_get_moment_rec, IH by exact H. rewrite qnat_S. field. exact H.
Qed.

(* ---------- Beta(a, b[, scale]), a + b > 0 ---------- *)
Lemma beta3_get_moment_0 a b s : beta3_get_moment a b s 0 = 1.
Proof. unfold beta3_get_moment. cbv zeta. cbn [sympy_moment qpow]. rewrite beta_moment_0. ring. Qed.
Lemma beta3_get_moment_rec a b s k : 0 < a + b ->
  beta3_get_moment a b s (S k) = s * ((a + qnat k) / (a + b + qnat k)) * beta3_get_moment a b s k.
Proof.
  intros H. unfold beta3_get_moment. cbv zeta. cbn [sympy_moment qpow]. rewrite beta_moment_rec by exact H. ring.
Qed.
Lemma beta2_is_beta3 a b k : beta2_get_moment a b k = beta3_get_moment a b 1 k.
Proof. reflexivity. Qed.
Lemma beta2_get_moment_0 a b : beta2_get_moment a b 0 = 1.
Proof. rewrite beta2_is_beta3. apply beta3_get_moment_0. Qed.
Lemma beta2_get_moment_rec a b k : 0 < a + b ->
  beta2_get_moment a b (S k) = (a + qnat k) / (a + b + qnat k) * beta2_get_moment a b k.
Proof. intros H. rewrite !beta2_is_beta3, beta3_get_moment_rec by exact H. ring. Qed.
Lemma beta3_support a b s x : (0 <= x /\ x <= s) <-> in_support x (beta3_get_support a b s).
Proof.
  unfold in_support, beta3_get_support. split.
  - intros H. exists (SIv (Fin 0) (Fin s)). split; [left; reflexivity | exact H].
  - intros [u [[E|[]] H]]. subst u. exact H.
Qed.
Lemma beta2_support a b x : (0 <= x /\ x <= 1) <-> in_support x (beta2_get_support a b).
Proof.
  unfold in_support, beta2_get_support. split.
  - intros H. exists (SIv (Fin 0) (Fin 1)). split; [left; reflexivity | exact H].
  - intros [u [[E|[]] H]]. subst u. exact H.
Qed.

(* ---------- Normal(mu, sigma2) ---------- *)
Lemma normal_get_moment_eq mu s2 k : normal_get_moment mu s2 k = normal_moment mu s2 k.
Proof. reflexivity. Qed.
Lemma normal_get_moment_0 mu s2 : normal_get_moment mu s2 0 = 1.
Proof. reflexivity. Qed.
Lemma normal_get_moment_1 mu s2 : normal_get_moment mu s2 1 = mu.
Proof. rewrite normal_get_moment_eq. apply normal_moment_1. Qed.
Lemma normal_get_moment_rec mu s2 k :
  normal_get_moment mu s2 (S (S k)) = mu * normal_get_moment mu s2 (S k) + qnat (S k) * s2 * normal_get_moment mu s2 k.
Proof. rewrite !normal_get_moment_eq. apply normal_moment_rec. Qed.
Lemma normal_support mu s2 x : in_support x (normal_get_support mu s2).
Proof. exists (SIv NegInf PosInf). split; [left; reflexivity | split; exact I]. Qed.

(* the rewriting  Normal(mu, s2) ~> mu + sqrt(s2) * Normal(0,1):  expanding (mu + s z)^k
   and replacing z^j by the j-th moment of Normal(0,1); (sqrt s2)^j is s2^(j/2) for even j
   and multiplies a zero moment for odd j *)
Definition sqrt_pow (s2 : Qc) (j : nat) : Qc := qpow s2 (Nat.div2 j).

Lemma normal_central_scale s2 j : normal_central s2 j = sqrt_pow s2 j * normal_central 1 j.
Proof.
  unfold sqrt_pow. destruct (Nat.Even_or_Odd j) as [[i E]|[i E]]; subst j.
  - destruct (normal_central_closed s2 i) as [C _]. destruct (normal_central_closed 1 i) as [C1 _].
    rewrite C, C1, Nat.div2_double, qpow_1. ring.
  - replace (2 * i + 1)%nat with (S (2 * i)) by lia.
    destruct (normal_central_closed s2 i) as [_ C]. destruct (normal_central_closed 1 i) as [_ C1].
    rewrite C, C1. ring.
Qed.

Lemma normal_locscale mu s2 k :
  normal_get_moment mu s2 k = binsum mu (fun j => sqrt_pow s2 j * normal_get_moment 0 1 j) k.
Proof.
  rewrite normal_get_moment_eq. unfold normal_moment. rewrite shift_fast_eq, shift_binomial. unfold binsum.
  apply sumn_ext. intros j _. rewrite normal_get_moment_eq, normal_moment_centred, (normal_central_scale s2 j). ring.
Qed.

Lemma normal_standard_odd i : normal_get_moment 0 1 (S (2 * i)) = 0.
Proof. rewrite normal_get_moment_eq, normal_moment_centred. apply (normal_central_closed 1 i). Qed.

(* ---------- Laplace(mu, b) ---------- *)
Lemma laplace_get_moment_eq mu b k : laplace_get_moment mu b k = laplace_moment mu b k.
Proof. reflexivity. Qed.
Lemma laplace_get_moment_0 mu b : laplace_get_moment mu b 0 = 1.
Proof. reflexivity. Qed.
Lemma laplace_get_moment_1 mu b : laplace_get_moment mu b 1 = mu.
Proof. rewrite laplace_get_moment_eq. apply laplace_moment_1. Qed.
Lemma laplace_get_moment_rec mu b k :
  laplace_get_moment mu b (S (S k)) = qpow mu (S (S k)) + qnat (S (S k)) * qnat (S k) * (b * b) * laplace_get_moment mu b k.
Proof. rewrite !laplace_get_moment_eq. apply laplace_moment_rec. Qed.
Lemma laplace_centred_closed b i :
  laplace_get_moment 0 b (2 * i) = qfact (2 * i) * qpow b (2 * i) /\ laplace_get_moment 0 b (S (2 * i)) = 0.
Proof. rewrite !laplace_get_moment_eq, !laplace_moment_centred. apply laplace_central_closed. Qed.
Lemma laplace_locscale mu b k : laplace_get_moment mu b k = binsum mu (laplace_get_moment 0 b) k.
Proof.
  rewrite laplace_get_moment_eq. unfold laplace_moment. rewrite shift_fast_eq, shift_binomial. unfold binsum.
  apply sumn_ext. intros j _. rewrite laplace_get_moment_eq, laplace_moment_centred. reflexivity.
Qed.
Lemma laplace_support mu b x : in_support x (laplace_get_support mu b).
Proof. exists (SIv NegInf PosInf). split; [left; reflexivity | split; exact I]. Qed.
Lemma laplace_mgf_domain mu b t : laplace_mgf_exists_at mu b t = true <-> qabs t < 1 / b.
Proof.
  unfold laplace_mgf_exists_at. cbv zeta. rewrite <- Qc_ltb_iff.
  destruct (Qc_ltb (qabs t) (1 / b)); cbn; split; congruence.
Qed.

(* ---------- TruncNormal: moments are not modelled (float erf); support and flags only ---------- *)
Lemma truncnormal_support mu s2 a b x : (a <= x /\ x <= b) <-> in_support x (truncnormal_get_support mu s2 a b).
Proof.
  unfold in_support, truncnormal_get_support. split.
  - intros H. exists (SIv (Fin a) (Fin b)). split; [left; reflexivity | exact H].
  - intros [u [[E|[]] H]]. subst u. exact H.
Qed.

(* ---------- discreteness flags and "MGF exists everywhere" families ---------- *)
Lemma discrete_flags :
  (forall p, bernoulli_is_discrete p = true) /\ (forall ps, categorical_is_discrete ps = true) /\
  (forall a b, discreteuniform_is_discrete a b = true) /\
  (forall a b, uniform_is_discrete a b = false) /\ (forall l, exponential_is_discrete l = false) /\
  (forall a t, gamma_is_discrete a t = false) /\ (forall a b, beta2_is_discrete a b = false) /\
  (forall a b s, beta3_is_discrete a b s = false) /\ (forall m s, normal_is_discrete m s = false) /\
  (forall m b, laplace_is_discrete m b = false) /\ (forall m s a b, truncnormal_is_discrete m s a b = false).
Proof. repeat split. Qed.

Lemma mgf_everywhere :
  (forall p t, bernoulli_mgf_exists_at p t = true) /\ (forall a b t, discreteuniform_mgf_exists_at a b t = true) /\
  (forall a b t, uniform_mgf_exists_at a b t = true) /\ (forall a b t, beta2_mgf_exists_at a b t = true) /\
  (forall a b s t, beta3_mgf_exists_at a b s t = true) /\ (forall m s t, normal_mgf_exists_at m s t = true) /\
  (forall m s a b t, truncnormal_mgf_exists_at m s a b t = true).
Proof. repeat split. Qed.

(* ====================================================================================
   location/scale rewriting of dist_transformer.py, at moment level, for all k
   ==================================================================================== *)
Lemma binsum_zero_loc c k : binsum 0 c k = c k.
Proof. rewrite <- shift_binomial. apply shift_zero_loc. Qed.

Lemma even_double i : Nat.even (2 * i) = true.
Proof. rewrite Nat.even_mul. reflexivity. Qed.
Lemma even_S_double i : Nat.even (S (2 * i)) = false.
Proof. rewrite Nat.even_succ, <- Nat.negb_even, even_double. reflexivity. Qed.

Lemma locscale_normal mu s2 k :
  lin_moment (transform_normal_expr mu s2)
             (normal_get_moment (fst (transform_normal_dist mu s2)) (snd (transform_normal_dist mu s2))) k
  = (normal_get_moment mu s2 k, 0).
Proof.
  unfold transform_normal_expr, transform_normal_dist. cbn [fst snd].
  unfold lin_moment. cbn [l0 l1]. f_equal.
  - rewrite normal_locscale. unfold binsum. apply sumn_ext. intros j _.
    destruct (Nat.Even_or_Odd j) as [[i E]|[i E]]; subst j.
    + cbn [sqv_pow]. rewrite even_double. cbn [fst]. unfold sqrt_pow. ring.
    + replace (2 * i + 1)%nat with (S (2 * i)) by lia. rewrite normal_standard_odd. ring.
  - apply sumn_zero. intros j _.
    destruct (Nat.Even_or_Odd j) as [[i E]|[i E]]; subst j.
    + cbn [sqv_pow]. rewrite even_double. cbn [snd]. ring.
    + replace (2 * i + 1)%nat with (S (2 * i)) by lia. rewrite normal_standard_odd. ring.
Qed.

Lemma locscale_laplace mu b k :
  lin_moment (transform_laplace_expr mu b)
             (laplace_get_moment (fst (transform_laplace_dist mu b)) (snd (transform_laplace_dist mu b))) k
  = (laplace_get_moment mu b k, 0).
Proof.
  unfold transform_laplace_expr, transform_laplace_dist. cbn [fst snd].
  rewrite lin_moment_rat, laplace_locscale. f_equal. unfold binsum. apply sumn_ext. intros j _.
  rewrite qpow_1. ring.
Qed.

Lemma locscale_uniform a b k : a <> b ->
  lin_moment (transform_uniform_expr a b)
             (uniform_get_moment (fst (transform_uniform_dist a b)) (snd (transform_uniform_dist a b))) k
  = (uniform_get_moment a b k, 0).
Proof.
  intros H. unfold transform_uniform_expr, transform_uniform_dist. cbn [fst snd].
  rewrite lin_moment_rat, (uniform_moment_locscale a b k H). f_equal. unfold binsum. apply sumn_ext. intros j _.
  f_equal. f_equal. unfold uniform_get_moment, unit_uniform_moment.
  replace (j + 1)%nat with (S j) by lia. rewrite qpow_1, qpow_0_S. field. apply qnat_S_neq0.
Qed.

(* lamb = numerator / denominator  ~>  denominator * Exponential(numerator) *)
Lemma locscale_exponential num den k : num <> 0 -> den <> 0 ->
  lin_moment (transform_exponential_expr num den) (exponential_get_moment (transform_exponential_dist num den)) k
  = (exponential_get_moment (num / den) k, 0).
Proof.
  intros Hn Hd. unfold transform_exponential_expr, transform_exponential_dist.
  rewrite lin_moment_rat, binsum_zero_loc. f_equal. apply exponential_locscale; assumption.
Qed.

(* ---------- bundled statements used by props/C08.v ---------- *)
Lemma du_total :
  forall a b, (a <= b)%Z -> pmf_total (du_pmf a b) = 1 /\ discreteuniform_get_moment a b 0 = 1.
Proof. intros a b H. split; [exact (du_pmf_total a b H) | exact (du_moment_0 a b H)]. Qed.

Lemma uniform_moment_spec :
  forall (a b : Qc) (k : nat), a <> b ->
    uniform_get_moment a b 0 = 1 /\
    qnat (S k) * (b - a) * uniform_get_moment a b k = qpow b (S k) - qpow a (S k).
Proof. intros a b k H. split; [exact (uniform_moment_0 a b H) | exact (uniform_moment_ftc a b k H)]. Qed.

Lemma exponential_moment_spec :
  forall (lam : Qc) (k : nat), lam <> 0 ->
    exponential_get_moment lam 0 = 1 /\
    exponential_get_moment lam (S k) = qnat (S k) / lam * exponential_get_moment lam k.
Proof. intros l k H. split; [exact (exponential_moment_0 l) | exact (exponential_moment_rec l k H)]. Qed.

Lemma gamma_moment_spec :
  forall (kappa theta : Qc) (p : nat),
    gamma_get_moment kappa theta 0 = 1 /\
    gamma_get_moment kappa theta (S p) = theta * (kappa + qnat p) * gamma_get_moment kappa theta p.
Proof. intros a t p. split; [exact (gamma_get_moment_0 a t) | exact (gamma_get_moment_rec a t p)]. Qed.

Lemma beta_moment_spec :
  forall (a b s : Qc) (k : nat), 0 < a + b ->
    beta3_get_moment a b s 0 = 1 /\
    beta3_get_moment a b s (S k) = s * ((a + qnat k) / (a + b + qnat k)) * beta3_get_moment a b s k /\
    beta2_get_moment a b k = beta3_get_moment a b 1 k.
Proof.
  intros a b s k H. split; [exact (beta3_get_moment_0 a b s)|].
  split; [exact (beta3_get_moment_rec a b s k H) | exact (beta2_is_beta3 a b k)].
Qed.

Lemma normal_moment_spec :
  forall (mu s2 : Qc) (k : nat),
    normal_get_moment mu s2 0 = 1 /\ normal_get_moment mu s2 1 = mu /\
    normal_get_moment mu s2 (S (S k)) = mu * normal_get_moment mu s2 (S k) + qnat (S k) * s2 * normal_get_moment mu s2 k.
Proof.
  intros mu s2 k. split; [exact (normal_get_moment_0 mu s2)|].
  split; [exact (normal_get_moment_1 mu s2) | exact (normal_get_moment_rec mu s2 k)].
Qed.

Lemma laplace_moment_spec :
  forall (mu b : Qc) (k : nat),
    laplace_get_moment mu b 0 = 1 /\ laplace_get_moment mu b 1 = mu /\
    laplace_get_moment mu b (S (S k)) = qpow mu (S (S k)) + qnat (S (S k)) * qnat (S k) * (b * b) * laplace_get_moment mu b k.
Proof.
  intros mu b k. split; [exact (laplace_get_moment_0 mu b)|].
  split; [exact (laplace_get_moment_1 mu b) | exact (laplace_get_moment_rec mu b k)].
Qed.

Lemma supports_continuous :
  (forall a b x, (a <= x /\ x <= b) <-> in_support x (uniform_get_support a b)) /\
  (forall l x, 0 <= x <-> in_support x (exponential_get_support l)) /\
  (forall a t x, 0 <= x <-> in_support x (gamma_get_support a t)) /\
  (forall a b x, (0 <= x /\ x <= 1) <-> in_support x (beta2_get_support a b)) /\
  (forall a b s x, (0 <= x /\ x <= s) <-> in_support x (beta3_get_support a b s)) /\
  (forall m s x, in_support x (normal_get_support m s)) /\
  (forall m b x, in_support x (laplace_get_support m b)) /\
  (forall m s a b x, (a <= x /\ x <= b) <-> in_support x (truncnormal_get_support m s a b)).
Proof.
  split; [exact uniform_support|]. split; [exact exponential_support|]. split; [exact gamma_support|].
  split; [exact beta2_support|]. split; [exact beta3_support|]. split; [exact normal_support|].
  split; [exact laplace_support | exact truncnormal_support].
Qed.

Lemma mgf_domains :
  (forall l t, exponential_mgf_exists_at l t = true <-> t < l) /\
  (forall a th t, gamma_mgf_exists_at a th t = true <-> t < 1 / th) /\
  (forall m b t, laplace_mgf_exists_at m b t = true <-> qabs t < 1 / b) /\
  (forall p t, bernoulli_mgf_exists_at p t = true) /\ (forall a b t, discreteuniform_mgf_exists_at a b t = true) /\
  (forall a b t, uniform_mgf_exists_at a b t = true) /\ (forall a b t, beta2_mgf_exists_at a b t = true) /\
  (forall a b s t, beta3_mgf_exists_at a b s t = true) /\ (forall m s t, normal_mgf_exists_at m s t = true) /\
  (forall m s a b t, truncnormal_mgf_exists_at m s a b t = true).
Proof.
  split; [exact exponential_mgf_domain|]. split; [exact gamma_mgf_domain|]. split; [exact laplace_mgf_domain|].
  exact mgf_everywhere.
Qed.
