(* StatsFps.v — formal power series over Qc (coefficient sequences, Cauchy product,
   derivative) and the theory of the moment–cumulant recursion in it:
     - the recursion  m_i = sum_{k=1..i} C(i-1,k-1) kappa_k m_{i-k}  is  M' = K' M  for
       exponential generating functions, and has a unique solution;
     - that solution is the coefficient sequence of  log M  (log-series, independent
       definition of cumulants);
     - it is additive over products M1*M2 (independent sums), for every order.
   Nothing here depends on generated files. *)
From Coq Require Import List ZArith QArith Qcanon Lia Arith Bool Field Lqa.
From Polar Require Import Qcx Stats.
Import ListNotations.
Local Open Scope Qc_scope.

Definition seqc := nat -> Qc.
Definition nq (n : nat) : Qc := zq (Z.of_nat n).
Definition factq (n : nat) : Qc := zq (zfact n).

Lemma nq_S n : nq (S n) = nq n + 1.
Proof. unfold nq. rewrite Nat2Z.inj_succ. unfold Z.succ. rewrite zq_add. reflexivity. Qed.
Lemma nq_0 : nq 0 = 0. Proof. reflexivity. Qed.
Lemma nq_add a b : nq (a + b) = nq a + nq b.
Proof. unfold nq. rewrite Nat2Z.inj_add, zq_add. reflexivity. Qed.
Lemma nq_nonneg n : 0 <= nq n.
Proof.
  induction n as [|n IH]; [apply Qcle_refl|]. rewrite nq_S. apply Qcplus_nonneg; [exact IH | apply Qc_0_le_1].
Qed.
Lemma nq_pos n : 0 < nq (S n).
Proof.
  rewrite nq_S. pose proof (nq_nonneg n) as H. unfold Qclt, Qcle in *. rewrite Qc_this_plus.
  change (this 0) with 0%Q in *. change (this 1) with 1%Q. lra.
Qed.
Lemma nq_S_neq0 n : nq (S n) <> 0.
Proof. apply Qclt_neq0. apply nq_pos. Qed.
Lemma factq_S n : factq (S n) = nq (S n) * factq n.
Proof. unfold factq, nq. cbn [zfact]. rewrite zq_mul. reflexivity. Qed.
Lemma factq_0 : factq 0 = 1. Proof. reflexivity. Qed.
Lemma factq_neq0 n : factq n <> 0.
Proof.
  induction n as [|n IH]; [intros E; discriminate E|]. rewrite factq_S. intros E.
  apply Qcmult_integral in E. destruct E as [E|E]; [apply (nq_S_neq0 n E) | apply (IH E)].
Qed.

(* C(n,j) j! (n-j)! = n! *)
Lemma zfact_S n : zfact (S n) = (Z.of_nat (S n) * zfact n)%Z. Proof. reflexivity. Qed.

Lemma binom_fact n : forall j, (j <= n)%nat -> (binom n j * zfact j * zfact (n - j) = zfact n)%Z.
Proof.
  induction n as [|n IH]; intros j Hj.
  - replace j with O by lia. reflexivity.
  - destruct j as [|j].
    + rewrite binom_0_r. cbn [Nat.sub]. change (zfact 0) with 1%Z. lia.
    + rewrite binom_S. cbn [Nat.sub].
      destruct (Nat.eq_dec j n) as [->|N].
      * rewrite binom_diag, binom_gt by lia. rewrite Nat.sub_diag. change (zfact 0) with 1%Z. lia.
      * pose proof (IH j ltac:(lia)) as H1. pose proof (IH (S j) ltac:(lia)) as H2.
        remember (n - S j)%nat as r eqn:Er.
        replace (n - j)%nat with (S r) in * by lia.
        rewrite (zfact_S n), (zfact_S j), (zfact_S r) in *.
        replace (Z.of_nat (S n)) with (Z.of_nat (S j) + Z.of_nat (S r))%Z by lia.
        remember (zfact j) as A. remember (zfact r) as B. remember (zfact n) as F.
        remember (Z.of_nat (S j)) as x. remember (Z.of_nat (S r)) as y.
        remember (binom n j) as b1. remember (binom n (S j)) as b2.
        transitivity (x * (b1 * A * (y * B)) + y * (b2 * (x * A) * B))%Z; [ring|].
        rewrite H1, H2. ring.
Qed.

Lemma bq_fact n j : (j <= n)%nat -> bq n j = factq n / (factq j * factq (n - j)).
Proof.
  intros H. unfold bq, factq. rewrite <- (binom_fact n j H). rewrite !zq_mul.
  field. split; apply factq_neq0.
Qed.

(* ------------------------------------------------------------------------------------ *)
(** * sums: reversal and triangular exchange                                           *)
(* ------------------------------------------------------------------------------------ *)

Lemma bigsum_rev {A} (l : list A) f : bigsum (rev l) f = bigsum l f.
Proof.
  induction l as [|x l IH]; [reflexivity|]. cbn [rev]. rewrite bigsum_app, IH, !bigsum_cons, bigsum_nil. ring.
Qed.

Lemma rev_seq_S n : rev (seq 0 (S n)) = map (fun j => (n - j)%nat) (seq 0 (S n)).
Proof.
  induction n as [|n IH]; [reflexivity|].
  rewrite (seq_S (S n) 0) at 1. rewrite rev_app_distr. cbn [rev app Nat.add]. rewrite IH.
  change (seq 0 (S (S n))) with (0%nat :: seq 1 (S n)).
  rewrite <- (seq_shift (S n) 0). cbn [map]. rewrite map_map. reflexivity.
Qed.

Lemma bigsum_flip n (f : nat -> Qc) :
  bigsum (seq 0 (S n)) f = bigsum (seq 0 (S n)) (fun j => f (n - j)%nat).
Proof. rewrite <- (bigsum_rev (seq 0 (S n))). rewrite rev_seq_S, bigsum_map. reflexivity. Qed.

Lemma bigsum_triangle n (F : nat -> nat -> Qc) :
  bigsum (seq 0 (S n)) (fun i => bigsum (seq 0 (S i)) (fun j => F i j))
  = bigsum (seq 0 (S n)) (fun j => bigsum (seq 0 (S (n - j))) (fun k => F (j + k)%nat j)).
Proof.
  induction n as [|n IH].
  - cbn. reflexivity.
  - rewrite (bigsum_seq_last (S n)). rewrite IH. clear IH.
    rewrite (bigsum_seq_last (S n) (fun j => bigsum (seq 0 (S (S n - j))) (fun k => F (j + k)%nat j))).
    rewrite Nat.sub_diag. change (seq 0 1) with [0%nat]. rewrite (bigsum_cons 0%nat []), bigsum_nil. rewrite Nat.add_0_r.
    rewrite (bigsum_seq_last (S n) (fun j => F (S n) j)).
    assert (E : bigsum (seq 0 (S n)) (fun j => bigsum (seq 0 (S (S n - j))) (fun k => F (j + k)%nat j))
                = bigsum (seq 0 (S n)) (fun j => bigsum (seq 0 (S (n - j))) (fun k => F (j + k)%nat j))
                  + bigsum (seq 0 (S n)) (fun j => F (S n) j)).
    { rewrite <- bigsum_add. apply bigsum_ext. intros j Hj. apply in_seq in Hj.
      replace (S n - j)%nat with (S (n - j)) by lia.
      rewrite (bigsum_seq_last (S (n - j))). f_equal. f_equal. lia. }
    rewrite E. ring.
Qed.

(* ------------------------------------------------------------------------------------ *)
(** * Cauchy product, derivative                                                       *)
(* ------------------------------------------------------------------------------------ *)

Definition conv (a b : seqc) : seqc := fun n => bigsum (seq 0 (S n)) (fun j => a j * b (n - j)%nat).
Definition sD (a : seqc) : seqc := fun n => nq (S n) * a (S n).
Definition sone : seqc := fun n => match n with O => 1 | S _ => 0 end.
Definition sadd (a b : seqc) : seqc := fun n => a n + b n.
Definition ssub (a b : seqc) : seqc := fun n => a n - b n.
Definition sscal (c : Qc) (a : seqc) : seqc := fun n => c * a n.
Fixpoint cpow (w : seqc) (j : nat) : seqc := match j with O => sone | S j' => conv w (cpow w j') end.

Lemma conv_ext a a' b b' n :
  (forall j, (j <= n)%nat -> a j = a' j) -> (forall j, (j <= n)%nat -> b j = b' j) -> conv a b n = conv a' b' n.
Proof.
  intros Ha Hb. apply bigsum_ext. intros j Hj. apply in_seq in Hj. rewrite Ha, Hb by lia. reflexivity.
Qed.

Lemma conv_comm a b n : conv a b n = conv b a n.
Proof.
  unfold conv. rewrite bigsum_flip. apply bigsum_ext. intros j Hj. apply in_seq in Hj.
  replace (n - (n - j))%nat with j by lia. ring.
Qed.

Lemma conv_assoc a b c n : conv (conv a b) c n = conv a (conv b c) n.
Proof.
  unfold conv.
  rewrite (bigsum_ext _ _ (fun i => bigsum (seq 0 (S i)) (fun j => a j * b (i - j)%nat * c (n - i)%nat))).
  2:{ intros i _. rewrite <- bigsum_scal_r. reflexivity. }
  rewrite bigsum_triangle. apply bigsum_ext. intros j Hj. apply in_seq in Hj.
  rewrite <- bigsum_scal. apply bigsum_ext. intros k Hk. apply in_seq in Hk.
  replace (j + k - j)%nat with k by lia. replace (n - (j + k))%nat with (n - j - k)%nat by lia. ring.
Qed.

Lemma conv_add_l a b c n : conv (sadd a b) c n = conv a c n + conv b c n.
Proof. unfold conv, sadd. rewrite <- bigsum_add. apply bigsum_ext. intros; ring. Qed.
Lemma conv_add_r a b c n : conv a (sadd b c) n = conv a b n + conv a c n.
Proof. unfold conv, sadd. rewrite <- bigsum_add. apply bigsum_ext. intros; ring. Qed.
Lemma conv_sub_l a b c n : conv (ssub a b) c n = conv a c n - conv b c n.
Proof.
  unfold conv, ssub. unfold Qcminus at 2. rewrite <- bigsum_opp, <- bigsum_add. apply bigsum_ext. intros; ring.
Qed.
Lemma conv_scal_l x a b n : conv (sscal x a) b n = x * conv a b n.
Proof. unfold conv, sscal. rewrite <- bigsum_scal. apply bigsum_ext. intros; ring. Qed.

Lemma conv_one_l a n : conv sone a n = a n.
Proof.
  unfold conv. rewrite bigsum_seq_first. cbn [sone]. rewrite Nat.sub_0_r.
  rewrite bigsum_single; [ring|]. intros j _. cbn [sone]. ring.
Qed.
Lemma conv_one_r a n : conv a sone n = a n.
Proof. rewrite conv_comm. apply conv_one_l. Qed.

(* splitting off the j = 0 term *)
Lemma conv_head a b n : conv a b (S n) = a O * b (S n) + conv (fun j => a (S j)) b n.
Proof. unfold conv. rewrite bigsum_seq_first. rewrite Nat.sub_0_r. reflexivity. Qed.

(* a series with zero constant term: its j-th power starts at degree j *)
Lemma cpow_low w : w O = 0 -> forall j n, (n < j)%nat -> cpow w j n = 0.
Proof.
  intros H0. induction j as [|j IH]; intros n Hn; [lia|].
  cbn [cpow]. unfold conv. apply bigsum_single. intros i Hi. apply in_seq in Hi.
  destruct i as [|i]; [rewrite H0; ring|]. rewrite IH by lia. ring.
Qed.

Lemma conv_low a b n : (forall j, (j <= n)%nat -> a j = 0) -> conv a b n = 0.
Proof. intros H. apply bigsum_single. intros j Hj. apply in_seq in Hj. rewrite H by lia. ring. Qed.

(* Leibniz *)
Lemma sD_conv a b n : sD (conv a b) n = conv (sD a) b n + conv a (sD b) n.
Proof.
  unfold sD at 1. unfold conv at 1.
  (* right summands as sums over 0..n+1 *)
  assert (H1 : conv (sD a) b n = bigsum (seq 0 (S (S n))) (fun j => nq j * (a j * b (S n - j)%nat))).
  { rewrite (bigsum_seq_first (S n)). rewrite nq_0, Qcmult_0_l, Qcplus_0_l.
    apply bigsum_ext. intros j _. unfold sD. cbn [Nat.sub]. ring. }
  assert (H2 : conv a (sD b) n = bigsum (seq 0 (S (S n))) (fun j => nq (S n - j) * (a j * b (S n - j)%nat))).
  { rewrite (bigsum_seq_last (S n)). rewrite Nat.sub_diag, nq_0, Qcmult_0_l, Qcplus_0_r.
    apply bigsum_ext. intros j Hj. apply in_seq in Hj. unfold sD.
    replace (S n - j)%nat with (S (n - j)) by lia. ring. }
  rewrite H1, H2, <- bigsum_add, <- bigsum_scal. apply bigsum_ext. intros j Hj. apply in_seq in Hj.
  replace (nq (S n)) with (nq j + nq (S n - j)) by (rewrite <- nq_add; f_equal; lia). ring.
Qed.

Lemma sD_ssub a b n : sD (ssub a b) n = sD a n - sD b n.
Proof. unfold sD, ssub. ring. Qed.
Lemma sD_sone n : sD sone n = 0.
Proof. unfold sD. cbn [sone]. ring. Qed.

(* ------------------------------------------------------------------------------------ *)
(** * the recursion  D a = D c * a  (below order N)                                     *)
(* ------------------------------------------------------------------------------------ *)

Definition egf_rec (N : nat) (a c : seqc) : Prop := forall n, (n < N)%nat -> sD a n = conv (sD c) a n.

(* uniqueness *)
Lemma egf_rec_unique N a c c' : a O = 1 -> egf_rec N a c -> egf_rec N a c' ->
  forall n, (n < N)%nat -> c (S n) = c' (S n).
Proof.
  intros H0 H H'. induction n as [n IH] using lt_wf_ind. intros Hn.
  pose proof (H n Hn) as E. pose proof (H' n Hn) as E'. rewrite E in E'. clear E.
  unfold conv in E'. rewrite !(bigsum_seq_last n) in E'. rewrite Nat.sub_diag, H0 in E'.
  assert (ES : bigsum (seq 0 n) (fun j => sD c j * a (n - j)%nat) = bigsum (seq 0 n) (fun j => sD c' j * a (n - j)%nat)).
  { apply bigsum_ext. intros j Hj. apply in_seq in Hj. unfold sD. rewrite (IH j) by lia. reflexivity. }
  rewrite ES in E'. unfold sD in E' at 2 4.
  assert (E2 : nq (S n) * c (S n) = nq (S n) * c' (S n)).
  { transitivity (bigsum (seq 0 n) (fun j => sD c' j * a (n - j)%nat) + nq (S n) * c (S n) * 1
                  - bigsum (seq 0 n) (fun j => sD c' j * a (n - j)%nat)); [ring|]. rewrite E'. ring. }
  assert (E3 : c (S n) - c' (S n) = 0).
  { apply Qcmult_integral_l with (nq (S n)); [apply nq_S_neq0|].
    transitivity (nq (S n) * c (S n) - nq (S n) * c' (S n)); [ring|]. rewrite E2. ring. }
  transitivity (c (S n) - c' (S n) + c' (S n)); [ring|]. rewrite E3. ring.
Qed.

(* additivity: products of series add the solutions *)
Lemma egf_rec_mul N a1 c1 a2 c2 :
  egf_rec N a1 c1 -> egf_rec N a2 c2 -> egf_rec N (conv a1 a2) (sadd c1 c2).
Proof.
  intros H1 H2 n Hn. rewrite sD_conv.
  assert (E1 : conv (sD a1) a2 n = conv (conv (sD c1) a1) a2 n).
  { apply conv_ext; [|reflexivity]. intros j Hj. apply H1. lia. }
  assert (E2 : conv a1 (sD a2) n = conv a1 (conv (sD c2) a2) n).
  { apply conv_ext; [reflexivity|]. intros j Hj. apply H2. lia. }
  rewrite E1, E2.
  assert (E3 : conv (sD (sadd c1 c2)) (conv a1 a2) n = conv (sadd (sD c1) (sD c2)) (conv a1 a2) n).
  { apply conv_ext; [|reflexivity]. intros j _. unfold sD, sadd. ring. }
  rewrite E3, conv_add_l. f_equal.
  - apply conv_assoc.
  - (* a1 * (Dc2 * a2) = Dc2 * (a1 * a2) *)
    rewrite <- (conv_assoc a1 (sD c2) a2 n). rewrite <- (conv_assoc (sD c2) a1 a2 n).
    apply conv_ext; [|reflexivity]. intros j _. apply conv_comm.
Qed.

(* ------------------------------------------------------------------------------------ *)
(** * the logarithm series                                                             *)
(* ------------------------------------------------------------------------------------ *)

(* log a = - sum_{j=1..N} (1 - a)^j / j ; coefficient n is independent of N > n... *)
Definition geo (N : nat) (w : seqc) : seqc := fun n => bigsum (seq 0 N) (fun j => cpow w j n).
Definition logser (N : nat) (a : seqc) : seqc :=
  fun n => - bigsum (seq 0 N) (fun j => cpow (ssub sone a) (S j) n / nq (S j)).

Lemma sD_cpow w j n : sD (cpow w (S j)) n = nq (S j) * conv (cpow w j) (sD w) n.
Proof.
  revert n. induction j as [|j IH]; intros n.
  - cbn [cpow]. rewrite conv_one_l. unfold sD at 1. rewrite conv_one_r. unfold sD.
    replace (nq 1) with 1 by reflexivity. ring.
  - change (cpow w (S (S j))) with (conv w (cpow w (S j))). rewrite sD_conv.
    assert (E : conv w (sD (cpow w (S j))) n = conv w (sscal (nq (S j)) (conv (cpow w j) (sD w))) n).
    { apply conv_ext; [reflexivity|]. intros i _. apply IH. }
    rewrite E. rewrite (conv_comm w (sscal _ _)), conv_scal_l. rewrite (conv_comm _ w).
    rewrite <- conv_assoc. change (conv w (cpow w j)) with (cpow w (S j)).
    rewrite (conv_comm (sD w)). rewrite (nq_S (S j)). ring.
Qed.

(* (1 - w) * (1 + w + ... + w^(N-1)) = 1 - w^N *)
Lemma geo_telescope N w n : conv (ssub sone w) (geo N w) n = sone n - cpow w N n.
Proof.
  rewrite conv_sub_l, conv_one_l. revert n. induction N as [|N IH]; intros n.
  - unfold geo. cbn [seq]. rewrite bigsum_nil. cbn [cpow].
    rewrite conv_comm. rewrite conv_low by (intros; reflexivity). ring.
  - assert (E1 : geo (S N) w n = geo N w n + cpow w N n).
    { unfold geo. rewrite seq_S, bigsum_app, bigsum_cons, bigsum_nil. cbn [Nat.add]. ring. }
    assert (E2 : conv w (geo (S N) w) n = conv w (geo N w) n + cpow w (S N) n).
    { cbn [cpow]. rewrite <- conv_add_r. apply conv_ext; [reflexivity|]. intros j _.
      unfold sadd, geo. rewrite seq_S, bigsum_app, bigsum_cons, bigsum_nil. cbn [Nat.add]. ring. }
    rewrite E1, E2. specialize (IH n).
    transitivity ((geo N w n - conv w (geo N w) n) + cpow w N n - cpow w (S N) n); [ring|].
    rewrite IH. cbn [cpow]. ring.
Qed.

Lemma sD_logser N a n : sD (logser N a) n = conv (geo N (ssub sone a)) (sD a) n.
Proof.
  set (w := ssub sone a). unfold sD at 1. unfold logser. fold w.
  assert (E : nq (S n) * - bigsum (seq 0 N) (fun j => cpow w (S j) (S n) / nq (S j))
              = - bigsum (seq 0 N) (fun j => sD (cpow w (S j)) n / nq (S j))).
  { f_equal. rewrite <- bigsum_opp. rewrite <- bigsum_opp, <- bigsum_scal. apply bigsum_ext. intros j _.
    unfold sD. field. apply nq_S_neq0. }
  rewrite E. clear E.
  assert (E : bigsum (seq 0 N) (fun j => sD (cpow w (S j)) n / nq (S j))
              = bigsum (seq 0 N) (fun j => conv (cpow w j) (sD w) n)).
  { apply bigsum_ext. intros j _. rewrite sD_cpow. field. apply nq_S_neq0. }
  rewrite E. clear E.
  (* D w = - D a *)
  assert (E : forall j, conv (cpow w j) (sD w) n = - conv (cpow w j) (sD a) n).
  { intros j. unfold conv. rewrite <- bigsum_opp. apply bigsum_ext. intros i _.
    unfold w. rewrite sD_ssub, sD_sone. ring. }
  rewrite (bigsum_ext _ _ (fun j => - conv (cpow w j) (sD a) n)) by (intros; apply E).
  rewrite bigsum_opp. rewrite Qcopp_involutive.
  (* sum of convs = conv of sum *)
  unfold conv, geo. rewrite bigsum_swap. apply bigsum_ext. intros i _. rewrite bigsum_scal_r. reflexivity.
Qed.

(* the log series satisfies the recursion below its truncation order *)
Theorem logser_rec N a : a O = 1 -> egf_rec N a (logser N a).
Proof.
  intros H0 n Hn. set (w := ssub sone a).
  assert (Hw : w O = 0) by (unfold w, ssub; cbn [sone]; rewrite H0; ring).
  assert (E : conv (sD (logser N a)) a n = conv (conv (geo N w) (sD a)) a n).
  { apply conv_ext; [|reflexivity]. intros j _. apply sD_logser. }
  rewrite E. clear E.
  (* (G * Da) * a = (a * G) * Da = (1 - w^N) * Da *)
  rewrite conv_assoc. rewrite (conv_comm (geo N w)). rewrite conv_assoc.
  assert (E : conv (sD a) (conv a (geo N w)) n = conv (sD a) (ssub sone (cpow w N)) n).
  { apply conv_ext; [reflexivity|]. intros j _.
    assert (Ea : forall i, a i = ssub sone w i) by (intros i; unfold w, ssub; ring).
    rewrite (conv_ext a (ssub sone w) (geo N w) (geo N w) j) by (intros; auto).
    apply geo_telescope. }
  rewrite E. clear E. rewrite conv_comm, conv_sub_l, conv_one_l.
  rewrite (conv_low (cpow w N)); [ring|]. intros j Hj. apply cpow_low; [exact Hw | lia].
Qed.

(* ------------------------------------------------------------------------------------ *)
(** * moment / cumulant coordinates                                                    *)
(* ------------------------------------------------------------------------------------ *)

Definition egf (m : seqc) : seqc := fun n => m n / factq n.

(* the recursion computed by raw_moments_to_cumulants (binomial form) *)
Definition cum_rec (N : nat) (m kap : seqc) : Prop :=
  forall i, (1 <= i <= N)%nat ->
    m i = bigsum (pyrange 1 (i + 1)) (fun k => bq (i - 1) (k - 1) * kap k * m (i - k)%nat).

Lemma cum_rec_egf N m kap : cum_rec N m kap <-> egf_rec N (egf m) (egf kap).
Proof.
  assert (K : forall n, sD (egf m) n = m (S n) / factq n
                       /\ conv (sD (egf kap)) (egf m) n
                          = bigsum (pyrange 1 (S n + 1)) (fun k => bq (S n - 1) (k - 1) * kap k * m (S n - k)%nat) / factq n).
  { intros n. split.
    - unfold sD, egf. rewrite factq_S. field. split; [apply factq_neq0 | apply nq_S_neq0].
    - unfold conv. unfold Qcdiv. rewrite <- bigsum_scal_r.
      replace (S n + 1)%nat with (S (S n)) by lia. rewrite pyrange_shift, pyrange_0, bigsum_map.
      apply bigsum_ext. intros j Hj. apply in_seq in Hj. cbn [Nat.sub]. rewrite !Nat.sub_0_r.
      rewrite (bq_fact n j) by lia. unfold sD, egf. rewrite (factq_S j).
      field. repeat split; try apply factq_neq0; apply nq_S_neq0. }
  split; intros H.
  - intros n Hn. destruct (K n) as [K1 K2]. rewrite K1, K2. rewrite (H (S n)) by lia. reflexivity.
  - intros i Hi. destruct i as [|n]; [lia|]. destruct (K n) as [K1 K2].
    pose proof (H n ltac:(lia)) as E. rewrite K1, K2 in E.
    transitivity (m (S n) / factq n * factq n); [field; apply factq_neq0|]. rewrite E. field. apply factq_neq0.
Qed.

Lemma egf_0 m : m O = 1 -> egf m O = 1.
Proof. intros H. unfold egf. rewrite H, factq_0. field. intros E; discriminate E. Qed.

Theorem cum_rec_unique N m kap kap' : m O = 1 -> cum_rec N m kap -> cum_rec N m kap' ->
  forall i, (1 <= i <= N)%nat -> kap i = kap' i.
Proof.
  intros H0 H H' i Hi. destruct i as [|n]; [lia|].
  apply cum_rec_egf in H. apply cum_rec_egf in H'.
  pose proof (egf_rec_unique N _ _ _ (egf_0 m H0) H H' n ltac:(lia)) as E. unfold egf in E.
  transitivity (kap (S n) / factq (S n) * factq (S n)); [field; apply factq_neq0|]. rewrite E. field. apply factq_neq0.
Qed.

(* binomial convolution of moment sequences = product of EGFs *)
Definition bconv (m1 m2 : seqc) : seqc := fun n => bigsum (seq 0 (S n)) (fun j => bq n j * m1 j * m2 (n - j)%nat).

Lemma egf_bconv m1 m2 n : egf (bconv m1 m2) n = conv (egf m1) (egf m2) n.
Proof.
  unfold egf at 1. unfold bconv, conv. unfold Qcdiv. rewrite <- bigsum_scal_r. apply bigsum_ext.
  intros j Hj. apply in_seq in Hj. rewrite (bq_fact n j) by lia. unfold egf. field.
  repeat split; apply factq_neq0.
Qed.

Theorem cum_rec_additive N m1 k1 m2 k2 :
  cum_rec N m1 k1 -> cum_rec N m2 k2 -> cum_rec N (bconv m1 m2) (sadd k1 k2).
Proof.
  intros H1 H2. apply cum_rec_egf. apply cum_rec_egf in H1. apply cum_rec_egf in H2.
  pose proof (egf_rec_mul N _ _ _ _ H1 H2) as H. intros n Hn. specialize (H n Hn).
  assert (E1 : sD (egf (bconv m1 m2)) n = sD (conv (egf m1) (egf m2)) n).
  { unfold sD. rewrite egf_bconv. reflexivity. }
  rewrite E1, H. apply conv_ext.
  - intros j _. unfold sD, egf, sadd. field. apply factq_neq0.
  - intros j _. symmetry. apply egf_bconv.
Qed.

(* independent definition of cumulants: kappa_n = n! [t^n] log (sum_k m_k t^k / k!) *)
Definition cumulant_log (m : seqc) (n : nat) : Qc := factq n * logser n (egf m) n.

Theorem cum_rec_is_log N m kap : m O = 1 -> cum_rec N m kap ->
  forall i, (1 <= i <= N)%nat -> kap i = cumulant_log m i.
Proof.
  intros H0 H i Hi. unfold cumulant_log.
  assert (Hi' : cum_rec i m kap) by (intros j Hj; apply H; lia).
  apply cum_rec_egf in Hi'.
  pose proof (logser_rec i (egf m) (egf_0 m H0)) as HL.
  destruct i as [|n]; [lia|].
  pose proof (egf_rec_unique (S n) _ _ _ (egf_0 m H0) Hi' HL n ltac:(lia)) as E.
  rewrite <- E. unfold egf. field. apply factq_neq0.
Qed.

Lemma cum_rec_ext N m m' kap kap' :
  (forall i, (i <= N)%nat -> m i = m' i) -> (forall i, (1 <= i <= N)%nat -> kap i = kap' i) ->
  cum_rec N m kap -> cum_rec N m' kap'.
Proof.
  intros Hm Hk H i Hi. rewrite <- Hm by lia. rewrite (H i Hi). apply bigsum_ext.
  intros k Hk'. apply in_pyrange in Hk'. rewrite Hk by lia. rewrite Hm by lia. reflexivity.
Qed.

(* homogeneity: scaling the moments by c^i scales the cumulants by c^i *)
Theorem cum_rec_scale N c m kap :
  cum_rec N m kap -> cum_rec N (fun i => qpow c i * m i) (fun i => qpow c i * kap i).
Proof.
  intros H i Hi. rewrite (H i Hi). rewrite <- bigsum_scal. apply bigsum_ext.
  intros k Hk. apply in_pyrange in Hk.
  replace i with (k + (i - k))%nat at 1 by lia. rewrite qpow_add. ring.
Qed.

(* cumulants of a constant c: (c, 0, 0, ...) *)
Theorem cum_rec_const N c :
  cum_rec N (fun i => qpow c i) (fun i => match i with 1%nat => c | _ => 0 end).
Proof.
  intros i Hi. destruct i as [|n]; [lia|].
  replace (S n + 1)%nat with (S (S n)) by lia. rewrite pyrange_shift, pyrange_0, bigsum_map.
  rewrite bigsum_seq_first. cbn [Nat.sub]. rewrite Nat.sub_0_r, bq_0_r.
  rewrite bigsum_single; [cbn [qpow]; ring|]. intros j _. ring.
Qed.

(* ------------------------------------------------------------------------------------ *)
(** * operations on finite laws                                                        *)
(* ------------------------------------------------------------------------------------ *)

(* law of X + Y for independent X ~ L1, Y ~ L2 *)
Definition indep_sum (L1 L2 : law) : law :=
  flat_map (fun p => map (fun q => (fst p * fst q, snd p + snd q)) L2) L1.
Definition shift_law (c : Qc) (L : law) : law := map (fun p => (fst p, snd p + c)) L.
Definition scale_law (c : Qc) (L : law) : law := map (fun p => (fst p, c * snd p)) L.

Lemma Ex_indep_sum L1 L2 f : Ex (indep_sum L1 L2) f = Ex L1 (fun x => Ex L2 (fun y => f (x + y))).
Proof.
  unfold Ex, indep_sum. induction L1 as [|p L1 IH]; [reflexivity|].
  cbn [flat_map]. rewrite bigsum_app, bigsum_cons, IH. f_equal.
  rewrite bigsum_map. rewrite <- bigsum_scal. apply bigsum_ext. intros q _. cbn [fst snd]. ring.
Qed.
Lemma Ex_shift_law c L f : Ex (shift_law c L) f = Ex L (fun x => f (x + c)).
Proof. unfold Ex, shift_law. rewrite bigsum_map. reflexivity. Qed.
Lemma Ex_scale_law c L f : Ex (scale_law c L) f = Ex L (fun x => f (c * x)).
Proof. unfold Ex, scale_law. rewrite bigsum_map. reflexivity. Qed.

Lemma mass_indep_sum L1 L2 : mass (indep_sum L1 L2) = mass L1 * mass L2.
Proof.
  unfold mass. rewrite Ex_indep_sum. rewrite (Ex_ext L1 _ (fun _ => Ex L2 (fun _ => 1) * 1)) by (intros; ring).
  rewrite Ex_scal. ring.
Qed.

Theorem raw_indep_sum L1 L2 n : raw (indep_sum L1 L2) n = bconv (raw L1) (raw L2) n.
Proof.
  unfold raw at 1. rewrite Ex_indep_sum. unfold bconv.
  rewrite (Ex_ext L1 _ (fun x => bigsum (seq 0 (S n)) (fun j => (bq n j * raw L2 (n - j)%nat) * qpow x j))).
  2:{ intros p _.
      rewrite (Ex_ext L2 _ (fun y => bigsum (seq 0 (S n)) (fun j => (bq n j * qpow (snd p) j) * qpow y (n - j)%nat))).
      2:{ intros q _. rewrite binomial_theorem. apply bigsum_ext. intros; ring. }
      rewrite Ex_bigsum. apply bigsum_ext. intros j _. rewrite Ex_scal. unfold raw. ring. }
  rewrite Ex_bigsum. apply bigsum_ext. intros j _. rewrite Ex_scal. unfold raw. ring.
Qed.

Lemma raw_shift_law c L n : raw (shift_law c L) n = bconv (raw L) (fun i => qpow c i) n.
Proof.
  unfold raw at 1. rewrite Ex_shift_law. unfold bconv.
  rewrite (Ex_ext L _ (fun x => bigsum (seq 0 (S n)) (fun j => (bq n j * qpow c (n - j)%nat) * qpow x j))).
  2:{ intros p _. rewrite binomial_theorem. apply bigsum_ext. intros; ring. }
  rewrite Ex_bigsum. apply bigsum_ext. intros j _. rewrite Ex_scal. unfold raw. ring.
Qed.

Lemma raw_scale_law c L n : raw (scale_law c L) n = qpow c n * raw L n.
Proof.
  unfold raw. rewrite Ex_scale_law. rewrite <- Ex_scal. apply Ex_ext. intros p _. apply qpow_mul_base.
Qed.

(* prepared for the proposed repair of utils.statistics.comb (integer floor division): the
   repaired expression is the binomial coefficient for ALL n, k *)
Lemma comb_intdiv_spec n k :
  (if (n <? k)%nat then 0%Z else (zfact n / (zfact k * zfact (n - k)))%Z) = binom n k.
Proof.
  destruct (n <? k)%nat eqn:E.
  - apply Nat.ltb_lt in E. rewrite binom_gt by exact E. reflexivity.
  - apply Nat.ltb_ge in E. rewrite <- (binom_fact n k E). rewrite <- Z.mul_assoc.
    apply Z.div_mul. pose proof (zfact_pos k). pose proof (zfact_pos (n - k)). lia.
Qed.
