(* C19 — token-level reference grammar of Polar's conditions, as inputparser/syntax.lark
   lists them and as the LALR tables resolve them:

       condition: atom | NOT "(" condition ")" | condition (AND | OR) condition | "(" condition ")"
       atom: arithm COP arithm | TRUE | FALSE

   "!" needs its parentheses; "&&" and "||" have ONE precedence level and the
   shift/reduce conflict of [condition (AND|OR) condition] is resolved by shifting, i.e. both
   associate to the right:  a && b || c  is  a && (b || c).  (K checks this against lark.)

       cond ::= prim [("&&" | "||") cond]
       prim ::= "true" | "false" | "!" "(" cond ")" | sum COP sum | "(" cond ")"

   A leading "(" may open an arithmetic operand or a parenthesised condition; the reference
   parser tries the comparison first and falls back.  Theorem: every spelling of a
   condition AST (any redundant parentheses, inside the arithmetic too) parses back. *)
From Coq Require Import String List NArith Arith Bool Lia.
From Polar Require Import Parse.
Import ListNotations.

Inductive sc :=
| KTrue | KFalse
| KAtom (a : sx) (c : scop) (b : sx)
| KNot (c : sc)
| KAnd (c1 c2 : sc)
| KOr (c1 c2 : sc).

Definition cres := option (sc * list tok).
Definition cparser := list tok -> cres.

Definition boolop (t : tok) : option (sc -> sc -> sc) :=
  match t with TAnd => Some KAnd | TOr => Some KOr | _ => None end.

(* arithm COP arithm *)
Definition atomc (ts : list tok) : cres :=
  match esum ts with
  | Some (a, TCop c :: r) =>
    match esum r with Some (b, r') => Some (KAtom a c b, r') | None => None end
  | _ => None
  end.

Definition paren_of (rec : cparser) (ts : list tok) : cres :=
  match ts with
  | TLp :: r => match rec r with Some (c, TRp :: r') => Some (c, r') | _ => None end
  | _ => None
  end.

Definition prim_of (rec : cparser) (ts : list tok) : cres :=
  match ts with
  | TTrue :: r => Some (KTrue, r)
  | TFalse :: r => Some (KFalse, r)
  | TNot :: r => match paren_of rec r with Some (c, r') => Some (KNot c, r') | None => None end
  | _ => match atomc ts with
         | Some x => Some x
         | None => paren_of rec ts
         end
  end.

Definition cond_of (rec : cparser) (ts : list tok) : cres :=
  match prim_of rec ts with
  | Some (c1, t :: r) =>
    match boolop t with
    | Some op => match rec r with Some (c2, r') => Some (op c1 c2, r') | None => None end
    | None => Some (c1, t :: r)
    end
  | x => x
  end.

Fixpoint cnd (f : nat) : cparser :=
  match f with
  | O => fun _ => None
  | S f' => cond_of (cnd f')
  end.

Definition parse_cond (ts : list tok) : option sc :=
  match cnd (length ts) ts with Some (c, []) => Some c | _ => None end.

(* ---- spellings ----------------------------------------------------------------------- *)
(* level 0: a condition; level 1: an operand of && / || on the left (a primary) *)
Inductive prc : nat -> sc -> list tok -> Prop :=
| prc_true l : prc l KTrue [TTrue]
| prc_false l : prc l KFalse [TFalse]
| prc_atom l a c b ta tb : pr 0 a ta -> pr 0 b tb -> prc l (KAtom a c b) (ta ++ TCop c :: tb)
| prc_not l c ts : prc 0 c ts -> prc l (KNot c) (TNot :: TLp :: ts ++ [TRp])
| prc_paren l c ts : prc 0 c ts -> prc l c (TLp :: ts ++ [TRp])
| prc_bool t op c1 c2 t1 t2 : boolop t = Some op -> prc 1 c1 t1 -> prc 0 c2 t2 ->
    prc 0 (op c1 c2) (t1 ++ t :: t2).

Lemma prc_weaken l c ts : prc l c ts -> prc 0 c ts.
Proof. induction 1; try (constructor; assumption); eapply prc_bool; eassumption. Qed.

Definition is_bool (t : tok) : bool := match boolop t with Some _ => true | None => false end.
Definition is_cont (t : tok) : bool := is_arith t || is_bool t.

(* ---- a spelling of a condition is never (a prefix of) an arithmetic operand followed by
        ")" : the arithmetic prefix parser fails on it or stops at a comparison operator --- *)
Definition arith_stops (ts : list tok) : Prop :=
  forall rest f n, sum (factor f) n (ts ++ rest) = None \/
                   exists a c r, sum (factor f) n (ts ++ rest) = Some (a, TCop c :: r).

Lemma factor_fail_hd f t r :
  match t with TNum _ _ | TId _ | TLp | TMinus => False | _ => True end ->
  factor f (t :: r) = None.
Proof. destruct f; [reflexivity|]. destruct t; simpl; intros H; try reflexivity; destruct H. Qed.

Lemma sum_fail_of_factor fac n ts : fac ts = None -> sum fac n ts = None.
Proof. intros H. unfold sum, chain, term, chain. rewrite H. reflexivity. Qed.

Lemma factor_paren_fail f r :
  (forall f' n', sum (factor f') n' r = None \/ exists a c r', sum (factor f') n' r = Some (a, TCop c :: r')) ->
  factor f (TLp :: r) = None.
Proof.
  intros H. destruct f as [|f]; [reflexivity|]. simpl. unfold power_of. simpl.
  destruct (H f f) as [E|(a & c & r' & E)]; rewrite E; reflexivity.
Qed.

Lemma prc_arith_stops : forall l c ts, prc l c ts -> arith_stops ts.
Proof.
  induction 1 as [l | l | l a c b ta tb Ha Hb | l c ts Hc IH | l c ts Hc IH | t op c1 c2 t1 t2 Hop H1 IH1 H2 IH2];
    intros rest f n.
  - left. apply sum_fail_of_factor. apply factor_fail_hd. exact I.
  - left. apply sum_fail_of_factor. apply factor_fail_hd. exact I.
  - rewrite <- app_assoc. simpl.
    destruct (sum (factor f) n (ta ++ TCop c :: tb ++ rest)) as [x|] eqn:E; [|left; reflexivity].
    right. apply (sum_spelling_any_fuel a ta) in E; [|exact Ha|reflexivity].
    subst x. eauto.
  - left. apply sum_fail_of_factor. apply factor_fail_hd. exact I.
  - left. apply sum_fail_of_factor. simpl app. rewrite <- app_assoc. simpl app.
    apply factor_paren_fail. intros f' n'. apply IH.
  - rewrite <- app_assoc. apply IH1.
Qed.

Lemma atomc_paren_fails c ts rest : prc 0 c ts -> atomc (TLp :: ts ++ TRp :: rest) = None.
Proof.
  intros H. unfold atomc, esum.
  rewrite sum_fail_of_factor; [reflexivity|].
  apply factor_paren_fail. intros f' n'. apply (prc_arith_stops _ _ _ H).
Qed.

(* ---- completeness ---------------------------------------------------------------------- *)
Lemma pr_head l e ts : pr l e ts ->
  exists t r, ts = t :: r /\ match t with TNum _ _ | TId _ | TLp | TMinus => True | _ => False end.
Proof.
  induction 1.
  - eexists _, _; split; [reflexivity | exact I].
  - eexists _, _; split; [reflexivity | exact I].
  - eexists _, _; split; [reflexivity | exact I].
  - destruct IHpr1 as (t0 & r0 & -> & Ht0). eexists _, _; split; [reflexivity | exact Ht0].
  - destruct IHpr1 as (t0 & r0 & -> & Ht0). eexists _, _; split; [reflexivity | exact Ht0].
  - eexists _, _; split; [reflexivity | exact I].
  - destruct IHpr1 as (t0 & r0 & -> & Ht0). eexists _, _; split; [reflexivity | exact Ht0].
Qed.

Lemma prim_of_arith_head rec t r :
  match t with TNum _ _ | TId _ | TLp | TMinus => True | _ => False end ->
  prim_of rec (t :: r) = match atomc (t :: r) with Some x => Some x | None => paren_of rec (t :: r) end.
Proof. destruct t; intros H; try destruct H; reflexivity. Qed.

Lemma prc_nonempty l c ts : prc l c ts -> 1 <= length ts.
Proof.
  induction 1; simpl; try lia.
  - rewrite app_length. simpl. lia.
  - rewrite app_length. simpl. lia.
Qed.

Definition Pm (c : sc) (ts : list tok) : Prop :=
  forall f rest, hd_ok is_arith rest -> length ts <= S f -> prim_of (cnd f) (ts ++ rest) = Some (c, rest).
Definition Cn (c : sc) (ts : list tok) : Prop :=
  forall f rest, hd_ok is_cont rest -> length ts <= f -> cnd f (ts ++ rest) = Some (c, rest).

Lemma Pm_Cn c ts : 1 <= length ts -> Pm c ts -> Cn c ts.
Proof.
  intros Hne HP f rest Hr Hlen.
  assert (Ha : hd_ok is_arith rest).
  { eapply hd_ok_weak; [|exact Hr]. intros t Ht. unfold is_cont. rewrite Ht. reflexivity. }
  destruct f as [|f]; [lia|].
  simpl. unfold cond_of. rewrite (HP f rest Ha ltac:(lia)).
  destruct rest as [|t r]; [reflexivity|].
  simpl in Hr. unfold is_cont in Hr. apply orb_false_iff in Hr. destruct Hr as [_ Hb].
  unfold is_bool in Hb. destruct (boolop t); [discriminate Hb | reflexivity].
Qed.

Lemma paren_of_cnd c ts f rest :
  Cn c ts -> 1 <= length ts -> length ts + 2 <= S f ->
  paren_of (cnd f) (TLp :: ts ++ TRp :: rest) = Some (c, rest).
Proof.
  intros HC Hne Hlen. simpl. rewrite (HC f (TRp :: rest)); [reflexivity | reflexivity | lia].
Qed.

Theorem prc_complete : forall l c ts, prc l c ts -> (1 <= l -> Pm c ts) /\ Cn c ts.
Proof.
  induction 1 as [l | l | l a c b ta tb Ha Hb | l c ts Hc IH | l c ts Hc IH | t op c1 c2 t1 t2 Hop H1 IH1 H2 IH2].
  - assert (HP : Pm KTrue [TTrue]) by (intros f rest _ _; reflexivity).
    split; [intros _; exact HP | apply Pm_Cn; [simpl; lia | exact HP]].
  - assert (HP : Pm KFalse [TFalse]) by (intros f rest _ _; reflexivity).
    split; [intros _; exact HP | apply Pm_Cn; [simpl; lia | exact HP]].
  - assert (HP : Pm (KAtom a c b) (ta ++ TCop c :: tb)).
    { intros f rest Hr _. rewrite <- app_assoc. simpl.
      destruct (pr_head _ _ _ Ha) as (t0 & r0 & E & Ht0).
      assert (Hat : atomc (ta ++ TCop c :: tb ++ rest) = Some (KAtom a c b, rest)).
      { unfold atomc. rewrite (esum_spelling a ta (TCop c :: tb ++ rest) Ha); [|reflexivity].
        rewrite (esum_spelling b tb rest Hb Hr). reflexivity. }
      revert Hat. rewrite E. simpl app. intros Hat.
      rewrite (prim_of_arith_head _ _ _ Ht0), Hat. reflexivity. }
    split; [intros _; exact HP | apply Pm_Cn; [rewrite app_length; simpl; lia | exact HP]].
  - destruct IH as [_ HC]. pose proof (prc_nonempty _ _ _ Hc) as Hne.
    assert (HP : Pm (KNot c) (TNot :: TLp :: ts ++ [TRp])).
    { intros f rest Hr Hlen. simpl in Hlen. rewrite app_length in Hlen. simpl in Hlen.
      simpl app. rewrite <- app_assoc. simpl app.
      unfold prim_of. rewrite (paren_of_cnd c ts f rest HC Hne); [reflexivity | lia]. }
    split; [intros _; exact HP | apply Pm_Cn; [simpl; lia | exact HP]].
  - destruct IH as [_ HC]. pose proof (prc_nonempty _ _ _ Hc) as Hne.
    assert (HP : Pm c (TLp :: ts ++ [TRp])).
    { intros f rest Hr Hlen. simpl in Hlen. rewrite app_length in Hlen. simpl in Hlen.
      simpl app. rewrite <- app_assoc. simpl app.
      rewrite (prim_of_arith_head _ TLp _ I).
      rewrite (atomc_paren_fails c ts rest Hc).
      apply paren_of_cnd; [exact HC | exact Hne | lia]. }
    split; [intros _; exact HP | apply Pm_Cn; [simpl; lia | exact HP]].
  - destruct IH1 as [HP1 _]. specialize (HP1 (le_n _)). destruct IH2 as [_ HC2].
    pose proof (prc_nonempty _ _ _ H1) as Hne1. pose proof (prc_nonempty _ _ _ H2) as Hne2.
    split; [intros Hl; lia|].
    intros f rest Hr Hlen. rewrite app_length in Hlen. simpl in Hlen.
    destruct f as [|f]; [lia|].
    rewrite <- app_assoc. simpl app. simpl cnd. unfold cond_of.
    rewrite (HP1 f (t :: t2 ++ rest)); [| |lia].
    + rewrite Hop. rewrite (HC2 f rest Hr ltac:(lia)). reflexivity.
    + simpl. destruct t; try reflexivity; discriminate Hop.
Qed.

(* every spelling of a condition parses to it, with fuel = number of tokens *)
Theorem parse_cond_spelling : forall c ts, prc 0 c ts -> parse_cond ts = Some c.
Proof.
  intros c ts H. destruct (prc_complete _ _ _ H) as [_ HC].
  unfold parse_cond. specialize (HC (length ts) [] I (le_n _)). rewrite app_nil_r in HC.
  rewrite HC. reflexivity.
Qed.

(* ---- printers ---------------------------------------------------------------------------- *)
Definition cop_tok (c : scop) : tok := TCop c.

(* fully parenthesising: both operands of && / || and the arithmetic are wrapped *)
Fixpoint printc_full (c : sc) : list tok :=
  match c with
  | KTrue => [TTrue]
  | KFalse => [TFalse]
  | KAtom a o b => print_full a ++ TCop o :: print_full b
  | KNot c => TNot :: paren (printc_full c)
  | KAnd c1 c2 => paren (printc_full c1) ++ TAnd :: paren (printc_full c2)
  | KOr c1 c2 => paren (printc_full c1) ++ TOr :: paren (printc_full c2)
  end.

Definition clevel (c : sc) : nat := match c with KAnd _ _ | KOr _ _ => 0 | _ => 1 end.
Definition parc (l : nat) (c : sc) (ts : list tok) : list tok := if clevel c <? l then paren ts else ts.

(* minimal parentheses: only a && / || standing on the LEFT of && / || is wrapped *)
Fixpoint printc_min (c : sc) : list tok :=
  match c with
  | KTrue => [TTrue]
  | KFalse => [TFalse]
  | KAtom a o b => print_min a ++ TCop o :: print_min b
  | KNot c => TNot :: paren (printc_min c)
  | KAnd c1 c2 => parc 1 c1 (printc_min c1) ++ TAnd :: printc_min c2
  | KOr c1 c2 => parc 1 c1 (printc_min c1) ++ TOr :: printc_min c2
  end.

Arguments paren : simpl never.

Lemma printc_full_prc : forall c, prc 0 c (printc_full c).
Proof.
  induction c; cbn [printc_full].
  - constructor.
  - constructor.
  - apply prc_atom; apply print_full_pr.
  - apply prc_not. exact IHc.
  - apply (prc_bool TAnd KAnd); [reflexivity | apply prc_paren; exact IHc1 | apply prc_paren; exact IHc2].
  - apply (prc_bool TOr KOr); [reflexivity | apply prc_paren; exact IHc1 | apply prc_paren; exact IHc2].
Qed.

Lemma printc_min_prc : forall c, prc (clevel c) c (printc_min c).
Proof.
  assert (Hpar : forall c ts, prc (clevel c) c ts -> prc 1 c (parc 1 c ts)).
  { intros c ts H. unfold parc. destruct c; simpl in *; try exact H; apply prc_paren; exact H. }
  induction c; cbn [printc_min clevel].
  - constructor.
  - constructor.
  - apply prc_atom; (eapply pr_weaken; [apply print_min_pr | lia]).
  - apply prc_not. eapply prc_weaken; exact IHc.
  - apply (prc_bool TAnd KAnd); [reflexivity | apply Hpar; exact IHc1 | eapply prc_weaken; exact IHc2].
  - apply (prc_bool TOr KOr); [reflexivity | apply Hpar; exact IHc1 | eapply prc_weaken; exact IHc2].
Qed.

Theorem parse_cond_print_full : forall c, parse_cond (printc_full c) = Some c.
Proof. intros c. apply parse_cond_spelling, printc_full_prc. Qed.

Theorem parse_cond_print_min : forall c, parse_cond (printc_min c) = Some c.
Proof. intros c. apply parse_cond_spelling. eapply prc_weaken. apply printc_min_prc. Qed.

Theorem cond_redundant_parens : forall c ts ts', prc 0 c ts -> prc 0 c ts' -> parse_cond ts = parse_cond ts'.
Proof. intros c ts ts' H H'. rewrite (parse_cond_spelling _ _ H), (parse_cond_spelling _ _ H'). reflexivity. Qed.

(* "&&" and "||" share one level and associate to the right, as the LALR tables of
   syntax.lark do (not C's convention): *)
Example cond_right_assoc :
  parse_cond [TId "x"; TCop Ogt; TNum 0 0; TAnd; TId "y"; TCop Ogt; TNum 0 0; TOr; TId "z"; TCop Ogt; TNum 0 0]
  = Some (KAnd (KAtom (XVar "x") Ogt (XNum 0 0)) (KOr (KAtom (XVar "y") Ogt (XNum 0 0)) (KAtom (XVar "z") Ogt (XNum 0 0)))).
Proof. vm_compute. reflexivity. Qed.
