(* Correspondence helpers for the IfTransformer model (harness/pass_if.py): boolean structural
   equality of flat programs with the polynomial parts compared up to Poly normal form (Polar's
   symengine expressions are dumped expanded and sorted, renaming changes the order), and the
   check that is evaluated inside Coq for every analysed program. *)
From Coq Require Import List String QArith Qcanon ZArith Bool Arith.
From Polar Require Import Qcx Dist Syntax Sem Types Poly PassIf PassIfAux.
Import ListNotations.
Local Open Scope Qc_scope.

Definition expr_eqn (a b : expr) : bool := pzero (psub (of_expr a) (of_expr b)).

Lemma expr_eqn_sound a b : expr_eqn a b = true -> forall s, eval a s = eval b s.
Proof.
  unfold expr_eqn. intros H s. pose proof (pzero_sound _ H s) as H0.
  rewrite eval_psub, !eval_of_expr in H0.
  assert (H1 : eval a s = eval a s - eval b s + eval b s) by ring. rewrite H1, H0. ring.
Qed.

Definition cop_eqb (o o' : cop) : bool :=
  match o, o' with
  | Ceq, Ceq => true | Cle, Cle => true | Cge, Cge => true | Clt, Clt => true | Cgt, Cgt => true
  | _, _ => false
  end.

Fixpoint cond_eqn (c d : cond) : bool :=
  match c, d with
  | CTrue, CTrue => true
  | CFalse, CFalse => true
  | CAtom a o b, CAtom a' o' b' => expr_eqn a a' && cop_eqb o o' && expr_eqn b b'
  | CNot c1, CNot d1 => cond_eqn c1 d1
  | CAnd c1 c2, CAnd d1 d2 => cond_eqn c1 d1 && cond_eqn c2 d2
  | COr c1 c2, COr d1 d2 => cond_eqn c1 d1 && cond_eqn c2 d2
  | _, _ => false
  end.

Lemma cond_eqn_sound c : forall d, cond_eqn c d = true -> forall s, holds c s = holds d s.
Proof.
  induction c as [| |a o b|c IH|c1 IH1 c2 IH2|c1 IH1 c2 IH2]; intros d H s; destruct d; cbn [cond_eqn] in H; try discriminate;
    cbn [holds].
  - reflexivity.
  - reflexivity.
  - apply andb_true_iff in H. destruct H as [H H3]. apply andb_true_iff in H. destruct H as [H1 H2].
    rewrite (expr_eqn_sound _ _ H1 s), (expr_eqn_sound _ _ H3 s). destruct o, c; try discriminate; reflexivity.
  - rewrite (IH _ H s). reflexivity.
  - apply andb_true_iff in H. destruct H as [H1 H2]. rewrite (IH1 _ H1 s), (IH2 _ H2 s). reflexivity.
  - apply andb_true_iff in H. destruct H as [H1 H2]. rewrite (IH1 _ H1 s), (IH2 _ H2 s). reflexivity.
Qed.

Fixpoint list_eqn {A} (eq : A -> A -> bool) (l l' : list A) : bool :=
  match l, l' with
  | [], [] => true
  | a :: r, a' :: r' => eq a a' && list_eqn eq r r'
  | _, _ => false
  end.

Definition draw_eqn (d d' : draw) : bool :=
  match d, d' with
  | DBern p, DBern p' => expr_eqn p p'
  | DCat ps, DCat ps' => list_eqn expr_eqn ps ps'
  | DUnif a b, DUnif a' b' => Z.eqb a a' && Z.eqb b b'
  | DCont f args, DCont f' args' => String.eqb f f' && list_eqn expr_eqn args args'
  | _, _ => false
  end.
Definition rhs_eqn (r r' : rhs) : bool :=
  match r, r' with
  | RChoice alts, RChoice alts' =>
      list_eqn (fun pe pe' => expr_eqn (fst pe) (fst pe') && expr_eqn (snd pe) (snd pe')) alts alts'
  | RDraw d, RDraw d' => draw_eqn d d'
  | _, _ => false
  end.
Definition ga_eqn (g g' : gassign) : bool :=
  String.eqb (ga_var g) (ga_var g') && cond_eqn (ga_cond g) (ga_cond g')
  && String.eqb (ga_default g) (ga_default g') && rhs_eqn (ga_rhs g) (ga_rhs g').

(* index of the first differing assignment (or the common length) *)
Fixpoint first_diff (l l' : list gassign) : nat :=
  match l, l' with
  | g :: r, g' :: r' => if ga_eqn g g' then S (first_diff r r') else O
  | _, _ => O
  end.

(* nr = false: the rule of the tree as it stands (if_flatten_prog_old, hypothesis wf_prog);
   nr = true: unconditional auxiliary assignments (if_flatten_prog, hypothesis aux_ok_prog).
   [defined; init equal; body equal; mutually_exclusive flags as recognised; hypothesis] *)
Definition model (nr : bool) (k : nat) (p : prog) : option (flatprog * nat) :=
  if nr then if_flatten_prog k p else if_flatten_prog_old k p.
Definition hyp (nr : bool) (p : prog) : bool := if nr then aux_ok_prog p else wf_prog p.
Definition pass_if_check (nr : bool) (k : nat) (p : prog) (exp : flatprog) (flags : list bool) : list bool :=
  let fl := list_eqn Bool.eqb (flags_block (p_init p) ++ flags_block (p_body p)) flags in
  match model nr k p with
  | Some (fp, _) =>
      [true; list_eqn ga_eqn (fp_init fp) (fp_init exp); list_eqn ga_eqn (fp_body fp) (fp_body exp); fl; hyp nr p]
  | None => [false; false; false; fl; hyp nr p]
  end.

(* (model init length, Polar init length, first differing index), same for the body, final counter *)
Definition pass_if_diag (nr : bool) (k : nat) (p : prog) (exp : flatprog) : list nat :=
  match model nr k p with
  | Some (fp, k') =>
      [List.length (fp_init fp); List.length (fp_init exp); first_diff (fp_init fp) (fp_init exp);
       List.length (fp_body fp); List.length (fp_body exp); first_diff (fp_body fp) (fp_body exp); k']
  | None => []
  end.
(* the parts of the new rule's hypothesis, for the report: [wf; mass; live] *)
Definition aux_parts (p : prog) : list bool :=
  [wf_prog p; mass_block (p_init p) && mass_block (p_body p); live_ok (p_init p) && live_ok (p_body p)].
