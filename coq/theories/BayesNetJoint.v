(* C15 — the generated loop body samples the joint law of the network.
   One execution of `gen_body net` from ANY state gives every assignment of in-domain value
   positions exactly the product of the conditional probabilities (each row read through
   row_law: listed probabilities, last one implicit), touches no other variable and has total
   mass 1; expectations of functions of the network variables are therefore the enumeration
   sums of BayesNetSpec.joint_expect.  The query statements of BayesNetQuery.v are then
   composed with this to give statements about the whole generated program. *)
From Coq Require Import String Arith Bool QArith Qcanon Lia List Permutation.
From Polar Require Import Qcx BayesNet BayesNetSem BayesNetSpec BayesNetTopo BayesNetQuery.
Import ListNotations.
Open Scope nat_scope.

(* ------------------------------------------------------------------ lists, keys, products *)
Lemma bool_eq_iff (b1 b2 : bool) : (b1 = true <-> b2 = true) -> b1 = b2.
Proof. destruct b1, b2; intros [H1 H2]; try reflexivity; [symmetry; apply H1 | apply H2]; reflexivity. Qed.

Lemma list_eqb_nat_eq (k1 k2 : list nat) : list_eqb Nat.eqb k1 k2 = true <-> k1 = k2.
Proof.
  revert k2. induction k1 as [|a k1 IH]; intros [|b k2]; cbn [list_eqb].
  - tauto.
  - split; discriminate.
  - split; discriminate.
  - fold (list_eqb Nat.eqb k1 k2). rewrite andb_true_iff, Nat.eqb_eq, IH.
    split; [intros [-> ->]; reflexivity | intros H; inversion H; auto].
Qed.

Lemma key_eqb_eq k1 k2 : key_eqb k1 k2 = true <-> k1 = k2.
Proof. apply list_eqb_nat_eq. Qed.

Lemma nats_eqb_eq k1 k2 : nats_eqb k1 k2 = true <-> k1 = k2.
Proof. apply list_eqb_nat_eq. Qed.

Lemma NoDup_app_gen {A} (l1 l2 : list A) :
  NoDup l1 -> NoDup l2 -> (forall x, In x l1 -> ~ In x l2) -> NoDup (l1 ++ l2).
Proof.
  intros H1 H2 H. induction H1 as [|a r Ha Hr IH]; cbn [app]; [exact H2|].
  constructor.
  - rewrite in_app_iff. intros [Hin|Hin]; [exact (Ha Hin)|].
    apply (H a); [now left | exact Hin].
  - apply IH. intros x Hx. apply H. now right.
Qed.

Lemma NoDup_flat_map {A B} (f : A -> list B) l :
  NoDup l -> (forall x, In x l -> NoDup (f x)) ->
  (forall x y z, In x l -> In y l -> x <> y -> In z (f x) -> ~ In z (f y)) ->
  NoDup (flat_map f l).
Proof.
  intros Hl. induction Hl as [|a r Ha Hr IH]; intros Hf Hdis; cbn [flat_map]; [constructor|].
  apply NoDup_app_gen.
  - apply Hf. now left.
  - apply IH.
    + intros x Hx. apply Hf. now right.
    + intros x y z Hx Hy. apply Hdis; now right.
  - intros z Hz Hz'. apply in_flat_map in Hz'. destruct Hz' as [y [Hy Hzy]].
    apply (Hdis a y z); [now left | now right | | exact Hz | exact Hzy].
    intros ->. exact (Ha Hy).
Qed.

Lemma NoDup_map_cons {A} (x : A) l : NoDup l -> NoDup (map (cons x) l).
Proof.
  intros H. induction H as [|a r Ha Hr IH]; cbn [map]; constructor; [|exact IH].
  rewrite in_map_iff. intros [y [E Hy]]. inversion E; subst. exact (Ha Hy).
Qed.

Lemma NoDup_product {A} (ls : list (list A)) :
  (forall l, In l ls -> NoDup l) -> NoDup (product ls).
Proof.
  induction ls as [|l ls IH]; intros H; cbn [product].
  - constructor; [intros [] | constructor].
  - apply NoDup_flat_map.
    + apply H. now left.
    + intros x _. apply NoDup_map_cons. apply IH. intros l' Hl'. apply H. now right.
    + intros x y z _ _ Hxy Hz Hz'. rewrite in_map_iff in Hz, Hz'.
      destruct Hz as [z1 [E1 _]]. destruct Hz' as [z2 [E2 _]]. subst z. inversion E2. auto.
Qed.

Lemma in_product_map {A B} (f : A -> B) (g : A -> list B) l :
  (forall p, In p l -> In (f p) (g p)) -> In (map f l) (product (map g l)).
Proof.
  induction l as [|p l IH]; intros H; cbn [map product]; [now left|].
  apply in_flat_map. exists (f p). split; [apply H; now left|].
  apply in_map. apply IH. intros q Hq. apply H. now right.
Qed.

Lemma in_product_length {A} (ls : list (list A)) k : In k (product ls) -> length k = length ls.
Proof.
  revert k. induction ls as [|l ls IH]; intros k; cbn [product].
  - intros [<-|[]]. reflexivity.
  - rewrite in_flat_map. intros [x [_ Hk]]. rewrite in_map_iff in Hk.
    destruct Hk as [k' [<- Hk']]. cbn [length]. rewrite (IH k' Hk'). reflexivity.
Qed.

Lemma in_product_nth (ls : list (list nat)) a :
  In a (product ls) <->
  length a = length ls /\ forall i, i < length ls -> In (nth i a 0) (nth i ls []).
Proof.
  revert a. induction ls as [|l ls IH]; intros a; cbn [product].
  - split.
    + intros [<-|[]]. split; [reflexivity | cbn [length]; intros; lia].
    + intros [H _]. destruct a; [now left | discriminate].
  - rewrite in_flat_map. split.
    + intros [x [Hx Hk]]. rewrite in_map_iff in Hk. destruct Hk as [k' [<- Hk']].
      apply IH in Hk'. destruct Hk' as [Hlen Hnth]. cbn [length]. split; [lia|].
      intros [|i] Hi; cbn [nth]; [exact Hx | apply Hnth; lia].
    + intros [Hlen Hnth]. destruct a as [|x a]; [discriminate|]. cbn [length] in *.
      exists x. split; [apply (Hnth 0); lia|].
      apply in_map. apply IH. split; [lia|]. intros i Hi. apply (Hnth (S i)). lia.
Qed.

Lemma map_fst_combine {A B} (l1 : list A) (l2 : list B) :
  length l1 = length l2 -> map fst (combine l1 l2) = l1.
Proof.
  revert l2. induction l1 as [|a l1 IH]; intros [|b l2] H; cbn [combine map fst]; try discriminate; [reflexivity|].
  rewrite IH; [reflexivity | cbn [length] in H; lia].
Qed.

Lemma combine_seq_gen (l : list Qc) k :
  combine l (seq k (length l)) = map (fun j => (nth (j - k) l 0%Qc, j)) (seq k (length l)).
Proof.
  revert k. induction l as [|a l IH]; intros k; cbn [length seq combine map]; [reflexivity|].
  rewrite Nat.sub_diag. cbn [nth]. f_equal. rewrite IH. apply map_ext_in.
  intros j Hj. apply in_seq in Hj. replace (j - k) with (S (j - S k)) by lia. reflexivity.
Qed.

Lemma combine_seq (l : list Qc) :
  combine l (seq 0 (length l)) = map (fun j => (nth j l 0%Qc, j)) (seq 0 (length l)).
Proof.
  rewrite combine_seq_gen. apply map_ext. intros j. rewrite Nat.sub_0_r. reflexivity.
Qed.

Lemma map_nth_seq (l : list Qc) : map (fun j => nth j l 0%Qc) (seq 0 (length l)) = l.
Proof.
  transitivity (map fst (combine l (seq 0 (length l)))).
  - rewrite combine_seq, map_map. reflexivity.
  - apply map_fst_combine. rewrite seq_length. reflexivity.
Qed.

Lemma list_split_last (r : list Qc) n : length r = S n -> r = firstn n r ++ [nth n r 0%Qc].
Proof.
  revert r. induction n as [|n IH]; intros [|a r] H; cbn [length] in H; try discriminate.
  - destruct r; [reflexivity | discriminate].
  - cbn [firstn nth app]. f_equal. apply IH. lia.
Qed.

(* ------------------------------------------------------------------ sums and products *)
Lemma qsum_fubini {A B} (f : A -> B -> Qc) l1 l2 :
  qsum (map (fun x => qsum (map (fun y => f x y) l2)) l1) =
  qsum (map (fun y => qsum (map (fun x => f x y) l1)) l2).
Proof.
  induction l1 as [|a l1 IH]; cbn [map].
  - rewrite qsum_nil. symmetry. apply qsum_map_zero. intros; apply qsum_nil.
  - rewrite qsum_cons, IH.
    rewrite (qsum_map_ext (fun y => qsum (f a y :: map (fun x => f x y) l1))
                          (fun y => (f a y + qsum (map (fun x => f x y) l1))%Qc))
      by (intros; apply qsum_cons).
    rewrite qsum_map_plus. reflexivity.
Qed.

Lemma qsum_select (w : nat -> Qc) (c : Qc) k b d :
  b <= k < b + d ->
  qsum (map (fun j => (w j * (if Nat.eqb j k then c else 0))%Qc) (seq b d)) = (w k * c)%Qc.
Proof.
  revert b. induction d as [|d IH]; intros b H; [lia|].
  cbn [seq map]. rewrite qsum_cons. destruct (Nat.eqb b k) eqn:E.
  - apply Nat.eqb_eq in E. subst b. rewrite qsum_map_zero; [ring|].
    intros j Hj. apply in_seq in Hj. assert (E : Nat.eqb j k = false) by (apply Nat.eqb_neq; lia).
    rewrite E. ring.
  - apply Nat.eqb_neq in E. rewrite IH by lia. ring.
Qed.

Lemma qsum_indicator (g : list nat -> Qc) b l :
  NoDup l -> In b l -> qsum (map (fun a => (ind (nats_eqb b a) * g a)%Qc) l) = g b.
Proof.
  intros Hnd. induction Hnd as [|a l Ha Hl IH]; intros Hin; [destruct Hin|].
  cbn [map]. rewrite qsum_cons. destruct Hin as [->|Hin].
  - assert (E : nats_eqb b b = true) by (apply nats_eqb_eq; reflexivity). rewrite E. cbn [ind].
    rewrite qsum_map_zero; [ring|]. intros a' Ha'.
    destruct (nats_eqb b a') eqn:E'; [|cbn [ind]; ring].
    apply nats_eqb_eq in E'. subst a'. contradiction.
  - destruct (nats_eqb b a) eqn:E.
    + apply nats_eqb_eq in E. subst a. contradiction.
    + rewrite IH by exact Hin. cbn [ind]. ring.
Qed.

Lemma qprod_perm l1 l2 : Permutation l1 l2 -> qprod l1 = qprod l2.
Proof.
  intros H. induction H; cbn [qprod fold_right] in *.
  - reflexivity.
  - fold (qprod l). fold (qprod l'). rewrite IHPermutation. reflexivity.
  - ring.
  - congruence.
Qed.

Lemma expect_map_seq (w : nat -> Qc) (st : nat -> state) l f :
  expect (map (fun j => (w j, st j)) l) f = qsum (map (fun j => (w j * f (st j))%Qc) l).
Proof. unfold expect. rewrite map_map. reflexivity. Qed.

Lemma expect_const d (c : Qc) : expect d (fun _ => c) = (c * expect d (fun _ => 1%Qc))%Qc.
Proof. rewrite <- expect_cmul. apply expect_ext. intros; ring. Qed.

(* ------------------------------------------------------------------ T5: the row law *)
Lemma row_law_total d r : qsum (row_law d r) = 1%Qc.
Proof. unfold row_law, cat_weights. rewrite qsum_app, qsum_cons, qsum_nil. ring. Qed.

Lemma row_law_length d r : 1 <= d -> length r = d -> length (row_law d r) = d.
Proof.
  intros Hd Hr. unfold row_law, cat_weights. rewrite app_length, firstn_length. cbn [length]. lia.
Qed.

Lemma row_law_shape d r :
  1 <= d -> length r = d ->
  row_law d r = firstn (d - 1) r ++ [(nth (d - 1) r 0 + (1 - qsum r))%Qc].
Proof.
  intros Hd Hr. unfold row_law, cat_weights. f_equal. f_equal.
  assert (E : qsum r = (qsum (firstn (d - 1) r) + nth (d - 1) r 0)%Qc).
  { rewrite (list_split_last r (d - 1)) at 1 by lia.
    rewrite qsum_app, qsum_cons, qsum_nil. ring. }
  rewrite E. ring.
Qed.

Lemma row_law_exact d r : 1 <= d -> length r = d -> qsum r = 1%Qc -> row_law d r = r.
Proof.
  intros Hd Hr Hs. rewrite row_law_shape by assumption. rewrite Hs.
  replace (nth (d - 1) r 0 + (1 - 1))%Qc with (nth (d - 1) r 0%Qc) by ring.
  symmetry. apply list_split_last. lia.
Qed.

(* ------------------------------------------------------------------ L1: one assignment *)
Lemma exec_gen_assign x d r s :
  1 <= d -> length r = d ->
  exec_assign (gen_assign x d r) s =
  map (fun j => (nth j (row_law d r) 0%Qc, upd s x j)) (seq 0 d).
Proof.
  intros Hd Hr. unfold gen_assign. cbn [exec_assign]. fold (row_law d r).
  pose proof (row_law_length d r Hd Hr) as HL.
  set (W := row_law d r) in *. clearbody W. clear Hr Hd. subst d.
  rewrite combine_seq, map_map. reflexivity.
Qed.

(* ------------------------------------------------------------------ L2: row selection *)
Lemma cpt_lookup_In key c r : cpt_lookup key c = Some r -> In (key, r) c.
Proof.
  induction c as [|[k r'] c IH]; cbn [cpt_lookup]; [discriminate|].
  destruct (key_eqb k key) eqn:E.
  - intros H. inversion H; subst. apply key_eqb_eq in E. subst. now left.
  - intros H. right. apply IH, H.
Qed.

Lemma cond_true_combine pars comb s :
  length comb = length pars -> (cond_true (combine pars comb) s = true <-> comb = map s pars).
Proof.
  unfold cond_true.
  revert comb. induction pars as [|p pars IH]; intros [|c comb] H; cbn [length] in H; try discriminate.
  - cbn [combine forallb map]. tauto.
  - cbn [combine forallb fst snd map].
    rewrite andb_true_iff, Nat.eqb_eq, IH by lia.
    split; [intros [-> ->]; reflexivity | intros E; inversion E; auto].
Qed.

(* "if c1 .. elif c2 .. else: last" and "if c1 .. elif c2 .. elif c_last" agree on every state
   in which one of the conditions holds *)
Lemma exec_if_removelast brs dflt s :
  (exists b, In b brs /\ cond_true (fst b) s = true) ->
  exec_if (removelast brs) (Some (snd (last brs dflt))) s = exec_if brs None s.
Proof.
  induction brs as [|b brs IH]; intros [b0 [Hin Hc]]; [destruct Hin|].
  destruct brs as [|b' brs].
  - destruct Hin as [->|[]]. destruct b0 as [c a]. cbn [removelast last exec_if snd fst] in *.
    rewrite Hc. reflexivity.
  - change (removelast (b :: b' :: brs)) with (b :: removelast (b' :: brs)).
    change (last (b :: b' :: brs) dflt) with (last (b' :: brs) dflt).
    destruct b as [c a]. cbn [exec_if]. destruct (cond_true c s) eqn:Ec; [reflexivity|].
    apply IH. destruct Hin as [<-|Hin]; [cbn [fst] in Hc; congruence|]. exists b0. auto.
Qed.

Lemma exec_if_select (F : list nat -> gassign) pars keys els s :
  (forall k, In k keys -> length k = length pars) ->
  In (map s pars) keys ->
  exec_if (map (fun comb => (combine pars comb, F comb)) keys) els s = exec_assign (F (map s pars)) s.
Proof.
  induction keys as [|k keys IH]; intros Hlen Hin; [destruct Hin|].
  cbn [map exec_if]. destruct (cond_true (combine pars k) s) eqn:Ec.
  - apply cond_true_combine in Ec; [subst; reflexivity | apply Hlen; now left].
  - destruct Hin as [->|Hin].
    + assert (H : cond_true (combine pars (map s pars)) s = true)
        by (apply cond_true_combine; [apply map_length | reflexivity]).
      congruence.
    + apply IH; [intros; apply Hlen; now right | exact Hin].
Qed.

Definition rowof (c : cpt) (comb : list nat) : row :=
  match cpt_lookup comb c with Some r => r | None => [] end.

Lemma omap_branches (pars : list nat) c x d keys brs :
  omap (fun comb => r <- cpt_lookup comb c ;; Some (combine pars comb, gen_assign x d r)) keys = Some brs ->
  brs = map (fun comb => (combine pars comb, gen_assign x d (rowof c comb))) keys /\
  forall comb, In comb keys -> cpt_lookup comb c = Some (rowof c comb).
Proof.
  revert brs. induction keys as [|k keys IH]; intros brs; cbn [omap].
  - intros H; inversion H. split; [reflexivity | intros ? []].
  - destruct (cpt_lookup k c) as [r|] eqn:E; cbn [obind]; [|discriminate].
    destruct (omap _ keys) as [bs|]; cbn [obind]; [|discriminate].
    intros H; inversion H; subst. destruct (IH bs eq_refl) as [-> Hall].
    assert (Er : rowof c k = r) by (unfold rowof; rewrite E; reflexivity). split.
    + cbn [map]. rewrite Er. reflexivity.
    + intros comb [<-|Hin]; [rewrite Er; exact E | apply Hall, Hin].
Qed.

Lemma gen_var_exec net x v st s :
  gen_var net x v = Some st ->
  (forall p, In p (nv_par v) -> s p < ndsize net p) ->
  exists r, cpt_lookup (map s (nv_par v)) (nv_cpt v) = Some r /\
            exec_stmt st s = exec_assign (gen_assign x (length (nv_dom v)) r) s.
Proof.
  unfold gen_var. intros Hg Hs.
  assert (Hin : In (map s (nv_par v)) (net_keys net (nv_par v))).
  { unfold net_keys. apply in_product_map. intros p Hp. apply in_seq. specialize (Hs p Hp). lia. }
  assert (Hlen: forall k, In k (net_keys net (nv_par v)) -> length k = length (nv_par v)).
  { intros k Hk. unfold net_keys in Hk. apply in_product_length in Hk. rewrite map_length in Hk. exact Hk. }
  destruct (nv_par v) as [|p0 ps] eqn:Epar.
  - destruct (cpt_lookup [] (nv_cpt v)) as [r|] eqn:E; cbn [obind] in Hg; [|discriminate].
    inversion Hg; subst. exists r. split; [exact E| reflexivity].
  - set (pars := p0 :: ps) in *.
    destruct (omap _ (net_keys net pars)) as [brs|] eqn:Eo; cbn [obind] in Hg; [|discriminate].
    apply omap_branches in Eo. destruct Eo as [Ebrs Hall].
    exists (rowof (nv_cpt v) (map s pars)). split; [apply Hall, Hin|].
    assert (Hex : exists b, In b brs /\ cond_true (fst b) s = true).
    { exists (combine pars (map s pars),
              gen_assign x (length (nv_dom v)) (rowof (nv_cpt v) (map s pars))). split.
      - rewrite Ebrs. apply in_map_iff. exists (map s pars). split; [reflexivity | exact Hin].
      - cbn [fst]. apply cond_true_combine; [apply map_length | reflexivity]. }
    assert (Hif : exec_if brs None s =
                  exec_assign (gen_assign x (length (nv_dom v)) (rowof (nv_cpt v) (map s pars))) s).
    { rewrite Ebrs.
      apply (exec_if_select (fun comb => gen_assign x (length (nv_dom v)) (rowof (nv_cpt v) comb)));
        assumption. }
    destruct brs as [|b [|b' brs']]; [discriminate | |]; inversion Hg; subst st; cbn [exec_stmt].
    + exact Hif.
    + exact (eq_trans (exec_if_removelast (b :: b' :: brs') ([], AAdd 0 0 0) s Hex) Hif).
Qed.

(* ------------------------------------------------------------------ states and assignments *)
Lemma read_length m s : length (read m s) = m.
Proof. unfold read. rewrite map_length, seq_length. reflexivity. Qed.

Lemma read_nth m s x : x < m -> nth x (read m s) 0 = s x.
Proof.
  intros H. unfold read.
  rewrite (nth_indep _ 0 (s 0)) by (rewrite map_length, seq_length; exact H).
  rewrite map_nth, seq_nth by exact H. reflexivity.
Qed.

Lemma read_eq m s a : length a = m -> (read m s = a <-> forall x, x < m -> s x = nth x a 0).
Proof.
  intros Hl. split.
  - intros <- x Hx. symmetry. apply read_nth, Hx.
  - intros H. apply (nth_ext _ _ 0 0); rewrite read_length; [auto|].
    intros n Hn. rewrite read_nth by exact Hn. apply H, Hn.
Qed.

Lemma nth_doms (net : network) i :
  i < length net -> nth i (map (fun v => seq 0 (length (nv_dom v))) net) [] = seq 0 (ndsize net i).
Proof.
  intros Hi. unfold ndsize. destruct (nth_error net i) as [v|] eqn:E.
  - apply nth_error_nth. apply (map_nth_error (fun v => seq 0 (length (nv_dom v)))). exact E.
  - apply nth_error_None in E. lia.
Qed.

Lemma all_assignments_spec (net : network) a :
  In a (all_assignments net) <->
  length a = length net /\ forall i, i < length net -> nth i a 0 < ndsize net i.
Proof.
  unfold all_assignments. rewrite in_product_nth, map_length.
  split; intros [H1 H2]; (split; [exact H1|]); intros i Hi; specialize (H2 i Hi).
  - rewrite nth_doms in H2 by exact Hi. apply in_seq in H2. lia.
  - rewrite nth_doms by exact Hi. apply in_seq. lia.
Qed.

Lemma all_assignments_NoDup (net : network) : NoDup (all_assignments net).
Proof.
  unfold all_assignments. apply NoDup_product. intros l Hl. apply in_map_iff in Hl.
  destruct Hl as [v [<- _]]. apply seq_NoDup.
Qed.

Lemma qsum_nth_seq (l : list Qc) d : length l = d -> qsum (map (fun j => nth j l 0%Qc) (seq 0 d)) = qsum l.
Proof. intros <-. rewrite map_nth_seq. reflexivity. Qed.

(* the statement generated for variable x *)
Definition gen_stmt_of (net : network) (x : nat) : option gstmt :=
  v <- nth_error net x ;; gen_var net x v.

Lemma gen_body_unfold net : gen_body net = ord <- topo_sort (map nv_par net) ;; omap (gen_stmt_of net) ord.
Proof. reflexivity. Qed.

(* ------------------------------------------------------------------ L3: along the topological order *)
Section Joint.
  Variable net : network.
  Hypothesis Hwf : wf_network net.
  Hypothesis Hnd : forall x v, nth_error net x = Some v -> NoDup (nv_par v).
  Local Notation m := (length net).
  Local Notation G := (gen_stmt_of net).

  Lemma wf_pars_net : wf_pars (map nv_par net).
  Proof.
    intros i ps H. rewrite nth_error_map in H.
    destruct (nth_error net i) as [v|] eqn:E; cbn [option_map] in H; [|discriminate].
    inversion H; subst. split; [apply (Hnd i v E)|]. rewrite map_length.
    apply (proj1 (proj2 (Hwf i v E))).
  Qed.

  Lemma nth_pars x v : nth_error net x = Some v -> nth x (map nv_par net) [] = nv_par v.
  Proof. intros H. apply nth_error_nth. apply map_nth_error. exact H. Qed.

  Lemma ndsize_eq x v : nth_error net x = Some v -> ndsize net x = length (nv_dom v).
  Proof. intros H. unfold ndsize. rewrite H. reflexivity. Qed.

  (* parents of every variable of l are in done or earlier in l *)
  Definition pfirst (done l : list nat) : Prop :=
    forall l1 x l2, l = l1 ++ x :: l2 ->
                    forall p, In p (nth x (map nv_par net) []) -> In p (done ++ l1).

  Lemma pfirst_head done x r p :
    pfirst done (x :: r) -> In p (nth x (map nv_par net) []) -> In p done.
  Proof. intros H Hp. specialize (H [] x r eq_refl p Hp). rewrite app_nil_r in H. exact H. Qed.

  Lemma pfirst_tail done x r : pfirst done (x :: r) -> pfirst (done ++ [x]) r.
  Proof.
    intros H l1 y l2 E p Hp. rewrite <- app_assoc. cbn [app].
    apply (H (x :: l1) y l2); [rewrite E; reflexivity | exact Hp].
  Qed.

  Lemma G_cons x l stmts :
    omap G (x :: l) = Some stmts ->
    exists v st rest, nth_error net x = Some v /\ gen_var net x v = Some st /\
                      omap G l = Some rest /\ stmts = st :: rest.
  Proof.
    cbn [omap]. unfold gen_stmt_of at 1. intros H.
    destruct (nth_error net x) as [v|] eqn:E1; cbn [obind] in H; [|discriminate].
    destruct (gen_var net x v) as [st|] eqn:E2; cbn [obind] in H; [|discriminate].
    destruct (omap G l) as [rest|] eqn:E3; cbn [obind] in H; [|discriminate].
    inversion H. exists v, st, rest. repeat split; assumption.
  Qed.

  Lemma gen_var_step x v st s :
    nth_error net x = Some v -> gen_var net x v = Some st ->
    (forall p, In p (nv_par v) -> s p < ndsize net p) ->
    exists r, cpt_lookup (map s (nv_par v)) (nv_cpt v) = Some r /\
              1 <= ndsize net x /\ length r = ndsize net x /\
              exec_stmt st s =
              map (fun j => (nth j (row_law (ndsize net x) r) 0%Qc, upd s x j)) (seq 0 (ndsize net x)).
  Proof.
    intros Hx Hg Hs. destruct (gen_var_exec net x v st s Hg Hs) as [r [Hr He]].
    exists r. split; [exact Hr|]. rewrite He, (ndsize_eq x v Hx).
    destruct (Hwf x v Hx) as [Hd [_ [_ Hrows]]].
    pose proof (Hrows _ _ (cpt_lookup_In _ _ _ Hr)) as Hlr.
    split; [exact Hd|]. split; [exact Hlr|].
    apply exec_gen_assign; assumption.
  Qed.

  (* (ii) support: values in domain, everything else untouched *)
  Lemma body_support_gen l : forall done stmts s,
    omap G l = Some stmts -> pfirst done l ->
    (forall y, In y done -> s y < ndsize net y) ->
    forall ws, In ws (exec_body stmts s) ->
      (forall x, In x l -> snd ws x < ndsize net x) /\ (forall y, ~ In y l -> snd ws y = s y).
  Proof.
    induction l as [|x l IH]; intros done stmts s Ho Hpf Hs ws Hin.
    - cbn [omap] in Ho. inversion Ho; subst. cbn [exec_body] in Hin. destruct Hin as [<-|[]].
      cbn [snd]. split; [intros ? [] | reflexivity].
    - destruct (G_cons _ _ _ Ho) as [v [st [rest [Hx [Hg [Hr ->]]]]]].
      cbn [exec_body] in Hin. apply in_bind in Hin. destruct Hin as [w1 [s1 [w2 [H1 H2]]]].
      destruct (gen_var_step x v st s Hx Hg) as [r [_ [_ [_ He]]]].
      { intros p Hp. apply Hs. apply (pfirst_head done x l p Hpf). rewrite (nth_pars x v Hx). exact Hp. }
      rewrite He in H1. apply in_map_iff in H1. destruct H1 as [j [Ej Hj]].
      inversion Ej; subst w1 s1. apply in_seq in Hj.
      specialize (IH (done ++ [x]) rest (upd s x j) Hr (pfirst_tail _ _ _ Hpf)).
      assert (Hs' : forall y, In y (done ++ [x]) -> upd s x j y < ndsize net y).
      { intros y Hy. destruct (Nat.eq_dec y x) as [->|Hne];
          [rewrite upd_same; lia | rewrite upd_other by exact Hne].
        apply in_app_iff in Hy. destruct Hy as [Hy|[<-|[]]]; [apply Hs, Hy | congruence]. }
      destruct (IH Hs' _ H2) as [IH1 IH2]. cbn [snd] in *. split.
      + intros y [<-|Hy]; [|apply IH1, Hy].
        destruct (in_dec Nat.eq_dec x l) as [Hxl|Hxl]; [apply IH1, Hxl|].
        rewrite (IH2 x Hxl), upd_same. lia.
      + intros y Hy. rewrite IH2 by (intros Hc; apply Hy; now right).
        apply upd_other. intros ->. apply Hy. now left.
  Qed.

  (* every generated statement preserves total mass *)
  Lemma body_total_gen l : forall done stmts s,
    omap G l = Some stmts -> pfirst done l ->
    (forall y, In y done -> s y < ndsize net y) ->
    expect (exec_body stmts s) (fun _ => 1%Qc) = 1%Qc.
  Proof.
    induction l as [|x l IH]; intros done stmts s Ho Hpf Hs.
    - cbn [omap] in Ho. inversion Ho; subst. cbn [exec_body]. apply expect_single.
    - destruct (G_cons _ _ _ Ho) as [v [st [rest [Hx [Hg [Hr ->]]]]]].
      destruct (gen_var_step x v st s Hx Hg) as [r [_ [Hd [Hlr He]]]].
      { intros p Hp. apply Hs. apply (pfirst_head done x l p Hpf). rewrite (nth_pars x v Hx). exact Hp. }
      cbn [exec_body]. rewrite expect_bind, He.
      rewrite (expect_ext _ _ (fun _ => 1%Qc)).
      + rewrite expect_map_seq.
        rewrite (qsum_map_ext _ (fun j => nth j (row_law (ndsize net x) r) 0%Qc)) by (intros; ring).
        rewrite qsum_nth_seq by (apply row_law_length; assumption).
        apply row_law_total.
      + intros ws Hin. apply in_map_iff in Hin. destruct Hin as [j [<- Hj]]. cbn [snd].
        apply in_seq in Hj.
        apply (IH (done ++ [x]) rest (upd s x j) Hr (pfirst_tail _ _ _ Hpf)).
        intros y Hy. destruct (Nat.eq_dec y x) as [->|Hne];
          [rewrite upd_same; lia | rewrite upd_other by exact Hne].
        apply in_app_iff in Hy. destruct Hy as [Hy|[<-|[]]]; [apply Hs, Hy | congruence].
  Qed.

  (* (i) the mass of "the variables of l take the values of a" is the product of the
     conditional probabilities of those variables *)
  Lemma body_mass_gen a : In a (all_assignments net) -> forall l done stmts s,
    omap G l = Some stmts -> NoDup l -> pfirst done l ->
    (forall x, In x l -> x < m) ->
    (forall y, In y done -> y < m /\ s y = nth y a 0) ->
    mass (exec_body stmts s) (fun s' => forallb (fun x => Nat.eqb (s' x) (nth x a 0)) l) =
    qprod (map (cond_prob net a) l).
  Proof.
    intros Ha. destruct (proj1 (all_assignments_spec net a) Ha) as [Hlen Hdom].
    induction l as [|x l IH]; intros done stmts s Ho Hnodup Hpf Hlt Hdone.
    - cbn [omap] in Ho. inversion Ho; subst. unfold mass. cbn [exec_body forallb map qprod fold_right].
      rewrite expect_single. reflexivity.
    - destruct (G_cons _ _ _ Ho) as [v [st [rest [Hx [Hg [Hr ->]]]]]].
      assert (Hxm : x < m) by (apply Hlt; now left).
      inversion Hnodup as [|? ? Hxl Hndl]; subst.
      assert (Hpar : forall p, In p (nv_par v) -> In p done).
      { intros p Hp. apply (pfirst_head done x l p Hpf). rewrite (nth_pars x v Hx). exact Hp. }
      destruct (gen_var_step x v st s Hx Hg) as [r [Hrow [Hd [Hlr He]]]].
      { intros p Hp. destruct (Hdone p (Hpar p Hp)) as [Hpm ->]. apply Hdom, Hpm. }
      unfold mass. cbn [exec_body]. rewrite expect_bind, He, expect_map_seq.
      set (k := nth x a 0).
      assert (Hk : k < ndsize net x) by (apply Hdom, Hxm).
      set (C := qprod (map (cond_prob net a) l)).
      rewrite (qsum_map_ext _ (fun j => (nth j (row_law (ndsize net x) r) 0 *
                                          (if Nat.eqb j k then C else 0))%Qc)).
      + rewrite qsum_select by lia.
        cbn [map qprod fold_right]. fold (qprod (map (cond_prob net a) l)). fold C. f_equal.
        unfold cond_prob. rewrite Hx.
        replace (map (fun p => nth p a 0) (nv_par v)) with (map s (nv_par v)).
        * rewrite Hrow, (ndsize_eq x v Hx). reflexivity.
        * apply map_ext_in. intros p Hp. apply (Hdone p (Hpar p Hp)).
      + intros j Hj. apply in_seq in Hj. f_equal.
        assert (Hs' : forall y, In y (done ++ [x]) -> upd s x j y < ndsize net y).
        { intros y Hy. destruct (Nat.eq_dec y x) as [->|Hne];
            [rewrite upd_same; lia | rewrite upd_other by exact Hne].
          apply in_app_iff in Hy. destruct Hy as [Hy|[<-|[]]]; [|congruence].
          destruct (Hdone y Hy) as [Hym ->]. apply Hdom, Hym. }
        rewrite (expect_ext _ _ (fun s' => ind (Nat.eqb j k &&
                   forallb (fun x0 => Nat.eqb (s' x0) (nth x0 a 0)) l))).
        2:{ intros ws Hws. cbn [forallb].
            destruct (body_support_gen l (done ++ [x]) rest (upd s x j) Hr
                        (pfirst_tail _ _ _ Hpf) Hs' ws Hws) as [_ Hfr].
            rewrite (Hfr x Hxl), upd_same. reflexivity. }
        destruct (Nat.eqb j k) eqn:Ejk.
        * apply Nat.eqb_eq in Ejk. subst j. cbn [andb].
          apply (IH (done ++ [x]) rest (upd s x k) Hr Hndl (pfirst_tail _ _ _ Hpf)).
          -- intros y Hy. apply Hlt. now right.
          -- intros y Hy. destruct (Nat.eq_dec y x) as [->|Hne].
             ++ rewrite upd_same. split; [exact Hxm | reflexivity].
             ++ rewrite upd_other by exact Hne.
                apply in_app_iff in Hy. destruct Hy as [Hy|[<-|[]]]; [apply Hdone, Hy | congruence].
        * cbn [andb ind]. apply expect_zero. intros; reflexivity.
  Qed.

  Lemma gen_body_ord body :
    gen_body net = Some body ->
    exists ord, omap G ord = Some body /\ Permutation ord (seq 0 m) /\ pfirst [] ord.
  Proof.
    rewrite gen_body_unfold.
    destruct (topo_sort (map nv_par net)) as [ord|] eqn:E; cbn [obind]; [|discriminate].
    intros H. exists ord. destruct (topo_sort_sound _ _ wf_pars_net E) as [Hp Hpf].
    rewrite map_length in Hp. split; [exact H|]. split; [exact Hp|].
    intros l1 x l2 El p Hp'. cbn [app]. apply (Hpf l1 x l2 El p Hp').
  Qed.

  Theorem generated_body_is_joint body :
    gen_body net = Some body ->
    forall s0 a, In a (all_assignments net) ->
      mass (exec_body body s0) (fun s => nats_eqb (read m s) a) = joint_prob net a.
  Proof.
    intros Hg s0 a Ha. destruct (gen_body_ord body Hg) as [ord [Ho [Hperm Hpf]]].
    destruct (proj1 (all_assignments_spec net a) Ha) as [Hlen Hdom].
    assert (Hord : forall x, In x ord <-> x < m).
    { intros x. split; intros H.
      - apply (Permutation_in _ Hperm) in H. apply in_seq in H. lia.
      - apply (Permutation_in _ (Permutation_sym Hperm)). apply in_seq. lia. }
    unfold joint_prob. rewrite <- (qprod_perm _ _ (Permutation_map (cond_prob net a) Hperm)).
    rewrite <- (body_mass_gen a Ha ord [] body s0 Ho).
    - unfold mass. apply expect_ext. intros ws _. f_equal. apply bool_eq_iff.
      rewrite nats_eqb_eq, forallb_forall, (read_eq m (snd ws) a Hlen). split.
      + intros H x Hx. apply Nat.eqb_eq. apply H. apply Hord, Hx.
      + intros H x Hx. apply Nat.eqb_eq, H. apply Hord, Hx.
    - apply (Permutation_NoDup (Permutation_sym Hperm)). apply seq_NoDup.
    - exact Hpf.
    - intros x Hx. apply Hord, Hx.
    - intros y [].
  Qed.

  Theorem generated_body_support body :
    gen_body net = Some body ->
    forall s0 ws, In ws (exec_body body s0) ->
      In (read m (snd ws)) (all_assignments net) /\ forall y, m <= y -> snd ws y = s0 y.
  Proof.
    intros Hg s0 ws Hin. destruct (gen_body_ord body Hg) as [ord [Ho [Hperm Hpf]]].
    assert (Hnil : forall y, In y [] -> s0 y < ndsize net y) by (intros y []).
    destruct (body_support_gen ord [] body s0 Ho Hpf Hnil ws Hin) as [H1 H2].
    split.
    - apply all_assignments_spec. split; [apply read_length|]. intros i Hi.
      rewrite read_nth by exact Hi. apply H1.
      apply (Permutation_in _ (Permutation_sym Hperm)). apply in_seq. lia.
    - intros y Hy. apply H2. intros Hc. apply (Permutation_in _ Hperm) in Hc.
      apply in_seq in Hc. lia.
  Qed.

  Theorem generated_body_total body :
    gen_body net = Some body -> forall s0, expect (exec_body body s0) (fun _ => 1%Qc) = 1%Qc.
  Proof.
    intros Hg s0. destruct (gen_body_ord body Hg) as [ord [Ho [Hperm Hpf]]].
    apply (body_total_gen ord [] body s0 Ho Hpf). intros y [].
  Qed.

  (* expectations under the generated body = enumeration sums over the joint law *)
  Theorem body_expect_by_enumeration body :
    gen_body net = Some body ->
    forall s0 (g : list nat -> Qc),
      expect (exec_body body s0) (fun s => g (read m s)) = joint_expect net g.
  Proof.
    intros Hg s0 g. set (D := exec_body body s0). set (AA := all_assignments net).
    rewrite (expect_ext D _ (fun s => qsum (map (fun a => (ind (nats_eqb (read m s) a) * g a)%Qc) AA))).
    2:{ intros ws Hin. symmetry. apply qsum_indicator; [apply all_assignments_NoDup|].
        apply (generated_body_support body Hg s0 ws Hin). }
    unfold expect.
    rewrite (qsum_map_ext _ (fun ws => qsum (map (fun a =>
               (fst ws * (ind (nats_eqb (read m (snd ws)) a) * g a))%Qc) AA)))
      by (intros ws _; symmetry; apply qsum_map_scale).
    rewrite (qsum_fubini (fun ws a => (fst ws * (ind (nats_eqb (read m (snd ws)) a) * g a))%Qc) D AA).
    unfold joint_expect. fold AA. apply qsum_map_ext. intros a Ha.
    rewrite <- (generated_body_is_joint body Hg s0 a Ha). fold D. unfold mass, expect.
    rewrite Qcmult_comm, <- qsum_map_scale. apply qsum_map_ext. intros ws _. ring.
  Qed.
End Joint.

(* ------------------------------------------------------------------ T6: the whole program *)
Lemma cond_true_ev_holds m c s :
  (forall x v, In (x, v) c -> x < m) -> cond_true c s = ev_holds c (read m s).
Proof.
  intros H. unfold cond_true, ev_holds.
  induction c as [|[x v] c IH]; cbn [forallb fst snd]; [reflexivity|].
  rewrite read_nth by (apply (H x v); now left). rewrite IH; [reflexivity|].
  intros x' v' Hin. apply (H x' v'). now right.
Qed.

Lemma iter_total b n d :
  (forall s, expect (exec_body b s) (fun _ => 1%Qc) = 1%Qc) ->
  expect (iter_body b n d) (fun _ => 1%Qc) = expect d (fun _ => 1%Qc).
Proof.
  intros H. induction n as [|n IH]; cbn [iter_body]; [reflexivity|].
  rewrite expect_bind. rewrite (expect_ext _ _ (fun _ => 1%Qc)) by (intros; apply H). exact IH.
Qed.

Lemma qs_exact_total m c t s : expect (exec_body (qs_exact m c t) s) (fun _ => 1%Qc) = 1%Qc.
Proof. rewrite exec_qs_exact. reflexivity. Qed.

(* exact inference: after every positive number of iterations, E[inf^k] and E[ind] of the
   generated program are the enumeration sums E[X_t^k ; evidence] and P(evidence) under the
   joint law of the network *)
Theorem exact_inference_program net tn ev p :
  wf_network net -> (forall x v, nth_error net x = Some v -> NoDup (nv_par v)) ->
  codegen net (QExact tn ev) = Some p ->
  exists c t, resolve_evidence net ev = Some c /\ find_nvar net tn = Some t /\
    forall n k,
      expect (run p (S n)) (fun s => qpow (qnat (s (S (length net)))) (S k)) =
        joint_expect net (fun a => (ind (ev_holds c a) * qpow (qnat (nth t a 0%nat)) (S k))%Qc) /\
      expect (run p (S n)) (fun s => qnat (s (length net))) =
        joint_expect net (fun a => ind (ev_holds c a)).
Proof.
  intros Hwf Hnd Hcg.
  destruct (codegen_exact_shape _ _ _ _ Hcg) as [body [c [t [Hb [Hc [_ [Ht [Htm [Hcm Hp]]]]]]]]].
  exists c, t. split; [exact Hc|]. split; [exact Ht|]. intros n k.
  assert (Htot : forall s, expect (exec_body (g_body p) s) (fun _ => 1%Qc) = 1%Qc).
  { intros s. rewrite Hp, exec_body_app.
    rewrite (expect_ext _ _ (fun _ => 1%Qc)) by (intros; apply qs_exact_total).
    apply (generated_body_total net Hwf Hnd body Hb). }
  assert (Hrun : expect (run p n) (fun _ => 1%Qc) = 1%Qc).
  { unfold run. rewrite iter_total by exact Htot. apply expect_single. }
  assert (Hstep : forall f C, (forall s, expect (exec_body (g_body p) s) f = C) ->
                              expect (run p (S n)) f = C).
  { intros f C H. unfold run. cbn [iter_body]. rewrite expect_bind. fold (run p n).
    rewrite (expect_ext _ _ (fun _ => C)) by (intros; apply H).
    rewrite expect_const, Hrun. ring. }
  split; apply Hstep; intros s; rewrite Hp, exec_body_app.
  - rewrite (expect_ext _ _ (fun s' => (fun a => (ind (ev_holds c a) * qpow (qnat (nth t a 0%nat)) (S k))%Qc)
                                         (read (length net) s'))).
    + exact (body_expect_by_enumeration net Hwf Hnd body Hb s
               (fun a => (ind (ev_holds c a) * qpow (qnat (nth t a 0%nat)) (S k))%Qc)).
    + intros ws _. rewrite (exact_inf_state (length net) c t Htm). cbv beta.
      rewrite (cond_true_ev_holds (length net) c _ Hcm), read_nth by exact Htm. reflexivity.
  - rewrite (expect_ext _ _ (fun s' => (fun a => ind (ev_holds c a)) (read (length net) s'))).
    + exact (body_expect_by_enumeration net Hwf Hnd body Hb s (fun a => ind (ev_holds c a))).
    + intros ws _. rewrite (exact_ind_state (length net) c t Htm). cbv beta.
      rewrite (cond_true_ev_holds (length net) c _ Hcm). reflexivity.
Qed.

(* sampling time: the expected count after n iterations is the geometric sum in
   1 - P(evidence), P(evidence) being the enumeration sum under the joint law *)
Theorem sampling_time_program net ev p :
  wf_network net -> (forall x v, nth_error net x = Some v -> NoDup (nv_par v)) ->
  codegen net (QSample ev) = Some p ->
  exists c, resolve_evidence net ev = Some c /\
    forall n, expect (run p n) (fun s => qnat (s (length net))) =
              geom (1 - joint_expect net (fun a => ind (ev_holds c a))) n.
Proof.
  intros Hwf Hnd Hcg.
  destruct (codegen_sample_shape _ _ _ Hcg) as [body [c [Hb [Hc [_ [Hcm [Hp [Hi1 Hi2]]]]]]]].
  exists c. split; [exact Hc|]. intros n. unfold run. rewrite Hp.
  apply (sampling_count_n body (length net) c (joint_expect net (fun a => ind (ev_holds c a)))).
  - intros s. unfold mass.
    rewrite (expect_ext _ _ (fun s' => (fun a => ind (ev_holds c a)) (read (length net) s'))).
    + exact (body_expect_by_enumeration net Hwf Hnd body Hb s (fun a => ind (ev_holds c a))).
    + intros ws _. cbv beta. rewrite (cond_true_ev_holds (length net) c _ Hcm). reflexivity.
  - apply (generated_body_total net Hwf Hnd body Hb).
  - intros s ws Hin.
    destruct (generated_body_support net Hwf Hnd body Hb s ws Hin) as [_ Hfr]. split; apply Hfr; lia.
  - exact Hi1.
  - exact Hi2.
Qed.
