(* C20, part 1 — goal order / worklist pop order / set iteration order.
   A linear recurrence system  x(n+1) = A x(n), x(0) = v  whose monomials are enumerated in
   a different order is the consistently permuted system  (P A P^-1, P v).  Its solution
   is the permuted solution  P A^n v  for EVERY n, over EVERY commutative ring: no
   component of the solution depends on the enumeration order. Lists, no mathcomp. *)
From Coq Require Import List Bool Arith Lia Ring Permutation.
From Polar Require Import CRing ExpPoly ClosedForm.
Import ListNotations.

Section Perm.
  Variable R : cring.
  Add Ring Rring : (rth R).
  Local Open Scope cr_scope.
  Notation "0" := (@r0 R).

  (* component j of [permute sigma v] is component sigma(j) of v *)
  Definition permute (sigma : list nat) (v : list R) : list R :=
    map (fun i => nth i v 0) sigma.
  (* entry (a,b) of [pmat sigma A] is A[sigma a][sigma b] *)
  Definition pmat (sigma : list nat) (A : list (list R)) : list (list R) :=
    map (fun i => permute sigma (nth i A [])) sigma.

  Definition is_perm (sigma : list nat) (k : nat) : Prop := Permutation sigma (seq 0 k).
  Definition square (A : list (list R)) (k : nat) : Prop :=
    length A = k /\ Forall (fun r => length r = k) A.

  (* finite sums over index lists *)
  Fixpoint sumf (f : nat -> R) (l : list nat) : R :=
    match l with [] => 0 | i :: l' => f i + sumf f l' end.

  Lemma sumf_perm f l l' : Permutation l l' -> sumf f l = sumf f l'.
  Proof.
    intros H; induction H as [|x l l' H IH|x y l|l l' l'' H1 IH1 H2 IH2]; cbn [sumf].
    - reflexivity.
    - rewrite IH; reflexivity.
    - ring.
    - rewrite IH1; exact IH2.
  Qed.

  Lemma sumf_map f (g : nat -> nat) l : sumf f (map g l) = sumf (fun i => f (g i)) l.
  Proof. induction l as [|i l IH]; cbn [sumf map]; [reflexivity | rewrite IH; reflexivity]. Qed.

  Lemma dot_map_map (f1 f2 : nat -> R) l :
    dot (map f1 l) (map f2 l) = sumf (fun i => f1 i * f2 i) l.
  Proof. induction l as [|i l IH]; cbn [dot map sumf]; [reflexivity | rewrite IH; reflexivity]. Qed.

  Lemma dot_as_sum (r x : list R) : length r = length x ->
    dot r x = sumf (fun i => nth i r 0 * nth i x 0) (seq 0 (length r)).
  Proof.
    revert x; induction r as [|a r IH]; intros [|b x] Hl; cbn [length] in Hl; try discriminate.
    - reflexivity.
    - cbn [dot length seq sumf nth]. rewrite <- seq_shift, sumf_map. cbn [nth].
      rewrite IH by lia. reflexivity.
  Qed.

  (* KEY LEMMA: a scalar product does not see a common reordering of its two arguments *)
  Lemma dot_permute sigma k (r x : list R) :
    is_perm sigma k -> length r = k -> length x = k ->
    dot (permute sigma r) (permute sigma x) = dot r x.
  Proof.
    intros Hs Hr Hx. unfold permute. rewrite dot_map_map.
    rewrite dot_as_sum by lia. rewrite Hr. apply sumf_perm. exact Hs.
  Qed.

  Lemma perm_lt sigma k i : is_perm sigma k -> In i sigma -> i < k.
  Proof.
    intros Hs Hi. apply (Permutation_in _ Hs) in Hi. apply in_seq in Hi. lia.
  Qed.

  Lemma perm_length sigma k : is_perm sigma k -> length sigma = k.
  Proof. intros Hs. rewrite (Permutation_length Hs). apply seq_length. Qed.

  Lemma square_row A k i : square A k -> i < k -> length (nth i A []) = k.
  Proof.
    intros [Hl Hf] Hi. rewrite Forall_forall in Hf. apply Hf. apply nth_In. lia.
  Qed.

  Lemma length_mvec (A : list (list R)) x : length (mvec A x) = length A.
  Proof. unfold mvec. apply map_length. Qed.

  Lemma length_iter_mat (A : list (list R)) k n (v : list R) : length A = k -> length v = k -> length (iter_mat A n v) = k.
  Proof.
    intros HA Hv. destruct n as [|n]; cbn [iter_mat]; [exact Hv | rewrite length_mvec; exact HA].
  Qed.

  (* one step:  (P A P^-1) (P x) = P (A x) *)
  Lemma mvec_pmat sigma k (A : list (list R)) (x : list R) :
    is_perm sigma k -> square A k -> length x = k ->
    mvec (pmat sigma A) (permute sigma x) = permute sigma (mvec A x).
  Proof.
    intros Hs HA Hx. unfold mvec, pmat. rewrite map_map.
    unfold permute at 3. apply map_ext_in. intros i Hi.
    pose proof (perm_lt _ _ _ Hs Hi) as Hik.
    rewrite (dot_permute sigma k) by (auto using square_row).
    change 0 with (dot (@nil R) x) at 1.
    rewrite (map_nth (fun r => dot r x) A [] i). reflexivity.
  Qed.

  (* all n:  (P A P^-1)^n (P v) = P (A^n v) *)
  Theorem system_perm_invariant sigma k (A : list (list R)) (v : list R) :
    is_perm sigma k -> square A k -> length v = k ->
    forall n, iter_mat (pmat sigma A) n (permute sigma v) = permute sigma (iter_mat A n v).
  Proof.
    intros Hs HA Hv n; induction n as [|n IH]; cbn [iter_mat]; [reflexivity|].
    rewrite IH. apply (mvec_pmat sigma k); auto.
    apply length_iter_mat; [exact (proj1 HA) | exact Hv].
  Qed.

  Lemma nth_permute sigma (w : list R) j :
    j < length sigma -> nth j (permute sigma w) 0 = nth (nth j sigma O) w 0.
  Proof.
    intros Hj. unfold permute.
    rewrite (nth_indep _ 0 ((fun i => nth i w 0) O)) by (rewrite map_length; exact Hj).
    apply (map_nth (fun i => nth i w 0)).
  Qed.

  (* component form: slot j of the permuted system carries component sigma(j) *)
  Corollary system_perm_component sigma k (A : list (list R)) (v : list R) :
    is_perm sigma k -> square A k -> length v = k ->
    forall n j, j < k ->
      nth j (iter_mat (pmat sigma A) n (permute sigma v)) 0 = nth (nth j sigma O) (iter_mat A n v) 0.
  Proof.
    intros Hs HA Hv n j Hj. rewrite (system_perm_invariant sigma k) by assumption.
    apply nth_permute. rewrite (perm_length _ _ Hs). exact Hj.
  Qed.

  (* with the verified validator: closed forms accepted for the two enumerations of the
     same system agree, componentwise under the permutation, at every n *)
  Corollary accepted_perm_agree sigma k (A : list (list R)) (v : list R) F sp F' sp' :
    is_perm sigma k -> square A k -> length v = k ->
    check_solution A v F sp = true ->
    check_solution (pmat sigma A) (permute sigma v) F' sp' = true ->
    forall n, pw_eval F' sp' n = permute sigma (pw_eval F sp n).
  Proof.
    intros Hs HA Hv H H' n.
    rewrite (check_solution_sound R _ _ _ _ H n), (check_solution_sound R _ _ _ _ H' n).
    apply (system_perm_invariant sigma k); assumption.
  Qed.

  Corollary accepted_perm_agree_component sigma k (A : list (list R)) (v : list R) F sp F' sp' :
    is_perm sigma k -> square A k -> length v = k ->
    check_solution A v F sp = true ->
    check_solution (pmat sigma A) (permute sigma v) F' sp' = true ->
    forall n j, j < k -> nth j (pw_eval F' sp' n) 0 = nth (nth j sigma O) (pw_eval F sp n) 0.
  Proof.
    intros Hs HA Hv H H' n j Hj.
    rewrite (accepted_perm_agree sigma k A v F sp F' sp') by assumption.
    apply nth_permute. rewrite (perm_length _ _ Hs). exact Hj.
  Qed.

  (* two different enumeration orders of the same system: related by both permutations *)
  Corollary two_orders_agree sigma tau k (A : list (list R)) (v : list R) :
    is_perm sigma k -> is_perm tau k -> square A k -> length v = k ->
    forall n i j, i < k -> j < k -> nth i sigma O = nth j tau O ->
      nth i (iter_mat (pmat sigma A) n (permute sigma v)) 0
      = nth j (iter_mat (pmat tau A) n (permute tau v)) 0.
  Proof.
    intros Hs Ht HA Hv n i j Hi Hj E.
    rewrite (system_perm_component sigma k), (system_perm_component tau k) by assumption.
    rewrite E. reflexivity.
  Qed.
End Perm.

Arguments permute {R} _ _. Arguments pmat {R} _ _.
Arguments square {R} _ _.

(* decidable side conditions, for the examples and for generated case files *)
Definition is_permb (sigma : list nat) (k : nat) : bool :=
  (length sigma =? k) && forallb (fun i => existsb (Nat.eqb i) sigma) (seq 0 k).

Lemma is_permb_sound sigma k : is_permb sigma k = true -> is_perm sigma k.
Proof.
  unfold is_permb, is_perm. intros H. apply andb_true_iff in H. destruct H as [Hl Hf].
  apply Nat.eqb_eq in Hl. rewrite forallb_forall in Hf.
  apply Permutation_sym. apply NoDup_Permutation_bis.
  - apply seq_NoDup.
  - rewrite seq_length. lia.
  - intros i Hi. specialize (Hf i Hi). apply existsb_exists in Hf.
    destruct Hf as [j [Hj E]]. apply Nat.eqb_eq in E. subst. exact Hj.
Qed.
