(* C08 — the one family where the defining integral itself is cheap: the translated
   Uniform(a,b).get_moment(k) equals  RInt (fun x => x^k / (b - a)) a b  (Coquelicot). *)
From Coq Require Import QArith Qcanon Qreals Reals Lra Lia.
From Coquelicot Require Import Coquelicot.
From Polar Require Import Qcx DistBase.
From PolarGen Require Import DistGen.

Definition Qc2R (q : Qc) : R := Q2R (this q).

Lemma Qc2R_red q : Q2R (Qred q) = Q2R q.
Proof. apply Qeq_eqR. apply Qred_correct. Qed.
Lemma Qc2R_plus x y : Qc2R (x + y)%Qc = (Qc2R x + Qc2R y)%R.
Proof. unfold Qc2R, Qcplus, Q2Qc. cbn [this]. rewrite Qc2R_red. apply Q2R_plus. Qed.
Lemma Qc2R_mult x y : Qc2R (x * y)%Qc = (Qc2R x * Qc2R y)%R.
Proof. unfold Qc2R, Qcmult, Q2Qc. cbn [this]. rewrite Qc2R_red. apply Q2R_mult. Qed.
Lemma Qc2R_opp x : Qc2R (- x)%Qc = (- Qc2R x)%R.
Proof. unfold Qc2R, Qcopp, Q2Qc. cbn [this]. rewrite Qc2R_red. apply Q2R_opp. Qed.
Lemma Qc2R_minus x y : Qc2R (x - y)%Qc = (Qc2R x - Qc2R y)%R.
Proof. unfold Qcminus. rewrite Qc2R_plus, Qc2R_opp. reflexivity. Qed.
Lemma Qc2R_0 : Qc2R 0%Qc = 0%R.
Proof. unfold Qc2R. cbn. unfold Q2R. cbn. lra. Qed.
Lemma Qc2R_1 : Qc2R 1%Qc = 1%R.
Proof. unfold Qc2R. cbn. unfold Q2R. cbn. lra. Qed.
Lemma Qc2R_inj_0 x : Qc2R x = 0%R -> x = 0%Qc.
Proof.
  intros H. apply Qc_is_canon. unfold Qc2R in H. change (this 0%Qc) with (Qred 0).
  rewrite Qred_correct. apply eqR_Qeq. rewrite H. unfold Q2R. cbn. lra.
Qed.
Lemma Qc2R_inv x : x <> 0%Qc -> Qc2R (/ x)%Qc = (/ Qc2R x)%R.
Proof.
  intros H. unfold Qc2R, Qcinv, Q2Qc. cbn [this]. rewrite Qc2R_red. apply Q2R_inv.
  intros E. apply H. apply Qc_is_canon. rewrite E. change (this 0%Qc) with (Qred 0). rewrite Qred_correct. reflexivity.
Qed.
Lemma Qc2R_div x y : y <> 0%Qc -> Qc2R (x / y)%Qc = (Qc2R x / Qc2R y)%R.
Proof. intros H. unfold Qcdiv. rewrite Qc2R_mult, Qc2R_inv by exact H. reflexivity. Qed.
Lemma Qc2R_qpow x k : Qc2R (qpow x k) = (Qc2R x ^ k)%R.
Proof. induction k as [|k IH]; [apply Qc2R_1|]. cbn [qpow pow]. rewrite Qc2R_mult, IH. reflexivity. Qed.
Lemma Qc2R_qnat n : Qc2R (qnat n) = INR n.
Proof. induction n as [|n IH]; [apply Qc2R_0|]. rewrite S_INR. cbn [qnat]. rewrite Qc2R_plus, IH, Qc2R_1. reflexivity. Qed.

Lemma is_RInt_monomial (a b d : R) (k : nat) : d <> 0%R ->
  is_RInt (fun x => x ^ k / d)%R a b ((b ^ (k + 1) - a ^ (k + 1)) / (INR (k + 1) * d))%R.
Proof.
  intros Hd.
  assert (Hk : INR (k + 1) <> 0%R) by (apply not_0_INR; lia).
  replace ((b ^ (k + 1) - a ^ (k + 1)) / (INR (k + 1) * d))%R
    with (minus ((fun x => x ^ (k + 1) / (INR (k + 1) * d)) b) ((fun x => x ^ (k + 1) / (INR (k + 1) * d)) a))%R.
  2:{ unfold minus, plus, opp; simpl. field. split; assumption. }
  apply (is_RInt_derive (fun x => x ^ (k + 1) / (INR (k + 1) * d))%R (fun x => x ^ k / d)%R).
  - intros x _. auto_derive; [exact I|].
    replace (Init.Nat.pred (k + 1)) with k by lia. rewrite plus_INR. simpl INR. 
    rewrite plus_INR in Hk. simpl INR in Hk. field. split; assumption.
  - intros x _. apply (ex_derive_continuous (fun x => x ^ k / d)%R). auto_derive. exact I.
Qed.

Theorem uniform_moment_integral (a b : Qc) (k : nat) : a <> b ->
  Qc2R (uniform_get_moment a b k)
  = RInt (fun x => x ^ k / (Qc2R b - Qc2R a))%R (Qc2R a) (Qc2R b).
Proof.
  intros H.
  assert (Hd : (b - a)%Qc <> 0%Qc).
  { intros E. apply H. symmetry. rewrite <- (Qcplus_0_r a), <- E. ring. }
  assert (HdR : (Qc2R b - Qc2R a)%R <> 0%R).
  { rewrite <- Qc2R_minus. intros E. apply Hd. apply Qc2R_inj_0. exact E. }
  symmetry. apply is_RInt_unique.
  unfold uniform_get_moment.
  assert (N : (qnat (k + 1) * (b - a))%Qc <> 0%Qc).
  { intros Z. apply Qcmult_integral in Z. destruct Z as [Z|Z]; [|exact (Hd Z)].
    replace (k + 1)%nat with (S k) in Z by lia. exact (qnat_S_neq0 k Z). }
  rewrite Qc2R_div by exact N. rewrite Qc2R_minus, !Qc2R_qpow, Qc2R_mult, Qc2R_qnat, Qc2R_minus.
  apply is_RInt_monomial. exact HdR.
Qed.
