(* Executable helpers for the failing-input search (no theorems depend on them). *)
From Coq Require Import List String QArith Qcanon ZArith Bool.
From Polar Require Import Qcx Dist Syntax Sem Types.
Import ListNotations.

Definition nonzero (q : Qc) : bool := negb (Qc_eqb q 0%Qc).

(* values outside their type in the states of a distribution (weight <> 0) *)
Definition type_violations (T : tenv) (d : dist state) : list (var * (Z * positive)) :=
  flat_map (fun ws : Qc * state =>
    if nonzero (fst ws) then
      flat_map (fun xt : var * list Qc =>
        if mem (snd ws (fst xt)) (snd xt) then [] else [(fst xt, qpair (snd ws (fst xt)))]) T
    else []) d.

(* a start state satisfying [init_ok]: typed variables start at a value of their type *)
Definition typed_start (T : tenv) : state :=
  fun x => match tlookup T x with Some (v :: _) => v | _ => 0%Qc end.

Definition flat_moments (fp : flatprog) (ms : list mono) (N : nat) : list (list (Z * positive)) :=
  map (fun n => let d := frun no_law fp n st0 in map (fun m => qpair (E d (eval_mono m))) ms) (seq 0 (S N)).

Definition src_moments (p : prog) (ms : list mono) (N : nat) : list (list (Z * positive)) :=
  map (fun n => let d := run no_law p n st0 in map (fun m => qpair (E d (eval_mono m))) ms) (seq 0 (S N)).

(* Model of the transfer function Polar's typer really uses (attribution only, no theorem):
   the default variable's values are left out for the assignments flagged in [drops]
   (condition implied by the loop guard). *)
Definition check_ga_drop (T : tenv) (g : gassign) (drop : bool) : bool :=
  if drop then
    match tlookup T (ga_var g) with
    | None => true
    | Some vs => match rhs_set all_vars T (ga_rhs g) with Some rs => subset rs vs | None => false end
    end
  else check_ga T g.

Fixpoint check_body_drop (T : tenv) (l : list gassign) (drops : list bool) : bool :=
  match l, drops with
  | [], _ => true
  | g :: l', d :: ds => check_ga_drop T g d && check_body_drop T l' ds
  | g :: l', [] => check_ga_drop T g false && check_body_drop T l' []
  end.

Definition check_types_drop (fp : flatprog) (drops : list bool) (T : tenv) : bool :=
  check_init T (fp_init fp) && check_body_drop T (fp_body fp) drops.

(* ---- compaction of distributions: merge states that agree on the listed variables.
   Used only to make the executable oracle fast; cross-checked against the plain [run] for
   small n by the harness (not proved here). ---- *)
Fixpoint key_eqb (a b : list Qc) : bool :=
  match a, b with
  | [], [] => true
  | x :: a', y :: b' => Qc_eqb x y && key_eqb a' b'
  | _, _ => false
  end.
Fixpoint cinsert (w : Qc) (k : list Qc) (acc : list (Qc * list Qc)) : list (Qc * list Qc) :=
  match acc with
  | [] => [(w, k)]
  | (w', k') :: acc' => if key_eqb k k' then ((w + w')%Qc, k') :: acc' else (w', k') :: cinsert w k acc'
  end.
Definition compact (vs : list var) (d : dist state) : dist state :=
  let keyed := fold_right (fun ws acc => if nonzero (fst ws) then cinsert (fst ws) (map (snd ws) vs) acc else acc) [] d in
  map (fun wk => (fst wk, env_state (combine vs (snd wk)))) keyed.

Fixpoint run_c (vs : list var) (p : prog) (n : nat) (s0 : state) : dist state :=
  match n with
  | O => compact vs (exec_block no_law (p_init p) s0)
  | S n' => compact vs (bind (run_c vs p n' s0) (iter no_law p))
  end.

(* all moments for n = 0..N, reusing the compacted distribution of n-1 *)
Fixpoint src_moments_c_aux (vs : list var) (p : prog) (ms : list mono) (d : dist state) (N : nat)
  : list (list (Z * positive)) :=
  map (fun m => qpair (E d (eval_mono m))) ms ::
  match N with O => [] | S N' => src_moments_c_aux vs p ms (compact vs (bind d (iter no_law p))) N' end.
Definition src_moments_c (vs : list var) (p : prog) (ms : list mono) (N : nat) : list (list (Z * positive)) :=
  src_moments_c_aux vs p ms (compact vs (exec_block no_law (p_init p) st0)) N.

(* ---- search for a state on which a row of a system is not the one-step expectation ---- *)
Fixpoint sdot (r : list Qc) (x : list Qc) : Qc :=
  match r, x with a :: r', b :: x' => (a * b + sdot r' x')%Qc | _, _ => 0%Qc end.
Fixpoint find_idx {A} (f : A -> bool) (l : list A) (i : nat) : option nat :=
  match l with [] => None | a :: l' => if f a then Some i else find_idx f l' (S i) end.

Definition row_bad (fp : flatprog) (ms : list mono) (s : state) (mr : mono * list Qc) : bool :=
  negb (Qc_eqb (E (fstep no_law fp s) (eval_mono (fst mr))) (sdot (snd mr) (map (fun m => eval_mono m s) ms))).

Definition row_search_at (fp : flatprog) (ms : list mono) (A : list (list Qc)) (d : dist state) : option nat :=
  fold_right (fun ws acc =>
    match acc with Some i => Some i | None =>
      if nonzero (fst ws) then find_idx (row_bad fp ms (snd ws)) (combine ms A) 0 else None end) None d.

Fixpoint row_search_aux (vs : list var) (fp : flatprog) (ms : list mono) (A : list (list Qc)) (d : dist state) (n N : nat)
  : option (nat * nat) :=
  match row_search_at fp ms A d with
  | Some i => Some (n, i)
  | None => match N with O => None | S N' => row_search_aux vs fp ms A (compact vs (bind d (fstep no_law fp))) (S n) N' end
  end.
Definition row_search (vs : list var) (fp : flatprog) (T : tenv) (ms : list mono) (A : list (list Qc)) (N : nat) : option (nat * nat) :=
  row_search_aux vs fp ms A (compact vs (exec_gas no_law (fp_init fp) (typed_start T))) 0 N.

Definition init_search (fp : flatprog) (ms : list mono) (v : list Qc) : option nat :=
  find_idx (fun mv : mono * Qc => negb (Qc_eqb (E (exec_gas no_law (fp_init fp) st0) (eval_mono (fst mv))) (snd mv)))
           (combine ms v) 0.

(* ---- the joint law on a list of variables after n iterations (compacted) ---- *)
Definition law_on (vs : list var) (d : dist state) : list ((Z * positive) * list (Z * positive)) :=
  map (fun ws : Qc * state => (qpair (fst ws), map (fun x => qpair (snd ws x)) vs)) (compact vs d).
Fixpoint src_laws_aux (allvs obs : list var) (p : prog) (d : dist state) (N : nat)
  : list (list ((Z * positive) * list (Z * positive))) :=
  law_on obs d ::
  match N with O => [] | S N' => src_laws_aux allvs obs p (compact allvs (bind d (iter no_law p))) N' end.
Definition src_laws (allvs obs : list var) (p : prog) (N : nat) :=
  src_laws_aux allvs obs p (compact allvs (exec_block no_law (p_init p) st0)) N.


(* reachable-state search for a value outside its type, with compaction *)
Fixpoint type_search_aux (vs : list var) (fp : flatprog) (T : tenv) (d : dist state) (N : nat)
  : list (list (var * (Z * positive))) :=
  type_violations T d ::
  match N with O => [] | S N' => type_search_aux vs fp T (compact vs (bind d (fstep no_law fp))) N' end.
Definition type_search (vs : list var) (fp : flatprog) (T : tenv) (N : nat) : list (list (var * (Z * positive))) :=
  type_search_aux vs fp T (compact vs (exec_gas no_law (fp_init fp) (typed_start T))) N.
