(* C20 — results are independent of process history, goal order and hash seed.
   HistoryPerm  : enumeration order of the monomials of a recurrence system (worklist pop
                  order, goal order, set iteration order) permutes the solution vector.
   HistoryMemo  : caches in front of pure functions are transparent; Or-chains over a set.
   HistoryNames : the global name counter: freshness, and a different start value is an
                  injective renaming of the auxiliary names.
   HistoryAlpha : the reference semantics of flat programs is invariant under injective
                  renamings of variables.
   Here: the last two combined. *)
From Coq Require Import List String QArith Qcanon.
From Polar Require Import Qcx Dist Syntax Sem.
From Polar Require Export HistoryPerm HistoryMemo HistoryNames HistoryAlpha.
Import ListNotations.

(* The flat program whose auxiliary names were generated d counter values later (all
   canonical generated names shifted by d, every other variable unchanged) has, at every
   iteration n and for every observable, the same expectation read through the renaming.
   NOT covered: that Polar's transformers, run at counter value k0 + d, output exactly
   [rename_fp (cshift d)] of what they output at k0 — that is a statement about the
   transformer code (they call get_unique_var in the same sequence), checked on the real
   implementation by the harness, not proved here. *)
Theorem counter_shift_semantic (law : string -> list Qc -> dist Qc) (d : nat) fp n s' g :
  extensional g ->
  E (frun law (rename_fp (cshift d) fp) n s') (fun t => g (fun x => t (cshift d x)))
  = E (frun law fp n (fun x => s' (cshift d x))) g.
Proof. apply frun_alpha_pullback. apply cshift_injective. Qed.
