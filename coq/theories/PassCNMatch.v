(* Boolean structural comparison of the ConditionsNormalizer model's output with Polar's
   output, evaluated inside Coq by harness/pass_condnorm.py: conditions up to the order of
   the values of an Or-chain, right-hand sides up to polynomial normal form. *)
From Coq Require Import List String QArith Qcanon ZArith Bool.
From Polar Require Import Qcx Dist Syntax Sem Types Poly PassCNBase PassConstants PassCondNorm.
Import ListNotations.

Definition cn_ga_matches (g h : gassign) : bool :=
  var_eqb (ga_var g) (ga_var h) && var_eqb (ga_default g) (ga_default h)
  && cond_eq_mod (ga_cond g) (ga_cond h) && rhs_eq_poly (ga_rhs g) (ga_rhs h).

Definition cn_in_model (T : tenv) (fp : flatprog) : bool :=
  match cn_pass T fp with Some _ => true | None => false end.

Definition cn_matches (T : tenv) (fp out : flatprog) : bool :=
  match cn_pass T fp with
  | Some m => list_eqb cn_ga_matches (fp_init m) (fp_init out) && list_eqb cn_ga_matches (fp_body m) (fp_body out)
  | None => false
  end.
