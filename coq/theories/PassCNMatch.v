(* Boolean structural comparison of the ConditionsNormalizer model's output with Polar's
   output, evaluated inside Coq by harness/pass_condnorm.py: conditions up to the order of
   the values of an Or-chain, right-hand sides up to polynomial normal form. *)
From Coq Require Import List String QArith Qcanon ZArith Bool.
From Polar Require Import Qcx Dist Syntax Sem Types Poly PassCNBase PassConstants PassCondNorm.
Import ListNotations.

Definition cn_ga_matches (g h : gassign) : bool :=
  var_eqb (ga_var g) (ga_var h) && var_eqb (ga_default g) (ga_default h)
  && cond_eq_mod (ga_cond g) (ga_cond h) && rhs_eq_poly (ga_rhs g) (ga_rhs h).

Definition cn_in_model (T : tenv) (fp : flatprog) : bool :=
  match cn_pass T fp with Some _ => true | None => false end.

Definition cn_matches (T : tenv) (fp out : flatprog) : bool :=
  match cn_pass T fp with
  | Some m => list_eqb cn_ga_matches (fp_init m) (fp_init out) && list_eqb cn_ga_matches (fp_body m) (fp_body out)
  | None => false
  end.

(* ---- DistTransformer: source programs (statement trees) up to polynomial normal form ---- *)
From Polar Require Import PassDist.

Fixpoint stmt_eq (a b : stmt) : bool :=
  match a, b with
  | SAssign x r, SAssign y r' => var_eqb x y && rhs_eq_poly r r'
  | SSimult l, SSimult l' =>
      list_eqb (fun p q : var * rhs => var_eqb (fst p) (fst q) && rhs_eq_poly (snd p) (snd q)) l l'
  | SIf bs els, SIf bs' els' => branches_eq bs bs' && block_eq els els'
  | _, _ => false
  end
with block_eq (a b : block) : bool :=
  match a, b with
  | BNil, BNil => true
  | BCons s a', BCons t b' => stmt_eq s t && block_eq a' b'
  | _, _ => false
  end
with branches_eq (a b : branches) : bool :=
  match a, b with
  | BrNil, BrNil => true
  | BrCons c x a', BrCons d y b' => cond_eq_poly c d && block_eq x y && branches_eq a' b'
  | _, _ => false
  end.

Definition prog_eq (p q : prog) : bool :=
  block_eq (p_init p) (p_init q) && cond_eq_poly (p_guard p) (p_guard q) && block_eq (p_body p) (p_body q).

Definition dist_in_model (ns : list var) (p : prog) : bool :=
  match dt_prog ns p with Some _ => true | None => false end.
(* the model consumes exactly the supplied names and produces Polar's program *)
Definition dist_matches (ns : list var) (p out : prog) : bool :=
  match dt_prog ns p with
  | Some (m, rest) => prog_eq m out && match rest with [] => true | _ => false end
  | None => false
  end.
