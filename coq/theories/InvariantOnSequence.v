(* C06 composed with C04: an invariant accepted against closed forms that are themselves accepted
   for the system  x(n+1) = A x(n), x(0) = v  holds on the TRUE recurrence sequence A^n v at
   every n from the cut-off (the number of listed special cases) on -- no reference to the
   closed forms remains in the conclusion. *)
From Coq Require Import List Bool Arith Lia.
From Polar Require Import CRing ExpPoly ClosedForm ClosedFormSeq Invariant InvariantIdeal.
Import ListNotations.

Section OnSeq.
  Variable R : cring.

  Lemma evalF_same (F : list (epoly R)) n : Invariant.evalF F n = ClosedForm.evalF F n.
  Proof. reflexivity. Qed.

  Theorem invariant_on_recurrence_sequence A v (F : list (epoly R)) sp (B : mpoly R) :
    check_solution A v F sp = true -> check_invariant B F = true ->
    forall n, length sp <= n -> poly_eval B (iter_mat A n v) = r0.
  Proof.
    intros HS HB n Hn.
    rewrite <- (general_part_from_cutoff R A v F sp HS n Hn), <- evalF_same.
    apply check_invariant_sound; exact HB.
  Qed.

  Theorem ideal_member_on_recurrence_sequence A v (F : list (epoly R)) sp (Bs Cs : list (mpoly R)) :
    check_solution A v F sp = true ->
    forallb (fun B => check_invariant B F) Bs = true ->
    forallb (exps_ok (length F)) Cs = true ->
    forall n, length sp <= n -> poly_eval (ideal_comb Cs Bs) (iter_mat A n v) = r0.
  Proof.
    intros HS HB HC n Hn.
    rewrite <- (general_part_from_cutoff R A v F sp HS n Hn), <- evalF_same.
    apply ideal_member_invariant; assumption.
  Qed.
End OnSeq.
