(* C02, MultiAssignTransformer (program/transformer/multi_assign_transformer.py).

   Python:   counts = number of assignments per variable in the loop body; substitutions = {}
             for assign in loop_body:
                 assign.subs(substitutions)            # condition, default, right-hand side
                 var = assign.variable
                 if count[var] > 1:  new = _<var><total[var]-count[var]+1>
                                     assign.variable = new; substitutions[var] = new; count[var] -= 1
                 else:               substitutions.pop(var)

   Model [multi_assign] below follows this literally (the substitution map is a function
   var -> var, "pop" resets it to the identity at that variable).  Theorem: one execution of
   the transformed body, from ANY state that agrees with the source state outside the
   generated version names, gives every observation that does not read version names the
   same expectation; lifted to every number of iterations. *)
From Coq Require Import List String QArith Qcanon ZArith Bool Lia Arith.
From Polar Require Import Qcx Dist Syntax Sem Types PassFlat.
Import ListNotations.
Local Open Scope nat_scope.

(* ---- renaming of variables (symengine subs with a symbol -> symbol map) ---- *)
Fixpoint ren_expr (r : var -> var) (e : expr) : expr :=
  match e with
  | EConst q => EConst q
  | EVar x => EVar (r x)
  | EAdd a b => EAdd (ren_expr r a) (ren_expr r b)
  | EMul a b => EMul (ren_expr r a) (ren_expr r b)
  | EPow a k => EPow (ren_expr r a) k
  end.
Fixpoint ren_cond (r : var -> var) (c : cond) : cond :=
  match c with
  | CTrue => CTrue
  | CFalse => CFalse
  | CAtom a o b => CAtom (ren_expr r a) o (ren_expr r b)
  | CNot c1 => CNot (ren_cond r c1)
  | CAnd c1 c2 => CAnd (ren_cond r c1) (ren_cond r c2)
  | COr c1 c2 => COr (ren_cond r c1) (ren_cond r c2)
  end.
Definition ren_draw (r : var -> var) (d : draw) : draw :=
  match d with
  | DBern p => DBern (ren_expr r p)
  | DCat ps => DCat (map (ren_expr r) ps)
  | DUnif a b => DUnif a b
  | DCont f args => DCont f (map (ren_expr r) args)
  end.
Definition ren_rhs (r : var -> var) (rh : rhs) : rhs :=
  match rh with
  | RChoice alts => RChoice (map (fun pe => (ren_expr r (fst pe), ren_expr r (snd pe))) alts)
  | RDraw d => RDraw (ren_draw r d)
  end.
(* Assignment.subs: default, condition, right-hand side — NOT the assigned variable *)
Definition ren_ga (r : var -> var) (g : gassign) : gassign :=
  {| ga_var := ga_var g; ga_cond := ren_cond r (ga_cond g); ga_default := r (ga_default g);
     ga_rhs := ren_rhs r (ga_rhs g) |}.
Definition set_var (g : gassign) (x : var) : gassign :=
  {| ga_var := x; ga_cond := ga_cond g; ga_default := ga_default g; ga_rhs := ga_rhs g |}.

Definition fupd {A} (f : var -> A) (x : var) (v : A) : var -> A := fun y => if var_eqb y x then v else f y.

(* number of assignments to x *)
Fixpoint nassign (x : var) (l : list gassign) : nat :=
  match l with [] => O | g :: l' => (if var_eqb (ga_var g) x then 1 else 0) + nassign x l' end.

(* the i-th version of x:  f"_{var}{i}" *)
Definition ver (x : var) (i : nat) : var := ("_" ++ x ++ nat_str i)%string.

Fixpoint ma_go (tot cnt : var -> nat) (r : var -> var) (l : list gassign) : list gassign :=
  match l with
  | [] => []
  | g :: l' =>
      let g1 := ren_ga r g in
      let x := ga_var g in
      if Nat.ltb 1 (cnt x)
      then let nv := ver x (tot x - cnt x + 1) in
           set_var g1 nv :: ma_go tot (fupd cnt x (cnt x - 1)) (fupd r x nv) l'
      else g1 :: ma_go tot cnt (fupd r x x) l'
  end.

Definition multi_assign (l : list gassign) : list gassign :=
  let c := fun x => nassign x l in ma_go c c (fun x => x) l.

(* the pass touches the loop body only *)
Definition ma_prog (fp : flatprog) : flatprog :=
  {| fp_init := fp_init fp; fp_body := multi_assign (fp_body fp) |}.

(* ---- generated names and the boolean well-formedness hypothesis ---- *)
Definition ma_vars (l : list gassign) : list var := nodup string_dec (map ga_var l).
Definition versions (l : list gassign) (x : var) : list var := map (ver x) (seq 1 (nassign x l - 1)).
Definition ma_gen (l : list gassign) : list var := flat_map (versions l) (ma_vars l).

(* (1) no generated version name occurs in the source body (as target, default, in a
       condition or in a right-hand side);
   (2) versions of two different variables are different names ("_a11" is the 11th version of
       "a" and the 1st of "a1") *)
Definition wf_ma (l : list gassign) : bool :=
  sdisjoint (ma_gen l) (gas_vars l)
  && forallb (fun x => forallb (fun y => var_eqb x y || sdisjoint (versions l x) (versions l y)) (ma_vars l)) (ma_vars l).
Definition wf_ma_prog (fp : flatprog) : bool :=
  wf_ma (fp_body fp) && sdisjoint (ma_gen (fp_body fp)) (gas_vars (fp_init fp)).

(* ---- semantics of renaming ---- *)
Lemma eval_ren r e s : eval (ren_expr r e) s = eval e (fun x => s (r x)).
Proof. induction e; cbn [ren_expr eval]; congruence. Qed.
Lemma holds_ren r c s : holds (ren_cond r c) s = holds c (fun x => s (r x)).
Proof. induction c; cbn [ren_cond holds]; rewrite ?eval_ren; congruence. Qed.
Lemma map_eval_ren r (l : list expr) s :
  map (fun e => eval e s) (map (ren_expr r) l) = map (fun e => eval e (fun x => s (r x))) l.
Proof. rewrite map_map. apply map_ext. intros e. apply eval_ren. Qed.

Section MA.
  Variable law : string -> list Qc -> dist Qc.

  Lemma sample_ren r rh s : sample law (ren_rhs r rh) s = sample law rh (fun x => s (r x)).
  Proof.
    destruct rh as [alts|d]; cbn [ren_rhs sample].
    - rewrite map_map. apply map_ext. intros [p e]. cbn [fst snd]. rewrite !eval_ren. reflexivity.
    - destruct d as [p|ps|a b|f args]; cbn [ren_draw draw_law].
      + rewrite eval_ren. reflexivity.
      + rewrite map_eval_ren. reflexivity.
      + reflexivity.
      + rewrite map_eval_ren. reflexivity.
  Qed.

  Lemma nassign_In x l : (1 <= nassign x l)%nat -> In x (map ga_var l).
  Proof.
    induction l as [|g l IH]; cbn [nassign map]; intros H; [lia|].
    destruct (var_eqb (ga_var g) x) eqn:E; [left; apply var_eqb_eq; exact E | right; apply IH; lia].
  Qed.

  (* the simulation, generalised over the suffix still to be processed *)
  Lemma ma_go_sim (G : var -> Prop) (tot : var -> nat) :
    (forall x j, (1 <= j < tot x)%nat -> G (ver x j)) ->
    (forall x y j i, x <> y -> (1 <= j < tot x)%nat -> (1 <= i < tot y)%nat -> ver x j <> ver y i) ->
    forall suf cnt r,
      (forall x, In x (gas_vars suf) -> ~ G x) ->
      (forall x, (1 <= nassign x suf)%nat -> cnt x = nassign x suf /\ (cnt x <= tot x)%nat) ->
      (forall y, r y = y \/ exists j, (1 <= j < tot y)%nat /\ r y = ver y j) ->
      (forall y, nassign y suf = O -> r y = y) ->
      forall s s' f,
        (forall y, ~ G y -> s' (r y) = s y) ->
        respects G f ->
        E (exec_gas law (ma_go tot cnt r suf) s') f = E (exec_gas law suf s) f.
  Proof.
    intros HG Hdisj suf. induction suf as [|g suf IH]; intros cnt r Hsrc Hcnt Hr Hr0 s s' f Hrel Hf.
    - cbn [ma_go]. rewrite !E_exec_gas_nil. apply Hf. intros y Hy.
      specialize (Hrel y Hy). rewrite (Hr0 y eq_refl) in Hrel. exact Hrel.
    - set (x := ga_var g).
      assert (Hg : forall z, In z (ga_vars g) -> ~ G z).
      { intros z Hz. apply Hsrc. cbn [gas_vars flat_map]. apply in_or_app. left. exact Hz. }
      assert (Hsuf : forall z, In z (gas_vars suf) -> ~ G z).
      { intros z Hz. apply Hsrc. cbn [gas_vars flat_map]. apply in_or_app. right. exact Hz. }
      assert (HxG : ~ G x) by (apply Hg; left; reflexivity).
      assert (Hnx : nassign x (g :: suf) = S (nassign x suf)).
      { cbn [nassign]. unfold x. rewrite var_eqb_refl. reflexivity. }
      assert (Hny : forall y, y <> x -> nassign y (g :: suf) = nassign y suf).
      { intros y Hy. cbn [nassign]. fold x. rewrite var_eqb_neq by (intros E; apply Hy; symmetry; exact E). reflexivity. }
      destruct (Hcnt x) as [Hcx Hcx2]; [rewrite Hnx; lia|]. rewrite Hnx in Hcx.
      (* what the renamed assignment reads in s' is what the source reads in s *)
      assert (Hread : forall z, In z (ga_vars g) -> s' (r z) = s z) by (intros z Hz; apply Hrel, Hg, Hz).
      assert (Hcond : holds (ren_cond r (ga_cond g)) s' = holds (ga_cond g) s).
      { rewrite holds_ren. apply holds_ext. intros z Hz. apply Hread. unfold ga_vars. right. right. apply in_or_app. left. exact Hz. }
      assert (Hsam : sample law (ren_rhs r (ga_rhs g)) s' = sample law (ga_rhs g) s).
      { rewrite sample_ren. apply sample_ext. intros z Hz. apply Hread. unfold ga_vars. right. right. apply in_or_app. right. exact Hz. }
      assert (Hdef : s' (r (ga_default g)) = s (ga_default g)).
      { apply Hread. unfold ga_vars. right. left. reflexivity. }
      cbn [ma_go]. fold x.
      destruct (Nat.ltb 1 (cnt x)) eqn:Elt.
      + (* a later assignment to x exists: new version *)
        apply Nat.ltb_lt in Elt.
        set (k := (tot x - cnt x + 1)%nat).
        assert (Hk : (1 <= k < tot x)%nat) by (unfold k; lia).
        rewrite !E_exec_gas_cons. apply E_exec_ga_rel; cbn [set_var ren_ga ga_cond ga_rhs ga_default ga_var];
          [exact Hcond | exact Hsam | exact Hdef |].
        intros v. fold x. apply IH.
        * exact Hsuf.
        * intros y Hy. unfold fupd. destruct (var_eqb y x) eqn:Eyx.
          -- apply var_eqb_eq in Eyx. subst y. split; lia.
          -- assert (Hyx : y <> x) by (intros ->; rewrite var_eqb_refl in Eyx; discriminate).
             rewrite <- (Hny y Hyx). apply Hcnt. rewrite (Hny y Hyx). exact Hy.
        * intros y. unfold fupd. destruct (var_eqb y x) eqn:Eyx.
          -- apply var_eqb_eq in Eyx. subst y. right. exists k. split; [exact Hk | reflexivity].
          -- apply Hr.
        * intros y Hy. unfold fupd. destruct (var_eqb y x) eqn:Eyx.
          -- apply var_eqb_eq in Eyx. subst y. lia.
          -- assert (Hyx : y <> x) by (intros ->; rewrite var_eqb_refl in Eyx; discriminate).
             apply Hr0. rewrite (Hny y Hyx). exact Hy.
        * intros y Hy. unfold fupd. destruct (var_eqb y x) eqn:Eyx.
          -- apply var_eqb_eq in Eyx. subst y. rewrite !upd_same. reflexivity.
          -- assert (Hyx : y <> x) by (intros ->; rewrite var_eqb_refl in Eyx; discriminate).
             rewrite (upd_other s x v y Hyx). rewrite upd_other; [apply Hrel; exact Hy|].
             destruct (Hr y) as [Ey|[j [Hj Ey]]]; rewrite Ey.
             ++ intros E. apply Hy. rewrite E. apply HG. exact Hk.
             ++ apply Hdisj; assumption.
        * exact Hf.
      + (* last assignment to x: keeps the source name, substitution popped *)
        apply Nat.ltb_ge in Elt.
        assert (Hlast : nassign x suf = O) by lia.
        rewrite !E_exec_gas_cons. apply E_exec_ga_rel; cbn [ren_ga ga_cond ga_rhs ga_default ga_var];
          [exact Hcond | exact Hsam | exact Hdef |].
        intros v. fold x. apply IH.
        * exact Hsuf.
        * intros y Hy. assert (Hyx : y <> x) by (intros ->; lia).
          rewrite <- (Hny y Hyx). apply Hcnt. rewrite (Hny y Hyx). exact Hy.
        * intros y. unfold fupd. destruct (var_eqb y x) eqn:Eyx.
          -- apply var_eqb_eq in Eyx. subst y. left. reflexivity.
          -- apply Hr.
        * intros y Hy. unfold fupd. destruct (var_eqb y x) eqn:Eyx.
          -- apply var_eqb_eq in Eyx. symmetry. exact Eyx.
          -- assert (Hyx : y <> x) by (intros ->; rewrite var_eqb_refl in Eyx; discriminate).
             apply Hr0. rewrite (Hny y Hyx). exact Hy.
        * intros y Hy. unfold fupd. destruct (var_eqb y x) eqn:Eyx.
          -- apply var_eqb_eq in Eyx. subst y. rewrite !upd_same. reflexivity.
          -- assert (Hyx : y <> x) by (intros ->; rewrite var_eqb_refl in Eyx; discriminate).
             rewrite (upd_other s x v y Hyx). rewrite upd_other; [apply Hrel; exact Hy|].
             destruct (Hr y) as [Ey|[j [Hj Ey]]]; rewrite Ey; [exact Hyx|].
             intros E. apply HxG. rewrite <- E. apply HG. exact Hj.
        * exact Hf.
  Qed.

  (* ---- the boolean hypothesis gives the two name facts ---- *)
  Lemma ver_in_gen l x j : (1 <= j < nassign x l)%nat -> In (ver x j) (ma_gen l).
  Proof.
    intros Hj. unfold ma_gen. apply in_flat_map. exists x. split.
    - unfold ma_vars. apply nodup_In. apply nassign_In. lia.
    - unfold versions. apply in_map. apply in_seq. lia.
  Qed.

  Lemma wf_ma_disj l : wf_ma l = true ->
    forall x y j i, x <> y -> (1 <= j < nassign x l)%nat -> (1 <= i < nassign y l)%nat -> ver x j <> ver y i.
  Proof.
    unfold wf_ma. intros H x y j i Hxy Hj Hi E. apply andb_true_iff in H. destruct H as [_ H].
    rewrite forallb_forall in H.
    assert (Hx : In x (ma_vars l)) by (apply nodup_In, nassign_In; lia).
    assert (Hy : In y (ma_vars l)) by (apply nodup_In, nassign_In; lia).
    specialize (H x Hx). rewrite forallb_forall in H. specialize (H y Hy).
    apply orb_true_iff in H. destruct H as [H|H]; [apply var_eqb_eq in H; contradiction|].
    apply (sdisjoint_spec _ _ H (ver x j)).
    - unfold versions. apply in_map. apply in_seq. lia.
    - rewrite E. unfold versions. apply in_map. apply in_seq. lia.
  Qed.

  Definition in_gen (l : list gassign) : var -> Prop := fun x => In x (ma_gen l).

  Theorem multi_assign_sim l : wf_ma l = true -> sim_on law (in_gen l) l (multi_assign l).
  Proof.
    intros Hwf s s' f Ha Hf. unfold multi_assign.
    apply (ma_go_sim (in_gen l) (fun x => nassign x l)).
    - intros x j Hj. apply ver_in_gen. exact Hj.
    - apply wf_ma_disj. exact Hwf.
    - intros x Hx Hg. unfold wf_ma in Hwf. apply andb_true_iff in Hwf. destruct Hwf as [H _].
      apply (sdisjoint_spec _ _ H x Hg Hx).
    - intros x Hx. split; [reflexivity | lia].
    - intros y. left. reflexivity.
    - intros y _. reflexivity.
    - exact Ha.
    - exact Hf.
  Qed.

  (* one execution of the loop body *)
  Theorem multi_assign_step l : wf_ma l = true ->
    forall s s' f,
      (forall x, ~ In x (ma_gen l) -> s' x = s x) ->
      (forall t t', (forall x, ~ In x (ma_gen l) -> t' x = t x) -> f t' = f t) ->
      E (exec_gas law (multi_assign l) s') f = E (exec_gas law l s) f.
  Proof. intros Hwf s s' f Ha Hf. apply (multi_assign_sim l Hwf s s' f Ha Hf). Qed.

  (* all iterations *)
  Theorem multi_assign_preserves fp : wf_ma_prog fp = true ->
    forall n s0 s0' f,
      (forall x, ~ In x (ma_gen (fp_body fp)) -> s0' x = s0 x) ->
      (forall t t', (forall x, ~ In x (ma_gen (fp_body fp)) -> t' x = t x) -> f t' = f t) ->
      E (frun law (ma_prog fp) n s0') f = E (frun law fp n s0) f.
  Proof.
    intros Hwf n s0 s0' f Ha Hf. unfold wf_ma_prog in Hwf. apply andb_true_iff in Hwf. destruct Hwf as [Hb Hi].
    apply (frun_lift law (in_gen (fp_body fp)) fp (ma_prog fp)).
    - cbn [ma_prog fp_init]. intros s s' g Hs Hg. apply (exec_gas_frame law (in_gen (fp_body fp))).
      + intros x Hx Hgen. apply (sdisjoint_spec _ _ Hi x Hgen Hx).
      + exact Hs.
      + exact Hg.
    - cbn [ma_prog fp_body]. apply multi_assign_sim. exact Hb.
    - exact Ha.
    - exact Hf.
  Qed.
End MA.

(* ---- the hypothesis is necessary: capture of a user variable named like a version ---- *)
Open Scope string_scope.
Definition ma_capture_body : list gassign :=
  [ {| ga_var := "x"; ga_cond := CTrue; ga_default := "x"; ga_rhs := RDet (EConst (mkq 1 1)) |};
    {| ga_var := "x"; ga_cond := CTrue; ga_default := "x"; ga_rhs := RDet (EAdd (EVar "x") (EVar "_x1")) |} ].
Definition ma_capture_state : state := upd st0 "_x1" (mkq 7 1).
(* `_x1 = 7; while true: x = 1; x = x + _x1`: the source body leaves x = 8, the transformed
   body `_x1 = 1; x = _x1 + _x1` leaves x = 2 — from the SAME state, observing only x *)
Theorem multi_assign_needs_wf :
  wf_ma ma_capture_body = false /\
  E (exec_gas no_law (multi_assign ma_capture_body) ma_capture_state) (fun s => s "x")
  <> E (exec_gas no_law ma_capture_body ma_capture_state) (fun s => s "x").
Proof.
  split; [vm_compute; reflexivity|]. intros H. apply (f_equal qnum) in H. vm_compute in H. discriminate.
Qed.
