(* C02, IfTransformer: proof that the model [PassIf.if_flatten_old] preserves the semantics.
   Block simulation (DESIGN.md 5/C02): (a) rename_eval = [holds_rename]; (b),(d) no-op blocks =
   [strengthen_false]/[emit_noop]; (c) the taken block = [strengthen_true]; (e) else / no branch /
   mutually exclusive = the same lemmas ([emit_sim]).  Nested statements: mutual induction over
   stmt/block/branches ([fl_correct]); all iterations: [if_flatten_old_rule_preserves]. *)
From Coq Require Import List String Ascii QArith Qcanon ZArith Bool Arith Lia DecimalString DecimalNat FinFun.
From Polar Require Import Qcx Dist Syntax Sem PassGuard PassIf.
Import ListNotations.
Local Open Scope Qc_scope.

(* ---------- strings, membership ---------- *)
Lemma var_eqb_eq x y : var_eqb x y = true <-> x = y.
Proof. unfold var_eqb. apply String.eqb_eq. Qed.
Lemma var_eqb_refl x : var_eqb x x = true.
Proof. apply var_eqb_eq; reflexivity. Qed.
Lemma var_eqb_neq x y : var_eqb x y = false <-> x <> y.
Proof. unfold var_eqb. apply String.eqb_neq. Qed.

Lemma mem_In x l : mem x l = true <-> In x l.
Proof.
  unfold mem. rewrite existsb_exists. split.
  - intros [y [Hy He]]. apply var_eqb_eq in He. subst; exact Hy.
  - intros H. exists x; split; [exact H | apply var_eqb_refl].
Qed.
Lemma mem_nIn x l : mem x l = false <-> ~ In x l.
Proof.
  split.
  - intros H Hi. apply mem_In in Hi. congruence.
  - intros H. destruct (mem x l) eqn:E; [apply mem_In in E; contradiction | reflexivity].
Qed.

Lemma is_gen_old k : is_gen (old_name k) = true.
Proof.
  unfold is_gen, old_name. cbn. destruct (NilEmpty.string_of_uint (Nat.to_uint k)); reflexivity.
Qed.

Lemma old_name_inj j j' : old_name j = old_name j' -> j = j'.
Proof.
  unfold old_name. intros H. cbn in H. injection H as H.
  apply (f_equal NilEmpty.uint_of_string) in H. rewrite !NilEmpty.usu in H.
  injection H as H. apply (f_equal Nat.of_uint) in H. rewrite !Unsigned.of_to in H. exact H.
Qed.

Lemma wf_vars_In l x : wf_vars l = true -> In x l -> is_gen x = false.
Proof.
  unfold wf_vars. rewrite forallb_forall. intros H Hi. specialize (H x Hi).
  destruct (is_gen x); [discriminate | reflexivity].
Qed.
Lemma wf_vars_app l1 l2 : wf_vars (l1 ++ l2) = wf_vars l1 && wf_vars l2.
Proof. unfold wf_vars. apply forallb_app. Qed.

(* ---------- states ---------- *)
Definition seq_st (t t' : state) : Prop := forall x, t' x = t x.
Definition agree (s t : state) : Prop := forall x, is_gen x = false -> t x = s x.
Definition frame (V : list var) (t t' : state) : Prop := forall y, ~ In y V -> t' y = t y.

Lemma upd_same s x v : upd s x v x = v.
Proof. unfold upd. rewrite var_eqb_refl. reflexivity. Qed.
Lemma upd_other s x v y : y <> x -> upd s x v y = s y.
Proof. unfold upd. intros H. apply var_eqb_neq in H. rewrite H. reflexivity. Qed.

Lemma eval_ext e s t : (forall x, In x (evars e) -> t x = s x) -> eval e t = eval e s.
Proof.
  induction e as [q|x|a IHa b IHb|a IHa b IHb|a IHa k]; cbn [eval evars]; intros H.
  - reflexivity.
  - apply H; left; reflexivity.
  - rewrite IHa, IHb; [reflexivity| |]; intros x Hx; apply H; apply in_or_app; auto.
  - rewrite IHa, IHb; [reflexivity| |]; intros x Hx; apply H; apply in_or_app; auto.
  - rewrite IHa; [reflexivity|exact H].
Qed.

Lemma eval_rename R e s t : (forall x, In x (evars e) -> t (rn R x) = s x) -> eval (rename_e R e) t = eval e s.
Proof.
  induction e as [q|x|a IHa b IHb|a IHa b IHb|a IHa k]; cbn [eval evars rename_e]; intros H.
  - reflexivity.
  - apply H; left; reflexivity.
  - rewrite IHa, IHb; [reflexivity| |]; intros x Hx; apply H; apply in_or_app; auto.
  - rewrite IHa, IHb; [reflexivity| |]; intros x Hx; apply H; apply in_or_app; auto.
  - rewrite IHa; [reflexivity|exact H].
Qed.

(* (a) rename_eval *)
Lemma holds_rename Rf c s t : forall R,
  (forall x, In x (cvars c) -> t (rn R x) = s x) ->
  (forall x, In x (cvars c) -> t (rn Rf x) = s x) ->
  holds (rename_c R Rf c) t = holds c s.
Proof.
  induction c as [| |a o b|c IH|c1 IH1 c2 IH2|c1 IH1 c2 IH2]; intros R H Hf; cbn [holds rename_c cvars] in *.
  - reflexivity.
  - reflexivity.
  - rewrite (eval_rename R a s t), (eval_rename R b s t); [reflexivity| |]; intros x Hx; apply H; apply in_or_app; auto.
  - rewrite (IH Rf); [reflexivity|exact Hf|exact Hf].
  - rewrite (IH1 R), (IH2 R); [reflexivity| | | |]; intros x Hx; (apply H || apply Hf); apply in_or_app; auto.
  - rewrite (IH1 R), (IH2 R); [reflexivity| | | |]; intros x Hx; (apply H || apply Hf); apply in_or_app; auto.
Qed.

Lemma holds_ext c s t : (forall x, In x (cvars c) -> t x = s x) -> holds c t = holds c s.
Proof.
  induction c as [| |a o b|c IH|c1 IH1 c2 IH2|c1 IH1 c2 IH2]; intros H; cbn [holds cvars] in *.
  - reflexivity.
  - reflexivity.
  - rewrite (eval_ext a s t), (eval_ext b s t); [reflexivity| |]; intros x Hx; apply H; apply in_or_app; auto.
  - rewrite IH; [reflexivity|exact H].
  - rewrite IH1, IH2; [reflexivity| |]; intros x Hx; apply H; apply in_or_app; auto.
  - rewrite IH1, IH2; [reflexivity| |]; intros x Hx; apply H; apply in_or_app; auto.
Qed.

Lemma holds_mk_and a b s : holds (mk_and a b) s = holds a s && holds b s.
Proof. destruct a, b; cbn [mk_and holds]; try reflexivity; try (rewrite andb_true_r; reflexivity). Qed.
Lemma holds_mk_or a b s : holds (mk_or a b) s = holds a s || holds b s.
Proof. destruct a, b; cbn [mk_or holds]; try reflexivity; try (rewrite orb_false_r; reflexivity). Qed.
Lemma cvars_mk_and a b x : In x (cvars (mk_and a b)) -> In x (cvars a ++ cvars b).
Proof.
  destruct a, b; cbn [mk_and]; intros H; try exact H;
    try (apply in_or_app; right; exact H); try (apply in_or_app; left; exact H); try (cbn [cvars] in H; contradiction).
Qed.
Lemma cvars_mk_or a b x : In x (cvars (mk_or a b)) -> In x (cvars a ++ cvars b).
Proof.
  destruct a, b; cbn [mk_or]; intros H; try exact H;
    try (apply in_or_app; right; exact H); try (apply in_or_app; left; exact H); try (cbn [cvars] in H; contradiction).
Qed.

Lemma holds_csimp c s : holds (csimp c) s = holds c s.
Proof.
  induction c as [| |a o b|c IH|c1 IH1 c2 IH2|c1 IH1 c2 IH2]; cbn [csimp holds]; try reflexivity.
  - rewrite IH; reflexivity.
  - rewrite holds_mk_and, IH1, IH2; reflexivity.
  - rewrite holds_mk_or, IH1, IH2; reflexivity.
Qed.

Lemma cvars_csimp c x : In x (cvars (csimp c)) -> In x (cvars c).
Proof.
  induction c as [| |a o b|c IH|c1 IH1 c2 IH2|c1 IH1 c2 IH2]; cbn [csimp cvars]; try (intros H; exact H).
  - exact IH.
  - intros H. apply cvars_mk_and in H. apply in_app_or in H. apply in_or_app. destruct H; auto.
  - intros H. apply cvars_mk_or in H. apply in_app_or in H. apply in_or_app. destruct H; auto.
Qed.

Section Proof.
  Variable law : string -> list Qc -> dist Qc.

  Lemma sample_ext r s t : (forall x, In x (rhs_vars r) -> t x = s x) -> sample law r t = sample law r s.
  Proof.
    destruct r as [alts|d]; cbn [sample rhs_vars]; intros H.
    - apply map_ext_in. intros [p e] Hin. cbn [fst snd].
      rewrite (eval_ext p s t), (eval_ext e s t); [reflexivity| |]; intros x Hx; apply H; apply in_flat_map;
        exists (p, e); (split; [exact Hin | cbn [fst snd]; apply in_or_app; auto]).
    - destruct d as [p|ps|a b|f args]; cbn [draw_law draw_vars] in *.
      + rewrite (eval_ext p s t) by exact H. reflexivity.
      + f_equal. apply map_ext_in. intros e Hin. apply eval_ext. intros x Hx. apply H. apply in_flat_map. exists e; auto.
      + reflexivity.
      + f_equal. apply map_ext_in. intros e Hin. apply eval_ext. intros x Hx. apply H. apply in_flat_map. exists e; auto.
  Qed.

  (* ---------- expectations of flat execution ---------- *)
  Lemma E_exec_ga g t F :
    E (exec_ga law g t) F =
    if holds (ga_cond g) t then E (sample law (ga_rhs g) t) (fun v => F (upd t (ga_var g) v))
    else F (upd t (ga_var g) (t (ga_default g))).
  Proof.
    unfold exec_ga. destruct (holds (ga_cond g) t).
    - rewrite E_bind. apply E_ext. intros v. apply E_ret.
    - apply E_ret.
  Qed.

  Lemma E_exec_gas_cons g l t F :
    E (exec_gas law (g :: l) t) F = E (exec_ga law g t) (fun t' => E (exec_gas law l t') F).
  Proof. cbn [exec_gas]. apply E_bind. Qed.

  Lemma E_exec_gas_app l1 l2 t F :
    E (exec_gas law (l1 ++ l2) t) F = E (exec_gas law l1 t) (fun t' => E (exec_gas law l2 t') F).
  Proof.
    revert t F; induction l1 as [|g l1 IH]; intros t F.
    - cbn [app exec_gas]. rewrite E_ret. reflexivity.
    - rewrite <- app_comm_cons, !E_exec_gas_cons. apply E_ext. intros t'. apply IH.
  Qed.

  Lemma holds_strengthen e g t : holds (ga_cond (strengthen e g)) t = holds (ga_cond g) t && holds e t.
  Proof. unfold strengthen; cbn [ga_cond]. rewrite holds_csimp. reflexivity. Qed.

  Lemma gvars_strengthen e l : gvars (map (strengthen e) l) = gvars l.
  Proof. unfold gvars. rewrite map_map. apply map_ext. intros g. reflexivity. Qed.

  Definition defaults_ok (l : list gassign) : Prop := forall g, In g l -> ga_default g = ga_var g.

  (* (c) the taken block: the extra condition stays true at every intermediate state *)
  Lemma strengthen_true (I : state -> Prop) e l :
    (forall t, I t -> holds e t = true) ->
    (forall t y v, I t -> In y (gvars l) -> I (upd t y v)) ->
    forall t F, I t -> E (exec_gas law (map (strengthen e) l) t) F = E (exec_gas law l t) F.
  Proof.
    intros He. induction l as [|g l IH]; intros Hupd t F Ht; [reflexivity|].
    cbn [map]. rewrite !E_exec_gas_cons, !E_exec_ga, holds_strengthen, (He t Ht), andb_true_r.
    cbn [strengthen ga_rhs ga_var ga_default].
    assert (IH' : forall t', I t' -> E (exec_gas law (map (strengthen e) l) t') F = E (exec_gas law l t') F).
    { intros t' Ht'. apply IH; [|exact Ht']. intros t0 y v H0 Hy. apply Hupd; [exact H0 | right; exact Hy]. }
    destruct (holds (ga_cond g) t).
    - apply E_ext. intros v. apply IH'. apply Hupd; [exact Ht | left; reflexivity].
    - apply IH'. apply Hupd; [exact Ht | left; reflexivity].
  Qed.

  (* (b),(d) a block whose extra condition is false is a no-op (defaults are the variables) *)
  Lemma strengthen_false (I : state -> Prop) e l :
    (forall t, I t -> holds e t = false) ->
    (forall t t', I t -> seq_st t t' -> I t') ->
    defaults_ok l ->
    forall t, I t -> exists t', seq_st t t' /\ forall F, E (exec_gas law (map (strengthen e) l) t) F = F t'.
  Proof.
    intros He Hseq. induction l as [|g l IH]; intros Hd t Ht.
    - exists t. split; [intros x; reflexivity | intros F; apply E_ret].
    - assert (Hg : ga_default g = ga_var g) by (apply Hd; left; reflexivity).
      set (t1 := upd t (ga_var g) (t (ga_default g))).
      assert (H1 : seq_st t t1).
      { intros x. unfold t1, upd. destruct (var_eqb x (ga_var g)) eqn:Ex; [|reflexivity].
        apply var_eqb_eq in Ex. subst x. rewrite Hg. reflexivity. }
      destruct (IH (fun g' Hg' => Hd g' (or_intror Hg')) t1 (Hseq t t1 Ht H1)) as [t' [Ht' HE]].
      exists t'. split.
      + intros x. rewrite Ht'. apply H1.
      + intros F. cbn [map]. rewrite E_exec_gas_cons, E_exec_ga, holds_strengthen, (He t Ht), andb_false_r.
        cbn [strengthen ga_var ga_default]. apply HE.
  Qed.

  (* ---------- the copies  _old<k> = x ---------- *)
  Lemma E_sample_det x t F : E (sample law (RDet (EVar x)) t) F = F (t x).
  Proof.
    cbn [RDet sample map fst snd eval E].
    assert (H1 : mkq 1 1 = 1) by reflexivity. rewrite H1. ring.
  Qed.

  Lemma copies_exec (R : rmap) :
    NoDup (map snd R) -> (forall x, In x (map fst R) -> ~ In x (map snd R)) ->
    forall t, exists t1, (forall F, E (exec_gas law (map copy_ga R) t) F = F t1)
      /\ (forall x o, In (x, o) R -> t1 o = t x) /\ (forall y, ~ In y (map snd R) -> t1 y = t y).
  Proof.
    induction R as [|[x o] R IH]; intros Hnd Hkt t.
    - exists t. split; [intros F; apply E_ret|]. split; [intros x o []| intros; reflexivity].
    - cbn [map fst snd] in *. inversion Hnd as [|o' l' Hno Hnd']; subst.
      destruct (IH Hnd' (fun x0 Hx0 Hin => Hkt x0 (or_intror Hx0) (or_intror Hin)) (upd t o (t x)))
        as [t1 [HE [Hcp Hfr]]].
      exists t1. split; [|split].
      + intros F. rewrite E_exec_gas_cons, E_exec_ga. cbn [copy_ga ga_cond ga_rhs ga_var fst snd holds].
        rewrite E_sample_det. apply HE.
      + intros x0 o0 [Heq|Hin].
        * inversion Heq; subst. rewrite (Hfr o0 Hno). apply upd_same.
        * rewrite (Hcp x0 o0 Hin). apply upd_other. intros ->.
          apply (Hkt o (or_intror (in_map fst _ _ Hin))). left; reflexivity.
      + intros y Hy. rewrite Hfr by (intros Hin; apply Hy; right; exact Hin).
        apply upd_other. intros ->. apply Hy. left; reflexivity.
  Qed.

  (* ---------- rename maps ---------- *)
  Lemma rlookup_app_some R X x o : rlookup R x = Some o -> rlookup (R ++ X) x = Some o.
  Proof.
    induction R as [|[y o'] R IH]; cbn [rlookup app]; [discriminate|].
    destruct (var_eqb x y); [intros H; exact H | exact IH].
  Qed.
  Lemma rlookup_none R x : rlookup R x = None <-> ~ In x (map fst R).
  Proof.
    induction R as [|[y o'] R IH]; cbn [rlookup map fst In].
    - split; [intros _ [] | reflexivity].
    - destruct (var_eqb x y) eqn:E.
      + apply var_eqb_eq in E. subst. split; [discriminate | intros H; exfalso; apply H; left; reflexivity].
      + apply var_eqb_neq in E. rewrite IH. split; [intros H [H1|H1]; [apply E; symmetry; exact H1 | exact (H H1)] | intros H H1; apply H; right; exact H1].
  Qed.
  Lemma rlookup_In R x o : rlookup R x = Some o -> In (x, o) R.
  Proof.
    induction R as [|[y o'] R IH]; cbn [rlookup]; [discriminate|].
    destruct (var_eqb x y) eqn:E.
    - apply var_eqb_eq in E. intros H; inversion H; subst. left; reflexivity.
    - intros H. right. exact (IH H).
  Qed.

  Lemma extend_prefix CS l : forall R k R' k', extend CS l R k = (R', k') -> exists X, R' = R ++ X.
  Proof.
    induction l as [|g l IH]; intros R k R' k'; cbn [extend].
    - intros H; inversion H; subst. exists []. rewrite app_nil_r. reflexivity.
    - destruct (mem (ga_var g) CS && negb (mem (ga_var g) (map fst R))).
      + intros H. destruct (IH _ _ _ _ H) as [X HX]. exists ((ga_var g, old_name k) :: X).
        rewrite HX, <- app_assoc. reflexivity.
      + apply IH.
  Qed.

  Lemma extend_complete CS l : forall R k R' k', extend CS l R k = (R', k') ->
    forall x, In x CS -> In x (gvars l) -> In x (map fst R').
  Proof.
    induction l as [|g l IH]; intros R k R' k' H x Hcs Hx; cbn [extend gvars map] in *; [destruct Hx|].
    destruct Hx as [Hx|Hx].
    - subst x. destruct (mem (ga_var g) CS && negb (mem (ga_var g) (map fst R))) eqn:Eb.
      + destruct (extend_prefix _ _ _ _ _ _ H) as [X HX]. rewrite HX, !map_app. apply in_or_app. left.
        apply in_or_app. right. left. reflexivity.
      + destruct (extend_prefix _ _ _ _ _ _ H) as [X HX]. rewrite HX, map_app. apply in_or_app. left.
        apply andb_false_iff in Eb. destruct Eb as [Eb|Eb].
        * apply mem_nIn in Eb. contradiction.
        * apply negb_false_iff in Eb. apply mem_In in Eb. exact Eb.
    - destruct (mem (ga_var g) CS && negb (mem (ga_var g) (map fst R))); eapply IH; eauto.
  Qed.

  (* the targets of a rename map are consecutive generated names; keys are condition symbols *)
  Definition Rinv (CS : list var) (k0 : nat) (R : rmap) (k : nat) : Prop :=
    map snd R = map old_name (seq k0 (List.length R)) /\ k = (k0 + List.length R)%nat /\ (forall x, In x (map fst R) -> In x CS).

  Lemma extend_inv CS k0 l : forall R k R' k', Rinv CS k0 R k -> extend CS l R k = (R', k') -> Rinv CS k0 R' k'.
  Proof.
    induction l as [|g l IH]; intros R k R' k' Hi; cbn [extend].
    - intros H; inversion H; subst. exact Hi.
    - destruct (mem (ga_var g) CS && negb (mem (ga_var g) (map fst R))) eqn:Eb; [|apply IH; exact Hi].
      apply IH. destruct Hi as [H1 [H2 H3]]. unfold Rinv. rewrite !map_app, app_length. cbn [List.length map fst snd].
      replace (List.length R + 1)%nat with (S (List.length R)) by lia. rewrite seq_S, map_app. cbn [map].
      split; [rewrite H1, H2; reflexivity|]. split; [lia|].
      intros x Hx. apply in_app_or in Hx. destruct Hx as [Hx|[Hx|[]]]; [apply H3; exact Hx|].
      subst x. apply andb_true_iff in Eb. destruct Eb as [Eb _]. apply mem_In in Eb. exact Eb.
  Qed.

  Lemma final_prefix CS brs : forall R k Rf kf, final_R CS brs R k = (Rf, kf) -> exists X, Rf = R ++ X.
  Proof.
    induction brs as [|cl brs IH]; intros R k Rf kf; cbn [final_R].
    - intros H; inversion H; subst. exists []. rewrite app_nil_r. reflexivity.
    - destruct (extend CS (snd cl) R k) as [R' k'] eqn:Ee. intros H.
      destruct (extend_prefix _ _ _ _ _ _ Ee) as [X1 H1]. destruct (IH _ _ _ _ H) as [X2 H2].
      exists (X1 ++ X2). rewrite H2, H1, app_assoc. reflexivity.
  Qed.

  Lemma final_inv CS k0 brs : forall R k Rf kf, Rinv CS k0 R k -> final_R CS brs R k = (Rf, kf) -> Rinv CS k0 Rf kf.
  Proof.
    induction brs as [|cl brs IH]; intros R k Rf kf Hi; cbn [final_R].
    - intros H; inversion H; subst. exact Hi.
    - destruct (extend CS (snd cl) R k) as [R' k'] eqn:Ee. apply IH. eapply extend_inv; eauto.
  Qed.

  Lemma final_complete CS brs : forall R k Rf kf, final_R CS brs R k = (Rf, kf) ->
    forall cl x, In cl brs -> In x CS -> In x (gvars (snd cl)) -> In x (map fst Rf).
  Proof.
    induction brs as [|cl0 brs IH]; intros R k Rf kf H cl x Hcl Hcs Hx; [destruct Hcl|].
    cbn [final_R] in H. destruct (extend CS (snd cl0) R k) as [R' k'] eqn:Ee.
    destruct Hcl as [Hcl|Hcl].
    - subst cl0. destruct (final_prefix _ _ _ _ _ _ H) as [X HX]. rewrite HX, map_app. apply in_or_app. left.
      eapply extend_complete; eauto.
    - eapply IH; eauto.
  Qed.

  (* ---------- source semantics of a list of flattened branches ---------- *)
  Definition sim (l : list gassign) (D : state -> dist state) : Prop :=
    forall s t, agree s t -> forall g h,
      (forall t' s', agree s' t' -> frame (gvars l) t t' -> g t' = h s') ->
      E (exec_gas law l t) g = E (D s) h.

  Definition item := (fbranch * (state -> dist state))%type.
  Fixpoint first_match (items : list item) (s : state) : option (dist state) :=
    match items with
    | [] => None
    | it :: r => if holds (fst (fst it)) s then Some (snd it s) else first_match r s
    end.
  Definition sem_items (items : list item) (s : state) : dist state :=
    match first_match items s with Some d => d | None => ret s end.

  Fixpoint excl (s : state) (cs : list cond) : Prop :=
    match cs with
    | [] => True
    | c :: cs' => (holds c s = true -> forall c', In c' cs' -> holds c' s = false) /\ excl s cs'
    end.

  Lemma gvars_app l1 l2 : gvars (l1 ++ l2) = gvars l1 ++ gvars l2.
  Proof. apply map_app. Qed.

  Section OneIf.
    Variables (mx : bool) (CS : list var) (Rf : rmap) (kf : nat) (s : state).

    Definition Good (M : list var) (t : state) : Prop :=
      forall x, In x CS -> t (rn Rf x) = s x /\ (~ In x M -> t x = s x).

    Lemma good_seq M t t' : Good M t -> seq_st t t' -> Good M t'.
    Proof. intros H Hs x Hx. rewrite !Hs. apply H; exact Hx. Qed.
    Lemma good_mono M M' t : (forall x, In x M -> In x M') -> Good M t -> Good M' t.
    Proof. intros Hi H x Hx. destruct (H x Hx) as [H1 H2]. split; [exact H1 | intros Hn; apply H2; intros Hm; apply Hn, Hi, Hm]. Qed.

    Lemma good_rn M t R : Good M t -> (exists X, Rf = R ++ X) ->
      (forall x, In x CS -> In x M -> In x (map fst R)) -> forall x, In x CS -> t (rn R x) = s x.
    Proof.
      intros Hg [X HX] Hm x Hx. destruct (Hg x Hx) as [H1 H2]. unfold rn in *.
      destruct (rlookup R x) as [o|] eqn:El.
      - rewrite HX, (rlookup_app_some R X x o El) in H1. exact H1.
      - apply H2. intros Hin. apply rlookup_none in El. apply El. apply Hm; assumption.
    Qed.

    Lemma extra_truth M t R cur : Good M t -> (exists X, Rf = R ++ X) ->
      (forall x, In x CS -> In x M -> In x (map fst R)) -> incl (cvars cur) CS ->
      holds (rename_c R (if mx then R else Rf) (csimp cur)) t = holds cur s.
    Proof.
      intros Hg Hp Hm Hi. rewrite <- (holds_csimp cur s).
      assert (HR : forall x, In x (cvars (csimp cur)) -> t (rn R x) = s x).
      { intros x Hx. eapply good_rn; eauto. apply Hi. apply cvars_csimp. exact Hx. }
      apply holds_rename; [exact HR|]. destruct mx; [exact HR|].
      intros x Hx. apply Hg. apply Hi. apply cvars_csimp. exact Hx.
    Qed.

    (* (b),(d): every remaining block is a no-op *)
    Lemma emit_noop : forall brs NP R k M t,
      final_R CS brs R k = (Rf, kf) ->
      (forall cl, In cl brs -> incl (cvars (fst cl)) CS /\ defaults_ok (snd cl)) ->
      incl (cvars NP) CS ->
      (forall x, In x CS -> In x M -> In x (map fst R)) ->
      (mx = false -> holds NP s = false) ->
      (mx = true -> forall cl, In cl brs -> holds (fst cl) s = false) ->
      Good M t ->
      exists t', seq_st t t' /\ forall F, E (exec_gas law (emit mx CS Rf NP brs R k) t) F = F t'.
    Proof.
      induction brs as [|cl brs IH]; intros NP R k M t Hfin Hbrs HNP Hm Hnp Hmx Hg.
      - exists t. split; [intros x; reflexivity | intros F; apply E_ret].
      - cbn [final_R emit] in *. destruct (extend CS (snd cl) R k) as [R' k'] eqn:Ee.
        destruct (Hbrs cl (or_introl eq_refl)) as [Hc Hd].
        destruct (extend_prefix _ _ _ _ _ _ Ee) as [X1 HX1].
        assert (Hm' : forall x, In x CS -> In x M -> In x (map fst R')).
        { intros x Hx HM. rewrite HX1, map_app. apply in_or_app. left. apply Hm; assumption. }
        set (cur := if mx then fst cl else CAnd NP (fst cl)).
        assert (Hcur : incl (cvars cur) CS).
        { unfold cur. destruct mx; [exact Hc|]. cbn [cvars]. apply incl_app; assumption. }
        assert (Hfalse : holds cur s = false).
        { unfold cur. destruct mx eqn:Emx.
          - apply Hmx; [reflexivity | left; reflexivity].
          - cbn [holds]. rewrite Hnp by reflexivity. reflexivity. }
        destruct (strengthen_false (Good M) (rename_c R' (if mx then R' else Rf) (csimp cur)) (snd cl)) with (t := t)
          as [t1 [Hs1 HE1]].
        + intros t0 H0. rewrite (extra_truth M t0 R' cur H0 (final_prefix _ _ _ _ _ _ Hfin) Hm' Hcur). exact Hfalse.
        + intros t0 t0' H0 Hs0. eapply good_seq; eauto.
        + exact Hd.
        + exact Hg.
        + destruct (IH (CAnd NP (CNot (fst cl))) R' k' M t1 Hfin) as [t2 [Hs2 HE2]].
          * intros cl' Hin. apply Hbrs. right; exact Hin.
          * cbn [cvars]. apply incl_app; assumption.
          * exact Hm'.
          * intros Emx. cbn [holds]. rewrite Hnp by exact Emx. reflexivity.
          * intros Emx cl' Hin. apply Hmx; [exact Emx | right; exact Hin].
          * eapply good_seq; eauto.
          * exists t2. split; [intros x; rewrite Hs2; apply Hs1|].
            intros F. rewrite E_exec_gas_app, HE1. apply HE2.
    Qed.

    Definition item_ok (it : item) : Prop :=
      incl (cvars (fst (fst it))) CS /\ defaults_ok (snd (fst it)) /\ sim (snd (fst it)) (snd it)
      /\ (forall y x, In y (gvars (snd (fst it))) -> In x CS -> rn Rf x <> y).

    (* (b),(c),(d),(e): blocks before the first true condition are no-ops, the taken block runs as
       the source branch, the remaining ones are no-ops *)
    Lemma emit_sim : forall items NP R k t,
      final_R CS (map fst items) R k = (Rf, kf) ->
      (forall it, In it items -> item_ok it) ->
      incl (cvars NP) CS ->
      (mx = false -> holds NP s = true) ->
      (mx = true -> excl s (map (fun it : item => fst (fst it)) items)) ->
      agree s t -> Good [] t ->
      forall g h,
        (forall t' s', agree s' t' -> frame (gvars (emit mx CS Rf NP (map fst items) R k)) t t' -> g t' = h s') ->
        E (exec_gas law (emit mx CS Rf NP (map fst items) R k) t) g = E (sem_items items s) h.
    Proof.
      induction items as [|it items IH]; intros NP R k t Hfin Hok HNP Hnp Hex Hag Hg g h Hgh.
      - cbn [map emit exec_gas]. unfold sem_items; cbn [first_match]. rewrite !E_ret.
        apply Hgh; [exact Hag | intros y _; reflexivity].
      - destruct it as [[c l] D]. cbn [map fst snd final_R emit] in *.
        destruct (extend CS l R k) as [R' k'] eqn:Ee.
        destruct (Hok _ (or_introl eq_refl)) as [Hc [Hd [Hsim Hdisj]]]. cbn [fst snd] in *.
        set (cur := if mx then c else CAnd NP c) in *.
        set (extra := rename_c R' (if mx then R' else Rf) (csimp cur)) in *.
        set (rest := emit mx CS Rf (CAnd NP (CNot c)) (map fst items) R' k') in *.
        assert (Hcur : incl (cvars cur) CS).
        { unfold cur. destruct mx; [exact Hc|]. cbn [cvars]. apply incl_app; assumption. }
        assert (HNP' : incl (cvars (CAnd NP (CNot c))) CS) by (cbn [cvars]; apply incl_app; assumption).
        pose proof (final_prefix _ _ _ _ _ _ Hfin) as Hpre.
        assert (Hok' : forall cl, In cl (map fst items) -> incl (cvars (fst cl)) CS /\ defaults_ok (snd cl)).
        { intros cl Hin. apply in_map_iff in Hin. destruct Hin as [it' [<- Hin']].
          destruct (Hok it' (or_intror Hin')) as [H1 [H2 _]]. split; assumption. }
        destruct (holds c s) eqn:Ec.
        + (* the taken block *)
          assert (Hcurt : holds cur s = true).
          { unfold cur. destruct mx; [exact Ec|]. cbn [holds]. rewrite Hnp, Ec by reflexivity. reflexivity. }
          assert (HmL : forall x, In x CS -> In x (gvars l) -> In x (map fst R')).
          { intros x Hx Hl. eapply extend_complete; eauto. }
          assert (HgL : Good (gvars l) t) by (eapply good_mono; [|exact Hg]; intros x []).
          rewrite E_exec_gas_app.
          rewrite (strengthen_true (Good (gvars l)) extra l); [| | |exact HgL].
          2:{ intros t0 H0. unfold extra. rewrite (extra_truth (gvars l) t0 R' cur H0 Hpre HmL Hcur). exact Hcurt. }
          2:{ intros t0 y v H0 Hy x Hx. destruct (H0 x Hx) as [H1 H2]. split.
              - rewrite upd_other; [exact H1 | apply Hdisj; assumption].
              - intros Hn. rewrite upd_other; [apply H2; exact Hn | intros ->; apply Hn; exact Hy]. }
          unfold sem_items; cbn [first_match fst snd]. rewrite Ec.
          apply Hsim; [exact Hag|]. intros t2 s2 Hag2 Hfr2.
          assert (Hg2 : Good (gvars l) t2).
          { intros x Hx. destruct (Hg x Hx) as [H1 H2]. split.
            - rewrite Hfr2; [exact H1|]. intros Hin. exact (Hdisj _ _ Hin Hx eq_refl).
            - intros Hn. rewrite Hfr2 by exact Hn. apply H2. intros []. }
          destruct (emit_noop (map fst items) (CAnd NP (CNot c)) R' k' (gvars l) t2 Hfin Hok' HNP' HmL) as [t3 [Hs3 HE3]].
          * intros Emx. cbn [holds]. rewrite Ec. apply andb_false_r.
          * intros Emx cl Hin. specialize (Hex Emx). cbn [map excl fst] in Hex. destruct Hex as [Hex _].
            apply Hex; [exact Ec|]. apply in_map_iff in Hin. destruct Hin as [it' [<- Hin']].
            apply in_map_iff. exists it'. split; [reflexivity | exact Hin'].
          * exact Hg2.
          * fold rest. rewrite HE3. apply Hgh.
            -- intros x Hx. rewrite Hs3. apply Hag2; exact Hx.
            -- intros y Hy. rewrite Hs3. apply Hfr2. intros Hin. apply Hy.
               rewrite gvars_app, gvars_strengthen. apply in_or_app. left; exact Hin.
        + (* a block before the taken one: no-op *)
          assert (Hcurf : holds cur s = false).
          { unfold cur. destruct mx; [exact Ec|]. cbn [holds]. rewrite Ec. apply andb_false_r. }
          assert (Hm0 : forall x, In x CS -> In x (@nil var) -> In x (map fst R')) by (intros x _ []).
          destruct (strengthen_false (Good []) extra l) with (t := t) as [t1 [Hs1 HE1]].
          * intros t0 H0. unfold extra. rewrite (extra_truth [] t0 R' cur H0 Hpre Hm0 Hcur). exact Hcurf.
          * intros t0 t0' H0 Hs0. eapply good_seq; eauto.
          * exact Hd.
          * exact Hg.
          * rewrite E_exec_gas_app, HE1. unfold sem_items; cbn [first_match fst snd]. rewrite Ec.
            apply (IH (CAnd NP (CNot c)) R' k' t1 Hfin).
            -- intros it' Hin. apply Hok. right; exact Hin.
            -- exact HNP'.
            -- intros Emx. cbn [holds]. rewrite Hnp, Ec by exact Emx. reflexivity.
            -- intros Emx. specialize (Hex Emx). cbn [map excl] in Hex. apply Hex.
            -- intros x Hx. rewrite Hs1. apply Hag; exact Hx.
            -- eapply good_seq; eauto.
            -- intros t' s' Hag' Hfr'. apply Hgh; [exact Hag'|].
               intros y Hy. rewrite Hfr', Hs1; [reflexivity|].
               intros Hin. apply Hy. rewrite gvars_app. apply in_or_app. right; exact Hin.
    Qed.
  End OneIf.

  (* ---------- one if-statement whose branches are already flat ---------- *)
  Definition names_ok (k : nat) (l : list gassign) : Prop :=
    forall y, In y (gvars l) -> is_gen y = false \/ exists j, (j < k)%nat /\ y = old_name j.

  Lemma names_ok_mono k k' l : (k <= k')%nat -> names_ok k l -> names_ok k' l.
  Proof. intros Hk H y Hy. destruct (H y Hy) as [H1|[j [Hj H1]]]; [left; exact H1 | right; exists j; split; [lia | exact H1]]. Qed.

  Lemma gvars_emit mx CS Rf : forall brs NP R k,
    gvars (emit mx CS Rf NP brs R k) = flat_map (fun cl : fbranch => gvars (snd cl)) brs.
  Proof.
    induction brs as [|cl brs IH]; intros NP R k; cbn [emit flat_map]; [reflexivity|].
    destruct (extend CS (snd cl) R k) as [R' k']. rewrite gvars_app, gvars_strengthen, IH. reflexivity.
  Qed.

  Lemma emit_defaults mx CS Rf : forall brs NP R k,
    (forall cl, In cl brs -> defaults_ok (snd cl)) -> defaults_ok (emit mx CS Rf NP brs R k).
  Proof.
    induction brs as [|cl brs IH]; intros NP R k H g Hg; cbn [emit] in Hg; [destruct Hg|].
    destruct (extend CS (snd cl) R k) as [R' k']. apply in_app_or in Hg. destruct Hg as [Hg|Hg].
    - apply in_map_iff in Hg. destruct Hg as [g0 [<- Hg0]]. cbn [strengthen ga_default ga_var].
      apply (H cl (or_introl eq_refl)). exact Hg0.
    - eapply IH; [|exact Hg]. intros cl' Hin. apply H. right; exact Hin.
  Qed.

  Lemma flatten_if_sim mx (items : list item) k out kf :
    flatten_if mx (map fst items) k = (out, kf) ->
    (forall it, In it items -> wf_vars (cvars (fst (fst it))) = true /\ defaults_ok (snd (fst it))
        /\ sim (snd (fst it)) (snd it) /\ names_ok k (snd (fst it))) ->
    (mx = true -> forall s, excl s (map (fun it : item => fst (fst it)) items)) ->
    (k <= kf)%nat /\ defaults_ok out /\ names_ok kf out /\ sim out (sem_items items).
  Proof.
    unfold flatten_if. set (brs := map fst items). set (CS := flat_map (fun cl : fbranch => cvars (fst cl)) brs).
    destruct (final_R CS brs [] k) as [Rf kf'] eqn:Efin. intros Heq Hit Hmx.
    change (flat_map (fun cl : cond * list gassign => cvars (fst cl)) brs) with CS in Heq. rewrite Efin in Heq.
    injection Heq as Ho Hkf. subst out kf'.
    assert (Hinv : Rinv CS k Rf kf).
    { eapply final_inv; [|exact Efin]. unfold Rinv. cbn. split; [reflexivity|]. split; [lia | intros x []]. }
    destruct Hinv as [Ht [Hk Hkeys]].
    assert (Hcs : forall x, In x CS -> is_gen x = false).
    { intros x Hx. unfold CS in Hx. apply in_flat_map in Hx. destruct Hx as [cl [Hcl Hx]].
      unfold brs in Hcl. apply in_map_iff in Hcl. destruct Hcl as [it [<- Hin]].
      destruct (Hit it Hin) as [Hw _]. eapply wf_vars_In; eauto. }
    assert (Htg : forall o, In o (map snd Rf) -> exists j, (k <= j < kf)%nat /\ o = old_name j).
    { intros o Ho. rewrite Ht in Ho. apply in_map_iff in Ho. destruct Ho as [j [<- Hj]]. apply in_seq in Hj.
      exists j. split; [lia | reflexivity]. }
    assert (Hnd : NoDup (map snd Rf)).
    { rewrite Ht. apply FinFun.Injective_map_NoDup; [intros a b; apply old_name_inj | apply seq_NoDup]. }
    assert (Hng : forall x, is_gen x = false -> ~ In x (map snd Rf)).
    { intros x Hx Hin. destruct (Htg x Hin) as [j [_ ->]]. rewrite is_gen_old in Hx. discriminate. }
    assert (Hcin : forall it, In it items -> incl (cvars (fst (fst it))) CS).
    { intros it Hin x Hx. unfold CS. apply in_flat_map. exists (fst it). split; [apply in_map; exact Hin | exact Hx]. }
    split; [lia|]. split; [|split].
    - intros g Hg. apply in_app_or in Hg. destruct Hg as [Hg|Hg].
      + apply in_map_iff in Hg. destruct Hg as [xo [<- _]]. reflexivity.
      + eapply emit_defaults; [|exact Hg]. intros cl Hcl. apply in_map_iff in Hcl. destruct Hcl as [it [<- Hin]].
        apply (Hit it Hin).
    - intros y Hy. rewrite gvars_app, gvars_emit in Hy. apply in_app_or in Hy. destruct Hy as [Hy|Hy].
      + unfold gvars in Hy. rewrite map_map in Hy. cbn [copy_ga ga_var] in Hy.
        destruct (Htg y Hy) as [j [Hj ->]]. right. exists j. split; [lia | reflexivity].
      + apply in_flat_map in Hy. destruct Hy as [cl [Hcl Hy]]. apply in_map_iff in Hcl. destruct Hcl as [it [<- Hin]].
        destruct (Hit it Hin) as [_ [_ [_ Hn]]]. assert (Hkk : (k <= kf)%nat) by lia. exact (names_ok_mono k kf _ Hkk Hn y Hy).
    - intros s t Hag g h Hgh.
      destruct (copies_exec Rf Hnd) with (t := t) as [t1 [HE1 [Hcp Hfr]]].
      { intros x Hx. apply Hng. apply Hcs. apply Hkeys. exact Hx. }
      rewrite E_exec_gas_app, HE1.
      apply (emit_sim mx CS Rf kf s items CTrue [] k t1 Efin).
      + intros it Hin. destruct (Hit it Hin) as [Hw [Hd [Hs Hn]]]. split; [apply Hcin; exact Hin|].
        split; [exact Hd|]. split; [exact Hs|].
        intros y x Hy Hx Heq. unfold rn in Heq. destruct (rlookup Rf x) as [o|] eqn:El.
        * subst o. apply rlookup_In in El. apply (in_map snd) in El. cbn [snd] in El.
          destruct (Htg y El) as [j [Hj Hyj]]. destruct (Hn y Hy) as [Hg|[j' [Hj' Hyj']]].
          -- rewrite Hyj, is_gen_old in Hg. discriminate.
          -- rewrite Hyj in Hyj'. apply old_name_inj in Hyj'. lia.
        * subst y. apply rlookup_none in El. apply El.
          eapply (final_complete CS brs [] k Rf kf Efin (fst it)); [apply in_map; exact Hin | exact Hx | exact Hy].
      + intros x [].
      + reflexivity.
      + intros Emx. apply Hmx. exact Emx.
      + intros x Hx. rewrite Hfr by (apply Hng; exact Hx). apply Hag. exact Hx.
      + intros x Hx. pose proof (Hcs x Hx) as Hgx.
        assert (Hx1 : t1 x = s x) by (rewrite Hfr by (apply Hng; exact Hgx); apply Hag; exact Hgx).
        split; [|intros _; exact Hx1]. unfold rn. destruct (rlookup Rf x) as [o|] eqn:El; [|exact Hx1].
        apply rlookup_In in El. rewrite (Hcp x o El). apply Hag. exact Hgx.
      + intros t' s' Hag' Hfr'. apply Hgh; [exact Hag'|]. intros y Hy.
        rewrite Hfr'.
        * apply Hfr. intros Hin. apply Hy. rewrite gvars_app. apply in_or_app. left.
          unfold gvars. rewrite map_map. exact Hin.
        * intros Hin. apply Hy. rewrite gvars_app. apply in_or_app. right. exact Hin.
  Qed.

  (* ---------- the mutually exclusive shape ---------- *)
  Lemma atom_const_shape x c q : atom_const x c = Some q -> c = CAtom (EVar x) Ceq (EConst q).
  Proof.
    destruct c as [| |a o b| | |]; cbn [atom_const]; try discriminate.
    destruct a as [|y| | |]; try discriminate. destruct o; try discriminate. destruct b as [q'| | | |]; try discriminate.
    destruct (var_eqb x y) eqn:E; [|discriminate]. apply var_eqb_eq in E. subst. intros H; inversion H; reflexivity.
  Qed.

  Lemma atom_consts_excl x : forall cs qs, atom_consts x cs = Some qs -> distinctb qs = true -> forall s, excl s cs.
  Proof.
    induction cs as [|c cs IH]; intros qs Hq Hd s; cbn [excl]; [exact I|].
    cbn [atom_consts] in Hq. destruct (atom_const x c) as [q|] eqn:Ec; [|discriminate].
    destruct (atom_consts x cs) as [qs'|] eqn:Ecs; [|discriminate]. inversion Hq; subst qs. clear Hq.
    cbn [distinctb] in Hd. apply andb_true_iff in Hd. destruct Hd as [Hd1 Hd2]. split; [|eapply IH; eauto].
    apply atom_const_shape in Ec. subst c. cbn [holds eval cop_holds]. intros Hc c' Hin.
    apply Qc_eqb_true in Hc.
    assert (Hall : forall cs0 qs0, atom_consts x cs0 = Some qs0 -> In c' cs0 -> exists q', c' = CAtom (EVar x) Ceq (EConst q') /\ In q' qs0).
    { induction cs0 as [|c0 cs0 IH0]; intros qs0 H0 Hin0; [destruct Hin0|].
      cbn [atom_consts] in H0. destruct (atom_const x c0) as [q0|] eqn:E0; [|discriminate].
      destruct (atom_consts x cs0) as [qs1|] eqn:E1; [|discriminate]. inversion H0; subst qs0.
      destruct Hin0 as [->|Hin0].
      - exists q0. split; [apply atom_const_shape; exact E0 | left; reflexivity].
      - destruct (IH0 qs1 eq_refl Hin0) as [q' [H1 H2]]. exists q'. split; [exact H1 | right; exact H2]. }
    destruct (Hall cs qs' Ecs Hin) as [q' [-> Hq']]. cbn [holds eval cop_holds].
    destruct (Qc_eqb (s x) q') eqn:E; [|reflexivity]. apply Qc_eqb_true in E.
    apply negb_true_iff in Hd1. rewrite <- Hd1. symmetry. apply existsb_exists. exists q'. split; [exact Hq'|].
    rewrite <- Hc, <- E. apply Qc_eqb_refl.
  Qed.

  Lemma mutex_conds_excl cs : mutex_conds cs = true -> forall s, excl s cs.
  Proof.
    unfold mutex_conds. destruct cs as [|c cs]; [discriminate|].
    destruct c as [| |a o b| | |]; try discriminate. destruct a as [|x| | |]; try discriminate.
    destruct o; try discriminate. destruct b as [q| | | |]; try discriminate.
    intros H. apply andb_true_iff in H. destruct H as [_ H].
    destruct (atom_consts x (CAtom (EVar x) Ceq (EConst q) :: cs)) as [qs|] eqn:E; [|discriminate].
    eapply atom_consts_excl; eauto.
  Qed.

  (* ---------- nested statements: TreeTransformer's bottom-up traversal ---------- *)
  Definition res_ok (k : nat) (l : list gassign) (k' : nat) (D : state -> dist state) : Prop :=
    (k <= k')%nat /\ defaults_ok l /\ names_ok k' l /\ sim l D.
  Definition P_stmt (st : stmt) : Prop := forall k l k',
    fl_stmt k st = Some (l, k') -> wf_vars (stmt_vars st) = true -> res_ok k l k' (exec_stmt law st).
  Definition P_block (b : block) : Prop := forall k l k',
    fl_block k b = Some (l, k') -> wf_vars (block_vars b) = true -> res_ok k l k' (exec_block law b).
  Definition P_branches (bs : branches) : Prop := forall k brs k',
    fl_branches k bs = Some (brs, k') -> wf_vars (branches_vars bs) = true ->
    (k <= k')%nat /\ exists items : list item,
      map fst items = brs /\ map (fun it : item => fst (fst it)) items = br_conds bs
      /\ (forall it, In it items -> wf_vars (cvars (fst (fst it))) = true /\ defaults_ok (snd (fst it))
            /\ sim (snd (fst it)) (snd it) /\ names_ok k' (snd (fst it)))
      /\ forall s, first_match items s = exec_branches law bs s.

  Lemma sim_ext l D D' : (forall s, D s = D' s) -> sim l D -> sim l D'.
  Proof. intros He H s t Hag g h Hgh. rewrite <- He. apply H; assumption. Qed.

  Lemma first_match_app items it s :
    first_match (items ++ [it]) s =
    match first_match items s with Some d => Some d | None => if holds (fst (fst it)) s then Some (snd it s) else None end.
  Proof.
    induction items as [|i items IH]; cbn [app first_match]; [reflexivity|].
    destruct (holds (fst (fst i)) s); [reflexivity | exact IH].
  Qed.

  Lemma exec_stmt_assign x r s : exec_stmt law (SAssign x r) s = bind (sample law r s) (fun v => ret (upd s x v)).
  Proof. reflexivity. Qed.
  Lemma exec_stmt_if bs els s :
    exec_stmt law (SIf bs els) s = match exec_branches law bs s with Some d => d | None => exec_block law els s end.
  Proof. reflexivity. Qed.
  Lemma exec_block_nil s : exec_block law BNil s = ret s.
  Proof. reflexivity. Qed.
  Lemma exec_block_cons st b s : exec_block law (BCons st b) s = bind (exec_stmt law st s) (exec_block law b).
  Proof. reflexivity. Qed.
  Lemma exec_branches_cons c b bs s :
    exec_branches law (BrCons c b bs) s = if holds c s then Some (exec_block law b s) else exec_branches law bs s.
  Proof. reflexivity. Qed.

  Lemma fl_correct : (forall st, P_stmt st) /\ (forall b, P_block b) /\ (forall bs, P_branches bs).
  Proof.
    apply stmt_block_branches_ind.
    - (* SAssign *)
      intros x r k l k' H Hwf. cbn [fl_stmt] in H. inversion H; subst l k'. clear H.
      cbn [stmt_vars] in Hwf.
      split; [lia|]. split; [|split].
      + intros g [<-|[]]. reflexivity.
      + intros y [<-|[]]. left. cbn [ga_var]. eapply wf_vars_In; [exact Hwf | left; reflexivity].
      + intros s t Hag g h Hgh.
        rewrite E_exec_gas_cons, E_exec_ga, exec_stmt_assign. cbn [ga_cond ga_rhs ga_var holds]. rewrite E_bind.
        rewrite (sample_ext r s t).
        2:{ intros y Hy. apply Hag. eapply wf_vars_In; [exact Hwf | right; exact Hy]. }
        apply E_ext. intros v. cbn [exec_gas]. rewrite !E_ret. apply Hgh.
        * intros y Hy. unfold upd. destruct (var_eqb y x); [reflexivity | apply Hag; exact Hy].
        * intros y Hy. apply upd_other. intros ->. apply Hy. left; reflexivity.
    - (* SSimult *)
      intros l k l' k' H. cbn [fl_stmt] in H. discriminate.
    - (* SIf *)
      intros bs IHbs els IHels k l k' H Hwf. cbn [fl_stmt] in H.
      destruct (fl_branches k bs) as [[brs k1]|] eqn:E1; [|discriminate].
      destruct (fl_block k1 els) as [[le k2]|] eqn:E2; [|discriminate]. inversion H as [Hfl]. clear H.
      cbn [stmt_vars] in Hwf. rewrite wf_vars_app in Hwf. apply andb_true_iff in Hwf. destruct Hwf as [Hwf1 Hwf2].
      destruct (IHbs k brs k1 E1 Hwf1) as [Hk1 [items [Hmap [Hconds [Hitems Hfm]]]]].
      destruct (IHels k1 le k2 E2 Hwf2) as [Hk2 [Hde [Hne Hse]]].
      set (items' := match els with BNil => items | _ => items ++ [((CTrue, le), exec_block law els)] end).
      assert (Hmap' : map fst items' = match els with BNil => brs | _ => brs ++ [(CTrue, le)] end).
      { unfold items'. destruct els; [exact Hmap | rewrite map_app; apply f_equal2; [exact Hmap | reflexivity]]. }
      rewrite <- Hmap' in Hfl.
      destruct (flatten_if_sim (mutex_shape bs els) items' k2 l k' Hfl) as [Hk' [Hd [Hn Hs]]].
      + assert (Hold : forall it, In it items -> wf_vars (cvars (fst (fst it))) = true /\ defaults_ok (snd (fst it))
            /\ sim (snd (fst it)) (snd it) /\ names_ok k2 (snd (fst it))).
        { intros it Hin. destruct (Hitems it Hin) as [H1 [H2 [H3 H4]]]. repeat split; try assumption.
          eapply names_ok_mono; [exact Hk2 | exact H4]. }
        unfold items'. destruct els; [exact Hold|]; intros it Hin; apply in_app_or in Hin;
          (destruct Hin as [Hin|[<-|[]]]; [apply Hold; exact Hin | cbn [fst snd]; repeat split; assumption]).
      + intros Emx s. unfold mutex_shape in Emx. unfold items'. destruct els; try discriminate.
        rewrite Hconds. apply mutex_conds_excl. exact Emx.
      + split; [lia|]. split; [exact Hd|]. split; [exact Hn|].
        eapply sim_ext; [|exact Hs]. intros s. rewrite exec_stmt_if. unfold sem_items, items'.
        destruct els as [|st0 b0].
        * rewrite Hfm, exec_block_nil. reflexivity.
        * rewrite first_match_app, Hfm. cbn [fst snd holds]. destruct (exec_branches law bs s); reflexivity.
    - (* BNil *)
      intros k l k' H _. cbn [fl_block] in H. inversion H; subst l k'.
      split; [lia|]. split; [intros g []|]. split; [intros y []|].
      intros s t Hag g h Hgh. rewrite exec_block_nil. cbn [exec_gas]. rewrite !E_ret. apply Hgh; [exact Hag | intros y _; reflexivity].
    - (* BCons *)
      intros st IHst b IHb k l k' H Hwf. cbn [fl_block] in H.
      destruct (fl_stmt k st) as [[l1 k1]|] eqn:E1; [|discriminate].
      destruct (fl_block k1 b) as [[l2 k2]|] eqn:E2; [|discriminate]. inversion H; subst l k'. clear H.
      cbn [block_vars] in Hwf. rewrite wf_vars_app in Hwf. apply andb_true_iff in Hwf. destruct Hwf as [Hwf1 Hwf2].
      destruct (IHst k l1 k1 E1 Hwf1) as [Hk1 [Hd1 [Hn1 Hs1]]].
      destruct (IHb k1 l2 k2 E2 Hwf2) as [Hk2 [Hd2 [Hn2 Hs2]]].
      split; [lia|]. split; [|split].
      + intros g Hg. apply in_app_or in Hg. destruct Hg; [apply Hd1 | apply Hd2]; assumption.
      + intros y Hy. rewrite gvars_app in Hy. apply in_app_or in Hy. destruct Hy as [Hy|Hy].
        * exact (names_ok_mono k1 k2 _ Hk2 Hn1 y Hy).
        * apply Hn2; exact Hy.
      + intros s t Hag g h Hgh. rewrite E_exec_gas_app, exec_block_cons, E_bind.
        apply Hs1; [exact Hag|]. intros t1 s1 Hag1 Hfr1.
        apply Hs2; [exact Hag1|]. intros t2 s2 Hag2 Hfr2. apply Hgh; [exact Hag2|].
        intros y Hy. rewrite gvars_app in Hy. rewrite Hfr2, Hfr1; [reflexivity| |]; intros Hin; apply Hy; apply in_or_app; auto.
    - (* BrNil *)
      intros k brs k' H _. cbn [fl_branches] in H. inversion H; subst brs k'.
      split; [lia|]. exists []. split; [reflexivity|]. split; [reflexivity|]. split; [intros it0 [] | intros s; reflexivity].
    - (* BrCons *)
      intros c b IHb bs IHbs k brs k' H Hwf. cbn [fl_branches] in H.
      destruct (fl_block k b) as [[l k1]|] eqn:E1; [|discriminate].
      destruct (fl_branches k1 bs) as [[brs0 k2]|] eqn:E2; [|discriminate]. inversion H; subst brs k'. clear H.
      cbn [branches_vars] in Hwf. rewrite !wf_vars_app in Hwf. apply andb_true_iff in Hwf. destruct Hwf as [Hwc Hwf].
      apply andb_true_iff in Hwf. destruct Hwf as [Hwb Hwbs].
      destruct (IHb k l k1 E1 Hwb) as [Hk1 [Hd [Hn Hs]]].
      destruct (IHbs k1 brs0 k2 E2 Hwbs) as [Hk2 [items [Hmap [Hconds [Hitems Hfm]]]]].
      split; [lia|]. exists (((c, l), exec_block law b) :: items).
      split; [cbn [map fst]; rewrite Hmap; reflexivity|].
      split; [cbn [map fst br_conds]; rewrite Hconds; reflexivity|]. split.
      + intros it [<-|Hin]; [|apply Hitems; exact Hin]. cbn [fst snd]. repeat split; try assumption.
        eapply names_ok_mono; [exact Hk2 | exact Hn].
      + intros s. rewrite exec_branches_cons. cbn [first_match fst snd]. rewrite Hfm. reflexivity.
  Qed.

  (* ---------- the theorems ---------- *)
  (* observation functions that do not read generated variables *)
  Definition blind (f : state -> Qc) : Prop := forall s t, agree s t -> f t = f s.

  Theorem if_flatten_old_rule_block_preserves k b l k' :
    if_flatten_old k b = Some (l, k') -> wf_block b = true ->
    forall s t, agree s t -> forall f, blind f ->
      E (exec_gas law l t) f = E (exec_block law b s) f.
  Proof.
    intros H Hwf s t Hag f Hf. destruct fl_correct as [_ [Hb _]].
    destruct (Hb b k l k' H Hwf) as [_ [_ [_ Hs]]]. apply Hs; [exact Hag|].
    intros t' s' Hag' _. apply Hf. exact Hag'.
  Qed.

  Lemma if_flatten_old_rule_rel k p fp k' :
    if_flatten_prog_old k p = Some (fp, k') -> wf_prog p = true ->
    forall n s0 t0, agree s0 t0 -> forall g h, (forall s t, agree s t -> g t = h s) ->
      E (frun law fp n t0) g = E (run law p n s0) h.
  Proof.
    unfold if_flatten_prog_old, wf_prog. intros H Hwf.
    destruct (p_guard p) eqn:Eg; try discriminate.
    destruct (if_flatten_old k (p_init p)) as [[li k1]|] eqn:Ei; [|discriminate].
    destruct (if_flatten_old k1 (p_body p)) as [[lb k2]|] eqn:Eb; [|discriminate]. inversion H; subst fp k'. clear H.
    apply andb_true_iff in Hwf. destruct Hwf as [Hwi Hwb].
    destruct fl_correct as [_ [Hb _]].
    destruct (Hb _ _ _ _ Ei Hwi) as [_ [_ [_ Hsi]]]. destruct (Hb _ _ _ _ Eb Hwb) as [_ [_ [_ Hsb]]].
    induction n as [|n IH]; intros s0 t0 Hag g h Hgh; cbn [frun run fp_init].
    - apply Hsi; [exact Hag|]. intros t' s' Hag' _. apply Hgh. exact Hag'.
    - rewrite !E_bind. apply IH; [exact Hag|]. intros s t Hst.
      unfold fstep, iter. cbn [fp_body]. rewrite Eg. cbn [holds].
      apply Hsb; [exact Hst|]. intros t' s' Hag' _. apply Hgh. exact Hag'.
  Qed.

  Theorem if_flatten_old_rule_preserves k p fp k' :
    if_flatten_prog_old k p = Some (fp, k') -> wf_prog p = true ->
    forall n s0 t0, agree s0 t0 -> forall f, blind f ->
      E (frun law fp n t0) f = E (run law p n s0) f.
  Proof. intros H Hwf n s0 t0 Hag f Hf. eapply if_flatten_old_rule_rel; eauto. Qed.
End Proof.

(* ---------- the hypothesis wf_block is necessary: a source variable named _old0 is captured ---------- *)
Local Open Scope string_scope.
Definition capture_block : block :=
  BCons (SIf (BrCons (CAtom (EVar "x") Ceq (EConst (mkq 0 1)))
                (BCons (SAssign "x" (RDet (EConst (mkq 1 1)))) (BCons (SAssign "y" (RDet (EVar "_old0"))) BNil)) BrNil) BNil) BNil.
Definition capture_state : state := fun v => if var_eqb v "_old0" then mkq 7 1 else 0.

Theorem if_flatten_without_wf_refuted :
  exists (k : nat) (b : block) (l : list gassign) (k' : nat) (s : state) (f : state -> Qc),
    if_flatten_old k b = Some (l, k') /\ blind f /\ agree s s /\
    E (exec_gas no_law l s) f <> E (exec_block no_law b s) f.
Proof.
  exists 0%nat, capture_block.
  destruct (if_flatten_old 0 capture_block) as [[l k']|] eqn:Efl; [|vm_compute in Efl; discriminate].
  exists l, k', capture_state, (fun s => s "y").
  split; [reflexivity|]. split; [intros s t H; apply H; reflexivity|]. split; [intros x _; reflexivity|].
  vm_compute in Efl. inversion Efl; subst l k'. clear Efl.
  intros Heq.
  match type of Heq with ?a = ?b => assert (Hc : Qc_eqb a b = true) by (rewrite Heq; apply Qc_eqb_refl) end.
  vm_compute in Hc. discriminate.
Qed.
