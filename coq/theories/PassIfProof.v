(* C02, IfTransformer: proof that the model [PassIf.if_flatten] preserves the semantics.
   Block simulation (DESIGN.md 5/C02): (a) rename_eval = [holds_rename]; (b),(d) no-op blocks =
   [strengthen_false]/[emit_noop]; (c) the taken block = [strengthen_true]; (e) else / no branch /
   mutually exclusive = the same lemmas ([emit_sim]).  Nested statements: mutual induction over
   stmt/block/branches ([fl_correct]); all iterations: [if_flatten_preserves]. *)
From Coq Require Import List String Ascii QArith Qcanon ZArith Bool Arith Lia DecimalString DecimalNat.
From Polar Require Import Qcx Dist Syntax Sem PassGuard PassIf.
Import ListNotations.
Local Open Scope Qc_scope.

(* ---------- strings, membership ---------- *)
Lemma var_eqb_eq x y : var_eqb x y = true <-> x = y.
Proof. unfold var_eqb. apply String.eqb_eq. Qed.
Lemma var_eqb_refl x : var_eqb x x = true.
Proof. apply var_eqb_eq; reflexivity. Qed.
Lemma var_eqb_neq x y : var_eqb x y = false <-> x <> y.
Proof. unfold var_eqb. apply String.eqb_neq. Qed.

Lemma mem_In x l : mem x l = true <-> In x l.
Proof.
  unfold mem. rewrite existsb_exists. split.
  - intros [y [Hy He]]. apply var_eqb_eq in He. subst; exact Hy.
  - intros H. exists x; split; [exact H | apply var_eqb_refl].
Qed.
Lemma mem_nIn x l : mem x l = false <-> ~ In x l.
Proof.
  split.
  - intros H Hi. apply mem_In in Hi. congruence.
  - intros H. destruct (mem x l) eqn:E; [apply mem_In in E; contradiction | reflexivity].
Qed.

Lemma is_gen_old k : is_gen (old_name k) = true.
Proof.
  unfold is_gen, old_name. cbn. destruct (NilEmpty.string_of_uint (Nat.to_uint k)); reflexivity.
Qed.

Lemma old_name_inj j j' : old_name j = old_name j' -> j = j'.
Proof.
  unfold old_name. intros H. cbn in H. injection H as H.
  apply (f_equal NilEmpty.uint_of_string) in H. rewrite !NilEmpty.usu in H.
  injection H as H. apply (f_equal Nat.of_uint) in H. rewrite !Unsigned.of_to in H. exact H.
Qed.

Lemma wf_vars_In l x : wf_vars l = true -> In x l -> is_gen x = false.
Proof.
  unfold wf_vars. rewrite forallb_forall. intros H Hi. specialize (H x Hi).
  destruct (is_gen x); [discriminate | reflexivity].
Qed.
Lemma wf_vars_app l1 l2 : wf_vars (l1 ++ l2) = wf_vars l1 && wf_vars l2.
Proof. unfold wf_vars. apply forallb_app. Qed.

(* ---------- states ---------- *)
Definition seq_st (t t' : state) : Prop := forall x, t' x = t x.
Definition agree (s t : state) : Prop := forall x, is_gen x = false -> t x = s x.
Definition frame (V : list var) (t t' : state) : Prop := forall y, ~ In y V -> t' y = t y.

Lemma upd_same s x v : upd s x v x = v.
Proof. unfold upd. rewrite var_eqb_refl. reflexivity. Qed.
Lemma upd_other s x v y : y <> x -> upd s x v y = s y.
Proof. unfold upd. intros H. apply var_eqb_neq in H. rewrite H. reflexivity. Qed.

Lemma eval_ext e s t : (forall x, In x (evars e) -> t x = s x) -> eval e t = eval e s.
Proof.
  induction e as [q|x|a IHa b IHb|a IHa b IHb|a IHa k]; cbn [eval evars]; intros H.
  - reflexivity.
  - apply H; left; reflexivity.
  - rewrite IHa, IHb; [reflexivity| |]; intros x Hx; apply H; apply in_or_app; auto.
  - rewrite IHa, IHb; [reflexivity| |]; intros x Hx; apply H; apply in_or_app; auto.
  - rewrite IHa; [reflexivity|exact H].
Qed.

Lemma eval_rename R e s t : (forall x, In x (evars e) -> t (rn R x) = s x) -> eval (rename_e R e) t = eval e s.
Proof.
  induction e as [q|x|a IHa b IHb|a IHa b IHb|a IHa k]; cbn [eval evars rename_e]; intros H.
  - reflexivity.
  - apply H; left; reflexivity.
  - rewrite IHa, IHb; [reflexivity| |]; intros x Hx; apply H; apply in_or_app; auto.
  - rewrite IHa, IHb; [reflexivity| |]; intros x Hx; apply H; apply in_or_app; auto.
  - rewrite IHa; [reflexivity|exact H].
Qed.

(* (a) rename_eval *)
Lemma holds_rename Rf c s t : forall R,
  (forall x, In x (cvars c) -> t (rn R x) = s x) ->
  (forall x, In x (cvars c) -> t (rn Rf x) = s x) ->
  holds (rename_c R Rf c) t = holds c s.
Proof.
  induction c as [| |a o b|c IH|c1 IH1 c2 IH2|c1 IH1 c2 IH2]; intros R H Hf; cbn [holds rename_c cvars] in *.
  - reflexivity.
  - reflexivity.
  - rewrite (eval_rename R a s t), (eval_rename R b s t); [reflexivity| |]; intros x Hx; apply H; apply in_or_app; auto.
  - rewrite (IH Rf); [reflexivity|exact Hf|exact Hf].
  - rewrite (IH1 R), (IH2 R); [reflexivity| | | |]; intros x Hx; (apply H || apply Hf); apply in_or_app; auto.
  - rewrite (IH1 R), (IH2 R); [reflexivity| | | |]; intros x Hx; (apply H || apply Hf); apply in_or_app; auto.
Qed.

Lemma holds_ext c s t : (forall x, In x (cvars c) -> t x = s x) -> holds c t = holds c s.
Proof.
  induction c as [| |a o b|c IH|c1 IH1 c2 IH2|c1 IH1 c2 IH2]; intros H; cbn [holds cvars] in *.
  - reflexivity.
  - reflexivity.
  - rewrite (eval_ext a s t), (eval_ext b s t); [reflexivity| |]; intros x Hx; apply H; apply in_or_app; auto.
  - rewrite IH; [reflexivity|exact H].
  - rewrite IH1, IH2; [reflexivity| |]; intros x Hx; apply H; apply in_or_app; auto.
  - rewrite IH1, IH2; [reflexivity| |]; intros x Hx; apply H; apply in_or_app; auto.
Qed.

Lemma holds_mk_and a b s : holds (mk_and a b) s = holds a s && holds b s.
Proof. destruct a, b; cbn [mk_and holds]; try reflexivity; try (rewrite andb_true_r; reflexivity). Qed.
Lemma holds_mk_or a b s : holds (mk_or a b) s = holds a s || holds b s.
Proof. destruct a, b; cbn [mk_or holds]; try reflexivity; try (rewrite orb_false_r; reflexivity). Qed.
Lemma cvars_mk_and a b x : In x (cvars (mk_and a b)) -> In x (cvars a ++ cvars b).
Proof.
  destruct a, b; cbn [mk_and]; intros H; try exact H;
    try (apply in_or_app; right; exact H); try (apply in_or_app; left; exact H); try (cbn [cvars] in H; contradiction).
Qed.
Lemma cvars_mk_or a b x : In x (cvars (mk_or a b)) -> In x (cvars a ++ cvars b).
Proof.
  destruct a, b; cbn [mk_or]; intros H; try exact H;
    try (apply in_or_app; right; exact H); try (apply in_or_app; left; exact H); try (cbn [cvars] in H; contradiction).
Qed.

Lemma holds_csimp c s : holds (csimp c) s = holds c s.
Proof.
  induction c as [| |a o b|c IH|c1 IH1 c2 IH2|c1 IH1 c2 IH2]; cbn [csimp holds]; try reflexivity.
  - rewrite IH; reflexivity.
  - rewrite holds_mk_and, IH1, IH2; reflexivity.
  - rewrite holds_mk_or, IH1, IH2; reflexivity.
Qed.

Lemma cvars_csimp c x : In x (cvars (csimp c)) -> In x (cvars c).
Proof.
  induction c as [| |a o b|c IH|c1 IH1 c2 IH2|c1 IH1 c2 IH2]; cbn [csimp cvars]; try (intros H; exact H).
  - exact IH.
  - intros H. apply cvars_mk_and in H. apply in_app_or in H. apply in_or_app. destruct H; auto.
  - intros H. apply cvars_mk_or in H. apply in_app_or in H. apply in_or_app. destruct H; auto.
Qed.

Section Proof.
  Variable law : string -> list Qc -> dist Qc.

  Lemma sample_ext r s t : (forall x, In x (rhs_vars r) -> t x = s x) -> sample law r t = sample law r s.
  Proof.
    destruct r as [alts|d]; cbn [sample rhs_vars]; intros H.
    - apply map_ext_in. intros [p e] Hin. cbn [fst snd].
      rewrite (eval_ext p s t), (eval_ext e s t); [reflexivity| |]; intros x Hx; apply H; apply in_flat_map;
        exists (p, e); (split; [exact Hin | cbn [fst snd]; apply in_or_app; auto]).
    - destruct d as [p|ps|a b|f args]; cbn [draw_law draw_vars] in *.
      + rewrite (eval_ext p s t) by exact H. reflexivity.
      + f_equal. apply map_ext_in. intros e Hin. apply eval_ext. intros x Hx. apply H. apply in_flat_map. exists e; auto.
      + reflexivity.
      + f_equal. apply map_ext_in. intros e Hin. apply eval_ext. intros x Hx. apply H. apply in_flat_map. exists e; auto.
  Qed.

  (* ---------- expectations of flat execution ---------- *)
  Lemma E_exec_ga g t F :
    E (exec_ga law g t) F =
    if holds (ga_cond g) t then E (sample law (ga_rhs g) t) (fun v => F (upd t (ga_var g) v))
    else F (upd t (ga_var g) (t (ga_default g))).
  Proof.
    unfold exec_ga. destruct (holds (ga_cond g) t).
    - rewrite E_bind. apply E_ext. intros v. apply E_ret.
    - apply E_ret.
  Qed.

  Lemma E_exec_gas_cons g l t F :
    E (exec_gas law (g :: l) t) F = E (exec_ga law g t) (fun t' => E (exec_gas law l t') F).
  Proof. cbn [exec_gas]. apply E_bind. Qed.

  Lemma E_exec_gas_app l1 l2 t F :
    E (exec_gas law (l1 ++ l2) t) F = E (exec_gas law l1 t) (fun t' => E (exec_gas law l2 t') F).
  Proof.
    revert t F; induction l1 as [|g l1 IH]; intros t F.
    - cbn [app exec_gas]. rewrite E_ret. reflexivity.
    - rewrite <- app_comm_cons, !E_exec_gas_cons. apply E_ext. intros t'. apply IH.
  Qed.

  Lemma holds_strengthen e g t : holds (ga_cond (strengthen e g)) t = holds (ga_cond g) t && holds e t.
  Proof. unfold strengthen; cbn [ga_cond]. rewrite holds_csimp. reflexivity. Qed.

  Lemma gvars_strengthen e l : gvars (map (strengthen e) l) = gvars l.
  Proof. unfold gvars. rewrite map_map. apply map_ext. intros g. reflexivity. Qed.

  Definition defaults_ok (l : list gassign) : Prop := forall g, In g l -> ga_default g = ga_var g.

  (* (c) the taken block: the extra condition stays true at every intermediate state *)
  Lemma strengthen_true (I : state -> Prop) e l :
    (forall t, I t -> holds e t = true) ->
    (forall t y v, I t -> In y (gvars l) -> I (upd t y v)) ->
    forall t F, I t -> E (exec_gas law (map (strengthen e) l) t) F = E (exec_gas law l t) F.
  Proof.
    intros He. induction l as [|g l IH]; intros Hupd t F Ht; [reflexivity|].
    cbn [map]. rewrite !E_exec_gas_cons, !E_exec_ga, holds_strengthen, (He t Ht), andb_true_r.
    cbn [strengthen ga_rhs ga_var ga_default].
    assert (IH' : forall t', I t' -> E (exec_gas law (map (strengthen e) l) t') F = E (exec_gas law l t') F).
    { intros t' Ht'. apply IH; [|exact Ht']. intros t0 y v H0 Hy. apply Hupd; [exact H0 | right; exact Hy]. }
    destruct (holds (ga_cond g) t).
    - apply E_ext. intros v. apply IH'. apply Hupd; [exact Ht | left; reflexivity].
    - apply IH'. apply Hupd; [exact Ht | left; reflexivity].
  Qed.

  (* (b),(d) a block whose extra condition is false is a no-op (defaults are the variables) *)
  Lemma strengthen_false (I : state -> Prop) e l :
    (forall t, I t -> holds e t = false) ->
    (forall t t', I t -> seq_st t t' -> I t') ->
    defaults_ok l ->
    forall t, I t -> exists t', seq_st t t' /\ forall F, E (exec_gas law (map (strengthen e) l) t) F = F t'.
  Proof.
    intros He Hseq. induction l as [|g l IH]; intros Hd t Ht.
    - exists t. split; [intros x; reflexivity | intros F; apply E_ret].
    - assert (Hg : ga_default g = ga_var g) by (apply Hd; left; reflexivity).
      set (t1 := upd t (ga_var g) (t (ga_default g))).
      assert (H1 : seq_st t t1).
      { intros x. unfold t1, upd. destruct (var_eqb x (ga_var g)) eqn:Ex; [|reflexivity].
        apply var_eqb_eq in Ex. subst x. rewrite Hg. reflexivity. }
      destruct (IH (fun g' Hg' => Hd g' (or_intror Hg')) t1 (Hseq t t1 Ht H1)) as [t' [Ht' HE]].
      exists t'. split.
      + intros x. rewrite Ht'. apply H1.
      + intros F. cbn [map]. rewrite E_exec_gas_cons, E_exec_ga, holds_strengthen, (He t Ht), andb_false_r.
        cbn [strengthen ga_var ga_default]. apply HE.
  Qed.
End Proof.
