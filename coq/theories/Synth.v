(* C14: verified validators for the unsolvable-loop synthesis.

   [check_synth]  decides, for a flat program fp, a polynomial Q, a constant k, a list of
   "effective items" (monomials with a linear system and validated closed forms, special
   cases included) and a candidate closed form f (an exponential polynomial), whether
        wp(body, Q) = k*Q + (a combination of the items' monomials)      (the coefficients
                                                                          are COMPUTED here)
        f(0) = wp(init, Q)                 and
        f(n+1) = k*f(n) + sum c_i * E[M_i]_n      for ALL n
   and [check_synth_sound] turns acceptance into   forall n s0, E[Q(state_n)] = f(n).

   [check_sim]  decides whether a second flat program (the synthesized solvable loop) with a
   variable s carries the same moment system and the same recurrence for s as the original
   loop carries for Q; [check_sim_sound] gives  E_S[s]_n = E_O[Q]_n  and equal moments of the
   system's monomials (retained variables) for ALL n. *)
From Coq Require Import List String QArith Qcanon ZArith Bool Ring Field Arith Lia.
From Polar Require Import Qcx CRing ExpPoly ClosedForm Dist Syntax Sem Types Poly Pipeline Wp.
Import ListNotations.
Local Open Scope Qc_scope.

Notation epolyQ := (epoly Qc_cring).
Definition eevalQ (f : epolyQ) (n : nat) : Qc := eeval (R := Qc_cring) f n.

(* ---- expectations of polynomials are combinations of expectations of monomials ---- *)
Lemma E_eval_poly (d : dist state) (p : poly) :
  E d (eval_poly p) =
  fold_right (fun t acc => fst t * E d (eval_mono (snd t)) + acc) 0 p.
Proof.
  induction p as [|[c m] p IH]; [apply E_zero|].
  change (E d (fun s => c * eval_mono m s + eval_poly p s) =
          c * E d (eval_mono m) + fold_right (fun t acc => fst t * E d (eval_mono (snd t)) + acc) 0 p).
  rewrite E_add, E_cmul, IH. reflexivity.
Qed.

(* a monomial list "contains" m up to normalisation *)
Definition mono_in (m : mono) (ms : list mono) : bool :=
  existsb (fun m' => mono_eqb (mnorm m') (mnorm m)) ms.

Lemma mono_in_sound m ms : mono_in m ms = true ->
  exists m', In m' ms /\ forall s, eval_mono m' s = eval_mono m s.
Proof.
  unfold mono_in. rewrite existsb_exists. intros [m' [Hin He]]. exists m'. split; [exact Hin|].
  intros s. apply mono_eqb_eq in He. rewrite <- (eval_mnorm m'), <- (eval_mnorm m), He. reflexivity.
Qed.

Section Synth.
  Variable law : string -> list Qc -> dist Qc.
  Variable cmom : string -> list Qc -> nat -> Qc.
  Hypothesis Hc : cmom_ok law cmom.

  (* ---- effective items: a monomial, the closed linear system it lives in, closed forms ---- *)
  Record eitem := {
    ei_ms : list mono;            (* monomials of the system; the constant is the empty monomial *)
    ei_A : list (list Qc);        (* one-step matrix *)
    ei_v : list Qc;               (* moments before the first iteration *)
    ei_F : list epolyQ;           (* closed forms, general part *)
    ei_sp : list (list Qc);       (* special cases: values of the whole vector at n = 0 .. *)
    ei_idx : nat }.               (* position of the item's monomial in ei_ms *)

  Definition ei_mono (it : eitem) : mono := nth (ei_idx it) (ei_ms it) [].
  Definition ei_val (it : eitem) (n : nat) : Qc :=
    nth (ei_idx it) (pw_eval (R := Qc_cring) (ei_F it) (ei_sp it) n) 0.
  Definition ei_gen (it : eitem) : epolyQ := nth (ei_idx it) (ei_F it) [].

  Definition check_item (fp : flatprog) (T : tenv) (it : eitem) : bool :=
    Nat.ltb (ei_idx it) (List.length (ei_ms it))
    && check_system cmom fp T (ei_ms it) (ei_A it)
    && check_init_vals cmom (fp_init fp) (ei_ms it) (ei_v it)
    && check_solution (R := Qc_cring) (ei_A it) (ei_v it) (ei_F it) (ei_sp it).

  Lemma nth_map_lt {X Y} (g : X -> Y) (l : list X) (i : nat) (dx : X) (dy : Y) :
    (i < List.length l)%nat -> nth i (map g l) dy = g (nth i l dx).
  Proof.
    intros H. rewrite (nth_indep (map g l) dy (g dx)) by (rewrite map_length; exact H).
    apply map_nth.
  Qed.

  Theorem item_sound fp T it :
    check_types fp T = true -> check_item fp T it = true ->
    forall s0, init_ok fp T s0 ->
    forall n, E (frun law fp n s0) (eval_mono (ei_mono it)) = ei_val it n.
  Proof.
    intros HT H s0 H0 n. unfold check_item in H.
    apply andb_true_iff in H; destruct H as [H H4].
    apply andb_true_iff in H; destruct H as [H H3].
    apply andb_true_iff in H; destruct H as [H1 H2].
    apply Nat.ltb_lt in H1.
    assert (Hp : check_pipeline cmom fp T (ei_ms it) (ei_A it) (ei_v it) (ei_F it) (ei_sp it) = true).
    { unfold check_pipeline. rewrite HT, H2, H3, H4. reflexivity. }
    pose proof (check_pipeline_sound law cmom fp T _ _ _ _ _ Hc Hp s0 H0 n) as Hs.
    unfold ei_val. rewrite Hs. unfold moments_vec, ei_mono.
    symmetry.
    exact (nth_map_lt (fun m => E (frun law fp n s0) (eval_mono m)) (ei_ms it) (ei_idx it) [] 0 H1).
  Qed.

  (* beyond the special cases the value is the general closed form *)
  Lemma ei_val_general it n : (List.length (ei_sp it) <= n)%nat -> ei_val it n = eevalQ (ei_gen it) n.
  Proof.
    intros H. unfold ei_val, pw_eval, ei_gen, eevalQ.
    match goal with |- context [if ?b then _ else _] =>
      assert (E : b = false) by (apply Nat.ltb_ge; exact H); rewrite E end.
    unfold evalF.
    exact (map_nth (fun f : epolyQ => eeval f n) (ei_F it) [] (ei_idx it)).
  Qed.

  (* ---- the effective part: every term of R must be the monomial of an item ---- *)
  Fixpoint find_item (m : mono) (items : list eitem) : option eitem :=
    match items with
    | [] => None
    | it :: r => if mono_eqb (mnorm (ei_mono it)) (mnorm m) then Some it else find_item m r
    end.

  Fixpoint eff_items (R : poly) (items : list eitem) : option (list (Qc * eitem)) :=
    match R with
    | [] => Some []
    | (c, m) :: R' =>
        match find_item m items, eff_items R' items with
        | Some it, Some l => Some ((c, it) :: l)
        | _, _ => None
        end
    end.

  Lemma find_item_sound m items it : find_item m items = Some it ->
    In it items /\ forall s, eval_mono (ei_mono it) s = eval_mono m s.
  Proof.
    induction items as [|it' r IH]; cbn [find_item]; [discriminate|].
    destruct (mono_eqb (mnorm (ei_mono it')) (mnorm m)) eqn:Em; intros H.
    - injection H as <-. split; [left; reflexivity|].
      intros s. apply mono_eqb_eq in Em. rewrite <- (eval_mnorm (ei_mono it')), <- (eval_mnorm m), Em. reflexivity.
    - destruct (IH H) as [Hin He]. split; [right; exact Hin | exact He].
  Qed.

  Definition eff_at (l : list (Qc * eitem)) (s : state) : Qc :=
    fold_right (fun ci acc => fst ci * eval_mono (ei_mono (snd ci)) s + acc) 0 l.
  Definition eff_val (l : list (Qc * eitem)) (n : nat) : Qc :=
    fold_right (fun ci acc => fst ci * ei_val (snd ci) n + acc) 0 l.
  Definition eff_epoly (l : list (Qc * eitem)) : epolyQ :=
    fold_right (fun ci acc => eadd (escale (R := Qc_cring) (fst ci) (ei_gen (snd ci))) acc) [] l.

  Lemma eff_items_sound R items l : eff_items R items = Some l ->
    (forall ci, In ci l -> In (snd ci) items) /\ forall s, eval_poly R s = eff_at l s.
  Proof.
    revert l; induction R as [|[c m] R IH]; cbn [eff_items]; intros l H.
    - injection H as <-. split; [intros ci []| reflexivity].
    - destruct (find_item m items) as [it|] eqn:Ef; [|discriminate].
      destruct (eff_items R items) as [l'|] eqn:El; [|discriminate].
      injection H as <-. destruct (IH l' eq_refl) as [Hin He].
      destruct (find_item_sound _ _ _ Ef) as [Hit Hm]. split.
      + intros ci [<-|Hci]; [exact Hit | apply Hin; exact Hci].
      + intros s. cbn [eval_poly eff_at fold_right fst snd]. rewrite Hm. fold (eff_at l' s). rewrite He. reflexivity.
  Qed.

  Lemma E_eff_at (d : dist state) l :
    E d (eff_at l) =
    fold_right (fun ci acc => fst ci * E d (eval_mono (ei_mono (snd ci))) + acc) 0 l.
  Proof.
    induction l as [|[c it] l IH]; [apply E_zero|].
    change (E d (fun a => c * eval_mono (ei_mono it) a + eff_at l a) =
            c * E d (eval_mono (ei_mono it)) +
            fold_right (fun ci acc => fst ci * E d (eval_mono (ei_mono (snd ci))) + acc) 0 l).
    rewrite E_add, E_cmul, IH. reflexivity.
  Qed.

  Definition max_sp (l : list (Qc * eitem)) : nat :=
    fold_right (fun ci acc => Nat.max (List.length (ei_sp (snd ci))) acc) 0%nat l.

  Lemma max_sp_ge l ci : In ci l -> (List.length (ei_sp (snd ci)) <= max_sp l)%nat.
  Proof.
    induction l as [|c l IH]; [intros []|]. cbn [max_sp fold_right]. intros [<-|H]; [lia|].
    specialize (IH H). unfold max_sp in IH. lia.
  Qed.

  Lemma eff_val_general l n : (max_sp l <= n)%nat -> eff_val l n = eevalQ (eff_epoly l) n.
  Proof.
    induction l as [|[c it] l IH]; intros H; [reflexivity|].
    cbn [max_sp fold_right snd] in H.
    cbn [eff_val eff_epoly fold_right fst snd]. unfold eevalQ in *.
    rewrite (eeval_eadd Qc_cring), (eeval_escale Qc_cring).
    fold (eff_val l n). fold (eff_epoly l). rewrite <- IH by (unfold max_sp; lia).
    rewrite ei_val_general by lia. reflexivity.
  Qed.

  (* ---- the validator ---- *)
  Definition eff_residual (T : tenv) (W Q : poly) (k : Qc) : poly :=
    pclean (preduce T (psub W (pscale k Q))).

  (* the candidate closed form: special values fsp for n < length fsp (what Polar writes
     Piecewise((v0, n <= 0), ..., (general, True))), the exponential polynomial f from there on *)
  Definition fval (fsp : list Qc) (f : epolyQ) (n : nat) : Qc :=
    if Nat.ltb n (List.length fsp) then nth n fsp 0 else eevalQ f n.

  Definition check_closed_form (k : Qc) (l : list (Qc * eitem)) (fsp : list Qc) (f : epolyQ) : bool :=
    forallb (fun n => Qc_eqb (fval fsp f (S n)) (k * fval fsp f n + eff_val l n))
            (seq 0 (Nat.max (max_sp l) (List.length fsp)))
    && eeq (R := Qc_cring) (eshift f) (eadd (escale (R := Qc_cring) k f) (eff_epoly l)).

  Definition check_synth (fp : flatprog) (T : tenv) (Q : poly) (k : Qc) (items : list eitem)
             (fsp : list Qc) (f : epolyQ) : bool :=
    check_types fp T
    && forallb (check_item fp T) items
    && match wp_gas cmom T (fp_body fp) Q, wp_gas cmom [] (fp_init fp) Q with
       | Some W, Some Iw =>
           match eff_items (eff_residual T W Q k) items with
           | Some l => pequiv [] Iw (pconst (fval fsp f 0)) && check_closed_form k l fsp f
           | None => false
           end
       | _, _ => false
       end.

  (* k may be left to the validator: any of the listed candidates *)
  Definition check_synth_any (fp : flatprog) (T : tenv) (Q : poly) (ks : list Qc) (items : list eitem)
             (fsp : list Qc) (f : epolyQ) : bool :=
    existsb (fun k => check_synth fp T Q k items fsp f) ks.

  Lemma eval_eff_residual T W Q k s : typed T s ->
    eval_poly W s = k * eval_poly Q s + eval_poly (eff_residual T W Q k) s.
  Proof.
    intros HT. unfold eff_residual. rewrite eval_pclean, eval_preduce by exact HT.
    rewrite eval_psub, eval_pscale. ring.
  Qed.

  Lemma fval_general fsp f n : (List.length fsp <= n)%nat -> fval fsp f n = eevalQ f n.
  Proof. intros H. unfold fval. apply Nat.ltb_ge in H. rewrite H. reflexivity. Qed.

  Lemma closed_form_step k l fsp f : check_closed_form k l fsp f = true ->
    forall n, fval fsp f (S n) = k * fval fsp f n + eff_val l n.
  Proof.
    unfold check_closed_form. intros H n. apply andb_true_iff in H; destruct H as [H1 H2].
    destruct (Nat.ltb n (Nat.max (max_sp l) (List.length fsp))) eqn:En.
    - apply Nat.ltb_lt in En. rewrite forallb_forall in H1.
      apply Qc_eqb_true. apply H1. apply in_seq. lia.
    - apply Nat.ltb_ge in En.
      rewrite (eff_val_general l n) by lia.
      rewrite (fval_general fsp f n), (fval_general fsp f (S n)) by lia.
      pose proof (eeq_sound Qc_cring _ _ H2 n) as Eq.
      rewrite (eeval_eshift Qc_cring), (eeval_eadd Qc_cring), (eeval_escale Qc_cring) in Eq.
      exact Eq.
  Qed.

  (* one step of the expectation of a polynomial, from the computed wp *)
  Lemma poly_step fp T Q W k items l :
    check_types fp T = true -> forallb (check_item fp T) items = true ->
    wp_gas cmom T (fp_body fp) Q = Some W ->
    eff_items (eff_residual T W Q k) items = Some l ->
    forall s0, init_ok fp T s0 ->
    forall n, E (frun law fp (S n) s0) (eval_poly Q) = k * E (frun law fp n s0) (eval_poly Q) + eff_val l n.
  Proof.
    intros HT Hit HW Hl s0 H0 n. cbn [frun]. set (d := frun law fp n s0).
    assert (Hd : forall w s, In (w, s) d -> typed T s).
    { intros w s Hin. eapply check_types_sound; eauto. exists w; exact Hin. }
    pose proof HT as HT'. unfold check_types in HT'. apply andb_true_iff in HT'; destruct HT' as [_ Hb].
    destruct (eff_items_sound _ _ _ Hl) as [Hin He].
    rewrite E_bind.
    rewrite (E_ext_in d _ (fun s => k * eval_poly Q s + eff_at l s)).
    - rewrite E_add, E_cmul. f_equal.
      change (E d (fun s => eff_at l s)) with (E d (eff_at l)). rewrite (E_eff_at d l).
      unfold eff_val. clear He Hl.
      induction l as [|[c it] l IH]; [reflexivity|].
      cbn [fold_right fst snd]. rewrite IH by (intros ci Hci; apply Hin; right; exact Hci).
      f_equal. f_equal.
      assert (Hci : In it items) by (apply (Hin (c, it)); left; reflexivity).
      rewrite forallb_forall in Hit.
      exact (item_sound fp T it HT (Hit it Hci) s0 H0 n).
    - intros w s Hs. unfold fstep.
      rewrite (wp_gas_exact law cmom T (fp_body fp) Hc Hb Q W s (Hd w s Hs) HW).
      rewrite (eval_eff_residual T W Q k s (Hd w s Hs)), He. reflexivity.
  Qed.

  Theorem check_synth_sound fp T Q k items fsp f :
    check_synth fp T Q k items fsp f = true ->
    forall s0, init_ok fp T s0 ->
    forall n, E (frun law fp n s0) (eval_poly Q) = fval fsp f n.
  Proof.
    unfold check_synth. intros H s0 H0.
    apply andb_true_iff in H; destruct H as [H H3].
    apply andb_true_iff in H; destruct H as [HT Hit].
    destruct (wp_gas cmom T (fp_body fp) Q) as [W|] eqn:EW; [|discriminate].
    destruct (wp_gas cmom [] (fp_init fp) Q) as [Iw|] eqn:EI; [|discriminate].
    destruct (eff_items (eff_residual T W Q k) items) as [l|] eqn:El; [|discriminate].
    apply andb_true_iff in H3; destruct H3 as [Hi Hf].
    induction n as [|n IH].
    - cbn [frun].
      rewrite (wp_gas_exact law cmom [] (fp_init fp) Hc (check_ga_nil _) Q Iw s0 (typed_nil s0) EI).
      rewrite (pequiv_sound [] _ _ Hi s0 (typed_nil s0)). apply eval_pconst.
    - rewrite (poly_step fp T Q W k items l HT Hit EW El s0 H0 n), IH.
      symmetry. apply closed_form_step. exact Hf.
  Qed.

  Corollary check_synth_any_sound fp T Q ks items fsp f :
    check_synth_any fp T Q ks items fsp f = true ->
    forall s0, init_ok fp T s0 ->
    forall n, E (frun law fp n s0) (eval_poly Q) = fval fsp f n.
  Proof.
    unfold check_synth_any. rewrite existsb_exists. intros [k [_ H]]. exact (check_synth_sound fp T Q k items fsp f H).
  Qed.

  (* two accepted closed forms for the same polynomial denote the same sequence (k = 1 search
     and general search of the CLI; invariants returned next to a synthesized loop) *)
  Corollary check_synth_agree fp T Q k items fsp f k' items' fsp' f' :
    check_synth fp T Q k items fsp f = true -> check_synth fp T Q k' items' fsp' f' = true ->
    forall s0, init_ok fp T s0 -> forall n, fval fsp f n = fval fsp' f' n.
  Proof.
    intros H H' s0 H0 n.
    rewrite <- (check_synth_sound _ _ _ _ _ _ _ H s0 H0 n), <- (check_synth_sound _ _ _ _ _ _ _ H' s0 H0 n).
    reflexivity.
  Qed.

  (* ---- certified values: the exact sequence E[Q]_0, E[Q]_1, ... computed from the validated
     items alone (no candidate closed form involved).  Used by the search: a candidate f whose
     value differs from this list at some n is refuted at that n. ---- *)
  Fixpoint iter_vals (k : Qc) (l : list (Qc * eitem)) (cur : Qc) (n N : nat) : list Qc :=
    match N with
    | O => []
    | S N' => cur :: iter_vals k l (k * cur + eff_val l n) (S n) N'
    end.

  Definition synth_values (fp : flatprog) (T : tenv) (Q : poly) (k : Qc) (items : list eitem) (N : nat) : option (list Qc) :=
    if check_types fp T && forallb (check_item fp T) items then
      match wp_gas cmom T (fp_body fp) Q, wp_gas cmom [] (fp_init fp) Q with
      | Some W, Some Iw =>
          match eff_items (eff_residual T W Q k) items with
          | Some l => if pequiv [] Iw (pconst (eval_poly Iw st0)) then Some (iter_vals k l (eval_poly Iw st0) 0 N) else None
          | None => None
          end
      | _, _ => None
      end
    else None.

  Lemma iter_vals_nth k l (g : nat -> Qc) :
    (forall n, g (S n) = k * g n + eff_val l n) ->
    forall N n0 i, (i < N)%nat -> nth i (iter_vals k l (g n0) n0 N) 0 = g (n0 + i)%nat.
  Proof.
    intros Hg; induction N as [|N IH]; intros n0 i Hi; [lia|].
    cbn [iter_vals]. destruct i as [|i]; cbn [nth].
    - rewrite Nat.add_0_r. reflexivity.
    - rewrite <- (Hg n0). rewrite (IH (S n0) i) by lia. f_equal. lia.
  Qed.

  Theorem synth_values_sound fp T Q k items N vs :
    synth_values fp T Q k items N = Some vs ->
    forall s0, init_ok fp T s0 ->
    forall n, (n < N)%nat -> nth n vs 0 = E (frun law fp n s0) (eval_poly Q).
  Proof.
    unfold synth_values. intros H s0 H0 n Hn.
    destruct (check_types fp T && forallb (check_item fp T) items) eqn:Hck; [|discriminate].
    apply andb_true_iff in Hck; destruct Hck as [HT Hit].
    destruct (wp_gas cmom T (fp_body fp) Q) as [W|] eqn:EW; [|discriminate].
    destruct (wp_gas cmom [] (fp_init fp) Q) as [Iw|] eqn:EI; [|discriminate].
    destruct (eff_items (eff_residual T W Q k) items) as [l|] eqn:El; [|discriminate].
    destruct (pequiv [] Iw (pconst (eval_poly Iw st0))) eqn:Ep; [|discriminate].
    injection H as <-.
    set (g := fun j => E (frun law fp j s0) (eval_poly Q)).
    assert (Hg0 : g 0%nat = eval_poly Iw st0).
    { unfold g. cbn [frun].
      rewrite (wp_gas_exact law cmom [] (fp_init fp) Hc (check_ga_nil _) Q Iw s0 (typed_nil s0) EI).
      rewrite (pequiv_sound [] _ _ Ep s0 (typed_nil s0)). apply eval_pconst. }
    rewrite <- Hg0.
    rewrite (iter_vals_nth k l g (poly_step fp T Q W k items l HT Hit EW El s0 H0) N 0 n Hn).
    reflexivity.
  Qed.

  (* ---- the synthesized solvable loop simulates the original ---- *)
  Definition check_polystep (fp : flatprog) (T : tenv) (P : poly) (k : Qc) (R : poly) : bool :=
    match wp_gas cmom T (fp_body fp) P with
    | Some W => pequiv T W (padd (pscale k P) R)
    | None => false
    end.

  Definition init_const (fp : flatprog) (P : poly) : option Qc :=
    match wp_gas cmom [] (fp_init fp) P with
    | Some Iw => if pequiv [] Iw (pconst (eval_poly Iw st0)) then Some (eval_poly Iw st0) else None
    | None => None
    end.

  (* fpO/TO: original loop, Q its polynomial; fpS/TS: synthesized loop, sv its fresh variable;
     ms/A/v: a linear system that is closed and exact in BOTH programs with equal initial
     values (it contains the effective monomials and the retained variables) *)
  Definition check_sim (fpO : flatprog) (TO : tenv) (fpS : flatprog) (TS : tenv)
             (Q : poly) (sv : var) (k : Qc) (ms : list mono) (A : list (list Qc)) (v : list Qc) : bool :=
    check_types fpO TO && check_types fpS TS
    && check_system cmom fpO TO ms A && check_system cmom fpS TS ms A
    && check_init_vals cmom (fp_init fpO) ms v && check_init_vals cmom (fp_init fpS) ms v
    && match wp_gas cmom TO (fp_body fpO) Q with
       | Some W =>
           let R := eff_residual TO W Q k in
           forallb (fun t => mono_in (snd t) ms) R
           && check_polystep fpS TS (pvar sv) k R
       | None => false
       end
    && match init_const fpO Q, init_const fpS (pvar sv) with
       | Some a, Some b => Qc_eqb a b
       | _, _ => false
       end.

  Lemma init_const_sound fp P c : init_const fp P = Some c ->
    forall s0, E (frun law fp 0 s0) (eval_poly P) = c.
  Proof.
    unfold init_const. intros H s0.
    destruct (wp_gas cmom [] (fp_init fp) P) as [Iw|] eqn:EI; [|discriminate].
    destruct (pequiv [] Iw (pconst (eval_poly Iw st0))) eqn:Ep; [|discriminate].
    injection H as <-. cbn [frun].
    rewrite (wp_gas_exact law cmom [] (fp_init fp) Hc (check_ga_nil _) P Iw s0 (typed_nil s0) EI).
    rewrite (pequiv_sound [] _ _ Ep s0 (typed_nil s0)). apply eval_pconst.
  Qed.

  Lemma moments_all fp T ms A v :
    check_types fp T = true -> check_system cmom fp T ms A = true ->
    check_init_vals cmom (fp_init fp) ms v = true ->
    forall s0, init_ok fp T s0 ->
    forall n, moments_vec law fp ms n s0 = iter_mat (R := Qc_cring) A n v.
  Proof.
    intros HT HS HI s0 H0 n.
    rewrite (moments_iter law fp T ms A HT (check_system_sound law cmom fp T ms A Hc HT HS) s0 H0 n).
    rewrite (check_init_vals_sound law cmom fp ms v Hc HI s0). reflexivity.
  Qed.

  (* expectation of a polynomial whose monomials all belong to a system is determined by the
     system's moments *)
  Lemma E_poly_by_moments (R : poly) (ms : list mono) (d d' : dist state) :
    forallb (fun t => mono_in (snd t) ms) R = true ->
    map (fun m => E d (eval_mono m)) ms = map (fun m => E d' (eval_mono m)) ms ->
    E d (eval_poly R) = E d' (eval_poly R).
  Proof.
    intros HR Hm.
    rewrite (E_eval_poly d R), (E_eval_poly d' R).
    induction R as [|[c m] R IH]; [reflexivity|].
    cbn [forallb snd] in HR. apply andb_true_iff in HR; destruct HR as [Hin HR].
    cbn [fold_right fst snd]. rewrite (IH HR). f_equal. f_equal.
    destruct (mono_in_sound _ _ Hin) as [m' [Hm' He]].
    rewrite <- (E_ext d _ _ He), <- (E_ext d' _ _ He).
    exact (ext_in_map Hm m' Hm').
  Qed.

  Lemma step_semantic fp T P W k R :
    check_types fp T = true -> wp_gas cmom T (fp_body fp) P = Some W ->
    (forall s, typed T s -> eval_poly W s = k * eval_poly P s + eval_poly R s) ->
    forall s0, init_ok fp T s0 ->
    forall n, E (frun law fp (S n) s0) (eval_poly P) =
              k * E (frun law fp n s0) (eval_poly P) + E (frun law fp n s0) (eval_poly R).
  Proof.
    intros HT EW HR s0 H0 n.
    cbn [frun]. set (d := frun law fp n s0).
    assert (Hd : forall w s, In (w, s) d -> typed T s).
    { intros w s Hin. eapply check_types_sound; eauto. exists w; exact Hin. }
    pose proof HT as HT'. unfold check_types in HT'. apply andb_true_iff in HT'; destruct HT' as [_ Hb].
    rewrite E_bind.
    rewrite (E_ext_in d _ (fun s => k * eval_poly P s + eval_poly R s)).
    - rewrite E_add, E_cmul. reflexivity.
    - intros w s Hs. unfold fstep.
      rewrite (wp_gas_exact law cmom T (fp_body fp) Hc Hb P W s (Hd w s Hs) EW).
      apply HR. exact (Hd w s Hs).
  Qed.

  Lemma polystep_sound fp T P k R :
    check_types fp T = true -> check_polystep fp T P k R = true ->
    forall s0, init_ok fp T s0 ->
    forall n, E (frun law fp (S n) s0) (eval_poly P) =
              k * E (frun law fp n s0) (eval_poly P) + E (frun law fp n s0) (eval_poly R).
  Proof.
    intros HT H s0 H0 n. unfold check_polystep in H.
    destruct (wp_gas cmom T (fp_body fp) P) as [W|] eqn:EW; [|discriminate].
    apply (step_semantic fp T P W k R HT EW); [|exact H0].
    intros s Hs. rewrite (pequiv_sound T _ _ H s Hs), eval_padd, eval_pscale. reflexivity.
  Qed.

  Theorem check_sim_sound fpO TO fpS TS Q sv k ms A v :
    check_sim fpO TO fpS TS Q sv k ms A v = true ->
    forall s0 s0', init_ok fpO TO s0 -> init_ok fpS TS s0' ->
    forall n,
      E (frun law fpS n s0') (fun s : state => s sv) = E (frun law fpO n s0) (eval_poly Q)
      /\ moments_vec law fpS ms n s0' = moments_vec law fpO ms n s0.
  Proof.
    unfold check_sim. intros H s0 s0' H0 H0' n.
    apply andb_true_iff in H; destruct H as [H H8].
    apply andb_true_iff in H; destruct H as [H H7].
    apply andb_true_iff in H; destruct H as [H H6].
    apply andb_true_iff in H; destruct H as [H H5].
    apply andb_true_iff in H; destruct H as [H H4].
    apply andb_true_iff in H; destruct H as [H H3].
    apply andb_true_iff in H; destruct H as [H1 H2].
    assert (Hms : forall j, moments_vec law fpS ms j s0' = moments_vec law fpO ms j s0).
    { intros j. rewrite (moments_all fpS TS ms A v H2 H4 H6 s0' H0' j),
                        (moments_all fpO TO ms A v H1 H3 H5 s0 H0 j). reflexivity. }
    split; [|apply Hms].
    destruct (wp_gas cmom TO (fp_body fpO) Q) as [W|] eqn:EW; [|discriminate].
    apply andb_true_iff in H7; destruct H7 as [HR HS].
    destruct (init_const fpO Q) as [a|] eqn:Ea; [|discriminate].
    destruct (init_const fpS (pvar sv)) as [b|] eqn:Eb; [|discriminate].
    apply Qc_eqb_true in H8. subst b.
    rewrite (E_ext _ (fun s : state => s sv) (eval_poly (pvar sv))) by (intros s; symmetry; apply eval_pvar).
    set (R := eff_residual TO W Q k) in *.
    induction n as [|n IH].
    - rewrite (init_const_sound fpS _ _ Eb s0'), (init_const_sound fpO _ _ Ea s0). reflexivity.
    - rewrite (polystep_sound fpS TS (pvar sv) k R H2 HS s0' H0' n).
      rewrite (step_semantic fpO TO Q W k R H1 EW (fun s Hs => eval_eff_residual TO W Q k s Hs) s0 H0 n).
      rewrite IH. f_equal.
      apply (E_poly_by_moments R ms); [exact HR|]. apply Hms.
  Qed.

  (* no fresh variable (loop already solvable, or no invariant found): only the retained
     variables' system is compared *)
  Definition check_sys_agree (fpO : flatprog) (TO : tenv) (fpS : flatprog) (TS : tenv)
             (ms : list mono) (A : list (list Qc)) (v : list Qc) : bool :=
    check_types fpO TO && check_types fpS TS
    && check_system cmom fpO TO ms A && check_system cmom fpS TS ms A
    && check_init_vals cmom (fp_init fpO) ms v && check_init_vals cmom (fp_init fpS) ms v.

  Theorem check_sys_agree_sound fpO TO fpS TS ms A v :
    check_sys_agree fpO TO fpS TS ms A v = true ->
    forall s0 s0', init_ok fpO TO s0 -> init_ok fpS TS s0' ->
    forall n, moments_vec law fpS ms n s0' = moments_vec law fpO ms n s0.
  Proof.
    unfold check_sys_agree. intros H s0 s0' H0 H0' n.
    apply andb_true_iff in H; destruct H as [H H6].
    apply andb_true_iff in H; destruct H as [H H5].
    apply andb_true_iff in H; destruct H as [H H4].
    apply andb_true_iff in H; destruct H as [H H3].
    apply andb_true_iff in H; destruct H as [H1 H2].
    rewrite (moments_all fpS TS ms A v H2 H4 H6 s0' H0' n),
            (moments_all fpO TO ms A v H1 H3 H5 s0 H0 n). reflexivity.
  Qed.
End Synth.

(* ---- the discrete instance: no continuous families, hypothesis-free ---- *)
Definition cm0 : string -> list Qc -> nat -> Qc := fun _ _ _ => 0.
Lemma cm0_ok : cmom_ok no_law cm0.
Proof. intros f args k; reflexivity. Qed.

(* moments of the continuous families occurring in the repository's unsolvable benchmarks,
   as specifications (C08 is about these formulas): Normal(mu, sigma2) by the recurrence
   m(k+2) = mu*m(k+1) + (k+1)*sigma2*m(k), Uniform(a, b) = (b^(k+1) - a^(k+1)) / ((k+1)(b-a)) *)
Fixpoint normal_mom (mu s2 : Qc) (k : nat) : Qc * Qc :=
  match k with
  | O => (1, mu)
  | S k' => let ab := normal_mom mu s2 k' in (snd ab, mu * snd ab + qnat (S k') * s2 * fst ab)
  end.
Definition cmom_std (f : string) (args : list Qc) (k : nat) : Qc :=
  if String.eqb f "Normal" then
    match args with [mu; s2] => fst (normal_mom mu s2 k) | _ => 0 end
  else if String.eqb f "Uniform" then
    match args with [a; b] => (qpow b (S k) - qpow a (S k)) / (qnat (S k) * (b - a)) | _ => 0 end
  else 0.
