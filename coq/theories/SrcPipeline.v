(* End-to-end theorem on SOURCE programs: one executable test
   [check_pipeline_src p T ms A v F sp] over the source program, claimed types, Polar's final
   linear system, initial values and closed forms; acceptance implies that the closed forms
   are the exact moments of the SOURCE program under the reference semantics at every n. *)
From Coq Require Import List String QArith Qcanon ZArith Bool Ring Arith Lia.
From Polar Require Import Qcx CRing ExpPoly ClosedForm Dist Syntax Sem Types Poly Pipeline Wp SrcWp.
Import ListNotations.
Local Open Scope Qc_scope.

Section SrcPipe.
  Variable law : string -> list Qc -> dist Qc.
  Variable cmom : string -> list Qc -> nat -> Qc.

  Definition moments_src (p : prog) (ms : list mono) (n : nat) (s0 : state) : list Qc :=
    map (fun m => E (run law p n s0) (eval_mono m)) ms.

  Definition check_types_src (p : prog) (T : tenv) : bool :=
    match init_gas (p_init p) with
    | Some l => check_init T l && check_block_src T (p_body p)
    | None => false
    end.

  Definition init_ok_src (p : prog) (T : tenv) (s0 : state) : Prop :=
    match init_gas (p_init p) with
    | Some l => typed (declared (map ga_var l) T) s0
    | None => False
    end.

  Lemma run_typed p T : check_types_src p T = true ->
    forall s0, init_ok_src p T s0 -> forall n s, supp (run law p n s0) s -> typed T s.
  Proof.
    unfold check_types_src, init_ok_src. intros H s0 H0.
    destruct (init_gas (p_init p)) as [l|] eqn:El; [|discriminate].
    apply andb_true_iff in H; destruct H as [Hi Hb].
    induction n as [|n IH]; cbn [run]; intros s Hs.
    - rewrite (init_gas_exec law _ _ s0 El) in Hs.
      apply (after_init_typed law {| fp_init := l; fp_body := [] |} T s0 s).
      + unfold check_types; cbn [fp_init fp_body forallb]. rewrite Hi. reflexivity.
      + exact H0.
      + exact Hs.
    - apply supp_bind in Hs. destruct Hs as [s1 [H1 H2]]. specialize (IH s1 H1).
      unfold iter in H2. destruct (holds (p_guard p) s1).
      + destruct (check_src_sound law T) as [_ [Hblk _]]. apply (Hblk (p_body p) Hb s1 IH s H2).
      + apply supp_ret in H2; subst; exact IH.
  Qed.

  Definition check_row_src (T : tenv) (p : prog) (ms : list mono) (m : mono) (r : list Qc) : bool :=
    match wp_iter cmom T p [(1, m)] with
    | Some q => pequiv T q (row_poly ms r)
    | None => false
    end.
  Definition check_system_src (p : prog) (T : tenv) (ms : list mono) (A : list (list Qc)) : bool :=
    Nat.eqb (List.length A) (List.length ms)
    && forallb (fun mr => check_row_src T p ms (fst mr) (snd mr)) (combine ms A).

  Definition check_init_vals_src (p : prog) (ms : list mono) (v : list Qc) : bool :=
    match init_gas (p_init p) with
    | Some l => check_init_vals cmom l ms v
    | None => false
    end.

  Lemma moments_src_step p T ms A : cmom_ok law cmom ->
    check_types_src p T = true -> check_system_src p T ms A = true ->
    forall s0, init_ok_src p T s0 ->
    forall n, moments_src p ms (S n) s0 = mvecQ A (moments_src p ms n s0).
  Proof.
    intros Hc HT HS s0 H0 n. unfold moments_src, mvecQ, mvec. cbn [run].
    unfold check_system_src in HS. apply andb_true_iff in HS; destruct HS as [Hlen Hrows].
    apply Nat.eqb_eq in Hlen.
    set (d := run law p n s0).
    assert (Hd : forall w s, In (w, s) d -> typed T s).
    { intros w s Hin. apply (run_typed p T HT s0 H0 n s). exists w; exact Hin. }
    assert (Hbody : check_block_src T (p_body p) = true).
    { unfold check_types_src in HT. destruct (init_gas (p_init p)); [|discriminate].
      apply andb_true_iff in HT; tauto. }
    apply map_combine_eq; [exact Hlen|].
    intros m r Hin. rewrite E_bind.
    rewrite forallb_forall in Hrows. specialize (Hrows (m, r) Hin). cbn [fst snd] in Hrows.
    unfold check_row_src in Hrows. destruct (wp_iter cmom T p [(1, m)]) as [q|] eqn:Eq; [|discriminate].
    rewrite (E_ext_in d _ (fun s => dotQ r (mono_vals ms s))).
    - rewrite (E_ext d _ (fun s => dotQ r (map (fun f => f s) (map eval_mono ms)))).
      + rewrite E_dot, map_map. reflexivity.
      + intros s. rewrite mono_vals_as_map. reflexivity.
    - intros w s Hs. pose proof (Hd w s Hs) as Hts.
      rewrite <- eval_row_poly, <- (pequiv_sound T _ _ Hrows s Hts).
      rewrite <- (wp_iter_exact law cmom T p [(1, m)] q s Hc Hbody Hts Eq).
      apply E_ext. intros s'. symmetry. apply eval_single.
  Qed.

  Definition check_pipeline_src (p : prog) (T : tenv) (ms : list mono) (A : list (list Qc)) (v : list Qc)
             (F : list (epoly Qc_cring)) (sp : list (list Qc)) : bool :=
    check_types_src p T && check_system_src p T ms A && check_init_vals_src p ms v
    && check_solution (R := Qc_cring) A v F sp.

  Theorem check_pipeline_src_sound p T ms A v F sp :
    cmom_ok law cmom -> check_pipeline_src p T ms A v F sp = true ->
    forall s0, init_ok_src p T s0 ->
    forall n, pw_eval (R := Qc_cring) F sp n = moments_src p ms n s0.
  Proof.
    intros Hc H s0 H0 n. unfold check_pipeline_src in H.
    apply andb_true_iff in H; destruct H as [H H4].
    apply andb_true_iff in H; destruct H as [H H3].
    apply andb_true_iff in H; destruct H as [H1 H2].
    rewrite (check_solution_sound Qc_cring _ _ _ _ H4 n).
    assert (Hv : moments_src p ms 0 s0 = v).
    { unfold check_init_vals_src in H3. unfold moments_src. cbn [run].
      destruct (init_gas (p_init p)) as [l|] eqn:El; [|discriminate].
      rewrite (map_ext _ (fun m => E (exec_gas law l s0) (eval_mono m)))
        by (intros m; rewrite (init_gas_exec law _ _ s0 El); reflexivity).
      exact (check_init_vals_sound law cmom {| fp_init := l; fp_body := [] |} ms v Hc H3 s0). }
    rewrite <- Hv. clear Hv H4.
    induction n as [|n IH]; [reflexivity|].
    cbn [iter_mat]. rewrite IH. symmetry. apply (moments_src_step p T ms A Hc H1 H2 s0 H0 n).
  Qed.
End SrcPipe.
