(* C17 — strategy / representation options do not change any reported result.
   Models of the two option-controlled program transformations of Polar
     * inputparser/structure_transformer.py:_transform_categorical   (settings.transform_categoricals)
     * program/transformer/conditions_to_arithm.py:ConditionsToArithm (settings.cond2arithm)
   with preservation theorems under the reference semantics Sem.v for ALL programs / states /
   test functions that do not read the generated variables; the "declared instead of inferred
   types" and "other solver" options as corollaries of the composition theorem
   Wp.check_pipeline_sound / ClosedForm.accepted_agree; the exactness-flag logic of
   utils/expressions.py:get_all_roots / numerify_croots; boolean comparators used by the
   harness to tie the models to what the real passes produce. *)
From Coq Require Import List String QArith Qcanon ZArith Bool Ring Field Arith Lia.
From Polar Require Import Qcx CRing ExpPoly ClosedForm Dist Syntax Sem Types Poly Pipeline Wp PassGuard.
Import ListNotations.
Local Open Scope Qc_scope.

(* ---------------------------------------------------------------------------------------- *)
(* numbers *)
Lemma mkq11 : mkq 1 1 = 1.
Proof. apply Qc_is_canon. reflexivity. Qed.

Lemma qnatS_pos k : 0 < qnat (S k).
Proof.
  induction k as [|k IH].
  - reflexivity.
  - change (qnat (S (S k))) with (qnat (S k) + 1).
    apply Qclt_le_trans with (y := qnat (S k)); [exact IH|].
    rewrite <- (Qcplus_0_r (qnat (S k))) at 1.
    apply Qcplus_le_compat; [apply Qcle_refl | discriminate].
Qed.

Lemma qnat_plus a b : qnat (a + b) = qnat a + qnat b.
Proof.
  induction b as [|b IH]; [rewrite Nat.add_0_r; cbn [qnat]; ring|].
  rewrite Nat.add_succ_r. cbn [qnat]. rewrite IH. ring.
Qed.

Lemma qnat_plus_S_neq i k : qnat (i + S k) <> qnat i.
Proof.
  rewrite qnat_plus. intros H.
  assert (H0 : qnat (S k) = 0).
  { transitivity (qnat i + qnat (S k) - qnat i); [ring | rewrite H; ring]. }
  pose proof (qnatS_pos k) as P. rewrite H0 in P. discriminate P.
Qed.

Lemma qnat_inj i j : qnat i = qnat j -> i = j.
Proof.
  intros H. destruct (Nat.lt_trichotomy i j) as [L|[L|L]]; [|exact L|]; exfalso.
  - replace j with (i + S (j - i - 1))%nat in H by lia. symmetry in H. exact (qnat_plus_S_neq _ _ H).
  - replace i with (j + S (i - j - 1))%nat in H by lia. exact (qnat_plus_S_neq _ _ H).
Qed.

(* ---------------------------------------------------------------------------------------- *)
(* variables read by conditions and right-hand sides; extensionality *)
Fixpoint cvars (c : cond) : list var :=
  match c with
  | CTrue | CFalse => []
  | CAtom a _ b => vars_of a ++ vars_of b
  | CNot c1 => cvars c1
  | CAnd c1 c2 | COr c1 c2 => cvars c1 ++ cvars c2
  end.
Definition dvars (d : draw) : list var :=
  match d with
  | DBern p => vars_of p
  | DCat ps => flat_map vars_of ps
  | DUnif _ _ => []
  | DCont _ args => flat_map vars_of args
  end.
Definition rvars (r : rhs) : list var :=
  match r with
  | RChoice alts => flat_map (fun pe => vars_of (fst pe) ++ vars_of (snd pe)) alts
  | RDraw d => dvars d
  end.

Lemma holds_ext c s s' : (forall x, In x (cvars c) -> s x = s' x) -> holds c s = holds c s'.
Proof.
  induction c as [| |a o b|c1 IH|c1 IH1 c2 IH2|c1 IH1 c2 IH2]; cbn [cvars holds]; intros H; try reflexivity.
  - rewrite (eval_ext a s s'), (eval_ext b s s'); [reflexivity| |]; intros x Hx; apply H; apply in_or_app; auto.
  - rewrite IH by exact H. reflexivity.
  - rewrite IH1, IH2; [reflexivity| |]; intros x Hx; apply H; apply in_or_app; auto.
  - rewrite IH1, IH2; [reflexivity| |]; intros x Hx; apply H; apply in_or_app; auto.
Qed.

Lemma map_eval_ext es s s' :
  (forall x, In x (flat_map vars_of es) -> s x = s' x) -> map (fun e => eval e s) es = map (fun e => eval e s') es.
Proof.
  intros H. apply map_ext_in. intros e He. apply eval_ext. intros x Hx. apply H.
  apply in_flat_map. exists e. split; assumption.
Qed.

Lemma sample_ext law r s s' : (forall x, In x (rvars r) -> s x = s' x) -> sample law r s = sample law r s'.
Proof.
  destruct r as [alts|d]; cbn [rvars sample]; intros H.
  - apply map_ext_in. intros [p e] Hin. cbn [fst snd].
    rewrite (eval_ext p s s'), (eval_ext e s s'); [reflexivity| |];
      intros x Hx; apply H; apply in_flat_map; exists (p, e); (split; [exact Hin|]); cbn [fst snd]; apply in_or_app; auto.
  - destruct d as [p|ps|a b|fam args]; cbn [dvars draw_law] in *.
    + rewrite (eval_ext p s s' H). reflexivity.
    + rewrite (map_eval_ext ps s s' H). reflexivity.
    + reflexivity.
    + rewrite (map_eval_ext args s s' H). reflexivity.
Qed.

Lemma upd_same s x v : upd s x v x = v.
Proof. unfold upd, var_eqb. rewrite String.eqb_refl. reflexivity. Qed.
Lemma upd_other s x v y : y <> x -> upd s x v y = s y.
Proof.
  intros H. unfold upd, var_eqb. destruct (String.eqb y x) eqn:E; [|reflexivity].
  apply String.eqb_eq in E. contradiction.
Qed.

(* states that agree outside a set U of generated names *)
Definition agree_off (U : list var) (a b : state) : Prop := forall y, ~ In y U -> a y = b y.
Lemma agree_refl U a : agree_off U a a.
Proof. intros y _. reflexivity. Qed.
Lemma agree_upd U a b x v : agree_off U a b -> agree_off U (upd a x v) (upd b x v).
Proof. intros H y Hy. unfold upd. destruct (var_eqb y x); [reflexivity | apply H; exact Hy]. Qed.
Lemma agree_upd_in U a u v : In u U -> agree_off U a (upd a u v).
Proof. intros Hu y Hy. rewrite upd_other; [reflexivity|]. intros ->. exact (Hy Hu). Qed.

Section Options.
  Variable law : string -> list Qc -> dist Qc.

  (* ====================================================================================== *)
  (* transform_categoricals:  x = v1 {p1} ... vk {pk}
       becomes   c = Categorical(p1, ..., pk);  if c == 0: x = v1  elif c == 1: x = v2 ... end
     (structure_transformer._transform_categorical; the IfStatem is flagged mutually
     exclusive, which for the pairwise distinct tests c == i is the first-match reading) *)
  Fixpoint cat_branches (x c : var) (vs : list expr) (i : nat) : branches :=
    match vs with
    | [] => BrNil
    | v :: vs' => BrCons (CAtom (EVar c) Ceq (EConst (qnat i))) (BCons (SAssign x (RDet v)) BNil)
                         (cat_branches x c vs' (S i))
    end.
  Definition cat_if (x c : var) (alts : list (expr * expr)) : stmt :=
    SIf (cat_branches x c (map snd alts) 0) BNil.
  Definition cat_expand (x c : var) (alts : list (expr * expr)) : block :=
    BCons (SAssign c (RDraw (DCat (map fst alts)))) (BCons (cat_if x c alts) BNil).

  Lemma E_assign_det x v t (f : state -> Qc) :
    E (exec_block law (BCons (SAssign x (RDet v)) BNil) t) f = f (upd t x (eval v t)).
  Proof.
    cbn [exec_block exec_stmt RDet sample map fst snd eval bind dscale ret app E].
    rewrite mkq11. ring.
  Qed.

  (* the if-chain started at index i, run in a state where c holds the index i + j *)
  Lemma cat_chain x c : forall vs i j t (f : state -> Qc),
    t c = qnat (i + j) ->
    E (exec_stmt law (SIf (cat_branches x c vs i) BNil) t) f =
    match nth_error vs j with Some v => f (upd t x (eval v t)) | None => f t end.
  Proof.
    induction vs as [|v vs IH]; intros i j t f Hc.
    - cbn [cat_branches exec_stmt exec_branches exec_block]. rewrite E_ret. destruct j; reflexivity.
    - cbn [cat_branches exec_stmt exec_branches holds eval cop_holds]. rewrite Hc.
      destruct j as [|j].
      + rewrite Nat.add_0_r, Qc_eqb_refl. cbn [nth_error]. apply E_assign_det.
      + destruct (Qc_eqb_spec (qnat (i + S j)) (qnat i)) as [Heq|Hne].
        * exfalso. exact (qnat_plus_S_neq _ _ Heq).
        * cbn [nth_error]. specialize (IH (S i) j t f).
          cbn [exec_stmt] in IH. apply IH. rewrite Hc. f_equal. lia.
  Qed.

  Theorem catexpand_preserves : forall x c alts s (f : state -> Qc),
    c <> x ->
    (forall p v, In (p, v) alts -> ~ In c (vars_of v)) ->
    (forall a b, (forall y, y <> c -> a y = b y) -> f a = f b) ->
    E (exec_stmt law (SAssign x (RChoice alts)) s) f = E (exec_block law (cat_expand x c alts) s) f.
  Proof.
    intros x c alts s f Hcx Hfresh Hf.
    unfold cat_expand, cat_if. cbn [exec_stmt exec_block]. rewrite !E_bind.
    cbn [sample draw_law].
    (* both sides as sums over the alternatives; generalise to suffixes *)
    assert (G : forall suf pre, alts = pre ++ suf ->
      E (map (fun pe => (eval (fst pe) s, eval (snd pe) s)) suf) (fun v => E (ret (upd s x v)) f) =
      E (cat_law (map (fun e => eval e s) (map fst suf)) (List.length pre))
        (fun k => E (ret (upd s c k))
           (fun t => E (bind (exec_stmt law (SIf (cat_branches x c (map snd alts) 0) BNil) t)
                             (exec_block law BNil)) f))).
    { induction suf as [|[p v] suf IH]; intros pre Hsplit; [reflexivity|].
      cbn [map fst snd cat_law E]. f_equal.
      - rewrite !E_ret, E_bind.
        rewrite (E_ext _ _ f) by (intros a; cbn [exec_block]; apply E_ret).
        rewrite (cat_chain x c (map snd alts) 0 (List.length pre)) by (rewrite upd_same; reflexivity).
        assert (Hn : nth_error (map snd alts) (List.length pre) = Some v).
        { rewrite Hsplit, map_app, nth_error_app2 by (rewrite map_length; lia).
          rewrite map_length, Nat.sub_diag. reflexivity. }
        rewrite Hn.
        assert (Hv : eval v (upd s c (qnat (List.length pre))) = eval v s).
        { apply eval_ext. intros y Hy. apply upd_other. intros ->.
          apply (Hfresh p v); [rewrite Hsplit; apply in_or_app; right; left; reflexivity | exact Hy]. }
        rewrite Hv. f_equal. apply Hf. intros y Hy. unfold upd.
        destruct (var_eqb y x); [reflexivity|].
        destruct (var_eqb y c) eqn:E; [apply String.eqb_eq in E; contradiction | reflexivity].
      - specialize (IH (pre ++ [(p, v)])). rewrite app_length in IH. cbn [List.length] in IH.
        rewrite Nat.add_1_r in IH. apply IH. rewrite <- app_assoc. exact Hsplit. }
    exact (G alts [] eq_refl).
  Qed.
End Options.
