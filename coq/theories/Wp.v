(* C03: weakest pre-expectation of polynomials through flat programs — the model of
   RecBuilder.get_recurrence (backward substitution of guarded assignments, arithmetisation
   of normalised conditions by Lagrange polynomials, power reduction of finitely typed
   variables) — with its exactness theorem on typed states, and the verified validator
   [check_system] that decides whether a linear system (Polar's own) is an exact one-step
   identity of a flat program. *)
From Coq Require Import List String QArith Qcanon ZArith Bool Ring Field Arith Lia.
From Polar Require Import Qcx CRing ExpPoly ClosedForm Dist Syntax Sem Types Poly Pipeline.
Import ListNotations.
Local Open Scope Qc_scope.

Section Wp.
  Variable law : string -> list Qc -> dist Qc.
  (* moments of the continuous families, as used by the analysis; the assumption that they
     are the moments of [law] is the hypothesis [cmom_ok] of the theorems below (C08 is about
     these formulas) *)
  Variable cmom : string -> list Qc -> nat -> Qc.
  Definition cmom_ok : Prop :=
    forall f args k, E (law f args) (fun v => qpow v k) = cmom f args k.

  (* ---- arithmetisation of normalised conditions ---- *)
  Fixpoint lagrange (x : var) (c : Qc) (vs : list Qc) : poly :=
    match vs with
    | [] => pconst 1
    | v :: vs' =>
        if Qc_eqb v c then lagrange x c vs'
        else pmul (pscale (/ (c - v)) (psub (pvar x) (pconst v))) (lagrange x c vs')
    end.

  Lemma lagrange_at_c x c vs s : s x = c -> eval_poly (lagrange x c vs) s = 1.
  Proof.
    intros Hx; induction vs as [|v vs IH]; cbn [lagrange]; [apply eval_pconst|].
    destruct (Qc_eqb_spec v c) as [->|Hne]; [exact IH|].
    rewrite eval_pmul, eval_pscale, eval_psub, eval_pvar, eval_pconst, IH, Hx.
    field. intros H; apply Hne. symmetry. apply Qcminus_eq_0 in H || idtac.
    assert (c = v) by (transitivity (c - v + v); [ring | rewrite H; ring]). congruence.
  Qed.

  Lemma lagrange_off x c vs s : In (s x) vs -> s x <> c -> eval_poly (lagrange x c vs) s = 0.
  Proof.
    intros Hin Hne; induction vs as [|v vs IH]; [destruct Hin|].
    cbn [lagrange]. destruct (Qc_eqb_spec v c) as [->|Hvc].
    - destruct Hin as [Hin|Hin]; [congruence | apply IH; exact Hin].
    - rewrite eval_pmul, eval_pscale, eval_psub, eval_pvar, eval_pconst.
      destruct Hin as [Hin|Hin].
      + subst v. ring.
      + rewrite (IH Hin). ring.
  Qed.

  Lemma mem_false q vs : mem q vs = false -> ~ In q vs.
  Proof.
    induction vs as [|v vs IH]; simpl; intros H Hin; [exact Hin|].
    apply orb_false_iff in H; destruct H as [H1 H2].
    destruct Hin as [Hin|Hin]; [subst; rewrite Qc_eqb_refl in H1; discriminate | exact (IH H2 Hin)].
  Qed.

  Fixpoint arith (T : tenv) (c : cond) : option poly :=
    match c with
    | CTrue => Some (pconst 1)
    | CFalse => Some (pconst 0)
    | CAtom (EVar x) Ceq (EConst q) =>
        match tlookup T x with
        | Some vs => if mem q vs then Some (lagrange x q vs) else Some (pconst 0)
        | None => None
        end
    | CAtom _ _ _ => None
    | CNot c1 => match arith T c1 with Some p => Some (psub (pconst 1) p) | None => None end
    | CAnd c1 c2 =>
        match arith T c1, arith T c2 with Some p, Some q => Some (pmul p q) | _, _ => None end
    | COr c1 c2 =>
        match arith T c1, arith T c2 with
        | Some p, Some q => Some (psub (pconst 1) (pmul (psub (pconst 1) p) (psub (pconst 1) q)))
        | _, _ => None
        end
    end.

  Definition ind (b : bool) : Qc := if b then 1 else 0.

  Theorem arith_sound T s c p : typed T s -> arith T c = Some p -> eval_poly p s = ind (holds c s).
  Proof.
    intros HT; revert p; induction c as [| |a o b|c1 IH|c1 IH1 c2 IH2|c1 IH1 c2 IH2]; cbn [arith]; intros p H.
    - injection H as <-; apply eval_pconst.
    - injection H as <-; apply eval_pconst.
    - destruct a as [|x| | |]; try discriminate. destruct o; try discriminate. destruct b as [q| | | |]; try discriminate.
      destruct (tlookup T x) as [vs|] eqn:Ex; [|discriminate].
      cbn [holds eval cop_holds]. destruct (mem q vs) eqn:Em; injection H as <-.
      + destruct (Qc_eqb_spec (s x) q) as [Heq|Hne]; cbn [ind].
        * apply lagrange_at_c; exact Heq.
        * apply lagrange_off; [apply HT; exact Ex | exact Hne].
      + rewrite eval_pconst. destruct (Qc_eqb_spec (s x) q) as [Heq|Hne]; cbn [ind]; [|reflexivity].
        exfalso. apply (mem_false _ _ Em). rewrite <- Heq. apply HT; exact Ex.
    - destruct (arith T c1) as [p1|]; [|discriminate]. injection H as <-.
      rewrite eval_psub, eval_pconst, (IH p1 eq_refl). cbn [holds]. destruct (holds c1 s); simpl; ring.
    - destruct (arith T c1) as [p1|]; [|discriminate]. destruct (arith T c2) as [p2|]; [|discriminate].
      injection H as <-. rewrite eval_pmul, (IH1 p1 eq_refl), (IH2 p2 eq_refl). cbn [holds].
      destruct (holds c1 s), (holds c2 s); simpl; ring.
    - destruct (arith T c1) as [p1|]; [|discriminate]. destruct (arith T c2) as [p2|]; [|discriminate].
      injection H as <-. rewrite eval_psub, eval_pmul, !eval_psub, eval_pconst, (IH1 p1 eq_refl), (IH2 p2 eq_refl).
      cbn [holds]. destruct (holds c1 s), (holds c2 s); simpl; ring.
  Qed.

  (* ---- k-th moment of a right-hand side as a polynomial of the pre-state ---- *)
  Fixpoint choice_moment (alts : list (expr * expr)) (k : nat) : poly :=
    match alts with
    | [] => []
    | (p, e) :: alts' => padd (pmul (of_expr p) (ppow (of_expr e) k)) (choice_moment alts' k)
    end.
  Fixpoint cat_moment (ps : list expr) (i : nat) (k : nat) : poly :=
    match ps with
    | [] => []
    | p :: ps' => padd (pscale (qpow (qnat i) k) (of_expr p)) (cat_moment ps' (S i) k)
    end.
  Definition closed (e : expr) : bool := match vars_of e with [] => true | _ => false end.

  Definition rhs_moment (r : rhs) (k : nat) : option poly :=
    match r with
    | RChoice alts => Some (choice_moment alts k)
    | RDraw (DBern p) =>
        Some (padd (pscale (qpow 1 k) (of_expr p)) (pscale (qpow 0 k) (psub (pconst 1) (of_expr p))))
    | RDraw (DCat ps) => Some (cat_moment ps 0 k)
    | RDraw (DUnif a b) =>
        let n := Z.to_nat (b - a + 1) in
        Some (pconst (E (unif_law (/ qnat n) a n) (fun v => qpow v k)))
    | RDraw (DCont f args) =>
        if forallb closed args then Some (pconst (cmom f (map (fun e => eval e st0) args) k)) else None
    end.

  Lemma closed_eval e s s' : closed e = true -> eval e s = eval e s'.
  Proof.
    unfold closed; intros H. apply eval_ext. destruct (vars_of e); [intros x []|discriminate].
  Qed.

  Lemma cat_law_moment ps i k s :
    E (cat_law (map (fun e => eval e s) ps) i) (fun v => qpow v k) = eval_poly (cat_moment ps i k) s.
  Proof.
    revert i; induction ps as [|p ps IH]; intros i; cbn [map cat_law cat_moment E]; [reflexivity|].
    rewrite eval_padd, eval_pscale, eval_of_expr, IH. ring.
  Qed.

  Theorem rhs_moment_sound r k p s : cmom_ok -> rhs_moment r k = Some p ->
    E (sample law r s) (fun v => qpow v k) = eval_poly p s.
  Proof.
    intros Hc H. destruct r as [alts|d]; cbn [rhs_moment sample] in *.
    - inversion H; subst; clear H. induction alts as [|[pe e] alts IH]; cbn [map E choice_moment]; [reflexivity|].
      rewrite eval_padd, eval_pmul, eval_ppow, !eval_of_expr, IH. simpl. ring.
    - destruct d as [pe|ps|a b|f args]; cbn [draw_law] in *.
      + inversion H; subst. cbn [E]. rewrite eval_padd, !eval_pscale, eval_psub, eval_pconst, eval_of_expr. ring.
      + inversion H; subst. apply cat_law_moment.
      + inversion H; subst. rewrite eval_pconst. reflexivity.
      + destruct (forallb closed args) eqn:Ecl; [|discriminate]. inversion H; subst.
        rewrite eval_pconst, <- Hc. f_equal. f_equal.
        apply map_ext_in. intros e He. rewrite forallb_forall in Ecl. apply closed_eval. apply Ecl; exact He.
  Qed.

  (* ---- total weight of a right-hand side ---- *)
  Fixpoint sum_consts (es : list expr) : Qc :=
    match es with [] => 0 | e :: es' => eval e st0 + sum_consts es' end.
  Definition mass_oneb (r : rhs) : bool :=
    match r with
    | RChoice alts => forallb (fun pe => closed (fst pe)) alts && Qc_eqb (sum_consts (map fst alts)) 1
    | RDraw (DBern _) => true
    | RDraw (DCat ps) => forallb closed ps && Qc_eqb (sum_consts ps) 1
    | RDraw (DUnif a b) =>
        let n := Z.to_nat (b - a + 1) in Qc_eqb (E (unif_law (/ qnat n) a n) (fun _ => 1)) 1
    | RDraw (DCont f args) =>
        forallb closed args && Qc_eqb (cmom f (map (fun e => eval e st0) args) 0) 1
    end.

  Lemma cat_law_mass ps i s :
    forallb closed ps = true ->
    E (cat_law (map (fun e => eval e s) ps) i) (fun _ => 1) = sum_consts ps.
  Proof.
    revert i; induction ps as [|p ps IH]; intros i Hc; cbn [map cat_law E sum_consts forallb] in *; [reflexivity|].
    apply andb_true_iff in Hc; destruct Hc as [Hp Hps].
    rewrite (IH (S i) Hps), (closed_eval p s st0 Hp). ring.
  Qed.

  Lemma mass_oneb_sound r s : cmom_ok -> mass_oneb r = true -> E (sample law r s) (fun _ => 1) = 1.
  Proof.
    intros Hc H. destruct r as [alts|d]; cbn [mass_oneb sample] in *.
    - apply andb_true_iff in H; destruct H as [Hcl Hs]. apply Qc_eqb_true in Hs.
      transitivity (sum_consts (map fst alts)); [|exact Hs]. clear Hs.
      induction alts as [|[pe e] alts IH]; cbn [map E sum_consts forallb fst] in *; [reflexivity|].
      apply andb_true_iff in Hcl; destruct Hcl as [Hp Hps].
      rewrite (IH Hps), (closed_eval pe s st0 Hp). simpl. ring.
    - destruct d as [pe|ps|a b|f args]; cbn [draw_law] in *.
      + cbn [E]. ring.
      + apply andb_true_iff in H; destruct H as [Hcl Hs]. apply Qc_eqb_true in Hs.
        rewrite cat_law_mass by exact Hcl. exact Hs.
      + apply Qc_eqb_true in H. exact H.
      + apply andb_true_iff in H; destruct H as [Hcl Hs]. apply Qc_eqb_true in Hs.
        transitivity (cmom f (map (fun e => eval e st0) args) 0); [|exact Hs].
        rewrite <- Hc. change (fun _ : Qc => 1) with (fun v : Qc => qpow v 0).
        f_equal. f_equal. apply map_ext_in. intros e He.
        rewrite forallb_forall in Hcl. apply closed_eval. apply Hcl; exact He.
  Qed.

  (* ---- one guarded assignment, one term ---- *)
  Definition wp_term (T : tenv) (g : gassign) (t : Qc * mono) : option poly :=
    let x := ga_var g in
    let k := mdeg x (snd t) in
    if Nat.eqb k 0 && mass_oneb (ga_rhs g) then Some [t]
    else
      match arith T (ga_cond g), rhs_moment (ga_rhs g) k with
      | Some a, Some mom =>
          Some (pmul (padd (pmul a mom) (pmul (psub (pconst 1) a) (ppow (pvar (ga_default g)) k)))
                     [(fst t, mrest x (snd t))])
      | _, _ => None
      end.

  Fixpoint wp_ga (T : tenv) (g : gassign) (p : poly) : option poly :=
    match p with
    | [] => Some []
    | t :: p' =>
        match wp_term T g t, wp_ga T g p' with
        | Some q, Some q' => Some (padd q q') | _, _ => None
        end
    end.

  Lemma E_exec_ga_mono T g s c m :
    cmom_ok -> typed T s ->
    forall q, wp_term T g (c, m) = Some q ->
    E (exec_ga law g s) (fun s' => c * eval_mono m s') = eval_poly q s.
  Proof.
    intros Hc HT q H. unfold wp_term in H. cbn [fst snd] in H.
    destruct (Nat.eqb (mdeg (ga_var g) m) 0 && mass_oneb (ga_rhs g)) eqn:Eb.
    - apply andb_true_iff in Eb; destruct Eb as [Ek Hm]. apply Nat.eqb_eq in Ek.
      injection H as <-. cbn [eval_poly].
      unfold exec_ga. destruct (holds (ga_cond g) s).
      + rewrite E_bind. rewrite (E_ext _ _ (fun _ => c * eval_mono m s)).
        * rewrite E_const. unfold mass. rewrite (mass_oneb_sound _ s Hc Hm). ring.
        * intros v. rewrite E_ret, (eval_mono_upd (ga_var g)), Ek.
          rewrite (eval_mono_split (ga_var g) m s), Ek. simpl. ring.
      + rewrite E_ret, (eval_mono_upd (ga_var g)), Ek, (eval_mono_split (ga_var g) m s), Ek. simpl. ring.
    - clear Eb. set (k := mdeg (ga_var g) m) in *.
      destruct (arith T (ga_cond g)) as [a|] eqn:Ea; [|discriminate].
      destruct (rhs_moment (ga_rhs g) k) as [mom|] eqn:Em; [|discriminate].
      injection H as <-.
      rewrite eval_pmul, eval_padd, !eval_pmul, eval_psub, eval_pconst, eval_ppow, eval_pvar.
      rewrite (arith_sound T s _ _ HT Ea). cbn [eval_poly fst snd].
      rewrite <- (rhs_moment_sound _ _ _ s Hc Em).
      unfold exec_ga. destruct (holds (ga_cond g) s); cbn [ind].
      + rewrite E_bind.
        rewrite (E_ext _ _ (fun v => (c * eval_mono (mrest (ga_var g) m) s) * qpow v k)).
        * rewrite E_cmul. ring.
        * intros v. rewrite E_ret, (eval_mono_upd (ga_var g)). fold k. ring.
      + rewrite E_ret, (eval_mono_upd (ga_var g)). fold k. ring.
  Qed.

  Theorem wp_ga_exact T g s p q :
    cmom_ok -> typed T s -> wp_ga T g p = Some q ->
    E (exec_ga law g s) (eval_poly p) = eval_poly q s.
  Proof.
    intros Hc HT; revert q; induction p as [|[c m] p IH]; cbn [wp_ga]; intros q H.
    - injection H as <-. cbn [eval_poly]. apply E_zero.
    - destruct (wp_term T g (c, m)) as [q1|] eqn:E1; [|discriminate].
      destruct (wp_ga T g p) as [q2|] eqn:E2; [|discriminate].
      injection H as <-. rewrite eval_padd. cbn [eval_poly].
      rewrite E_add, (IH q2 eq_refl). f_equal.
      apply (E_exec_ga_mono T g s c m Hc HT q1 E1).
  Qed.

  (* ---- a list of guarded assignments, backwards; intermediate results are reduced modulo
     the types and cleaned, which preserves the value on typed states ---- *)
  Definition ptidy (T : tenv) (p : poly) : poly := pclean (preduce T p).

  Lemma eval_filter_nz (l : poly) s :
    eval_poly (filter (fun t : Qc * mono => negb (Qc_eqb (fst t) 0)) l) s = eval_poly l s.
  Proof.
    induction l as [|[c m] l IH]; cbn [filter eval_poly fst]; [reflexivity|].
    destruct (Qc_eqb_spec c 0) as [->|Hne]; cbn [negb eval_poly]; rewrite IH; ring.
  Qed.
  Lemma eval_pclean p s : eval_poly (pclean p) s = eval_poly p s.
  Proof. unfold pclean. rewrite eval_filter_nz. apply eval_pnorm. Qed.
  Lemma eval_ptidy T p s : typed T s -> eval_poly (ptidy T p) s = eval_poly p s.
  Proof. intros HT. unfold ptidy. rewrite eval_pclean, eval_preduce by exact HT. reflexivity. Qed.

  Fixpoint wp_gas (T : tenv) (l : list gassign) (p : poly) : option poly :=
    match l with
    | [] => Some (ptidy T p)
    | g :: l' =>
        match wp_gas T l' p with
        | Some q => match wp_ga T g q with Some q' => Some (ptidy T q') | None => None end
        | None => None
        end
    end.

  Theorem wp_gas_exact T l : cmom_ok -> forallb (check_ga T) l = true ->
    forall p q s, typed T s -> wp_gas T l p = Some q ->
    E (exec_gas law l s) (eval_poly p) = eval_poly q s.
  Proof.
    intros Hc; induction l as [|g l IH]; cbn [forallb wp_gas exec_gas]; intros Hck p q s HT H.
    - injection H as <-. rewrite E_ret, eval_ptidy by exact HT. reflexivity.
    - apply andb_true_iff in Hck; destruct Hck as [Hg Hl].
      destruct (wp_gas T l p) as [q1|] eqn:E1; [|discriminate].
      destruct (wp_ga T g q1) as [q2|] eqn:E2; [|discriminate].
      injection H as <-. rewrite eval_ptidy by exact HT.
      rewrite E_bind. rewrite <- (wp_ga_exact T g s q1 q2 Hc HT E2).
      apply E_ext_in. intros w s1 Hin.
      apply (IH Hl p q1 s1); [|exact E1].
      eapply check_ga_sound; eauto. exists w; exact Hin.
  Qed.

  (* ---- the validator for a whole system ---- *)
  Fixpoint row_poly (ms : list mono) (r : list Qc) : poly :=
    match r, ms with c :: r', m :: ms' => (c, m) :: row_poly ms' r' | _, _ => [] end.
  Lemma eval_row_poly ms r s : eval_poly (row_poly ms r) s = dotQ r (mono_vals ms s).
  Proof.
    revert ms; induction r as [|c r IH]; intros [|m ms]; cbn [row_poly eval_poly]; try reflexivity.
    rewrite IH. reflexivity.
  Qed.

  Definition check_row (T : tenv) (body : list gassign) (ms : list mono) (m : mono) (r : list Qc) : bool :=
    match wp_gas T body [(1, m)] with
    | Some q => pequiv T q (row_poly ms r)
    | None => false
    end.
  Definition check_system (fp : flatprog) (T : tenv) (ms : list mono) (A : list (list Qc)) : bool :=
    Nat.eqb (List.length A) (List.length ms)
    && forallb (fun mr => check_row T (fp_body fp) ms (fst mr) (snd mr)) (combine ms A).

  Lemma eval_single m s : eval_poly [(1, m)] s = eval_mono m s.
  Proof. cbn [eval_poly]. ring. Qed.

  Theorem check_system_sound fp T ms A :
    cmom_ok -> check_types fp T = true -> check_system fp T ms A = true ->
    one_step_exact law fp T ms A.
  Proof.
    intros Hc HT H. unfold check_system in H. apply andb_true_iff in H; destruct H as [Hlen Hrows].
    apply Nat.eqb_eq in Hlen. split; [exact Hlen|].
    intros s Hs m r Hin. rewrite forallb_forall in Hrows. specialize (Hrows (m, r) Hin). cbn [fst snd] in Hrows.
    unfold check_row in Hrows. destruct (wp_gas T (fp_body fp) [(1, m)]) as [q|] eqn:Eq; [|discriminate].
    unfold check_types in HT. apply andb_true_iff in HT; destruct HT as [_ Hb].
    unfold fstep. rewrite <- eval_row_poly, <- (pequiv_sound T _ _ Hrows s Hs).
    rewrite <- (wp_gas_exact T (fp_body fp) Hc Hb [(1, m)] q s Hs Eq).
    apply E_ext. intros s'. symmetry. apply eval_single.
  Qed.

  (* ---- initial values: the moments before the first iteration ---- *)
  Definition check_init_val (init : list gassign) (m : mono) (v : Qc) : bool :=
    match wp_gas [] init [(1, m)] with
    | Some q => pequiv [] q (pconst v)
    | None => false
    end.
  Fixpoint check_init_vals (init : list gassign) (ms : list mono) (v : list Qc) : bool :=
    match ms, v with
    | [], [] => true
    | m :: ms', x :: v' => check_init_val init m x && check_init_vals init ms' v'
    | _, _ => false
    end.

  Lemma typed_nil s : typed [] s.
  Proof. intros x vs H; discriminate H. Qed.
  Lemma check_ga_nil l : forallb (check_ga []) l = true.
  Proof. induction l as [|g l IH]; cbn [forallb]; [reflexivity|]. rewrite IH. reflexivity. Qed.

  Theorem check_init_vals_sound fp ms v :
    cmom_ok -> check_init_vals (fp_init fp) ms v = true ->
    forall s0, moments_vec law fp ms 0 s0 = v.
  Proof.
    intros Hc; revert v; induction ms as [|m ms IH]; intros [|x v]; cbn [check_init_vals]; intros H s0; try discriminate.
    - reflexivity.
    - apply andb_true_iff in H; destruct H as [H1 H2].
      unfold moments_vec in *. cbn [map frun]. f_equal; [|apply (IH v H2 s0)].
      unfold check_init_val in H1. destruct (wp_gas [] (fp_init fp) [(1, m)]) as [q|] eqn:Eq; [|discriminate].
      rewrite (E_ext _ _ (eval_poly [(1, m)])) by (intros s'; symmetry; apply eval_single).
      rewrite (wp_gas_exact [] (fp_init fp) Hc (check_ga_nil _) [(1, m)] q s0 (typed_nil s0) Eq).
      rewrite (pequiv_sound [] _ _ H1 s0 (typed_nil s0)). apply eval_pconst.
  Qed.

  (* ---- everything together: one executable test for Polar's whole output on a flat program ---- *)
  Definition check_pipeline (fp : flatprog) (T : tenv) (ms : list mono) (A : list (list Qc)) (v : list Qc)
             (F : list (epoly Qc_cring)) (sp : list (list Qc)) : bool :=
    check_types fp T && check_system fp T ms A && check_init_vals (fp_init fp) ms v
    && check_solution (R := Qc_cring) A v F sp.

  Theorem check_pipeline_sound fp T ms A v F sp :
    cmom_ok -> check_pipeline fp T ms A v F sp = true ->
    forall s0, init_ok fp T s0 ->
    forall n, pw_eval (R := Qc_cring) F sp n = moments_vec law fp ms n s0.
  Proof.
    intros Hc H s0 H0 n. unfold check_pipeline in H.
    apply andb_true_iff in H; destruct H as [H H4].
    apply andb_true_iff in H; destruct H as [H H3].
    apply andb_true_iff in H; destruct H as [H1 H2].
    apply (pipeline_flat_sound law fp T ms A F sp H1 (check_system_sound fp T ms A Hc H1 H2) s0 H0).
    rewrite (check_init_vals_sound fp ms v Hc H3 s0). exact H4.
  Qed.
End Wp.
