(* C08 — vocabulary shared by the translated distribution code (gen/DistGen.v), the
   hand-written specifications and the proofs: finite sums over Qc, literal pmfs, supports
   with infinite endpoints, factorial / rising factorial in Qc, and the "moments of mu + Y"
   operator [shift] with the lemmas that turn recurrences of central moments into
   recurrences of raw moments. *)
From Coq Require Import List QArith Qcanon ZArith Lia Bool Arith Field.
From Polar Require Import Qcx.
Import ListNotations.
Local Open Scope Qc_scope.

(* ---------- numbers ---------- *)
Definition qz (z : Z) : Qc := mkq z 1.
Definition qabs (x : Qc) : Qc := if Qc_ltb x 0 then - x else x.

Fixpoint qfact (n : nat) : Qc := match n with O => 1 | S m => qnat (S m) * qfact m end.
(* x (x+1) ... (x+n-1) *)
Fixpoint rising (x : Qc) (n : nat) : Qc := match n with O => 1 | S m => rising x m * (x + qnat m) end.

Lemma qnat_S n : qnat (S n) = qnat n + 1.
Proof. reflexivity. Qed.

Lemma qnat_nonneg n : 0 <= qnat n.
Proof.
  induction n as [|n IH]; [apply Qcle_refl|].
  rewrite qnat_S. replace 0 with (0 + 0) by ring.
  apply Qcplus_le_compat; [exact IH | discriminate].
Qed.

Lemma qnat_S_pos n : 0 < qnat (S n).
Proof.
  rewrite qnat_S. apply Qclt_le_trans with (y := 0 + 1).
  - reflexivity.
  - apply Qcplus_le_compat; [apply qnat_nonneg | apply Qcle_refl].
Qed.

Lemma qnat_S_neq0 n : qnat (S n) <> 0.
Proof. intros H. pose proof (qnat_S_pos n) as P. rewrite H in P. discriminate P. Qed.

Lemma qnat_add a b : qnat (a + b) = qnat a + qnat b.
Proof. induction b as [|b IH]; [rewrite Nat.add_0_r; cbn [qnat]; ring|]. rewrite Nat.add_succ_r. cbn [qnat]. rewrite IH. ring. Qed.

Lemma qnat_mul a b : qnat (a * b) = qnat a * qnat b.
Proof. induction a as [|a IH]; [cbn; ring|]. cbn [Nat.mul]. rewrite qnat_add, IH. cbn [qnat]. ring. Qed.

Lemma qfact_neq0 n : qfact n <> 0.
Proof.
  induction n as [|n IH]; [discriminate|].
  cbn [qfact]. intros H. apply Qcmult_integral in H. destruct H as [H|H]; [exact (qnat_S_neq0 n H) | exact (IH H)].
Qed.

Lemma qfact_fact n : qfact n = qnat (fact n).
Proof. induction n as [|n IH]; [reflexivity|]. cbn [qfact]. rewrite IH. change (fact (S n)) with (S n * fact n)%nat. rewrite qnat_mul. reflexivity. Qed.

Lemma qpow_0_S k : qpow 0 (S k) = 0.
Proof. cbn [qpow]. ring. Qed.
Lemma qpow_1 k : qpow 1 k = 1.
Proof. induction k as [|k IH]; [reflexivity|]. cbn [qpow]. rewrite IH. ring. Qed.
Lemma qpow_add x a b : qpow x (a + b) = qpow x a * qpow x b.
Proof. induction a as [|a IH]; cbn [qpow Nat.add]; [ring|]. rewrite IH. ring. Qed.
Lemma qpow_mul x y k : qpow (x * y) k = qpow x k * qpow y k.
Proof. induction k as [|k IH]; cbn [qpow]; [ring|]. rewrite IH. ring. Qed.
Lemma qpow_neq0 x k : x <> 0 -> qpow x k <> 0.
Proof.
  intros Hx. induction k as [|k IH]; [discriminate|]. cbn [qpow]. intros H.
  apply Qcmult_integral in H. destruct H; auto.
Qed.

(* ---------- finite sums, literal pmfs ---------- *)
Definition qsum (l : list Qc) : Qc := fold_right Qcplus 0 l.

Lemma qsum_nil : qsum [] = 0.
Proof. reflexivity. Qed.
Lemma qsum_cons x l : qsum (x :: l) = x + qsum l.
Proof. reflexivity. Qed.
Lemma qsum_app l1 l2 : qsum (l1 ++ l2) = qsum l1 + qsum l2.
Proof. induction l1 as [|x l IH]; [rewrite qsum_nil; cbn [app]; ring|]. cbn [app]. rewrite !qsum_cons, IH. ring. Qed.

(* the shape produced by translating  `m = a; for x in l: m += f(x)` *)
Lemma fold_left_add_sum {A} (f : A -> Qc) (l : list A) (a : Qc) :
  fold_left (fun m x => m + f x) l a = a + qsum (map f l).
Proof.
  revert a. induction l as [|x l IH]; intros a; cbn [fold_left map]; [rewrite qsum_nil; ring|].
  rewrite IH, qsum_cons. ring.
Qed.

Lemma fold_left_acc_sum {A} (g : Qc -> A -> Qc) (f : A -> Qc) (l : list A) (a : Qc) :
  (forall m x, g m x = m + f x) -> fold_left g l a = a + qsum (map f l).
Proof.
  intros E. revert a. induction l as [|x l IH]; intros a; cbn [fold_left map]; [rewrite qsum_nil; ring|].
  rewrite IH, qsum_cons, E. ring.
Qed.

(* a finite law given literally: list of (probability, value) *)
Definition pmf := list (Qc * Qc).
Definition pmf_moment (d : pmf) (k : nat) : Qc := qsum (map (fun pv => fst pv * qpow (snd pv) k) d).
Definition pmf_total (d : pmf) : Qc := qsum (map fst d).
Definition pmf_values (d : pmf) : list Qc := map snd d.

Lemma pmf_moment_0 d : pmf_moment d 0 = pmf_total d.
Proof.
  unfold pmf_moment, pmf_total. induction d as [|[p v] d IH]; [reflexivity|].
  cbn [map]. rewrite !qsum_cons, IH. cbn [fst snd qpow]. ring.
Qed.

(* Python's enumerate / range *)
Definition enumerate {A} (l : list A) : list (nat * A) := combine (seq 0 (length l)) l.
Definition zrange (a b : Z) : list Z := map (fun i => (a + Z.of_nat i)%Z) (seq 0 (Z.to_nat (b - a))).

Lemma zrange_length a b : length (zrange a b) = Z.to_nat (b - a).
Proof. unfold zrange. rewrite map_length, seq_length. reflexivity. Qed.

Lemma in_zrange a b z : In z (zrange a b) <-> (a <= z < b)%Z.
Proof.
  unfold zrange. rewrite in_map_iff. split.
  - intros [i [E Hi]]. apply in_seq in Hi. lia.
  - intros H. exists (Z.to_nat (z - a)). split; [lia|]. apply in_seq. lia.
Qed.

(* ---------- supports ---------- *)
Inductive ext := NegInf | Fin (q : Qc) | PosInf.
Inductive sitem := SPoint (q : Qc) | SIv (lo hi : ext).

Definition ext_le (x y : ext) : Prop :=
  match x, y with
  | NegInf, _ => True
  | _, PosInf => True
  | Fin a, Fin b => a <= b
  | _, _ => False
  end.

Definition in_item (x : Qc) (s : sitem) : Prop :=
  match s with
  | SPoint q => x = q
  | SIv lo hi => ext_le lo (Fin x) /\ ext_le (Fin x) hi
  end.

Definition in_support (x : Qc) (S : list sitem) : Prop := exists s, In s S /\ in_item x s.

(* boolean comparison of declared supports as sets (used by the correspondence cases) *)
Definition ext_eqb (x y : ext) : bool :=
  match x, y with
  | NegInf, NegInf => true | PosInf, PosInf => true
  | Fin a, Fin b => Qc_eqb a b | _, _ => false
  end.
Definition sitem_eqb (x y : sitem) : bool :=
  match x, y with
  | SPoint a, SPoint b => Qc_eqb a b
  | SIv a b, SIv c d => ext_eqb a c && ext_eqb b d
  | _, _ => false
  end.
Definition support_eqb (l1 l2 : list sitem) : bool :=
  forallb (fun x => existsb (sitem_eqb x) l2) l1 && forallb (fun x => existsb (sitem_eqb x) l1) l2.

(* ---------- moments of mu + Y from the moments c of Y ----------
   [shift mu c k] is L((mu + y)^k) for the linear functional L(y^j) = c j, computed by
   expanding one factor:  (mu+y)^(k+1) = mu (mu+y)^k + (mu+y)^k y,  and  L(p(y) y) is the
   functional with moments c (j+1).  [shift_binomial] shows it is the binomial sum. *)
Fixpoint shift (mu : Qc) (c : nat -> Qc) (k : nat) : Qc :=
  match k with
  | O => c O
  | S k' => mu * shift mu c k' + shift mu (fun j => c (S j)) k'
  end.

Lemma shift_ext mu c c' k : (forall j, c j = c' j) -> shift mu c k = shift mu c' k.
Proof.
  revert c c'. induction k as [|k IH]; intros c c' E; cbn [shift]; [apply E|].
  rewrite (IH c c' E). rewrite (IH (fun j => c (S j)) (fun j => c' (S j))); [reflexivity|]. intros j; apply E.
Qed.

Lemma shift_add mu c d k : shift mu (fun j => c j + d j) k = shift mu c k + shift mu d k.
Proof. revert c d. induction k as [|k IH]; intros c d; cbn [shift]; [reflexivity|]. rewrite !IH. ring. Qed.

Lemma shift_scale mu a c k : shift mu (fun j => a * c j) k = a * shift mu c k.
Proof. revert c. induction k as [|k IH]; intros c; cbn [shift]; [reflexivity|]. rewrite !IH. ring. Qed.

Lemma shift_zero_loc c k : shift 0 c k = c k.
Proof. revert c. induction k as [|k IH]; intros c; cbn [shift]; [reflexivity|]. rewrite (IH (fun j => c (S j))). ring. Qed.

(* the functional "evaluate at 0": moments 1,0,0,...  gives  mu^k *)
Definition delta0 (j : nat) : Qc := match j with O => 1 | S _ => 0 end.
Lemma shift_zero_fun mu k : shift mu (fun _ => 0) k = 0.
Proof. induction k as [|k IH]; cbn [shift]; [reflexivity|]. rewrite IH. ring. Qed.
Lemma shift_delta0 mu k : shift mu delta0 k = qpow mu k.
Proof.
  induction k as [|k IH]; cbn [shift qpow]; [reflexivity|]. rewrite IH.
  rewrite (shift_ext mu (fun j => delta0 (S j)) (fun _ => 0)); [|reflexivity]. rewrite shift_zero_fun. ring.
Qed.

(* "derivative" lemma: the sequence j |-> j * d (j-1) (moments of  y |-> d/dy ) shifts to
   k * shift d (k-1) *)
Definition dseq (d : nat -> Qc) (j : nat) : Qc := match j with O => 0 | S i => qnat (S i) * d i end.

Lemma shift_dseq mu d k : shift mu (dseq d) (S k) = qnat (S k) * shift mu d k.
Proof.
  revert d. induction k as [|k IH]; intros d.
  - cbn [shift dseq qnat]. ring.
  - change (shift mu (dseq d) (S (S k))) with (mu * shift mu (dseq d) (S k) + shift mu (fun j => dseq d (S j)) (S k)).
    rewrite IH.
    rewrite (shift_ext mu (fun j => dseq d (S j)) (fun j => dseq (fun i => d (S i)) j + d j)).
    2:{ intros [|j]; cbn [dseq qnat]; ring. }
    rewrite shift_add, IH.
    change (shift mu d (S k)) with (mu * shift mu d k + shift mu (fun j => d (S j)) k).
    rewrite (qnat_S (S k)). ring.
Qed.

Lemma shift_dseq_0 mu d : shift mu (dseq d) 0 = 0.
Proof. reflexivity. Qed.

(* binomial coefficients in Qc (Pascal's rule as definition) and the binomial form of shift *)
Fixpoint qbinom (n k : nat) : Qc :=
  match n, k with
  | _, O => 1
  | O, S _ => 0
  | S n', S k' => qbinom n' k' + qbinom n' (S k')
  end.

(* sum_{j < n} f j *)
Fixpoint sumn (f : nat -> Qc) (n : nat) : Qc := match n with O => 0 | S m => sumn f m + f m end.

Lemma sumn_ext f g n : (forall j, (j < n)%nat -> f j = g j) -> sumn f n = sumn g n.
Proof. induction n as [|n IH]; intros E; cbn [sumn]; [reflexivity|]. rewrite IH, E; auto. Qed.
Lemma sumn_add f g n : sumn (fun j => f j + g j) n = sumn f n + sumn g n.
Proof. induction n as [|n IH]; cbn [sumn]; [ring|]. rewrite IH. ring. Qed.
Lemma sumn_scale a f n : sumn (fun j => a * f j) n = a * sumn f n.
Proof. induction n as [|n IH]; cbn [sumn]; [ring|]. rewrite IH. ring. Qed.
Lemma sumn_shift f n : sumn f (S n) = f O + sumn (fun j => f (S j)) n.
Proof. induction n as [|n IH]; [cbn [sumn]; ring|]. change (sumn f (S (S n))) with (sumn f (S n) + f (S n)). rewrite IH. cbn [sumn]. ring. Qed.

Lemma qbinom_gt n k : (n < k)%nat -> qbinom n k = 0.
Proof.
  revert k. induction n as [|n IH]; intros [|k] H; try lia; [reflexivity|].
  cbn [qbinom]. rewrite !IH by lia. ring.
Qed.
Lemma qbinom_diag n : qbinom n n = 1.
Proof. induction n as [|n IH]; [reflexivity|]. cbn [qbinom]. rewrite IH, qbinom_gt by lia. ring. Qed.

(* binomial sum  sum_{j<=k} C(k,j) mu^(k-j) c_j *)
Definition binsum (mu : Qc) (c : nat -> Qc) (k : nat) : Qc :=
  sumn (fun j => qbinom k j * qpow mu (k - j) * c j) (S k).

Lemma binsum_step mu c k : binsum mu c (S k) = mu * binsum mu c k + binsum mu (fun j => c (S j)) k.
Proof.
  unfold binsum.
  rewrite (sumn_shift (fun j => qbinom (S k) j * qpow mu (S k - j) * c j) (S k)).
  rewrite (sumn_ext (fun j => qbinom (S k) (S j) * qpow mu (S k - S j) * c (S j))
                    (fun j => qbinom k j * qpow mu (k - j) * c (S j) + qbinom k (S j) * qpow mu (k - j) * c (S j)) (S k)).
  2:{ intros j _. cbn [qbinom Nat.sub]. ring. }
  rewrite sumn_add.
  assert (E : sumn (fun j => qbinom k (S j) * qpow mu (k - j) * c (S j)) (S k)
              = mu * sumn (fun j => qbinom k j * qpow mu (k - j) * c j) (S k) - qpow mu (S k) * c O).
  { rewrite (sumn_shift (fun j => qbinom k j * qpow mu (k - j) * c j) k).
    change (sumn (fun j => qbinom k (S j) * qpow mu (k - j) * c (S j)) (S k))
      with (sumn (fun j => qbinom k (S j) * qpow mu (k - j) * c (S j)) k + qbinom k (S k) * qpow mu (k - k) * c (S k)).
    rewrite (qbinom_gt k (S k)) by lia. rewrite Nat.sub_0_r.
    replace (qbinom k 0) with 1 by (destruct k; reflexivity).
    rewrite (sumn_ext (fun j => qbinom k (S j) * qpow mu (k - j) * c (S j))
                      (fun j => mu * (qbinom k (S j) * qpow mu (k - S j) * c (S j))) k).
    2:{ intros j Hj. replace (k - j)%nat with (S (k - S j)) by lia. cbn [qpow]. ring. }
    rewrite sumn_scale. cbn [qpow]. ring. }
  rewrite E. replace (qbinom (S k) 0) with 1 by reflexivity. rewrite Nat.sub_0_r. cbn [qpow]. ring.
Qed.

Lemma shift_binomial mu c k : shift mu c k = binsum mu c k.
Proof.
  revert c. induction k as [|k IH]; intros c.
  - unfold binsum. cbn [shift sumn qbinom qpow Nat.sub]. ring.
  - rewrite binsum_step. cbn [shift]. rewrite !IH. reflexivity.
Qed.

(* ---------- quadratic-time evaluation of [shift] (Pascal-triangle iteration on a list) ---------- *)
Fixpoint tstep (mu : Qc) (l : list Qc) : list Qc :=
  match l with
  | a :: t => match t with b :: _ => (mu * a + b) :: tstep mu t | [] => [] end
  | [] => []
  end.
Fixpoint titer (mu : Qc) (n : nat) (l : list Qc) : list Qc :=
  match n with O => l | S n' => titer mu n' (tstep mu l) end.
Definition shift_fast (mu : Qc) (c : nat -> Qc) (k : nat) : Qc := hd 0 (titer mu k (map c (seq 0 (S k)))).

Lemma tstep_map mu (f : nat -> Qc) s n :
  tstep mu (map f (seq s (S (S n)))) = map (fun j => mu * f j + f (S j)) (seq s (S n)).
Proof.
  revert s. induction n as [|n IH]; intros s; [reflexivity|].
  change (seq s (S (S (S n)))) with (s :: seq (S s) (S (S n))).
  change (map f (s :: seq (S s) (S (S n)))) with (f s :: map f (seq (S s) (S (S n)))).
  change (seq s (S (S n))) with (s :: seq (S s) (S n)).
  cbn [map]. rewrite <- IH. reflexivity.
Qed.

Lemma titer_spec mu i : forall (G : nat -> nat -> Qc) n,
  (forall i j, G (S i) j = mu * G i j + G i (S j)) ->
  titer mu i (map (G O) (seq 0 (i + S n))) = map (G i) (seq 0 (S n)).
Proof.
  induction i as [|i IH]; intros G n HG; [reflexivity|].
  cbn [titer]. replace (S i + S n)%nat with (S (S (i + n))) by lia.
  rewrite tstep_map.
  rewrite (map_ext (fun j => mu * G O j + G O (S j)) (G 1%nat)) by (intros j; symmetry; apply HG).
  replace (S (i + n)) with (i + S n)%nat by lia.
  apply (IH (fun a j => G (S a) j) n). intros a j. apply HG.
Qed.

Lemma shift_fast_eq mu c k : shift_fast mu c k = shift mu c k.
Proof.
  unfold shift_fast.
  pose (G := fun (i j : nat) => shift mu (fun t => c (j + t)%nat) i).
  assert (HG : forall i j, G (S i) j = mu * G i j + G i (S j)).
  { intros i j. unfold G. cbn [shift]. f_equal. apply shift_ext. intros t. f_equal. lia. }
  pose proof (titer_spec mu k G 0 HG) as E.
  replace (k + 1)%nat with (S k) in E by lia.
  rewrite (map_ext c (G O)) by (intros j; unfold G; cbn [shift]; f_equal; lia).
  rewrite E. cbn [seq map hd]. unfold G. apply shift_ext. intros t. reflexivity.
Qed.
