(* C02, third pass: IfTransformer (program/transformer/if_transformer.py, driven bottom-up by
   TreeTransformer in transformer.py).  Functional model that reproduces the OUTPUT SYNTAX of
   the Python, including the effect of the shared condition objects:

     if c0: B0 elif c1: B1 ... [else: Bm]      (the Bi already flattened, inner ifs first)
   becomes
     _old<k> = x                for every x occurring in some ci and assigned in some Bi, in the
                                order in which the Python meets the assignments (global counter)
     Bi with every condition c replaced by  simplify(c /\ extra_i)
   where  extra_i = simplify((True /\ ~c0 /\ ... /\ ~c(i-1)) /\ ci)  renamed as follows: atoms of ci
   that are not below a Not get the rename map as it stands after branch i; atoms below a Not
   (all negated earlier conditions, and everything under a user-written `!`) are objects shared
   with the later branches (Not._simple_copy does not copy its child) and end up renamed with the
   FINAL map.  `mutually_exclusive` statements (categorical expansion by the parser) use ci alone;
   their flag is not part of Syntax.stmt and is recognised by shape ([mutex_shape]). *)
From Coq Require Import List String Ascii QArith Qcanon ZArith Bool Arith Lia DecimalString DecimalNat NArith.
From Polar Require Import Qcx Dist Syntax Sem.
Import ListNotations.
Local Open Scope string_scope.
Local Open Scope list_scope.

(* ---- generated names: utils.get_unique_var(name="old") = "_old" + str(counter) ---- *)
Definition old_name (k : nat) : var := ("_old" ++ NilEmpty.string_of_uint (Nat.to_uint k))%string.
Definition is_gen (x : var) : bool := prefix "_old" x.

(* ---- variables ---- *)
Fixpoint evars (e : expr) : list var :=
  match e with
  | EConst _ => []
  | EVar x => [x]
  | EAdd a b => evars a ++ evars b
  | EMul a b => evars a ++ evars b
  | EPow a _ => evars a
  end.
Fixpoint cvars (c : cond) : list var :=
  match c with
  | CTrue => [] | CFalse => []
  | CAtom a _ b => evars a ++ evars b
  | CNot c => cvars c
  | CAnd a b => cvars a ++ cvars b
  | COr a b => cvars a ++ cvars b
  end.
Definition draw_vars (d : draw) : list var :=
  match d with
  | DBern p => evars p
  | DCat ps => flat_map evars ps
  | DUnif _ _ => []
  | DCont _ args => flat_map evars args
  end.
Definition rhs_vars (r : rhs) : list var :=
  match r with
  | RChoice alts => flat_map (fun pe => evars (fst pe) ++ evars (snd pe)) alts
  | RDraw d => draw_vars d
  end.
Fixpoint stmt_vars (st : stmt) : list var :=
  match st with
  | SAssign x r => x :: rhs_vars r
  | SSimult l => flat_map (fun xr => fst xr :: rhs_vars (snd xr)) l
  | SIf bs els => branches_vars bs ++ block_vars els
  end
with block_vars (b : block) : list var :=
  match b with BNil => [] | BCons st b' => stmt_vars st ++ block_vars b' end
with branches_vars (bs : branches) : list var :=
  match bs with BrNil => [] | BrCons c b bs' => cvars c ++ block_vars b ++ branches_vars bs' end.

Definition mem (x : var) (l : list var) : bool := existsb (var_eqb x) l.

(* well-formedness: no variable of the input looks like a name this pass generates *)
Definition wf_vars (l : list var) : bool := forallb (fun x => negb (is_gen x)) l.
Definition wf_block (b : block) : bool := wf_vars (block_vars b).

(* ---- rename maps, in creation order ---- *)
Definition rmap := list (var * var).
Fixpoint rlookup (R : rmap) (x : var) : option var :=
  match R with [] => None | (y, o) :: R' => if var_eqb x y then Some o else rlookup R' x end.
Definition rn (R : rmap) (x : var) : var := match rlookup R x with Some o => o | None => x end.

Fixpoint rename_e (R : rmap) (e : expr) : expr :=
  match e with
  | EConst q => EConst q
  | EVar x => EVar (rn R x)
  | EAdd a b => EAdd (rename_e R a) (rename_e R b)
  | EMul a b => EMul (rename_e R a) (rename_e R b)
  | EPow a k => EPow (rename_e R a) k
  end.
(* atoms not below a Not are renamed with R, everything below a Not with Rf *)
Fixpoint rename_c (R Rf : rmap) (c : cond) : cond :=
  match c with
  | CTrue => CTrue | CFalse => CFalse
  | CAtom a o b => CAtom (rename_e R a) o (rename_e R b)
  | CNot c' => CNot (rename_c Rf Rf c')
  | CAnd a b => CAnd (rename_c R Rf a) (rename_c R Rf b)
  | COr a b => COr (rename_c R Rf a) (rename_c R Rf b)
  end.

(* Condition.simplify(): And drops literal True conjuncts, Or drops literal False disjuncts *)
Definition mk_and (a b : cond) : cond :=
  match a, b with CTrue, _ => b | _, CTrue => a | _, _ => CAnd a b end.
Definition mk_or (a b : cond) : cond :=
  match a, b with CFalse, _ => b | _, CFalse => a | _, _ => COr a b end.
Fixpoint csimp (c : cond) : cond :=
  match c with
  | CAnd a b => mk_and (csimp a) (csimp b)
  | COr a b => mk_or (csimp a) (csimp b)
  | CNot a => CNot (csimp a)
  | _ => c
  end.

Definition gvars (l : list gassign) : list var := map ga_var l.

(* assign.add_to_condition(extra); assign.simplify_condition() *)
Definition strengthen (extra : cond) (g : gassign) : gassign :=
  {| ga_var := ga_var g; ga_cond := csimp (CAnd (ga_cond g) extra);
     ga_default := ga_default g; ga_rhs := ga_rhs g |}.

(* PolyAssignment.deterministic(new_var, orig_var) *)
Definition copy_ga (xo : var * var) : gassign :=
  {| ga_var := snd xo; ga_cond := CTrue; ga_default := snd xo; ga_rhs := RDet (EVar (fst xo)) |}.

(* the loop over the assignments of one branch that extends rename_subs *)
Fixpoint extend (CS : list var) (l : list gassign) (R : rmap) (k : nat) : rmap * nat :=
  match l with
  | [] => (R, k)
  | g :: l' =>
      if mem (ga_var g) CS && negb (mem (ga_var g) (map fst R))
      then extend CS l' (R ++ [(ga_var g, old_name k)]) (S k)
      else extend CS l' R k
  end.

Definition fbranch := (cond * list gassign)%type.

(* rename_subs after the last branch *)
Fixpoint final_R (CS : list var) (brs : list fbranch) (R : rmap) (k : nat) : rmap * nat :=
  match brs with
  | [] => (R, k)
  | cl :: brs' => let '(R', k') := extend CS (snd cl) R k in final_R CS brs' R' k'
  end.

(* the loop over the branches; NP = not_previous *)
Fixpoint emit (mx : bool) (CS : list var) (Rf : rmap) (NP : cond) (brs : list fbranch) (R : rmap) (k : nat)
  : list gassign :=
  match brs with
  | [] => []
  | cl :: brs' =>
      let '(R', k') := extend CS (snd cl) R k in
      let cur := if mx then fst cl else CAnd NP (fst cl) in
      let extra := rename_c R' (if mx then R' else Rf) (csimp cur) in
      map (strengthen extra) (snd cl) ++ emit mx CS Rf (CAnd NP (CNot (fst cl))) brs' R' k'
  end.

Definition flatten_if (mx : bool) (brs : list fbranch) (k : nat) : list gassign * nat :=
  let CS := flat_map (fun cl => cvars (fst cl)) brs in
  let '(Rf, kf) := final_R CS brs [] k in
  (map copy_ga Rf ++ emit mx CS Rf CTrue brs [] k, kf).

(* ---- the mutually_exclusive flag, recognised by the shape the parser produces:
        if _c<k> == 0: .. elif _c<k> == 1: .. (no else), constants pairwise different ---- *)
Fixpoint br_conds (bs : branches) : list cond :=
  match bs with BrNil => [] | BrCons c _ bs' => c :: br_conds bs' end.
Definition atom_const (x : var) (c : cond) : option Qc :=
  match c with
  | CAtom (EVar y) Ceq (EConst q) => if var_eqb x y then Some q else None
  | _ => None
  end.
Fixpoint atom_consts (x : var) (cs : list cond) : option (list Qc) :=
  match cs with
  | [] => Some []
  | c :: cs' => match atom_const x c, atom_consts x cs' with
                | Some q, Some qs => Some (q :: qs)
                | _, _ => None
                end
  end.
Fixpoint distinctb (qs : list Qc) : bool :=
  match qs with [] => true | q :: qs' => negb (existsb (Qc_eqb q) qs') && distinctb qs' end.
Definition mutex_conds (cs : list cond) : bool :=
  match cs with
  | CAtom (EVar x) Ceq (EConst _) :: _ =>
      prefix "_c" x && match atom_consts x cs with Some qs => distinctb qs | None => false end
  | _ => false
  end.
Definition mutex_shape (bs : branches) (els : block) : bool :=
  match els with BNil => mutex_conds (br_conds bs) | _ => false end.

(* ---- TreeTransformer: children first, left to right, then the statement itself ---- *)
Fixpoint fl_stmt (k : nat) (st : stmt) : option (list gassign * nat) :=
  match st with
  | SAssign x r => Some ([{| ga_var := x; ga_cond := CTrue; ga_default := x; ga_rhs := r |}], k)
  | SSimult _ => None
  | SIf bs els =>
      match fl_branches k bs with
      | None => None
      | Some (brs, k1) =>
          match fl_block k1 els with
          | None => None
          | Some (le, k2) =>
              let brs' := match els with BNil => brs | _ => brs ++ [(CTrue, le)] end in
              Some (flatten_if (mutex_shape bs els) brs' k2)
          end
      end
  end
with fl_block (k : nat) (b : block) : option (list gassign * nat) :=
  match b with
  | BNil => Some ([], k)
  | BCons st b' =>
      match fl_stmt k st with
      | None => None
      | Some (l1, k1) =>
          match fl_block k1 b' with
          | None => None
          | Some (l2, k2) => Some (l1 ++ l2, k2)
          end
      end
  end
with fl_branches (k : nat) (bs : branches) : option (list fbranch * nat) :=
  match bs with
  | BrNil => Some ([], k)
  | BrCons c b bs' =>
      match fl_block k b with
      | None => None
      | Some (l, k1) =>
          match fl_branches k1 bs' with
          | None => None
          | Some (brs, k2) => Some ((c, l) :: brs, k2)
          end
      end
  end.

Definition if_flatten_old (k : nat) (b : block) : option (list gassign * nat) := fl_block k b.

(* Program.children = ["initial", "loop_body"]; at this stage LoopGuardTransformer has made the
   guard literally true *)
Definition if_flatten_prog_old (k : nat) (p : prog) : option (flatprog * nat) :=
  match p_guard p with
  | CTrue =>
      match if_flatten_old k (p_init p) with
      | None => None
      | Some (li, k1) =>
          match if_flatten_old k1 (p_body p) with
          | None => None
          | Some (lb, k2) => Some ({| fp_init := li; fp_body := lb |}, k2)
          end
      end
  | _ => None
  end.
Definition wf_prog (p : prog) : bool := wf_block (p_init p) && wf_block (p_body p).

(* ================= the rule of proposed_fixes/c18_auxiliary_assignments_unconditional.diff =================
   Assignments flagged `auxiliary` (the _old<k> copies of IfTransformer, the _t<k> temporaries of
   simultaneous assignments, the _c<k> draws of expanded categoricals) are skipped when a branch
   condition is distributed: they stay unconditional.  The flag is not part of Syntax; the model
   recognises the generated names. *)
Definition is_digit (a : ascii) : bool :=
  let n := N_of_ascii a in (N.leb 48 n && N.leb n 57)%N.
Fixpoint all_digits (s : string) : bool :=
  match s with EmptyString => true | String a s' => is_digit a && all_digits s' end.
Fixpoint strip (p x : string) : option string :=
  match p with
  | EmptyString => Some x
  | String a p' => match x with String b x' => if Ascii.eqb a b then strip p' x' else None | EmptyString => None end
  end.
Definition tagged (p x : string) : bool :=
  match strip p x with Some (String a r) => all_digits (String a r) | _ => false end.
Definition is_aux (x : var) : bool := is_gen x || tagged "_t" x || tagged "_c" x.

Definition strengthen_n (extra : cond) (g : gassign) : gassign :=
  if is_aux (ga_var g) then g else strengthen extra g.

Fixpoint emit_n (mx : bool) (CS : list var) (Rf : rmap) (NP : cond) (brs : list fbranch) (R : rmap) (k : nat)
  : list gassign :=
  match brs with
  | [] => []
  | cl :: brs' =>
      let '(R', k') := extend CS (snd cl) R k in
      let cur := if mx then fst cl else CAnd NP (fst cl) in
      let extra := rename_c R' (if mx then R' else Rf) (csimp cur) in
      map (strengthen_n extra) (snd cl) ++ emit_n mx CS Rf (CAnd NP (CNot (fst cl))) brs' R' k'
  end.

Definition flatten_if_n (mx : bool) (brs : list fbranch) (k : nat) : list gassign * nat :=
  let CS := flat_map (fun cl => cvars (fst cl)) brs in
  let '(Rf, kf) := final_R CS brs [] k in
  (map copy_ga Rf ++ emit_n mx CS Rf CTrue brs [] k, kf).

Fixpoint fln_stmt (k : nat) (st : stmt) : option (list gassign * nat) :=
  match st with
  | SAssign x r => Some ([{| ga_var := x; ga_cond := CTrue; ga_default := x; ga_rhs := r |}], k)
  | SSimult _ => None
  | SIf bs els =>
      match fln_branches k bs with
      | None => None
      | Some (brs, k1) =>
          match fln_block k1 els with
          | None => None
          | Some (le, k2) =>
              let brs' := match els with BNil => brs | _ => brs ++ [(CTrue, le)] end in
              Some (flatten_if_n (mutex_shape bs els) brs' k2)
          end
      end
  end
with fln_block (k : nat) (b : block) : option (list gassign * nat) :=
  match b with
  | BNil => Some ([], k)
  | BCons st b' =>
      match fln_stmt k st with
      | None => None
      | Some (l1, k1) =>
          match fln_block k1 b' with
          | None => None
          | Some (l2, k2) => Some (l1 ++ l2, k2)
          end
      end
  end
with fln_branches (k : nat) (bs : branches) : option (list fbranch * nat) :=
  match bs with
  | BrNil => Some ([], k)
  | BrCons c b bs' =>
      match fln_block k b with
      | None => None
      | Some (l, k1) =>
          match fln_branches k1 bs' with
          | None => None
          | Some (brs, k2) => Some ((c, l) :: brs, k2)
          end
      end
  end.

Definition if_flatten (k : nat) (b : block) : option (list gassign * nat) := fln_block k b.
Definition if_flatten_prog (k : nat) (p : prog) : option (flatprog * nat) :=
  match p_guard p with
  | CTrue =>
      match if_flatten k (p_init p) with
      | None => None
      | Some (li, k1) =>
          match if_flatten k1 (p_body p) with
          | None => None
          | Some (lb, k2) => Some ({| fp_init := li; fp_body := lb |}, k2)
          end
      end
  | _ => None
  end.

(* ---- hypotheses of the theorem for the new rule ---- *)
Fixpoint assigned_stmt (st : stmt) : list var :=
  match st with
  | SAssign x _ => [x]
  | SSimult l => map fst l
  | SIf bs els => assigned_branches bs ++ assigned_block els
  end
with assigned_block (b : block) : list var :=
  match b with BNil => [] | BCons st b' => assigned_stmt st ++ assigned_block b' end
with assigned_branches (bs : branches) : list var :=
  match bs with BrNil => [] | BrCons _ b bs' => assigned_block b ++ assigned_branches bs' end.

(* auxiliaries are defined before they are read, in every iteration and on every path: Lv is the
   list of auxiliary variables that currently hold the same value in the source run and in the
   flattened run; an if-statement forgets those that one of its branches assigns *)
Definition readable (Lv : list var) (x : var) : bool := negb (is_aux x) || mem x Lv.
Definition is_some {A} (o : option A) : bool := match o with Some _ => true | None => false end.
Fixpoint lv_stmt (Lv : list var) (st : stmt) : option (list var) :=
  match st with
  | SAssign x r => if forallb (readable Lv) (rhs_vars r) then Some (if is_aux x then x :: Lv else Lv) else None
  | SSimult _ => None
  | SIf bs els =>
      let Lv0 := filter (fun x => negb (mem x (assigned_branches bs ++ assigned_block els))) Lv in
      if forallb (readable Lv) (flat_map cvars (br_conds bs)) && lvb_branches Lv0 bs && is_some (lv_block Lv0 els)
      then Some Lv0 else None
  end
with lv_block (Lv : list var) (b : block) : option (list var) :=
  match b with
  | BNil => Some Lv
  | BCons st b' => match lv_stmt Lv st with Some Lv1 => lv_block Lv1 b' | None => None end
  end
with lvb_branches (Lv0 : list var) (bs : branches) : bool :=
  match bs with
  | BrNil => true
  | BrCons _ b bs' => is_some (lv_block Lv0 b) && lvb_branches Lv0 bs'
  end.
Definition live_ok (b : block) : bool := is_some (lv_block [] b).

(* the mutex flags of all if-statements in the order the transformer meets them (post-order) *)
Fixpoint flags_stmt (st : stmt) : list bool :=
  match st with
  | SIf bs els => flags_branches bs ++ flags_block els ++ [mutex_shape bs els]
  | _ => []
  end
with flags_block (b : block) : list bool :=
  match b with BNil => [] | BCons st b' => flags_stmt st ++ flags_block b' end
with flags_branches (bs : branches) : list bool :=
  match bs with BrNil => [] | BrCons _ b bs' => flags_block b ++ flags_branches bs' end.

(* the example of DESIGN.md: if a==0: y=1 elif b==0: y=2 else: a=5 end *)
Definition q0 : Qc := mkq 0 1.
Definition ex_if : block :=
  BCons (SIf (BrCons (CAtom (EVar "a") Ceq (EConst q0)) (BCons (SAssign "y" (RDet (EConst (mkq 1 1)))) BNil)
             (BrCons (CAtom (EVar "b") Ceq (EConst q0)) (BCons (SAssign "y" (RDet (EConst (mkq 2 1)))) BNil)
              BrNil))
            (BCons (SAssign "a" (RDet (EConst (mkq 5 1)))) BNil)) BNil.
