(* C15 — properties of the CPT assembly of BayesNet.v (model of bayesnet/transformer.py):
     assemble_wf          an accepted network is well formed and all its rows pass sum_valid
     check_vars_wf        the variable table built by check_vars has distinct names and
                          duplicate-free non-empty domains
     cpt_notations_agree  table notation, per-entry notation, and either of them after a
                          completely overwritten default (or entries after a full table)
                          denote the same CPT. *)
From Coq Require Import String Ascii Arith Bool QArith Qcanon Lia List Permutation.
From Polar Require Import Qcx BayesNet BayesNetSem BayesNetSpec.
Import ListNotations.
Open Scope nat_scope.

(* ------------------------------------------------------------------ generic helpers *)
Lemma guard_true b : guard b = Some tt -> b = true.
Proof. destruct b; [reflexivity | discriminate]. Qed.

Lemma omap_spec {A B} (f : A -> option B) : forall l l',
  omap f l = Some l' ->
  length l' = length l /\
  forall i b, nth_error l' i = Some b -> exists a, nth_error l i = Some a /\ f a = Some b.
Proof.
  induction l as [|a l IH]; intros l' H; cbn [omap] in H.
  - injection H as <-. split; [reflexivity|]. intros [|i] b Hb; discriminate.
  - destruct (f a) as [b0|] eqn:Ea; cbn [obind] in H; [|discriminate].
    destruct (omap f l) as [bs|] eqn:El; cbn [obind] in H; [|discriminate].
    injection H as <-. destruct (IH bs eq_refl) as [IHl IHn].
    split; [cbn [length]; now rewrite IHl|].
    intros [|i] b Hb; cbn [nth_error] in *.
    + injection Hb as <-. exists a. auto.
    + apply IHn, Hb.
Qed.

Lemma omap_in {A B} (f : A -> option B) : forall l l' b,
  omap f l = Some l' -> In b l' -> exists a, In a l /\ f a = Some b.
Proof.
  intros l l' b H Hin. apply In_nth_error in Hin as [i Hi].
  destruct (omap_spec f l l' H) as [_ Hn]. destruct (Hn i b Hi) as [a [Ha Hf]].
  exists a. split; [eapply nth_error_In; eauto | exact Hf].
Qed.

Lemma nth_error_seq0 n x i : nth_error (seq 0 n) x = Some i -> i = x /\ x < n.
Proof.
  intros H. assert (Hlt : x < n).
  { rewrite <- (seq_length n 0). apply nth_error_Some. congruence. }
  split; [|exact Hlt]. apply (nth_error_nth _ _ 0) in H. rewrite seq_nth in H by exact Hlt. lia.
Qed.

Lemma NoDup_app_intro {A} (l1 l2 : list A) :
  NoDup l1 -> NoDup l2 -> (forall x, In x l1 -> ~ In x l2) -> NoDup (l1 ++ l2).
Proof.
  induction l1 as [|a l1 IH]; intros H1 H2 H; cbn [app]; [exact H2|].
  inversion H1 as [|? ? Ha H1']; subst. constructor.
  - rewrite in_app_iff. intros [Hi|Hi]; [exact (Ha Hi)|]. apply (H a); [now left|exact Hi].
  - apply IH; auto. intros x Hx. apply H. now right.
Qed.

Lemma NoDup_map_inj_in {A B} (f : A -> B) : forall l,
  (forall x y, In x l -> In y l -> f x = f y -> x = y) -> NoDup l -> NoDup (map f l).
Proof.
  induction l as [|a l IH]; intros Hinj Hnd; cbn [map]; [constructor|].
  inversion Hnd as [|? ? Ha Hnd']; subst. constructor.
  - intros Hin. apply in_map_iff in Hin as [y [Hy Hyl]].
    assert (y = a) by (apply Hinj; [now right | now left | exact Hy]). subst. exact (Ha Hyl).
  - apply IH; [|exact Hnd']. intros x y Hx Hy. apply Hinj; now right.
Qed.

Lemma NoDup_flat_map {A B} (f : A -> list B) : forall l,
  NoDup l -> (forall x, In x l -> NoDup (f x)) ->
  (forall x y z, In x l -> In y l -> In z (f x) -> In z (f y) -> x = y) ->
  NoDup (flat_map f l).
Proof.
  induction l as [|a l IH]; intros Hnd Hf Hdisj; cbn [flat_map]; [constructor|].
  inversion Hnd as [|? ? Ha Hnd']; subst. apply NoDup_app_intro.
  - apply Hf. now left.
  - apply IH; [exact Hnd' | intros; apply Hf; now right |].
    intros x y z Hx Hy. apply Hdisj; now right.
  - intros z Hz Hz'. apply in_flat_map in Hz' as [y [Hy Hzy]].
    assert (a = y) by (apply (Hdisj a y z); [now left | now right | exact Hz | exact Hzy]).
    subst. exact (Ha Hy).
Qed.

(* ------------------------------------------------------------------ product *)
Lemma in_product {A} : forall (ls : list (list A)) key,
  In key (product ls) <-> Forall2 (fun k l => In k l) key ls.
Proof.
  induction ls as [|l rest IH]; intros key; cbn [product].
  - split.
    + intros [<-|[]]. constructor.
    + intros H. inversion H. now left.
  - rewrite in_flat_map. split.
    + intros [x [Hx Hk]]. apply in_map_iff in Hk as [k' [<- Hk']].
      constructor; [exact Hx | now apply IH].
    + intros H. inversion H as [|k l0 key' rest0 Hk Hrest]; subst.
      exists k. split; [exact Hk|]. apply in_map_iff. exists key'. split; [reflexivity | now apply IH].
Qed.

Lemma NoDup_product {A} : forall (ls : list (list A)),
  (forall l, In l ls -> NoDup l) -> NoDup (product ls).
Proof.
  induction ls as [|l rest IH]; intros H; cbn [product].
  - constructor; [intros [] | constructor].
  - apply NoDup_flat_map.
    + apply H. now left.
    + intros x _. apply NoDup_map_inj_in.
      * intros a b _ _ E. now injection E.
      * apply IH. intros l0 Hl0. apply H. now right.
    + intros x y z _ _ Hx Hy.
      apply in_map_iff in Hx as [zx [<- _]]. apply in_map_iff in Hy as [zy [E _]]. now injection E.
Qed.

Lemma cpt_keys_NoDup vars pars : NoDup (cpt_keys vars pars).
Proof.
  unfold cpt_keys. apply NoDup_product. intros l Hl.
  apply in_map_iff in Hl as [p [<- _]]. apply seq_NoDup.
Qed.

Lemma cpt_keys_in vars pars key :
  In key (cpt_keys vars pars) -> Forall2 (fun k p => k < dsize vars p) key pars.
Proof.
  unfold cpt_keys. rewrite in_product. revert key.
  induction pars as [|p pars IH]; intros key H; cbn [map] in H; inversion H; subst; constructor.
  - match goal with Hi : In _ (seq _ _) |- _ => apply in_seq in Hi; lia end.
  - apply IH. assumption.
Qed.

(* ------------------------------------------------------------------ strings, variable table *)
Lemma mem_str_In x l : mem_str x l = true <-> In x l.
Proof.
  induction l as [|y l IH]; cbn [mem_str In]; [split; [discriminate | tauto]|].
  rewrite orb_true_iff, IH, String.eqb_eq. split; (intros [H|H]; [left; now symmetry | now right]).
Qed.

Lemma nodup_str_NoDup l : nodup_str l = true -> NoDup l.
Proof.
  induction l as [|y l IH]; cbn [nodup_str]; intros H; [constructor|].
  apply andb_true_iff in H as [Hm Hn]. constructor; [|now apply IH].
  intros Hin. apply mem_str_In in Hin. rewrite Hin in Hm. discriminate.
Qed.

Lemma check_vardecl_ok v nd : check_vardecl v = Some nd -> NoDup (snd nd) /\ snd nd <> [].
Proof.
  unfold check_vardecl. destruct (vd_types v) as [|[n dom] [|? ?]]; try discriminate.
  destruct (nodup_str dom) eqn:End; cbn [guard obind]; [|discriminate].
  destruct (Nat.eqb n (length dom)); cbn [guard obind]; [|discriminate].
  destruct (Nat.eqb (length dom) 0) eqn:El; cbn [negb guard obind]; [discriminate|].
  intros H; injection H as <-. cbn [snd]. split; [now apply nodup_str_NoDup|].
  intros ->. discriminate.
Qed.

Lemma find_var_lt : forall vars x i, find_var vars x = Some i -> i < length vars.
Proof.
  induction vars as [|[y dy] vars IH]; intros x i H; cbn [find_var] in H; [discriminate|].
  destruct (String.eqb x y).
  - injection H as <-. cbn [length]. lia.
  - destruct (find_var vars x) as [j|] eqn:E; cbn [option_map] in H; [|discriminate].
    injection H as <-. cbn [length]. specialize (IH x j E). lia.
Qed.

Lemma find_var_None : forall vars x, find_var vars x = None -> ~ In x (map fst vars).
Proof.
  induction vars as [|[y dy] vars IH]; intros x H; cbn [find_var] in H; [intros []|].
  destruct (String.eqb x y) eqn:E; [discriminate|].
  destruct (find_var vars x) eqn:E'; cbn [option_map] in H; [discriminate|].
  cbn [map fst In]. intros [Hy|Hin]; [|exact (IH x E' Hin)].
  subst. rewrite String.eqb_refl in E. discriminate.
Qed.

Definition wf_vtable (vars : vtable) : Prop :=
  NoDup (map fst vars) /\ forall n d, In (n, d) vars -> NoDup d /\ d <> [].

Lemma check_vars_wf_gen : forall vs acc vars,
  check_vars vs acc = Some vars -> wf_vtable acc -> wf_vtable vars.
Proof.
  induction vs as [|v vs IH]; intros acc vars H Hacc; cbn [check_vars] in H.
  - now injection H as <-.
  - destruct (check_vardecl v) as [nd|] eqn:Ev; cbn [obind] in H; [|discriminate].
    destruct (find_var acc (fst nd)) eqn:Ef; [discriminate|].
    apply (IH _ _ H). destruct Hacc as [Hn Hd]. split.
    + rewrite map_app. cbn [map]. apply Permutation_NoDup with (l := fst nd :: map fst acc).
      * apply Permutation_cons_append.
      * constructor; [now apply find_var_None | exact Hn].
    + intros n d Hin. apply in_app_iff in Hin as [Hin|[Hin|[]]]; [now apply (Hd n)|].
      subst nd. apply (check_vardecl_ok _ _ Ev).
Qed.

Theorem check_vars_wf vs vars : check_vars vs [] = Some vars -> wf_vtable vars.
Proof.
  intros H. apply (check_vars_wf_gen _ _ _ H). split; [constructor | intros n d []].
Qed.

Lemma dom_of_NoDup vars p : wf_vtable vars -> NoDup (dom_of vars p).
Proof.
  intros [_ Hd]. unfold dom_of. destruct (Nat.lt_ge_cases p (length vars)) as [Hlt|Hge].
  - pose proof (nth_In vars (""%string, []) Hlt) as Hin.
    destruct (nth p vars (""%string, [])) as [n d]. apply (Hd n d Hin).
  - rewrite nth_overflow by exact Hge. constructor.
Qed.

Lemma dom_of_nonempty vars p : wf_vtable vars -> p < length vars -> 1 <= dsize vars p.
Proof.
  intros [_ Hd] Hlt. unfold dsize, dom_of.
  pose proof (nth_In vars (""%string, []) Hlt) as Hin.
  destruct (nth p vars (""%string, [])) as [n d]. cbn [snd].
  destruct (Hd n d Hin) as [_ Hne]. destruct d; [congruence | cbn [length]; lia].
Qed.

(* ------------------------------------------------------------------ working CPTs *)
Lemma cpt_set_fst key r c : map fst (cpt_set key r c) = map fst c.
Proof.
  unfold cpt_set. rewrite map_map. apply map_ext. intros kv.
  destruct (key_eqb (fst kv) key); reflexivity.
Qed.

Lemma cpt_set_in key r c k r' :
  In (k, Some r') (cpt_set key r c) -> r' = r \/ In (k, Some r') c.
Proof.
  unfold cpt_set. intros H. apply in_map_iff in H as [kv [E Hin]].
  destruct (key_eqb (fst kv) key).
  - injection E as _ E. now left.
  - subst. now right.
Qed.

(* every key present, every specified row has the right length and passes the sum test *)
Definition wgood (tol : Qc) (d : nat) (keys : list (list nat)) (c : wcpt) : Prop :=
  map fst c = keys /\ forall k r, In (k, Some r) c -> length r = d /\ sum_valid tol r = true.

Lemma cpt_set_good tol d keys key r c :
  wgood tol d keys c -> length r = d -> sum_valid tol r = true -> wgood tol d keys (cpt_set key r c).
Proof.
  intros [Hk Hr] Hl Hs. split; [now rewrite cpt_set_fst|].
  intros k r' Hin. apply cpt_set_in in Hin as [->|Hin]; [auto | eauto].
Qed.

Lemma add_default_good tol d keys df c :
  add_default tol d keys df = Some c -> wgood tol d keys c.
Proof.
  unfold add_default. destruct df as [ps|].
  - destruct (Nat.eqb (length ps) d) eqn:El; cbn [guard obind]; [|discriminate].
    destruct (sum_valid tol ps) eqn:Es; cbn [guard obind]; [|discriminate].
    intros H; injection H as <-. apply Nat.eqb_eq in El. split.
    + rewrite map_map. cbn [fst]. apply map_id.
    + intros k r Hin. apply in_map_iff in Hin as [k' [E _]]. injection E as _ <-. auto.
  - intros H; injection H as <-. split.
    + rewrite map_map. cbn [fst]. apply map_id.
    + intros k r Hin. apply in_map_iff in Hin as [k' [E _]]. discriminate.
Qed.

Lemma table_row_length t d R rw : length (table_row t d R rw) = d.
Proof. unfold table_row. now rewrite map_length, seq_length. Qed.

Lemma add_table_rows_good tol t d R keys : forall numbered c c',
  add_table_rows tol t d R numbered c = Some c' -> wgood tol d keys c -> wgood tol d keys c'.
Proof.
  induction numbered as [|[rw key] numbered IH]; intros c c' H Hc; cbn [add_table_rows] in H.
  - now injection H as <-.
  - destruct (sum_valid tol (table_row t d R rw)) eqn:Es; cbn [guard obind] in H; [|discriminate].
    apply (IH _ _ H). apply cpt_set_good; auto using table_row_length.
Qed.

Lemma add_table_good tol d keys tb c c' :
  add_table tol d keys tb c = Some c' -> wgood tol d keys c -> wgood tol d keys c'.
Proof.
  unfold add_table. destruct tb as [t|]; [|now intros H; injection H as <-].
  destruct (Nat.eqb (length t) (d * length keys)); cbn [guard obind]; [|discriminate].
  apply add_table_rows_good.
Qed.

Lemma add_entry_good tol vars d pars keys e c c' :
  add_entry tol vars d pars e c = Some c' -> wgood tol d keys c -> wgood tol d keys c'.
Proof.
  unfold add_entry. destruct e as [cond ps].
  destruct (Nat.eqb (length cond) (length pars)); cbn [guard obind]; [|discriminate].
  destruct (Nat.eqb (length ps) d) eqn:El; cbn [guard obind]; [|discriminate].
  destruct (sum_valid tol ps) eqn:Es; cbn [guard obind]; [|discriminate].
  destruct (resolve_cond vars pars cond) as [key|]; cbn [obind]; [|discriminate].
  intros H; injection H as <-. intros Hc. apply Nat.eqb_eq in El. now apply cpt_set_good.
Qed.

Lemma add_entries_good tol vars d pars keys : forall es c c',
  add_entries tol vars d pars es c = Some c' -> wgood tol d keys c -> wgood tol d keys c'.
Proof.
  induction es as [|e es IH]; intros c c' H Hc; cbn [add_entries] in H.
  - now injection H as <-.
  - destruct (add_entry tol vars d pars e c) as [c1|] eqn:Ee; cbn [obind] in H; [|discriminate].
    apply (IH _ _ H). eapply add_entry_good; eauto.
Qed.

Lemma finish_cpt_spec : forall c c3,
  finish_cpt c = Some c3 ->
  map fst c3 = map fst c /\ forall k r, In (k, r) c3 -> In (k, Some r) c.
Proof.
  unfold finish_cpt. induction c as [|[k o] c IH]; intros c3 H; cbn [omap] in H.
  - injection H as <-. split; [reflexivity | intros k r []].
  - cbn [snd fst] in H. destruct o as [r0|]; cbn [obind] in H; [|discriminate].
    destruct (omap _ c) as [c3'|] eqn:E; cbn [obind] in H; [|discriminate].
    injection H as <-. destruct (IH c3' eq_refl) as [Hf Hi]. split.
    + cbn [map fst]. now rewrite Hf.
    + intros k' r [Heq|Hin]; [injection Heq as <- <-; now left | right; now apply Hi].
Qed.

(* ------------------------------------------------------------------ assemble_cpt(s) *)
Definition cpt_good (tol : Qc) (vars : vtable) (xc : nat * list nat * cpt) : Prop :=
  (forall p, In p (snd (fst xc)) -> p < length vars) /\
  map fst (snd xc) = cpt_keys vars (snd (fst xc)) /\
  forall k r, In (k, r) (snd xc) -> length r = dsize vars (fst (fst xc)) /\ sum_valid tol r = true.

Lemma assemble_cpt_good tol vars pb xc :
  assemble_cpt tol vars pb = Some xc -> cpt_good tol vars xc.
Proof.
  unfold assemble_cpt.
  destruct (find_var vars (pb_var pb)) as [x|] eqn:Ex; cbn [obind]; [|discriminate].
  destruct (omap (find_var vars) (pb_parents pb)) as [pars|] eqn:Ep; cbn [obind]; [|discriminate].
  destruct (classify (pb_items pb) None None [] []) as [[[df tb] es]|]; cbn [obind]; [|discriminate].
  destruct (add_default tol (dsize vars x) (cpt_keys vars pars) df) as [c0|] eqn:E0;
    cbn [obind]; [|discriminate].
  destruct (add_table tol (dsize vars x) (cpt_keys vars pars) tb c0) as [c1|] eqn:E1;
    cbn [obind]; [|discriminate].
  destruct (add_entries tol vars (dsize vars x) pars es c1) as [c2|] eqn:E2;
    cbn [obind]; [|discriminate].
  destruct (finish_cpt c2) as [c3|] eqn:E3; cbn [obind]; [|discriminate].
  intros H; injection H as <-. unfold cpt_good; cbn [fst snd].
  apply add_default_good in E0. apply (add_table_good _ _ _ _ _ _ E1) in E0.
  apply (add_entries_good _ _ _ _ _ _ _ _ E2) in E0. destruct E0 as [Hk Hr].
  destruct (finish_cpt_spec _ _ E3) as [Hf Hi]. repeat split.
  - intros p Hp. destruct (omap_in _ _ _ _ Ep Hp) as [n [_ Hn]]. eapply find_var_lt; eauto.
  - now rewrite Hf.
  - apply (Hr k). now apply Hi.
  - apply (Hr k). now apply Hi.
Qed.

Lemma assemble_cpts_good tol vars : forall pbs acc cs,
  assemble_cpts tol vars pbs acc = Some cs -> Forall (cpt_good tol vars) acc ->
  Forall (cpt_good tol vars) cs.
Proof.
  induction pbs as [|pb pbs IH]; intros acc cs H Hacc; cbn [assemble_cpts] in H.
  - now injection H as <-.
  - destruct (assemble_cpt tol vars pb) as [xc|] eqn:E; cbn [obind] in H; [|discriminate].
    destruct (find_cpt (fst (fst xc)) acc); [discriminate|].
    apply (IH _ _ H). apply Forall_app. split; [exact Hacc|].
    constructor; [|constructor]. eapply assemble_cpt_good; eauto.
Qed.

Lemma find_cpt_in : forall cs x ps c, find_cpt x cs = Some (ps, c) -> In (x, ps, c) cs.
Proof.
  induction cs as [|[[y ps0] c0] cs IH]; intros x ps c H; cbn [find_cpt] in H; [discriminate|].
  destruct (Nat.eqb x y) eqn:E.
  - apply Nat.eqb_eq in E. subst. injection H as <- <-. now left.
  - right. now apply IH.
Qed.

Lemma build_network_spec vars cs net :
  build_network vars cs = Some net ->
  length net = length vars /\
  forall x v, nth_error net x = Some v ->
    x < length vars /\ nv_dom v = dom_of vars x /\ In (x, nv_par v, nv_cpt v) cs.
Proof.
  unfold build_network. intros H. apply omap_spec in H as [Hl Hn].
  rewrite seq_length in Hl. split; [exact Hl|].
  intros x v Hv. destruct (Hn x v Hv) as [i [Hi Hf]].
  apply nth_error_seq0 in Hi as [-> Hlt]. split; [exact Hlt|].
  destruct (find_cpt x cs) as [[ps c]|] eqn:Ec; cbn [obind] in Hf; [|discriminate].
  injection Hf as <-. cbn [nv_dom nv_par nv_cpt fst snd]. split; [reflexivity|].
  now apply find_cpt_in.
Qed.

Lemma build_network_ndsize vars cs net :
  build_network vars cs = Some net -> forall p, ndsize net p = dsize vars p.
Proof.
  intros H p. destruct (build_network_spec _ _ _ H) as [Hl Hn]. unfold ndsize.
  destruct (nth_error net p) as [v|] eqn:E.
  - destruct (Hn p v E) as [_ [Hd _]]. now rewrite Hd.
  - apply nth_error_None in E. unfold dsize, dom_of. rewrite nth_overflow by lia. reflexivity.
Qed.

Theorem assemble_wf : forall tol b net,
  assemble tol b = Some net -> wf_network net /\ rows_valid tol net.
Proof.
  intros tol b net H. unfold assemble in H.
  destruct (check_vars (b_vars b) []) as [vars|] eqn:Ev; cbn [obind] in H; [|discriminate].
  destruct (assemble_cpts tol vars (b_probs b) []) as [cs|] eqn:Ec; cbn [obind] in H; [|discriminate].
  apply check_vars_wf in Ev.
  apply assemble_cpts_good in Ec; [|constructor].
  pose proof (build_network_ndsize _ _ _ H) as Hnd.
  destruct (build_network_spec _ _ _ H) as [Hl Hn].
  assert (Hgood : forall x v, nth_error net x = Some v ->
            x < length vars /\ nv_dom v = dom_of vars x /\ cpt_good tol vars (x, nv_par v, nv_cpt v)).
  { intros x v Hv. destruct (Hn x v Hv) as [Hlt [Hd Hin]].
    split; [exact Hlt | split; [exact Hd|]]. rewrite Forall_forall in Ec. apply (Ec _ Hin). }
  split.
  - intros x v Hv. destruct (Hgood x v Hv) as [Hlt [Hd [Hp [Hk Hr]]]]. cbn [fst snd] in *.
    repeat split.
    + rewrite Hd. now apply dom_of_nonempty.
    + intros p Hp'. rewrite Hl. now apply Hp.
    + rewrite Hk. unfold net_keys, cpt_keys. f_equal. apply map_ext. intros p. now rewrite Hnd.
    + intros k r Hin. rewrite Hd. apply (Hr k r Hin).
  - intros x v k r Hv Hin. destruct (Hgood x v Hv) as [_ [_ [_ [_ Hr]]]]. apply (Hr k r Hin).
Qed.

(* ================================================================== Theorem 2 *)
(* ------------------------------------------------------------------ the three notations *)
(* table notation: own value slowest (column-major) *)
Definition table_of (d : nat) (rows : list row) : list Qc :=
  flat_map (fun i => map (fun r => nth i r 0%Qc) rows) (seq 0 d).
Definition cond_of (vars : vtable) (pars : list nat) (key : list nat) : list string :=
  map (fun pk => nth (snd pk) (dom_of vars (fst pk)) ""%string) (combine pars key).
Definition entries_of (vars : vtable) (pars : list nat) (rows : list row) : list cpt_item :=
  map (fun kr => IEntry (cond_of vars pars (fst kr)) (snd kr)) (combine (cpt_keys vars pars) rows).

(* ------------------------------------------------------------------ table index arithmetic *)
Lemma flat_map_length_const {A B} (f : A -> list B) R :
  (forall x, length (f x) = R) -> forall l, length (flat_map f l) = length l * R.
Proof.
  intros Hf. induction l as [|a l IH]; cbn [flat_map length Nat.mul]; [reflexivity|].
  now rewrite app_length, Hf, IH.
Qed.

Lemma table_of_length d rows : length (table_of d rows) = d * length rows.
Proof.
  unfold table_of. rewrite (flat_map_length_const _ (length rows)).
  - now rewrite seq_length.
  - intros i. apply map_length.
Qed.

Lemma nth_flat_map_blocks {A} (f : nat -> list A) R def :
  (forall x, length (f x) = R) ->
  forall d s i rw, rw < R -> i < d ->
  nth (rw + i * R) (flat_map f (seq s d)) def = nth rw (f (s + i)) def.
Proof.
  intros Hf. induction d as [|d IH]; intros s i rw Hrw Hi; [lia|].
  cbn [seq flat_map]. destruct i as [|i].
  - cbn [Nat.mul]. rewrite !Nat.add_0_r. apply app_nth1. now rewrite Hf.
  - cbn [Nat.mul]. rewrite app_nth2 by (rewrite Hf; lia). rewrite Hf.
    replace (rw + (R + i * R) - R) with (rw + i * R) by lia.
    rewrite IH by lia. f_equal. f_equal. lia.
Qed.

Lemma nth_map_rows : forall (rows : list row) rw i,
  nth rw (map (fun r => nth i r 0%Qc) rows) 0%Qc = nth i (nth rw rows []) 0%Qc.
Proof.
  induction rows as [|r rows IH]; intros rw i; cbn [map].
  - destruct rw, i; reflexivity.
  - destruct rw as [|rw]; cbn [nth]; [reflexivity | apply IH].
Qed.

Lemma table_of_nth d (rows : list row) rw i :
  rw < length rows -> i < d ->
  nth (rw + i * length rows) (table_of d rows) 0%Qc = nth i (nth rw rows []) 0%Qc.
Proof.
  intros Hrw Hi. unfold table_of.
  rewrite (nth_flat_map_blocks (fun i => map (fun r => nth i r 0%Qc) rows) (length rows));
    [| intros; apply map_length | exact Hrw | exact Hi].
  cbn [Nat.add]. apply nth_map_rows.
Qed.

Lemma map_nth_seq {A} (l : list A) def : map (fun i => nth i l def) (seq 0 (length l)) = l.
Proof.
  induction l as [|a l IH]; cbn [length seq map]; [reflexivity|].
  cbn [nth]. f_equal. rewrite <- seq_shift, map_map. exact IH.
Qed.

Lemma table_row_of d (rows : list row) rw :
  rw < length rows -> length (nth rw rows []) = d ->
  table_row (table_of d rows) d (length rows) rw = nth rw rows [].
Proof.
  intros Hrw Hl. unfold table_row.
  transitivity (map (fun i => nth i (nth rw rows []) 0%Qc) (seq 0 d)).
  - apply map_ext_in. intros i Hi. apply in_seq in Hi. apply table_of_nth; lia.
  - rewrite <- Hl. apply map_nth_seq.
Qed.

(* ------------------------------------------------------------------ key / condition equality *)
Lemma list_eqb_eq {A} (eqb : A -> A -> bool) :
  (forall a b, eqb a b = true <-> a = b) ->
  forall l1 l2, list_eqb eqb l1 l2 = true <-> l1 = l2.
Proof.
  intros Heq. induction l1 as [|a l1 IH]; destruct l2 as [|b l2].
  - split; reflexivity.
  - split; discriminate.
  - split; discriminate.
  - change (list_eqb eqb (a :: l1) (b :: l2)) with (eqb a b && list_eqb eqb l1 l2).
    rewrite andb_true_iff, Heq, IH. split.
    + intros [-> ->]. reflexivity.
    + intros E. injection E. auto.
Qed.

Lemma key_eqb_eq k k' : key_eqb k k' = true <-> k = k'.
Proof. apply list_eqb_eq. apply Nat.eqb_eq. Qed.
Lemma strs_eqb_eq a b : strs_eqb a b = true <-> a = b.
Proof. apply list_eqb_eq. apply String.eqb_eq. Qed.
Lemma key_eqb_refl k : key_eqb k k = true.
Proof. now apply key_eqb_eq. Qed.

(* ------------------------------------------------------------------ cpt_set at distinct keys *)
Lemma cpt_set_notin key r : forall c, ~ In key (map fst c) -> cpt_set key r c = c.
Proof.
  unfold cpt_set. induction c as [|kv c IH]; intros H; cbn [map]; [reflexivity|].
  cbn [map In] in H. destruct (key_eqb (fst kv) key) eqn:E.
  - apply key_eqb_eq in E. exfalso. apply H. now left.
  - f_equal. apply IH. intros Hin. apply H. now right.
Qed.

Lemma cpt_set_here key r o c1 c2 :
  ~ In key (map fst c1) -> ~ In key (map fst c2) ->
  cpt_set key r (c1 ++ (key, o) :: c2) = c1 ++ (key, Some r) :: c2.
Proof.
  intros H1 H2. unfold cpt_set. rewrite map_app. cbn [map fst]. rewrite key_eqb_refl.
  f_equal; [exact (cpt_set_notin key r c1 H1)|]. f_equal. exact (cpt_set_notin key r c2 H2).
Qed.

Definition set_list (krs : list (list nat * row)) (c : wcpt) : wcpt :=
  fold_left (fun c kr => cpt_set (fst kr) (snd kr) c) krs c.

Lemma set_list_cons kr krs c : set_list (kr :: krs) c = set_list krs (cpt_set (fst kr) (snd kr) c).
Proof. reflexivity. Qed.

(* setting every key once, in order, produces the fully specified table whatever was there *)
Lemma set_list_full : forall ks (rows : list row) c1 c2,
  map fst c2 = ks -> length rows = length ks -> NoDup (map fst c1 ++ ks) ->
  set_list (combine ks rows) (c1 ++ c2) = c1 ++ combine ks (map Some rows).
Proof.
  induction ks as [|k ks IH]; intros rows c1 c2 Hf Hl Hnd.
  - destruct c2; [reflexivity | discriminate].
  - destruct c2 as [|[k' o] c2]; [discriminate|]. cbn [map fst] in Hf. injection Hf as -> Hf.
    destruct rows as [|r rows]; [discriminate|]. cbn [length] in Hl.
    cbn [combine map]. rewrite set_list_cons. cbn [fst snd].
    pose proof (NoDup_remove_2 _ _ _ Hnd) as Hnotin. rewrite in_app_iff in Hnotin.
    rewrite cpt_set_here by (rewrite ?Hf; tauto).
    replace (c1 ++ (k, Some r) :: c2) with ((c1 ++ [(k, Some r)]) ++ c2)
      by (rewrite <- app_assoc; reflexivity).
    rewrite IH; [rewrite <- app_assoc; reflexivity | exact Hf | lia |].
    rewrite map_app, <- app_assoc. exact Hnd.
Qed.

Lemma map_fst_combine {A B} : forall (l1 : list A) (l2 : list B),
  length l2 = length l1 -> map fst (combine l1 l2) = l1.
Proof.
  induction l1 as [|a l1 IH]; intros [|b l2] H; try discriminate; [reflexivity|].
  cbn [combine map fst]. f_equal. apply IH. cbn [length] in H. lia.
Qed.

Lemma finish_full : forall ks (rows : list row),
  finish_cpt (combine ks (map Some rows)) = Some (combine ks rows).
Proof.
  unfold finish_cpt. induction ks as [|k ks IH]; intros rows; [reflexivity|].
  destruct rows as [|r rows]; [reflexivity|].
  cbn [map combine omap fst snd obind]. rewrite IH. reflexivity.
Qed.

(* ------------------------------------------------------------------ the table fills every row *)
Lemma add_table_rows_set tol d (rows : list row) :
  (forall r, In r rows -> length r = d /\ sum_valid tol r = true) ->
  forall numbered c, (forall rw key, In (rw, key) numbered -> rw < length rows) ->
  add_table_rows tol (table_of d rows) d (length rows) numbered c =
  Some (set_list (map (fun p => (snd p, nth (fst p) rows [])) numbered) c).
Proof.
  intros Hrows. induction numbered as [|[rw key] numbered IH]; intros c Hn;
    cbn [add_table_rows map]; [reflexivity|].
  assert (Hrw : rw < length rows) by (apply (Hn rw key); now left).
  destruct (Hrows (nth rw rows []) (nth_In _ _ Hrw)) as [Hl Hs].
  rewrite table_row_of by assumption. rewrite Hs. cbn [guard obind fst snd].
  rewrite set_list_cons. cbn [fst snd]. apply IH. intros rw' key' Hin. apply (Hn rw' key'). now right.
Qed.

Lemma combine_seq_nth {A B} (all : list B) def : forall (keys : list A) (rows : list B) s,
  length rows = length keys ->
  (forall j, j < length rows -> nth (s + j) all def = nth j rows def) ->
  map (fun p => (snd p, nth (fst p) all def)) (combine (seq s (length keys)) keys) = combine keys rows.
Proof.
  induction keys as [|k keys IH]; intros rows s Hl Hn; [reflexivity|].
  destruct rows as [|r rows]; [discriminate|]. cbn [length] in Hl.
  cbn [length seq combine map fst snd]. f_equal.
  - f_equal. specialize (Hn 0). rewrite Nat.add_0_r in Hn. apply Hn. cbn [length]. lia.
  - apply IH; [lia|]. intros j Hj. specialize (Hn (S j)). rewrite Nat.add_succ_r in Hn.
    cbn [nth length] in Hn. apply Hn. lia.
Qed.

Lemma add_table_full tol d keys (rows : list row) c :
  length rows = length keys -> NoDup keys ->
  (forall r, In r rows -> length r = d /\ sum_valid tol r = true) ->
  map fst c = keys ->
  add_table tol d keys (Some (table_of d rows)) c = Some (combine keys (map Some rows)).
Proof.
  intros Hl Hnd Hrows Hc. unfold add_table. rewrite table_of_length, Hl, Nat.eqb_refl.
  cbn [guard obind]. rewrite <- Hl. rewrite (add_table_rows_set tol d rows Hrows).
  - f_equal. rewrite Hl. rewrite (combine_seq_nth rows [] keys rows 0 Hl) by reflexivity.
    apply (set_list_full keys rows [] c Hc Hl Hnd).
  - intros rw key Hin. apply in_combine_l in Hin. apply in_seq in Hin. lia.
Qed.

(* ------------------------------------------------------------------ entries *)
Lemma index_of_nth : forall dom k,
  NoDup dom -> k < length dom -> index_of (nth k dom ""%string) dom = Some k.
Proof.
  induction dom as [|y dom IH]; intros k Hnd Hk; cbn [length] in Hk; [lia|].
  inversion Hnd as [|? ? Hy Hnd']; subst. destruct k as [|k]; cbn [nth index_of].
  - now rewrite String.eqb_refl.
  - assert (Hlt : k < length dom) by lia.
    destruct (String.eqb (nth k dom ""%string) y) eqn:E.
    + apply String.eqb_eq in E. exfalso. apply Hy. rewrite <- E. now apply nth_In.
    + rewrite IH by assumption. reflexivity.
Qed.

Lemma resolve_cond_of vars pars key :
  wf_vtable vars -> Forall2 (fun k p => k < dsize vars p) key pars ->
  resolve_cond vars pars (cond_of vars pars key) = Some key.
Proof.
  intros Hwf H. unfold resolve_cond, cond_of.
  induction H as [|k p key pars Hk H IH]; [reflexivity|].
  cbn [combine map fst snd omap]. rewrite index_of_nth by (auto using dom_of_NoDup).
  cbn [obind]. rewrite IH. reflexivity.
Qed.

Lemma Forall2_len {A B} (P : A -> B -> Prop) l1 l2 : Forall2 P l1 l2 -> length l1 = length l2.
Proof. induction 1; cbn [length]; congruence. Qed.

Lemma cond_of_length vars pars key :
  Forall2 (fun k p => k < dsize vars p) key pars -> length (cond_of vars pars key) = length pars.
Proof.
  intros H. apply Forall2_len in H. unfold cond_of. rewrite map_length, combine_length. lia.
Qed.

Lemma add_entries_set tol vars d pars : wf_vtable vars ->
  forall krs c,
  (forall k r, In (k, r) krs ->
     In k (cpt_keys vars pars) /\ length r = d /\ sum_valid tol r = true) ->
  add_entries tol vars d pars (map (fun kr => (cond_of vars pars (fst kr), snd kr)) krs) c
  = Some (set_list krs c).
Proof.
  intros Hwf. induction krs as [|[k r] krs IH]; intros c H; cbn [map add_entries]; [reflexivity|].
  destruct (H k r (or_introl eq_refl)) as [Hk [Hl Hs]]. apply cpt_keys_in in Hk.
  unfold add_entry. cbn [fst snd]. rewrite cond_of_length by exact Hk. rewrite Nat.eqb_refl.
  cbn [guard obind]. rewrite Hl, Nat.eqb_refl. cbn [guard obind]. rewrite Hs. cbn [guard obind].
  rewrite resolve_cond_of by assumption. cbn [obind]. rewrite set_list_cons. cbn [fst snd].
  apply IH. intros k' r' Hin. apply H. now right.
Qed.

Lemma classify_entries : forall es df tb seen acc,
  NoDup (map fst es) -> (forall c, In c (map fst es) -> ~ In c seen) ->
  classify (map (fun e => IEntry (fst e) (snd e)) es) df tb seen acc = Some (df, tb, acc ++ es).
Proof.
  induction es as [|[c ps] es IH]; intros df tb seen acc Hnd Hs; cbn [map classify fst snd].
  - now rewrite app_nil_r.
  - cbn [map fst] in Hnd, Hs. inversion Hnd as [|? ? Hc Hnd']; subst.
    assert (E : existsb (strs_eqb c) seen = false).
    { destruct (existsb (strs_eqb c) seen) eqn:E; [|reflexivity].
      apply existsb_exists in E as [s [Hs1 Hs2]]. apply strs_eqb_eq in Hs2. subst s.
      exfalso. apply (Hs c); [now left | exact Hs1]. }
    rewrite E. rewrite IH; [now rewrite <- app_assoc | exact Hnd' |].
    intros c' Hc' [<-|Hin]; [exact (Hc Hc')|]. apply (Hs c'); [now right | exact Hin].
Qed.

Definition es_of (vars : vtable) (pars : list nat) (rows : list row) : list (list string * list Qc) :=
  map (fun kr => (cond_of vars pars (fst kr), snd kr)) (combine (cpt_keys vars pars) rows).

Lemma entries_of_eq vars pars rows :
  entries_of vars pars rows = map (fun e => IEntry (fst e) (snd e)) (es_of vars pars rows).
Proof. unfold entries_of, es_of. rewrite map_map. reflexivity. Qed.

(* conditions of distinct keys are distinct: resolve_cond is a left inverse of cond_of *)
Lemma es_of_NoDup vars pars (rows : list row) :
  wf_vtable vars -> length rows = length (cpt_keys vars pars) ->
  NoDup (map fst (es_of vars pars rows)).
Proof.
  intros Hwf Hl.
  assert (E : map fst (es_of vars pars rows) = map (cond_of vars pars) (cpt_keys vars pars)).
  { transitivity (map (cond_of vars pars) (map fst (combine (cpt_keys vars pars) rows))).
    - unfold es_of. rewrite !map_map. reflexivity.
    - now rewrite map_fst_combine. }
  rewrite E. apply NoDup_map_inj_in; [|apply cpt_keys_NoDup].
  intros k1 k2 H1 H2 Heq. apply cpt_keys_in in H1, H2.
  pose proof (resolve_cond_of vars pars k1 Hwf H1) as R1.
  pose proof (resolve_cond_of vars pars k2 Hwf H2) as R2. congruence.
Qed.

Lemma classify_entries_of vars pars (rows : list row) df tb :
  wf_vtable vars -> length rows = length (cpt_keys vars pars) ->
  classify (entries_of vars pars rows) df tb [] [] = Some (df, tb, es_of vars pars rows).
Proof.
  intros Hwf Hl. rewrite entries_of_eq.
  rewrite classify_entries; [reflexivity | now apply es_of_NoDup | intros c _ []].
Qed.

(* ------------------------------------------------------------------ the whole pipeline *)
Lemma assemble_cpt_full tol vars xn x parnames pars (rows : list row) items df tb es :
  wf_vtable vars -> find_var vars xn = Some x -> omap (find_var vars) parnames = Some pars ->
  length rows = length (cpt_keys vars pars) ->
  (forall r, In r rows -> length r = dsize vars x /\ sum_valid tol r = true) ->
  classify items None None [] [] = Some (df, tb, es) ->
  (df = None \/ exists dflt, df = Some dflt /\ length dflt = dsize vars x /\ sum_valid tol dflt = true) ->
  (tb = None \/ tb = Some (table_of (dsize vars x) rows)) ->
  ((es = [] /\ tb <> None) \/ es = es_of vars pars rows) ->
  assemble_cpt tol vars {| pb_var := xn; pb_parents := parnames; pb_items := items |}
  = Some (x, pars, combine (cpt_keys vars pars) rows).
Proof.
  intros Hwf Hx Hp Hl Hrows Hcls Hdf Htb Hes.
  pose proof (cpt_keys_NoDup vars pars) as Hnd.
  unfold assemble_cpt. cbn [pb_var pb_parents pb_items].
  rewrite Hx. cbn [obind]. rewrite Hp. cbn [obind]. rewrite Hcls. cbn [obind].
  assert (H0 : exists c0, add_default tol (dsize vars x) (cpt_keys vars pars) df = Some c0 /\
                          map fst c0 = cpt_keys vars pars).
  { unfold add_default. destruct Hdf as [->|[dflt [-> [Hdl Hds]]]].
    - eexists. split; [reflexivity|]. rewrite map_map. apply map_id.
    - rewrite Hdl, Nat.eqb_refl, Hds. cbn [guard obind].
      eexists. split; [reflexivity|]. rewrite map_map. apply map_id. }
  destruct H0 as [c0 [E0 Hc0]]. rewrite E0. cbn [obind].
  assert (H1 : exists c1, add_table tol (dsize vars x) (cpt_keys vars pars) tb c0 = Some c1 /\
                          map fst c1 = cpt_keys vars pars /\
                          (tb <> None -> c1 = combine (cpt_keys vars pars) (map Some rows))).
  { destruct Htb as [->| ->].
    - exists c0. split; [reflexivity|]. split; [exact Hc0 | congruence].
    - exists (combine (cpt_keys vars pars) (map Some rows)).
      split; [now apply add_table_full|]. split; [|reflexivity].
      apply map_fst_combine. now rewrite map_length. }
  destruct H1 as [c1 [E1 [Hc1 Hc1']]]. rewrite E1. cbn [obind].
  assert (H2 : add_entries tol vars (dsize vars x) pars es c1
               = Some (combine (cpt_keys vars pars) (map Some rows))).
  { destruct Hes as [[-> Hne]| ->].
    - cbn [add_entries]. f_equal. now apply Hc1'.
    - unfold es_of. rewrite (add_entries_set tol vars (dsize vars x) pars Hwf).
      + f_equal. apply (set_list_full (cpt_keys vars pars) rows [] c1 Hc1 Hl Hnd).
      + intros k r Hin. split; [exact (in_combine_l _ _ _ _ Hin)|].
        apply Hrows. exact (in_combine_r _ _ _ _ Hin). }
  rewrite H2. cbn [obind]. rewrite finish_full. reflexivity.
Qed.

Theorem cpt_notations_agree : forall tol vars xn x parnames pars rows dflt,
  wf_vtable vars -> find_var vars xn = Some x -> omap (find_var vars) parnames = Some pars ->
  length rows = length (cpt_keys vars pars) ->
  (forall r, In r rows -> length r = dsize vars x /\ sum_valid tol r = true) ->
  (length dflt = dsize vars x /\ sum_valid tol dflt = true) ->
  let mk items := assemble_cpt tol vars {| pb_var := xn; pb_parents := parnames; pb_items := items |} in
  let target := Some (x, pars, combine (cpt_keys vars pars) rows) in
     mk [ITable (table_of (dsize vars x) rows)] = target
  /\ mk (entries_of vars pars rows) = target
  /\ mk [IDefault dflt; ITable (table_of (dsize vars x) rows)] = target
  /\ mk (IDefault dflt :: entries_of vars pars rows) = target
  /\ mk (ITable (table_of (dsize vars x) rows) :: entries_of vars pars rows) = target.
Proof.
  intros tol vars xn x parnames pars rows dflt Hwf Hx Hp Hl Hrows Hdflt mk target.
  subst mk target. cbv beta.
  pose proof (fun df tb => classify_entries_of vars pars rows df tb Hwf Hl) as Hcls.
  assert (Hd : exists dflt0, Some dflt = Some dflt0 /\ length dflt0 = dsize vars x /\
                             sum_valid tol dflt0 = true) by (exists dflt; auto).
  split; [|split; [|split; [|split]]].
  - apply (assemble_cpt_full tol vars xn x parnames pars rows _ None
             (Some (table_of (dsize vars x) rows)) []); auto.
    left. split; [reflexivity | discriminate].
  - apply (assemble_cpt_full tol vars xn x parnames pars rows _ None None (es_of vars pars rows)); auto.
  - apply (assemble_cpt_full tol vars xn x parnames pars rows _ (Some dflt)
             (Some (table_of (dsize vars x) rows)) []); auto.
    left. split; [reflexivity | discriminate].
  - apply (assemble_cpt_full tol vars xn x parnames pars rows _ (Some dflt) None
             (es_of vars pars rows)); auto.
    cbn [classify]. apply Hcls.
  - apply (assemble_cpt_full tol vars xn x parnames pars rows _ None
             (Some (table_of (dsize vars x) rows)) (es_of vars pars rows)); auto.
    cbn [classify]. apply Hcls.
Qed.
