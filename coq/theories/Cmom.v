(* Moments of the continuous families as the analysis uses them: the definitions TRANSLATED
   from program/distribution/*.py (PolarGen.DistGen, rebuilt on every run), arranged as the
   [cmom] parameter of Wp.v.  C08 proves that these are the families' true moments. *)
From Coq Require Import List String QArith Qcanon ZArith.
From Polar Require Import Qcx.
From PolarGen Require Import DistGen.
Import ListNotations.
Open Scope string_scope.

Definition cmom_gen (f : string) (args : list Qc) (k : nat) : Qc :=
  match args with
  | [a] =>
      if String.eqb f "Exponential" then exponential_get_moment a k else 0%Qc
  | [a; b] =>
      if String.eqb f "Normal" then normal_get_moment a b k
      else if String.eqb f "Uniform" then uniform_get_moment a b k
      else if String.eqb f "Laplace" then laplace_get_moment b a k   (* arguments arrive as [b; mu] *)
      else if String.eqb f "Gamma" then gamma_get_moment a b k
      else if String.eqb f "Beta" then beta2_get_moment a b k
      else 0%Qc
  | [a; b; c] =>
      if String.eqb f "Beta" then beta3_get_moment a b c k else 0%Qc
  | _ => 0%Qc
  end.
