(* C15 — reference semantics (S) of the generated-program AST of BayesNet.v.
   States map variable indices to natural numbers (all values the generated programs ever
   hold are domain positions, 0/1 flags, products and counters); distributions are
   finitely supported weighted lists.  One loop iteration = exec_body; n iterations = iter_body. *)
From Coq Require Import Arith Bool QArith Qcanon Lia List.
From Polar Require Import Qcx BayesNet.
Import ListNotations.
Open Scope nat_scope.

Definition state := nat -> nat.
Definition upd (s : state) (x v : nat) : state := fun y => if Nat.eqb y x then v else s y.
Definition dist := list (Qc * state).

(* x = v0 {p0} v1 {p1} ... v_last : the last probability is implicit, 1 - (p0 + p1 + ...) *)
Definition cat_weights (probs : list Qc) : list Qc := probs ++ [(1 - qsum probs)%Qc].

Definition exec_assign (a : gassign) (s : state) : dist :=
  match a with
  | ACat x vals probs => map (fun pv => (fst pv, upd s x (snd pv))) (combine (cat_weights probs) vals)
  | AMul x a b => [(1%Qc, upd s x (s a * s b))]
  | AAdd x a b => [(1%Qc, upd s x (s a + s b))]
  end.

Definition cond_true (c : gcond) (s : state) : bool :=
  forallb (fun xv => Nat.eqb (s (fst xv)) (snd xv)) c.

(* first matching branch; no else and nothing matches: skip *)
Fixpoint exec_if (brs : list (gcond * gassign)) (els : option gassign) (s : state) : dist :=
  match brs with
  | [] => match els with Some a => exec_assign a s | None => [(1%Qc, s)] end
  | (c, a) :: r => if cond_true c s then exec_assign a s else exec_if r els s
  end.

Definition exec_stmt (st : gstmt) (s : state) : dist :=
  match st with
  | SAssign a => exec_assign a s
  | SIf brs els => exec_if brs els s
  end.

Definition scale (w : Qc) (d : dist) : dist := map (fun ws => ((w * fst ws)%Qc, snd ws)) d.
Definition bind (d : dist) (f : state -> dist) : dist := flat_map (fun ws => scale (fst ws) (f (snd ws))) d.

Fixpoint exec_body (b : list gstmt) (s : state) : dist :=
  match b with
  | [] => [(1%Qc, s)]
  | st :: r => bind (exec_stmt st s) (exec_body r)
  end.

(* the loop "while true: body" run for n iterations from a distribution over states *)
Fixpoint iter_body (b : list gstmt) (n : nat) (d : dist) : dist :=
  match n with
  | O => d
  | S k => bind (iter_body b k d) (exec_body b)
  end.

Definition init_state (init : list (nat * nat)) : state :=
  fold_left (fun s xv => upd s (fst xv) (snd xv)) init (fun _ => 0).

Definition run (p : gprog) (n : nat) : dist := iter_body (g_body p) n [(1%Qc, init_state (g_init p))].

(* expectation of an observable, mass of an event *)
Definition expect (d : dist) (f : state -> Qc) : Qc := qsum (map (fun ws => (fst ws * f (snd ws))%Qc) d).
Definition ind (b : bool) : Qc := if b then 1%Qc else 0%Qc.
Definition mass (d : dist) (ev : state -> bool) : Qc := expect d (fun s => ind (ev s)).

(* ------------------------------------------------------------------ basic algebra *)
Lemma qsum_nil : qsum [] = 0%Qc.
Proof. reflexivity. Qed.

Lemma qsum_cons a l : qsum (a :: l) = (a + qsum l)%Qc.
Proof. reflexivity. Qed.

Lemma qsum_app l1 l2 : qsum (l1 ++ l2) = (qsum l1 + qsum l2)%Qc.
Proof. induction l1 as [|a l IH]; cbn [app]; [rewrite qsum_nil; ring | rewrite !qsum_cons, IH; ring]. Qed.

Lemma qsum_map_scale {A} (c : Qc) (f : A -> Qc) l :
  qsum (map (fun x => (c * f x)%Qc) l) = (c * qsum (map f l))%Qc.
Proof. induction l as [|a l IH]; cbn [map]; rewrite ?qsum_cons, ?qsum_nil; [ring | rewrite IH; ring]. Qed.

Lemma qsum_map_ext {A} (f g : A -> Qc) l : (forall x, In x l -> f x = g x) -> qsum (map f l) = qsum (map g l).
Proof.
  induction l as [|a l IH]; intros H; cbn [map]; [reflexivity|].
  rewrite !qsum_cons, H, IH; [reflexivity | intros; apply H; right; assumption | left; reflexivity].
Qed.

Lemma qsum_map_zero {A} (f : A -> Qc) l : (forall x, In x l -> f x = 0%Qc) -> qsum (map f l) = 0%Qc.
Proof.
  induction l as [|a l IH]; intros H; cbn [map]; [reflexivity|].
  rewrite qsum_cons, H, IH; [ring | intros; apply H; right; assumption | left; reflexivity].
Qed.

Lemma qsum_map_plus {A} (f g : A -> Qc) l :
  qsum (map (fun x => (f x + g x)%Qc) l) = (qsum (map f l) + qsum (map g l))%Qc.
Proof. induction l as [|a l IH]; cbn [map]; rewrite ?qsum_cons, ?qsum_nil; [ring | rewrite IH; ring]. Qed.

Lemma expect_nil f : expect [] f = 0%Qc.
Proof. reflexivity. Qed.

Lemma expect_cons w s d f : expect ((w, s) :: d) f = (w * f s + expect d f)%Qc.
Proof. reflexivity. Qed.

Lemma expect_app d1 d2 f : expect (d1 ++ d2) f = (expect d1 f + expect d2 f)%Qc.
Proof. unfold expect. rewrite map_app, qsum_app. reflexivity. Qed.

Lemma expect_scale w d f : expect (scale w d) f = (w * expect d f)%Qc.
Proof.
  unfold expect, scale. rewrite map_map. cbn [fst snd].
  rewrite <- qsum_map_scale. apply qsum_map_ext. intros; ring.
Qed.

(* law of total expectation for bind *)
Lemma expect_bind d k f : expect (bind d k) f = expect d (fun s => expect (k s) f).
Proof.
  induction d as [|[w s] d IH]; [reflexivity|].
  unfold bind in *. cbn [flat_map fst snd]. rewrite expect_app, expect_scale, IH, expect_cons. reflexivity.
Qed.

Lemma expect_ext d f g : (forall ws, In ws d -> f (snd ws) = g (snd ws)) -> expect d f = expect d g.
Proof. intros H. unfold expect. apply qsum_map_ext. intros ws Hin. rewrite (H ws Hin). reflexivity. Qed.

Lemma expect_plus d f g : expect d (fun s => (f s + g s)%Qc) = (expect d f + expect d g)%Qc.
Proof. unfold expect. rewrite <- qsum_map_plus. apply qsum_map_ext. intros; ring. Qed.

Lemma expect_cmul d c f : expect d (fun s => (c * f s)%Qc) = (c * expect d f)%Qc.
Proof. unfold expect. rewrite <- qsum_map_scale. apply qsum_map_ext. intros; ring. Qed.

Lemma expect_zero d f : (forall ws, In ws d -> f (snd ws) = 0%Qc) -> expect d f = 0%Qc.
Proof. intros H. unfold expect. apply qsum_map_zero. intros ws Hin. rewrite (H ws Hin). ring. Qed.

Lemma expect_single s f : expect [(1%Qc, s)] f = f s.
Proof. unfold expect. cbn. ring. Qed.

Lemma exec_body_app b1 b2 s f :
  expect (exec_body (b1 ++ b2) s) f = expect (exec_body b1 s) (fun s' => expect (exec_body b2 s') f).
Proof.
  revert s. induction b1 as [|st b1 IH]; intros s; cbn [app exec_body].
  - rewrite expect_single. reflexivity.
  - rewrite !expect_bind. apply expect_ext. intros ws _. apply IH.
Qed.

(* support: every state of a bind comes from a state of d *)
Lemma in_bind ws d k : In ws (bind d k) -> exists w1 s1 w2, In (w1, s1) d /\ In (w2, snd ws) (k s1).
Proof.
  unfold bind. rewrite in_flat_map. intros [[w1 s1] [H1 H2]]. unfold scale in H2. rewrite in_map_iff in H2.
  destruct H2 as [[w2 s2] [E H2]]. subst ws. cbn [fst snd] in *. exists w1, s1, w2. split; assumption.
Qed.
