(* C18: the documented class of loops ("Loop Restrictions" of /repo/README.md) as a boolean
   on SOURCE programs.

   README.md, section "Loop Restrictions":
     R1 "All variables in if-conditions and the loop guard must only assume finitely many
         values."
     R2 "All probabilities and distribution parameters must be constant"  —  "Ad restriction
         2: For some distributions, such as Normal, it is permissible to use non-constant
         distribution parameters."
     R3 "Non-linear variable dependencies must be acylcic."  —  "The restriction forbids
         variables v1, ... vk, where v1 depends on v2, v2 on v3, ..., vk depends on v1, with
         at least one of these dependencies being non-linear."
     "If your input program satisfies these restrictions, Polar theoretically guarantees its
      analyzability."
   and the property's own fourth clause "variables initialised".

   [in_class p D] is a DECIDABLE SUFFICIENT condition for R1-R3 (D = the declared types of
   the optional "types ... end" block):
     - R1 is decided by a source-level cartesian value analysis (flow-sensitive abstract
       execution of init and body over finite value sets, branches joined, loop closed by
       Kleene iteration; budgets 100 iterations / 25 values as FiniteFixedPointTyper, values
       below 2^64 in numerator and denominator); every
       atom of every condition must have at most 25 valuations of its variables at the program
       point where it is evaluated.  Declared types are trusted (Polar locks them).
     - R2 syntactically; the location positions of Normal / Uniform / Laplace are exempt
       (program/transformer/dist_transformer.py).
     - R3 through the model of SolvabilityChecker._get_dependency_graph (on the source
       assignments; a variable is "simple" iff finitely valued at every assignment or only ever
       drawn with constant parameters) and the model of Graph.get_defective_nodes (Graph.v):
       no node is defective.  By Graph.no_defective_iff this says exactly that no non-linear
       edge lies on a cycle.
     - every variable assigned in the loop is assigned in the (straight-line) initial block or
       declared; the initial block reads variables only after they were assigned.
   The analysis is coarser than Polar's own (which works on renamed single-assignment
   versions), so in_class is a SUBSET of the documented class: a refusal of an in_class program
   is a refusal inside the documented class. *)
From Coq Require Import List String QArith Qcanon ZArith Bool Arith Lia.
From Polar Require Import Qcx Dist Syntax Sem Types Poly Graph.
Import ListNotations.
Local Open Scope string_scope.
Local Open Scope list_scope.

Definition maxv : nat := 25.        (* FiniteFixedPointTyper(max_values_before_fail=25) *)
(* the typer's limit is on the number of distinct VALUES (it de-duplicates after every substituted variable): the sum
   of two six-valued variables has 36 valuations but 11 values.  Valuations are capped separately (cost of the analysis) *)
Definition maxenv : nat := 100.
Definition fp_iterations : nat := 100. (* settings.type_fp_iterations *)

(* ---- all assignments of a block, at any depth, in textual order ---- *)
Fixpoint stmt_assigns (s : stmt) : list (var * rhs) :=
  match s with
  | SAssign x r => [(x, r)]
  | SSimult l => l
  | SIf bs els => branches_assigns bs ++ block_assigns els
  end
with block_assigns (b : block) : list (var * rhs) :=
  match b with BNil => [] | BCons s b' => stmt_assigns s ++ block_assigns b' end
with branches_assigns (bs : branches) : list (var * rhs) :=
  match bs with BrNil => [] | BrCons _ b bs' => block_assigns b ++ branches_assigns bs' end.

Fixpoint block_conds (b : block) : list cond :=
  match b with BNil => [] | BCons s b' => stmt_conds s ++ block_conds b' end
with stmt_conds (s : stmt) : list cond :=
  match s with SIf bs els => branches_conds bs ++ block_conds els | _ => [] end
with branches_conds (bs : branches) : list cond :=
  match bs with BrNil => [] | BrCons c b bs' => c :: block_conds b ++ branches_conds bs' end.

Fixpoint straight (b : block) : bool :=
  match b with BNil => true | BCons (SIf _ _) _ => false | BCons _ b' => straight b' end.

Definition mem_str (x : var) (l : list var) : bool := existsb (var_eqb x) l.
Definition prog_vars (p : prog) (D : tenv) : list var :=
  nodup string_dec (map fst (block_assigns (p_body p)) ++ map fst (block_assigns (p_init p)) ++ map fst D).

(* ---- value sets ---- *)
Definition dedup (vs : list Qc) : list Qc :=
  fold_right (fun v acc => if mem v acc then acc else v :: acc) [] vs.

(* magnitude cap (conservative, keeps the analysis cheap on x = x**2): a value whose numerator or
   denominator exceeds 2^64 makes the variable non-finite for the analysis *)
Definition small (q : Qc) : bool :=
  Z.ltb (Z.abs (Qnum (this q))) (2 ^ 64)%Z && Z.ltb (Zpos (Qden (this q))) (2 ^ 64)%Z.

Definition expr_vals (T : tenv) (e : expr) : option (list Qc) :=
  match valuations all_vars T (nodup string_dec (vars_of e)) with
  | Some envs =>
      if Nat.leb (List.length envs) maxenv then
        let vs := dedup (map (fun env => eval e (env_state env)) envs) in
        if forallb small vs then Some vs else None
      else None
  | None => None
  end.

Fixpoint choice_vals (T : tenv) (alts : list (expr * expr)) : option (list Qc) :=
  match alts with
  | [] => Some []
  | (_, e) :: alts' =>
      match expr_vals T e, choice_vals T alts' with Some v, Some vs => Some (v ++ vs) | _, _ => None end
  end.

Definition rhs_vals (T : tenv) (r : rhs) : option (list Qc) :=
  match r with
  | RChoice alts => choice_vals T alts
  | RDraw (DBern _) => Some [1; 0]%Qc
  | RDraw (DCat ps) => Some (cat_vals (List.length ps) 0)
  | RDraw (DUnif a b) => Some (unif_vals a (Z.to_nat (b - a + 1)))
  | RDraw (DCont _ _) => None
  end.

(* strong update; variables in [locked] (declared types) keep their declared set *)
Definition aset (locked : list var) (T : tenv) (x : var) (o : option (list Qc)) : tenv :=
  if mem_str x locked then T
  else match o with
       | Some vs => let vs' := dedup vs in
                    if Nat.leb (List.length vs') maxv then (x, vs') :: remove_var x T else remove_var x T
       | None => remove_var x T
       end.

(* join: a variable stays finite iff it is finite on both sides and the union is small *)
Definition ajoin (A B : tenv) : tenv :=
  flat_map (fun xa : var * list Qc =>
              match tlookup B (fst xa) with
              | Some vb => let u := dedup (snd xa ++ vb) in
                           if Nat.leb (List.length u) maxv then [(fst xa, u)] else []
              | None => []
              end) A.

Section Analysis.
  Variable locked : list var.

  Fixpoint aexec_stmt (s : stmt) (T : tenv) : tenv :=
    match s with
    | SAssign x r => aset locked T x (rhs_vals T r)
    | SSimult l => fold_left (fun T' xr => aset locked T' (fst xr) (rhs_vals T (snd xr))) l T
    | SIf bs els => aexec_branches bs T (aexec_block els T)
    end
  with aexec_block (b : block) (T : tenv) : tenv :=
    match b with BNil => T | BCons s b' => aexec_block b' (aexec_stmt s T) end
  with aexec_branches (bs : branches) (T acc : tenv) : tenv :=
    match bs with
    | BrNil => acc
    | BrCons _ b bs' => aexec_branches bs' T (ajoin acc (aexec_block b T))
    end.

  (* T' = ajoin T (F T) is always above T (fewer variables, more values); the iteration is stable
     when nothing was lost or added: every entry of T is still present in T' with no new value *)
  Definition stable (T T' : tenv) : bool :=
    forallb (fun xa : var * list Qc =>
               match tlookup T' (fst xa) with
               | Some v' => subset v' (snd xa)
               | None => false
               end) T.

  Fixpoint afix (fuel : nat) (body : block) (T : tenv) : option tenv :=
    match fuel with
    | O => None
    | S f => let T' := ajoin T (aexec_block body T) in
             if stable T T' then Some T else afix f body T'
    end.

  (* ---- R1: conditions at their program points ---- *)
  Fixpoint cond_ok (T : tenv) (c : cond) : bool :=
    match c with
    | CTrue | CFalse => true
    | CAtom a _ b => match expr_vals T (ESub a b) with Some _ => true | None => false end
    | CNot c1 => cond_ok T c1
    | CAnd c1 c2 | COr c1 c2 => cond_ok T c1 && cond_ok T c2
    end.

  Fixpoint check_stmt (s : stmt) (T : tenv) : bool :=
    match s with
    | SIf bs els => check_branches bs T && check_block els T
    | _ => true
    end
  with check_block (b : block) (T : tenv) : bool :=
    match b with BNil => true | BCons s b' => check_stmt s T && check_block b' (aexec_stmt s T) end
  with check_branches (bs : branches) (T : tenv) : bool :=
    match bs with
    | BrNil => true
    | BrCons c b bs' => cond_ok T c && check_block b T && check_branches bs' T
    end.

  (* variables that receive a non-finite value at some assignment *)
  Definition nonfinite (T : tenv) (x : var) (r : rhs) : list var :=
    match tlookup (aset locked T x (rhs_vals T r)) x with Some _ => [] | None => [x] end.

  Fixpoint nf_stmt (s : stmt) (T : tenv) : list var :=
    match s with
    | SAssign x r => nonfinite T x r
    | SSimult l => flat_map (fun xr => nonfinite T (fst xr) (snd xr)) l
    | SIf bs els => nf_branches bs T ++ nf_block els T
    end
  with nf_block (b : block) (T : tenv) : list var :=
    match b with BNil => [] | BCons s b' => nf_stmt s T ++ nf_block b' (aexec_stmt s T) end
  with nf_branches (bs : branches) (T : tenv) : list var :=
    match bs with BrNil => [] | BrCons _ b bs' => nf_block b T ++ nf_branches bs' T end.
End Analysis.

Definition loop_env (p : prog) (D : tenv) : option tenv :=
  let locked := map fst D in
  afix locked fp_iterations (p_body p) (aexec_block locked (p_init p) D).

(* ---- initialisation ---- *)
Definition rhs_exprs (r : rhs) : list expr :=
  match r with
  | RChoice alts => flat_map (fun pe => [fst pe; snd pe]) alts
  | RDraw (DBern e) => [e]
  | RDraw (DCat ps) => ps
  | RDraw (DUnif _ _) => []
  | RDraw (DCont _ args) => args
  end.
Definition rhs_vars (r : rhs) : list var := flat_map vars_of (rhs_exprs r).

(* the initial block reads a program variable only after its assignment there (or a declared one) *)
Fixpoint init_reads_ok (vars : list var) (seen : list var) (l : list (var * rhs)) : bool :=
  match l with
  | [] => true
  | (x, r) :: l' =>
      forallb (fun y => negb (mem_str y vars) || mem_str y seen) (rhs_vars r)
      && init_reads_ok vars (x :: seen) l'
  end.

Definition initialised (p : prog) (D : tenv) : bool :=
  let iv := map fst (block_assigns (p_init p)) ++ map fst D in
  straight (p_init p)
  && forallb (fun xr : var * rhs => mem_str (fst xr) iv) (block_assigns (p_body p))
  && init_reads_ok (prog_vars p D) (map fst D) (block_assigns (p_init p)).

(* ---- R2: constant probabilities and parameters ---- *)
Definition const_expr (vars : list var) (e : expr) : bool :=
  forallb (fun y => negb (mem_str y vars)) (vars_of e).
Definition location_family (f : string) : bool :=
  String.eqb f "Normal" || String.eqb f "Uniform" || String.eqb f "Laplace".
Definition params_const_rhs (vars : list var) (r : rhs) : bool :=
  match r with
  | RChoice alts => forallb (fun pe => const_expr vars (fst pe)) alts
  | RDraw (DBern e) => const_expr vars e
  | RDraw (DCat ps) => forallb (const_expr vars) ps
  | RDraw (DUnif _ _) => true
  | RDraw (DCont f args) =>
      if String.eqb f "Uniform" then true                      (* a + (b-a)*U(0,1) *)
      else if location_family f then forallb (const_expr vars) (tl args)   (* mu + ... *)
      else forallb (const_expr vars) args
  end.
Definition params_const (p : prog) (D : tenv) : bool :=
  let vars := prog_vars p D in
  forallb (fun xr : var * rhs => params_const_rhs vars (snd xr))
          (block_assigns (p_init p) ++ block_assigns (p_body p)).

(* ---- R3: the dependency graph (model of SolvabilityChecker._get_dependency_graph) ---- *)
Definition const_draw (vars : list var) (r : rhs) : bool :=
  match r with
  | RDraw d => forallb (const_expr vars) (rhs_exprs r)
  | RChoice _ => false
  end.

(* _is_simple: finite, or a dist variable *)
Definition simple_var (p : prog) (D : tenv) (T : tenv) (x : var) : bool :=
  let vars := prog_vars p D in
  let locked := map fst D in
  let body := block_assigns (p_body p) in
  let mine := filter (fun xr : var * rhs => var_eqb (fst xr) x) body in
  (match tlookup T x with Some _ => true | None => false end
   && negb (mem_str x (nf_block locked (p_body p) T)))
  || (negb (Nat.eqb (List.length mine) 0) && forallb (fun xr => const_draw vars (snd xr)) mine).

Definition term_edges (isvar simple : var -> bool) (x : var) (m : mono) : list (var * var * nat) :=
  let m' := filter (fun yk : var * nat => isvar (fst yk) && Nat.ltb 0 (snd yk)) m in
  let inf := filter (fun yk : var * nat => negb (simple (fst yk))) m' in
  let cnt := List.length inf in
  let pw := match inf with (_, k) :: _ => k | [] => O end in
  let lab := if Nat.leb cnt 1 then (if Nat.eqb pw 1 || Nat.eqb cnt 0 then 1 else 2)%nat else 2%nat in
  map (fun yk : var * nat => (fst yk, x, lab)) m'.

Definition dep_edges (p : prog) (D : tenv) (T : tenv) : list (var * var * nat) :=
  let vars := prog_vars p D in
  let isvar := fun y => mem_str y vars in
  let simple := simple_var p D T in
  flat_map (fun xr : var * rhs =>
              match snd xr with
              | RChoice alts =>
                  flat_map (fun pe : expr * expr =>
                              flat_map (fun t : Qc * mono => term_edges isvar simple (fst xr) (snd t))
                                       (pclean (of_expr (snd pe)))) alts
              | RDraw _ => []
              end) (block_assigns (p_body p)).

Fixpoint index_of (x : var) (l : list var) : nat :=
  match l with [] => O | y :: l' => if var_eqb x y then O else S (index_of x l') end.

(* add_edge(v, u, e): adj[index u][index v] = max(adj, e) — the edge goes from the variable
   read to the variable assigned *)
Definition adj_of_edges (nodes : list var) (es : list (var * var * nat)) : nat -> nat -> nat :=
  fun a b =>
    fold_left (fun acc e => match e with (y, x, lab) =>
                 if Nat.eqb (index_of y nodes) a && Nat.eqb (index_of x nodes) b then Nat.max acc lab else acc end)
              es O.

Definition defective_vars (p : prog) (D : tenv) (T : tenv) : list var :=
  let nodes := prog_vars p D in
  map (fun i => nth i nodes "") (defective_list (List.length nodes) (adj_of_edges nodes (dep_edges p D T))).

Definition effective_vars (p : prog) (D : tenv) (T : tenv) : list var :=
  filter (fun x => negb (mem_str x (defective_vars p D T))) (prog_vars p D).

(* ---- the class ---- *)
Definition conditions_finite (p : prog) (D : tenv) (T : tenv) : bool :=
  cond_ok T (p_guard p) && check_block (map fst D) (p_body p) T.

Definition in_class_parts (p : prog) (D : tenv) : list bool :=
  match loop_env p D with
  | Some T => [initialised p D; params_const p D; true; conditions_finite p D T;
               match defective_vars p D T with [] => true | _ => false end]
  | None => [initialised p D; params_const p D; false; false; false]
  end.

Definition in_class (p : prog) (D : tenv) : bool := forallb (fun b => b) (in_class_parts p D).

Lemma in_class_unfold p D :
  in_class p D = true <->
  initialised p D = true /\ params_const p D = true /\
  exists T, loop_env p D = Some T /\ conditions_finite p D T = true /\ defective_vars p D T = [].
Proof.
  unfold in_class, in_class_parts. destruct (loop_env p D) as [T|]; cbn [forallb].
  - rewrite !andb_true_iff. split.
    + intros (H1 & H2 & _ & H4 & H5 & _). repeat split; auto. exists T. repeat split; auto.
      destruct (defective_vars p D T); [reflexivity | discriminate].
    + intros (H1 & H2 & T' & HT & H4 & H5). injection HT as <-. rewrite H5. repeat split; auto.
  - rewrite !andb_true_iff. split.
    + intros (_ & _ & H & _). discriminate.
    + intros (_ & _ & T' & HT & _). discriminate.
Qed.

(* R3 in the words of the README: an in-class program has no non-linear dependency on a cycle *)
Theorem in_class_no_nonlinear_cycle p D :
  in_class p D = true ->
  exists T, loop_env p D = Some T /\
    let nodes := prog_vars p D in
    let adj := adj_of_edges nodes (dep_edges p D T) in
    forall v u : nat, (v < List.length nodes)%nat -> (u < List.length nodes)%nat -> adj v u = 2%nat ->
      ~ reach (List.length nodes) adj u v.
Proof.
  intros H. apply in_class_unfold in H. destruct H as (_ & _ & T & HT & _ & Hd).
  exists T. split; [exact HT|]. cbn zeta.
  apply no_defective_iff. unfold defective_vars in Hd.
  destruct (defective_list _ _); [reflexivity | discriminate].
Qed.
