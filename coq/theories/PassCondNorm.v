(* C02, pass ConditionsNormalizer (program/transformer/conditions_normalizer.py,
   Atom/And/Or/Not.get_normalized in program/condition/*.py, utils/conditions.get_valid_values).

   Given the inferred finite types T, a reduced atom  x cop c  over a finitely typed x is
   replaced by  False  /  x == v  /  ((x == v1 \/ x == v2) \/ ...)  for the values v of T(x)
   with  v cop c ; And/Or/Not recurse, true/false stay.  The Bernoulli abstraction of atoms
   over variables WITHOUT a finite type (_try_abstract_failed_condition) is OUT of the model:
   [cn_cond] returns None there, as it does for a non-reduced atom (Polar raises
   NormalizingException).

   Theorems: on typed states the normalised condition has the same truth value; the truth
   value of an Or-chain does not depend on the order of its values (Python set pop order);
   for a flat program whose types are validated (Types.check_types) the normalised program
   has the same law at every iteration, for EVERY function of the state. *)
From Coq Require Import List String QArith Qcanon ZArith Bool Permutation.
From Polar Require Import Qcx Dist Syntax Sem Types PassGuard.
Import ListNotations.
Local Open Scope Qc_scope.

(* ---- the model ---- *)
Definition eq_atom (x : var) (v : Qc) : cond := CAtom (EVar x) Ceq (EConst v).

(* result = Atom(x == pop()); for v in rest: result = Or(result, Atom(x == v)) *)
Definition or_chain (x : var) (vs : list Qc) : cond :=
  match vs with
  | [] => CFalse
  | v :: vs' => fold_left (fun acc w => COr acc (eq_atom x w)) vs' (eq_atom x v)
  end.

(* utils/conditions.get_valid_values: {v in possible_values | v cop c} *)
Definition valid_values (vs : list Qc) (o : cop) (c : Qc) : list Qc :=
  filter (fun v => cop_holds o v c) vs.

Definition is_int (q : Qc) : bool := Pos.eqb (qden q) 1.

(* Atom.get_normalized; is_reduced = poly1.is_Symbol and poly2.is_Integer *)
Definition cn_atom (T : tenv) (a : expr) (o : cop) (b : expr) : option cond :=
  match a, b with
  | EVar x, EConst c =>
      if is_int c then
        match tlookup T x with
        | Some vs => Some (or_chain x (valid_values vs o c))
        | None => None            (* failed atom -> Bernoulli abstraction: not modelled *)
        end
      else None                   (* not reduced: NormalizingException *)
  | _, _ => None                  (* not reduced: NormalizingException *)
  end.

Fixpoint cn_cond (T : tenv) (c : cond) : option cond :=
  match c with
  | CTrue => Some CTrue
  | CFalse => Some CFalse
  | CAtom a o b => cn_atom T a o b
  | CNot c1 => match cn_cond T c1 with Some d => Some (CNot d) | None => None end
  | CAnd c1 c2 =>
      match cn_cond T c1, cn_cond T c2 with Some d1, Some d2 => Some (CAnd d1 d2) | _, _ => None end
  | COr c1 c2 =>
      match cn_cond T c1, cn_cond T c2 with Some d1, Some d2 => Some (COr d1 d2) | _, _ => None end
  end.

Definition cn_ga (T : tenv) (g : gassign) : option gassign :=
  match cn_cond T (ga_cond g) with
  | Some c => Some {| ga_var := ga_var g; ga_cond := c; ga_default := ga_default g; ga_rhs := ga_rhs g |}
  | None => None
  end.

Fixpoint cn_gas (T : tenv) (l : list gassign) : option (list gassign) :=
  match l with
  | [] => Some []
  | g :: l' =>
      match cn_ga T g, cn_gas T l' with Some g', Some l'' => Some (g' :: l'') | _, _ => None end
  end.

(* ConditionsNormalizer.execute: initial block, then loop body *)
Definition cn_pass (T : tenv) (fp : flatprog) : option flatprog :=
  match cn_gas T (fp_init fp), cn_gas T (fp_body fp) with
  | Some i, Some b => Some {| fp_init := i; fp_body := b |}
  | _, _ => None
  end.

(* ---- Or-chains ---- *)
Definition in_vals (q : Qc) (vs : list Qc) : bool := existsb (fun v => Qc_eqb q v) vs.

Lemma holds_chain_acc x s vs acc :
  holds (fold_left (fun a w => COr a (eq_atom x w)) vs acc) s = holds acc s || in_vals (s x) vs.
Proof.
  revert acc; induction vs as [|v vs IH]; intros acc; cbn [fold_left in_vals existsb].
  - rewrite orb_false_r; reflexivity.
  - rewrite IH. cbn [holds eq_atom eval cop_holds]. unfold in_vals. rewrite orb_assoc. reflexivity.
Qed.

Theorem holds_or_chain x vs s : holds (or_chain x vs) s = in_vals (s x) vs.
Proof.
  destruct vs as [|v vs]; [reflexivity|].
  unfold or_chain. rewrite holds_chain_acc. reflexivity.
Qed.

Lemma in_vals_In q vs : in_vals q vs = true <-> In q vs.
Proof.
  unfold in_vals. rewrite existsb_exists. split.
  - intros [v [Hin He]]. apply Qc_eqb_true in He. subst. exact Hin.
  - intros Hin. exists q. split; [exact Hin | apply Qc_eqb_refl].
Qed.

(* the indicator of an Or-chain depends on the SET of its values only: Python's set pop /
   iteration order is semantically irrelevant *)
Theorem or_chain_order_irrelevant x vs vs' :
  (forall v, In v vs <-> In v vs') -> forall s, holds (or_chain x vs) s = holds (or_chain x vs') s.
Proof.
  intros H s. rewrite !holds_or_chain.
  destruct (in_vals (s x) vs) eqn:E1, (in_vals (s x) vs') eqn:E2; try reflexivity.
  - apply in_vals_In, H, in_vals_In in E1. congruence.
  - apply in_vals_In, H, in_vals_In in E2. congruence.
Qed.

Corollary or_chain_perm x vs vs' :
  Permutation vs vs' -> forall s, holds (or_chain x vs) s = holds (or_chain x vs') s.
Proof.
  intros P. apply or_chain_order_irrelevant. intros v; split; intros Hin.
  - eapply Permutation_in; eauto.
  - eapply Permutation_in; [apply Permutation_sym; exact P | exact Hin].
Qed.

(* ---- conditions ---- *)
Lemma in_valid_values q vs o c : In q vs -> in_vals q (valid_values vs o c) = cop_holds o q c.
Proof.
  intros Hin. unfold valid_values. destruct (cop_holds o q c) eqn:Ec.
  - apply in_vals_In. apply filter_In. split; assumption.
  - destruct (in_vals q (filter (fun v => cop_holds o v c) vs)) eqn:E; [|reflexivity].
    apply in_vals_In, filter_In in E. destruct E as [_ E]. congruence.
Qed.

Theorem cn_cond_sound T c c' s : typed T s -> cn_cond T c = Some c' -> holds c' s = holds c s.
Proof.
  intros HT; revert c'; induction c as [| |a o b|c1 IH|c1 IH1 c2 IH2|c1 IH1 c2 IH2]; cbn [cn_cond]; intros c' H.
  - injection H as <-; reflexivity.
  - injection H as <-; reflexivity.
  - unfold cn_atom in H. destruct a as [|x| | |]; try discriminate. destruct b as [q| | | |]; try discriminate.
    destruct (is_int q); [|discriminate].
    destruct (tlookup T x) as [vs|] eqn:Ex; [|discriminate]. injection H as <-.
    rewrite holds_or_chain. cbn [holds eval]. apply in_valid_values. apply HT; exact Ex.
  - destruct (cn_cond T c1) as [d|]; [|discriminate]. injection H as <-.
    cbn [holds]. rewrite (IH d eq_refl); reflexivity.
  - destruct (cn_cond T c1) as [d1|]; [|discriminate]. destruct (cn_cond T c2) as [d2|]; [|discriminate].
    injection H as <-. cbn [holds]. rewrite (IH1 d1 eq_refl), (IH2 d2 eq_refl); reflexivity.
  - destruct (cn_cond T c1) as [d1|]; [|discriminate]. destruct (cn_cond T c2) as [d2|]; [|discriminate].
    injection H as <-. cbn [holds]. rewrite (IH1 d1 eq_refl), (IH2 d2 eq_refl); reflexivity.
Qed.

(* normalising an already normalised condition changes nothing semantically and the result
   is again normal (Polar normalises shared And/Or/Not objects once per sharing assignment) *)
Fixpoint is_normal (c : cond) : bool :=
  match c with
  | CTrue | CFalse => true
  | CAtom (EVar _) Ceq (EConst _) => true
  | CAtom _ _ _ => false
  | CNot c1 => is_normal c1
  | CAnd c1 c2 | COr c1 c2 => is_normal c1 && is_normal c2
  end.

Lemma or_chain_acc_normal x vs acc :
  is_normal acc = true -> is_normal (fold_left (fun a w => COr a (eq_atom x w)) vs acc) = true.
Proof.
  revert acc; induction vs as [|v vs IH]; intros acc H; cbn [fold_left]; [exact H|].
  apply IH. cbn [is_normal eq_atom]. rewrite H. reflexivity.
Qed.

Theorem cn_cond_normal T c c' : cn_cond T c = Some c' -> is_normal c' = true.
Proof.
  revert c'; induction c as [| |a o b|c1 IH|c1 IH1 c2 IH2|c1 IH1 c2 IH2]; cbn [cn_cond]; intros c' H.
  - injection H as <-; reflexivity.
  - injection H as <-; reflexivity.
  - unfold cn_atom in H. destruct a as [|x| | |]; try discriminate. destruct b as [q| | | |]; try discriminate.
    destruct (is_int q); [|discriminate].
    destruct (tlookup T x) as [vs|]; [|discriminate]. injection H as <-.
    unfold or_chain. destruct (valid_values vs o q) as [|v l]; [reflexivity|].
    apply or_chain_acc_normal. reflexivity.
  - destruct (cn_cond T c1) as [d|]; [|discriminate]. injection H as <-. cbn [is_normal]. apply IH; reflexivity.
  - destruct (cn_cond T c1) as [d1|]; [|discriminate]. destruct (cn_cond T c2) as [d2|]; [|discriminate].
    injection H as <-. cbn [is_normal]. rewrite (IH1 d1 eq_refl), (IH2 d2 eq_refl); reflexivity.
  - destruct (cn_cond T c1) as [d1|]; [|discriminate]. destruct (cn_cond T c2) as [d2|]; [|discriminate].
    injection H as <-. cbn [is_normal]. rewrite (IH1 d1 eq_refl), (IH2 d2 eq_refl); reflexivity.
Qed.

(* ---- programs ---- *)
Section CondNorm.
  Variable law : string -> list Qc -> dist Qc.

  Lemma cn_ga_exec T g g' s : typed T s -> cn_ga T g = Some g' -> exec_ga law g' s = exec_ga law g s.
  Proof.
    unfold cn_ga. intros HT H. destruct (cn_cond T (ga_cond g)) as [c|] eqn:Ec; [|discriminate].
    injection H as <-. unfold exec_ga. cbn [ga_cond ga_var ga_default ga_rhs].
    rewrite (cn_cond_sound T _ _ s HT Ec). reflexivity.
  Qed.

  Lemma cn_ga_check T g g' : cn_ga T g = Some g' -> check_ga T g = true -> ga_var g' = ga_var g.
  Proof.
    unfold cn_ga. destruct (cn_cond T (ga_cond g)); intros H _; [injection H as <-; reflexivity | discriminate].
  Qed.

  (* a block whose intermediate states stay typed (validated types) *)
  Lemma cn_gas_exec T l l' :
    cn_gas T l = Some l' -> forallb (check_ga T) l = true ->
    forall s, typed T s -> deq (exec_gas law l' s) (exec_gas law l s).
  Proof.
    revert l'; induction l as [|g l IH]; cbn [cn_gas]; intros l' H Hc s HT.
    - injection H as <-. apply deq_refl.
    - destruct (cn_ga T g) as [g'|] eqn:Eg; [|discriminate].
      destruct (cn_gas T l) as [l''|] eqn:El; [|discriminate]. injection H as <-.
      cbn [forallb] in Hc. apply andb_true_iff in Hc. destruct Hc as [Hg Hl].
      cbn [exec_gas]. rewrite (cn_ga_exec T g g' s HT Eg).
      intros f. rewrite !E_bind. apply E_ext_in. intros w s1 Hin.
      apply (IH l'' eq_refl Hl s1).
      eapply check_ga_sound; eauto. exists w; exact Hin.
  Qed.

  (* the initial block: validated types force its conditions to be literally true *)
  Lemma init_env_true D L l L' : init_env D L l = Some L' -> forall g, In g l -> ga_cond g = CTrue.
  Proof.
    revert L; induction l as [|g l IH]; cbn [init_env]; intros L H g0 Hin; [destruct Hin|].
    destruct (ga_cond g) eqn:Ec; try discriminate.
    destruct Hin as [<-|Hin]; [exact Ec|].
    destruct (rhs_set all_vars (L ++ D) (ga_rhs g)); eapply IH; eauto.
  Qed.

  Lemma cn_gas_true T l l' : (forall g, In g l -> ga_cond g = CTrue) -> cn_gas T l = Some l' -> l' = l.
  Proof.
    revert l'; induction l as [|g l IH]; cbn [cn_gas]; intros l' Ht H.
    - injection H as <-; reflexivity.
    - destruct (cn_ga T g) as [g'|] eqn:Eg; [|discriminate].
      destruct (cn_gas T l) as [l''|] eqn:El; [|discriminate]. injection H as <-.
      rewrite (IH l'' (fun g0 H0 => Ht g0 (or_intror H0)) eq_refl). f_equal.
      pose proof (Ht g (or_introl eq_refl)) as Hg. unfold cn_ga in Eg.
      destruct g as [x c d r]. cbn in Hg. subst c. cbn in Eg. injection Eg as <-. reflexivity.
  Qed.

  Lemma cn_pass_init T fp fp' :
    cn_pass T fp = Some fp' -> check_types fp T = true -> fp_init fp' = fp_init fp.
  Proof.
    unfold cn_pass, check_types, check_init. intros H Hc.
    destruct (cn_gas T (fp_init fp)) as [i|] eqn:Ei; [|discriminate].
    destruct (cn_gas T (fp_body fp)) as [b|] eqn:Eb; [|discriminate]. injection H as <-. cbn [fp_init].
    apply andb_true_iff in Hc. destruct Hc as [Hi _].
    destruct (init_env (declared (map ga_var (fp_init fp)) T) [] (fp_init fp)) as [L|] eqn:EL; [|discriminate].
    eapply cn_gas_true; [|exact Ei]. eapply init_env_true; eauto.
  Qed.

  (* the variables assigned in the initial block are unchanged, so [init_ok] transfers *)
  Theorem cn_pass_preserves T fp fp' :
    cn_pass T fp = Some fp' -> check_types fp T = true ->
    forall s0, init_ok fp T s0 ->
    forall n, deq (frun law fp' n s0) (frun law fp n s0).
  Proof.
    intros H Hc s0 H0 n. pose proof (cn_pass_init T fp fp' H Hc) as Hinit.
    induction n as [|n IH]; cbn [frun].
    - rewrite Hinit. apply deq_refl.
    - intros f. rewrite !E_bind. rewrite (IH (fun s => E (fstep law fp' s) f)).
      apply E_ext_in. intros w s Hin.
      assert (HT : typed T s) by (eapply check_types_sound; eauto; exists w; exact Hin).
      unfold fstep. unfold cn_pass in H.
      destruct (cn_gas T (fp_init fp)) as [i|]; [|discriminate].
      destruct (cn_gas T (fp_body fp)) as [b|] eqn:Eb; [|discriminate]. injection H as <-. cbn [fp_body].
      unfold check_types in Hc. apply andb_true_iff in Hc. destruct Hc as [_ Hb].
      apply (cn_gas_exec T _ _ Eb Hb s HT f).
  Qed.
End CondNorm.

(* ---- structural comparison with Polar's output (used by the correspondence check) ----
   conditions are compared up to the order (and multiplicity) of the values of an Or-chain
   over one variable; everything else literally *)
Fixpoint chain_vals (c : cond) : option (var * list Qc) :=
  match c with
  | CAtom (EVar x) Ceq (EConst v) => Some (x, [v])
  | COr c1 (CAtom (EVar y) Ceq (EConst v)) =>
      match chain_vals c1 with
      | Some (x, vs) => if var_eqb x y then Some (x, vs ++ [v]) else None
      | None => None
      end
  | _ => None
  end.

Fixpoint expr_eqb (a b : expr) : bool :=
  match a, b with
  | EConst p, EConst q => Qc_eqb p q
  | EVar x, EVar y => var_eqb x y
  | EAdd a1 a2, EAdd b1 b2 | EMul a1 a2, EMul b1 b2 => expr_eqb a1 b1 && expr_eqb a2 b2
  | EPow a1 k, EPow b1 j => expr_eqb a1 b1 && Nat.eqb k j
  | _, _ => false
  end.
Definition cop_eqb (a b : cop) : bool :=
  match a, b with Ceq, Ceq | Cle, Cle | Cge, Cge | Clt, Clt | Cgt, Cgt => true | _, _ => false end.

Fixpoint cond_eq_mod (c d : cond) : bool :=
  match chain_vals c, chain_vals d with
  | Some (x, vs), Some (y, ws) => var_eqb x y && subset vs ws && subset ws vs
  | _, _ =>
      match c, d with
      | CTrue, CTrue | CFalse, CFalse => true
      | CAtom a o b, CAtom a' o' b' => expr_eqb a a' && cop_eqb o o' && expr_eqb b b'
      | CNot c1, CNot d1 => cond_eq_mod c1 d1
      | CAnd c1 c2, CAnd d1 d2 | COr c1 c2, COr d1 d2 => cond_eq_mod c1 d1 && cond_eq_mod c2 d2
      | _, _ => false
      end
  end.
