(* C12 — vocabulary of the sampler descriptors.

   harness/translate_sim.py reads every  program/distribution/<family>.py : sample  and
   get_support  with Python's ast and writes them down as terms of the types below
   (coq/gen/SimSamplers.v).  This file gives the terms their meaning:

   * a descriptor [SScipy fam shape loc scale post] is the call
        post * scipy.stats.<fam>.rvs(shape..., loc=loc, scale=scale)
     whose result is  post * (loc + scale * Z)  with Z distributed as the STANDARD member of
     the family (scipy's documented location-scale convention).  The standard members'
     supports, means and variances are the specification table [std_supp]/[std_mean_var]
     (trusted: scipy.stats documentation);
   * [SChoicesRange w] is  random.choices(range(len(w)), weights=w, k=1)[0]  : index i with
     probability w_i / sum(w);   [SChoice vs] is  random.choice(vs)  : uniform on vs.

   Parameters are rationals; math.sqrt is an uninterpreted function [sq] about which the
   theorems assume only  sq x * sq x = x  and  0 <= sq x  where they need it. *)
From Coq Require Import List String QArith Qcanon ZArith Bool.
From Polar Require Import Qcx Dist Syntax Sem.
Import ListNotations.
Local Open Scope Qc_scope.

Inductive pexp :=
| XParam (x : string)
| XConst (q : Qc)
| XAdd (a b : pexp) | XSub (a b : pexp) | XMul (a b : pexp) | XDiv (a b : pexp)
| XSqrt (a : pexp).

Inductive sdesc :=
| SScipy (family : string) (shape : list pexp) (loc scale post : option pexp)
| SChoicesRange (weights : string)
| SChoice (values : string).

Inductive xbound := BNegInf | BFin (e : pexp) | BPosInf.
Inductive sitem :=
| SPoint (e : pexp)
| SInterval (lo hi : xbound)
| SRangeLen (name : string)       (* {sympify(v) for v in range(len(self.<name>))} *)
| SValues (name : string).        (* set(self.<name>) *)

Section Den.
  Variable sq : Qc -> Qc.
  Variable env : string -> Qc.            (* scalar attributes of the distribution object *)
  Variable envl : string -> list Qc.      (* list attributes (probabilities, values) *)

  Fixpoint xeval (e : pexp) : Qc :=
    match e with
    | XParam x => env x
    | XConst q => q
    | XAdd a b => xeval a + xeval b
    | XSub a b => xeval a - xeval b
    | XMul a b => xeval a * xeval b
    | XDiv a b => xeval a / xeval b
    | XSqrt a => sq (xeval a)
    end.

  Definition oget (o : option pexp) (d : Qc) : Qc := match o with Some e => xeval e | None => d end.

  (* value returned by the sample method when the standard variate is z *)
  Definition realise (d : sdesc) (z : Qc) : Qc :=
    match d with
    | SScipy _ _ loc scale post => oget post 1 * (oget loc 0 + oget scale 1 * z)
    | _ => z
    end.

  (* ---- specification table of scipy.stats standard families (trusted) ---- *)
  Definition std_supp (family : string) (shape : list Qc) (z : Qc) : Prop :=
    if String.eqb family "bernoulli" then z = 0 \/ z = 1
    else if String.eqb family "norm" then True
    else if String.eqb family "laplace" then True
    else if String.eqb family "expon" then 0 <= z
    else if String.eqb family "gamma" then 0 <= z
    else if String.eqb family "beta" then 0 <= z /\ z <= 1
    else if String.eqb family "uniform" then 0 <= z /\ z <= 1
    else if String.eqb family "truncnorm" then
           match shape with [a; b] => a <= z /\ z <= b | _ => False end     (* STANDARDISED bounds *)
    else False.

  Definition std_mean_var (family : string) (shape : list Qc) : option (Qc * Qc) :=
    if String.eqb family "bernoulli" then match shape with [p] => Some (p, p * (1 - p)) | _ => None end
    else if String.eqb family "norm" then match shape with [] => Some (0, 1) | _ => None end
    else if String.eqb family "laplace" then match shape with [] => Some (0, 1 + 1) | _ => None end
    else if String.eqb family "expon" then match shape with [] => Some (1, 1) | _ => None end
    else if String.eqb family "gamma" then match shape with [k] => Some (k, k) | _ => None end
    else if String.eqb family "beta" then
           match shape with
           | [a; b] => Some (a / (a + b), a * b / ((a + b) * (a + b) * (a + b + 1)))
           | _ => None end
    else if String.eqb family "uniform" then match shape with [] => Some (/ (1 + 1), / (mkq 12 1)) | _ => None end
    else None.

  Definition desc_std_supp (d : sdesc) (z : Qc) : Prop :=
    match d with
    | SScipy fam shape _ _ _ => std_supp fam (map xeval shape) z
    | _ => False
    end.

  (* mean and variance of the sampled value *)
  Definition sampler_mean_var (d : sdesc) : option (Qc * Qc) :=
    match d with
    | SScipy fam shape loc scale post =>
        match std_mean_var fam (map xeval shape) with
        | Some (m, v) =>
            let c := oget post 1 in let s := oget scale 1 in
            Some (c * (oget loc 0 + s * m), c * c * s * s * v)
        | None => None
        end
    | _ => None
    end.

  (* the finite law of the two random-module samplers *)
  Definition normalise_w (d : dist Qc) : dist Qc := map (fun p => (fst p / mass d, snd p)) d.
  Definition desc_law (d : sdesc) : dist Qc :=
    match d with
    | SChoicesRange w => normalise_w (cat_law (envl w) 0)
    | SChoice vs => let l := envl vs in map (fun v => (/ qnat (List.length l), v)) l
    | SScipy _ _ _ _ _ => []
    end.

  (* ---- supports as returned by get_support ---- *)
  Definition le_lo (b : xbound) (v : Qc) : Prop :=
    match b with BNegInf => True | BFin e => xeval e <= v | BPosInf => False end.
  Definition le_hi (v : Qc) (b : xbound) : Prop :=
    match b with BNegInf => False | BFin e => v <= xeval e | BPosInf => True end.
  Definition in_item (it : sitem) (v : Qc) : Prop :=
    match it with
    | SPoint e => v = xeval e
    | SInterval lo hi => le_lo lo v /\ le_hi v hi
    | SRangeLen n => exists i, (i < List.length (envl n))%nat /\ v = qnat i
    | SValues n => In v (envl n)
    end.
  Definition in_supp (items : list sitem) (v : Qc) : Prop := Exists (fun it => in_item it v) items.
End Den.
