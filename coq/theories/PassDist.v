(* C02, pass DistTransformer (program/transformer/dist_transformer.py): location-scale
   rewriting of continuous draws whose parameters mention variables,

     x = Normal(mu, s2)      ~>  t = Normal(0, 1);    x = mu + sqrt(s2)*t      (s2 a constant)
     x = Uniform(a, b)       ~>  t = Uniform(0, 1);   x = a + (b - a)*t
     x = Laplace(mu, b)      ~>  t = Laplace(0, b);   x = mu + t
     x = Exponential(c/e)    ~>  t = Exponential(c);  x = e*t                  (NOT in the model)

   on the statement TREE of a source program (the pass runs before IfTransformer), with fresh
   variables t = `_u<k>` from Polar's global counter — here: from a supply of names.

   Parameter order of a DCont draw = alphabetical order of the Python attribute names, as
   produced by harness/tasks_core.dump_dist:  Normal [mu; sigma2], Uniform [a; b],
   Laplace [b; mu], Exponential [lamb].

   Outside the model ([None]): Normal with a variance that is not a constant with a rational
   square root (needs sqrt), Exponential with a non-constant rate (rate 1/e is not a
   polynomial expression), a continuous draw inside a simultaneous assignment.

   Theorem [dist_pass_preserves]: parametric in the law of the continuous families, under
   the three location-scale equations of [law] (Section hypotheses, no axiom): for every
   program, every n, every start state and every f that ignores the fresh names, the
   expectation of f at iteration n is unchanged. *)
From Coq Require Import List String QArith Qcanon ZArith Bool Ring.
From Polar Require Import Qcx Dist Syntax Sem Types Poly PassGuard PassCNBase.
Import ListNotations.
Local Open Scope Qc_scope.
Local Open Scope string_scope.

(* ---- relational lifting at the level of expectations ---- *)
Definition drel {A B} (R : A -> B -> Prop) (d : dist A) (d' : dist B) : Prop :=
  forall f g, (forall a b, R a b -> f a = g b) -> E d f = E d' g.

Lemma drel_ret {A B} (R : A -> B -> Prop) a b : R a b -> drel R (ret a) (ret b).
Proof. intros H f g Hfg. rewrite !E_ret. apply Hfg, H. Qed.
Lemma drel_bind {A A' B B'} (R : A -> A' -> Prop) (R' : B -> B' -> Prop) d d' k k' :
  drel R d d' -> (forall a a', R a a' -> drel R' (k a) (k' a')) -> drel R' (bind d k) (bind d' k').
Proof.
  intros Hd Hk f g Hfg. rewrite !E_bind. apply Hd. intros a a' Ha. apply (Hk a a' Ha f g Hfg).
Qed.
Lemma drel_deq_l {A B} (R : A -> B -> Prop) d1 d2 d' : deq d1 d2 -> drel R d2 d' -> drel R d1 d'.
Proof. intros H1 H2 f g Hfg. rewrite (H1 f). apply H2, Hfg. Qed.
Lemma drel_deq_r {A B} (R : A -> B -> Prop) d d1 d2 : deq d1 d2 -> drel R d d2 -> drel R d d1.
Proof. intros H1 H2 f g Hfg. rewrite (H1 g). apply H2, Hfg. Qed.
Lemma drel_same {A B C} (R : B -> C -> Prop) (d : dist A) k k' :
  (forall a, drel R (k a) (k' a)) -> drel R (bind d k) (bind d k').
Proof. intros H f g Hfg. rewrite !E_bind. apply E_ext. intros a. apply (H a f g Hfg). Qed.

Definition dmap {A B} (h : A -> B) (d : dist A) : dist B := map (fun p => (fst p, h (snd p))) d.
Lemma E_dmap {A B} (h : A -> B) d f : E (dmap h d) f = E d (fun a => f (h a)).
Proof. induction d as [|[w a] d IH]; cbn [dmap map E fst snd]; [reflexivity | fold (dmap h d); rewrite IH; reflexivity]. Qed.

(* ---- square roots of rational constants (checked, hence sound by construction) ---- *)
Definition qsqrt (c : Qc) : option Qc :=
  let r := mkq (Z.sqrt (qnum c)) (Pos.sqrt (qden c)) in
  if Qc_eqb (r * r) c then Some r else None.
Lemma qsqrt_sound c r : qsqrt c = Some r -> r * r = c.
Proof.
  unfold qsqrt. destruct (Qc_eqb_spec (mkq (Z.sqrt (qnum c)) (Pos.sqrt (qden c)) * mkq (Z.sqrt (qnum c)) (Pos.sqrt (qden c))) c) as [H|H];
    intros E0; [injection E0 as <-; exact H | discriminate].
Qed.

Lemma upd_same_t (s : state) t z : upd s t z t = z.
Proof. unfold upd, var_eqb. rewrite String.eqb_refl. reflexivity. Qed.
Lemma one_q : mkq 1 1 = 1. Proof. apply Qc_is_canon. reflexivity. Qed.
Lemma zero_q : mkq 0 1 = 0. Proof. apply Qc_is_canon. reflexivity. Qed.
Lemma neg_one_q : mkq (-1) 1 = - (1).
Proof. apply Qc_is_canon. reflexivity. Qed.

(* ---- the model ---- *)
Definition is_closed (e : expr) : bool := match vars_of e with [] => true | _ => false end.
Definition qe (z : Z) : expr := EConst (mkq z 1).

Inductive dt_result :=
| DtKeep                                     (* returned unchanged *)
| DtRewrite (d0 : draw) (e : var -> expr)    (* t = d0 ; x = e t *)
| DtOut.                                     (* outside the model *)

Definition dt_draw (f : string) (args : list expr) : dt_result :=
  if String.eqb f "Normal" then
    match args with
    | [mu; s2] =>
        if is_closed mu && is_closed s2 then DtKeep
        else match s2 with
             | EConst c => match qsqrt c with
                           | Some r => DtRewrite (DCont "Normal" [qe 0; qe 1])
                                                 (fun t => EAdd mu (EMul (EConst r) (EVar t)))
                           | None => DtOut
                           end
             | _ => DtOut
             end
    | _ => DtOut
    end
  else if String.eqb f "Uniform" then
    match args with
    | [a; b] =>
        if is_closed a && is_closed b then DtKeep
        else DtRewrite (DCont "Uniform" [qe 0; qe 1])
                       (fun t => EAdd a (EMul (ESub b a) (EVar t)))
    | _ => DtOut
    end
  else if String.eqb f "Laplace" then
    match args with
    | [b; mu] =>
        if is_closed mu then DtKeep
        else DtRewrite (DCont "Laplace" [b; qe 0]) (fun t => EAdd mu (EVar t))
    | _ => DtOut
    end
  else if String.eqb f "Exponential" then
    match args with
    | [lamb] => if is_closed lamb then DtKeep else DtOut
    | _ => DtOut
    end
  else DtKeep.

Definition has_cont (r : rhs) : bool := match r with RDraw (DCont _ _) => true | _ => false end.

Fixpoint dt_stmt (ns : list var) (st : stmt) : option (block * list var) :=
  match st with
  | SAssign x (RDraw (DCont f args)) =>
      match dt_draw f args with
      | DtKeep => Some (BCons st BNil, ns)
      | DtRewrite d0 e =>
          match ns with
          | t :: ns' => Some (BCons (SAssign t (RDraw d0)) (BCons (SAssign x (RDet (e t))) BNil), ns')
          | [] => None
          end
      | DtOut => None
      end
  | SAssign _ _ => Some (BCons st BNil, ns)
  | SSimult l => if existsb (fun xr => has_cont (snd xr)) l then None else Some (BCons st BNil, ns)
  | SIf bs els =>
      match dt_branches ns bs with
      | Some (bs', ns1) =>
          match dt_block ns1 els with
          | Some (els', ns2) => Some (BCons (SIf bs' els') BNil, ns2)
          | None => None
          end
      | None => None
      end
  end
with dt_block (ns : list var) (b : block) : option (block * list var) :=
  match b with
  | BNil => Some (BNil, ns)
  | BCons st b' =>
      match dt_stmt ns st with
      | Some (frag, ns1) =>
          match dt_block ns1 b' with
          | Some (b'', ns2) => Some (block_app frag b'', ns2)
          | None => None
          end
      | None => None
      end
  end
with dt_branches (ns : list var) (bs : branches) : option (branches * list var) :=
  match bs with
  | BrNil => Some (BrNil, ns)
  | BrCons c b bs' =>
      match dt_block ns b with
      | Some (b', ns1) =>
          match dt_branches ns1 bs' with
          | Some (bs'', ns2) => Some (BrCons c b' bs'', ns2)
          | None => None
          end
      | None => None
      end
  end.

(* TreeTransformer: children "initial" then "loop_body"; the guard is not touched *)
Definition dt_prog (ns : list var) (p : prog) : option (prog * list var) :=
  match dt_block ns (p_init p) with
  | Some (i, ns1) =>
      match dt_block ns1 (p_body p) with
      | Some (b, ns2) => Some ({| p_init := i; p_guard := p_guard p; p_body := b |}, ns2)
      | None => None
      end
  | None => None
  end.

(* ---- every variable occurring in a program ---- *)
Fixpoint simult_vars (l : list (var * rhs)) : list var :=
  match l with [] => [] | (x, r) :: l' => x :: rvars r ++ simult_vars l' end.
Fixpoint stmt_vars (st : stmt) : list var :=
  match st with
  | SAssign x r => x :: rvars r
  | SSimult l => simult_vars l
  | SIf bs els => branches_vars bs ++ block_vars els
  end
with block_vars (b : block) : list var :=
  match b with BNil => [] | BCons st b' => stmt_vars st ++ block_vars b' end
with branches_vars (bs : branches) : list var :=
  match bs with BrNil => [] | BrCons c b bs' => cvars c ++ block_vars b ++ branches_vars bs' end.
Definition prog_vars (p : prog) : list var := block_vars (p_init p) ++ cvars (p_guard p) ++ block_vars (p_body p).

(* the hypothesis: the supplied names do not occur in the program *)
Definition fresh_ok (ns : list var) (p : prog) : bool := disjointb (prog_vars p) ns.

Section DistLS.
  Variable law : string -> list Qc -> dist Qc.
  (* location-scale equations of the continuous families (what DistTransformer relies on) *)
  Hypothesis law_normal : forall m r : Qc,
    deq (law "Normal" [m; r * r]) (dmap (fun z => m + r * z) (law "Normal" [0; 1])).
  Hypothesis law_uniform : forall a b : Qc,
    deq (law "Uniform" [a; b]) (dmap (fun z => a + (b - a) * z) (law "Uniform" [0; 1])).
  Hypothesis law_laplace : forall b m : Qc,
    deq (law "Laplace" [b; m]) (dmap (fun z => m + z) (law "Laplace" [b; 0])).

  Variable names : list var.
  (* states that agree outside the fresh names *)
  Definition Rn (s s' : state) : Prop := forall x, ~ In x names -> s x = s' x.

  Lemma Rn_upd s s' x v : Rn s s' -> Rn (upd s x v) (upd s' x v).
  Proof. intros H y Hy. unfold upd. destruct (var_eqb y x); [reflexivity | apply H, Hy]. Qed.
  Lemma Rn_upd_fresh s s' t v : Rn s s' -> In t names -> Rn s (upd s' t v).
  Proof.
    intros H Ht y Hy. unfold upd. destruct (var_eqb y t) eqn:E0; [|apply H, Hy].
    apply String.eqb_eq in E0. subst. contradiction.
  Qed.

  Definition avoids (vs : list var) : Prop := forall x, In x vs -> ~ In x names.

  Lemma eval_Rn e s s' : Rn s s' -> avoids (vars_of e) -> eval e s = eval e s'.
  Proof. intros H Ha. apply eval_ext. intros x Hx. apply H, Ha, Hx. Qed.
  Lemma holds_Rn c s s' : Rn s s' -> avoids (cvars c) -> holds c s = holds c s'.
  Proof.
    intros H. induction c as [| |a o b|c1 IH|c1 IH1 c2 IH2|c1 IH1 c2 IH2]; cbn [holds cvars]; intros Ha; try reflexivity.
    - rewrite (eval_Rn a s s' H), (eval_Rn b s s' H); [reflexivity| |]; intros x Hx; apply Ha, in_or_app; auto.
    - rewrite IH; [reflexivity | exact Ha].
    - rewrite IH1, IH2; [reflexivity| |]; intros x Hx; apply Ha, in_or_app; auto.
    - rewrite IH1, IH2; [reflexivity| |]; intros x Hx; apply Ha, in_or_app; auto.
  Qed.
  Lemma map_eval_Rn l s s' : Rn s s' -> avoids (flat_map vars_of l) ->
    map (fun e => eval e s) l = map (fun e => eval e s') l.
  Proof.
    intros H. induction l as [|e l IH]; cbn [map flat_map]; intros Ha; [reflexivity|].
    rewrite (eval_Rn e s s' H), IH; [reflexivity| |]; intros x Hx; apply Ha, in_or_app; auto.
  Qed.
  Lemma sample_Rn r s s' : Rn s s' -> avoids (rvars r) -> sample law r s = sample law r s'.
  Proof.
    intros H. destruct r as [alts|d]; cbn [sample rvars]; intros Ha.
    - induction alts as [|[p e] alts IH]; cbn [map flat_map fst snd] in *; [reflexivity|].
      rewrite IH by (intros x Hx; apply Ha, in_or_app; auto).
      rewrite (eval_Rn p s s' H), (eval_Rn e s s' H); [reflexivity| |]; intros x Hx; apply Ha, in_or_app; left; apply in_or_app; auto.
    - destruct d as [p|ps|a b|f args]; cbn [draw_law dvars] in *.
      + rewrite (eval_Rn p s s' H Ha). reflexivity.
      + rewrite (map_eval_Rn ps s s' H Ha). reflexivity.
      + reflexivity.
      + rewrite (map_eval_Rn args s s' H Ha). reflexivity.
  Qed.

  Lemma assign_Rn x r s s' : Rn s s' -> avoids (rvars r) ->
    drel Rn (exec_stmt law (SAssign x r) s) (exec_stmt law (SAssign x r) s').
  Proof.
    intros H Ha. cbn [exec_stmt]. rewrite (sample_Rn r s s' H Ha).
    apply drel_same. intros v. apply drel_ret, Rn_upd, H.
  Qed.

  Lemma simult_Rn l : forall s s' t t', Rn s s' -> Rn t t' -> avoids (simult_vars l) ->
    drel Rn (exec_simult law l s t) (exec_simult law l s' t').
  Proof.
    induction l as [|[x r] l IH]; intros s s' t t' Hs Ht Ha; cbn [exec_simult].
    - apply drel_ret, Ht.
    - cbn [simult_vars] in Ha. rewrite (sample_Rn r s s' Hs) by (intros y Hy; apply Ha; right; apply in_or_app; auto).
      apply drel_same. intros v. apply IH; [exact Hs | apply Rn_upd, Ht|].
      intros y Hy. apply Ha. right. apply in_or_app; auto.
  Qed.

  (* executing a concatenation *)
  Lemma exec_block_app b1 b2 s : deq (exec_block law (block_app b1 b2) s) (bind (exec_block law b1 s) (exec_block law b2)).
  Proof.
    revert s. induction b1 as [|st b1 IH]; intros s f; cbn [block_app exec_block].
    - rewrite E_bind, E_ret. reflexivity.
    - rewrite !E_bind. apply E_ext. intros s1. rewrite (IH s1 f), E_bind. reflexivity.
  Qed.

  Lemma det_exec x e s : deq (exec_stmt law (SAssign x (RDet e)) s) (ret (upd s x (eval e s))).
  Proof. intros f. cbn [exec_stmt RDet sample map fst snd eval bind]. rewrite E_app, E_dscale, !E_ret. cbn [E]. rewrite one_q. ring. Qed.

  (* the rewritten draw: from R-related states, the original draw of x against
     t = d0; x = e t *)
  Lemma rewrite_sim x t (d : draw) (d0 : draw) (e : var -> expr) (h : state -> Qc -> Qc) s s' :
    Rn s s' -> In t names ->
    (forall s1, deq (draw_law law d s1) (dmap (h s1) (draw_law law d0 s1))) ->
    (forall s1 s1', Rn s1 s1' -> draw_law law d0 s1 = draw_law law d0 s1') ->
    (forall z, eval (e t) (upd s' t z) = h s z) ->
    drel Rn (exec_stmt law (SAssign x (RDraw d)) s)
            (exec_block law (BCons (SAssign t (RDraw d0)) (BCons (SAssign x (RDet (e t))) BNil)) s').
  Proof.
    intros HR Ht Hlaw Hd0 He f g Hfg.
    cbn [exec_stmt exec_block sample]. rewrite !E_bind.
    rewrite (Hlaw s), E_dmap. rewrite (Hd0 s s' HR).
    apply E_ext. intros z. rewrite !E_ret, E_bind, (det_exec x (e t) (upd s' t z)), E_ret.
    cbn [exec_block]. rewrite E_ret. apply Hfg. rewrite He.
    apply Rn_upd. apply Rn_upd_fresh; assumption.
  Qed.

  Lemma closed_eval e s s' : is_closed e = true -> eval e s = eval e s'.
  Proof.
    unfold is_closed. destruct (vars_of e) eqn:Ev; [|discriminate]. intros _.
    apply eval_ext. intros x Hx. rewrite Ev in Hx. destruct Hx.
  Qed.


  Lemma dt_draw_sim f args d0 e x t s s' :
    dt_draw f args = DtRewrite d0 e -> Rn s s' -> In t names -> avoids (flat_map vars_of args) ->
    drel Rn (exec_stmt law (SAssign x (RDraw (DCont f args))) s)
            (exec_block law (BCons (SAssign t (RDraw d0)) (BCons (SAssign x (RDet (e t))) BNil)) s').
  Proof.
    unfold dt_draw. intros Hd HR Ht Ha.
    destruct (String.eqb f "Normal") eqn:EN.
    { apply String.eqb_eq in EN. subst f.
      destruct args as [|mu [|s2 [|]]]; try discriminate.
      destruct (is_closed mu && is_closed s2); [discriminate|].
      destruct s2 as [c| | | |]; try discriminate.
      destruct (qsqrt c) as [r|] eqn:Er; [|discriminate]. injection Hd as <- <-.
      apply (rewrite_sim x t _ _ (fun t0 => EAdd mu (EMul (EConst r) (EVar t0))) (fun s1 z => eval mu s1 + r * z)); try assumption.
      - intros s1. cbn [draw_law map eval qe]. rewrite <- (qsqrt_sound c r Er), one_q, zero_q. apply law_normal.
      - intros s1 s1' _. reflexivity.
      - intros z. cbn [eval]. rewrite upd_same_t. f_equal.
        symmetry. transitivity (eval mu s').
        + apply eval_Rn; [exact HR|]. intros y Hy. apply Ha. cbn [flat_map]. apply in_or_app; auto.
        + apply eval_ext. intros y Hy. unfold upd. destruct (var_eqb y t) eqn:E0; [|reflexivity].
          apply String.eqb_eq in E0. subst. exfalso. apply (Ha t); [cbn [flat_map]; apply in_or_app; auto | exact Ht]. }
    destruct (String.eqb f "Uniform") eqn:EU.
    { apply String.eqb_eq in EU. subst f.
      destruct args as [|a [|b [|]]]; try discriminate.
      destruct (is_closed a && is_closed b); [discriminate|]. injection Hd as <- <-.
      assert (Hev : forall e0 z, In e0 [a; b] -> eval e0 (upd s' t z) = eval e0 s).
      { intros e0 z He0. symmetry. transitivity (eval e0 s').
        - apply eval_Rn; [exact HR|]. intros y Hy. apply Ha. cbn [flat_map]. rewrite app_nil_r.
          destruct He0 as [<-|[<-|[]]]; apply in_or_app; auto.
        - apply eval_ext. intros y Hy. unfold upd. destruct (var_eqb y t) eqn:E0; [|reflexivity].
          apply String.eqb_eq in E0. subst. exfalso. apply (Ha t); [|exact Ht]. cbn [flat_map]. rewrite app_nil_r.
          destruct He0 as [<-|[<-|[]]]; apply in_or_app; auto. }
      apply (rewrite_sim x t _ _ (fun t0 => EAdd a (EMul (ESub b a) (EVar t0))) (fun s1 z => eval a s1 + (eval b s1 - eval a s1) * z)); try assumption.
      - intros s1. cbn [draw_law map eval qe]. rewrite one_q, zero_q. apply law_uniform.
      - intros s1 s1' _. reflexivity.
      - intros z. cbn [eval ESub ENeg]. rewrite upd_same_t, !Hev by (cbn; auto).
        rewrite neg_one_q. ring. }
    destruct (String.eqb f "Laplace") eqn:EL.
    { apply String.eqb_eq in EL. subst f.
      destruct args as [|b [|mu [|]]]; try discriminate.
      destruct (is_closed mu); [discriminate|]. injection Hd as <- <-.
      apply (rewrite_sim x t _ _ (fun t0 => EAdd mu (EVar t0)) (fun s1 z => eval mu s1 + z)); try assumption.
      - intros s1. cbn [draw_law map eval qe]. rewrite zero_q. apply law_laplace.
      - intros s1 s1' HR1. cbn [draw_law map eval qe].
        rewrite (eval_Rn b s1 s1' HR1); [reflexivity|]. intros y Hy. apply Ha. cbn [flat_map]. apply in_or_app; auto.
      - intros z. cbn [eval]. rewrite upd_same_t. f_equal.
        symmetry. transitivity (eval mu s').
        + apply eval_Rn; [exact HR|]. intros y Hy. apply Ha. cbn [flat_map]. rewrite app_nil_r. apply in_or_app; auto.
        + apply eval_ext. intros y Hy. unfold upd. destruct (var_eqb y t) eqn:E0; [|reflexivity].
          apply String.eqb_eq in E0. subst. exfalso. apply (Ha t); [|exact Ht]. cbn [flat_map]. rewrite app_nil_r. apply in_or_app; auto. }
    destruct (String.eqb f "Exponential").
    { destruct args as [|l [|]]; try discriminate. destruct (is_closed l); discriminate. }
    discriminate.
  Qed.

  Lemma single_block st s : deq (exec_block law (BCons st BNil) s) (exec_stmt law st s).
  Proof. intros f. cbn [exec_block]. apply (deq_bind_ret (exec_stmt law st s) f). Qed.

  Lemma avoids_app_l a b : avoids (a ++ b) -> avoids a.
  Proof. intros H x Hx. apply H, in_or_app; auto. Qed.
  Lemma avoids_app_r a b : avoids (a ++ b) -> avoids b.
  Proof. intros H x Hx. apply H, in_or_app; auto. Qed.

  Lemma x_stmt_if bs els s :
    exec_stmt law (SIf bs els) s = match exec_branches law bs s with Some d => d | None => exec_block law els s end.
  Proof. reflexivity. Qed.
  Lemma x_block_cons st b s : exec_block law (BCons st b) s = bind (exec_stmt law st s) (exec_block law b).
  Proof. reflexivity. Qed.
  Lemma x_branches_cons c b bs s :
    exec_branches law (BrCons c b bs) s = if holds c s then Some (exec_block law b s) else exec_branches law bs s.
  Proof. reflexivity. Qed.

  Definition branches_rel (o : option (dist state)) (o' : option (dist state)) : Prop :=
    match o, o' with
    | Some d, Some d' => drel Rn d d'
    | None, None => True
    | _, _ => False
    end.

  Lemma keep_sim st ns : avoids (stmt_vars st) ->
    (forall s s', Rn s s' -> drel Rn (exec_stmt law st s) (exec_stmt law st s')) ->
    incl ns names ->
    incl ns names /\ forall s s', Rn s s' -> drel Rn (exec_stmt law st s) (exec_block law (BCons st BNil) s').
  Proof.
    intros _ H Hi. split; [exact Hi|]. intros s s' HR.
    apply (drel_deq_r Rn _ _ _ (single_block st s')). apply H, HR.
  Qed.

  Lemma dt_sim :
    (forall st ns frag ns', dt_stmt ns st = Some (frag, ns') -> incl ns names -> avoids (stmt_vars st) ->
        incl ns' names /\ forall s s', Rn s s' -> drel Rn (exec_stmt law st s) (exec_block law frag s')) /\
    (forall b ns b' ns', dt_block ns b = Some (b', ns') -> incl ns names -> avoids (block_vars b) ->
        incl ns' names /\ forall s s', Rn s s' -> drel Rn (exec_block law b s) (exec_block law b' s')) /\
    (forall bs ns bs' ns', dt_branches ns bs = Some (bs', ns') -> incl ns names -> avoids (branches_vars bs) ->
        incl ns' names /\ forall s s', Rn s s' -> branches_rel (exec_branches law bs s) (exec_branches law bs' s')).
  Proof.
    apply stmt_block_branches_ind.
    - (* SAssign *)
      intros x r ns frag ns' H Hi Ha. cbn [stmt_vars] in Ha.
      assert (Har : avoids (rvars r)) by (intros y Hy; apply Ha; right; exact Hy).
      assert (Hkeep : dt_stmt ns (SAssign x r) = Some (BCons (SAssign x r) BNil, ns) ->
                incl ns' names /\ forall s s', Rn s s' -> drel Rn (exec_stmt law (SAssign x r) s) (exec_block law frag s')).
      { intros Hk. rewrite Hk in H. injection H as <- <-.
        apply keep_sim; [exact Ha | | exact Hi]. intros s s' HR. apply assign_Rn; assumption. }
      destruct r as [alts|[p|ps|a b|f args]]; try (apply Hkeep; reflexivity).
      cbn [dt_stmt] in H, Hkeep. destruct (dt_draw f args) as [|d0 e|] eqn:Ed.
      + apply Hkeep; reflexivity.
      + destruct ns as [|t ns1]; [discriminate|]. injection H as <- <-. split.
        * intros y Hy. apply Hi. right; exact Hy.
        * intros s s' HR. apply (dt_draw_sim f args d0 e x t s s' Ed HR); [apply Hi; left; reflexivity | exact Har].
      + discriminate.
    - (* SSimult *)
      intros l ns frag ns' H Hi Ha. cbn [dt_stmt] in H.
      destruct (existsb (fun xr => has_cont (snd xr)) l); [discriminate|]. injection H as <- <-.
      apply keep_sim; [exact Ha | | exact Hi]. intros s s' HR. cbn [exec_stmt]. apply simult_Rn; assumption.
    - (* SIf *)
      intros bs IHbs els IHels ns frag ns' H Hi Ha. cbn [dt_stmt] in H. cbn [stmt_vars] in Ha.
      destruct (dt_branches ns bs) as [[bs' ns1]|] eqn:Ebs; [|discriminate].
      destruct (dt_block ns1 els) as [[els' ns2]|] eqn:Eels; [|discriminate]. injection H as <- <-.
      destruct (IHbs _ _ _ Ebs Hi (avoids_app_l _ _ Ha)) as [Hi1 Hbs].
      destruct (IHels _ _ _ Eels Hi1 (avoids_app_r _ _ Ha)) as [Hi2 Hels].
      split; [exact Hi2|]. intros s s' HR.
      apply (drel_deq_r Rn _ _ _ (single_block _ s')). rewrite !x_stmt_if.
      specialize (Hbs s s' HR). unfold branches_rel in Hbs.
      destruct (exec_branches law bs s), (exec_branches law bs' s'); try contradiction; [exact Hbs | apply Hels, HR].
    - (* BNil *)
      intros ns b' ns' H Hi _. cbn [dt_block] in H. injection H as <- <-. split; [exact Hi|].
      intros s s' HR. cbn [exec_block]. apply drel_ret, HR.
    - (* BCons *)
      intros st IHst b IHb ns b' ns' H Hi Ha. cbn [dt_block] in H. cbn [block_vars] in Ha.
      destruct (dt_stmt ns st) as [[frag ns1]|] eqn:Est; [|discriminate].
      destruct (dt_block ns1 b) as [[b'' ns2]|] eqn:Eb; [|discriminate]. injection H as <- <-.
      destruct (IHst _ _ _ Est Hi (avoids_app_l _ _ Ha)) as [Hi1 Hst].
      destruct (IHb _ _ _ Eb Hi1 (avoids_app_r _ _ Ha)) as [Hi2 Hb].
      split; [exact Hi2|]. intros s s' HR.
      apply (drel_deq_r Rn _ _ _ (exec_block_app frag b'' s')). rewrite x_block_cons.
      apply (drel_bind Rn Rn); [apply Hst, HR | intros t t' Ht; apply Hb, Ht].
    - (* BrNil *)
      intros ns bs' ns' H Hi _. cbn [dt_branches] in H. injection H as <- <-. split; [exact Hi|].
      intros s s' _. exact I.
    - (* BrCons *)
      intros c b IHb bs IHbs ns bs' ns' H Hi Ha. cbn [dt_branches] in H. cbn [branches_vars] in Ha.
      destruct (dt_block ns b) as [[b' ns1]|] eqn:Eb; [|discriminate].
      destruct (dt_branches ns1 bs) as [[bs'' ns2]|] eqn:Ebs; [|discriminate]. injection H as <- <-.
      destruct (IHb _ _ _ Eb Hi (avoids_app_l _ _ (avoids_app_r _ _ Ha))) as [Hi1 Hb].
      destruct (IHbs _ _ _ Ebs Hi1 (avoids_app_r _ _ (avoids_app_r _ _ Ha))) as [Hi2 Hbs].
      split; [exact Hi2|]. intros s s' HR. rewrite !x_branches_cons.
      rewrite <- (holds_Rn c s s' HR (avoids_app_l _ _ Ha)).
      destruct (holds c s); [cbn [branches_rel]; apply Hb, HR | apply Hbs, HR].
  Qed.

  Theorem dist_pass_drel p p' rest :
    dt_prog names p = Some (p', rest) -> fresh_ok names p = true ->
    forall n s0, drel Rn (run law p n s0) (run law p' n s0).
  Proof.
    unfold dt_prog, fresh_ok, prog_vars. intros H Hf.
    assert (Ha : avoids (block_vars (p_init p) ++ cvars (p_guard p) ++ block_vars (p_body p))).
    { intros x Hx Hn. exact (disjointb_spec _ _ Hf x Hx Hn). }
    destruct (dt_block names (p_init p)) as [[i ns1]|] eqn:Ei; [|discriminate].
    destruct (dt_block ns1 (p_body p)) as [[b ns2]|] eqn:Eb; [|discriminate]. injection H as <- <-.
    destruct dt_sim as [_ [Hblock _]].
    destruct (Hblock _ _ _ _ Ei (incl_refl names) (avoids_app_l _ _ Ha)) as [Hi1 Hinit].
    destruct (Hblock _ _ _ _ Eb Hi1 (avoids_app_r _ _ (avoids_app_r _ _ Ha))) as [_ Hbody].
    intros n s0. induction n as [|n IH]; cbn [run p_init].
    - apply Hinit. intros x _. reflexivity.
    - apply (drel_bind Rn Rn); [exact IH|]. intros s s' HR. unfold iter. cbn [p_guard p_body].
      rewrite <- (holds_Rn _ s s' HR (avoids_app_l _ _ (avoids_app_r _ _ Ha))).
      destruct (holds (p_guard p) s); [apply Hbody, HR | apply drel_ret, HR].
  Qed.
End DistLS.

(* a function of the state that does not read the fresh names *)
Definition ignores_names (ns : list var) (f : state -> Qc) : Prop :=
  forall s s', (forall x, ~ In x ns -> s x = s' x) -> f s = f s'.

Theorem dist_pass_preserves
  (law : string -> list Qc -> dist Qc)
  (law_normal : forall m r : Qc, deq (law "Normal" [m; r * r]) (dmap (fun z => m + r * z) (law "Normal" [0; 1])))
  (law_uniform : forall a b : Qc, deq (law "Uniform" [a; b]) (dmap (fun z => a + (b - a) * z) (law "Uniform" [0; 1])))
  (law_laplace : forall b m : Qc, deq (law "Laplace" [b; m]) (dmap (fun z => m + z) (law "Laplace" [b; 0])))
  (names : list var) (p p' : prog) (rest : list var) :
  dt_prog names p = Some (p', rest) -> fresh_ok names p = true ->
  forall (n : nat) (s0 : state) (f : state -> Qc), ignores_names names f ->
    E (run law p' n s0) f = E (run law p n s0) f.
Proof.
  intros H Hf n s0 f Hig. symmetry.
  apply (dist_pass_drel law law_normal law_uniform law_laplace names p p' rest H Hf n s0 f f).
  intros s s' HR. apply Hig. exact HR.
Qed.

(* the hypotheses on [law] are consistent: a finitely supported family satisfying all three
   (two-point laws at loc +- scale for Uniform/Laplace ends, a point mass for Normal) *)
Definition demo_law (f : string) (args : list Qc) : dist Qc :=
  if String.eqb f "Normal" then match args with [m; _] => [(1, m)] | _ => [] end
  else if String.eqb f "Uniform" then match args with [a; b] => [(mkq 1 2, a); (mkq 1 2, b)] | _ => [] end
  else if String.eqb f "Laplace" then match args with [b; m] => [(mkq 1 2, m - b); (mkq 1 2, m + b)] | _ => [] end
  else [].

Lemma demo_law_normal m r : deq (demo_law "Normal" [m; r * r]) (dmap (fun z => m + r * z) (demo_law "Normal" [0; 1])).
Proof. intros f. cbn. replace (m + r * 0) with m by ring. reflexivity. Qed.
Lemma demo_law_uniform a b : deq (demo_law "Uniform" [a; b]) (dmap (fun z => a + (b - a) * z) (demo_law "Uniform" [0; 1])).
Proof. intros f. cbn. replace (a + (b - a) * 0) with a by ring. replace (a + (b - a) * 1) with b by ring. reflexivity. Qed.
Lemma demo_law_laplace b m : deq (demo_law "Laplace" [b; m]) (dmap (fun z => m + z) (demo_law "Laplace" [b; 0])).
Proof. intros f. cbn. replace (m + (0 - b)) with (m - b) by ring. replace (m + (0 + b)) with (m + b) by ring. reflexivity. Qed.

Theorem demo_law_consistent :
  exists law : string -> list Qc -> dist Qc,
    (forall m r : Qc, deq (law "Normal" [m; r * r]) (dmap (fun z => m + r * z) (law "Normal" [0; 1]))) /\
    (forall a b : Qc, deq (law "Uniform" [a; b]) (dmap (fun z => a + (b - a) * z) (law "Uniform" [0; 1]))) /\
    (forall b m : Qc, deq (law "Laplace" [b; m]) (dmap (fun z => m + z) (law "Laplace" [b; 0]))) /\
    law "Uniform" [0; 1] <> [] /\ law "Laplace" [1; 0] <> [].
Proof.
  exists demo_law. split; [exact demo_law_normal|]. split; [exact demo_law_uniform|]. split; [exact demo_law_laplace|].
  split; cbn; discriminate.
Qed.
