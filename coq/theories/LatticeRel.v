(* Multiplicative relations  prod_i b_i^{e_i} = 1  with integer exponents over a commutative
   ring (C16).  A base is a pair (b, b') with b * b' = 1 (the inverse is SUPPLIED and
   CHECKED, so the development works in Qc and in the quadratic-extension towers of
   CRing.v alike).  [check_relations] is the executable validator for the rows returned by
   ExponentLattice.compute_basis; the relation set is proved to be closed under integer
   combinations, so accepted rows put their whole Z-span inside the relation lattice. *)
From Coq Require Import List Bool Arith Lia Ring ZArith.
From Polar Require Import CRing ExpPoly Lattice.
Import ListNotations.

Section Rel.
  Variable R : cring.
  Add Ring Rring : (rth R).
  Local Open Scope cr_scope.
  Local Notation z1 := (@r1 R).

  Definition zpow (b binv : R) (e : Z) : R :=
    match e with
    | Z0 => z1
    | Zpos p => rpow b (Pos.to_nat p)
    | Zneg p => rpow binv (Pos.to_nat p)
    end.

  Fixpoint prodpow (bs : list (R * R)) (e : list Z) : R :=
    match bs, e with
    | (b, bi) :: bs', x :: e' => zpow b bi x * prodpow bs' e'
    | _, _ => z1
    end.

  Definition inverses_ok (bs : list (R * R)) : Prop := forall p, In p bs -> fst p * snd p = z1.
  Definition is_relation (bs : list (R * R)) (e : list Z) : Prop := prodpow bs e = z1.

  Definition check_inverses (bs : list (R * R)) : bool :=
    forallb (fun p => reqb (fst p * snd p) z1) bs.
  Definition check_relation (bs : list (R * R)) (e : list Z) : bool :=
    Nat.eqb (length e) (length bs) && reqb (prodpow bs e) z1.
  Definition check_relations (bs : list (R * R)) (B : list (list Z)) : bool :=
    check_inverses bs && forallb (check_relation bs) B.

  Lemma check_inverses_ok bs : check_inverses bs = true -> inverses_ok bs.
  Proof.
    unfold check_inverses, inverses_ok. intros H p Hp. rewrite forallb_forall in H.
    apply reqb_eq. apply H; exact Hp.
  Qed.

  Theorem check_relations_sound bs B :
    check_relations bs B = true ->
    inverses_ok bs /\ forall e, In e B -> length e = length bs /\ is_relation bs e.
  Proof.
    unfold check_relations. intros H. apply andb_true_iff in H; destruct H as [Hi HB].
    split; [apply check_inverses_ok; exact Hi|].
    intros e He. rewrite forallb_forall in HB. specialize (HB e He).
    unfold check_relation in HB. apply andb_true_iff in HB; destruct HB as [HL HP].
    split; [apply Nat.eqb_eq; exact HL | apply reqb_eq; exact HP].
  Qed.

  (* ---- powers ---- *)
  Lemma rpow_rpow (b : R) n m : rpow (rpow b n) m = rpow b (n * m).
  Proof.
    induction m as [|m IH]; [rewrite Nat.mul_0_r; reflexivity|].
    rewrite Nat.mul_succ_r, Nat.add_comm, rpow_add. cbn [rpow]. rewrite IH. reflexivity.
  Qed.
  Lemma rpow_inv (b bi : R) n : b * bi = z1 -> rpow b n * rpow bi n = z1.
  Proof.
    intros H. rewrite <- rpow_mul_base, H. apply rpow_1.
  Qed.
  Lemma rpow_cancel (b bi : R) n m c : b * bi = z1 ->
    rpow b (n + c) * rpow bi (m + c) = rpow b n * rpow bi m.
  Proof.
    intros H. rewrite !rpow_add.
    transitivity (rpow b n * rpow bi m * (rpow b c * rpow bi c)); [ring|].
    rewrite (rpow_inv b bi c H). ring.
  Qed.
  Lemma rpow_balance (b bi : R) n1 n2 m1 m2 : b * bi = z1 -> (n1 + m2 = m1 + n2)%nat ->
    rpow b n1 * rpow bi n2 = rpow b m1 * rpow bi m2.
  Proof.
    intros H E.
    rewrite <- (rpow_cancel b bi n1 n2 m2 H), E.
    rewrite (Nat.add_comm n2 m2). apply rpow_cancel; exact H.
  Qed.

  Lemma zpow_split b bi e : zpow b bi e = rpow b (Z.to_nat e) * rpow bi (Z.to_nat (- e)).
  Proof.
    destruct e as [|p|p]; cbn [zpow Z.opp Z.to_nat rpow]; ring.
  Qed.
  Lemma zpow_0 b bi : zpow b bi 0 = z1.
  Proof. reflexivity. Qed.
  Lemma zpow_add b bi x y : b * bi = z1 -> zpow b bi (x + y) = zpow b bi x * zpow b bi y.
  Proof.
    intros H. rewrite !zpow_split.
    transitivity (rpow b (Z.to_nat x + Z.to_nat y) * rpow bi (Z.to_nat (- x) + Z.to_nat (- y)));
      [|rewrite !rpow_add; ring].
    apply rpow_balance; [exact H | lia].
  Qed.
  Lemma zpow_opp b bi x : zpow b bi (- x) = zpow bi b x.
  Proof. destruct x; reflexivity. Qed.
  Lemma zpow_inv b bi x : b * bi = z1 -> zpow b bi x * zpow bi b x = z1.
  Proof.
    intros H. destruct x as [|p|p]; cbn [zpow]; [ring | apply rpow_inv; exact H|].
    apply rpow_inv. rewrite <- H. ring.
  Qed.
  Lemma zpow_mul_base u ui w wi x : zpow (u * w) (ui * wi) x = zpow u ui x * zpow w wi x.
  Proof. destruct x as [|p|p]; cbn [zpow]; [ring | apply rpow_mul_base | apply rpow_mul_base]. Qed.
  Lemma zpow_zpow b bi a x : zpow (zpow b bi a) (zpow bi b a) x = zpow b bi (a * x).
  Proof.
    destruct a as [|p|p], x as [|q|q]; cbn [zpow Z.mul]; try reflexivity;
      rewrite ?rpow_1, ?rpow_rpow, ?Pos2Nat.inj_mul; reflexivity.
  Qed.
  Lemma zpow_one x : zpow z1 z1 x = z1.
  Proof. destruct x; cbn [zpow]; [reflexivity | apply rpow_1 | apply rpow_1]. Qed.

  (* ---- the relation set is a subgroup of Z^k ---- *)
  Definition swap_bases (bs : list (R * R)) : list (R * R) := map (fun p => (snd p, fst p)) bs.

  Lemma inverses_ok_tl p bs : inverses_ok (p :: bs) -> fst p * snd p = z1 /\ inverses_ok bs.
  Proof.
    intros H. split; [apply H; left; reflexivity|]. intros q Hq. apply H; right; exact Hq.
  Qed.

  Lemma prodpow_vadd bs : inverses_ok bs -> forall u v,
    prodpow bs (vadd (R := Z_cring) u v) = prodpow bs u * prodpow bs v.
  Proof.
    induction bs as [|[b bi] bs IH]; intros Hok u v.
    - destruct u, v; cbn [prodpow]; ring.
    - apply inverses_ok_tl in Hok. destruct Hok as [Hb Hok]. cbn [fst snd] in Hb.
      destruct u as [|x u], v as [|y v]; cbn [vadd prodpow]; try ring.
      change (radd (c := Z_cring) x y) with (x + y)%Z.
      rewrite (zpow_add b bi x y Hb), (IH Hok u v). ring.
  Qed.
  Lemma prodpow_inv bs : inverses_ok bs -> forall u,
    prodpow bs u * prodpow (swap_bases bs) u = z1.
  Proof.
    induction bs as [|[b bi] bs IH]; intros Hok u.
    - destruct u; cbn [swap_bases map prodpow]; ring.
    - apply inverses_ok_tl in Hok. destruct Hok as [Hb Hok]. cbn [fst snd] in Hb.
      destruct u as [|x u]; cbn [swap_bases map prodpow fst snd]; [ring|].
      fold (swap_bases bs).
      transitivity ((zpow b bi x * zpow bi b x) * (prodpow bs u * prodpow (swap_bases bs) u)); [ring|].
      rewrite (zpow_inv b bi x Hb), (IH Hok u). ring.
  Qed.
  Lemma prodpow_vscale bs a : forall u,
    prodpow bs (vscale (R := Z_cring) a u) = zpow (prodpow bs u) (prodpow (swap_bases bs) u) a.
  Proof.
    induction bs as [|[b bi] bs IH]; intros u.
    - destruct u; cbn [vscale map prodpow swap_bases]; rewrite zpow_one; reflexivity.
    - destruct u as [|x u]; cbn [vscale map prodpow swap_bases fst snd].
      + rewrite zpow_one; reflexivity.
      + fold (swap_bases bs). fold (vscale (R := Z_cring) a u).
        rewrite zpow_mul_base, zpow_zpow, IH.
        change (rmul (c := Z_cring) a x) with (a * x)%Z. rewrite (Z.mul_comm a x). reflexivity.
  Qed.
  Lemma prodpow_zeros bs k : prodpow bs (zeros (R := Z_cring) k) = z1.
  Proof.
    revert k; induction bs as [|[b bi] bs IH]; intros [|k]; cbn [zeros repeat prodpow]; try reflexivity.
    fold (zeros (R := Z_cring) k). rewrite IH. change (@r0 Z_cring) with 0%Z. cbn [zpow]. ring.
  Qed.

  Lemma relation_vadd bs u v : inverses_ok bs ->
    is_relation bs u -> is_relation bs v -> is_relation bs (vadd (R := Z_cring) u v).
  Proof.
    unfold is_relation. intros Hok Hu Hv. rewrite (prodpow_vadd bs Hok), Hu, Hv. ring.
  Qed.
  Lemma relation_vscale bs a u : inverses_ok bs ->
    is_relation bs u -> is_relation bs (vscale (R := Z_cring) a u).
  Proof.
    unfold is_relation. intros Hok Hu. rewrite prodpow_vscale.
    pose proof (prodpow_inv bs Hok u) as Hi. rewrite Hu in Hi.
    assert (Hs : prodpow (swap_bases bs) u = z1) by (rewrite <- Hi; ring).
    rewrite Hu, Hs. apply zpow_one.
  Qed.

  (* every integer combination of relations is a relation *)
  Theorem relations_closed bs B : inverses_ok bs ->
    (forall e, In e B -> is_relation bs e) ->
    forall k c, is_relation bs (lincomb (R := Z_cring) k c B).
  Proof.
    intros Hok. induction B as [|b B IH]; intros HB k c.
    - destruct c; cbn [lincomb]; apply prodpow_zeros.
    - destruct c as [|a c]; cbn [lincomb]; [apply prodpow_zeros|].
      apply relation_vadd; [exact Hok | |].
      + apply relation_vscale; [exact Hok|]. apply HB; left; reflexivity.
      + apply IH. intros e He. apply HB; right; exact He.
  Qed.
End Rel.

Arguments zpow {R} _ _ _. Arguments prodpow {R} _ _. Arguments is_relation {R} _ _.
Arguments inverses_ok {R} _. Arguments check_relations {R} _ _. Arguments check_relation {R} _ _.
Arguments check_inverses {R} _. Arguments swap_bases {R} _.
