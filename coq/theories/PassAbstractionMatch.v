(* Boolean functions evaluated inside Coq by harness/pass_abstraction.py: the model of the
   Bernoulli abstraction (PassAbstraction.abstract_many over the parameters computed by
   auto_specs, followed by the verified PassCondNorm.cn_pass) compared with Polar's snapshot
   after ConditionsNormalizer, and the hypotheses of C02_abs_* evaluated on the instance.
   Conditions are compared as lists of conjuncts after Polar's simplify() (literal true dropped
   from conjunctions, literal false from disjunctions), Or-chains over one variable as sets of
   values, right-hand sides up to polynomial normal form.  No theorem depends on this file. *)
From Coq Require Import List String QArith Qcanon ZArith Bool.
From Polar Require Import Qcx Dist Syntax Sem Types Poly PassGuard PassCNBase PassConstants PassCondNorm PassCNMatch PassAbstraction.
Import ListNotations.

Definition or_s (c1 c2 : cond) : cond :=
  match c1, c2 with
  | CFalse, _ => c2
  | _, CFalse => c1
  | _, _ => COr c1 c2
  end.
(* Condition.simplify() *)
Fixpoint csimp (c : cond) : cond :=
  match c with
  | CAnd c1 c2 => and_s (csimp c1) (csimp c2)
  | COr c1 c2 => or_s (csimp c1) (csimp c2)
  | CNot c1 => CNot (csimp c1)
  | _ => c
  end.
Definition is_true (c : cond) : bool := match c with CTrue => true | _ => false end.
Definition conj_norm (c : cond) : list cond := filter (fun d => negb (is_true d)) (conjuncts (csimp c)).
Definition abs_cond_match (c d : cond) : bool := list_eqb cond_eq_mod (conj_norm c) (conj_norm d).
Definition abs_ga_matches (g h : gassign) : bool :=
  var_eqb (ga_var g) (ga_var h) && var_eqb (ga_default g) (ga_default h)
  && abs_cond_match (ga_cond g) (ga_cond h) && rhs_eq_poly (ga_rhs g) (ga_rhs h).

(* l: for every coin of Polar's output, in order: (its position in the output body, (its
   name, the name of its probability symbol)) *)
Definition abs_specs (T : tenv) (fin : flatprog) (l : list (nat * (var * var))) : list aspec := auto_specs T fin l.
Definition abs_stage1 (T : tenv) (fin : flatprog) (l : list (nat * (var * var))) : flatprog :=
  abstract_many fin (abs_specs T fin l).
Definition abs_model (T : tenv) (fin : flatprog) (l : list (nat * (var * var))) : option flatprog :=
  cn_pass T (abs_stage1 T fin l).
Definition abs_matches (T : tenv) (fin fout : flatprog) (l : list (nat * (var * var))) : bool :=
  match abs_model T fin l with
  | Some m => list_eqb abs_ga_matches (fp_init m) (fp_init fout) && list_eqb abs_ga_matches (fp_body m) (fp_body fout)
  | None => false
  end.
(* the hypotheses of C02_abs_pass_preserves *)
Definition abs_ok (T : tenv) (fin : flatprog) (l : list (nat * (var * var))) : bool := many_ok fin (abs_specs T fin l).
Definition abs_types_ok (T : tenv) (fin : flatprog) (l : list (nat * (var * var))) : bool :=
  check_types (abs_stage1 T fin l) T.
(* the values the probability symbols must have (hypothesis probs_ok) *)
Definition abs_probs (T : tenv) (fin : flatprog) (l : list (nat * (var * var))) : list (var * (Z * positive)) :=
  map (fun xp => (fst xp, qpair (snd xp))) (many_probs fin (abs_specs T fin l)).
(* what was abstracted: (hidden variables, failed variables) per coin, for the report *)
Definition abs_report (T : tenv) (fin : flatprog) (l : list (nat * (var * var))) : list (list var * list var) :=
  map (fun sp => (as_H sp, as_bv sp)) (abs_specs T fin l).
(* per coin: is the single side condition true *)
Fixpoint abs_ok_each (fp : flatprog) (l : list aspec) : list bool :=
  match l with [] => [] | sp :: l' => spec_ok fp sp :: abs_ok_each (abstract_spec fp sp) l' end.
