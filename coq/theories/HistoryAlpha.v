(* C20, part 3 (semantic side) — alpha-invariance of the reference semantics of flat
   programs: renaming the variables of a flat program by an INJECTIVE map rho (e.g. the
   shift of the counter part of generated auxiliary names, HistoryNames.shift_name, extended
   by the identity on source variables) does not change the distribution, read through the
   renaming.  States are functions, so "the same state up to renaming" is the pointwise
   relation [srel]; no functional extensionality is used. *)
From Coq Require Import List String QArith Qcanon ZArith Bool.
From Polar Require Import Qcx Dist Syntax Sem.
Import ListNotations.
Local Open Scope Qc_scope.

Section Alpha.
  Variable law : string -> list Qc -> dist Qc.
  Variable rho : var -> var.
  Hypothesis rho_inj : forall x y, rho x = rho y -> x = y.

  Fixpoint ren_expr (e : expr) : expr :=
    match e with
    | EConst q => EConst q
    | EVar x => EVar (rho x)
    | EAdd a b => EAdd (ren_expr a) (ren_expr b)
    | EMul a b => EMul (ren_expr a) (ren_expr b)
    | EPow a k => EPow (ren_expr a) k
    end.
  Fixpoint ren_cond (c : cond) : cond :=
    match c with
    | CTrue => CTrue
    | CFalse => CFalse
    | CAtom a o b => CAtom (ren_expr a) o (ren_expr b)
    | CNot c => CNot (ren_cond c)
    | CAnd c1 c2 => CAnd (ren_cond c1) (ren_cond c2)
    | COr c1 c2 => COr (ren_cond c1) (ren_cond c2)
    end.
  Definition ren_draw (d : draw) : draw :=
    match d with
    | DBern p => DBern (ren_expr p)
    | DCat ps => DCat (map ren_expr ps)
    | DUnif a b => DUnif a b
    | DCont f args => DCont f (map ren_expr args)
    end.
  Definition ren_rhs (r : rhs) : rhs :=
    match r with
    | RChoice alts => RChoice (map (fun pe => (ren_expr (fst pe), ren_expr (snd pe))) alts)
    | RDraw d => RDraw (ren_draw d)
    end.
  Definition ren_ga (g : gassign) : gassign :=
    {| ga_var := rho (ga_var g); ga_cond := ren_cond (ga_cond g);
       ga_default := rho (ga_default g); ga_rhs := ren_rhs (ga_rhs g) |}.
  Definition rename_fp (fp : flatprog) : flatprog :=
    {| fp_init := map ren_ga (fp_init fp); fp_body := map ren_ga (fp_body fp) |}.

  (* s' (over the renamed names) and s (over the original names) are the same state *)
  Definition srel (s' s : state) : Prop := forall x, s' (rho x) = s x.
  (* g' and g are the same observable *)
  Definition frel (g' g : state -> Qc) : Prop := forall t' t, srel t' t -> g' t' = g t.

  Lemma eval_ren e s' s : srel s' s -> eval (ren_expr e) s' = eval e s.
  Proof.
    intros H; induction e as [q|x|a IHa b IHb|a IHa b IHb|a IHa k]; cbn [ren_expr eval];
      try rewrite IHa; try rewrite IHb; auto.
  Qed.

  Lemma holds_ren c s' s : srel s' s -> holds (ren_cond c) s' = holds c s.
  Proof.
    intros H; induction c as [| |a o b|c IH|c1 IH1 c2 IH2|c1 IH1 c2 IH2]; cbn [ren_cond holds];
      try rewrite IH; try rewrite IH1; try rewrite IH2; try reflexivity.
    rewrite !(eval_ren _ s' s H). reflexivity.
  Qed.

  Lemma map_eval_ren l s' s : srel s' s ->
    map (fun e => eval e s') (map ren_expr l) = map (fun e => eval e s) l.
  Proof. intros H. rewrite map_map. apply map_ext. intros e. apply eval_ren; exact H. Qed.

  Lemma sample_ren r s' s : srel s' s -> sample law (ren_rhs r) s' = sample law r s.
  Proof.
    intros H. destruct r as [alts|d]; cbn [ren_rhs sample].
    - rewrite map_map. apply map_ext. intros [p e]. cbn [fst snd].
      rewrite !(eval_ren _ s' s H). reflexivity.
    - destruct d as [p|ps|a b|f args]; cbn [ren_draw draw_law].
      + rewrite (eval_ren _ s' s H). reflexivity.
      + rewrite (map_eval_ren _ s' s H). reflexivity.
      + reflexivity.
      + rewrite (map_eval_ren _ s' s H). reflexivity.
  Qed.

  Lemma srel_upd s' s x v : srel s' s -> srel (upd s' (rho x) v) (upd s x v).
  Proof.
    intros H y. unfold upd, var_eqb.
    destruct (String.eqb_spec y x) as [->|Hne].
    - rewrite String.eqb_refl. reflexivity.
    - destruct (String.eqb_spec (rho y) (rho x)) as [E|_]; [apply rho_inj in E; contradiction | apply H].
  Qed.

  Lemma exec_ga_ren g0 s' s g' g : srel s' s -> frel g' g ->
    E (exec_ga law (ren_ga g0) s') g' = E (exec_ga law g0 s) g.
  Proof.
    intros H Hg. unfold exec_ga. cbn [ren_ga ga_var ga_cond ga_default ga_rhs].
    rewrite (holds_ren _ s' s H). destruct (holds (ga_cond g0) s).
    - rewrite !E_bind, (sample_ren _ s' s H). apply E_ext. intros v.
      rewrite !E_ret. apply Hg, srel_upd, H.
    - rewrite !E_ret. apply Hg. rewrite (H (ga_default g0)). apply srel_upd, H.
  Qed.

  Lemma exec_gas_ren l : forall s' s g' g, srel s' s -> frel g' g ->
    E (exec_gas law (map ren_ga l) s') g' = E (exec_gas law l s) g.
  Proof.
    induction l as [|g0 l IH]; intros s' s g' g H Hg; cbn [map exec_gas].
    - rewrite !E_ret. apply Hg, H.
    - rewrite !E_bind. apply exec_ga_ren; [exact H|].
      intros t' t Ht. apply IH; assumption.
  Qed.

  (* every n, every flat program, every pair of related start states and observables *)
  Theorem frun_alpha_invariant fp n : forall s' s g' g, srel s' s -> frel g' g ->
    E (frun law (rename_fp fp) n s') g' = E (frun law fp n s) g.
  Proof.
    induction n as [|n IH]; intros s' s g' g H Hg; cbn [frun].
    - unfold rename_fp; cbn [fp_init]. apply exec_gas_ren; assumption.
    - rewrite !E_bind. apply IH; [exact H|].
      intros t' t Ht. unfold fstep, rename_fp; cbn [fp_body]. apply exec_gas_ren; assumption.
  Qed.

  (* the form of the brief: start state and observable pulled back along rho; the observable
     only has to respect pointwise equality of states (every moment / probability does) *)
  Definition extensional (g : state -> Qc) : Prop :=
    forall s1 s2, (forall x, s1 x = s2 x) -> g s1 = g s2.

  Corollary frun_alpha_pullback fp n s' g : extensional g ->
    E (frun law (rename_fp fp) n s') (fun t => g (fun x => t (rho x)))
    = E (frun law fp n (fun x => s' (rho x))) g.
  Proof.
    intros Hg. apply frun_alpha_invariant.
    - intros x; reflexivity.
    - intros t' t Ht. apply Hg. exact Ht.
  Qed.

  Corollary exec_gas_alpha_pullback l s' g : extensional g ->
    E (exec_gas law (map ren_ga l) s') (fun t => g (fun x => t (rho x)))
    = E (exec_gas law l (fun x => s' (rho x))) g.
  Proof.
    intros Hg. apply exec_gas_ren.
    - intros x; reflexivity.
    - intros t' t Ht. apply Hg. exact Ht.
  Qed.
End Alpha.
