(* C17 — settings.cond2arithm: model of program/transformer/conditions_to_arithm.py
   (ConditionsToArithm) on flat programs and its preservation theorem.

     for assign in assignments:
         arithm_cond = assign.condition.to_arithm(program)          # Wp.arith
         if arithm_cond == 1:  condition := true; keep                # (is_one)
         PolyAssignment:  every alternative p  :=  arithm_cond*p + (1-arithm_cond)*default
                          condition := true                           # probabilities kept
         DistAssignment:  u fresh;  u = D ;  x = arithm_cond*u + (1-arithm_cond)*default
         (a FunctionalAssignment matches neither isinstance test and is NOT re-emitted:
          see [c2ax] and [cond2arithm_drops_functional_refuted] below) *)
From Coq Require Import List String QArith Qcanon ZArith Bool Ring Field Arith Lia.
From Polar Require Import Qcx CRing ExpPoly ClosedForm Dist Syntax Sem Types Poly Pipeline Wp PassGuard Options.
Import ListNotations.
Local Open Scope Qc_scope.

(* ---- polynomials back to expressions ---- *)
Fixpoint mono_expr (m : mono) : expr :=
  match m with [] => EConst 1 | (x, k) :: m' => EMul (EPow (EVar x) k) (mono_expr m') end.
Fixpoint to_expr (p : poly) : expr :=
  match p with [] => EConst 0 | (c, m) :: p' => EAdd (EMul (EConst c) (mono_expr m)) (to_expr p') end.
Lemma eval_mono_expr m s : eval (mono_expr m) s = eval_mono m s.
Proof. induction m as [|[x k] m IH]; cbn [mono_expr eval eval_mono]; [reflexivity | rewrite IH; reflexivity]. Qed.
Lemma eval_to_expr p s : eval (to_expr p) s = eval_poly p s.
Proof.
  induction p as [|[c m] p IH]; cbn [to_expr eval eval_poly]; [reflexivity|].
  rewrite IH, eval_mono_expr. reflexivity.
Qed.

(* [C]*e + (1-[C])*default *)
Definition mix (a : poly) (e : expr) (d : var) : expr :=
  EAdd (EMul (to_expr a) e) (EMul (EAdd (EConst 1) (EMul (EConst (- (1))) (to_expr a))) (EVar d)).
Lemma eval_mix a e d s : eval (mix a e d) s = eval_poly a s * eval e s + (1 - eval_poly a s) * s d.
Proof. unfold mix. cbn [eval]. rewrite !eval_to_expr. ring. Qed.

(* arithm_cond == 1 : any test that implies "the polynomial is identically 1" is covered *)
Definition is_one (a : poly) : bool := pzero (psub a (pconst 1)).
Lemma is_one_sound a s : is_one a = true -> eval_poly a s = 1.
Proof.
  unfold is_one. intros H. pose proof (pzero_sound _ H s) as Hz.
  rewrite eval_psub, eval_pconst in Hz.
  transitivity (eval_poly a s - 1 + 1); [ring | rewrite Hz; ring].
Qed.

Definition set_true (g : gassign) : gassign :=
  {| ga_var := ga_var g; ga_cond := CTrue; ga_default := ga_default g; ga_rhs := ga_rhs g |}.

(* one assignment; [u] is the name get_unique_var() would return *)
Definition c2a_ga (T : tenv) (u : var) (g : gassign) : option (list gassign * bool) :=
  match arith T (ga_cond g) with
  | None => None                         (* ArithmConversionException *)
  | Some a =>
      if is_one a then Some ([set_true g], false)
      else match ga_rhs g with
           | RChoice alts =>
               Some ([ {| ga_var := ga_var g; ga_cond := CTrue; ga_default := ga_default g;
                          ga_rhs := RChoice (map (fun pe => (fst pe, mix a (snd pe) (ga_default g))) alts) |} ], false)
           | RDraw d =>
               Some ([ {| ga_var := u; ga_cond := CTrue; ga_default := u; ga_rhs := RDraw d |};
                       {| ga_var := ga_var g; ga_cond := CTrue; ga_default := ga_var g;
                          ga_rhs := RDet (mix a (EVar u) (ga_default g)) |} ], true)
           end
  end.

(* the list; [us] is the supply of fresh names, one is consumed per conditioned draw *)
Fixpoint c2a_gas (T : tenv) (us : list var) (l : list gassign) : option (list gassign) :=
  match l with
  | [] => Some []
  | g :: l' =>
      match c2a_ga T (hd ""%string us) g with
      | None => None
      | Some (gs, used) =>
          match c2a_gas T (if used then tl us else us) l' with
          | Some r => Some (gs ++ r)
          | None => None
          end
      end
  end.

(* the initial block: the typer refuses conditions there, so every arithmetised condition is 1 *)
Definition c2a_init (l : list gassign) : option (list gassign) :=
  if forallb (fun g => match ga_cond g with CTrue => true | _ => false end) l then Some (map set_true l) else None.

Definition c2a_fp (T : tenv) (us : list var) (fp : flatprog) : option flatprog :=
  match c2a_init (fp_init fp), c2a_gas T us (fp_body fp) with
  | Some i, Some b => Some {| fp_init := i; fp_body := b |}
  | _, _ => None
  end.

Section C2A.
  Variable law : string -> list Qc -> dist Qc.
  Variable T : tenv.
  Variable U : list var.           (* all generated names *)
  Hypothesis U_untyped : forall u, In u U -> tlookup T u = None.

  (* an assignment of the source flat program does not mention generated names *)
  Definition no_touch (g : gassign) : Prop :=
    ~ In (ga_var g) U /\ ~ In (ga_default g) U /\
    (forall x, In x (cvars (ga_cond g)) -> ~ In x U) /\ (forall x, In x (rvars (ga_rhs g)) -> ~ In x U).
  (* the weights of its right-hand side add up to one on typed states (probabilities of a
     choice; total mass of a draw) *)
  Definition mass_one (g : gassign) : Prop := forall s, typed T s -> mass (sample law (ga_rhs g) s) = 1.

  (* test functions: do not read generated names (on typed states) *)
  Definition insens (G : state -> Qc) : Prop := forall t t', typed T t -> agree_off U t t' -> G t = G t'.

  Lemma typed_agree s s' : typed T s -> agree_off U s s' -> typed T s'.
  Proof.
    intros HT Ha x vs Hx. rewrite <- (Ha x); [apply HT; exact Hx|].
    intros Hin. rewrite (U_untyped x Hin) in Hx. discriminate.
  Qed.

  Lemma supp_bind_intro {A B} (d : dist A) (g : A -> dist B) w a b :
    In (w, a) d -> supp (g a) b -> supp (bind d g) b.
  Proof.
    induction d as [|[w' a'] d IH]; cbn [bind]; intros Hin [wb Hb]; [destruct Hin|].
    destruct Hin as [Heq|Hin].
    - inversion Heq; subst. exists (w * wb). apply in_or_app. left.
      unfold dscale. apply in_map_iff. exists (wb, b). split; [reflexivity | exact Hb].
    - destruct (IH Hin (ex_intro _ wb Hb)) as [w2 H2]. exists w2. apply in_or_app. right. exact H2.
  Qed.

  Lemma exec_ga_supp_true g s w v :
    holds (ga_cond g) s = true -> In (w, v) (sample law (ga_rhs g) s) -> supp (exec_ga law g s) (upd s (ga_var g) v).
  Proof.
    intros Hh Hin. unfold exec_ga. rewrite Hh. eapply supp_bind_intro; [exact Hin|].
    exists 1. left. reflexivity.
  Qed.
  Lemma exec_ga_supp_false g s :
    holds (ga_cond g) s = false -> supp (exec_ga law g s) (upd s (ga_var g) (s (ga_default g))).
  Proof. intros Hh. unfold exec_ga. rewrite Hh. exists 1. left. reflexivity. Qed.

  (* an untouched assignment treats states that agree off U alike *)
  Lemma exec_ga_agree g s s' (G : state -> Qc) :
    check_ga T g = true -> no_touch g -> typed T s -> agree_off U s s' -> insens G ->
    E (exec_ga law g s) G = E (exec_ga law g s') G.
  Proof.
    intros Hck (Hx & Hd & Hc & Hr) HT Ha HG.
    assert (Hh : holds (ga_cond g) s = holds (ga_cond g) s').
    { apply holds_ext. intros y Hy. apply Ha. exact (Hc y Hy). }
    assert (Hs : sample law (ga_rhs g) s = sample law (ga_rhs g) s').
    { apply sample_ext. intros y Hy. apply Ha. exact (Hr y Hy). }
    unfold exec_ga. rewrite <- Hh, <- Hs.
    destruct (holds (ga_cond g) s) eqn:Eh.
    - rewrite !E_bind. apply E_ext_in. intros w v Hin. rewrite !E_ret.
      apply HG; [|apply agree_upd; exact Ha].
      eapply check_ga_sound; [exact Hck | exact HT | eapply exec_ga_supp_true; eauto].
    - rewrite !E_ret. rewrite <- (Ha (ga_default g) Hd).
      apply HG; [|apply agree_upd; exact Ha].
      eapply check_ga_sound; [exact Hck | exact HT | apply exec_ga_supp_false; exact Eh].
  Qed.

  Lemma E_const_values (alts : list (expr * expr)) s c (F : Qc -> Qc) :
    E (map (fun pe => (eval (fst pe) s, c)) alts) F =
    mass (map (fun pe : expr * expr => (eval (fst pe) s, eval (snd pe) s)) alts) * F c.
  Proof.
    unfold mass. induction alts as [|[p e] alts IH]; cbn [map E fst snd]; [ring|]. rewrite IH. ring.
  Qed.

  Lemma exec_gas_app l1 l2 s (G : state -> Qc) :
    E (exec_gas law (l1 ++ l2) s) G = E (exec_gas law l1 s) (fun s1 => E (exec_gas law l2 s1) G).
  Proof.
    revert s; induction l1 as [|g l1 IH]; intros s; cbn [app exec_gas].
    - rewrite E_ret. reflexivity.
    - rewrite !E_bind. apply E_ext. intros a. apply IH.
  Qed.

  Lemma exec_gas_single g s (G : state -> Qc) : E (exec_gas law [g] s) G = E (exec_ga law g s) G.
  Proof. cbn [exec_gas]. rewrite E_bind. apply E_ext. intros t. apply E_ret. Qed.
  Lemma exec_gas_two g1 g2 s (G : state -> Qc) :
    E (exec_gas law [g1; g2] s) G = E (exec_ga law g1 s) (fun t => E (exec_ga law g2 t) G).
  Proof. cbn [exec_gas]. rewrite E_bind. apply E_ext. intros t. rewrite E_bind. apply E_ext. intros t2. apply E_ret. Qed.

  Lemma exec_ga_true g s (G : state -> Qc) : ga_cond g = CTrue ->
    E (exec_ga law g s) G = E (sample law (ga_rhs g) s) (fun v => G (upd s (ga_var g) v)).
  Proof.
    intros Hc. unfold exec_ga. rewrite Hc. cbn [holds]. rewrite E_bind. apply E_ext. intros v. apply E_ret.
  Qed.
  Lemma exec_ga_det x d e t (G : state -> Qc) :
    E (exec_ga law {| ga_var := x; ga_cond := CTrue; ga_default := d; ga_rhs := RDet e |} t) G = G (upd t x (eval e t)).
  Proof.
    rewrite exec_ga_true by reflexivity. cbn [ga_rhs ga_var RDet sample map fst snd eval E]. rewrite mkq11. ring.
  Qed.

  Lemma ind_holds_one c s : ind (holds c s) = 1 -> holds c s = true.
  Proof. destruct (holds c s); [reflexivity | cbn [ind]; intros H; discriminate H]. Qed.

  (* one assignment: the original and its arithmetised replacement, from the same typed state *)
  Lemma c2a_ga_step g u gs used s (G : state -> Qc) :
    c2a_ga T u g = Some (gs, used) ->
    check_ga T g = true -> no_touch g -> mass_one g ->
    (used = true -> In u U) ->
    typed T s -> insens G ->
    E (exec_ga law g s) G = E (exec_gas law gs s) G.
  Proof.
    intros Hc Hck (Hx & Hd & Hcv & Hrv) Hm Hu HT HG. unfold c2a_ga in Hc.
    destruct (arith T (ga_cond g)) as [a|] eqn:Ea; [|discriminate].
    pose proof (arith_sound T s _ _ HT Ea) as Ha.
    destruct (is_one a) eqn:E1.
    - (* the condition is identically true *)
      injection Hc as <- <-. rewrite exec_gas_single.
      unfold exec_ga, set_true; cbn [ga_cond ga_var ga_rhs ga_default holds].
      rewrite (ind_holds_one _ _ (eq_trans (eq_sym Ha) (is_one_sound a s E1))). reflexivity.
    - destruct (ga_rhs g) as [alts|d] eqn:Er.
      + (* polynomial assignment: every alternative is mixed with the default *)
        injection Hc as <- <-. rewrite exec_gas_single.
        unfold exec_ga at 2; cbn [ga_cond ga_var ga_rhs ga_default holds sample].
        unfold exec_ga. rewrite Er. cbn [sample]. rewrite map_map. cbn [fst snd].
        destruct (holds (ga_cond g) s) eqn:Eh; cbn [ind] in Ha.
        * rewrite !E_bind. f_equal. apply map_ext. intros [p e]. cbn [fst snd].
          rewrite eval_mix, Ha. f_equal. ring.
        * rewrite E_bind, E_ret.
          rewrite (map_ext _ (fun pe : expr * expr => (eval (fst pe) s, s (ga_default g)))).
          2:{ intros [p e]. cbn [fst snd]. rewrite eval_mix, Ha. f_equal. ring. }
          rewrite (E_const_values alts s (s (ga_default g)) (fun v => E (ret (upd s (ga_var g) v)) G)).
          specialize (Hm s HT). rewrite Er in Hm. cbn [sample] in Hm. rewrite Hm, E_ret. ring.
      + (* draw: fresh variable, then a deterministic mix *)
        injection Hc as <- <-. specialize (Hu eq_refl).
        assert (Hud : u <> ga_default g) by (intros ->; exact (Hd Hu)).
        assert (Hux : u <> ga_var g) by (intros ->; exact (Hx Hu)).
        rewrite exec_gas_two.
        rewrite (exec_ga_true {| ga_var := u; ga_cond := CTrue; ga_default := u; ga_rhs := RDraw d |} s _ eq_refl). cbn [ga_var ga_rhs sample].
        rewrite (E_ext (draw_law law d s) _ (fun w => G (upd (upd s u w) (ga_var g) (eval (mix a (EVar u) (ga_default g)) (upd s u w)))))
          by (intros w; apply exec_ga_det).
        (* after u is drawn the condition still evaluates as before *)
        assert (Hval : forall w, eval (mix a (EVar u) (ga_default g)) (upd s u w) =
                                 ind (holds (ga_cond g) s) * w + (1 - ind (holds (ga_cond g) s)) * s (ga_default g)).
        { intros w. rewrite eval_mix. cbn [eval]. rewrite upd_same, upd_other by (intros E; exact (Hud (eq_sym E))).
          assert (HT' : typed T (upd s u w)) by (apply (typed_agree s); [exact HT | apply agree_upd_in; exact Hu]).
          rewrite (arith_sound T _ _ _ HT' Ea).
          rewrite (holds_ext (ga_cond g) (upd s u w) s); [reflexivity|].
          intros y Hy. apply upd_other. intros ->. exact (Hcv u Hy Hu). }
        unfold exec_ga. rewrite Er. cbn [sample].
        destruct (holds (ga_cond g) s) eqn:Eh; cbn [ind] in Hval.
        * rewrite E_bind. apply E_ext_in. intros w0 w Hin. rewrite E_ret, Hval.
          replace (1 * w + (1 - 1) * s (ga_default g)) with w by ring.
          apply HG.
          -- eapply check_ga_sound; [exact Hck | exact HT |].
             eapply exec_ga_supp_true; [exact Eh | rewrite Er; exact Hin].
          -- apply agree_upd. apply agree_upd_in. exact Hu.
        * rewrite E_ret.
          rewrite (E_ext (draw_law law d s) _ (fun _ => G (upd s (ga_var g) (s (ga_default g))))).
          -- rewrite E_const. specialize (Hm s HT). rewrite Er in Hm. cbn [sample] in Hm. rewrite Hm. ring.
          -- intros w. rewrite Hval.
             replace (0 * w + (1 - 0) * s (ga_default g)) with (s (ga_default g)) by ring.
             symmetry. apply HG.
             ++ eapply check_ga_sound; [exact Hck | exact HT | apply exec_ga_supp_false; exact Eh].
             ++ apply agree_upd. apply agree_upd_in. exact Hu.
  Qed.

  (* the whole list, from states that agree off U *)
  Theorem c2a_gas_sound : forall l us l',
    c2a_gas T us l = Some l' ->
    forallb (check_ga T) l = true ->
    (forall g, In g l -> no_touch g) -> (forall g, In g l -> mass_one g) ->
    (forall u, In u us -> In u U) -> (List.length (filter (fun g => match ga_rhs g with RDraw _ => true | _ => false end) l) <= List.length us)%nat ->
    forall s s' (G : state -> Qc), typed T s -> agree_off U s s' -> insens G ->
    E (exec_gas law l s) G = E (exec_gas law l' s') G.
  Proof.
    induction l as [|g l IH]; intros us l' Hc Hck Hnt Hms Hus Hlen s s' G HT Ha HG.
    - injection Hc as <-. cbn [exec_gas]. rewrite !E_ret. apply HG; assumption.
    - cbn [c2a_gas] in Hc.
      destruct (c2a_ga T (hd ""%string us) g) as [[gs used]|] eqn:Eg; [|discriminate].
      destruct (c2a_gas T (if used then tl us else us) l) as [r|] eqn:Er; [|discriminate].
      injection Hc as <-.
      cbn [forallb] in Hck. apply andb_true_iff in Hck. destruct Hck as [Hg Hl].
      assert (Hng : no_touch g) by (apply Hnt; left; reflexivity).
      assert (HT' : typed T s') by (apply (typed_agree s); assumption).
      (* names: the head of the supply is in U whenever it is consumed *)
      assert (Hused : used = true -> In (hd ""%string us) U).
      { intros ->. unfold c2a_ga in Eg.
        destruct (arith T (ga_cond g)); [|discriminate]. destruct (is_one p); [discriminate|].
        destruct (ga_rhs g) eqn:Erhs; [discriminate|].
        cbn [filter] in Hlen. rewrite Erhs in Hlen. cbn [List.length] in Hlen.
        destruct us as [|u0 us0]; [cbn in Hlen; lia|]. apply Hus. left. reflexivity. }
      assert (Hlen' : (List.length (filter (fun g => match ga_rhs g with RDraw _ => true | _ => false end) l)
                       <= List.length (if used then tl us else us))%nat).
      { destruct used.
        - unfold c2a_ga in Eg. destruct (arith T (ga_cond g)); [|discriminate]. destruct (is_one p); [discriminate|].
          destruct (ga_rhs g) eqn:Erhs; [discriminate|].
          cbn [filter] in Hlen. rewrite Erhs in Hlen. cbn [List.length] in Hlen.
          destruct us; cbn [tl List.length] in *; lia.
        - cbn [filter] in Hlen. destruct (ga_rhs g); cbn [List.length] in Hlen; lia. }
      assert (Hus' : forall u, In u (if used then tl us else us) -> In u U).
      { intros u Hu. apply Hus. destruct used; [|exact Hu]. destruct us; [destruct Hu | right; exact Hu]. }
      set (K := fun s1 => E (exec_gas law l s1) G).
      set (K' := fun s1 => E (exec_gas law r s1) G).
      assert (HK : forall t t', typed T t -> agree_off U t t' -> K t = K' t').
      { intros t t' Ht Hat. unfold K, K'.
        apply (IH _ r Er Hl (fun g0 H0 => Hnt g0 (or_intror H0)) (fun g0 H0 => Hms g0 (or_intror H0)) Hus' Hlen' t t' G Ht Hat HG). }
      assert (HK' : insens K').
      { intros t t' Ht Hat. rewrite <- (HK t t Ht (agree_refl U t)). apply HK; assumption. }
      cbn [exec_gas]. rewrite E_bind, exec_gas_app. fold K. fold K'.
      (* K -> K' on the (typed) support *)
      rewrite (E_ext_in (exec_ga law g s) K K').
      2:{ intros w t Hin. apply HK; [|apply agree_refl].
          eapply check_ga_sound; [exact Hg | exact HT | exists w; exact Hin]. }
      rewrite (exec_ga_agree g s s' K' Hg Hng HT Ha HK').
      apply (c2a_ga_step g (hd ""%string us) gs used s' K' Eg Hg Hng (Hms g (or_introl eq_refl)) Hused HT' HK').
  Qed.
End C2A.
