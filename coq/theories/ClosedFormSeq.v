(* C04, stated against the recurrence itself instead of against [iter_mat]:
   an accepted closed form (i) starts at the initial vector, (ii) satisfies
   x(n+1) = A x(n) at every n, and (iii) equals EVERY sequence that does (uniqueness),
   so "reproduces the linear recurrence sequence" does not rest on reading the
   definition of [iter_mat].  Also: the listed special cases may be dropped from the
   point where the general expressions are valid ([pw_eval_general_from]). *)
From Coq Require Import List Bool Arith Lia.
From Polar Require Import CRing ExpPoly ClosedForm.
Import ListNotations.

Section Seq.
  Variable R : cring.

  (* any sequence obeying the recurrence from v is A^n v *)
  Lemma rec_sequence_unique (A : list (list R)) (v : list R) (x : nat -> list R) :
    x 0 = v -> (forall n, x (S n) = mvec A (x n)) -> forall n, x n = iter_mat A n v.
  Proof.
    intros H0 Hs n; induction n as [|n IH]; cbn [iter_mat]; [exact H0|].
    rewrite Hs, IH; reflexivity.
  Qed.

  Theorem accepted_starts_at_init A v (F : list (epoly R)) sp :
    check_solution A v F sp = true -> pw_eval F sp 0 = v.
  Proof. intros H; rewrite (check_solution_sound R _ _ _ _ H 0); reflexivity. Qed.

  Theorem accepted_satisfies_recurrence A v (F : list (epoly R)) sp :
    check_solution A v F sp = true ->
    forall n, pw_eval F sp (S n) = mvec A (pw_eval F sp n).
  Proof.
    intros H n.
    rewrite (check_solution_sound R _ _ _ _ H (S n)), (check_solution_sound R _ _ _ _ H n).
    reflexivity.
  Qed.

  Theorem accepted_is_the_recurrence_sequence A v (F : list (epoly R)) sp :
    check_solution A v F sp = true ->
    forall x : nat -> list R,
      x 0 = v -> (forall n, x (S n) = mvec A (x n)) -> forall n, pw_eval F sp n = x n.
  Proof.
    intros H x H0 Hs n.
    rewrite (check_solution_sound R _ _ _ _ H n), (rec_sequence_unique A v x H0 Hs n).
    reflexivity.
  Qed.

  (* past the listed special cases the general expressions alone give the sequence *)
  Theorem general_part_from_cutoff A v (F : list (epoly R)) sp :
    check_solution A v F sp = true ->
    forall n, length sp <= n -> evalF F n = iter_mat A n v.
  Proof.
    intros H n Hn. rewrite <- (check_solution_sound R _ _ _ _ H n).
    unfold pw_eval. destruct (n <? length sp) eqn:E; [|reflexivity].
    apply Nat.ltb_lt in E; lia.
  Qed.
End Seq.
