(* C20 — the two generators of auxiliary names share one name space.
   MultiAssignTransformer names the i-th version of a variable  "_" + var + str(i);
   utils.identifiers.get_unique_var names its k-th result        "_" + tag + str(k).
   The first is literally [gen_name var i]: a version name IS a counter name exactly when the
   source variable is spelled like a tag and the counter has the right value, so whether two
   different objects of a program get the same name depends on how many names earlier
   analyses of the process consumed.  The repaired spelling "_" + var + "_" + str(i) is never a
   counter name of one of Polar's tags. *)
From Coq Require Import List String Ascii Bool Arith.
From Polar Require Import HistoryNames.
Import ListNotations.
Local Open Scope string_scope.

Definition ma_name (var : string) (i : nat) : string := "_" ++ var ++ dec i.
Definition ma_name_fixed (var : string) (i : nat) : string := "_" ++ var ++ "_" ++ dec i.

Lemma ma_name_is_gen_name var i : ma_name var i = gen_name var i.
Proof. reflexivity. Qed.

(* the property "version names and counter names are different objects' names" fails ... *)
Theorem multiassign_collision_refuted :
  ~ (forall var i tag k, In tag polar_tags -> ma_name var i <> gen_name tag k).
Proof.
  intros H. apply (H "t" 1 "t" 1); [right; right; right; left; reflexivity | reflexivity].
Qed.

(* ... exactly for tag-named variables (among variables not ending in a digit), and then only
   at ONE value of the counter: the collision is an accident of the process history *)
Theorem multiassign_collision_iff var i tag k :
  ends_nondigit var = true -> ends_nondigit tag = true ->
  (ma_name var i = gen_name tag k <-> var = tag /\ i = k).
Proof.
  intros Hv Ht. split.
  - intros H. apply (gen_name_injective_tags var tag i k Hv Ht H).
  - intros [-> ->]. reflexivity.
Qed.

(* the counter k0 + j of the j-th name generated after k0 earlier ones hits the version index
   i for exactly one k0: with any other history there is no collision *)
Corollary multiassign_collision_depends_on_history var i j k0 k0' :
  ends_nondigit var = true ->
  ma_name var i = gen_name var (k0 + j) -> ma_name var i = gen_name var (k0' + j) -> k0 = k0'.
Proof.
  intros Hv H1 H2. rewrite H1 in H2. apply gen_name_injective in H2.
  apply (Nat.add_cancel_r k0 k0' j). exact H2.
Qed.

(* the repaired spelling *)
Fixpoint ends_underscore (s : string) : bool :=
  match s with
  | "" => false
  | String c "" => Ascii.eqb c "_"
  | String _ r => ends_underscore r
  end.

Lemma ends_underscore_app v : ends_underscore (v ++ "_") = true.
Proof.
  induction v as [|c r IH]; [reflexivity|].
  cbn [append]. destruct (r ++ "_") eqn:E.
  - destruct r; discriminate E.
  - cbn [ends_underscore]. exact IH.
Qed.

Lemma ends_nondigit_app_underscore v : ends_nondigit (v ++ "_") = true.
Proof.
  induction v as [|c r IH]; [reflexivity|].
  cbn [append]. destruct (r ++ "_") eqn:E.
  - destruct r; discriminate E.
  - cbn [ends_nondigit]. exact IH.
Qed.

Lemma app_assoc_str (a b c : string) : (a ++ b) ++ c = a ++ (b ++ c).
Proof. induction a as [|x a IH]; cbn [append]; [reflexivity | rewrite IH; reflexivity]. Qed.

Lemma ma_name_fixed_is_gen_name var i : ma_name_fixed var i = gen_name (var ++ "_") i.
Proof. unfold ma_name_fixed, gen_name. rewrite app_assoc_str. reflexivity. Qed.

Theorem multiassign_fixed_never_collides var i tag k :
  ends_nondigit tag = true -> ends_underscore tag = false -> ma_name_fixed var i <> gen_name tag k.
Proof.
  intros Ht Hu H. rewrite ma_name_fixed_is_gen_name in H.
  apply gen_name_injective_tags in H; [|apply ends_nondigit_app_underscore | exact Ht].
  destruct H as [H _]. rewrite <- H, ends_underscore_app in Hu. discriminate Hu.
Qed.

Lemma polar_tags_no_underscore_end : forallb (fun t => ends_nondigit t && negb (ends_underscore t)) polar_tags = true.
Proof. vm_compute. reflexivity. Qed.

Corollary multiassign_fixed_never_collides_polar var i tag k :
  In tag polar_tags -> ma_name_fixed var i <> gen_name tag k.
Proof.
  intros Hin. pose proof polar_tags_no_underscore_end as H. rewrite forallb_forall in H.
  specialize (H tag Hin). apply andb_true_iff in H. destruct H as [H1 H2].
  apply multiassign_fixed_never_collides; [exact H1 | destruct (ends_underscore tag); [discriminate H2 | reflexivity]].
Qed.
